(* Proofs about the model AlgNum.v of number/algebraic_number.c over an ARBITRARY real closed field R (MathComp
   rcfType; no real-number axioms).  Integer polynomials act on R through map_poly ZR, ZR : Z -> R the canonical ring
   morphism; dyadics / rationals denote ZR a / ZR (2^n), ZR n / ZR d. *)
From Coq Require Import ZArith NArith QArith List Lia.
From LP Require Import Scalar ScalarProofs UPoly RefAlg AlgNum.
Set Warnings "-notation-overridden,-ambiguous-paths".
From mathcomp Require Import all_ssreflect all_algebra all_real_closed.
From mathcomp Require Import ssrZ zify ring.
From LP Require Import UPolySpec.
Set Warnings "notation-overridden,ambiguous-paths".
Import GRing.Theory Num.Theory Num.Def Order.TTheory.
Set Implicit Arguments.
Unset Strict Implicit.
Unset Printing Implicit Defensive.
Local Open Scope ring_scope.
(* ScalarProofs re-binds the zify post hook; give it back to mathcomp.zify *)
Delimit Scope Z_scope with ZZ.
Notation srat := Scalar.rat.
Ltac Zify.zify_post_hook ::= ZifyBool.elim_bool_cstr; Z.div_mod_to_equations.

Section Bridge.
Variable R : rcfType.

(* ------------------------------------------------------------------ Z -> R *)
Definition ZR : Z -> R := intr \o int_of_Z.
Canonical ZR_additive := [additive of ZR].
Canonical ZR_rmorphism := [rmorphism of ZR].

Lemma ZR_le (a b : Z) : (ZR a <= ZR b) = Z.leb a b.
Proof. rewrite /ZR /= ler_int; lia. Qed.
Lemma ZR_lt (a b : Z) : (ZR a < ZR b) = Z.ltb a b.
Proof. rewrite /ZR /= ltr_int; lia. Qed.
Lemma ZR_inj : injective ZR.
Proof. by move=> a b /eqP; rewrite /ZR /= eqr_int => /eqP E; lia. Qed.
Lemma ZR_eq (a b : Z) : (ZR a == ZR b) = Z.eqb a b.
Proof. by rewrite (inj_eq ZR_inj) ZeqbP. Qed.
Lemma ZR0 : ZR 0%ZZ = 0. Proof. exact: rmorph0. Qed.
Lemma ZR1 : ZR 1%ZZ = 1. Proof. exact: rmorph1. Qed.
Lemma ZRN1 : ZR (-1)%ZZ = -1.
Proof. by rewrite -[(-1)%ZZ]/(GRing.opp (1%ZZ : Z)) rmorphN; congr (- _); exact: ZR1. Qed.
Lemma ZR_gt0 (a : Z) : (0 < ZR a) = Z.ltb 0 a. Proof. by rewrite -ZR0 ZR_lt. Qed.
Lemma ZR_lt0 (a : Z) : (ZR a < 0) = Z.ltb a 0. Proof. by rewrite -ZR0 ZR_lt. Qed.
Lemma ZR_eq0 (a : Z) : (ZR a == 0) = Z.eqb a 0. Proof. by rewrite -ZR0 ZR_eq. Qed.
Lemma ZR_add a b : ZR (a + b)%ZZ = ZR a + ZR b. Proof. exact: rmorphD. Qed.
Lemma ZR_opp a : ZR (- a)%ZZ = - ZR a. Proof. exact: rmorphN. Qed.
Lemma ZR_sub a b : ZR (a - b)%ZZ = ZR a - ZR b. Proof. exact: rmorphB. Qed.
Lemma ZR_mul a b : ZR (a * b)%ZZ = ZR a * ZR b. Proof. exact: rmorphM. Qed.

Lemma ZR_sgn (a : Z) : ZR (Z.sgn a) = sgr (ZR a).
Proof.
case: (Z.sgn_spec a) => [[H ->]|[[H ->]|[H ->]]].
- by rewrite ZR1 gtr0_sg // ZR_gt0; lia.
- by rewrite -H ZR0 sgr0.
- by rewrite ZRN1 ltr0_sg // ZR_lt0; lia.
Qed.

Lemma ZR_pow2 (n : N) : ZR (pow2 n) = 2%:R ^+ (N.to_nat n).
Proof.
rewrite /pow2 -(N2Nat.id n) Nat2N.id; elim: (N.to_nat n) => [|k IH]; first by rewrite expr0 ZR1.
have -> : (2 ^ Z.of_N (N.of_nat k.+1) = 2 * 2 ^ Z.of_N (N.of_nat k))%ZZ by rewrite -Z.pow_succ_r; [f_equal|]; lia.
by rewrite ZR_mul IH exprS; congr (_ * _); rewrite (_ : 2%ZZ = (1 + 1)%ZZ) // ZR_add ZR1.
Qed.
Lemma ZR_pow2_gt0 n : 0 < ZR (pow2 n).
Proof. by rewrite ZR_pow2 exprn_gt0 // ltr0n. Qed.
Lemma ZR_pow2_neq0 n : ZR (pow2 n) != 0.
Proof. by rewrite gt_eqF // ZR_pow2_gt0. Qed.

(* ------------------------------------------------------------------ Q -> R (stdlib rationals, used by ScalarProofs) *)
Definition QR (q : Q) : R := ZR (Qnum q) / ZR (Zpos (Qden q)).

Lemma ZRpos_gt0 p : 0 < ZR (Zpos p). Proof. by rewrite ZR_gt0. Qed.
Lemma ZRpos_neq0 p : ZR (Zpos p) != 0. Proof. by rewrite gt_eqF // ZRpos_gt0. Qed.
Hint Resolve ZRpos_neq0 ZRpos_gt0 : core.

Lemma QR_eq p q : Qeq p q -> QR p = QR q.
Proof.
rewrite /Qeq /QR => E; apply/eqP; rewrite eqr_div //; apply/eqP.
by rewrite -!ZR_mul E.
Qed.
Lemma QR_inject_Z z : QR (inject_Z z) = ZR z.
Proof. by rewrite /QR /= ZR1 divr1. Qed.
Lemma QR_add p q : QR (Qplus p q) = QR p + QR q.
Proof.
rewrite /QR /Qplus /= addf_div // Pos2Z.inj_mul !ZR_add !ZR_mul; congr (_ / _).
Qed.
Lemma QR_opp p : QR (Qopp p) = - QR p.
Proof. by rewrite /QR /Qopp /= ZR_opp mulNr. Qed.
Lemma QR_sub p q : QR (Qminus p q) = QR p - QR q.
Proof. by rewrite /Qminus QR_add QR_opp. Qed.
Lemma QR_mul p q : QR (Qmult p q) = QR p * QR q.
Proof. by rewrite /QR /Qmult /= Pos2Z.inj_mul !ZR_mul mulf_div. Qed.
Lemma QR_inv p : QR (Qinv p) = (QR p)^-1.
Proof.
rewrite /QR /Qinv; case: p => [[|n|n] d] /=.
- by rewrite ZR0 !mul0r invr0.
- by rewrite invf_div.
- rewrite invf_div (_ : Z.neg n = - Z.pos n)%ZZ // (_ : Z.neg d = - Z.pos d)%ZZ // !ZR_opp.
  by rewrite mulNr invrN mulrN.
Qed.
Lemma QR_div p q : QR (Qdiv p q) = QR p / QR q.
Proof. by rewrite /Qdiv QR_mul QR_inv. Qed.
Lemma QR_le p q : Qle p q <-> QR p <= QR q.
Proof.
rewrite /Qle /QR ler_pdivr_mulr // mulrAC ler_pdivl_mulr // -!ZR_mul ZR_le; split => H; lia.
Qed.
Lemma QR_lt p q : Qlt p q <-> QR p < QR q.
Proof.
rewrite /Qlt /QR ltr_pdivr_mulr // mulrAC ltr_pdivl_mulr // -!ZR_mul ZR_lt; split => H; lia.
Qed.
Lemma QR_compare p q : ZR (cmp_to_Z (Qcompare p q)) = sgr (QR p - QR q).
Proof.
case E: (Qcompare p q); rewrite /cmp_to_Z.
- by move/Qeq_alt/QR_eq: E => ->; rewrite subrr sgr0 ZR0.
- by move/Qlt_alt/QR_lt: E => E; rewrite ZRN1 ltr0_sg // subr_lt0.
- by move/Qgt_alt/QR_lt: E => E; rewrite ZR1 gtr0_sg // subr_gt0.
Qed.

(* ------------------------------------------------------------------ dyadics, rationals *)
Definition dyR (d : dyadic) : R := ZR (da d) / ZR (pow2 (dn d)).
Definition ratR (q : Scalar.rat) : R := ZR (fst q) / ZR (snd q).

Lemma dyR_QofD d : dyR d = QR (QofD d).
Proof. by rewrite /dyR /QofD QR_div !QR_inject_Z. Qed.
Lemma ratR_QofR q : ratR q = QR (QofR q).
Proof. by rewrite /ratR /QofR QR_div !QR_inject_Z. Qed.

End Bridge.

Arguments ZR {R}.
Arguments QR {R}.
Arguments dyR {R}.
Arguments ratR {R}.

(* ------------------------------------------------------------------ signs of integer polynomials at points of R *)
Section PolySign.
Variable R : rcfType.
Implicit Types (p : seq Z) (d : dyadic).

Definition polyR p : {poly R} := map_poly ZR (Poly p).

Lemma polyR_nil : polyR [::] = 0.
Proof. by rewrite /polyR /= rmorph0. Qed.
Lemma polyR_cons c p : polyR (c :: p) = (ZR c)%:P + polyR p * 'X.
Proof. by rewrite /polyR Poly_cons0 rmorphD rmorphM /= map_polyC map_polyX. Qed.

Lemma peval_hom_auxP p (a b : Z) : ZR b != 0 :> R ->
  ZR (snd (peval_hom_aux p a b)) = ZR b ^+ size p :> R /\
  ZR (fst (peval_hom_aux p a b)) * ZR b = ZR b ^+ size p * (polyR p).[ZR a / ZR b] :> R.
Proof.
move=> b0; elim: p => [|c p [IH1 IH2]] /=.
  by rewrite ZR1 ZR0 expr0 polyR_nil horner0 mul0r mulr0.
case E: (peval_hom_aux p a b) IH1 IH2 => [v bp] /= IH1 IH2; split.
  by rewrite ZR_mul IH1 exprSr.
rewrite polyR_cons hornerD hornerM hornerC hornerX ZR_add !ZR_mul IH1 exprS.
rewrite mulrDl -[ZR a * ZR v * ZR b]mulrA IH2.
move: (ZR b ^+ size p) ((polyR p).[ZR a / ZR b]) => B P; field; exact: b0.
Qed.

Lemma psgn_at_ratP p (a b : Z) : Z.ltb 0 b ->
  ZR (psgn_at_rat p a b) = sgr (polyR p).[ZR a / ZR b] :> R.
Proof.
move=> bpos; have b0 : 0 < ZR b :> R by rewrite ZR_gt0.
have [_ H] := @peval_hom_auxP p a b (lt0r_neq0 b0).
rewrite /psgn_at_rat ZR_sgn -[LHS]mulr1 -(gtr0_sg b0) -sgrM H sgrM sgrX gtr0_sg // expr1n mul1r.
by [].
Qed.

Lemma psgn_dyP p d : ZR (an_psgn_dy p d) = sgr (polyR p).[dyR d] :> R.
Proof.
rewrite /an_psgn_dy /dyR psgn_at_ratP //.
by have := ZR_pow2_gt0 R (dn d); rewrite ZR_gt0.
Qed.

Lemma psgn_qP p (q : srat) : Z.ltb 0 (snd q) -> ZR (psgn_q p q) = sgr (polyR p).[ratR q] :> R.
Proof. by move=> H; rewrite /psgn_q /ratR psgn_at_ratP. Qed.

Lemma psgn_zP p (z : Z) : ZR (an_psgn_z p z) = sgr (polyR p).[ZR z] :> R.
Proof. by rewrite /an_psgn_z ZR_sgn -horner_peval /polyR horner_map. Qed.

(* a Z that is the image of a sign is -1, 0 or 1, and reflects the order *)
Lemma ZR_is_sgn (z : Z) (x : R) : ZR z = sgr x ->
  [/\ Z.ltb z 0 = (x < 0), Z.eqb z 0 = (x == 0), Z.ltb 0 z = (0 < x) &
      (z = (-1)%ZZ \/ z = 0%ZZ \/ z = 1%ZZ)].
Proof.
have [x0|x0|x0] := ltrgt0P x.
- rewrite (gtr0_sg x0) => H; have -> : z = 1%ZZ by apply: (@ZR_inj R); rewrite H ZR1.
  by split=> //; right; right.
- rewrite (ltr0_sg x0) => H; have -> : z = (-1)%ZZ by apply: (@ZR_inj R); rewrite H ZRN1.
  by split=> //; left.
- rewrite x0 sgr0 => H; have -> : z = 0%ZZ by apply: (@ZR_inj R); rewrite H ZR0.
  by split=> //; right; left.
Qed.

End PolySign.

Arguments polyR {R}.

(* ------------------------------------------------------------------ dyadic operations of the model, in R *)
Section DyadicR.
Variable R : rcfType.
Implicit Types (a b d : dyadic).
Local Notation dyR := (@dyR R).

Lemma dy_midR a b : dyR (an_dy_mid a b) = (dyR a + dyR b) / 2%:R.
Proof.
rewrite /an_dy_mid /an_dy_add0 (@dy_add_dst NoAlias _ a b I) (@dy_div_2exp_dst AliasA _ _ 1 erefl).
have [_ H1] := dy_div_2exp_spec (dy_add_pure a b) 1.
have [_ H2] := dy_add_spec a b.
rewrite !dyR_QofD (QR_eq R H1) QR_div (QR_eq R H2) QR_add QR_inject_Z.
by congr (_ / _); rewrite ZR_pow2 expr1.
Qed.

Lemma dy_cmpR a b : ZR (Z.sgn (dy_cmp a b)) = sgr (dyR a - dyR b).
Proof. by rewrite dy_cmp_spec QR_compare !dyR_QofD. Qed.

Lemma dy_cmp_lt a b : Z.ltb (dy_cmp a b) 0 = (dyR a < dyR b).
Proof.
have [H _ _ _] := ZR_is_sgn (dy_cmpR a b); rewrite subr_lt0 in H; rewrite -H.
by case: (dy_cmp a b).
Qed.
Lemma dy_cmp_gt a b : Z.ltb 0 (dy_cmp a b) = (dyR b < dyR a).
Proof.
have [_ _ H _] := ZR_is_sgn (dy_cmpR a b); rewrite subr_gt0 in H; rewrite -H.
by case: (dy_cmp a b).
Qed.
Lemma dy_cmp_eq a b : Z.eqb (dy_cmp a b) 0 = (dyR a == dyR b).
Proof.
have [_ H _ _] := ZR_is_sgn (dy_cmpR a b); rewrite subr_eq0 in H; rewrite -H.
by case: (dy_cmp a b).
Qed.
Lemma dy_cmp_le a b : Z.leb (dy_cmp a b) 0 = (dyR a <= dyR b).
Proof.
rewrite le_eqVlt -dy_cmp_eq -dy_cmp_lt; lia.
Qed.
Lemma dy_cmp_ge a b : Z.leb 0 (dy_cmp a b) = (dyR b <= dyR a).
Proof.
rewrite le_eqVlt eq_sym -dy_cmp_eq -dy_cmp_gt; lia.
Qed.

Lemma dy_neg1R a : dyR (an_dy_neg1 a) = - dyR a.
Proof.
by rewrite /an_dy_neg1 (@dy_neg_dst AliasA a a erefl) /dy_neg_pure /dyR /= ZR_opp mulNr.
Qed.

Lemma dy_from_integerR z : dyR (dy_from_integer z) = ZR z.
Proof. by have [_ H] := dy_from_integer_spec z; rewrite dyR_QofD (QR_eq R H) QR_inject_Z. Qed.

Lemma dy_floor_intR a : ZR (dy_floor_int a) <= dyR a < ZR (dy_floor_int a) + 1.
Proof.
have [/QR_le H1 /QR_lt H2] := dy_floor_spec a.
by move: (H1 R) (H2 R); rewrite !QR_inject_Z -dyR_QofD ZR_add ZR1 => -> ->.
Qed.
Lemma dy_ceiling_intR a : ZR (dy_ceiling_int a) - 1 < dyR a <= ZR (dy_ceiling_int a).
Proof.
have [/QR_lt H1 /QR_le H2] := dy_ceiling_spec a.
by move: (H1 R) (H2 R); rewrite !QR_inject_Z -dyR_QofD ZR_sub ZR1 => -> ->.
Qed.

End DyadicR.

(* ------------------------------------------------------------------ "the unique root of p in ]a, b[" *)
Section URoot.
Variable R : rcfType.
Implicit Types (p : {poly R}) (a b m x y : R).

Definition uroot p a b x : Prop :=
  [/\ p != 0, a < x < b, root p x & forall y, a < y < b -> root p y -> y = x].

(* MathComp's sorted list of the roots of p in ]a, b[ is [:: x]  iff  x is the unique root there *)
Lemma urootP p a b x : roots p a b = [:: x] <-> uroot p a b x.
Proof.
split=> [E|[p0 axb rx U]].
  have p0 : p != 0 by apply: contra_eq_neq E => ->; rewrite roots0.
  have : x \in roots p a b by rewrite E inE.
  rewrite in_roots => /and3P[rx]; rewrite in_itv /= => axb _; split=> // y ayb ry.
  have : y \in roots p a b by rewrite in_roots ry p0 in_itv /= ayb.
  by rewrite E inE => /eqP.
apply/eqP; rewrite roots_cons p0 in_itv /= axb rx /=; apply/andP; split; apply/eqP/no_root_roots=> y.
  rewrite in_itv /= => /andP[ay yx]; apply/negP => ry.
  have yb : y < b by case/andP: axb => _; apply: lt_trans.
  by have := U y (introT andP (conj ay yb)) ry => E; rewrite E ltxx in yx.
rewrite in_itv /= => /andP[xy yb]; apply/negP => ry.
have ay : a < y by case/andP: axb => ax _; apply: lt_trans xy.
by have := U y (introT andP (conj ay yb)) ry => E; rewrite E ltxx in xy.
Qed.

(* the selection argument shared by RefAlg.rn_select and libpoly's filter loop: a root of r known to lie in an
   interval where r has exactly one root IS that root *)
Lemma select_unique (r : {poly R}) l h z w :
  root r z -> l < z < h -> roots r l h = [:: w] -> w = z.
Proof. by move=> rz lzh /urootP[_ _ _ U]; rewrite (U z lzh rz). Qed.

Lemma uroot_shrink_right p a b m x :
  a < m < b -> sgr p.[m] * sgr p.[b] = -1 -> uroot p a b x -> uroot p m b x.
Proof.
move=> /andP[am mb] sg [p0 axb rx U].
have [y ymb ry] := ivt_sign (ltW mb) sg.
have yab : a < y < b by move: ymb; rewrite in_itv /= => /andP[my ->]; rewrite (lt_trans am my).
have yx := U y yab ry; split=> //; first by rewrite -yx; move: ymb; rewrite in_itv.
move=> z /andP[mz zb] rz; apply: U => //.
by rewrite zb (lt_trans am mz).
Qed.

Lemma uroot_shrink_left p a b m x :
  a < m < b -> sgr p.[a] * sgr p.[m] = -1 -> uroot p a b x -> uroot p a m x.
Proof.
move=> /andP[am mb] sg [p0 axb rx U].
have [y yam ry] := ivt_sign (ltW am) sg.
have yab : a < y < b by move: yam; rewrite in_itv /= => /andP[-> ym]; rewrite (lt_trans ym mb).
have yx := U y yab ry; split=> //; first by rewrite -yx; move: yam; rewrite in_itv.
move=> z /andP[az zm] rz; apply: U => //.
by rewrite az (lt_trans zm mb).
Qed.

Lemma uroot_hit p a b m x : a < m < b -> root p m -> uroot p a b x -> x = m.
Proof. by move=> amb rm [_ _ _ U]; rewrite (U m amb rm). Qed.

End URoot.

(* ------------------------------------------------------------------ denotation of the model's numbers *)
Section Den.
Variable R : rcfType.
Local Notation dyR := (@dyR R).
Local Notation polyR := (@polyR R).

(* x denotes v: a point denotes itself; (p, ]a,b[, sa, sb) denotes the unique root of p in ]a,b[, and the cached signs
   are the signs of p at the ends, non-zero and opposite *)
Definition Den (x : anum) (v : R) : Prop :=
  match an_f x with
  | None => v = dyR (an_a x)
  | Some p => [/\ roots (polyR p) (dyR (an_a x)) (dyR (an_b x)) = [:: v],
                  ZR (an_sa x) = sgr (polyR p).[dyR (an_a x)] :> R,
                  ZR (an_sb x) = sgr (polyR p).[dyR (an_b x)] :> R &
                  Z.ltb (an_sa x * an_sb x) 0]
  end.

Lemma Den_fun x v w : Den x v -> Den x w -> v = w.
Proof.
rewrite /Den; case: (an_f x) => [p|]; last by move=> -> ->.
by move=> [E _ _ _] [E' _ _ _]; move: E'; rewrite E => -[].
Qed.

Lemma sign_cases (s sa sb : Z) :
  (s = (-1)%ZZ \/ s = 0%ZZ \/ s = 1%ZZ) -> (sa = (-1)%ZZ \/ sa = 0%ZZ \/ sa = 1%ZZ) ->
  (sb = (-1)%ZZ \/ sb = 0%ZZ \/ sb = 1%ZZ) -> Z.ltb (sa * sb) 0 ->
  [\/ s = 0%ZZ,
      [/\ Z.eqb s 0 = false, Z.ltb 0 (s * sa) = true, s = sa & (s * sb = -1)%ZZ] |
      [/\ Z.eqb s 0 = false, Z.ltb 0 (s * sa) = false, s = sb & (sa * s = -1)%ZZ]].
Proof.
move=> [->|[->|->]] [->|[->|->]] [->|[->|->]] //= _; try (by constructor 1);
  try (by constructor 2); by constructor 3.
Qed.

Lemma Den_bounds x p v : an_f x = Some p -> Den x v ->
  [/\ uroot (polyR p) (dyR (an_a x)) (dyR (an_b x)) v, dyR (an_a x) < v < dyR (an_b x) & dyR (an_a x) < dyR (an_b x)].
Proof.
rewrite /Den => -> [/urootP U _ _ _]; split=> //; case: U => _ /andP[av vb] _ _; first by rewrite av vb.
exact: lt_trans av vb.
Qed.

Lemma mid_between (a b : R) : a < b -> a < (a + b) / 2%:R < b.
Proof.
move=> ab; rewrite ltr_pdivl_mulr ?ltr0n // ltr_pdivr_mulr ?ltr0n //.
by rewrite !mulr_natr !mulr2n ltr_add2l ltr_add2r ab.
Qed.

(* one bisection step keeps the denotation (lp_algebraic_number_refine_const_internal) *)
Lemma refine_dir_Den x v : Den x v -> Den (an_refine_dir x).1 v.
Proof.
move=> D; rewrite /an_refine_dir; case E: (an_f x) => [p|] //=.
have [U avb ab] := Den_bounds E D.
move: D; rewrite /Den E => -[rt Hsa Hsb ss].
set m := an_dy_mid _ _.
have amb : dyR (an_a x) < dyR m < dyR (an_b x) by rewrite dy_midR; apply: mid_between.
have Hs := psgn_dyP R p m.
have [_ _ _ cs] := ZR_is_sgn Hs.
have [_ _ _ csa] := ZR_is_sgn Hsa.
have [_ _ _ csb] := ZR_is_sgn Hsb.
case: (sign_cases cs csa csb ss) => [s0|[-> -> ssa ssb]|[-> -> ssb ssa]] /=.
- rewrite s0 /= /Den /=.
  apply: (uroot_hit amb _ U); rewrite rootE -sgr_eq0 -Hs s0 ZR0; exact: eqxx.
- rewrite /Den /=; split=> //; last by rewrite -ssa.
  apply/urootP; apply: uroot_shrink_right U => //.
  by rewrite -Hs -Hsb -ZR_mul ssb ZRN1.
- rewrite /Den /=; split=> //; last by rewrite -ssb.
  apply/urootP; apply: uroot_shrink_left U => //.
  by rewrite -Hs -Hsa -ZR_mul ssa ZRN1.
Qed.

Lemma refine_Den x v : Den x v -> Den (an_refine x) v.
Proof. exact: refine_dir_Den. Qed.

End Den.

Arguments Den {R}.

(* ------------------------------------------------------------------ refinement with a given point, comparison with a
   scalar, integer part *)
Section Scalar.
Variable R : rcfType.
Local Notation dyR := (@dyR R).
Local Notation polyR := (@polyR R).
Implicit Types (v : R).

(* lp_dyadic_interval_contains_dyadic_rational on the interval of a proper number is strict membership *)
Lemma iv_contains_open x p q : an_f x = Some p ->
  iv_contains (an_ivl_of x) q = (dyR (an_a x) < dyR q < dyR (an_b x)).
Proof.
move=> E; rewrite /iv_contains /an_ivl_of E /=.
rewrite !(dy_cmp_ge R) !leNgt.
by case: (dyR (an_a x) < dyR q) => //=; case: (dyR q < dyR (an_b x)).
Qed.

Lemma refine_with_point_Den x q v : Den x v -> Den (an_refine_with_point x q) v.
Proof.
move=> D; rewrite /an_refine_with_point; case E: (an_f x) => [p|] //.
rewrite (iv_contains_open q E); case amb: (_ < _ < _) => //.
have [U avb ab] := Den_bounds E D.
move: D; rewrite /Den E => -[rt Hsa Hsb ss].
have Hs := psgn_dyP R p q.
have [_ _ _ cs] := ZR_is_sgn Hs.
have [_ _ _ csa] := ZR_is_sgn Hsa.
have [_ _ _ csb] := ZR_is_sgn Hsb.
case: (sign_cases cs csa csb ss) => [s0|[-> -> ssa ssb]|[-> -> ssb ssa]] /=.
- rewrite s0 /= /Den /=.
  apply: (uroot_hit amb _ U); rewrite rootE -sgr_eq0 -Hs s0 ZR0; exact: eqxx.
- rewrite /Den /= ?E; split=> //; last by rewrite -ssa.
  apply/urootP; apply: uroot_shrink_right U => //.
  by rewrite -Hs -Hsb -ZR_mul ssb ZRN1.
- rewrite /Den /= ?E; split=> //; last by rewrite -ssb.
  apply/urootP; apply: uroot_shrink_left U => //.
  by rewrite -Hs -Hsa -ZR_mul ssa ZRN1.
Qed.

(* ---- comparison with a scalar s of R: cmp_pt d is (any integer with) the sign of d - s, sgn_at p the sign of p(s) *)
Section CmpScalar.
Variables (s : R) (cmp_pt : dyadic -> Z) (sgn_at : UPoly.poly -> Z).
Hypothesis cmp_ptP : forall d, ZR (Z.sgn (cmp_pt d)) = sgr (dyR d - s).
Hypothesis sgn_atP : forall p, ZR (sgn_at p) = sgr (polyR p).[s].

Lemma cmp_pt_lt d : Z.ltb (cmp_pt d) 0 = (dyR d < s).
Proof. by have [H _ _ _] := ZR_is_sgn (cmp_ptP d); rewrite subr_lt0 in H; rewrite -H; case: (cmp_pt d). Qed.
Lemma cmp_pt_gt d : Z.ltb 0 (cmp_pt d) = (s < dyR d).
Proof. by have [_ _ H _] := ZR_is_sgn (cmp_ptP d); rewrite subr_gt0 in H; rewrite -H; case: (cmp_pt d). Qed.
Lemma cmp_pt_eq d : Z.eqb (cmp_pt d) 0 = (dyR d == s).
Proof. by have [_ H _ _] := ZR_is_sgn (cmp_ptP d); rewrite subr_eq0 in H; rewrite -H; case: (cmp_pt d). Qed.

(* the interval test is sound: a non-zero answer is the sign of v - s *)
Lemma ivl_cmp_sound x v : Den x v -> an_ivl_cmp cmp_pt x <> 0%ZZ ->
  ZR (Z.sgn (an_ivl_cmp cmp_pt x)) = sgr (v - s).
Proof.
move=> D; rewrite /an_ivl_cmp; case E: (an_f x) D => [p|] D.
  have [_ /andP[av vb] _] := Den_bounds E D.
  rewrite cmp_pt_gt !cmp_pt_eq cmp_pt_lt.
  case: ltrgtP => [sa|sa|sa] /=.
  - by move=> _; rewrite ZR1 gtr0_sg // subr_gt0 (lt_trans sa av).
  - case: ltrgtP => [bs|bs|bs] //= _.
    + by rewrite ZRN1 ltr0_sg // subr_lt0 (lt_trans vb bs).
    + by rewrite ZRN1 ltr0_sg // subr_lt0 ?bs // -?bs.
  - by move=> _; rewrite ZR1 gtr0_sg // subr_gt0 sa.
by move: D; rewrite /Den E => -> _; exact: cmp_ptP.
Qed.

(* inside the interval (answer 0 of the interval test) for a proper number *)
Lemma ivl_cmp_inside x p : an_f x = Some p -> an_ivl_cmp cmp_pt x = 0%ZZ -> dyR (an_a x) < s < dyR (an_b x).
Proof.
move=> E; rewrite /an_ivl_cmp E cmp_pt_gt !cmp_pt_eq cmp_pt_lt.
by case: ltrgtP => //= sa; case: ltrgtP.
Qed.

Lemma refine_until_sound fuel : forall x v c x', Den x v ->
  an_refine_until fuel cmp_pt x = Some (c, x') ->
  ZR (Z.sgn c) = sgr (v - s) /\ Den x' v.
Proof.
elim: fuel => [|f IH] x v c x' D //=.
have D' := refine_Den D.
case E: (Z.eqb _ 0); first exact: IH D'.
move=> [<- <-]; split=> //; apply: ivl_cmp_sound D' _ => H; by rewrite H in E.
Qed.

(* C07.2: when a comparison with a scalar returns, its answer is the sign of (value - scalar), and the refined operand
   still denotes the same value *)
Lemma cmp_scalar_sound fuel x v c x' : Den x v ->
  an_cmp_scalar fuel cmp_pt sgn_at x = Some (c, x') ->
  ZR (Z.sgn c) = sgr (v - s) /\ Den x' v.
Proof.
move=> D; rewrite /an_cmp_scalar; case E: (an_f x) => [p|]; last first.
  by move=> [<- <-]; split=> //; move: (D); rewrite /Den E => ->; exact: cmp_ptP.
case C: (Z.eqb _ 0) => /=; last first.
  by move=> [<- <-]; split=> //; apply: ivl_cmp_sound D _ => H; rewrite H in C.
case S: (Z.eqb _ 0); last exact: refine_until_sound D.
move=> [<- <-]; split=> //=.
have [U _ _] := Den_bounds E D.
have asb := ivl_cmp_inside E (proj1 (Z.eqb_eq _ _) C).
have rs : root (polyR p) s.
  by rewrite rootE -sgr_eq0 -sgn_atP (proj1 (Z.eqb_eq _ _) S) ZR0.
by rewrite (uroot_hit asb rs U) subrr sgr0 ZR0.
Qed.
End CmpScalar.

End Scalar.

(* ------------------------------------------------------------------ the three scalar comparisons and sgn *)
Section CmpInstances.
Variable R : rcfType.
Local Notation dyR := (@dyR R).
Local Notation polyR := (@polyR R).
Implicit Types (v : R).

Lemma cmp_integer_sound fuel x v (z : Z) c x' : Den x v ->
  an_cmp_integer fuel x z = Some (c, x') -> ZR (Z.sgn c) = sgr (v - ZR z) /\ Den x' v.
Proof.
apply: cmp_scalar_sound => [d|p]; last exact: psgn_zP.
by rewrite /dy_cmp_integer dy_cmpR dy_from_integerR.
Qed.

Lemma sgn_sound fuel x v c x' : Den x v ->
  an_sgn fuel x = Some (c, x') -> ZR (Z.sgn c) = sgr v /\ Den x' v.
Proof. by move=> D /(cmp_integer_sound D); rewrite ZR0 subr0. Qed.

Lemma cmp_dyadic_sound fuel x v (q : dyadic) c x' : Den x v ->
  an_cmp_dyadic fuel x q = Some (c, x') -> ZR (Z.sgn c) = sgr (v - dyR q) /\ Den x' v.
Proof.
apply: cmp_scalar_sound => [d|p]; last exact: psgn_dyP.
exact: dy_cmpR.
Qed.

Lemma cmp_rational_sound fuel x v (q : srat) c x' : q_wf q -> Den x v ->
  an_cmp_rational fuel x q = Some (c, x') -> ZR (Z.sgn c) = sgr (v - ratR q) /\ Den x' v.
Proof.
move=> W; apply: cmp_scalar_sound => [d|p]; last first.
  by apply: psgn_qP; case: W => H _; lia.
rewrite /dy_cmp_rational (q_cmp_dyadic_spec q d W) Z.sgn_opp ZR_opp.
have -> : Z.sgn (cmp_to_Z (Qcompare (QofR q) (QofD d))) = cmp_to_Z (Qcompare (QofR q) (QofD d)).
  by case: (Qcompare _ _).
by rewrite QR_compare -sgrN opprB dyR_QofD ratR_QofR.
Qed.

End CmpInstances.

(* ------------------------------------------------------------------ floor, ceiling, integrality, rationality *)
Section IntegerPart.
Variable R : rcfType.
Local Notation dyR := (@dyR R).
Local Notation polyR := (@polyR R).
Implicit Types (v : R).

(* the invariant established by lp_algebraic_number_construct and read by floor / ceiling / is_integer:
   the open interval of a proper number lies between two consecutive integers *)
Definition int_free (x : anum) : Prop :=
  match an_f x with
  | None => Logic.True
  | Some _ => Z.leb (dy_ceiling_int (an_b x) - dy_floor_int (an_a x)) 1
  end.

Lemma floor_mono (a b : dyadic) : dyR a <= dyR b -> Z.leb (dy_floor_int a) (dy_floor_int b).
Proof.
move=> ab; have /andP[fa _] := dy_floor_intR R a; have /andP[_ fb] := dy_floor_intR R b.
have : ZR (dy_floor_int a) < ZR (dy_floor_int b + 1)%ZZ :> R.
  by rewrite ZR_add ZR1; apply: le_lt_trans fa (le_lt_trans ab fb).
rewrite ZR_lt; lia.
Qed.
Lemma ceiling_mono (a b : dyadic) : dyR a <= dyR b -> Z.leb (dy_ceiling_int a) (dy_ceiling_int b).
Proof.
move=> ab; have /andP[ca _] := dy_ceiling_intR R a; have /andP[_ cb] := dy_ceiling_intR R b.
have : ZR (dy_ceiling_int a - 1)%ZZ < ZR (dy_ceiling_int b) :> R.
  by rewrite ZR_sub ZR1; apply: lt_le_trans ca (le_trans ab cb).
rewrite ZR_lt; lia.
Qed.

Lemma refine_int_free x v : Den x v -> int_free x -> int_free (an_refine x).
Proof.
move=> D; rewrite /an_refine /an_refine_dir; case E: (an_f x) => [p|] //.
have [_ _ ab] := Den_bounds E D.
have /andP[am mb] : dyR (an_a x) < dyR (an_dy_mid (an_a x) (an_b x)) < dyR (an_b x).
  by rewrite dy_midR; apply: mid_between.
have := floor_mono (ltW am); have := ceiling_mono (ltW mb).
rewrite {1}/int_free E.
by case: (Z.eqb _ 0) => //=; case: (Z.ltb 0 _) => /=; rewrite /int_free /= ?E; lia.
Qed.

Lemma floor_sound x v : Den x v -> int_free x -> ZR (an_floor x) <= v < ZR (an_floor x) + 1.
Proof.
move=> D; rewrite /int_free /an_floor; case E: (an_f x) => [p|]; last first.
  by move: D; rewrite /Den E => -> _; exact: dy_floor_intR.
have [_ /andP[av vb] _] := Den_bounds E D.
have /andP[fa _] := dy_floor_intR R (an_a x); have /andP[_ cb] := dy_ceiling_intR R (an_b x).
move=> H; rewrite (le_trans fa (ltW av)) /=.
apply: lt_le_trans vb (le_trans cb _).
by rewrite -ZR1 -ZR_add ZR_le; lia.
Qed.

Lemma ceiling_sound x v : Den x v -> int_free x -> ZR (an_ceiling x) - 1 < v <= ZR (an_ceiling x).
Proof.
move=> D; rewrite /int_free /an_ceiling /an_is_point; case E: (an_f x) => [p|]; last first.
  by move: D; rewrite /Den E => -> _; exact: dy_ceiling_intR.
have [_ /andP[av vb] _] := Den_bounds E D.
have /andP[fa _] := dy_floor_intR R (an_a x); have /andP[_ cb] := dy_ceiling_intR R (an_b x).
move=> H; rewrite (le_trans (ltW vb) cb) andbT.
apply: le_lt_trans (le_trans _ fa) av.
by rewrite -ZR1 -ZR_sub ZR_le; lia.
Qed.

(* is_integer = 1 only for integers ... *)
Lemma is_integer_sound x v : Den x v -> an_is_integer x = true -> exists z : Z, v = ZR z.
Proof.
rewrite /Den /an_is_integer /an_is_point; case E: (an_f x) => [p|] // -> /N.eqb_eq H.
by exists (da (an_a x)); rewrite /dyR H ZR_pow2 expr0 divr1.
Qed.
(* ... and (completeness) a proper number is never an integer: it lies strictly between two consecutive ones *)
Lemma proper_not_integer x p v (z : Z) : an_f x = Some p -> Den x v -> int_free x -> v <> ZR z.
Proof.
move=> E D; rewrite /int_free E => H vz.
have [_ /andP[av vb] _] := Den_bounds E D.
have /andP[fa _] := dy_floor_intR R (an_a x); have /andP[_ cb] := dy_ceiling_intR R (an_b x).
have : ZR (dy_floor_int (an_a x)) < ZR z :> R by rewrite -vz; apply: le_lt_trans fa av.
have : ZR z < ZR (dy_ceiling_int (an_b x)) :> R by rewrite -vz; apply: lt_le_trans vb cb.
rewrite !ZR_lt; lia.
Qed.

(* is_rational = 1 only for rational numbers (the test is documented as incomplete) *)
Lemma is_rational_sound x v : Den x v -> an_is_rational x = true ->
  exists n d : Z, d <> 0%ZZ /\ v * ZR d = ZR n.
Proof.
rewrite /an_is_rational; case E: (an_f x) => [p|] D.
  move=> /eqP dp; have [[p0 _ rv _] _ _] := Den_bounds E D.
  move: dp rv p0; rewrite /pdeg /polyR -Poly_pnorm.
  case: (pnorm p) (last_pnorm_neq0 p) => [|c0 [|c1 [|? ?]]] //= c1n0 _.
  rewrite !cons_poly_def mul0r add0r => rv _.
  exists (- c0)%ZZ, c1; split; first by move/eqP: c1n0.
  move: rv; rewrite rootE rmorphD rmorphM /= !map_polyC map_polyX /= hornerD hornerM !hornerC hornerX.
  by rewrite addr_eq0 ZR_opp mulrC => /eqP.
move=> _; exists (da (an_a x)), (pow2 (dn (an_a x))); split.
  by have := ZR_pow2_gt0 R (dn (an_a x)); rewrite ZR_gt0; lia.
by move: D; rewrite /Den E => ->; rewrite /dyR divfK // ZR_pow2_neq0.
Qed.

End IntegerPart.

Arguments int_free : clear implicits.

(* ------------------------------------------------------------------ construction and negation *)
Section ConstructNeg.
Variable R : rcfType.
Local Notation dyR := (@dyR R).
Local Notation polyR := (@polyR R).
Implicit Types (v : R).

Lemma shrink_Den fuel : forall x y v, Den x v -> an_shrink fuel x = Some y -> Den y v.
Proof.
elim: fuel => [|f IH] x y v D //=; case E: (an_f x) => [p|]; last by move=> [<-].
by case: (Z.leb 0 _); [apply: IH (refine_Den D) | move=> [<-]].
Qed.

Lemma rwp_guard_Den x q v : Den x v ->
  Den (match an_f x with Some _ => an_refine_with_point x q | None => x end) v.
Proof. by move=> D; case: (an_f x) => // _; apply: refine_with_point_Den. Qed.

(* lp_algebraic_number_construct: given a polynomial with exactly one root v in ]lo, hi[ and a sign change, the
   constructed number denotes v *)
Lemma construct_sound fuel p lo hi y v :
  roots (polyR p) (dyR lo) (dyR hi) = [:: v] ->
  Z.ltb (an_psgn_dy p lo * an_psgn_dy p hi) 0 ->
  an_construct fuel p lo hi = Some y -> Den y v.
Proof.
move=> rt ss; rewrite /an_construct.
have D0 : Den (mkAN (Some p) lo hi (an_psgn_dy p lo) (an_psgn_dy p hi)) v.
  by rewrite /Den /=; split=> //; exact: psgn_dyP.
case S: (an_shrink _ _) => [x1|] // [<-].
by apply: rwp_guard_Den; apply: rwp_guard_Den; apply: shrink_Den D0 S.
Qed.

(* p(-x) *)
Lemma polyR_subst_x_neg_aux p (odd : bool) :
  polyR (an_subst_x_neg_aux odd p) = (if odd then -1 else 1) *: (polyR p \Po (- 'X)).
Proof.
elim: p odd => [|c p IH] odd /=; first by rewrite polyR_nil comp_poly0 scaler0.
rewrite !polyR_cons IH comp_polyD comp_polyM comp_polyC comp_polyX.
case: odd => /=.
- by rewrite ZR_opp scale1r scaleN1r polyCN opprD mulrN opprK.
- by rewrite scaleN1r mulNr scale1r mulrN.
Qed.
Lemma polyR_subst_x_neg p : polyR (an_subst_x_neg p) = polyR p \Po (- 'X).
Proof. by rewrite /an_subst_x_neg polyR_subst_x_neg_aux scale1r. Qed.

Lemma polyR_pneg p : polyR (pneg p) = - polyR p.
Proof. by rewrite -[LHS]/(map_poly ZR (Poly (pneg p))) Poly_pneg rmorphN. Qed.

Lemma make_lc_positiveR p : exists e : R, (e = 1 \/ e = -1) /\ polyR (an_make_lc_positive p) = e *: polyR p.
Proof.
rewrite /an_make_lc_positive; case: (Z.ltb _ 0).
- by exists (-1); split; [right|rewrite polyR_pneg scaleN1r].
- by exists 1; split; [left|rewrite scale1r].
Qed.

Lemma uroot_scale (e : R) (p : {poly R}) a b x : e != 0 -> uroot p a b x -> uroot (e *: p) a b x.
Proof.
move=> e0 [p0 axb rx U]; split=> //; first by rewrite scaler_eq0 negb_or e0.
- by rewrite rootZ.
- by move=> y ayb; rewrite rootZ //; apply: U.
Qed.

Lemma uroot_comp_neg (p : {poly R}) a b x : uroot p a b x -> uroot (p \Po (- 'X)) (- b) (- a) (- x).
Proof.
have hX (y : R) : (- 'X : {poly R}).[y] = - y by rewrite hornerN hornerX.
move=> [p0 /andP[ax xb] rx U]; split.
- by rewrite comp_poly2_eq0 // size_opp size_polyX.
- by rewrite !ltr_opp2 xb ax.
- by rewrite /root horner_comp hX opprK.
- move=> y /andP[by_ ya]; rewrite /root horner_comp hX => ry.
  by rewrite -(U (- y)) ?opprK // ltr_oppr ya ltr_oppl by_.
Qed.

(* C07.4 (negation): the result of lp_algebraic_number_neg denotes the negation *)
Lemma neg_sound fuel x y v : Den x v -> an_neg fuel x = Some y -> Den y (- v).
Proof.
move=> D; rewrite /an_neg; case E: (an_f x) => [p|]; last first.
  by move=> [<-]; move: D; rewrite /Den E /= => ->; rewrite dy_neg1R.
have [U _ _] := Den_bounds E D.
move: D; rewrite /Den E => -[_ Hsa Hsb ss].
set q := an_make_lc_positive _.
have [e [e1 Hq]] := make_lc_positiveR (an_subst_x_neg p).
have e0 : e != 0 by case: e1 => ->; rewrite ?oppr_eq0 oner_neq0.
have ee : e * e = 1 by case: e1 => ->; rewrite ?mulrNN mulr1.
have hq (d : dyadic) : sgr (polyR q).[dyR (an_dy_neg1 d)] = sgr e * sgr (polyR p).[dyR d].
  by rewrite Hq polyR_subst_x_neg hornerZ sgrM horner_comp hornerN hornerX dy_neg1R opprK.
apply: construct_sound.
  apply/urootP; rewrite Hq polyR_subst_x_neg !dy_neg1R.
  by apply: uroot_scale e0 _; apply: uroot_comp_neg.
suff -> : (an_psgn_dy q (an_dy_neg1 (an_b x)) * an_psgn_dy q (an_dy_neg1 (an_a x)) = an_sb x * an_sa x)%ZZ by lia.
apply: (@ZR_inj R); rewrite !ZR_mul !psgn_dyP !hq Hsa Hsb.
rewrite mulrACA -sgrM ee sgr1 mul1r; by [].
Qed.

End ConstructNeg.

(* ------------------------------------------------------------------ the selection loop of lp_algebraic_number_op *)
Section OpLoop.
Variable R : rcfType.
Local Notation dyR := (@dyR R).
Local Notation polyR := (@polyR R).
Implicit Types (v w : R) (I : an_ivl).

(* membership in an interval with open / closed ends as the C code sees it *)
Definition iv_mem I v : Prop :=
  if iv_pt I then v = dyR (iv_lo I)
  else (if iv_lo_open I then dyR (iv_lo I) < v else dyR (iv_lo I) <= v) /\
       (if iv_hi_open I then v < dyR (iv_hi I) else v <= dyR (iv_hi I)).

Lemma iv_containsP I (q : dyadic) : iv_mem I (dyR q) -> iv_contains I q = true.
Proof.
rewrite /iv_mem /iv_contains; case: (iv_pt I).
  by rewrite (dy_cmp_eq R) => ->; rewrite eqxx.
rewrite !(dy_cmp_ge R) !(dy_cmp_gt R).
case: (iv_lo_open I); case: (iv_hi_open I) => /= -[H1 H2];
  by rewrite ?leNgt ?H1 ?H2 //= ?ltNge ?H1 ?H2.
Qed.

Lemma iv_mem_np I v : iv_pt I = false -> iv_mem I v ->
  [/\ dyR (iv_lo I) <= v, v <= dyR (iv_hi I), iv_lo_open I -> dyR (iv_lo I) < v & iv_hi_open I -> v < dyR (iv_hi I)].
Proof.
rewrite /iv_mem => ->; case: (iv_lo_open I); case: (iv_hi_open I) => -[H1 H2]; split=> //; exact: ltW.
Qed.

(* the disjointness test is sound: two intervals declared disjoint have no common point *)
Lemma iv_disjoint_sound I1 I2 v : iv_disjoint I1 I2 = true -> iv_mem I1 v -> iv_mem I2 v -> Logic.False.
Proof.
rewrite /iv_disjoint; case P1: (iv_pt I1).
  move=> /negbTE H M1 M2; move: M1; rewrite /iv_mem P1 => E; rewrite E in M2.
  by rewrite (iv_containsP M2) in H.
case P2: (iv_pt I2).
  move=> /negbTE H M1 M2; move: M2; rewrite /iv_mem P2 => E; rewrite E in M1.
  by rewrite (iv_containsP M1) in H.
move=> H /(iv_mem_np P1)[l1 h1 ol1 oh1] /(iv_mem_np P2)[l2 h2 ol2 oh2].
have {H} : [|| dyR (iv_hi I1) < dyR (iv_lo I2),
               (dyR (iv_hi I1) == dyR (iv_lo I2)) && (iv_hi_open I1 || iv_lo_open I2),
               dyR (iv_hi I2) < dyR (iv_lo I1) |
               (dyR (iv_hi I2) == dyR (iv_lo I1)) && (iv_hi_open I2 || iv_lo_open I1)].
  move: H; rewrite !(dy_cmp_lt R) !(dy_cmp_eq R).
  by case: (_ < _) => //=; case: (_ && _) => //=; case: (_ < _) => //=; case: (_ && _).
case/or4P => [c|/andP[/eqP e /orP[/oh1 o|/ol2 o]]|c|/andP[/eqP e /orP[/oh2 o|/ol1 o]]].
- by have := le_lt_trans h1 (lt_le_trans c l2); rewrite ltxx.
- by rewrite e in o; have := lt_le_trans o l2; rewrite ltxx.
- by rewrite e in h1; have := lt_le_trans o h1; rewrite ltxx.
- by have := le_lt_trans h2 (lt_le_trans c l1); rewrite ltxx.
- by rewrite e in o; have := lt_le_trans o l1; rewrite ltxx.
- by rewrite e in h2; have := lt_le_trans o h2; rewrite ltxx.
Qed.

Lemma Den_iv_mem x v : Den x v -> iv_mem (an_ivl_of x) v.
Proof.
move=> D; rewrite /iv_mem /an_ivl_of; case E: (an_f x) D => [p|] D /=; last by move: D; rewrite /Den E.
by have [_ /andP[-> ->] _] := Den_bounds E D.
Qed.

Section Loop.
(* z = the exact result; iop encloses it whenever the operand intervals contain the operands *)
Variables (op : R -> R -> R) (iop : an_ivl -> an_ivl -> an_ivl).
Hypothesis iop_encloses : forall I1 I2 u w, iv_mem I1 u -> iv_mem I2 w -> iv_mem (iop I1 I2) (op u w).

Lemma filter_keeps (rts : seq anum) I r z : List.In r rts -> Den r z -> iv_mem I z -> List.In r (an_filter_roots rts I).
Proof.
move=> rin D M; rewrite /an_filter_roots; apply/List.filter_In; split=> //.
by apply/negP => H; exact: (iv_disjoint_sound H (Den_iv_mem D) M).
Qed.

(* C07.5 (selection): if the isolated roots handed to the loop contain a number denoting a op b (premise
   `roots_complete`: this is what "the resultant vanishes at a op b" + completeness of root isolation give), the loop
   can only return that number; the refined operands keep their values *)
Lemma op_loop_sound fuel : forall a b (rts : seq anum) va vb r a' b' r0,
  Den a va -> Den b vb -> List.In r0 rts -> Den r0 (op va vb) ->
  an_op_loop fuel iop a (Some b) rts = OpOk r a' b' ->
  [/\ Den r (op va vb), Den a' va & exists2 b1, b' = Some b1 & Den b1 vb].
Proof.
elim: fuel => [|f IH] a b rts va vb r a' b' r0 Da Db rin D0 //=.
case: rts rin => [|r1 [|r2 rs]] // rin.
  move=> [<- <- <-]; split=> //; last by exists b.
  by case: rin => [->|[]].
set I := iop _ _; set rts := (r1 :: r2 :: rs) in rin *.
have MI : iv_mem I (op va vb) by apply: iop_encloses; apply: Den_iv_mem.
have kin := filter_keeps rin D0 MI.
case F: (an_filter_roots rts I) kin => [|s1 [|s2 ss]] kin //; last first.
  by apply: (IH _ _ _ _ _ _ _ _ (an_refine r0));
    [exact: refine_Den | exact: refine_Den | exact: List.in_map | exact: refine_Den].
by apply: (IH _ _ _ _ _ _ _ _ r0).
Qed.

End Loop.

(* the loop of lp_algebraic_number_positive_root: same argument, the enclosure is the over-approximated root interval
   whose precision grows with the iteration (premise root_encloses: C15 + C07_root_approx_floor/_ceil) *)
Section RootLoop.
Variable n : N.
Hypothesis root_encloses : forall I (prec : N) u w,
  iv_mem I u -> 0 <= w -> w ^+ (N.to_nat n) = u -> iv_mem (iv_root_overapprox I n prec) w.

Lemma root_loop_sound fuel : forall prec a (rts : seq anum) va v r a' b' r0,
  Den a va -> 0 <= v -> v ^+ (N.to_nat n) = va -> List.In r0 rts -> Den r0 v ->
  an_root_loop fuel n prec a rts = OpOk r a' b' -> Den r v /\ Den a' va.
Proof.
elim: fuel => [|f IH] prec a rts va v r a' b' r0 Da v0 vn rin D0 //=.
case: rts rin => [|r1 [|r2 rs]] // rin.
  by move=> [<- <- _]; split=> //; case: rin => [->|[]].
set I := iv_root_overapprox _ _ _; set rts := (r1 :: r2 :: rs) in rin *.
have MI : iv_mem I v by apply: root_encloses vn => //; apply: Den_iv_mem.
have kin := filter_keeps rin D0 MI.
case F: (an_filter_roots rts I) kin => [|s1 [|s2 ss]] kin //; last first.
  by apply: (IH _ _ _ _ _ _ _ _ (an_refine r0)) vn _ _;
    [exact: refine_Den | exact: v0 | exact: List.in_map | exact: refine_Den].
by apply: (IH _ _ _ _ _ _ _ _ r0) vn _ _.
Qed.
End RootLoop.
End OpLoop.

(* ------------------------------------------------------------------ annihilating polynomial of a sum (MathComp's
   resultant): x + y is a root of Res_Y (p(X + Y) ... ) built by polyXY.sub_annihilant on p and q(-X) *)
Section Annihilate.
Variable R : rcfType.
Implicit Types (p q : {poly R}) (x y : R).

Lemma annihilates_add p q x y : p != 0 -> q != 0 -> root p x -> root q y ->
  sub_annihilant p (q \Po (- 'X)) != 0 /\ root (sub_annihilant p (q \Po (- 'X))) (x + y).
Proof.
move=> p0 q0 /rootP px /rootP qy.
have q'0 : q \Po (- 'X) != 0 by rewrite comp_poly2_eq0 // size_opp size_polyX.
split; first exact: sub_annihilant_neq0.
apply/rootP; rewrite -[y]opprK; apply: sub_annihilantP => //.
by rewrite horner_comp hornerN hornerX opprK.
Qed.

Lemma annihilates_sub p q x y : p != 0 -> q != 0 -> root p x -> root q y ->
  sub_annihilant p q != 0 /\ root (sub_annihilant p q) (x - y).
Proof.
move=> p0 q0 /rootP px /rootP qy; split; first exact: sub_annihilant_neq0.
by apply/rootP; apply: sub_annihilantP.
Qed.

End Annihilate.

(* ------------------------------------------------------------------ comparison of two numbers: the equality branch *)
Section CmpEq.
Variable R : rcfType.
Local Notation dyR := (@dyR R).
Local Notation polyR := (@polyR R).
Implicit Types (v w : R).

(* lp_algebraic_number_cmp, equal-interval branch: if the gcd handed back by lp_upolynomial_gcd only vanishes at common
   roots (premise gcd_divides) and changes sign over the common interval, the two numbers are EQUAL, and both reduced
   representations (polynomial replaced by the gcd) still denote that number *)
Lemma cmp_gcd_branch_sound x y p q g v w :
  an_f x = Some p -> an_f y = Some q -> Den x v -> Den y w ->
  dyR (an_a x) = dyR (an_a y) -> dyR (an_b x) = dyR (an_b y) ->
  (forall z, root (polyR g) z -> root (polyR p) z /\ root (polyR q) z) ->
  Z.ltb (an_psgn_dy g (an_a x) * an_psgn_dy g (an_b x)) 0 ->
  [/\ v = w,
      Den (an_reduce_polynomial x g (an_psgn_dy g (an_a x)) (an_psgn_dy g (an_b x))) v &
      Den (an_reduce_polynomial y g (an_psgn_dy g (an_a x)) (an_psgn_dy g (an_b x))) w].
Proof.
move=> Ex Ey Dx Dy ea eb gdiv ss.
have [[p0 _ _ Ux] _ ab] := Den_bounds Ex Dx.
have [[q0 _ _ Uy] _ _] := Den_bounds Ey Dy.
have Ha := psgn_dyP R g (an_a x); have Hb := psgn_dyP R g (an_b x).
have [_ _ _ ca] := ZR_is_sgn Ha; have [_ _ _ cb] := ZR_is_sgn Hb.
have sg : sgr (polyR g).[dyR (an_a x)] * sgr (polyR g).[dyR (an_b x)] = -1.
  rewrite -Ha -Hb -ZR_mul -ZRN1; congr ZR.
  by move: ss; case: ca => [->|[->|->]]; case: cb => [->|[->|->]].
have [z zab rz] := ivt_sign (ltW ab) sg.
have [rpz rqz] := gdiv z rz.
have zv : z = v by apply: Ux => //; move: zab; rewrite in_itv.
have zw : z = w by apply: Uy => //; move: zab; rewrite in_itv /= ea eb.
have g0 : polyR g != 0.
  by apply: contra_eq_neq sg => ->; rewrite !horner0 sgr0 mul0r eq_sym oppr_eq0 oner_eq0.
have Ug : uroot (polyR g) (dyR (an_a x)) (dyR (an_b x)) v.
  split=> //; first by rewrite -zv; move: zab; rewrite in_itv.
  - by rewrite -zv.
  - by move=> t tab /gdiv[rpt _]; apply: Ux.
split; first by rewrite -zv.
- by rewrite /Den /=; split=> //; apply/urootP.
- by rewrite /Den /= -ea -eb -zw zv; split=> //; exact/urootP.
Qed.

End CmpEq.

(* ------------------------------------------------------------------ a concrete proper number, in every real closed
   field: (2x - 1, ]0, 1[, -1, +1) denotes 1/2 (used for non-vacuity examples) *)
Section Example.
Variable R : rcfType.

Definition an_half_example : anum := mkAN (Some [:: (-1)%ZZ; 2%ZZ]) (mkDy 0 0) (mkDy 1 0) (-1) 1.

Lemma an_half_example_Den : Den an_half_example (2%:R^-1 : R).
Proof.
have two : ZR 2%ZZ = 2%:R :> R by rewrite (_ : 2%ZZ = (1 + 1)%ZZ) // ZR_add ZR1.
have P : polyR [:: (-1)%ZZ; 2%ZZ] = (2%:R : R) *: 'X - 1 :> {poly R}.
  by rewrite !polyR_cons polyR_nil mul0r addr0 ZRN1 two polyCN addrC mul_polyC.
have d0 : dyR (mkDy 0 0) = 0 :> R by rewrite /dyR /= ZR0 mul0r.
have d1 : dyR (mkDy 1 0) = 1 :> R by rewrite /dyR /= ZR1 divr1.
have n2 : (2%:R : R) != 0 by rewrite pnatr_eq0.
rewrite /Den /= P d0 d1; split=> //.
- apply/urootP; split.
  + by rewrite -size_poly_eq0 size_addl size_scale ?size_polyX // size_opp size_poly1.
  + by rewrite invr_gt0 ltr0n /= invf_lt1 ?ltr0n // ltr1n.
  + by rewrite rootE hornerD hornerN hornerZ hornerX hornerC divff // subrr.
  + move=> y _; rewrite rootE hornerD hornerN hornerZ hornerX hornerC subr_eq0 => /eqP H.
    by rewrite -[y](mulKf n2) H mulr1.
- by rewrite hornerD hornerN hornerZ hornerX hornerC mulr0 sub0r sgrN sgr1 ZRN1.
- by rewrite hornerD hornerN hornerZ hornerX hornerC mulr1 ZR1 -[2%:R]/(1 + 1) addrK sgr1.
Qed.

End Example.

(* ------------------------------------------------------------------ comparison of two numbers: whatever branch is
   taken (intersection refinement, gcd reduction, bisection race), both operands - mutated through const pointers in
   the C code - keep their values *)
Section CmpKeeps.
Variable R : rcfType.
Local Notation dyR := (@dyR R).
Local Notation polyR := (@polyR R).
Implicit Types (v w : R).

Lemma bisect_apart_Den fuel : forall x y x' y' v w, Den x v -> Den y w ->
  an_bisect_apart fuel x y = Some (x', y') -> Den x' v /\ Den y' w.
Proof.
elim: fuel => [|f IH] x y x' y' v w Dx Dy //=.
have Dx' := refine_dir_Den Dx; have Dy' := refine_dir_Den Dy.
case: (an_refine_dir x) Dx' => [x1 d1] /= Dx'; case: (an_refine_dir y) Dy' => [y1 d2] /= Dy'.
by case: ifP => _; [apply: IH | move=> [<- <-]].
Qed.

Lemma dy_cmp_eq0_dyR (a b : dyadic) : Z.eqb (dy_cmp a b) 0 = true -> dyR a = dyR b.
Proof. by rewrite (dy_cmp_eq R) => /eqP. Qed.

Lemma iv_equals_proper x y p q : an_f x = Some p -> an_f y = Some q ->
  iv_equals (an_ivl_of x) (an_ivl_of y) = true -> dyR (an_a x) = dyR (an_a y) /\ dyR (an_b x) = dyR (an_b y).
Proof.
move=> Ex Ey; rewrite /iv_equals /an_ivl_of Ex Ey /=.
case A: (Z.eqb _ 0) => //=; case B: (Z.eqb _ 0) => //= _.
by split; apply: dy_cmp_eq0_dyR.
Qed.

Lemma cmp_keeps_values fuel (gcdf : UPoly.poly -> UPoly.poly -> UPoly.poly) x y c x' y' v w :
  (forall p q (z : R), root (polyR (gcdf p q)) z -> root (polyR p) z /\ root (polyR q) z) ->
  Den x v -> Den y w -> an_cmp fuel gcdf x y = Some (c, x', y') -> Den x' v /\ Den y' w.
Proof.
move=> gdiv Dx Dy; rewrite /an_cmp.
set prep := (if negb _ then _ else _).
have [] : Den prep.1 v /\ Den prep.2 w.
  rewrite /prep; case: (negb _) => //=; case: (negb _) => /=; split;
    do ?[apply: refine_with_point_Den] => //.
case: prep => x1 y1 /= D1 D2.
set st := (match an_f x1 with Some _ => _ | None => _ end).
suff H : forall e x2 y2, st = Some (e, x2, y2) -> Den x2 v /\ Den y2 w.
  case E: st => [[[e x2] y2]|] //; have [Dx2 Dy2] := H _ _ _ E.
  case: e {E} => [[_ <- <-] //|].
  by case: (Z.eqb _ 0); [case: (_ && _); [|case: (_ && _)]|]; move=> [_ <- <-].
rewrite /st; case Ex: (an_f x1) => [p|]; last by move=> e x2 y2 [_ <- <-].
case Ey: (an_f y1) => [q|]; last by move=> e x2 y2 [_ <- <-].
case Eq: (iv_equals _ _); last by move=> e x2 y2 [_ <- <-].
have [ea eb] := iv_equals_proper Ex Ey Eq.
case S: (Z.ltb _ 0) => e x2 y2.
  move=> [_ <- <-].
  have [_ H1 H2] := cmp_gcd_branch_sound Ex Ey D1 D2 ea eb (@gdiv p q) S.
  by [].
case B: (an_bisect_apart _ _ _) => [[x3 y3]|] // [_ <- <-].
exact: bisect_apart_Den D1 D2 B.
Qed.

End CmpKeeps.

(* ------------------------------------------------------------------ comparison of two numbers: full soundness *)
(* saturation tactic for goals about a linear order *)
Ltac ord_new t :=
  let T := type of t in
  lazymatch goal with
  | _ : T |- _ => fail
  | _ => have := t; intro
  end.
Ltac ord_step :=
  match goal with
  | H : is_true (?a < ?a) |- _ => by rewrite ltxx in H
  | H1 : is_true (?a < ?b), H2 : is_true (?b < ?c) |- _ => ord_new (lt_trans H1 H2)
  | H1 : is_true (?a <= ?b), H2 : is_true (?b < ?c) |- _ => ord_new (le_lt_trans H1 H2)
  | H1 : is_true (?a < ?b), H2 : is_true (?b <= ?c) |- _ => ord_new (lt_le_trans H1 H2)
  | H1 : is_true (?a <= ?b), H2 : is_true (?b <= ?c) |- _ => ord_new (le_trans H1 H2)
  end.
Ltac ord_contra := repeat ord_step.
Ltac ord :=
  match goal with
  | |- is_true (?a < ?b) => case: (ltP a b) => // ?; ord_contra
  | |- is_true (?a <= ?b) => case: (leP a b) => // ?; ord_contra
  | |- ?a = ?b => apply/eqP; rewrite eq_le; apply/andP; split; ord
  | |- Logic.False => ord_contra
  end.

Section CmpFull.
Variable R : rcfType.
Local Notation dyR := (@dyR R).
Local Notation polyR := (@polyR R).
Implicit Types (v w : R) (x y : anum).

Definition lo x : R := dyR (an_a x).
Definition hi x : R := dyR (an_b x).

(* the intervals are separated (ordered), as far as the final comparison of the lower ends needs *)
Definition Sep x y : Prop :=
  match an_f x, an_f y with
  | None, None => Logic.True
  | None, Some _ => lo x <= lo y \/ hi y <= lo x
  | Some _, None => lo y <= lo x \/ hi x <= lo y
  | Some _, Some _ => hi x <= lo y \/ hi y <= lo x
  end.

Definition cmp_final x y : Z :=
  let c := dy_cmp (an_a x) (an_a y) in
  if Z.eqb c 0 then
    if negb (an_is_point x) && an_is_point y then 1%ZZ
    else if an_is_point x && negb (an_is_point y) then (-1)%ZZ
    else c
  else c.

Lemma sgr_lt (a b : R) : a < b -> sgr (a - b) = -1.
Proof. by move=> H; rewrite ltr0_sg // subr_lt0. Qed.
Lemma sgr_gt (a b : R) : b < a -> sgr (a - b) = 1.
Proof. by move=> H; rewrite gtr0_sg // subr_gt0. Qed.

Lemma cmp_final_sound x y v w : Den x v -> Den y w -> Sep x y ->
  ZR (Z.sgn (cmp_final x y)) = sgr (v - w).
Proof.
move=> Dx Dy; rewrite /Sep /cmp_final /an_is_point.
have C := dy_cmpR R (an_a x) (an_a y); have E := dy_cmp_eq R (an_a x) (an_a y).
case Ex: (an_f x) Dx => [p|] Dx; case Ey: (an_f y) Dy => [q|] Dy /=.
- have [_ /andP[av vb] _] := Den_bounds Ex Dx; have [_ /andP[aw wb] _] := Den_bounds Ey Dy.
  rewrite -/(lo x) -/(hi x) -/(lo y) -/(hi y) in av vb aw wb C E *.
  move=> S; rewrite if_same C; case: S => S.
  + by rewrite !sgr_lt //; ord.
  + by rewrite !sgr_gt //; ord.
- move: Dy; rewrite /Den Ey => Dy; rewrite Dy.
  have [_ /andP[av vb] _] := Den_bounds Ex Dx.
  rewrite -/(lo x) -/(hi x) -/(lo y) in av vb C E *.
  move=> S; rewrite E; case: eqP => [e|ne].
  + by rewrite ZR1 sgr_gt // -e.
  + rewrite C; case: S => S.
    * have lt : lo y < lo x by rewrite lt_neqAle S andbT eq_sym; apply/eqP.
      by rewrite !sgr_gt //; ord.
    * by rewrite !sgr_lt //; ord.
- move: Dx; rewrite /Den Ex => Dx; rewrite Dx.
  have [_ /andP[aw wb] _] := Den_bounds Ey Dy.
  rewrite -/(lo x) -/(hi y) -/(lo y) in aw wb C E *.
  move=> S; rewrite E; case: eqP => [e|ne].
  + by rewrite ZRN1 sgr_lt // e.
  + rewrite C; case: S => S.
    * have lt : lo x < lo y by rewrite lt_neqAle S andbT; apply/eqP.
      by rewrite !sgr_lt //; ord.
    * by rewrite !sgr_gt //; ord.
- by move: Dx Dy; rewrite /Den Ex Ey => -> -> _; rewrite if_same.
Qed.


(* ---- shapes of one refinement with a point / one bisection *)
Lemma rwp_shape x q : let x1 := an_refine_with_point x q in
  match an_f x with
  | None => x1 = x
  | Some p =>
    [\/ x1 = x /\ ~~ (lo x < dyR q < hi x),
        [/\ an_f x1 = None, lo x1 = dyR q & lo x < dyR q < hi x],
        [/\ an_f x1 = Some p, lo x1 = dyR q, hi x1 = hi x & lo x < dyR q < hi x] |
        [/\ an_f x1 = Some p, lo x1 = lo x, hi x1 = dyR q & lo x < dyR q < hi x]]
  end.
Proof.
rewrite /an_refine_with_point; case E: (an_f x) => [p|] //=.
rewrite (iv_contains_open R q E) -/(lo x) -/(hi x).
case: ifP => [ins|/negbT nin]; last by constructor 1.
case: ifP => _; first by constructor 2; split.
by case: ifP => _; [constructor 3|constructor 4]; split.
Qed.

Lemma not_inside (a b c : R) : ~~ (a < c < b) -> c <= a \/ b <= c.
Proof.
rewrite negb_and -!leNgt => /orP[H|H]; [left|right]; exact: H.
Qed.

(* a point against a number refined with that point: separated *)
Lemma sep_point_l x y : an_f x = None -> Sep x (an_refine_with_point y (an_a x)).
Proof.
move=> Ex; have := rwp_shape y (an_a x); rewrite /Sep Ex.
case Ey: (an_f y) => [q|] /=; last by move=> ->; rewrite Ey.
case=> [[-> /not_inside H]|[-> _ _]|[-> e1 _ _]|[-> _ e2 _]] //.
- by rewrite Ey.
- by left; rewrite e1.
- by right; rewrite e2.
Qed.
Lemma sep_point_r x y : an_f y = None -> Sep (an_refine_with_point x (an_a y)) y.
Proof.
move=> Ey; have := rwp_shape x (an_a y); rewrite /Sep Ey.
case Ex: (an_f x) => [q|] /=; last by move=> ->; rewrite Ex.
case=> [[-> /not_inside H]|[-> _ _]|[-> e1 _ _]|[-> _ e2 _]] //.
- by rewrite Ex.
- by left; rewrite e1.
- by right; rewrite e2.
Qed.

(* a proper number refined with two points L < H lying in the closure of its interval *)
Definition facts2 x x2 (L H : R) : Prop :=
  [/\ lo x <= lo x2, hi x2 <= hi x & lo x2 < hi x2] /\
  [/\ L <= lo x2 \/ hi x2 <= L, H <= lo x2 \/ hi x2 <= H,
      [\/ lo x2 = lo x, lo x2 = L | lo x2 = H] & [\/ hi x2 = hi x, hi x2 = L | hi x2 = H]].

Lemma rwp2_facts x p (lq hq : dyadic) : an_f x = Some p -> lo x < hi x ->
  let x2 := an_refine_with_point (an_refine_with_point x lq) hq in
  let L := dyR lq in let H := dyR hq in
  L < H ->
  match an_f x2 with
  | None => lo x2 = L \/ lo x2 = H
  | Some _ => facts2 x x2 L H
  end.
Proof.
move=> Ex ab /= LH; rewrite /facts2.
have := rwp_shape x lq; rewrite Ex.
set x1 := an_refine_with_point x lq.
case=> [[e1 /not_inside n1]|[f1 l1 i1]|[f1 l1 h1 /andP[i1 i1']]|[f1 l1 h1 /andP[i1 i1']]].
- (* x1 = x *)
  have := rwp_shape x1 hq; rewrite e1 Ex.
  case=> [[-> /not_inside n2]|[-> l2 _]|[-> l2 h2 /andP[i2 i2']]|[-> l2 h2 /andP[i2 i2']]].
  + by rewrite Ex; split; [split|split=> //; [constructor 1|constructor 1]].
  + by right.
  + rewrite l2 h2; split; [split; ord|split]; [left; ord|by left|by constructor 3|by constructor 1].
  + rewrite l2 h2; split; [split; ord|split]; [|by right|by constructor 1|by constructor 3].
    by case: n1 => n1; [left; ord|right; ord].
- (* x1 = point L *)
  by have := rwp_shape x1 hq; rewrite f1 => ->; rewrite f1; left.
- (* x1 = (L, hi x) *)
  have := rwp_shape x1 hq; rewrite f1 l1 h1.
  case=> [[-> /not_inside n2]|[-> l2 _]|[-> l2 h2 /andP[i2 i2']]|[-> l2 h2 /andP[i2 i2']]].
  + rewrite f1 l1 h1; split; [split; ord|split]; [by left|by []|by constructor 2|by constructor 1].
  + by right.
  + rewrite l2 h2; split; [split; ord|split]; [left; ord|by left|by constructor 3|by constructor 1].
  + rewrite l2 h2; split; [split; ord|split]; [by left|by right|by constructor 2|by constructor 3].
- (* x1 = (lo x, L): H > L is not inside *)
  have := rwp_shape x1 hq; rewrite f1 l1 h1.
  case=> [[-> /not_inside n2]|[-> l2 _]|[-> l2 h2 /andP[i2 i2']]|[-> l2 h2 /andP[i2 i2']]].
  + rewrite f1 l1 h1; split; [split; ord|split]; [by right|by []|by constructor 1|by constructor 2].
  + by right.
  + by exfalso; ord.
  + by exfalso; ord.
Qed.

(* two overlapping pieces cut out of x and y at L = max of the lower ends and H = min of the upper ends: both are ]L, H[ *)
Lemma overlap_lo x y x2 y2 (L H : R) :
  lo x <= L -> (L = lo x \/ L = lo y) -> (H = hi x \/ H = hi y) ->
  facts2 x x2 L H -> facts2 y y2 L H ->
  lo y2 < hi x2 -> lo x2 < hi y2 -> lo x2 = L.
Proof.
move=> xL Ldef Hdef [[x_lo x_hi x_ne] [xL' xH' xlo_c _]] [[y_lo y_hi y_ne] [_ yH' _ _]] ov1 ov2.
case: xlo_c => [e|//|e].
- case: xL' => [LL|hL]; first by rewrite e; rewrite e in LL; ord.
  by exfalso; case: Ldef => Le; rewrite Le in hL; rewrite ?e in x_ne ov2; ord.
- exfalso; rewrite e in x_ne ov2.
  case: Hdef => He; first by rewrite He in x_ne; ord.
  case: yH' => yH'; last by ord.
  by rewrite He in yH'; ord.
Qed.

Lemma overlap_hi x y x2 y2 (L H : R) :
  H <= hi x -> (L = lo x \/ L = lo y) -> (H = hi x \/ H = hi y) ->
  facts2 x x2 L H -> facts2 y y2 L H ->
  lo y2 < hi x2 -> lo x2 < hi y2 -> hi x2 = H.
Proof.
move=> xH Ldef Hdef [[x_lo x_hi x_ne] [xL' xH' _ xhi_c]] [[y_lo y_hi y_ne] [yL' _ _ _]] ov1 ov2.
case: xhi_c => [e|e|//].
- case: xH' => [HH|hH]; last by rewrite e; rewrite e in hH; ord.
  by exfalso; case: Hdef => He; rewrite He in HH; rewrite ?e in x_ne ov1; ord.
- exfalso; rewrite e in x_ne ov1.
  case: Ldef => Le; first by rewrite Le in x_ne; ord.
  case: yL' => yL'; first by ord.
  by rewrite Le in yL'; ord.
Qed.

Definition after2 x x2 (L H : R) : Prop :=
  match an_f x2 with None => lo x2 = L \/ lo x2 = H | Some _ => facts2 x x2 L H end.

Lemma prep_both x y x2 y2 (L H : R) :
  lo x <= L -> lo y <= L -> (L = lo x \/ L = lo y) ->
  H <= hi x -> H <= hi y -> (H = hi x \/ H = hi y) ->
  after2 x x2 L H -> after2 y y2 L H ->
  Sep x2 y2 \/ [/\ an_f x2 <> None, an_f y2 <> None, lo x2 = lo y2 & hi x2 = hi y2].
Proof.
move=> xL yL Ldef xH yH Hdef; rewrite /after2 /Sep.
have Ldef' : L = lo y \/ L = lo x by case: Ldef; [right|left].
have Hdef' : H = hi y \/ H = hi x by case: Hdef; [right|left].
case Ex: (an_f x2) => [p|]; case Ey: (an_f y2) => [q|].
- move=> Fx Fy.
  case: (leP (hi x2) (lo y2)) => [?|ov1]; first by left; left.
  case: (leP (hi y2) (lo x2)) => [?|ov2]; first by left; right.
  right; split=> //.
  + by rewrite (overlap_lo xL Ldef Hdef Fx Fy ov1 ov2) (overlap_lo yL Ldef' Hdef' Fy Fx ov2 ov1).
  + by rewrite (overlap_hi xH Ldef Hdef Fx Fy ov1 ov2) (overlap_hi yH Ldef' Hdef' Fy Fx ov2 ov1).
- move=> [_ [xL' xH' _ _]] [e|e]; left; rewrite e.
  + by case: xL' => ?; [left|right].
  + by case: xH' => ?; [left|right].
- move=> [e|e] [_ [yL' yH' _ _]]; left; rewrite e.
  + by case: yL' => ?; [left|right].
  + by case: yH' => ?; [left|right].
- by move=> _ _; left.
Qed.

(* ---- the test lp_dyadic_interval_disjoint on the intervals of two numbers gives separation *)
Lemma disjoint_Sep x y : iv_disjoint (an_ivl_of x) (an_ivl_of y) = true -> Sep x y.
Proof.
rewrite /Sep; case Ex: (an_f x) => [p|]; case Ey: (an_f y) => [q|] //.
- rewrite /iv_disjoint /an_ivl_of Ex Ey /= !(dy_cmp_lt R) !(dy_cmp_eq R) !andbT -/(hi x) -/(lo y) -/(hi y) -/(lo x).
  case: (ltP (hi x) (lo y)) => [h _|h]; first by left; exact: ltW.
  case: (eqVneq (hi x) (lo y)) => [-> _|_]; first by left.
  case: (ltP (hi y) (lo x)) => [g _|g]; first by right; exact: ltW.
  by case: (eqVneq (hi y) (lo x)) => [-> _|_] //; right.
- have Px : iv_pt (an_ivl_of x) = false by rewrite /an_ivl_of Ex.
  have Py : iv_pt (an_ivl_of y) = true by rewrite /an_ivl_of Ey.
  have Ly : iv_lo (an_ivl_of y) = an_a y by rewrite /an_ivl_of Ey.
  by rewrite /iv_disjoint Px Py Ly (iv_contains_open R (an_a y) Ex) => /not_inside.
- have Px : iv_pt (an_ivl_of x) = true by rewrite /an_ivl_of Ex.
  have Lx : iv_lo (an_ivl_of x) = an_a x by rewrite /an_ivl_of Ex.
  by rewrite /iv_disjoint Px Lx (iv_contains_open R (an_a x) Ey) => /not_inside.
Qed.

(* ---- the intersection of two proper intervals that are not declared disjoint *)
Lemma intersection_facts x y p q : an_f x = Some p -> an_f y = Some q ->
  lo x < hi x -> lo y < hi y -> iv_disjoint (an_ivl_of x) (an_ivl_of y) = false ->
  let I := iv_intersection (an_ivl_of x) (an_ivl_of y) in
  let L := dyR (iv_lo I) in let H := dyR (iv_hi I) in
  [/\ iv_pt I = false, L < H, lo x <= L /\ lo y <= L, (L = lo x \/ L = lo y) &
      (H <= hi x /\ H <= hi y) /\ (H = hi x \/ H = hi y)].
Proof.
move=> Ex Ey abx aby; rewrite /iv_disjoint /iv_intersection /an_ivl_of Ex Ey /=.
rewrite !(dy_cmp_lt R) !(dy_cmp_eq R) !andbT -/(hi x) -/(lo y) -/(hi y) -/(lo x).
case: (ltrgtP (hi x) (lo y)) => [//|h1|//] /=; case: (ltrgtP (hi y) (lo x)) => [//|h2|//] /= _.
case: (ltP (lo x) (lo y)) => [l1|l1]; case: (ltP (hi x) (hi y)) => [l2|l2] /=;
  rewrite -?/(hi x) -?/(lo y) -?/(hi y) -?/(lo x); split=> //; try (by split=> //; exact: ltW);
  try (by left); try (by right).
- by split; [split; [|exact: ltW]|left].
- by split; [split|right].
- by split; [split; [|exact: ltW]|left].
- by split; [split|right].
Qed.

(* ---- one bisection: shape of the result *)
Lemma refine_dir_shape x p : an_f x = Some p -> lo x < hi x ->
  let m := (lo x + hi x) / 2%:R in
  let x1 := (an_refine_dir x).1 in let d := (an_refine_dir x).2 in
  [\/ [/\ d = 0%ZZ, an_f x1 = None & lo x1 = m],
      [/\ d = 1%ZZ, an_f x1 = Some p, lo x1 = m & hi x1 = hi x] |
      [/\ d = (-1)%ZZ, an_f x1 = Some p, lo x1 = lo x & hi x1 = m]].
Proof.
move=> Ex ab /=; rewrite /an_refine_dir Ex.
have M : dyR (an_dy_mid (an_a x) (an_b x)) = (lo x + hi x) / 2%:R by rewrite dy_midR.
case: ifP => _; first by constructor 1; split.
by case: ifP => _; [constructor 2|constructor 3]; split.
Qed.

Lemma bisect_apart_Sep fuel : forall x y x' y' p q, an_f x = Some p -> an_f y = Some q ->
  lo x < hi x -> lo x = lo y -> hi x = hi y ->
  an_bisect_apart fuel x y = Some (x', y') -> Sep x' y'.
Proof.
elim: fuel => [|f IH] x y x' y' p q Ex Ey ab el eh //=.
have aby : lo y < hi y by rewrite -el -eh.
have Sx := refine_dir_shape Ex ab; have Sy := refine_dir_shape Ey aby.
have mm := mid_between ab; case/andP: (mm) => m1 m2.
case: (an_refine_dir x) Sx => [x1 d1] /= Sx; case: (an_refine_dir y) Sy => [y1 d2] /= Sy.
rewrite -el -eh in Sy.
case: Sx => [[-> fx lx]|[-> fx lx hx]|[-> fx lx hx]]; case: Sy => [[-> fy ly]|[-> fy ly hy]|[-> fy ly hy]] //=;
  try (move=> [<- <-]; rewrite /Sep fx fy //).
- by left; rewrite lx ly.
- by right; rewrite lx hy.
- by left; rewrite lx ly.
- by apply: (IH _ _ _ _ _ _ fx fy); rewrite ?lx ?hx ?ly ?hy.
- by right; rewrite lx hy.
- by right; rewrite hx ly.
- by left; rewrite hx ly.
- by apply: (IH _ _ _ _ _ _ fx fy); rewrite ?lx ?hx ?ly ?hy.
Qed.

(* ---- lp_algebraic_number_cmp in three phases *)
Definition cmp_prep x y : anum * anum :=
  if negb (iv_disjoint (an_ivl_of x) (an_ivl_of y)) then
    let I := iv_intersection (an_ivl_of x) (an_ivl_of y) in
    let x1 := an_refine_with_point x (iv_lo I) in
    let y1 := an_refine_with_point y (iv_lo I) in
    if negb (iv_pt I) then (an_refine_with_point x1 (iv_hi I), an_refine_with_point y1 (iv_hi I)) else (x1, y1)
  else (x, y).

Definition cmp_st (fuel : nat) (gcdf : UPoly.poly -> UPoly.poly -> UPoly.poly) x1 y1 : option (bool * anum * anum) :=
  match an_f x1, an_f y1 with
  | Some p, Some q =>
    if iv_equals (an_ivl_of x1) (an_ivl_of y1) then
      let g := gcdf p q in
      let sa := an_psgn_dy g (an_a x1) in
      let sb := an_psgn_dy g (an_b x1) in
      if Z.ltb (sa * sb) 0 then Some (true, an_reduce_polynomial x1 g sa sb, an_reduce_polynomial y1 g sa sb)
      else match an_bisect_apart fuel x1 y1 with Some (x2, y2) => Some (false, x2, y2) | None => None end
    else Some (false, x1, y1)
  | _, _ => Some (false, x1, y1)
  end.

Definition cmp_fin (st : option (bool * anum * anum)) : option (Z * anum * anum) :=
  match st with
  | None => None
  | Some (equal, x2, y2) => if equal then Some (0%ZZ, x2, y2) else Some (cmp_final x2 y2, x2, y2)
  end.

Lemma an_cmpE fuel gcdf x y :
  an_cmp fuel gcdf x y = cmp_fin (cmp_st fuel gcdf (cmp_prep x y).1 (cmp_prep x y).2).
Proof.
rewrite /an_cmp /cmp_fin /cmp_st /cmp_prep /cmp_final.
case: (if negb _ then _ else _) => x1 y1 /=.
case: (match an_f x1 with Some _ => _ | None => _ end) => [[[e x2] y2]|] //.
case: e => //; case: (Z.eqb _ 0) => //; case: (_ && _) => //; by case: (_ && _).
Qed.

Lemma rwp_point x q : an_f x = None -> an_refine_with_point x q = x.
Proof. by rewrite /an_refine_with_point => ->. Qed.

Lemma iv_equals_complete x y p q : an_f x = Some p -> an_f y = Some q ->
  lo x = lo y -> hi x = hi y -> iv_equals (an_ivl_of x) (an_ivl_of y) = true.
Proof.
move=> Ex Ey el eh; rewrite /iv_equals /an_ivl_of Ex Ey /= !(dy_cmp_eq R) -/(lo x) -/(lo y) -/(hi x) -/(hi y).
by rewrite el eh !eqxx.
Qed.

(* after the preparation phase the two intervals are separated, or both proper and equal *)
Lemma cmp_prep_ok x y v w : Den x v -> Den y w ->
  Sep (cmp_prep x y).1 (cmp_prep x y).2 \/
  [/\ an_f (cmp_prep x y).1 <> None, an_f (cmp_prep x y).2 <> None,
      lo (cmp_prep x y).1 = lo (cmp_prep x y).2 & hi (cmp_prep x y).1 = hi (cmp_prep x y).2].
Proof.
move=> Dx Dy; rewrite /cmp_prep.
case Dj: (iv_disjoint _ _) => /=; first by left; exact: disjoint_Sep.
case Ex: (an_f x) => [p|]; last first.
  (* x is a point: the intersection is that point *)
  have Px : iv_pt (an_ivl_of x) = true by rewrite /an_ivl_of Ex.
  have Lx : iv_lo (an_ivl_of x) = an_a x by rewrite /an_ivl_of Ex.
  have -> : iv_intersection (an_ivl_of x) (an_ivl_of y) = an_ivl_of x by rewrite /iv_intersection Px.
  by rewrite Px Lx /= (rwp_point _ Ex); left; exact: sep_point_l.
case Ey: (an_f y) => [q|]; last first.
  have Px : iv_pt (an_ivl_of x) = false by rewrite /an_ivl_of Ex.
  have Py : iv_pt (an_ivl_of y) = true by rewrite /an_ivl_of Ey.
  have Ly : iv_lo (an_ivl_of y) = an_a y by rewrite /an_ivl_of Ey.
  have -> : iv_intersection (an_ivl_of x) (an_ivl_of y) = an_ivl_of y by rewrite /iv_intersection Px Py.
  by rewrite Py Ly /= (rwp_point _ Ey); left; exact: sep_point_r.
have [_ _ abx] := Den_bounds Ex Dx; have [_ _ aby] := Den_bounds Ey Dy.
have [P LH [xL yL] Ldef [[xH yH] Hdef]] := intersection_facts Ex Ey abx aby Dj.
rewrite P /=.
apply: (prep_both xL yL Ldef xH yH Hdef).
- exact: (rwp2_facts Ex abx LH).
- exact: (rwp2_facts Ey aby LH).
Qed.

(* C07.3: lp_algebraic_number_cmp.  Premise: the polynomial returned by lp_upolynomial_gcd vanishes only at common
   roots.  When the call returns, the answer has the sign of v - w - in particular EQUAL NUMBERS COMPARE EQUAL
   whatever polynomials and intervals represent them, and different numbers never compare equal - and both operands
   (refined, possibly with their polynomials replaced by the gcd) keep their values. *)
Theorem cmp_sound fuel (gcdf : UPoly.poly -> UPoly.poly -> UPoly.poly) x y c x' y' v w :
  (forall p q (z : R), root (polyR (gcdf p q)) z -> root (polyR p) z /\ root (polyR q) z) ->
  Den x v -> Den y w -> an_cmp fuel gcdf x y = Some (c, x', y') ->
  [/\ ZR (Z.sgn c) = sgr (v - w), Den x' v & Den y' w].
Proof.
move=> gdiv Dx Dy E.
have [Dx' Dy'] := cmp_keeps_values gdiv Dx Dy E; split=> //.
move: E; rewrite an_cmpE.
have [D1 D2] : Den (cmp_prep x y).1 v /\ Den (cmp_prep x y).2 w.
  rewrite /cmp_prep; case: (negb _) => //=; case: (negb _) => /=; split;
    do ?[apply: refine_with_point_Den] => //.
have := cmp_prep_ok Dx Dy.
case: (cmp_prep x y) D1 D2 => x1 y1 /= D1 D2 OK.
rewrite /cmp_st.
case Ex: (an_f x1) => [p|]; last first.
  move=> [<- _ _]; apply: cmp_final_sound => //.
  by case: OK => // -[]; rewrite Ex.
case Ey: (an_f y1) => [q|]; last first.
  move=> [<- _ _]; apply: cmp_final_sound => //.
  by case: OK => // -[_]; rewrite Ey.
case Eq: (iv_equals _ _); last first.
  move=> [<- _ _]; apply: cmp_final_sound => //.
  by case: OK => // -[_ _ el eh]; rewrite (iv_equals_complete Ex Ey el eh) in Eq.
have [ea eb] := @iv_equals_proper R _ _ _ _ Ex Ey Eq.
case S: (Z.ltb _ 0) => /=.
  move=> [<- _ _].
  have [-> _ _] := cmp_gcd_branch_sound Ex Ey D1 D2 ea eb (@gdiv p q) S.
  by rewrite subrr sgr0 ZR0.
case B: (an_bisect_apart _ _ _) => [[x3 y3]|] //= [<- _ _].
have [D3 D4] := bisect_apart_Den D1 D2 B.
have [_ _ ab] := Den_bounds Ex D1.
apply: cmp_final_sound => //.
exact: (bisect_apart_Sep Ex Ey ab ea eb B).
Qed.
End CmpFull.

(* ------------------------------------------------------------------ the constructor establishes the invariant read by
   floor / ceiling / is_integer: after `while (size >= 0) refine` the width is < 1/2, and refining with ceil(a)
   leaves no integer strictly inside *)
Lemma dyRE (R : rcfType) (d : dyadic) : dyR d = ZR (da d) / ZR (pow2 (dn d)) :> R.
Proof. by []. Qed.

Section ConstructIntFree.
Variable R : rcfType.
Local Notation dyR := (@dyR R).
Local Notation polyR := (@polyR R).
Implicit Types (v : R) (x : anum).

Lemma size_core (d : Z) (n : N) : Z.lt 0 d -> Z.lt (z_bits d - Z.of_N n) 0 -> Z.lt (2 * d) (pow2 n).
Proof.
move=> d0; rewrite /z_bits; have -> : Z.eqb d 0 = false by lia.
rewrite Z.abs_eq; last lia.
have [_ L2] := Z.log2_spec d d0; move=> H.
have Hn : Z.le (Z.log2 d + 2) (Z.of_N n) by lia.
have : Z.le (2 ^ (Z.log2 d + 2)) (pow2 n) by rewrite /pow2; apply: Z.pow_le_mono_r; lia.
have -> : (Z.log2 d + 2 = Z.succ (Z.succ (Z.log2 d)))%ZZ by lia.
rewrite Z.pow_succ_r; last by have := Z.log2_nonneg d; lia.
lia.
Qed.

Lemma dyR_scale (a : Z) (n k : N) : ZR (a * pow2 k)%ZZ / ZR (pow2 (n + k)) = ZR a / ZR (pow2 n) :> R.
Proof.
rewrite pow2_add !ZR_mul -mulf_div divff ?mulr1 //; exact: ZR_pow2_neq0.
Qed.

(* a negative "distance size" means a width below 1/2 *)
Lemma dy_size_neg (lo hi : dyadic) : dyR lo < dyR hi -> Z.ltb (an_dy_size lo hi) 0 ->
  dyR hi - dyR lo < 2%:R^-1.
Proof.
have two : ZR 2%ZZ = 2%:R :> R by rewrite (_ : 2%ZZ = (1 + 1)%ZZ) // ZR_add ZR1.
have core (d : Z) (n : N) : 0 < ZR d / ZR (pow2 n) :> R -> Z.ltb (z_bits d - Z.of_N n) 0 ->
    ZR d / ZR (pow2 n) < 2%:R^-1 :> R.
  move=> dpos sz; have d0 : Z.lt 0 d.
    by move: dpos; rewrite pmulr_lgt0 ?invr_gt0 ?ZR_pow2_gt0 // ZR_gt0; lia.
  have := size_core d0 (proj1 (Z.ltb_lt _ _) sz) => H.
  rewrite ltr_pdivr_mulr ?ZR_pow2_gt0 // mulrC ltr_pdivl_mulr ?ltr0n // -two -ZR_mul ZR_lt.
  lia.
move=> lohi; have pos : 0 < dyR hi - dyR lo by rewrite subr_gt0.
rewrite /an_dy_size.
case: (N.eqb_spec (dn lo) (dn hi)) => [e|ne].
  have E : dyR hi - dyR lo = ZR (da hi - da lo) / ZR (pow2 (dn lo)).
    by rewrite !dyRE e ZR_sub mulrBl.
  by rewrite E in pos *; apply: core.
case: (N.ltb_spec (dn hi) (dn lo)) => [lt|ge].
  have E : dyR hi - dyR lo = ZR (da hi * pow2 (dn lo - dn hi) - da lo) / ZR (pow2 (dn lo)).
    rewrite !dyRE ZR_sub mulrBl; congr (_ - _).
    by rewrite -(dyR_scale (da hi) (dn hi) (dn lo - dn hi)); congr (_ / ZR (pow2 _)); lia.
  by rewrite E in pos *; apply: core.
have E : dyR hi - dyR lo = ZR (da hi - da lo * pow2 (dn hi - dn lo)) / ZR (pow2 (dn hi)).
  rewrite !dyRE ZR_sub mulrBl; congr (_ - _).
  by rewrite -(dyR_scale (da lo) (dn lo) (dn hi - dn lo)); congr (_ / ZR (pow2 _)); lia.
by rewrite E in pos *; apply: core.
Qed.


Lemma floor_unique (d : dyadic) (z : Z) : ZR z <= dyR d < ZR z + 1 -> dy_floor_int d = z.
Proof.
move=> /andP[z1 z2]; have /andP[f1 f2] := dy_floor_intR R d.
have : ZR z < ZR (dy_floor_int d + 1)%ZZ :> R by rewrite ZR_add ZR1; ord.
have : ZR (dy_floor_int d) < ZR (z + 1)%ZZ :> R by rewrite ZR_add ZR1; ord.
rewrite !ZR_lt; lia.
Qed.
Lemma ceil_unique (d : dyadic) (z : Z) : ZR z - 1 < dyR d <= ZR z -> dy_ceiling_int d = z.
Proof.
move=> /andP[z1 z2]; have /andP[c1 c2] := dy_ceiling_intR R d.
have : ZR (z - 1)%ZZ < ZR (dy_ceiling_int d) :> R by rewrite ZR_sub ZR1; ord.
have : ZR (dy_ceiling_int d - 1)%ZZ < ZR z :> R by rewrite ZR_sub ZR1; ord.
rewrite !ZR_lt; lia.
Qed.

Lemma dy_ceiling_dyR (a : dyadic) : dyR (an_dy_ceiling_dy a) = ZR (dy_ceiling_int a).
Proof.
rewrite /an_dy_ceiling_dy /dy_ceiling_int; case: (N.ltb_spec 0 (dn a)) => H.
  by rewrite dyRE /= ZR1 divr1.
by rewrite dyRE (_ : dn a = 0%num) ?ZR_pow2 ?expr0 ?divr1 //; lia.
Qed.
Lemma dy_floor_dyR (a : dyadic) : dyR (an_dy_floor_dy a) = ZR (dy_floor_int a).
Proof.
rewrite /an_dy_floor_dy /dy_floor_int; case: (N.ltb_spec 0 (dn a)) => H.
  by rewrite dyRE /= ZR1 divr1.
by rewrite dyRE (_ : dn a = 0%num) ?ZR_pow2 ?expr0 ?divr1 //; lia.
Qed.

(* refinement with a point keeps the integer-free invariant *)
Lemma rwp_int_free x q v : Den x v -> int_free x -> int_free (an_refine_with_point x q).
Proof.
move=> D; have := rwp_shape R x q; rewrite /int_free.
case E: (an_f x) => [p|] /=; first last.
  by move=> ->; rewrite E.
have [_ _ ab] := Den_bounds E D.
case=> [[-> _]|[-> _ _]|[-> l1 h1 /andP[i1 i2]]|[-> l1 h1 /andP[i1 i2]]] //; first by rewrite E.
- have := @floor_mono R (an_a x) (an_a (an_refine_with_point x q)).
  have := @ceiling_mono R (an_b (an_refine_with_point x q)) (an_b x).
  rewrite -/(lo R x) -/(hi R x) -/(lo R (an_refine_with_point x q)) -/(hi R (an_refine_with_point x q)) l1 h1.
  by move=> /(_ (lexx _)) A /(_ (ltW i1)) B; lia.
- have := @floor_mono R (an_a x) (an_a (an_refine_with_point x q)).
  have := @ceiling_mono R (an_b (an_refine_with_point x q)) (an_b x).
  rewrite -/(lo R x) -/(hi R x) -/(lo R (an_refine_with_point x q)) -/(hi R (an_refine_with_point x q)) l1 h1.
  by move=> /(_ (ltW i2)) A /(_ (lexx _)) B; lia.
Qed.

Lemma shrink_width fuel : forall x y v, Den x v -> an_shrink fuel x = Some y ->
  match an_f y with None => true | Some _ => hi R y - lo R y < 2%:R^-1 end.
Proof.
elim: fuel => [|f IH] x y v D //=; case E: (an_f x) => [p|]; last by move=> [<-]; rewrite E.
case: (Z.leb_spec 0 (an_dy_size (an_a x) (an_b x))) => H; first exact: IH (refine_Den D).
move=> [<-]; rewrite E; have [_ _ ab] := Den_bounds E D.
by apply: dy_size_neg => //; apply/Z.ltb_lt.
Qed.

(* refining a proper number of width < 1/2 with ceil(a) leaves no integer strictly inside *)
Lemma ceil_refine_int_free x p v : an_f x = Some p -> Den x v -> hi R x - lo R x < 2%:R^-1 ->
  int_free (an_refine_with_point x (an_dy_ceiling_dy (an_a x))).
Proof.
move=> E D W; have [_ _ ab] := Den_bounds E D.
have half : (2%:R^-1 : R) < 1 by rewrite invf_lt1 ?ltr0n // ltr1n.
have bw : hi R x < lo R x + 1 by rewrite -ltr_subl_addl; apply: lt_trans W half.
have /andP[fa1 fa2] := dy_floor_intR R (an_a x).
have /andP[ca1 ca2] := dy_ceiling_intR R (an_a x).
have /andP[cb1 cb2] := dy_ceiling_intR R (an_b x).
rewrite -/(lo R x) -/(hi R x) in fa1 fa2 ca1 ca2 cb1 cb2.
set k := dy_ceiling_int (an_a x) in ca1 ca2.
have := rwp_shape R x (an_dy_ceiling_dy (an_a x)); rewrite E dy_ceiling_dyR -/k /int_free.
set x2 := an_refine_with_point _ _.
(* integer facts shared by all cases *)
have kfa : Z.le (k - 1) (dy_floor_int (an_a x)).
  have : ZR (k - 1)%ZZ < ZR (dy_floor_int (an_a x) + 1)%ZZ :> R by rewrite ZR_sub ZR_add !ZR1; ord.
  by rewrite ZR_lt; lia.
case=> [[-> /not_inside ni]|[-> _ _]|[-> l1 h1 /andP[i1 i2]]|[-> l1 h1 /andP[i1 i2]]] //.
- rewrite E; case: ni => ni.
  + (* a is the integer k *)
    have ak : lo R x = ZR k by ord.
    have : ZR (dy_ceiling_int (an_b x) - 1)%ZZ < ZR (k + 1)%ZZ :> R.
      by rewrite ZR_sub ZR_add !ZR1; rewrite ak in bw; ord.
    have : ZR k < ZR (dy_floor_int (an_a x) + 1)%ZZ :> R by rewrite ZR_add ZR1 -ak.
    by rewrite !ZR_lt; lia.
  + have : ZR (dy_ceiling_int (an_b x) - 1)%ZZ < ZR k :> R by rewrite ZR_sub ZR1; ord.
    by rewrite ZR_lt; lia.
- (* (k, b) *)
  have -> : dy_floor_int (an_a x2) = k.
    by apply: floor_unique; rewrite -/(lo R x2) l1 lexx ltr_addl ltr01.
  have -> : dy_ceiling_int (an_b x2) = dy_ceiling_int (an_b x).
    by apply: ceil_unique; rewrite -/(hi R x2) h1 cb1 cb2.
  have : ZR (dy_ceiling_int (an_b x) - 1)%ZZ < ZR (k + 1)%ZZ :> R.
    have i1' : lo R x + 1 < ZR k + 1 by rewrite ltr_add2r.
    by rewrite ZR_sub ZR_add !ZR1; ord.
  by rewrite ZR_lt; lia.
- (* (a, k) *)
  have -> : dy_ceiling_int (an_b x2) = k.
    by apply: ceil_unique; rewrite -/(hi R x2) h1 lexx ltr_subl_addr ltr_addl ltr01.
  have -> : dy_floor_int (an_a x2) = dy_floor_int (an_a x).
    by apply: floor_unique; rewrite -/(lo R x2) l1 fa1 fa2.
  lia.
Qed.

(* lp_algebraic_number_construct establishes the invariant *)
Lemma construct_int_free fuel p lo hi y v :
  roots (polyR p) (dyR lo) (dyR hi) = [:: v] ->
  Z.ltb (an_psgn_dy p lo * an_psgn_dy p hi) 0 ->
  an_construct fuel p lo hi = Some y -> int_free y.
Proof.
move=> rt ss; rewrite /an_construct.
have D0 : Den (mkAN (Some p) lo hi (an_psgn_dy p lo) (an_psgn_dy p hi)) v.
  by rewrite /Den /=; split=> //; exact: psgn_dyP.
case S: (an_shrink _ _) => [x1|] // [<-].
have D1 := shrink_Den D0 S; have W := shrink_width D0 S.
set x2 := (match an_f x1 with Some _ => _ | None => x1 end).
have [D2 F2] : Den x2 v /\ int_free x2.
  rewrite /x2; case E: (an_f x1) W => [q|] W.
    by split; [exact: refine_with_point_Den | exact: (ceil_refine_int_free E D1 W)].
  by split=> //; rewrite /int_free E.
by case: (an_f x2) => // _; apply: rwp_int_free D2 F2.
Qed.

End ConstructIntFree.

Section NegIntFree.
Variable R : rcfType.
Local Notation dyR := (@dyR R).
Local Notation polyR := (@polyR R).

(* the result of negation satisfies the invariant too (it goes through the constructor) *)
Lemma neg_int_free fuel x y (v : R) : Den x v -> an_neg fuel x = Some y -> int_free y.
Proof.
move=> D; rewrite /an_neg; case E: (an_f x) => [p|]; last by move=> [<-].
have [U _ _] := Den_bounds E D.
move: D; rewrite /Den E => -[_ Hsa Hsb ss].
set q := an_make_lc_positive _.
have [e [e1 Hq]] := make_lc_positiveR R (an_subst_x_neg p).
have e0 : e != 0 by case: e1 => ->; rewrite ?oppr_eq0 oner_neq0.
have ee : e * e = 1 by case: e1 => ->; rewrite ?mulrNN mulr1.
have hq (d : dyadic) : sgr (polyR q).[dyR (an_dy_neg1 d)] = sgr e * sgr (polyR p).[dyR d].
  by rewrite Hq polyR_subst_x_neg hornerZ sgrM horner_comp hornerN hornerX dy_neg1R opprK.
apply: (@construct_int_free R _ _ _ _ _ (- v)).
  apply/urootP; rewrite Hq polyR_subst_x_neg !dy_neg1R.
  by apply: uroot_scale e0 _; apply: uroot_comp_neg.
suff -> : (an_psgn_dy q (an_dy_neg1 (an_b x)) * an_psgn_dy q (an_dy_neg1 (an_a x)) = an_sb x * an_sa x)%ZZ by lia.
apply: (@ZR_inj R); rewrite !ZR_mul !psgn_dyP !hq Hsa Hsb.
by rewrite mulrACA -sgrM ee sgr1 mul1r.
Qed.
End NegIntFree.
