(* C05: executable CHECKERS applied to the factorizations libpoly returns (model file: no proofs here;
   FactorCheckProofs.v proves what acceptance implies, against MathComp {poly Z}, {poly rat}, {poly 'F_p}).

   Design: every checker is CERTIFYING.  Whatever is hard to prove correct (Euclid's algorithm, long division,
   searching for modular factorizations) is computed by an untrusted helper whose RESULT is then verified by
   a polynomial identity (u*f + v*g = c, f = quot*q + r, f = lc * prod fs mod p ...).  Only the final
   identity test is trusted, and it is what the theorems are about.
   Polynomials: dense coefficient lists over Z, low degree first (UPoly.v).  Z_p[x]: the same lists read
   modulo p (any representative is accepted; comparisons reduce with `mod p`). *)
From Coq Require Import ZArith List Bool.
From LP Require Import UPoly MPoly.
Import ListNotations.
Local Open Scope Z_scope.

(* ------------------------------------------------------------------ products of factor lists *)
Definition ufactors := list (list Z * nat).

Fixpoint uprod (fs : ufactors) : list Z :=
  match fs with
  | [] => [1]
  | (f, m) :: r => pmul (ppow f m) (uprod r)
  end.

(* (a) multiply back over Z[x]:  c * prod f_i^m_i = input *)
Definition mulback_Z (c : Z) (fs : ufactors) (input : list Z) : bool :=
  peqb (pscale c (uprod fs)) input.

(* ------------------------------------------------------------------ Z_p[x] *)
Definition pmodp (p : Z) (l : list Z) : list Z := map (fun z => z mod p) l.
Definition peqb_p (p : Z) (a b : list Z) : bool := peqb (pmodp p a) (pmodp p b).
(* size (= degree + 1, 0 for the zero polynomial) of the polynomial read modulo p *)
Definition psize_p (p : Z) (l : list Z) : nat := length (pnorm (pmodp p l)).
Definition pmul_p (p : Z) (a b : list Z) : list Z := pmodp p (pmul a b).
Fixpoint ppow_p (p : Z) (a : list Z) (n : nat) : list Z :=
  match n with O => [1] | S n' => pmul_p p a (ppow_p p a n') end.
Fixpoint uprod_p (p : Z) (fs : ufactors) : list Z :=
  match fs with
  | [] => [1]
  | (f, m) :: r => pmul_p p (ppow_p p f m) (uprod_p p r)
  end.

(* (a) multiply back over Z_p[x] *)
Definition mulback_Zp (p : Z) (c : Z) (fs : ufactors) (input : list Z) : bool :=
  peqb_p p (pscale c (uprod_p p fs)) input.

(* ------------------------------------------------------------------ multivariate *)
Definition mfactors := list (mpoly * nat).
Fixpoint mprod (fs : mfactors) : mpoly :=
  match fs with
  | [] => mp_const 1
  | (f, m) :: r => mp_mul (mp_pow f m) (mprod r)
  end.
Definition mulback_M (fs : mfactors) (input : mpoly) : bool := mp_eqb (mprod fs) input.

(* ------------------------------------------------------------------ (b) coprimality / square-freeness over Z[x] (over Q)
   Untrusted: extended pseudo-Euclid keeping  r_i = u_i * f + v_i * g  (common integer factors of the triple
   removed).  Trusted: the final test  u*f + v*g = c <> 0  (certificate of coprimality over Q), or
   d * qf = f, d * qg = g with deg d >= 1 (certificate of a common factor). *)
Definition content3 (r u v : list Z) : Z := Z.gcd (pcontent r) (Z.gcd (pcontent u) (pcontent v)).

Fixpoint bezout_aux (fuel : nat) (r0 u0 v0 r1 u1 v1 : list Z) : list Z * list Z * list Z :=
  match fuel with
  | O => (r0, u0, v0)
  | S f =>
    match pnorm r1 with
    | [] => (r0, u0, v0)
    | r1n =>
      let '(q, r) := ppdivmod r0 r1 in
      let k := (length (pnorm r0) - length r1n + 1)%nat in
      let s := Z.pow (plc r1) (Z.of_nat k) in
      let u := psub (pscale s u0) (pmul q u1) in
      let v := psub (pscale s v0) (pmul q v1) in
      let c := content3 r u v in
      if c =? 0 then bezout_aux f r1 u1 v1 r u v
      else bezout_aux f r1 u1 v1 (pdivc r c) (pdivc u c) (pdivc v c)
    end
  end.

(* (last non-zero remainder, u, v) *)
Definition bezout_Z (f g : list Z) : list Z * list Z * list Z :=
  if Nat.ltb (pdeg f) (pdeg g)
  then let '(r, u, v) := bezout_aux (S (S (length g))) g [] [1] f [1] [] in (r, u, v)
  else bezout_aux (S (S (length f))) f [1] [] g [] [1].

(* certified: f, g have no common factor of positive degree *)
Definition coprime_cert_Z (f g u v : list Z) (c : Z) : bool :=
  negb (c =? 0) && peqb (padd (pmul u f) (pmul v g)) [c].
(* certified: d (of degree >= 1) divides both *)
Definition common_factor_cert_Z (f g d qf qg : list Z) : bool :=
  Nat.ltb 0 (pdeg d) && peqb (pmul d qf) f && peqb (pmul d qg) g.

(* Some true: certified coprime over Q;  Some false: certified common factor;  None: no certificate found *)
Definition coprime_decide_Z (f g : list Z) : option bool :=
  let '(r, u, v) := bezout_Z f g in
  match pnorm r with
  | [c] => if coprime_cert_Z f g u v c then Some true else None
  | _ =>
    let d := ppp r in
    match pdiv_exact f d, pdiv_exact g d with
    | Some qf, Some qg => if common_factor_cert_Z f g d qf qg then Some false else None
    | _, _ => None
    end
  end.
Definition sqfree_decide_Z (f : list Z) : option bool := coprime_decide_Z f (pderiv f).

(* the (uncertified) definition of the design document, kept as a cross-check of the reference gcd *)
Definition is_sqfree_ref (f : list Z) : bool := Nat.eqb (pdeg (pgcd f (pderiv f))) 0.
Definition coprime_ref (f g : list Z) : bool := Nat.eqb (pdeg (pgcd f g)) 0.

(* ------------------------------------------------------------------ division by a monic polynomial modulo p (untrusted helper)
   structural on the dividend:  a = c + x*a',  a' = quot*q + r  =>  a = (x*quot + t)*q + (c + x*r - t*q) *)
Fixpoint pdivmod_monic (p : Z) (a q : list Z) : list Z * list Z :=
  match a with
  | [] => ([], [])
  | c :: a' =>
    let '(quot, r) := pdivmod_monic p a' q in
    let r' := c :: r in
    if Nat.ltb (length r') (length q) then (0 :: quot, r')
    else let t := last r' 0 in
         (t :: quot, removelast (pmodp p (psub r' (pscale t q))))
  end.
Definition prem_monic (p : Z) (a q : list Z) : list Z := snd (pdivmod_monic p (pmodp p a) q).

(* inverse modulo a prime, by search (p is small wherever this is used); 0 if none *)
Fixpoint inv_search (p a : Z) (n : nat) : Z :=
  match n with
  | O => 0
  | S n' => if (a * Z.of_nat n) mod p =? 1 then Z.of_nat n else inv_search p a n'
  end.
Definition inv_mod (p a : Z) : Z := inv_search p (a mod p) (Z.to_nat (p - 1)).

(* monic associate modulo p (normalised, reduced) *)
Definition pmonic_p (p : Z) (f : list Z) : list Z :=
  let fn := pnorm (pmodp p f) in pmodp p (pscale (inv_mod p (plc fn)) fn).

(* extended Euclid modulo p: invariant r_i = u_i*f + v_i*g (mod p); r1 kept monic *)
Fixpoint bezout_p_aux (p : Z) (fuel : nat) (r0 u0 v0 r1 u1 v1 : list Z) : list Z * list Z * list Z :=
  match fuel with
  | O => (r0, u0, v0)
  | S f =>
    match pnorm (pmodp p r1) with
    | [] => (r0, u0, v0)
    | r1n =>
      let i := inv_mod p (last r1n 0) in
      let r1m := pmodp p (pscale i r1n) in
      let u1m := pmodp p (pscale i u1) in
      let v1m := pmodp p (pscale i v1) in
      let '(q, r) := pdivmod_monic p (pnorm (pmodp p r0)) r1m in
      let u := pmodp p (psub u0 (pmul q u1m)) in
      let v := pmodp p (psub v0 (pmul q v1m)) in
      bezout_p_aux p f r1m u1m v1m r u v
    end
  end.
Definition bezout_Zp (p : Z) (f g : list Z) : list Z * list Z * list Z :=
  bezout_p_aux p (S (S (length g))) f [1] [] g [] [1].

Definition coprime_cert_Zp (p : Z) (f g u v : list Z) : bool :=
  peqb_p p (padd (pmul u f) (pmul v g)) [1].
Definition common_factor_cert_Zp (p : Z) (f g d qf qg : list Z) : bool :=
  Nat.ltb 1 (psize_p p d) && peqb_p p (pmul d qf) f && peqb_p p (pmul d qg) g.

Definition coprime_decide_Zp (p : Z) (f g : list Z) : option bool :=
  let '(r, u, v) := bezout_Zp p f g in
  match pnorm (pmodp p r) with
  | [c] =>
    let i := inv_mod p c in
    let u' := pscale i u in
    let v' := pscale i v in
    if coprime_cert_Zp p f g u' v' then Some true else None
  | _ =>
    let d := pmonic_p p r in
    let '(qf, _) := pdivmod_monic p (pmodp p f) d in
    let '(qg, _) := pdivmod_monic p (pmodp p g) d in
    if common_factor_cert_Zp p f g d qf qg then Some false else None
  end.
Definition sqfree_decide_Zp (p : Z) (f : list Z) : option bool := coprime_decide_Zp p f (pderiv f).

(* ------------------------------------------------------------------ (c) irreducibility over Z_p by exhaustive trial division
   all monic polynomials of degree k with coefficients in [0, p):  suffix = the coefficients already chosen *)
Fixpoint all_ext (cs : list Z) (k : nat) (suf : list Z) (test : list Z -> bool) : bool :=
  match k with
  | O => test suf
  | S k' => forallb (fun c => all_ext cs k' (c :: suf) test) cs
  end.
Definition zrange (p : Z) : list Z := map Z.of_nat (seq 0 (Z.to_nat p)).
Definition all_monic (p : Z) (k : nat) (test : list Z -> bool) : bool := all_ext (zrange p) k [1] test.

(* certificate that q does NOT divide f modulo p: f = quot*q + r with 0 <> r, size r < size q *)
Definition nodiv_cert (p : Z) (f q : list Z) : bool :=
  let '(quot, r) := pdivmod_monic p f q in
  peqb_p p f (padd (pmul quot q) r) && Nat.ltb (psize_p p r) (psize_p p q) && Nat.ltb 0 (psize_p p r).

Definition irreducible_Zp_check (p : Z) (f : list Z) : bool :=
  let fn := pnorm (pmodp p f) in
  let d := Nat.pred (length fn) in
  Nat.leb 1 d && forallb (fun k => all_monic p k (nodiv_cert p fn)) (seq 1 (Nat.div2 d)).

(* primality by trial division (the modulus of a certificate is checked, not assumed) *)
Definition is_prime_Z (p : Z) : bool :=
  (1 <? p) && forallb (fun k => negb (p mod (Z.of_nat k) =? 0)) (seq 2 (Z.to_nat p - 2)).

(* --- Rabin's test (ORACLE: no soundness theorem here; used as a second opinion and for big p^d) *)
Fixpoint ppowmod (p : Z) (f b : list Z) (e : positive) : list Z :=
  match e with
  | xH => prem_monic p b f
  | xO e' => let h := ppowmod p f b e' in prem_monic p (pmul h h) f
  | xI e' => let h := ppowmod p f b e' in prem_monic p (pmul b (prem_monic p (pmul h h) f)) f
  end.
Definition prime_divisors (d : nat) : list nat :=
  filter (fun q => Nat.eqb (Nat.modulo d q) 0 && is_prime_Z (Z.of_nat q)) (seq 2 (d - 1)).
Definition rabin_check (p : Z) (f : list Z) : bool :=
  let fm := pmonic_p p f in
  let d := Nat.pred (length fm) in
  Nat.leb 1 d &&
  match Z.pow p (Z.of_nat d) with
  | Zpos e =>
    peqb_p p (ppowmod p fm [0; 1] e) (prem_monic p [0; 1] fm) &&
    forallb (fun q =>
      match Z.pow p (Z.of_nat (Nat.div d q)) with
      | Zpos e' =>
        match coprime_decide_Zp p (psub (ppowmod p fm [0; 1] e') [0; 1]) fm with
        | Some true => true
        | _ => false
        end
      | _ => false
      end) (prime_divisors d)
  | _ => false
  end.

(* ------------------------------------------------------------------ untrusted: factor f modulo p by trial division
   (monic irreducible factors with repetition, increasing degree); the result is CHECKED by modcert_ok *)
Fixpoint fold_ext {S : Type} (cs : list Z) (k : nat) (suf : list Z) (step : list Z -> S -> S) (s : S) : S :=
  match k with
  | O => step suf s
  | S k' => fold_left (fun s c => fold_ext cs k' (c :: suf) step s) cs s
  end.
(* divide `rest` by q as often as it goes *)
Fixpoint strip_factor (p : Z) (fuel : nat) (q : list Z) (st : list Z * list (list Z)) : list Z * list (list Z) :=
  match fuel with
  | O => st
  | S fu =>
    let '(rest, acc) := st in
    if Nat.ltb (length rest) (length q) then st else
    let '(quot, r) := pdivmod_monic p rest q in
    match pnorm (pmodp p r) with
    | [] => strip_factor p fu q (pnorm (pmodp p quot), q :: acc)
    | _ => st
    end
  end.
Fixpoint factor_Zp_loop (p : Z) (fuel : nat) (k : nat) (st : list Z * list (list Z)) : list (list Z) :=
  let '(rest, acc) := st in
  match fuel with
  | O => rest :: acc
  | S fu =>
    let d := Nat.pred (length rest) in
    if Nat.eqb d 0 then acc
    else if Nat.ltb d (2 * k) then rest :: acc
    else factor_Zp_loop p fu (S k) (fold_ext (zrange p) k [1] (strip_factor p (S d)) st)
  end.
Definition factor_Zp_trial (p : Z) (f : list Z) : list (list Z) :=
  let fm := pnorm (pmonic_p p f) in
  factor_Zp_loop p (S (length fm)) 1 (fm, []).

(* ------------------------------------------------------------------ (d) irreducibility over Z: degree certificates modulo primes
   modcert (p, fs): p prime, p does not divide lc f, f = lc f * prod fs (mod p), every fs_i irreducible mod p.
   If f = g*h over Z with 0 < deg g < deg f then deg g is a sub-sum of the degrees of fs, for every certificate. *)
Definition modcert := (Z * list (list Z))%type.
Definition ones (fs : list (list Z)) : ufactors := map (fun g => (g, 1%nat)) fs.
Definition modcert_ok (f : list Z) (mc : modcert) : bool :=
  let '(p, fs) := mc in
  is_prime_Z p && negb (plc f mod p =? 0) &&
  peqb_p p (pscale (plc f) (uprod_p p (ones fs))) f &&
  forallb (irreducible_Zp_check p) fs.

Fixpoint subsums (l : list nat) : list nat :=
  match l with
  | [] => [O]
  | d :: l' => let s := subsums l' in nodup Nat.eq_dec (s ++ map (Nat.add d) s)
  end.
Definition cert_degrees (p : Z) (fs : list (list Z)) : list nat := map (fun g => Nat.pred (psize_p p g)) fs.
Definition memn (e : nat) (l : list nat) : bool := existsb (Nat.eqb e) l.

(* no degree 0 < e < deg f is a sub-sum for all certificates simultaneously *)
Definition irred_Z_cert (f : list Z) (certs : list modcert) : bool :=
  let d := pdeg f in
  Nat.leb 1 d &&
  forallb (modcert_ok f) certs &&
  let sums := map (fun mc : modcert => subsums (cert_degrees (fst mc) (snd mc))) certs in
  forallb (fun e => existsb (fun s => negb (memn e s)) sums) (seq 1 (d - 1)).

(* untrusted search for certificates: factor modulo each usable prime of the list *)
Definition find_modcerts (f : list Z) (primes : list Z) : list modcert :=
  map (fun p => (p, factor_Zp_trial p f)) (filter (fun p => negb (plc f mod p =? 0)) primes).

(* ------------------------------------------------------------------ ORACLE fall-back for Z: exhaustive search for a monic-up-to-lc
   divisor of degree <= deg/2 whose coefficients are within the bound B (the driver passes a Landau-Mignotte
   bound).  Sound only if B is a valid bound - NOT proved; used only where no degree certificate exists
   (polynomials that split modulo every prime). *)
Definition zrange_sym (b : Z) : list Z := map (fun n => Z.of_nat n - b) (seq 0 (Z.to_nat (2 * b + 1))).
Definition divisors_pos (n : Z) : list Z :=
  filter (fun d => (Z.abs n) mod d =? 0) (map (fun k => Z.of_nat k) (seq 1 (Z.to_nat (Z.abs n)))).
Definition divides_Z (g f : list Z) : bool :=
  match pdiv_exact f g with Some q => peqb (pmul g q) f | None => false end.
Definition no_factor_bounded (f : list Z) (b : Z) : bool :=
  let d := pdeg f in
  forallb (fun k =>
    forallb (fun l => all_ext (zrange_sym b) k [l] (fun g => negb (divides_Z g f))) (divisors_pos (plc f)))
    (seq 1 (Nat.div2 d)).
