(* Meaning of the direct (non-iterative) operations of the reference algebraic numbers: negation, extended comparison. *)
From Coq Require Import ZArith Lia.
From LP Require Import Scalar UPoly Gcd RefAlg.
Set Warnings "-notation-overridden,-ambiguous-paths".
From mathcomp Require Import all_ssreflect all_algebra all_real_closed.
From mathcomp Require Import ssrZ zify ring.
Set Warnings "notation-overridden,ambiguous-paths".
From LP Require Import UPolySpec ScalarProofs GcdSpec RefAlgSpec RefAlgLoops.
Import GRing.Theory Num.Theory Num.Def Order.TTheory.
Set Implicit Arguments.
Unset Strict Implicit.
Unset Printing Implicit Defensive.
Local Open Scope ring_scope.

Section Ops.
Variable R : rcfType.
Local Notation zr := (@zr R).
Local Notation pr := (@pr R).
Local Notation qr := (@qr R).
Local Notation rn_denotes := (@rn_denotes R).

Lemma qr_neg (a : Z * Z) : qpos a -> qpos (q_neg a) /\ qr (q_neg a) = - qr a.
Proof. by move=> Ha; split=> //; rewrite /RefAlgSpec.qr /= zrN mulNr. Qed.

Lemma pr_scale (c : Z) (p : seq Z) : pr (pscale c p) = zr c *: pr p.
Proof. by rewrite /RefAlgSpec.pr Poly_pscale map_polyZ. Qed.

(* the primitive part has the same real roots and, up to the sign of the content, the same signs *)
Lemma pr_ppp (p : seq Z) : pr p = zr (content_Z p) *: pr (ppp p).
Proof. by rewrite /RefAlgSpec.pr {1}(Poly_content_ppp p) map_polyZ. Qed.

Lemma pr_eq0 (p : seq Z) : (pr p == 0) = (Poly p == 0).
Proof.
case: (altP (Poly p =P 0)) => [E|H]; first by rewrite /RefAlgSpec.pr E rmorph0 eqxx.
by rewrite /RefAlgSpec.pr map_poly_eq0_id0 ?(negbTE H) // zr_eq0 ZeqbP lead_coef_eq0.
Qed.

Lemma Poly_negX : Poly [:: Z0; Zneg xH] = - 'X :> {poly Z}.
Proof.
rewrite !Poly_cons0 /= mul0r addr0 add0r.
have -> : (Zneg xH)%:P = - 1 :> {poly Z} by rewrite -polyCN.
by rewrite mulNr mul1r.
Qed.

Lemma pr_comp_negX (p : seq Z) : pr (UPoly.pcomp p [:: Z0; Zneg xH]) = pr p \Po (- 'X).
Proof. by rewrite /RefAlgSpec.pr Poly_pcomp (poly.map_comp_poly (zr_rmorphism R)) Poly_negX (rmorphN (map_poly_rmorphism (zr_rmorphism R))) /= map_polyX. Qed.

Lemma horner_comp_negX (P : {poly R}) (w : R) : (P \Po (- 'X)).[w] = P.[- w].
Proof. by rewrite horner_comp hornerN hornerX. Qed.

(* ---- negation *)
Theorem rn_neg_spec (x : rnum) (v : R) : rn_denotes x v -> rn_denotes (rn_neg x) (- v).
Proof.
case: x => [q|p lo hi] /=.
  by move=> [Hq ->]; have [H1 H2] := qr_neg Hq.
move=> [[Hlo Hhi] /andP[lov vhi] rv uniq sgn].
have [Hnlo Enlo] := qr_neg Hlo; have [Hnhi Enhi] := qr_neg Hhi.
set q := UPoly.pcomp p _.
have p0 : pr p != 0.
  by apply/eqP => E; move: sgn; rewrite E !horner0 sgr0 mulr0 => /eqP; rewrite eq_sym oppr_eq0 oner_eq0.
have Eq : pr q = pr p \Po (- 'X) by exact: pr_comp_negX.
have q0 : pr q != 0.
  apply/eqP => E; have := horner_comp_negX (pr p) (- qr lo).
  rewrite -Eq E horner0 opprK => /esym H.
  by move: sgn; rewrite H sgr0 mul0r => /eqP; rewrite eq_sym oppr_eq0 oner_eq0.
have c0 : zr (content_Z q) != 0.
  by apply/eqP => E; move/eqP: q0; apply; rewrite pr_ppp E scale0r.
have Hh (w : R) : (pr (ppp q)).[w] = (zr (content_Z q))^-1 * (pr p).[- w].
  by rewrite -horner_comp_negX -Eq (pr_ppp q) hornerZ mulKf.
have Hroot (w : R) : root (pr (ppp q)) w = root (pr p) (- w).
  by rewrite !rootE Hh mulf_eq0 invr_eq0 (negbTE c0).
split.
- by [].
- by rewrite Enlo Enhi ltr_opp2 vhi ltr_opp2 lov.
- by rewrite Hroot opprK.
- move=> w; rewrite Hroot Enlo Enhi => rw /andP[h1 h2].
  by rewrite -(uniq _ rw) ?opprK // ltr_oppr h2 ltr_oppl h1.
- rewrite !Hh Enlo Enhi !opprK !sgrM mulrACA -expr2 sqr_sg invr_eq0 c0 mul1r.
  by rewrite mulrC.
Qed.

(* ---- comparison of two numbers.  rn_cmp answers 0 through rn_eqb (gcd + Sturm count on the intersection) and otherwise
   by refinement.  The refinement part is proved outright; the equality test is sound whenever one side is rational
   (proved here); for two proper algebraic numbers its soundness is the named premise eqb_sound (gcd and interval Sturm
   count, see RefAlgValid.v / C06). *)
Lemma rn_eqb_sound_rational (x y : rnum) (a b : R) :
  rn_denotes x a -> rn_denotes y b -> (if x is RQ _ then true else if y is RQ _ then true else false) ->
  rn_eqb x y = true -> a = b.
Proof.
case: x => [qa|p lo hi] Hx; case: y => [qb|p' lo' hi'] Hy //= _ /Z.eqb_eq H0.
- case: Hx => Hqa Ea; have /= := rn_cmp_q_spec Hy Hqa; rewrite H0 zr0 Ea => /esym/eqP.
  by rewrite sgr_eq0 subr_eq0 => /eqP ->.
- case: Hx => Hqa Ea; have /= := rn_cmp_q_spec Hy Hqa; rewrite H0 zr0 Ea => /esym/eqP.
  by rewrite sgr_eq0 subr_eq0 => /eqP ->.
- case: Hy => Hqb Eb; have /= := rn_cmp_q_spec Hx Hqb; rewrite H0 zr0 Eb => /esym/eqP.
  by rewrite sgr_eq0 subr_eq0 => /eqP ->.
Qed.

Theorem rn_cmp_spec_cond (fuel : nat) (x y : rnum) (a b : R) (s : Z) :
  (rn_eqb x y = true -> a = b) ->
  rn_denotes x a -> rn_denotes y b -> rn_cmp fuel x y = Some s -> zr s = sgr (a - b).
Proof.
move=> eqb_sound Hx Hy; rewrite /rn_cmp; case E: (rn_eqb x y).
  by case=> <-; rewrite (eqb_sound E) subrr sgr0 zr0.
exact: rn_cmp_loop_spec.
Qed.

End Ops.
