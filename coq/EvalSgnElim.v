(* C10 proofs: `annihilates` for ONE algebraic variable.  The eliminant B(z) = Res_y (z - C_rat, f) is computed with
   the reference resultant of C04 (Sylvester.v); the criterion "the resultant vanishes iff common factor" of
   SylvesterProofs.v is instantiated at a REAL point (den = BoundsProofs.mp_evalR rho), so that a common root
   y = alpha of z - C_rat and f makes B vanish at z = C_rat(alpha). *)
From Coq Require Import ZArith NArith List Bool.
From LP Require Import Scalar ScalarProofs UPoly MPoly Sylvester EvalSgn EvalSgnProofs Bounds.
Set Warnings "-notation-overridden,-ambiguous-paths".
From mathcomp Require Import all_ssreflect all_algebra.
From mathcomp Require Import ssrZ zify ring.
Set Warnings "notation-overridden,ambiguous-paths".
From LP Require Import MPolySpec SylvesterProofs BoundsProofs EvalSgnReal.
Import Order.TTheory GRing.Theory Num.Theory.
Set Implicit Arguments.
Unset Strict Implicit.
Unset Printing Implicit Defensive.
Local Open Scope ring_scope.

(* ---- a predicate closed under the ring operations is inherited by the reference determinants *)
Section Closure.
Variable A : Type.
Variables (zero one : A) (add : A -> A -> A) (opp : A -> A) (mul : A -> A -> A) (is_zero : A -> bool).
Variable Pr : A -> Prop.
Hypothesis Pr0 : Pr zero.
Hypothesis Pr1 : Pr one.
Hypothesis PrD : forall a b, Pr a -> Pr b -> Pr (add a b).
Hypothesis PrN : forall a, Pr a -> Pr (opp a).
Hypothesis PrM : forall a b, Pr a -> Pr b -> Pr (mul a b).

Definition all_ent (m : seq (seq A)) := forall row, List.In row m -> forall a, List.In a row -> Pr a.

Lemma Pr_sy_nth row j : (forall a, List.In a row -> Pr a) -> Pr (sy_nth A zero row j).
Proof.
rewrite /sy_nth => H; elim: row j H => [|a row IH] [|j] H //=.
- by apply: H; left.
- by apply: IH => b Hb; apply: H; right.
Qed.

Lemma In_sy_drop_nth j (l : seq A) a : List.In a (sy_drop_nth A j l) -> List.In a l.
Proof.
elim: l j => [|h t IH] [|j] //=; first by right.
by case=> [->|/IH]; [left|right].
Qed.

Lemma Pr_mdet n m : all_ent m -> Pr (mdet A zero one add opp mul is_zero n m).
Proof.
elim: n m => [|n IH] m Hm; first by [].
cbn [mdet]; move: (List.seq 0 n.+1) => js.
have Hrow : forall a, List.In a (List.hd [::] m) -> Pr a.
  by case: m Hm => [|r m] Hm //= a Ha; apply: (Hm r) => //; left.
have Hrest : all_ent (List.tl m).
  by case: m Hm {Hrow} => [|r m] Hm //= row Hr; apply: Hm; right.
elim: js => [|j js IHj] //=.
case: (is_zero _) => //.
apply: PrD => //.
have Hmin : Pr (mdet A zero one add opp mul is_zero n (List.map (sy_drop_nth A j) (List.tl m))).
  apply: IH => row /List.in_map_iff [r [<- Hr]] a /In_sy_drop_nth Ha; exact: (Hrest r).
by case: (Nat.even j); [|apply: PrN]; apply: PrM => //; apply: Pr_sy_nth.
Qed.

Lemma Pr_sylv_det k j p q : (forall a, List.In a p -> Pr a) -> (forall a, List.In a q -> Pr a) ->
  Pr (sylv_det A zero one add opp mul is_zero k j p q).
Proof.
move=> Hp Hq; rewrite /sylv_det; apply: Pr_mdet => row.
rewrite /sylv_mat => /List.in_app_iff [] /List.in_map_iff [i [<- _]] a /List.in_map_iff [c [<- _]];
  rewrite /sy_cf; case: (Nat.leb _ _) => //; exact: Pr_sy_nth.
Qed.
End Closure.

Section Elim.
Variable R : realFieldType.
Implicit Types (rho : var -> R) (p : mpoly).

Lemma lsum_Poly (x : R) k vs : lsum x k vs = x ^+ k * (Poly vs).[x].
Proof.
elim: vs k => [|v vs IH] k /=; first by rewrite horner0 mulr0.
by rewrite IH cons_poly_def hornerD hornerMX hornerC exprS; ring.
Qed.

Lemma lsum_hornerR (r : R) k (l : seq Z) : lsum r k (List.map (ZR R) l) = r ^+ k * hornerR l r.
Proof.
elim: l k => [|c l IH] k /=; first by rewrite mulr0.
by rewrite IH exprS /zR /ZR; ring.
Qed.

Lemma evalR_mp_const rho c : mp_evalR rho (mp_const c) = ZR R c.
Proof.
rewrite /mp_const; case: (Z.eqb_spec c 0) => [->|_] //=.
by rewrite /term_evalR /= mulr1 addr0.
Qed.

Lemma evalR_is_zero rho a : mp_is_zero a = true -> mp_evalR rho a = 0.
Proof. by case: a. Qed.

Lemma evalR_one rho : mp_evalR rho mp_one = 1.
Proof. by rewrite /mp_one evalR_mp_const. Qed.

(* the resultant criterion of C04 at a REAL point: den = evaluation at rho *)
Lemma res_mp_eq0_real rho (p q : seq mpoly) :
  (0 < size p)%N -> (0 < (size q).-1)%N -> last 1 (map (mp_evalR rho) q) != 0 ->
  (mp_evalR rho (resultant_mp p q) == 0) =
  (1 < size (gcdp (Poly (map (mp_evalR rho) p)) (Poly (map (mp_evalR rho) q))))%N.
Proof.
exact: (@res_ref_eq0_lcq _ mpoly [::] mp_one mp_add mp_neg mp_mul mp_is_zero (mp_evalR rho) erefl (evalR_one rho)
          (evalR_add rho) (evalR_neg rho) (evalR_mul rho) (evalR_is_zero rho) p q).
Qed.

Lemma upd_same rho x (v : R) : upd rho x v x = v.
Proof. by rewrite /upd N.eqb_refl. Qed.
Lemma upd_other rho x (v : R) y : y <> x -> upd rho x v y = rho y.
Proof. by rewrite /upd => /N.eqb_neq ->. Qed.

Lemma map_evalR_coeffs_upd rho y a p :
  List.map (mp_evalR (upd rho y a)) (mp_coeffs y p) = List.map (mp_evalR rho) (mp_coeffs y p).
Proof.
rewrite /mp_coeffs; case: p => [|t p] //; rewrite !List.map_map; apply: List.map_ext => k.
exact: evalR_coeff_upd.
Qed.

Lemma last_ZR_neq0 (f : seq Z) : (1 < size f)%N -> List.last f Z0 <> Z0 -> last 1 (map (ZR R) f) != 0.
Proof.
case: f => [|c f] // _.
have -> : List.last (c :: f) Z0 = last c f by elim: f c => [|d f IH] c //=; rewrite -IH.
by move=> H; rewrite /= last_map ZR_eq0; apply/Z.eqb_spec.
Qed.

(* one elimination step: if alpha is a root of f (degree >= 1, non-zero leading coefficient) and A vanishes at
   y := alpha, then the reference resultant Res_y (A, f) vanishes (at every value given to y) *)
Theorem elim_alg_vanishes rho y A (f : seq Z) (alpha : R) :
  mwf A -> A <> [::] -> (1 < size f)%N -> List.last f Z0 <> Z0 ->
  hornerR f alpha = 0 -> mp_evalR (upd rho y alpha) A = 0 ->
  mp_evalR rho (elim_alg y A f) = 0.
Proof.
move=> wA A0 sf lf fa Aa; apply/eqP; rewrite /elim_alg res_mp_eq0_real.
- set P := Poly _; set Q := Poly _.
  have Qs : Q = Poly (map (ZR R) f).
    by rewrite /Q -!List_map_map List.map_map; congr (Poly _); apply: List.map_ext => c; exact: evalR_mp_const.
  have lQ := last_ZR_neq0 sf lf.
  have Q0 : Q != 0 by rewrite Qs -size_poly_gt0 (PolyK lQ) size_map; apply: leq_trans sf.
  have rQ : root Q alpha.
    by rewrite /root Qs; have := lsum_Poly alpha 0 (map (ZR R) f); rewrite expr0 mul1r => <-;
       rewrite -List_map_map lsum_hornerR expr0 mul1r fa.
  have rP : root P alpha.
    rewrite /root /P; have := lsum_Poly alpha 0 (map (mp_evalR rho) (mp_coeffs y A)); rewrite expr0 mul1r => <-.
    by rewrite -List_map_map -(map_evalR_coeffs_upd rho y alpha) -{1}(upd_same rho y alpha) -evalR_coeffs // Aa eqxx.
  apply: (@root_size_gt1 _ alpha); first by rewrite gcdp_eq0 (negbTE Q0) andbF.
  by rewrite root_gcd rP rQ.
- by rewrite /mp_coeffs; case: A A0 {wA Aa} => [|t A].
- by rewrite List_map_map size_map; case: (size f) sf => [|[|n]].
- rewrite !List_map_map -map_comp.
  have -> : map (mp_evalR rho \o mp_const) f = map (ZR R) f.
    by apply: eq_map => c /=; exact: evalR_mp_const.
  exact: last_ZR_neq0.
Qed.

(* evaluation at an integer point *)
Lemma ZR_pow (a : Z) (n : nat) : ZR R (Z.pow a (Z.of_nat n)) = ZR R a ^+ n.
Proof.
elim: n => [|n IH]; first by rewrite expr0.
by rewrite Nat2Z.inj_succ Z.pow_succ_r ?ZRM ?IH ?exprS //; apply: Nat2Z.is_nonneg.
Qed.

Lemma evalR_int (r : var -> Z) p : mp_evalR (fun x => ZR R (r x)) p = ZR R (mp_eval r p).
Proof.
elim: p => [|[m c] p IH] //=; rewrite IH ZRD ZRM /term_evalR /=; congr (_ * _ + _).
elim: m => [|[x e] m IHm] //=; rewrite IHm ZRM; congr (_ * _).
by rewrite -ZR_pow N_nat_Z.
Qed.

Definition ptz (z : var) (v : R) : var -> R := fun x => if N.eqb x z then v else 0.

(* upoly_in reads the coefficients of a polynomial in z alone: at any point where the other variables are 0 *)
Lemma hornerR_upoly_in z (v : R) B : mwf B -> hornerR (upoly_in z B) v = mp_evalR (ptz z v) B.
Proof.
move=> wB; rewrite (evalR_coeffs (ptz z v) z wB) /upoly_in /mp_coeffs.
have -> : ptz z v z = v by rewrite /ptz N.eqb_refl.
case: B wB => [|t B] wB //.
have := lsum_hornerR v 0 (List.map (fun k => mp_eval (fun=> Z0) (mp_coeff z (N.of_nat k) (t :: B)))
                                   (List.seq 0 (S (N.to_nat (mp_degree z (t :: B)))))).
rewrite expr0 mul1r => <-; rewrite !List.map_map; congr (lsum _ _ _); apply: List.map_ext => k.
rewrite -evalR_int; apply: evalR_coeff_indep => y Hy.
by rewrite /ptz; move/N.eqb_neq: Hy => ->.
Qed.

Lemma evalR_deg0_indep rho rho' z p : mwf p -> mp_degree z p = 0%num ->
  (forall y, y <> z -> rho' y = rho y) -> mp_evalR rho' p = mp_evalR rho p.
Proof.
move=> wp dp H; rewrite (evalR_coeffs rho' z wp) (evalR_coeffs rho z wp) /mp_coeffs dp.
case: p {wp dp} => [|t p] //=; rewrite !expr0 !mulr1 !addr0.
exact: evalR_coeff_indep.
Qed.

Lemma In_mem (T : eqType) (a : T) (l : seq T) : List.In a l -> a \in l.
Proof. by elim: l => [|b l IH] //= [->|/IH H]; rewrite in_cons ?eqxx ?H ?orbT. Qed.
Lemma mem_In (T : eqType) (a : T) (l : seq T) : a \in l -> List.In a l.
Proof. by elim: l => [|b l IH] //=; rewrite in_cons => /orP [/eqP ->|/IH]; [left|right]. Qed.

Lemma mp_wf_coeff x k p : mp_wf p -> mp_wf (mp_coeff x k p).
Proof.
move=> wp; rewrite /mp_coeff; apply: mp_wf_of_terms => t /mem_In /List.in_map_iff [u [<- /List.filter_In [Hu _]]] /=.
by case: (mp_wf_monos wp (In_mem Hu)) => Hm _; apply: mono_wf_from_remove.
Qed.

Lemma mp_wf_elim_alg y A (f : seq Z) : mp_wf A -> mp_wf (elim_alg y A f).
Proof.
move=> wA; rewrite /elim_alg /resultant_mp /resultant_ref.
apply: (@Pr_sylv_det mpoly [::] mp_one mp_add mp_neg mp_mul mp_is_zero (fun a => mp_wf a)) => //.
- by move=> a b; exact: mp_wf_add.
- by move=> a; exact: mp_wf_neg.
- by move=> a b; exact: mp_wf_mul.
- rewrite /mp_coeffs; case: A wA => [|t A'] wA // a /List.in_map_iff [k [<- _]].
  exact: mp_wf_coeff.
- by move=> a /List.in_map_iff [c [<- _]]; exact: mp_wf_const.
Qed.

Lemma mp_wf_var1 z : mp_wf (mp_var_pow z 1).
Proof. by rewrite /mp_var_pow /mono_var /= /mono_wf /=. Qed.

Lemma evalR_sub rho p q : mp_evalR rho (mp_sub p q) = mp_evalR rho p - mp_evalR rho q.
Proof. by rewrite /mp_sub evalR_add evalR_neg. Qed.

(* (3) annihilates, one algebraic variable: y := alpha, a root of f; C_rat does not contain the fresh variable z.
   The value v of C_rat at y = alpha is a root of the eliminant B(z) = Res_y (z - C_rat, f). *)
Theorem eliminant1_annihilates z y C_rat (f : seq Z) (alpha : R) :
  z <> y -> mp_wf C_rat -> mp_degree z C_rat = 0%num ->
  (1 < size f)%N -> List.last f Z0 <> Z0 -> hornerR f alpha = 0 ->
  hornerR (eliminant1 z y C_rat f) (mp_evalR (ptz y alpha) C_rat) = 0.
Proof.
move=> zy wC dC sf lf fa; set v := mp_evalR _ _; rewrite /eliminant1.
set A := mp_sub _ _.
have wA : mp_wf A by apply: mp_wf_sub => //; exact: mp_wf_var1.
have mC : mwf C_rat by apply: mp_wf_mwf; exact: wC.
(* the value of A = z - C_rat at a point that agrees with (y := alpha, others 0) off z *)
have evA rho : (forall x, x <> z -> rho x = ptz y alpha x) -> mp_evalR rho A = rho z - v.
  by move=> H; rewrite /A evalR_sub evalR_var1 (evalR_deg0_indep mC dC H).
rewrite hornerR_upoly_in; last by apply: mp_wf_mwf; exact: mp_wf_elim_alg.
apply: (@elim_alg_vanishes (ptz z v) y A f alpha) => //.
- by apply: mp_wf_mwf; exact: wA.
- move=> A0; have := evA (upd (ptz y alpha) z (v + 1)).
  rewrite A0 upd_same /= => /(_ (fun x Hx => upd_other _ _ Hx)) /eqP.
  by rewrite addrC addKr eq_sym oner_eq0.
- rewrite evA; first by rewrite upd_other // /ptz N.eqb_refl subrr.
  move=> x xz; rewrite /upd /ptz; case: (N.eqb_spec x y) => // _.
  by move/N.eqb_neq: xz => ->.
Qed.
End Elim.
