(* Proofs about the L0 model (Scalar.v).  Property statements live in Properties_C17.v. *)
From Coq Require Import ZArith List Bool Lia Lqa QArith Qfield Qpower Znumtheory.
From LP Require Import Scalar.
Import ListNotations.
Local Open Scope Z_scope.

Ltac Zify.zify_post_hook ::= Z.div_mod_to_equations.

(* ------------------------------------------------------------------ ring normalisation *)

Lemma ring_ub_eq M : 0 < M -> ring_ub M = M / 2.
Proof. intros H. unfold ring_ub. rewrite Z.quot_div_nonneg by lia. reflexivity. Qed.

Lemma ring_lb_eq M : 0 < M -> ring_lb M = - ((M - 1) / 2).
Proof. intros H. unfold ring_lb. rewrite Z.quot_div_nonneg by lia. reflexivity. Qed.

Lemma in_ring_spec M c : 0 < M ->
  in_ring (Some M) c = true <-> (ring_lb M <= c <= ring_ub M).
Proof.
  intros HM. unfold in_ring.
  pose proof (ring_ub_eq M HM) as Hub. pose proof (ring_lb_eq M HM) as Hlb.
  destruct c as [|p|p]; cbn [Z.sgn].
  - split; [intros _|reflexivity]. lia.
  - rewrite Z.leb_le. lia.
  - rewrite Z.leb_le. lia.
Qed.

Lemma ring_norm_range M c : 0 < M ->
  ring_lb M <= ring_norm (Some M) c <= ring_ub M.
Proof.
  intros HM. unfold ring_norm.
  destruct (in_ring (Some M) c) eqn:Hin.
  - apply in_ring_spec; assumption.
  - pose proof (ring_ub_eq M HM) as Hub. pose proof (ring_lb_eq M HM) as Hlb.
    pose proof (Z.rem_bound_pos_pos) as _.
    assert (Hrem: Z.abs (Z.rem c M) < M) by (pose proof (Z.rem_bound_abs c M); lia).
    assert (Hs: Z.sgn (Z.rem c M) = 1 /\ 0 < Z.rem c M \/ Z.sgn (Z.rem c M) = 0 /\ Z.rem c M = 0
                \/ Z.sgn (Z.rem c M) = -1 /\ Z.rem c M < 0).
    { destruct (Z.rem c M); cbn; lia. }
    set (r := Z.rem c M) in *. clearbody r.
    destruct Hs as [[Hs Hr]|[[Hs Hr]|[Hs Hr]]]; rewrite Hs; cbn [Z.ltb Z.compare andb].
    + destruct (ring_ub M <? r) eqn:E; [apply Z.ltb_lt in E|apply Z.ltb_ge in E]; lia.
    + lia.
    + destruct (r <? ring_lb M) eqn:E; [apply Z.ltb_lt in E|apply Z.ltb_ge in E]; lia.
Qed.

Lemma ring_norm_range_explicit M c : 0 < M ->
  - ((M - 1) / 2) <= ring_norm (Some M) c <= M / 2.
Proof.
  intros HM. pose proof (ring_norm_range M c HM) as H.
  rewrite ring_ub_eq, ring_lb_eq in H by assumption. exact H.
Qed.

Lemma ring_norm_cong M c : 0 < M -> (ring_norm (Some M) c) mod M = c mod M.
Proof.
  intros HM. unfold ring_norm.
  destruct (in_ring (Some M) c); [reflexivity|].
  assert (Hr: (Z.rem c M) mod M = c mod M).
  { pose proof (Z.quot_rem' c M) as H.
    rewrite H at 2. rewrite Z.add_comm, Z.mul_comm, Z_mod_plus_full. reflexivity. }
  set (r := Z.rem c M) in *. clearbody r.
  destruct ((0 <? Z.sgn r) && (ring_ub M <? r)).
  - destruct ((Z.sgn r <? 0) && (r - M <? ring_lb M)).
    + replace (r - M + M) with r by lia. assumption.
    + rewrite <- Hr. replace (r - M) with (r + (-1) * M) by lia. apply Z_mod_plus_full.
  - destruct ((Z.sgn r <? 0) && (r <? ring_lb M)).
    + rewrite <- Hr. replace (r + M) with (r + 1 * M) by lia. apply Z_mod_plus_full.
    + assumption.
Qed.

(* two representatives in the symmetric range that are congruent are equal *)
Lemma ring_range_unique M x y : 0 < M ->
  ring_lb M <= x <= ring_ub M -> ring_lb M <= y <= ring_ub M ->
  x mod M = y mod M -> x = y.
Proof.
  intros HM Hx Hy Hxy.
  rewrite ring_ub_eq, ring_lb_eq in * by assumption.
  assert (Hd: (x - y) mod M = 0).
  { rewrite Zminus_mod, Hxy, Z.sub_diag. apply Zmod_0_l. }
  apply Z.mod_divide in Hd; [|lia]. destruct Hd as [k Hk].
  assert (-M < x - y < M) by lia.
  assert (k = 0) by nia. lia.
Qed.

Lemma ring_norm_idem K c : match K with Some M => 0 < M | None => True end ->
  ring_norm K (ring_norm K c) = ring_norm K c.
Proof.
  destruct K as [M|]; [|reflexivity]. intros HM.
  pose proof (ring_norm_range M c HM) as Hr.
  apply (in_ring_spec M _ HM) in Hr.
  unfold ring_norm at 1. rewrite Hr. reflexivity.
Qed.

(* the canonical-representative characterisation: this is "the representative of the exact result
   in the symmetric range" *)
Lemma ring_norm_char M c r : 0 < M ->
  ring_lb M <= r <= ring_ub M -> r mod M = c mod M -> ring_norm (Some M) c = r.
Proof.
  intros HM Hr Hc.
  apply (ring_range_unique M); try assumption.
  - apply ring_norm_range; assumption.
  - rewrite ring_norm_cong by assumption. symmetry; assumption.
Qed.

(* the symmetric range holds exactly M residues *)
Lemma ring_range_size M : 0 < M -> ring_ub M - ring_lb M + 1 = M.
Proof. intros HM. rewrite ring_ub_eq, ring_lb_eq by assumption. lia. Qed.

(* ------------------------------------------------------------------ ring operations *)

Section RingOps.
Variable M : Z.
Hypothesis HM : 0 < M.
Let K := Some M.

Definition repr (r c : Z) : Prop := ring_lb M <= r <= ring_ub M /\ r mod M = c mod M.

Lemma norm_repr c : repr (ring_norm K c) c.
Proof. split; [apply ring_norm_range|apply ring_norm_cong]; assumption. Qed.

Lemma int_add_spec a b : repr (int_add K a b) (a + b).
Proof. apply norm_repr. Qed.
Lemma int_sub_spec a b : repr (int_sub K a b) (a - b).
Proof. apply norm_repr. Qed.
Lemma int_neg_spec a : repr (int_neg K a) (- a).
Proof. apply norm_repr. Qed.
Lemma int_mul_spec a b : repr (int_mul K a b) (a * b).
Proof. apply norm_repr. Qed.
Lemma int_inc_spec a : repr (int_inc K a) (a + 1).
Proof. apply norm_repr. Qed.
Lemma int_dec_spec a : repr (int_dec K a) (a - 1).
Proof. apply norm_repr. Qed.
Lemma int_add_mul_spec s a b : repr (int_add_mul K s a b) (s + a * b).
Proof. apply norm_repr. Qed.
Lemma int_sub_mul_spec s a b : repr (int_sub_mul K s a b) (s - a * b).
Proof. apply norm_repr. Qed.
Lemma int_mul_pow2_spec a n : repr (int_mul_pow2 K a n) (a * 2 ^ Z.of_N n).
Proof. apply norm_repr. Qed.
Lemma int_pow_spec a n : repr (int_pow K a n) (a ^ Z.of_N n).
Proof.
  unfold int_pow, K. destruct (norm_repr ((a ^ Z.of_N n) mod M)) as [H1 H2].
  split; [exact H1|]. fold K. rewrite H2. apply Z.mod_mod. lia.
Qed.

Lemma int_sgn_spec c : int_sgn K c = Z.sgn (ring_norm K c).
Proof. reflexivity. Qed.

Lemma int_cmp_spec a b :
  int_cmp K a b = cmp_to_Z (ring_norm K a ?= ring_norm K b).
Proof. reflexivity. Qed.

Lemma int_cmp_eq_iff a b : int_cmp K a b = 0 <-> a mod M = b mod M.
Proof.
  unfold int_cmp. split.
  - destruct (Z.compare_spec (ring_norm K a) (ring_norm K b)) as [E|E|E]; cbn; try discriminate.
    intros _. rewrite <- (ring_norm_cong M a HM), <- (ring_norm_cong M b HM). fold K. rewrite E. reflexivity.
  - intros E.
    assert (ring_norm K a = ring_norm K b).
    { apply (ring_norm_char M a); try assumption.
      - apply ring_norm_range; assumption.
      - unfold K. rewrite ring_norm_cong by assumption. symmetry; assumption. }
    rewrite H. rewrite Z.compare_refl. reflexivity.
Qed.

End RingOps.

(* ------------------------------------------------------------------ extended gcd, inverse *)

Lemma egcd_spec a b g u v : egcd a b = (g, u, v) ->
  u * a + v * b = g /\ g = Z.gcd a b.
Proof.
  unfold egcd. destruct (euclid a b) as [u0 v0 d Hb Hg].
  assert (Hd: Z.abs d = Z.gcd a b).
  { symmetry. apply Zis_gcd_gcd; [apply Z.abs_nonneg|].
    destruct (Z.abs_eq_or_opp d) as [E|E]; rewrite E; [assumption|apply Zis_gcd_opp, Zis_gcd_sym; assumption]. }
  destruct (d <? 0) eqn:E; intros H; inversion H; subst; clear H;
    [apply Z.ltb_lt in E|apply Z.ltb_ge in E]; split; lia.
Qed.

Lemma egcd_bezout a b g u v : egcd a b = (g, u, v) -> u * a + v * b = g.
Proof. intros H. apply egcd_spec in H. tauto. Qed.

Lemma int_inv_spec M a i : 0 < M ->
  int_inv (Some M) a = Some i ->
  (ring_lb M <= i <= ring_ub M) /\ (a * i) mod M = 1 mod M.
Proof.
  intros HM. unfold int_inv.
  destruct (egcd a M) as [[g u] v] eqn:E.
  destruct (g =? 1) eqn:Eg; [|discriminate].
  apply Z.eqb_eq in Eg. subst g. intros H.
  assert (Hi : i = ring_norm (Some M) (u mod M)) by congruence. clear H. subst i.
  split; [apply ring_norm_range; assumption|].
  apply egcd_bezout in E.
  rewrite Zmult_mod, ring_norm_cong by assumption.
  rewrite Z.mod_mod by lia. rewrite <- Zmult_mod.
  replace (a * u) with (1 + (- v) * M) by lia.
  apply Z_mod_plus_full.
Qed.


Lemma int_inv_complete M a : 0 < M -> Z.gcd a M = 1 -> exists i, int_inv (Some M) a = Some i.
Proof.
  intros HM Hg. unfold int_inv.
  destruct (egcd a M) as [[g u] v] eqn:E.
  apply egcd_spec in E. destruct E as [_ E]. rewrite Hg in E. subst g.
  cbn. eexists; reflexivity.
Qed.

Lemma int_inv_none M a : 0 < M -> int_inv (Some M) a = None -> Z.gcd a M <> 1.
Proof.
  intros HM H Hg. destruct (int_inv_complete M a HM Hg) as [i Hi]. congruence.
Qed.

(* ------------------------------------------------------------------ exact division, divides *)

Lemma int_div_exact_ok_spec M a b d : 0 < M ->
  int_div_exact_ok (Some M) a b d = true <->
  ((ring_lb M <= d <= ring_ub M) /\ (d * b) mod M = a mod M).
Proof.
  intros HM. unfold int_div_exact_ok.
  rewrite andb_true_iff, Z.eqb_eq, in_ring_spec by assumption.
  split; intros [H1 H2]; split; try assumption.
  - apply Z.mod_divide in H1; [|lia]. destruct H1 as [k Hk].
    replace (d * b) with (a + k * M) by lia. apply Z_mod_plus_full.
  - rewrite Zminus_mod, H2, Z.sub_diag. apply Zmod_0_l.
Qed.

Lemma int_div_exact_Z_ok_spec a b d :
  int_div_exact_ok None a b d = true <-> d * b = a.
Proof. unfold int_div_exact_ok. apply Z.eqb_eq. Qed.

Lemma int_div_exact_sound M a b d : 0 < M ->
  int_div_exact (Some M) a b = Some d -> int_div_exact_ok (Some M) a b d = true.
Proof.
  intros HM. unfold int_div_exact.
  destruct (egcd b M) as [[g c1] c2] eqn:E.
  destruct (g =? 0) eqn:Eg0; [discriminate|].
  destruct (a mod g =? 0) eqn:Ediv; [|discriminate].
  intros H. assert (Hd : d = ring_norm (Some M) (c1 * (a / g))) by congruence. clear H. subst d.
  apply int_div_exact_ok_spec; [assumption|]. split; [apply ring_norm_range; assumption|].
  apply egcd_bezout in E. apply Z.eqb_neq in Eg0. apply Z.eqb_eq in Ediv.
  rewrite Zmult_mod, ring_norm_cong by assumption. rewrite <- Zmult_mod.
  assert (Ha : a = g * (a / g)) by (pose proof (Z.div_mod a g Eg0); lia).
  set (q := a / g) in *. clearbody q.
  replace (c1 * q * b) with (a + (- c2 * q) * M) by nia.
  apply Z_mod_plus_full.
Qed.

(* a quotient exists <=> the model finds one *)
Lemma int_div_exact_complete M a b x : 0 < M ->
  (x * b) mod M = a mod M -> exists d, int_div_exact (Some M) a b = Some d.
Proof.
  intros HM Hx. unfold int_div_exact.
  destruct (egcd b M) as [[g c1] c2] eqn:E.
  apply egcd_spec in E. destruct E as [_ Hg].
  assert (Hgpos : 0 < g).
  { rewrite Hg. pose proof (Z.gcd_nonneg b M).
    assert (Z.gcd b M <> 0) by (intros H0; apply Z.gcd_eq_0_r in H0; lia). lia. }
  replace (g =? 0) with false by (symmetry; apply Z.eqb_neq; lia).
  assert (Hdiv : (g | a)).
  { assert (Hga : (g | x * b - a)).
    { apply Z.divide_trans with M; [rewrite Hg; apply Z.gcd_divide_r|].
      apply Z.mod_divide; [lia|]. rewrite Zminus_mod, Hx, Z.sub_diag. apply Zmod_0_l. }
    assert (Hgb : (g | x * b)) by (apply Z.divide_mul_r; rewrite Hg; apply Z.gcd_divide_l).
    replace a with (x * b - (x * b - a)) by lia. apply Z.divide_sub_r; assumption. }
  apply Z.mod_divide in Hdiv; [|lia]. rewrite Hdiv. cbn. eexists; reflexivity.
Qed.

Lemma int_divides_Z_spec a b : int_divides None false a b = true <-> (a | b).
Proof.
  unfold int_divides. destruct (a =? 0) eqn:Ea.
  - apply Z.eqb_eq in Ea. subst a. rewrite Z.eqb_eq. split.
    + intros ->. apply Z.divide_0_r.
    + intros [k Hk]. lia.
  - apply Z.eqb_neq in Ea. rewrite Z.eqb_eq. apply Z.mod_divide. assumption.
Qed.

(* composite modulus: true exactly when the congruence a*x = b (mod M) is solvable *)
Lemma int_divides_ring_spec M a b : 0 < M ->
  int_divides (Some M) false a b = true <-> exists x, (a * x) mod M = b mod M.
Proof.
  intros HM. unfold int_divides.
  assert (Hgpos : 0 < Z.gcd a M).
  { pose proof (Z.gcd_nonneg a M).
    assert (Z.gcd a M <> 0) by (intros H0; apply Z.gcd_eq_0_r in H0; lia). lia. }
  rewrite Z.eqb_eq. rewrite Z.mod_divide by lia. split.
  - intros [k Hk].
    destruct (Z.gcd_bezout a M (Z.gcd a M) eq_refl) as [u [v Huv]].
    exists (u * k).
    replace (a * (u * k)) with (b + (- v * k) * M) by nia. apply Z_mod_plus_full.
  - intros [x Hx].
    assert (Hga : (Z.gcd a M | a * x - b)).
    { apply Z.divide_trans with M; [apply Z.gcd_divide_r|].
      apply Z.mod_divide; [lia|]. rewrite Zminus_mod, Hx, Z.sub_diag. apply Zmod_0_l. }
    replace b with (a * x - (a * x - b)) by lia. apply Z.divide_sub_r; [|assumption].
    apply Z.divide_mul_l. apply Z.gcd_divide_l.
Qed.

(* prime modulus, as coded: "a is not 0" (callers pass ring elements).  For a <> 0 (mod M) and M prime
   every b is divisible; for a = 0 the code answers false also for b = 0 (documented restriction). *)
Lemma int_divides_prime_spec M a b : prime M -> ring_lb M <= a <= ring_ub M -> a <> 0 ->
  int_divides (Some M) true a b = true /\ exists x, (a * x) mod M = b mod M.
Proof.
  intros HP Ha Ha0. pose proof (prime_ge_2 M HP) as HM2.
  unfold int_divides. split.
  - destruct a; cbn; congruence.
  - assert (Hrel : rel_prime a M).
    { apply rel_prime_sym. apply prime_rel_prime; [assumption|].
      intros [k Hk]. rewrite ring_ub_eq, ring_lb_eq in Ha by lia.
      assert (k = 0) by nia. lia. }
    destruct (rel_prime_bezout a M Hrel) as [u v Huv].
    exists (u * b). replace (a * (u * b)) with ((u * a + v * M) * b + (- v * b) * M) by ring.
    rewrite Huv, Z.mul_1_l. apply Z_mod_plus_full.
Qed.

(* ------------------------------------------------------------------ rationals *)

Local Open Scope Q_scope.

Definition QofR (q : rat) : Q := inject_Z (fst q) / inject_Z (snd q).

Definition q_wf (q : rat) : Prop := (0 < snd q)%Z /\ Z.gcd (fst q) (snd q) = 1%Z.

Lemma q_is_canon_spec q : q_is_canon q = true <-> q_wf q.
Proof.
  unfold q_is_canon, q_wf. rewrite andb_true_iff, Z.ltb_lt, Z.eqb_eq. tauto.
Qed.

Lemma QofR_eq_iff a b : (snd a <> 0)%Z -> (snd b <> 0)%Z ->
  (QofR a == QofR b <-> (fst a * snd b = fst b * snd a)%Z).
Proof.
  intros Ha Hb. unfold QofR.
  assert (~ inject_Z (snd a) == 0) by (unfold Qeq; cbn; lia).
  assert (~ inject_Z (snd b) == 0) by (unfold Qeq; cbn; lia).
  split.
  - intros H1.
    assert (H2 : inject_Z (fst a) * inject_Z (snd b) == inject_Z (fst b) * inject_Z (snd a)).
    { transitivity (inject_Z (fst a) / inject_Z (snd a) * (inject_Z (snd a) * inject_Z (snd b))); [field; assumption|].
      rewrite H1. field. assumption. }
    rewrite <- !inject_Z_mult in H2. unfold Qeq in H2. cbn in H2. lia.
  - intros H1.
    assert (H2 : inject_Z (fst a) * inject_Z (snd b) == inject_Z (fst b) * inject_Z (snd a)).
    { rewrite <- !inject_Z_mult. rewrite H1. reflexivity. }
    transitivity (inject_Z (fst a) * inject_Z (snd b) / (inject_Z (snd a) * inject_Z (snd b))); [field; tauto|].
    rewrite H2. field. tauto.
Qed.

(* canonical forms are unique: equal value => equal representation *)
Lemma q_wf_unique a b : q_wf a -> q_wf b -> QofR a == QofR b -> a = b.
Proof.
  intros [Ha1 Ha2] [Hb1 Hb2] H.
  apply QofR_eq_iff in H; try lia.
  destruct a as [n1 d1], b as [n2 d2]. cbn [fst snd] in *.
  assert (Hd12 : (d1 | d2)%Z).
  { apply Z.gauss with n1; [exists n2; lia|]. rewrite Z.gcd_comm. assumption. }
  assert (Hd21 : (d2 | d1)%Z).
  { apply Z.gauss with n2; [exists n1; lia|]. rewrite Z.gcd_comm. assumption. }
  assert (d1 = d2) by (apply Z.divide_antisym_nonneg; solve [lia|assumption]).
  subst d2. f_equal. apply (Z.mul_cancel_r n1 n2 d1); lia.
Qed.

Lemma q_canon_spec n d r : q_canon (n, d) = Some r ->
  q_wf r /\ (fst r * d = n * snd r)%Z.
Proof.
  unfold q_canon. destruct (d =? 0)%Z eqn:Ed; [discriminate|].
  apply Z.eqb_neq in Ed.
  pose proof (Z.gcd_nonneg n d) as Hg0.
  assert (Hg : (Z.gcd n d <> 0)%Z) by (intros H0; apply Z.gcd_eq_0_r in H0; lia).
  destruct (Z.gcd_divide_l n d) as [kn Hn]. destruct (Z.gcd_divide_r n d) as [kd Hd].
  set (g := Z.gcd n d) in *.
  assert (Hnq : (n / g = kn)%Z) by (rewrite Hn at 1; apply Z.div_mul; assumption).
  assert (Hdq : (d / g = kd)%Z) by (rewrite Hd at 1; apply Z.div_mul; assumption).
  rewrite Hnq, Hdq.
  assert (Hco : Z.gcd kn kd = 1%Z).
  { assert (Hgg : (Z.gcd (g * kn) (g * kd) = g)%Z) by (rewrite (Z.mul_comm g kn), (Z.mul_comm g kd), <- Hn, <- Hd; reflexivity).
    rewrite Z.gcd_mul_mono_l_nonneg in Hgg by lia. nia. }
  assert (Hkd : (kd <> 0)%Z) by nia.
  clearbody g.
  destruct (kd <? 0)%Z eqn:Es; intros [= <-];
    [apply Z.ltb_lt in Es|apply Z.ltb_ge in Es]; (split; [split|]); cbn [fst snd].
  - lia.
  - rewrite Z.gcd_opp_l, Z.gcd_opp_r. assumption.
  - subst n d. ring.
  - lia.
  - assumption.
  - subst n d. ring.
Qed.

Lemma q_canon_some n d : (d <> 0)%Z -> exists r, q_canon (n, d) = Some r.
Proof.
  intros Hd. unfold q_canon. replace (d =? 0)%Z with false by (symmetry; apply Z.eqb_neq; assumption).
  destruct (_ <? 0)%Z; eexists; reflexivity.
Qed.

Lemma q_canon'_spec n d : (d <> 0)%Z ->
  q_wf (q_canon' (n, d)) /\ QofR (q_canon' (n, d)) == inject_Z n / inject_Z d.
Proof.
  intros Hd. unfold q_canon'. destruct (q_canon_some n d Hd) as [r Hr]. rewrite Hr.
  apply q_canon_spec in Hr. destruct Hr as [Hwf Hv]. split; [assumption|].
  change (inject_Z n / inject_Z d) with (QofR (n, d)).
  apply QofR_eq_iff; cbn [fst snd]; [destruct Hwf; lia|assumption|assumption].
Qed.

Lemma inj_nz d : (d <> 0)%Z -> ~ inject_Z d == 0.
Proof. intros H. unfold Qeq; cbn; lia. Qed.

Section RatOps.
Variables a b : rat.
Hypothesis Ha : q_wf a.
Hypothesis Hb : q_wf b.

Let da_nz : ~ inject_Z (snd a) == 0. Proof. apply inj_nz. destruct Ha; lia. Qed.
Let db_nz : ~ inject_Z (snd b) == 0. Proof. apply inj_nz. destruct Hb; lia. Qed.

Lemma q_add_spec : q_wf (q_add a b) /\ QofR (q_add a b) == QofR a + QofR b.
Proof.
  unfold q_add. destruct Ha as [Ha1 Ha2], Hb as [Hb1 Hb2].
  destruct (q_canon'_spec (fst a * snd b + fst b * snd a) (snd a * snd b)) as [Hw Hv]; [nia|].
  split; [assumption|]. rewrite Hv. unfold QofR. rewrite inject_Z_plus, !inject_Z_mult. field. tauto.
Qed.

Lemma q_sub_spec : q_wf (q_sub a b) /\ QofR (q_sub a b) == QofR a - QofR b.
Proof.
  unfold q_sub. destruct Ha as [Ha1 Ha2], Hb as [Hb1 Hb2].
  destruct (q_canon'_spec (fst a * snd b - fst b * snd a) (snd a * snd b)) as [Hw Hv]; [nia|].
  split; [assumption|]. rewrite Hv. unfold QofR, Z.sub. rewrite inject_Z_plus, inject_Z_opp, !inject_Z_mult. field. tauto.
Qed.

Lemma q_mul_spec : q_wf (q_mul a b) /\ QofR (q_mul a b) == QofR a * QofR b.
Proof.
  unfold q_mul. destruct Ha as [Ha1 Ha2], Hb as [Hb1 Hb2].
  destruct (q_canon'_spec (fst a * fst b) (snd a * snd b)) as [Hw Hv]; [nia|].
  split; [assumption|]. rewrite Hv. unfold QofR. rewrite !inject_Z_mult. field. tauto.
Qed.

Lemma q_neg_spec : q_wf (q_neg a) /\ QofR (q_neg a) == - QofR a.
Proof.
  unfold q_neg, q_wf. destruct Ha as [Ha1 Ha2]. cbn [fst snd]. split; [split; [assumption|]|].
  - rewrite Z.gcd_opp_l. assumption.
  - unfold QofR. cbn [fst snd]. rewrite inject_Z_opp. field. assumption.
Qed.

Lemma q_div_spec r : q_div a b = Some r -> q_wf r /\ QofR r == QofR a / QofR b.
Proof.
  unfold q_div. intros Hr. destruct Ha as [Ha1 Ha2], Hb as [Hb1 Hb2].
  assert (Hnz : (snd a * fst b <> 0)%Z).
  { intros Hz. unfold q_canon in Hr. rewrite Hz in Hr. cbn in Hr. discriminate. }
  apply q_canon_spec in Hr. destruct Hr as [Hw Hv]. split; [assumption|].
  assert (~ inject_Z (fst b) == 0) by (apply inj_nz; nia).
  transitivity (QofR (fst a * snd b, snd a * fst b)%Z).
  - apply QofR_eq_iff; cbn [fst snd]; [destruct Hw; lia|assumption|assumption].
  - unfold QofR. cbn [fst snd]. rewrite !inject_Z_mult. field. tauto.
Qed.

Lemma q_div_some : (fst b <> 0)%Z -> exists r, q_div a b = Some r.
Proof. intros H. unfold q_div. apply q_canon_some. destruct Ha. nia. Qed.

Lemma q_cmp_spec : q_cmp a b = cmp_to_Z (QofR a ?= QofR b).
Proof.
  unfold q_cmp. f_equal. destruct Ha as [Ha1 Ha2], Hb as [Hb1 Hb2].
  destruct a as [n1 d1], b as [n2 d2]. cbn [fst snd] in *.
  unfold QofR, Qcompare, Qdiv, Qmult, Qinv. cbn [fst snd Qnum Qden inject_Z].
  destruct d1; try lia. destruct d2; try lia. cbn. rewrite !Z.mul_1_r. reflexivity.
Qed.

Lemma q_sgn_spec : q_sgn a = cmp_to_Z (QofR a ?= 0).
Proof.
  unfold q_sgn. destruct Ha. destruct a as [n1 d1]. cbn [fst snd] in *.
  unfold QofR, Qcompare, Qdiv, Qmult, Qinv. cbn [fst snd Qnum Qden inject_Z].
  destruct d1; try lia. cbn. rewrite !Z.mul_1_r. destruct n1; reflexivity.
Qed.

Lemma q_floor_spec : inject_Z (q_floor a) <= QofR a /\ QofR a < inject_Z (q_floor a + 1).
Proof.
  unfold q_floor. destruct Ha as [Hd _]. destruct a as [n d]. cbn [fst snd] in *.
  unfold QofR. cbn [fst snd].
  pose proof (Z.div_mod n d ltac:(lia)). pose proof (Z.mod_pos_bound n d Hd).
  unfold Qle, Qlt, Qdiv, Qmult, Qinv. cbn [Qnum Qden inject_Z].
  destruct d; try lia. cbn [Qnum Qden]. rewrite !Z.mul_1_r. nia.
Qed.

Lemma q_ceiling_spec : inject_Z (q_ceiling a - 1) < QofR a /\ QofR a <= inject_Z (q_ceiling a).
Proof.
  unfold q_ceiling, z_cdiv. destruct Ha as [Hd _]. destruct a as [n d]. cbn [fst snd] in *.
  unfold QofR. cbn [fst snd].
  pose proof (Z.div_mod (- n) d ltac:(lia)). pose proof (Z.mod_pos_bound (- n) d Hd).
  unfold Qle, Qlt, Qdiv, Qmult, Qinv. cbn [Qnum Qden inject_Z].
  destruct d; try lia. cbn [Qnum Qden]. rewrite !Z.mul_1_r. nia.
Qed.

Lemma q_is_integer_spec : q_is_integer a = true <-> exists z, QofR a == inject_Z z.
Proof.
  unfold q_is_integer. rewrite Z.eqb_eq. destruct Ha as [Hd Hg]. split.
  - intros H1. exists (fst a). unfold QofR. rewrite H1. field.
  - intros [z Hz]. change (inject_Z z) with (inject_Z (fst (z, 1%Z))) in Hz.
    assert (Hq : QofR a == QofR (z, 1%Z)) by (rewrite Hz; unfold QofR; cbn [fst snd]; field).
    apply q_wf_unique in Hq; [rewrite Hq; reflexivity|split; assumption|].
    split; cbn [fst snd]; [lia|apply Z.gcd_1_r].
Qed.

End RatOps.

Lemma pow2_pos n : (0 < pow2 n)%Z.
Proof. unfold pow2. apply Z.pow_pos_nonneg; lia. Qed.

Lemma q_mul_2exp_spec a n : q_wf a ->
  q_wf (q_mul_2exp a n) /\ QofR (q_mul_2exp a n) == QofR a * inject_Z (pow2 n).
Proof.
  intros [Hd Hg]. unfold q_mul_2exp.
  destruct (q_canon'_spec (fst a * pow2 n) (snd a)) as [Hw Hv]; [lia|].
  split; [assumption|]. rewrite Hv. unfold QofR. rewrite inject_Z_mult. field. apply inj_nz; lia.
Qed.

Lemma q_div_2exp_spec a n : q_wf a ->
  q_wf (q_div_2exp a n) /\ QofR (q_div_2exp a n) == QofR a / inject_Z (pow2 n).
Proof.
  intros [Hd Hg]. unfold q_div_2exp. pose proof (pow2_pos n).
  destruct (q_canon'_spec (fst a) (snd a * pow2 n)) as [Hw Hv]; [nia|].
  split; [assumption|]. rewrite Hv. unfold QofR. rewrite inject_Z_mult. field.
  split; apply inj_nz; lia.
Qed.

Lemma q_wf_one : q_wf (1%Z, 1%Z). Proof. split; cbn; [lia|reflexivity]. Qed.

Lemma Qpow_double a (p : positive) : (a * a) ^ Zpos p == a ^ Zpos (xO p).
Proof.
  rewrite Qmult_power. rewrite <- Qpower_plus' by lia. rewrite Pos2Z.inj_xO.
  replace (Z.pos p + Z.pos p)%Z with (2 * Z.pos p)%Z by lia. reflexivity.
Qed.

Lemma q_pow_pos_spec p : forall res tmp, q_wf res -> q_wf tmp ->
  q_wf (q_pow_pos res tmp p) /\ QofR (q_pow_pos res tmp p) == QofR res * QofR tmp ^ (Zpos p).
Proof.
  induction p as [p IH|p IH|]; intros res tmp Hr Ht; cbn [q_pow_pos].
  - destruct (q_mul_spec res tmp Hr Ht) as [W1 V1].
    destruct (q_mul_spec tmp tmp Ht Ht) as [W2 V2].
    destruct (IH _ _ W1 W2) as [W V]. split; [assumption|].
    rewrite V, V1, V2, Qpow_double. rewrite (Pos2Z.inj_xI p).
    rewrite (Qpower_plus' _ (2 * Z.pos p) 1) by lia. rewrite Pos2Z.inj_xO. rewrite Qpower_1_r. ring.
  - destruct (q_mul_spec tmp tmp Ht Ht) as [W2 V2].
    destruct (IH _ _ Hr W2) as [W V]. split; [assumption|].
    rewrite V, V2, Qpow_double. reflexivity.
  - destruct (q_mul_spec res tmp Hr Ht) as [W1 V1]. split; [assumption|].
    rewrite V1. rewrite Qpower_1_r. reflexivity.
Qed.

Lemma q_pow_spec a n : q_wf a -> q_wf (q_pow a n) /\ QofR (q_pow a n) == QofR a ^ Z.of_N n.
Proof.
  intros Ha. destruct n as [|p]; cbn [q_pow Z.of_N].
  - split; [apply q_wf_one|]. unfold QofR. cbn. reflexivity.
  - destruct (q_pow_pos_spec p _ _ q_wf_one Ha) as [W V]. split; [assumption|].
    rewrite V. unfold QofR at 1. cbn [fst snd]. field.
Qed.

(* ------------------------------------------------------------------ dyadic rationals *)

Local Open Scope Z_scope.

Lemma pow2_succ n : pow2 (N.succ n) = 2 * pow2 n.
Proof. unfold pow2. rewrite N2Z.inj_succ. rewrite Z.pow_succ_r by lia. reflexivity. Qed.

Lemma pow2_add n m : pow2 (n + m) = pow2 n * pow2 m.
Proof. unfold pow2. rewrite N2Z.inj_add. apply Z.pow_add_r; lia. Qed.

Lemma pow2_0 : pow2 0 = 1. Proof. reflexivity. Qed.

Lemma val2_decomp a : a <> 0 -> exists q, a = pow2 (z_val2 a) * q /\ Z.odd q = true.
Proof.
  assert (Hp : forall p, exists q, Zpos p = pow2 (pos_val2 p) * q /\ Z.odd q = true).
  { induction p as [p IH|p IH|]; cbn [pos_val2].
    - exists (Zpos p~1). split; [rewrite pow2_0; lia|reflexivity].
    - destruct IH as [q [Hq Ho]]. exists q. split; [|assumption].
      rewrite pow2_succ. rewrite <- Z.mul_assoc, <- Hq. reflexivity.
    - exists 1. split; reflexivity. }
  intros Ha. destruct a as [|p|p]; [contradiction| |]; cbn [z_val2].
  - apply Hp.
  - destruct (Hp p) as [q [Hq Ho]]. exists (- q). split.
    + rewrite Z.mul_opp_r, <- Hq. reflexivity.
    + rewrite Z.odd_opp. assumption.
Qed.

Lemma val2_unique k : forall a q, a = pow2 k * q -> Z.odd q = true -> z_val2 a = k.
Proof.
  induction k as [|k IH] using N.peano_ind; intros a q Ha Ho.
  - rewrite pow2_0, Z.mul_1_l in Ha. subst a.
    destruct q as [|p|p]; try discriminate; destruct p; try discriminate; reflexivity.
  - rewrite pow2_succ in Ha.
    assert (Hq0 : q <> 0) by (intros ->; discriminate).
    pose proof (pow2_pos k) as Hk.
    destruct a as [|p|p].
    + nia.
    + destruct p as [p|p|]; try lia. cbn [z_val2 pos_val2]. f_equal.
      apply (IH (Zpos p) q); [lia|assumption].
    + destruct p as [p|p|]; try lia. cbn [z_val2 pos_val2]. f_equal.
      apply (IH (Zneg p) q); [lia|assumption].
Qed.

Definition dy_wf (d : dyadic) : Prop :=
  (da d = 0 /\ dn d = 0%N) \/ Z.odd (da d) = true \/ dn d = 0%N.

Lemma odd_val2 a : Z.odd a = true <-> (a <> 0 /\ z_val2 a = 0%N).
Proof.
  split.
  - intros Ho. split; [intros ->; discriminate|].
    apply (val2_unique 0 a a); [rewrite pow2_0; lia|assumption].
  - intros [Ha Hv]. destruct (val2_decomp a Ha) as [q [Hq Ho]].
    rewrite Hv, pow2_0, Z.mul_1_l in Hq. subst q. assumption.
Qed.

Lemma dy_is_normalized_spec d : dy_is_normalized d = true <-> dy_wf d.
Proof.
  unfold dy_is_normalized, dy_wf.
  rewrite !orb_true_iff, !andb_true_iff, negb_true_iff, !N.eqb_eq, Z.eqb_eq, Z.eqb_neq.
  rewrite odd_val2. tauto.
Qed.

Definition QofD (d : dyadic) : Q := (inject_Z (da d) / inject_Z (pow2 (dn d)))%Q.

Lemma pow2_nz n : ~ (inject_Z (pow2 n) == 0)%Q.
Proof. apply inj_nz. pose proof (pow2_pos n). lia. Qed.

Lemma QofD_eq_iff a b : (QofD a == QofD b)%Q <-> da a * pow2 (dn b) = da b * pow2 (dn a).
Proof.
  pose proof (pow2_pos (dn a)). pose proof (pow2_pos (dn b)).
  apply (QofR_eq_iff (da a, pow2 (dn a)) (da b, pow2 (dn b))); cbn [snd]; lia.
Qed.

Lemma dy_normalize_spec q : dy_wf (dy_normalize q) /\ (QofD (dy_normalize q) == QofD q)%Q.
Proof.
  unfold dy_normalize.
  destruct (da q =? 0) eqn:Ea.
  - apply Z.eqb_eq in Ea. split.
    + left. cbn. tauto.
    + apply QofD_eq_iff. cbn [da dn set_n]. rewrite Ea. reflexivity.
  - apply Z.eqb_neq in Ea.
    destruct (0 <? dn q)%N eqn:En; [|split; [right; right; apply N.ltb_ge in En; lia|reflexivity]].
    apply N.ltb_lt in En.
    destruct (0 <? z_val2 (da q))%N eqn:Ev.
    + apply N.ltb_lt in Ev.
      destruct (val2_decomp (da q) Ea) as [r [Hr Ho]].
      set (f := z_val2 (da q)) in *.
      set (mn := if (dn q <=? f)%N then dn q else f).
      assert (Hmn : (mn <= f /\ mn <= dn q /\ (mn = dn q \/ (mn = f /\ f < dn q)))%N).
      { unfold mn. destruct (dn q <=? f)%N eqn:E; [apply N.leb_le in E|apply N.leb_gt in E]; lia. }
      assert (Hdiv : da q / pow2 mn = pow2 (f - mn) * r).
      { rewrite Hr. replace f with (mn + (f - mn))%N at 1 by lia. rewrite pow2_add.
        rewrite <- Z.mul_assoc, Z.mul_comm. apply Z.div_mul. pose proof (pow2_pos mn). lia. }
      split.
      * unfold dy_wf. cbn [da dn]. destruct Hmn as [_ [_ [Hm|[Hm Hlt]]]].
        -- right. right. lia.
        -- right. left. rewrite Hdiv, Hm, N.sub_diag, pow2_0, Z.mul_1_l. assumption.
      * apply QofD_eq_iff. cbn [da dn]. rewrite Hdiv.
        assert (E1 : pow2 f = pow2 mn * pow2 (f - mn)) by (rewrite <- pow2_add; f_equal; lia).
        assert (E2 : pow2 (dn q) = pow2 mn * pow2 (dn q - mn)) by (rewrite <- pow2_add; f_equal; lia).
        rewrite Hr, E2, E1. ring.
    + split; [|reflexivity]. apply N.ltb_ge in Ev. right. left. apply odd_val2. split; [assumption|lia].
Qed.

(* normalized dyadics are unique representatives *)
Lemma dy_wf_unique a b : dy_wf a -> dy_wf b -> (QofD a == QofD b)%Q -> a = b.
Proof.
  intros Ha Hb H. apply QofD_eq_iff in H.
  destruct a as [x n], b as [y m]. unfold dy_wf in *. cbn [da dn] in *.
  pose proof (pow2_pos n) as Pn. pose proof (pow2_pos m) as Pm.
  assert (Hzero : x = 0 <-> y = 0) by nia.
  destruct (Z.eq_dec x 0) as [Hx|Hx].
  { assert (y = 0) by tauto. subst x y.
    destruct Ha as [[_ Ha]|[Ha|Ha]]; try discriminate;
    destruct Hb as [[_ Hb]|[Hb|Hb]]; try discriminate; subst; reflexivity. }
  assert (Hy : y <> 0) by tauto.
  (* compare exponents through 2-adic valuations *)
  destruct (val2_decomp x Hx) as [qx [Hqx Hox]]. destruct (val2_decomp y Hy) as [qy [Hqy Hoy]].
  assert (Hval : (z_val2 x + m = z_val2 y + n)%N).
  { assert (E1 : z_val2 (x * pow2 m) = (z_val2 x + m)%N).
    { apply (val2_unique _ _ qx); [|assumption]. rewrite pow2_add. rewrite Hqx at 1. ring. }
    assert (E2 : z_val2 (y * pow2 n) = (z_val2 y + n)%N).
    { apply (val2_unique _ _ qy); [|assumption]. rewrite pow2_add. rewrite Hqy at 1. ring. }
    rewrite <- E1, <- E2, H. reflexivity. }
  assert (Hnm : n = m).
  { destruct Ha as [[Ha _]|[Ha|Ha]]; [contradiction| |];
    destruct Hb as [[Hb _]|[Hb|Hb]]; try contradiction.
    - apply odd_val2 in Ha. apply odd_val2 in Hb. lia.
    - apply odd_val2 in Ha. lia.
    - apply odd_val2 in Hb. lia.
    - lia. }
  subst m. f_equal. nia.
Qed.

(* the output-operand-free ("pure") meaning of every dyadic operation *)
Definition dy_add_pure (a b : dyadic) : dyadic :=
  dy_normalize
   (if (dn a =? dn b)%N then mkDy (da a + da b) (dn a)
    else if (dn b <? dn a)%N then mkDy (da a + da b * pow2 (dn a - dn b)) (dn a)
    else mkDy (da a * pow2 (dn b - dn a) + da b) (dn b)).
Definition dy_sub_pure (a b : dyadic) : dyadic :=
  dy_normalize
   (if (dn a =? dn b)%N then mkDy (da a - da b) (dn a)
    else if (dn b <? dn a)%N then mkDy (da a - da b * pow2 (dn a - dn b)) (dn a)
    else mkDy (da a * pow2 (dn b - dn a) - da b) (dn b)).
Definition dy_add_integer_pure (a : dyadic) (b : Z) : dyadic :=
  dy_normalize (mkDy (if (0 <? dn a)%N then da a + b * pow2 (dn a) else da a + b) (dn a)).
Definition dy_neg_pure (a : dyadic) : dyadic := mkDy (- da a) (dn a).
Definition dy_mul_pure (a b : dyadic) : dyadic := dy_normalize (mkDy (da a * da b) (dn a + dn b)).
Definition dy_mul_2exp_pure (a : dyadic) (n : N) : dyadic :=
  if (n <=? dn a)%N then mkDy (da a) (dn a - n) else mkDy (da a * pow2 (n - dn a)) 0.
Definition dy_div_2exp_pure (a : dyadic) (n : N) : dyadic := dy_normalize (mkDy (da a) (dn a + n)).
Definition dy_pow_pure (a : dyadic) (n : N) : dyadic := mkDy (da a ^ Z.of_N n) (dn a * n).

Definition alias_ok (al : alias) (dst a b : dyadic) : Prop :=
  match al with
  | NoAlias => True | AliasA => dst = a | AliasB => dst = b | AliasAB => dst = a /\ dst = b
  end.
Definition alias1_ok (al : alias) (dst a : dyadic) : Prop :=
  match al with NoAlias => True | AliasA => dst = a | _ => False end.

Ltac alias_cases al H :=
  destruct al; cbn [alias_ok alias1_ok] in H; try contradiction;
  try (match type of H with _ /\ _ => destruct H as [H H'] end); subst;
  cbn [rdA rdB].

Ltac dst_solve :=
  repeat match goal with d : dyadic |- _ => destruct d end;
  cbn [rdA rdB da dn set_a set_n];
  repeat match goal with |- context [if ?c then _ else _] => destruct c end; reflexivity.

Lemma dy_add_dst al dst a b : alias_ok al dst a b -> dy_add al dst a b = dy_add_pure a b.
Proof. intros H. unfold dy_add, dy_add_pure. alias_cases al H; dst_solve. Qed.

Lemma dy_sub_dst al dst a b : alias_ok al dst a b -> dy_sub al dst a b = dy_sub_pure a b.
Proof. intros H. unfold dy_sub, dy_sub_pure. alias_cases al H; dst_solve. Qed.

Lemma dy_mul_dst al dst a b : alias_ok al dst a b -> dy_mul al dst a b = dy_mul_pure a b.
Proof. intros H. unfold dy_mul, dy_mul_pure. alias_cases al H; dst_solve. Qed.

Lemma dy_add_integer_dst al dst a b : alias1_ok al dst a -> dy_add_integer al dst a b = dy_add_integer_pure a b.
Proof. intros H. unfold dy_add_integer, dy_add_integer_pure. alias_cases al H; dst_solve. Qed.

Lemma dy_neg_dst al dst a : alias1_ok al dst a -> dy_neg al dst a = dy_neg_pure a.
Proof. intros H. unfold dy_neg, dy_neg_pure. alias_cases al H; dst_solve. Qed.

Lemma dy_mul_2exp_dst al dst a n : alias1_ok al dst a -> dy_mul_2exp al dst a n = dy_mul_2exp_pure a n.
Proof. intros H. unfold dy_mul_2exp, dy_mul_2exp_pure. alias_cases al H; dst_solve. Qed.

Lemma dy_div_2exp_dst al dst a n : alias1_ok al dst a -> dy_div_2exp al dst a n = dy_div_2exp_pure a n.
Proof. intros H. unfold dy_div_2exp, dy_div_2exp_pure. alias_cases al H; dst_solve. Qed.

Lemma dy_pow_dst al dst a n : alias1_ok al dst a -> dy_pow al dst a n = dy_pow_pure a n.
Proof. intros H. unfold dy_pow, dy_pow_pure. alias_cases al H; dst_solve. Qed.

(* ---- exact values of the pure operations *)

Lemma QofD_mk x n : QofD (mkDy x n) = (inject_Z x / inject_Z (pow2 n))%Q.
Proof. reflexivity. Qed.

Lemma QofD_norm_mk x n v : (inject_Z x / inject_Z (pow2 n) == v)%Q ->
  dy_wf (dy_normalize (mkDy x n)) /\ (QofD (dy_normalize (mkDy x n)) == v)%Q.
Proof.
  intros H. destruct (dy_normalize_spec (mkDy x n)) as [W V]. split; [assumption|].
  rewrite V. exact H.
Qed.

Lemma inject_pow2_add n m : (inject_Z (pow2 (n + m)) == inject_Z (pow2 n) * inject_Z (pow2 m))%Q.
Proof. rewrite pow2_add, inject_Z_mult. reflexivity. Qed.

Lemma pow2_split n m : (m <= n)%N -> pow2 n = pow2 (n - m) * pow2 m.
Proof. intros H. rewrite <- pow2_add. f_equal. lia. Qed.

Lemma dy_add_spec a b : dy_wf (dy_add_pure a b) /\ (QofD (dy_add_pure a b) == QofD a + QofD b)%Q.
Proof.
  unfold dy_add_pure.
  destruct (dn a =? dn b)%N eqn:E1; [|destruct (dn b <? dn a)%N eqn:E2]; apply QofD_norm_mk; unfold QofD.
  - apply N.eqb_eq in E1. rewrite <- E1. rewrite inject_Z_plus. field. apply pow2_nz.
  - apply N.ltb_lt in E2. rewrite (pow2_split (dn a) (dn b)) by lia.
    rewrite inject_Z_plus, !inject_Z_mult. field. split; apply pow2_nz.
  - apply N.eqb_neq in E1. apply N.ltb_ge in E2. rewrite (pow2_split (dn b) (dn a)) by lia.
    rewrite inject_Z_plus, !inject_Z_mult. field. split; apply pow2_nz.
Qed.

Lemma dy_sub_spec a b : dy_wf (dy_sub_pure a b) /\ (QofD (dy_sub_pure a b) == QofD a - QofD b)%Q.
Proof.
  unfold dy_sub_pure.
  destruct (dn a =? dn b)%N eqn:E1; [|destruct (dn b <? dn a)%N eqn:E2]; apply QofD_norm_mk; unfold QofD, Z.sub.
  - apply N.eqb_eq in E1. rewrite <- E1. rewrite inject_Z_plus, inject_Z_opp. field. apply pow2_nz.
  - apply N.ltb_lt in E2. rewrite (pow2_split (dn a) (dn b)) by lia.
    rewrite inject_Z_plus, inject_Z_opp, !inject_Z_mult. field. split; apply pow2_nz.
  - apply N.eqb_neq in E1. apply N.ltb_ge in E2. rewrite (pow2_split (dn b) (dn a)) by lia.
    rewrite inject_Z_plus, inject_Z_opp, !inject_Z_mult. field. split; apply pow2_nz.
Qed.

Lemma dy_add_integer_spec a b :
  dy_wf (dy_add_integer_pure a b) /\ (QofD (dy_add_integer_pure a b) == QofD a + inject_Z b)%Q.
Proof.
  unfold dy_add_integer_pure. apply QofD_norm_mk. unfold QofD.
  destruct (0 <? dn a)%N eqn:E.
  - rewrite inject_Z_plus, inject_Z_mult. field. apply pow2_nz.
  - apply N.ltb_ge in E. replace (dn a) with 0%N by lia. rewrite pow2_0, inject_Z_plus. field.
Qed.

Lemma dy_mul_spec a b : dy_wf (dy_mul_pure a b) /\ (QofD (dy_mul_pure a b) == QofD a * QofD b)%Q.
Proof.
  unfold dy_mul_pure. apply QofD_norm_mk. unfold QofD.
  rewrite inject_pow2_add, inject_Z_mult. field. split; apply pow2_nz.
Qed.

Lemma dy_neg_spec a : dy_wf a -> dy_wf (dy_neg_pure a) /\ (QofD (dy_neg_pure a) == - QofD a)%Q.
Proof.
  intros Ha. unfold dy_neg_pure. split.
  - unfold dy_wf in *. cbn [da dn]. rewrite Z.odd_opp. intuition lia.
  - unfold QofD. cbn [da dn]. rewrite inject_Z_opp. field. apply pow2_nz.
Qed.

Lemma dy_mul_2exp_spec a n : dy_wf a ->
  dy_wf (dy_mul_2exp_pure a n) /\ (QofD (dy_mul_2exp_pure a n) == QofD a * inject_Z (pow2 n))%Q.
Proof.
  intros Ha. unfold dy_mul_2exp_pure.
  destruct (n <=? dn a)%N eqn:E; [apply N.leb_le in E|apply N.leb_gt in E]; split.
  - unfold dy_wf in *. cbn [da dn]. intuition lia.
  - unfold QofD. cbn [da dn]. rewrite (pow2_split (dn a) n) by lia.
    rewrite inject_Z_mult. field. split; apply pow2_nz.
  - unfold dy_wf. cbn [da dn]. tauto.
  - unfold QofD. cbn [da dn]. rewrite pow2_0. rewrite (pow2_split n (dn a)) by lia.
    rewrite !inject_Z_mult. field. apply pow2_nz.
Qed.

Lemma dy_div_2exp_spec a n :
  dy_wf (dy_div_2exp_pure a n) /\ (QofD (dy_div_2exp_pure a n) == QofD a / inject_Z (pow2 n))%Q.
Proof.
  unfold dy_div_2exp_pure. apply QofD_norm_mk. unfold QofD.
  rewrite inject_pow2_add. field. split; apply pow2_nz.
Qed.

Lemma pow2_mul n m : pow2 (n * m) = pow2 n ^ Z.of_N m.
Proof. unfold pow2. rewrite N2Z.inj_mul. apply Z.pow_mul_r; lia. Qed.

Lemma odd_pow x k : Z.odd x = true -> 0 <= k -> Z.odd (x ^ k) = true.
Proof.
  intros Hx Hk. pattern k. apply natlike_ind; [reflexivity| |assumption].
  intros j Hj IH. rewrite Z.pow_succ_r by assumption. rewrite Z.odd_mul, Hx, IH. reflexivity.
Qed.

Lemma dy_pow_spec a n : dy_wf a ->
  dy_wf (dy_pow_pure a n) /\ (QofD (dy_pow_pure a n) == QofD a ^ Z.of_N n)%Q.
Proof.
  intros Ha. unfold dy_pow_pure. split.
  - unfold dy_wf in *. cbn [da dn]. destruct Ha as [[_ Ha]|[Ha|Ha]].
    + right. right. lia.
    + right. left. apply odd_pow; [assumption|lia].
    + right. right. lia.
  - unfold QofD. cbn [da dn]. rewrite pow2_mul. rewrite Qdiv_power.
    rewrite !Zpower_Qpower by lia. reflexivity.
Qed.

(* comparison and sign *)
Lemma Qcompare_div x y d : (0 < d)%Z ->
  ((inject_Z x / inject_Z d) ?= (inject_Z y / inject_Z d))%Q = (x ?= y)%Z.
Proof.
  intros Hd. unfold Qcompare, Qdiv, Qmult, Qinv. cbn [Qnum Qden inject_Z].
  destruct d as [|p|p]; try lia. cbn [Qnum Qden]. rewrite !Z.mul_1_r.
  rewrite !Pos.mul_1_l. symmetry. apply Zmult_compare_compat_r. lia.
Qed.

Lemma dy_sgn_spec a : dy_sgn a = cmp_to_Z (QofD a ?= 0)%Q.
Proof.
  unfold dy_sgn, QofD. pose proof (pow2_pos (dn a)) as Hp.
  unfold Qcompare, Qdiv, Qmult, Qinv. cbn [Qnum Qden inject_Z].
  destruct (pow2 (dn a)) as [|p|p]; try lia. cbn [Qnum Qden]. rewrite !Z.mul_1_r.
  destruct (da a); reflexivity.
Qed.

Lemma dy_cmp_spec a b : Z.sgn (dy_cmp a b) = cmp_to_Z (QofD a ?= QofD b)%Q.
Proof.
  assert (Hc : forall x n y m, (inject_Z x / inject_Z (pow2 n) ?= inject_Z y / inject_Z (pow2 m))%Q
                               = (x * pow2 m ?= y * pow2 n)).
  { intros x n y m. pose proof (pow2_pos n) as Pn. pose proof (pow2_pos m) as Pm.
    unfold Qcompare, Qdiv, Qmult, Qinv. cbn [Qnum Qden inject_Z].
    destruct (pow2 n) as [|p|p]; try lia. destruct (pow2 m) as [|p'|p']; try lia.
    cbn [Qnum Qden]. rewrite !Z.mul_1_r, !Pos.mul_1_l. reflexivity. }
  unfold dy_cmp, QofD. rewrite Hc. unfold dy_sgn.
  pose proof (pow2_pos (dn a)) as Pa. pose proof (pow2_pos (dn b)) as Pb.
  destruct (Z.sgn (da a) =? Z.sgn (da b)) eqn:Es.
  - apply Z.eqb_eq in Es.
    assert (Hsc : forall c, Z.sgn (cmp_to_Z c) = cmp_to_Z c) by (intros []; reflexivity).
    destruct (Z.sgn (da a) =? 0) eqn:E0.
    + apply Z.eqb_eq in E0. assert (da a = 0) by lia. assert (da b = 0) by lia.
      replace (da a) with 0 by lia. replace (da b) with 0 by lia. reflexivity.
    + destruct (dn a =? dn b)%N eqn:En; [|destruct (dn b <? dn a)%N eqn:El]; rewrite Hsc.
      * apply N.eqb_eq in En. rewrite En. f_equal. apply Zmult_compare_compat_r. lia.
      * apply N.ltb_lt in El. f_equal. rewrite (pow2_split (dn a) (dn b)) by lia.
        rewrite Z.mul_assoc. apply Zmult_compare_compat_r. lia.
      * apply N.eqb_neq in En. apply N.ltb_ge in El. f_equal. rewrite (pow2_split (dn b) (dn a)) by lia.
        rewrite Z.mul_assoc. apply Zmult_compare_compat_r. lia.
  - apply Z.eqb_neq in Es.
    set (x := da a) in *. set (y := da b) in *. set (p := pow2 (dn a)) in *. set (q := pow2 (dn b)) in *.
    clearbody x y p q.
    destruct (Z.compare_spec (x * q) (y * p)) as [E|E|E]; cbn [cmp_to_Z];
      destruct x, y; cbn -[Z.mul] in *; try reflexivity; try contradiction; nia.
Qed.

Lemma dy_floor_spec a : (inject_Z (dy_floor_int a) <= QofD a /\ QofD a < inject_Z (dy_floor_int a + 1))%Q.
Proof.
  unfold dy_floor_int, QofD. pose proof (pow2_pos (dn a)) as Hp.
  destruct (0 <? dn a)%N eqn:E.
  - change (inject_Z (da a) / inject_Z (pow2 (dn a)))%Q with (QofR (da a, pow2 (dn a))).
    change (da a / pow2 (dn a)) with (q_floor (da a, pow2 (dn a))).
    assert (Hd : (0 < snd (da a, pow2 (dn a)))) by exact Hp.
    revert Hd. generalize (da a, pow2 (dn a)). intros r Hd.
    unfold q_floor, QofR. destruct r as [n d]. cbn [fst snd] in *.
    pose proof (Z.div_mod n d ltac:(lia)). pose proof (Z.mod_pos_bound n d Hd).
    unfold Qle, Qlt, Qdiv, Qmult, Qinv. cbn [Qnum Qden inject_Z].
    destruct d; try lia. cbn [Qnum Qden]. rewrite !Z.mul_1_r. nia.
  - apply N.ltb_ge in E. replace (dn a) with 0%N by lia. rewrite pow2_0.
    unfold Qle, Qlt, Qdiv, Qmult, Qinv. cbn. lia.
Qed.

Lemma dy_ceiling_spec a : (inject_Z (dy_ceiling_int a - 1) < QofD a /\ QofD a <= inject_Z (dy_ceiling_int a))%Q.
Proof.
  unfold dy_ceiling_int, QofD, z_cdiv. pose proof (pow2_pos (dn a)) as Hp.
  destruct (0 <? dn a)%N eqn:E.
  - set (d := pow2 (dn a)) in *. set (n := da a). clearbody d n.
    pose proof (Z.div_mod (- n) d ltac:(lia)). pose proof (Z.mod_pos_bound (- n) d Hp).
    unfold Qle, Qlt, Qdiv, Qmult, Qinv. cbn [Qnum Qden inject_Z].
    destruct d; try lia. cbn [Qnum Qden]. rewrite !Z.mul_1_r. nia.
  - apply N.ltb_ge in E. replace (dn a) with 0%N by lia. rewrite pow2_0.
    unfold Qle, Qlt, Qdiv, Qmult, Qinv. cbn. lia.
Qed.

Lemma dy_is_integer_spec a : dy_wf a -> (dy_is_integer a = true <-> exists z, (QofD a == inject_Z z)%Q).
Proof.
  intros Ha. unfold dy_is_integer. rewrite N.eqb_eq. split.
  - intros Hn. exists (da a). unfold QofD. rewrite Hn, pow2_0. field.
  - intros [z Hz].
    assert (Hw : dy_wf (mkDy z 0)) by (right; right; reflexivity).
    assert (Hq : (QofD a == QofD (mkDy z 0))%Q) by (rewrite Hz; unfold QofD; cbn [da dn]; rewrite pow2_0; field).
    apply dy_wf_unique in Hq; try assumption. rewrite Hq. reflexivity.
Qed.

Lemma dy_num_den_spec a : (QofD a == inject_Z (dy_get_num a) / inject_Z (dy_get_den a))%Q /\ 0 < dy_get_den a.
Proof. split; [reflexivity|apply pow2_pos]. Qed.

Lemma q_from_dyadic_spec d : q_wf (q_from_dyadic d) /\ (QofR (q_from_dyadic d) == QofD d)%Q.
Proof.
  unfold q_from_dyadic. destruct (0 <? dn d)%N eqn:E.
  - assert (W1 : q_wf (da d, 1)) by (split; unfold q_from_integer; cbn [fst snd]; [lia|apply Z.gcd_1_r]).
    destruct (q_div_2exp_spec (da d, 1) (dn d) W1) as [W V]. split; [assumption|].
    rewrite V. unfold QofR, QofD. cbn [fst snd]. field. apply pow2_nz.
  - apply N.ltb_ge in E. split; [split; cbn [fst snd]; [lia|apply Z.gcd_1_r]|].
    unfold QofR, QofD. cbn [fst snd]. replace (dn d) with 0%N by lia. rewrite pow2_0. reflexivity.
Qed.

(* ---- picking a dyadic strictly between two rationals *)

Lemma cmp_to_Z_lt c : cmp_to_Z c < 0 <-> c = Lt.
Proof. destruct c; cbn; split; intros H; try lia; try discriminate; reflexivity. Qed.
Lemma cmp_to_Z_gt c : 0 < cmp_to_Z c <-> c = Gt.
Proof. destruct c; cbn; split; intros H; try lia; try discriminate; reflexivity. Qed.

Lemma q_cmp_dyadic_spec q d : q_wf q -> q_cmp_dyadic q d = cmp_to_Z (QofR q ?= QofD d)%Q.
Proof.
  intros Hq. unfold q_cmp_dyadic. destruct (q_from_dyadic_spec d) as [W V].
  rewrite (q_cmp_spec q _ Hq W). rewrite V. reflexivity.
Qed.

Lemma dy_between_loop_sound fuel : forall a b lb ub m, q_wf a -> q_wf b ->
  dy_between_loop fuel a b lb ub = Some m -> (QofR a < QofD m /\ QofD m < QofR b)%Q.
Proof.
  induction fuel as [|f IH]; intros a b lb ub m Ha Hb H; cbn [dy_between_loop] in H; [discriminate|].
  set (mid := dy_div_2exp AliasA (dy_add NoAlias {| da := 0; dn := 0 |} lb ub)
                          (dy_add NoAlias {| da := 0; dn := 0 |} lb ub) 1) in *.
  destruct (0 <=? q_cmp_dyadic a mid) eqn:E1; [eapply IH; eassumption|].
  destruct (q_cmp_dyadic b mid <=? 0) eqn:E2; [eapply IH; eassumption|].
  injection H as <-.
  apply Z.leb_gt in E1, E2.
  rewrite q_cmp_dyadic_spec in E1, E2 by assumption.
  apply -> cmp_to_Z_lt in E1. apply -> cmp_to_Z_gt in E2.
  split; [exact E1|]. apply Qgt_alt in E2. exact E2.
Qed.

Lemma dy_from_integer_spec z : dy_wf (dy_from_integer z) /\ (QofD (dy_from_integer z) == inject_Z z)%Q.
Proof.
  unfold dy_from_integer. apply QofD_norm_mk. rewrite pow2_0. field.
Qed.

Lemma dy_get_value_between_sound fuel a b m : q_wf a -> q_wf b -> (QofR a < QofR b)%Q ->
  dy_get_value_between fuel a b = Some m -> (QofR a < QofD m /\ QofD m < QofR b)%Q.
Proof.
  intros Ha Hb Hab. unfold dy_get_value_between.
  destruct (q_add_spec a b Ha Hb) as [Ws Vs].
  destruct (q_div_2exp_spec (q_add a b) 1 Ws) as [Wm Vm].
  set (mq := q_div_2exp (q_add a b) 1) in *.
  assert (Hmid : (QofR mq == (QofR a + QofR b) / 2)%Q) by (rewrite Vm, Vs; reflexivity).
  destruct (q_floor_spec mq Wm) as [Hf1 Hf2].
  set (fl := q_floor mq) in *.
  assert (Wfl : q_wf (q_from_integer fl)) by (split; unfold q_from_integer; cbn [fst snd]; [lia|apply Z.gcd_1_r]).
  assert (Wcl : q_wf (q_from_integer (fl + 1))) by (split; unfold q_from_integer; cbn [fst snd]; [lia|apply Z.gcd_1_r]).
  assert (Vi : forall z, (QofR (q_from_integer z) == inject_Z z)%Q) by (intros z; unfold QofR, q_from_integer; cbn [fst snd]; field).
  unfold q_cmp_integer.
  destruct (q_cmp a (q_from_integer fl) <? 0) eqn:E1.
  - intros [= <-]. destruct (dy_from_integer_spec fl) as [_ V]. rewrite V.
    apply Z.ltb_lt in E1. rewrite (q_cmp_spec _ _ Ha Wfl) in E1. apply -> cmp_to_Z_lt in E1.
    rewrite Vi in E1. split; [exact E1|].
    apply Qle_lt_trans with (QofR mq); [assumption|]. rewrite Hmid.
    apply Qlt_shift_div_r; [reflexivity|]. lra.
  - destruct (0 <? q_cmp b (q_from_integer (fl + 1))) eqn:E2.
    + intros [= <-]. destruct (dy_from_integer_spec (fl + 1)) as [_ V]. rewrite V.
      apply Z.ltb_lt in E2. rewrite (q_cmp_spec _ _ Hb Wcl) in E2. apply -> cmp_to_Z_gt in E2.
      rewrite Vi in E2. apply Qgt_alt in E2. split; [|exact E2].
      apply Qlt_trans with (QofR mq); [|assumption]. rewrite Hmid.
      apply Qlt_shift_div_l; [reflexivity|]. lra.
    + apply dy_between_loop_sound; assumption.
Qed.

(* ---- integer n-th root and the dyadic root approximation (used by positive_root, C07) *)

Lemma iroot_fuel_spec fuel : forall n a lo hi,
  0 <= lo < hi -> lo ^ Z.of_N n <= a < hi ^ Z.of_N n -> hi - lo <= 2 ^ Z.of_nat fuel ->
  let r := iroot_fuel fuel n a lo hi in r ^ Z.of_N n <= a < (r + 1) ^ Z.of_N n /\ lo <= r < hi.
Proof.
  induction fuel as [|f IH]; intros n a lo hi Hlh Ha Hw; cbn [iroot_fuel].
  - cbn in Hw. assert (hi = lo + 1) by lia. subst hi. cbv zeta. split; [assumption|lia].
  - destruct (hi - lo <=? 1) eqn:E1.
    + apply Z.leb_le in E1. assert (hi = lo + 1) by lia. subst hi. cbv zeta. split; [assumption|lia].
    + apply Z.leb_gt in E1.
      assert (Hp : 2 ^ Z.of_nat (S f) = 2 * 2 ^ Z.of_nat f) by (rewrite Nat2Z.inj_succ, Z.pow_succ_r; lia).
      set (m := (lo + hi) / 2) in *.
      assert (Hm2 : 2 * m <= lo + hi < 2 * m + 2) by (unfold m; pose proof (Z.div_mod (lo + hi) 2 ltac:(lia)); pose proof (Z.mod_pos_bound (lo + hi) 2 ltac:(lia)); lia).
      destruct (m ^ Z.of_N n <=? a) eqn:E2.
      * apply Z.leb_le in E2.
        destruct (IH n a m hi) as [A B]; [lia|lia|lia|]. cbv zeta. split; [exact A|lia].
      * apply Z.leb_gt in E2.
        destruct (IH n a lo m) as [A B]; [lia|lia|lia|]. cbv zeta. split; [exact A|lia].
Qed.

Lemma iroot_spec n a : 0 < a -> (0 < n)%N ->
  iroot n a ^ Z.of_N n <= a < (iroot n a + 1) ^ Z.of_N n /\ 0 <= iroot n a.
Proof.
  intros Ha Hn. unfold iroot. replace (a <=? 0) with false by (symmetry; apply Z.leb_gt; assumption).
  set (l := Z.log2 a). set (N := Z.of_N n).
  assert (HN : 0 < N) by (unfold N; lia).
  assert (Hl : 0 <= l) by apply Z.log2_nonneg.
  destruct (Z.log2_spec a Ha) as [L1 L2]. fold l in L1, L2.
  set (e := l / N + 1).
  assert (He : 0 < e) by (unfold e; pose proof (Z.div_pos l N Hl HN); lia).
  assert (Hpow : pow2 (Z.to_N e) = 2 ^ e) by (unfold pow2; rewrite Z2N.id by lia; reflexivity).
  fold N. fold e. rewrite Hpow.
  assert (HeN : l + 1 <= e * N).
  { unfold e. pose proof (Z.div_mod l N ltac:(lia)). pose proof (Z.mod_pos_bound l N HN). nia. }
  assert (Hhi : a < (2 ^ e) ^ N).
  { rewrite <- Z.pow_mul_r by lia. apply Z.lt_le_trans with (2 ^ (l + 1)); [replace (l + 1) with (Z.succ l) by lia; assumption|].
    apply Z.pow_le_mono_r; lia. }
  destruct (iroot_fuel_spec (S (Z.to_nat (l + 2))) n a 0 (2 ^ e)) as [A B].
  - split; [lia|apply Z.pow_pos_nonneg; lia].
  - split; [|exact Hhi]. fold N. rewrite Z.pow_0_l by lia. lia.
  - rewrite Z.sub_0_r. apply Z.pow_le_mono_r; [lia|].
    rewrite Nat2Z.inj_succ, Z2Nat.id by lia.
    assert (e <= l + 1); [|lia]. unfold e.
    assert (l / N <= l); [|lia]. apply Z.div_le_upper_bound; [lia|]. nia.
  - fold N in A. split; [exact A|lia].
Qed.

Lemma Qle_frac a b c d : 0 < b -> 0 < d ->
  ((inject_Z a / inject_Z b <= inject_Z c / inject_Z d)%Q <-> a * d <= c * b).
Proof.
  intros Hb Hd. unfold Qle, Qdiv, Qmult, Qinv. cbn [Qnum Qden inject_Z].
  destruct b as [|pb|pb]; try lia. destruct d as [|pd|pd]; try lia.
  cbn [Qnum Qden]. rewrite !Z.mul_1_r, !Pos.mul_1_l. reflexivity.
Qed.

Lemma QofD_pow x m (n : N) : (QofD (mkDy x m) ^ Z.of_N n == inject_Z (x ^ Z.of_N n) / inject_Z (pow2 (m * n)))%Q.
Proof.
  unfold QofD. cbn [da dn]. rewrite Qdiv_power. rewrite pow2_mul.
  rewrite !Zpower_Qpower by lia. reflexivity.
Qed.

(* the repaired dy_root_approx brackets the n-th root: the floor result is below, the ceiling result above,
   and `exact` means the result's n-th power IS the operand *)
Lemma dy_root_approx_spec a n prec ceil r ex : 0 < da a -> (0 < n)%N ->
  dy_root_approx a n prec ceil = (r, ex) ->
  dy_wf r /\
  (if ceil then (QofD a <= QofD r ^ Z.of_N n)%Q else (QofD r ^ Z.of_N n <= QofD a)%Q) /\
  (ex = true -> (QofD r ^ Z.of_N n == QofD a)%Q).
Proof.
  intros Ha Hn. unfold dy_root_approx.
  replace (da a =? 0) with false by (symmetry; apply Z.eqb_neq; lia).
  set (k0 := if (dn a <? prec)%N then prec else dn a).
  set (k := (if (k0 mod n =? 0)%N then k0 else k0 + (n - k0 mod n))%N).
  assert (Hk0 : (dn a <= k0)%N) by (unfold k0; destruct (dn a <? prec)%N eqn:E; [apply N.ltb_lt in E|]; lia).
  assert (Hkn : (k = (k / n) * n)%N /\ (dn a <= k)%N).
  { unfold k. pose proof (N.div_mod k0 n ltac:(lia)) as D. pose proof (N.mod_lt k0 n ltac:(lia)) as M.
    destruct (k0 mod n =? 0)%N eqn:E.
    - apply N.eqb_eq in E. split; [|lia]. rewrite E, N.add_0_r in D. lia.
    - apply N.eqb_neq in E. split; [|lia].
      assert (Hq : (k0 + (n - k0 mod n) = (k0 / n + 1) * n)%N) by lia.
      rewrite Hq. rewrite N.div_mul by lia. reflexivity. }
  destruct Hkn as [Hkm Hak]. set (m := (k / n)%N) in *.
  set (x := da a * pow2 (k - dn a)).
  assert (Hx : 0 < x) by (unfold x; pose proof (pow2_pos (k - dn a)); nia).
  destruct (iroot_spec n x Hx Hn) as [[R1 R2] R0].
  set (rt := iroot n x) in *.
  intros H. injection H as Hr Hex.
  (* value of the un-normalised result *)
  set (r' := if ceil && negb (rt ^ Z.of_N n =? x) then rt + 1 else rt) in *.
  destruct (dy_normalize_spec (mkDy r' m)) as [W V]. rewrite Hr in W, V.
  split; [exact W|].
  assert (Hval : (QofD r ^ Z.of_N n == inject_Z (r' ^ Z.of_N n) / inject_Z (pow2 k))%Q).
  { rewrite V. rewrite QofD_pow. rewrite <- Hkm. reflexivity. }
  assert (Hk2 : pow2 k = pow2 (k - dn a) * pow2 (dn a)) by (rewrite <- pow2_add; f_equal; lia).
  pose proof (pow2_pos k) as Pk. pose proof (pow2_pos (dn a)) as Pa. pose proof (pow2_pos (k - dn a)) as Pka.
  split.
  - destruct ceil; cbn [andb] in r'.
    + rewrite Hval. unfold QofD. apply Qle_frac; try assumption.
      unfold r'. destruct (rt ^ Z.of_N n =? x) eqn:E; cbn [negb].
      * apply Z.eqb_eq in E. rewrite E. unfold x. rewrite Hk2. nia.
      * assert (x <= (rt + 1) ^ Z.of_N n) by lia. unfold x in H. rewrite Hk2. nia.
    + rewrite Hval. unfold QofD. apply Qle_frac; try assumption.
      unfold r'. unfold x in R1. rewrite Hk2. nia.
  - intros Hexact. rewrite <- Hex in Hexact. apply Z.eqb_eq in Hexact.
    rewrite Hval. unfold QofD.
    assert (Er : r' = rt) by (unfold r'; rewrite Hexact, Z.eqb_refl; destruct ceil; reflexivity).
    rewrite Er, Hexact. unfold x. rewrite Hk2, !inject_Z_mult. field. split; apply pow2_nz.
Qed.
