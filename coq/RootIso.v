(* Property C06 - real root counting and isolation of univariate integer polynomials.
   Executable models only (stdlib + the shared reference arithmetic UPoly.v); proofs are in RootIsoProofs.v.

   Part 1 (the ORACLE, independent of libpoly's code): a checker for isolation results and a certified
           whole-line root count, both proved correct over every real closed field.
   Part 2 (faithful model of src/upolynomial/root_finding.c as it is coded): reduce_Z, the Sturm sequence
           with its sign correction, sign-change counting with zero skipping and the max_changes cut-off,
           root counting with the open/closed end adjustments, the interval growing loop, the isolation
           recursion on (a,b] with its three exits, lp_algebraic_number_construct's normalisation, and
           roots_isolate over the square-free factors.  The square-free factorisation loop is modelled on top
           of the REFERENCE gcd / exact division of UPoly.v (libpoly's gcd algorithms are C03's subject);
           the final qsort by lp_algebraic_number_cmp (which refines intervals further) is C07's subject and
           is not modelled: the model returns the roots factor by factor. *)
From Coq Require Import ZArith List Bool.
From LP Require Import UPoly.
Import ListNotations.
Local Open Scope Z_scope.

(* ====================================================================== Part 1: the oracle *)

(* rationals are pairs num, den with den > 0; comparisons by cross multiplication *)
Definition riq_lt (a b c d : Z) : bool := a * d <? c * b.     (* a/b <  c/d *)
Definition riq_le (a b c d : Z) : bool := a * d <=? c * b.    (* a/b <= c/d *)

(* an isolated root: the rational point a/b, or "the root of p in the open interval (la/lb, ha/hb)" *)
Inductive item :=
| IPoint (a b : Z)
| IAlg (p : poly) (la lb ha hb : Z).

Definition item_wf (it : item) : bool :=
  match it with
  | IPoint a b => 0 <? b
  | IAlg p la lb ha hb => (0 <? lb) && (0 <? hb) && riq_lt la lb ha hb
  end.

(* every real denoted by it1 is strictly below every real denoted by it2 *)
Definition item_before (it1 it2 : item) : bool :=
  match it1, it2 with
  | IPoint a b, IPoint c d => riq_lt a b c d
  | IPoint a b, IAlg _ la lb _ _ => riq_le a b la lb
  | IAlg _ _ _ ha hb, IPoint c d => riq_le ha hb c d
  | IAlg _ _ _ ha hb, IAlg _ la lb _ _ => riq_le ha hb la lb
  end.

Fixpoint items_sorted (l : list item) : bool :=
  match l with
  | a :: ((b :: _) as tl) => item_before a b && items_sorted tl
  | _ => true
  end.

(* the scalar of the pseudo-division of a by b: lc(b)^(deg a - deg b + 1) *)
Definition ri_pdiv_scal (a b : poly) : Z :=
  Z.pow (plc b) (Z.of_nat (S (length (pnorm a) - length (pnorm b)))).

(* p <> 0 divides f over Q: e * f = q * p for a non-zero integer e.  The quotient is COMPUTED by the reference
   pseudo-division and the identity is CHECKED by multiplying back, so nothing is assumed about ppdivmod. *)
Definition ri_qdivides (p f : poly) : bool :=
  let e := ri_pdiv_scal f p in
  let q := fst (ppdivmod f p) in
  negb (pis_zero p) && negb (e =? 0) && peqb (pscale e f) (pmul q p).

(* a point item is a root of f; an interval item has a polynomial dividing f with a sign change at the ends *)
Definition item_ok (f : poly) (it : item) : bool :=
  match it with
  | IPoint a b => psgn_at_rat f a b =? 0
  | IAlg p la lb ha hb => ri_qdivides p f && (psgn_at_rat p la lb * psgn_at_rat p ha hb <? 0)
  end.

(* a is a positive rational multiple of b (both non-zero) *)
Definition ri_pprop (a b : poly) : bool :=
  (0 <? plc a * plc b) && peqb (pscale (plc b) a) (pscale (plc a) b).

(* c is a positive multiple of -(a mod b), c <> 0.  Certificate: e*a = q*b + r, deg r < deg b, multiplied back. *)
Definition ri_link_ok (a b c : poly) : bool :=
  let qr := ppdivmod a b in
  let e := ri_pdiv_scal a b in
  negb (e =? 0) && peqb (pscale e a) (padd (pmul (fst qr) b) (snd qr))
  && Nat.ltb (length (pnorm (snd qr))) (length (pnorm b))
  && ri_pprop c (if e <? 0 then snd qr else pneg (snd qr)).

(* b <> 0 divides a over Q (the chain ends at b) *)
Definition ri_last_ok (a b : poly) : bool :=
  let e := ri_pdiv_scal a b in
  negb (pis_zero b) && negb (e =? 0) && peqb (pscale e a) (pmul (fst (ppdivmod a b)) b).

Fixpoint ri_links_ok (ch : list poly) : bool :=
  match ch with
  | a :: ((b :: rest) as tl) =>
    match rest with
    | [] => ri_last_ok a b
    | c :: _ => ri_link_ok a b c
    end && ri_links_ok tl
  | _ => true
  end.

(* ch is a (generalised) Sturm chain of f up to positive scaling of every element:
   ch_0 ~ f, ch_1 ~ f', ch_{i+1} ~ -(ch_{i-1} mod ch_i), the last element divides the one before it *)
Definition chain_ok (f : poly) (ch : list poly) : bool :=
  match ch with
  | [] => false
  | [a] => ri_pprop a f && pis_zero (pderiv f)
  | a :: b :: _ => ri_pprop a f && ri_pprop b (pderiv f) && ri_links_ok ch
  end.

(* sign variations at -inf minus sign variations at +inf *)
Definition chain_count (ch : list poly) : nat := (sturm_var ch MInf - sturm_var ch PInf)%nat.

(* number of distinct real roots of f <> 0: the reference Sturm chain of UPoly.v, certified by chain_ok *)
Definition certified_count (f : poly) : option nat :=
  let ch := sturm_chain f in
  if chain_ok f ch then Some (chain_count ch) else None.

(* THE checker applied to the implementation's isolation output *)
Definition check_isolation (f : poly) (items : list item) : bool :=
  negb (pis_zero f) && forallb item_wf items && items_sorted items && forallb (item_ok f) items
  && match certified_count f with Some n => Nat.eqb n (length items) | None => false end.

(* the implementation's Sturm sequence has the sign-variation property (whole line): checked chain
(the sequence may be the one of -f: libpoly normalises the sign of the leading coefficient first) *)
Definition check_sturm (f : poly) (ch : list poly) : bool :=
  negb (pis_zero f) && (chain_ok f ch || chain_ok (pneg f) ch).

(* ---- counting roots in an interval from a checked isolation list *)

(* position of the real denoted by the item relative to the rational a/b (b > 0): Lt = item below a/b *)
Definition item_cmp_rat (it : item) (a b : Z) : comparison :=
  match it with
  | IPoint c d => Z.compare (c * b) (a * d)
  | IAlg p la lb ha hb =>
    if riq_le a b la lb then Gt
    else if riq_le ha hb a b then Lt
    else
      let s := psgn_at_rat p a b in
      if s =? 0 then Eq
      else if s =? psgn_at_rat p la lb then Gt else Lt
  end.

(* rational interval with open/closed ends *)
Record ri_itv := mkRiItv { qlo_n : Z; qlo_d : Z; qlo_open : bool; qhi_n : Z; qhi_d : Z; qhi_open : bool }.

Definition item_in_itv (it : item) (J : ri_itv) : bool :=
  (match item_cmp_rat it (qlo_n J) (qlo_d J) with
   | Gt => true | Eq => negb (qlo_open J) | Lt => false end)
  && (match item_cmp_rat it (qhi_n J) (qhi_d J) with
      | Lt => true | Eq => negb (qhi_open J) | Gt => false end).

Definition count_in_itv (items : list item) (J : ri_itv) : nat :=
  length (filter (fun it => item_in_itv it J) items).

(* reference count in an interval through the reference Sturm chain ch of the square-free part g (not proved for
   the end points; used as a second opinion by the driver, which computes g and ch once per polynomial) *)
Definition ref_count_itv_ch (g : poly) (ch : list poly) (J : ri_itv) : Z :=
  let oc := Z.of_nat (sturm_var ch (Fin (qlo_n J) (qlo_d J)) - sturm_var ch (Fin (qhi_n J) (qhi_d J))) in
  oc - (if qhi_open J && (psgn_at_rat g (qhi_n J) (qhi_d J) =? 0) then 1 else 0)
     + (if negb (qlo_open J) && (psgn_at_rat g (qlo_n J) (qlo_d J) =? 0) then 1 else 0).
Definition ref_count_itv (f : poly) (J : ri_itv) : Z :=
  let g := psqfree f in ref_count_itv_ch g (sturm_chain g) J.

(* ====================================================================== Part 2: libpoly's algorithm *)

(* upolynomial_dense_reduce_Z(p, q, a, red):  a * p = div * q + red.  Loop over k = p_deg .. q_deg downwards
   (n = k - q_deg + 1 iterations left); zero coefficients are skipped; when lc(q) does not divide the coefficient
   red is first multiplied by lcm / coefficient (which carries the coefficient's SIGN) and a accumulates it. *)
Fixpoint lp_reduce_loop (n qd : nat) (q : poly) (lq a : Z) (red : poly) : Z * poly :=
  match n with
  | O => (a, red)
  | S n' =>
    let c := nth (qd + n')%nat red 0 in
    if c =? 0 then lp_reduce_loop n' qd q lq a red
    else if c mod lq =? 0 then
      lp_reduce_loop n' qd q lq a (psub red (pshift n' (pscale (Z.quot c lq) q)))
    else
      let l := Z.lcm c lq in
      let rm := l / c in
      let m := l / lq in
      lp_reduce_loop n' qd q lq (a * rm) (psub (pscale rm red) (pshift n' (pscale m q)))
  end.

Definition lp_reduce_Z (p q : poly) : Z * poly :=
  let p := pnorm p in
  let q := pnorm q in
  let pd := Nat.pred (length p) in
  let qd := Nat.pred (length q) in
  let '(a, red) := lp_reduce_loop (S pd - qd) qd q (last q 0) 1 p in
  (a, pnorm red).

(* upolynomial_compute_sturm_sequence.  S0 = pp(f), S1 = pp(S0') (both with positive leading coefficient),
   then S_i = +-pp(red) with red from reduce_Z(S_{i-2}, S_{i-1}); negated when the multiplier a is positive.
   Loop "while S[i].size > 1".  REPAIRED behaviour (fixes/C06-sturm-sequence-multiple-roots.patch): a zero
   remainder (f not square-free) ends the sequence; the pinned code runs into the assertion gcd > 0 of
   upolynomial_dense_mk_primitive_Z there. *)
Fixpoint lp_sturm_loop (fuel : nat) (prev cur : poly) : list poly :=
  match fuel with
  | O => [cur]
  | S fuel' =>
    if Nat.leb (length (pnorm cur)) 1 then [cur]
    else
      let '(a, red) := lp_reduce_Z prev cur in
      if pis_zero red then [cur]
      else
        let s := ppos_prim red in
        let s := if 0 <? a then pneg s else s in
        cur :: lp_sturm_loop fuel' cur s
  end.

Definition lp_sturm_sequence (f : poly) : list poly :=
  let s0 := ppp f in
  let s1 := ppp (pderiv s0) in
  s0 :: lp_sturm_loop (length s0) s0 s1.

(* sturm_seqence_count_sign_changes: zero skipping, loop stops once max_changes is reached *)
Fixpoint lp_sign_changes_aux (signs : list Z) (prev : Z) (cnt maxc : nat) : nat :=
  match signs with
  | [] => cnt
  | s :: rest =>
    if Nat.ltb cnt maxc then
      if prev =? 0 then lp_sign_changes_aux rest s cnt maxc
      else if negb (s =? 0) && (s * prev <? 0) then lp_sign_changes_aux rest s (S cnt) maxc
      else lp_sign_changes_aux rest prev cnt maxc
    else cnt
  end.
Definition lp_sign_changes (S : list poly) (x : xrat) (maxc : nat) : nat :=
  lp_sign_changes_aux (map (fun p => psgn_at p x) S) 0 O maxc.

(* sturm_seqence_count_roots for one square-free factor.  interval = None: whole line.
   [closed_lower_adds_when_root] selects the rule for a closed lower end:
     true  = repaired (add one when the end IS a root),
     false = the pinned code (adds one when the end is NOT a root). *)
Definition lp_count_roots_gen (repaired : bool) (S : list poly) (J : option ri_itv) : Z :=
  let n := length S in
  match J with
  | None => Z.of_nat (lp_sign_changes S MInf n) - Z.of_nat (lp_sign_changes S PInf n)
  | Some J =>
    let a := Fin (qlo_n J) (qlo_d J) in
    let b := Fin (qhi_n J) (qhi_d J) in
    let s0 := hd [] S in
    (* repaired (fixes/C06-roots-count-point-interval.patch): a point interval [a,a] has one root iff a is a
       root; the pinned code reads the unconstructed interval->b there (undefined, not modelled) *)
    if repaired && (qlo_n J * qhi_d J =? qhi_n J * qlo_d J) then (if psgn_at s0 a =? 0 then 1 else 0)
    else
    let c := Z.of_nat (lp_sign_changes S a n) - Z.of_nat (lp_sign_changes S b n) in
    let c := if qhi_open J && (psgn_at s0 b =? 0) then c - 1 else c in
    let a_is_root := psgn_at s0 a =? 0 in
    if negb (qlo_open J) && (if repaired then a_is_root else negb a_is_root) then c + 1 else c
  end.

(* lp_upolynomial_factor_square_free over Z: content taken out, power of x split off, then the gcd loop
   (P = gcd(f,f'), L = f/P; R = gcd(P,L); O = L/R has multiplicity k; P = P/R; L = R).  Reference gcd/division. *)
Definition ri_pquo (a b : poly) : poly := match pdiv_exact a b with Some q => q | None => [] end.

Fixpoint lp_sqfree_loop (fuel : nat) (P L : poly) (k : nat) : list (poly * nat) :=
  match fuel with
  | O => []
  | S fuel' =>
    if Nat.leb (length (pnorm L)) 1 then []
    else
      let R := pgcd P L in
      let out := if peqb L R then [] else [(ri_pquo L R, k)] in
      out ++ lp_sqfree_loop fuel' (ri_pquo P R) R (S k)
  end.

Fixpoint ri_strip_x (p : poly) : poly * nat :=
  match p with
  | 0 :: p' => let '(r, k) := ri_strip_x p' in (r, S k)
  | _ => (p, O)
  end.

Definition lp_sqfree_factors (f : poly) : list (poly * nat) :=
  let fpp := ppp f in
  let '(g, xdeg) := ri_strip_x fpp in
  let fs :=
    if Nat.leb (length (pnorm g)) 1 then []
    else
      let P := pgcd g (pderiv g) in
      lp_sqfree_loop (S (length g)) P (ri_pquo g P) 1 in
  if Nat.eqb xdeg O then fs else fs ++ [([0; 1], xdeg)].

(* lp_upolynomial_roots_count: sum over the square-free factors (seqs = their Sturm sequences) *)
Definition lp_roots_count_seqs (repaired : bool) (seqs : list (list poly)) (J : option ri_itv) : Z :=
  fold_left (fun acc sq => acc + lp_count_roots_gen repaired sq J) seqs 0.
Definition lp_factor_seqs (f : poly) : list (poly * list poly) :=
  map (fun fk => (fst fk, lp_sturm_sequence (fst fk))) (lp_sqfree_factors f).
Definition lp_roots_count_gen (repaired : bool) (f : poly) (J : option ri_itv) : Z :=
  if Nat.leb (length (pnorm f)) 1 then 0
  else lp_roots_count_seqs repaired (map snd (lp_factor_seqs f)) J.
Definition lp_roots_count := lp_roots_count_gen true.

(* ---- dyadic numbers a / 2^n as pairs *)
Definition rdy := (Z * N)%type.
Definition rd_pow (n : N) : Z := Z.pow 2 (Z.of_N n).
Definition rd_x (d : rdy) : xrat := Fin (fst d) (rd_pow (snd d)).
Definition rd_cmp (x y : rdy) : comparison := Z.compare (fst x * rd_pow (snd y)) (fst y * rd_pow (snd x)).
Fixpoint rd_norm_aux (fuel : nat) (a : Z) (n : N) : rdy :=
  match fuel with
  | O => (a, n)
  | S f => if (0 <? n)%N && Z.even a && negb (a =? 0) then rd_norm_aux f (a / 2) (n - 1)%N else (a, n)
  end.
Definition rd_norm (d : rdy) : rdy := if fst d =? 0 then (0, 0%N) else rd_norm_aux (N.to_nat (snd d)) (fst d) (snd d).
Definition rd_mid (x y : rdy) : rdy :=
  let n := N.max (snd x) (snd y) in
  rd_norm (fst x * rd_pow (n - snd x) + fst y * rd_pow (n - snd y), (n + 1)%N).
Definition rd_scale2 (x : rdy) : rdy := rd_norm (2 * fst x, snd x).
Definition rd_floor (x : rdy) : Z := fst x / rd_pow (snd x).
Definition rd_ceil (x : rdy) : Z := - ((- fst x) / rd_pow (snd x)).
Definition rd_bits (a : Z) : Z := if a =? 0 then 1 else Z.log2 (Z.abs a) + 1.
(* dyadic_rational_get_distance_size: bits of the numerator of (b - a) over 2^max(n) minus that exponent *)
Definition rd_dist_size (a b : rdy) : Z :=
  let n := N.max (snd a) (snd b) in
  rd_bits (fst b * rd_pow (n - snd b) - fst a * rd_pow (n - snd a)) - Z.of_N n.

(* an algebraic number under construction: polynomial, open interval (a,b), signs at the ends; or a point *)
Inductive ri_anum := RPoint (x : rdy) | RItv (p : poly) (a b : rdy) (sa sb : Z).

Definition ri_refine_with_point (x : ri_anum) (q : rdy) : ri_anum :=
  match x with
  | RPoint _ => x
  | RItv p a b sa sb =>
    match rd_cmp a q, rd_cmp q b with
    | Lt, Lt =>
      let s := psgn_at p (rd_x q) in
      if s =? 0 then RPoint q
      else if 0 <? s * sa then RItv p q b sa sb
      else RItv p a q sa sb
    | _, _ => x
    end
  end.

(* lp_algebraic_number_refine: one bisection step *)
Definition ri_refine (x : ri_anum) : ri_anum :=
  match x with
  | RPoint _ => x
  | RItv p a b sa sb =>
    let m := rd_mid a b in
    let s := psgn_at p (rd_x m) in
    if s =? 0 then RPoint m
    else if 0 <? s * sa then RItv p m b sa sb
    else RItv p a m sa sb
  end.

Fixpoint ri_shrink (fuel : nat) (x : ri_anum) : option ri_anum :=
  match x with
  | RPoint _ => Some x
  | RItv p a b sa sb =>
    if 0 <=? rd_dist_size a b then
      match fuel with O => None | S f => ri_shrink f (ri_refine x) end
    else Some x
  end.

(* lp_algebraic_number_construct(f, (a,b)): signs at the ends, refine until the size is negative, then
   refine with ceil(a) and with floor(b) *)
Definition lp_anum_construct (fuel : nat) (p : poly) (a b : rdy) : option ri_anum :=
  match ri_shrink fuel (RItv p a b (psgn_at p (rd_x a)) (psgn_at p (rd_x b))) with
  | None => None
  | Some x =>
    let x := match x with RItv _ a' _ _ _ => ri_refine_with_point x (rd_ceil a', 0%N) | _ => x end in
    let x := match x with RItv _ _ b' _ _ => ri_refine_with_point x (rd_floor b', 0%N) | _ => x end in
    Some x
  end.

(* sturm_seqence_isolate_roots on (a, b] with a_ch, b_ch sign changes at the ends *)
Fixpoint lp_isolate (fuel : nat) (S : list poly) (a b : rdy) (a_ch b_ch : nat) : option (list ri_anum) :=
  match fuel with
  | O => None
  | S fuel' =>
    let s0 := hd [] S in
    let total := Z.of_nat a_ch - Z.of_nat b_ch in
    let split (_ : unit) :=
      let m := rd_mid a b in
      let m_ch := lp_sign_changes S (rd_x m) a_ch in
      if Nat.eqb a_ch m_ch then lp_isolate fuel' S m b a_ch b_ch
      else if Nat.eqb b_ch m_ch then lp_isolate fuel' S a m a_ch b_ch
      else
        match lp_isolate fuel' S a m a_ch m_ch, lp_isolate fuel' S m b m_ch b_ch with
        | Some l, Some r => Some (l ++ r)
        | _, _ => None
        end in
    if total =? 1 then
      if psgn_at s0 (rd_x b) =? 0 then Some [RPoint b]
      else if negb (psgn_at s0 (rd_x a) =? 0) then
        match lp_anum_construct fuel' s0 a b with Some x => Some [x] | None => None end
      else split tt
    else split tt
  end.

(* grow (-1, 1] by doubling until it captures all the roots *)
Fixpoint lp_grow (fuel : nat) (S : list poly) (a b : rdy) (total : Z) : option (rdy * rdy * nat * nat) :=
  match fuel with
  | O => None
  | S fuel' =>
    let n := length S in
    let a_ch := lp_sign_changes S (rd_x a) n in
    let b_ch := lp_sign_changes S (rd_x b) n in
    if Z.of_nat a_ch - Z.of_nat b_ch =? total then Some (a, b, a_ch, b_ch)
    else lp_grow fuel' S (rd_scale2 a) (rd_scale2 b) total
  end.

(* upolynomial_roots_isolate_sturm, before the final qsort: roots factor by factor
   (fs = the square-free factors with their Sturm sequences) *)
Fixpoint lp_isolate_factors (fuel : nat) (fs : list (poly * list poly)) : option (list ri_anum) :=
  match fs with
  | [] => Some []
  | (g, sq) :: rest =>
    let here :=
      if nth 0 (pnorm g) 0 =? 0 then Some [RPoint (0, 0%N)]
      else
        let total := lp_count_roots_gen true sq None in
        match lp_grow fuel sq (-1, 0%N) (1, 0%N) total with
        | None => None
        | Some (a, b, a_ch, b_ch) =>
          if Nat.ltb b_ch a_ch then lp_isolate fuel sq a b a_ch b_ch else Some []
        end in
    match here, lp_isolate_factors fuel rest with
    | Some l, Some r => Some (l ++ r)
    | _, _ => None
    end
  end.

Definition lp_roots_isolate_seqs (fuel : nat) (f : poly) (fs : list (poly * list poly)) : option (list ri_anum) :=
  if Nat.leb (length (pnorm f)) 1 then Some [] else lp_isolate_factors fuel fs.
Definition lp_roots_isolate (fuel : nat) (f : poly) : option (list ri_anum) :=
  lp_roots_isolate_seqs fuel f (lp_factor_seqs f).

Definition item_of_anum (x : ri_anum) : item :=
  match x with
  | RPoint q => IPoint (fst q) (rd_pow (snd q))
  | RItv p a b _ _ => IAlg p (fst a) (rd_pow (snd a)) (fst b) (rd_pow (snd b))
  end.
