(* C03 - gcd, lcm, content, primitive part, extended gcd / Bezout: theorem statements only.
   Objects: coefficient lists (low degree first) over Z; `pnorm` is the canonical form, `pmul/padd/pscale` the
   reference arithmetic of UPoly.v (related to MathComp's {poly Z} in UPolySpec.v).

     pdivides d a         :=  exists q, pnorm (pmul d q) = pnorm a                    (d | a in Z[x])
     is_gcd g a b         :=  g | a  /\  g | b  /\  forall d, d | a -> d | b -> d | g
     peqm p x y           :=  exists k, pnorm (psub x y) = pnorm (pscale p k)         (x = y modulo p, coefficientwise)
     pdivides_mod p d a   :=  exists q, peqm p (pmul d q) a
     is_gcd_mod p g a b   :=  the same three clauses modulo p

   Labels: FULL unless the name says otherwise.  What is NOT a theorem here (ORACLE, see docs/C03.md): the
   subresultant and heuristic strategies themselves (compared with the proved reference `pgcd` on every case),
   the "greatest" half for multivariate polynomials (reference mp_gcd_ref is unproved). *)
From Coq Require Import ZArith List.
From LP Require Import Scalar UPoly MPoly Gcd GcdLemmas GcdSpec GcdProofs MGcdProofs.
Import ListNotations.
Local Open Scope Z_scope.

(* ---------------------------------------------------------------- content and primitive part (univariate Z[x]) *)

(* content * pp = input; pp has content 1 and a positive leading coefficient (content_Z is libpoly's signed content) *)
Theorem C03_content_pp_Z : forall a : list Z, pnorm a <> [] ->
  pnorm (pscale (content_Z a) (ppp a)) = pnorm a /\ pcontent (ppp a) = 1 /\ 0 < plc (ppp a).
Proof. exact content_pp_Z. Qed.
Print Assumptions C03_content_pp_Z.

(* lp_upolynomial_make_primitive_Z (division by the signed content) computes exactly the reference ppp *)
Theorem C03_make_primitive_Z : forall a : list Z, make_primitive_Z a = ppp a.
Proof. exact make_primitive_Z_ppp. Qed.
Print Assumptions C03_make_primitive_Z.

(* the checker run on the implementation's (content, pp) is sound *)
Theorem C03_cont_pp_check_sound : forall (c : Z) (pp a : list Z),
  cont_pp_check_Z c pp a = true -> pnorm (pscale c pp) = pnorm a /\ pcontent pp = 1 /\ 0 < plc pp.
Proof. exact cont_pp_check_Z_sound. Qed.
Print Assumptions C03_cont_pp_check_sound.

(* ---------------------------------------------------------------- gcd in Z[x] *)

(* common-divisor half: the reference gcd divides both operands (all inputs, including zero) *)
Theorem C03_pgcd_divides_both : forall a b : list Z, pdivides (pgcd a b) a /\ pdivides (pgcd a b) b.
Proof. exact pgcd_divides_both. Qed.
Print Assumptions C03_pgcd_divides_both.

(* greatest half: every common divisor divides it (primitive PRS + Gauss' lemma) *)
Theorem C03_pgcd_greatest : forall a b d : list Z, pdivides d a -> pdivides d b -> pdivides d (pgcd a b).
Proof. exact pgcd_greatest_list. Qed.
Print Assumptions C03_pgcd_greatest.

(* sign normalisation of the reference: leading coefficient >= 0 *)
Theorem C03_pgcd_sign : forall a b : list Z, 0 <= plc (pgcd a b).
Proof. exact plc_pgcd_ge0. Qed.
Print Assumptions C03_pgcd_sign.

(* mutual divisibility in Z[x] means equal up to sign; hence ANY two gcds of the same pair - in particular the
   results of the heuristic, subresultant and hook-forced strategies - agree after sign normalisation *)
Theorem C03_strategy_independent : forall g1 g2 a b : list Z,
  is_gcd g1 a b -> is_gcd g2 a b -> pabs g1 = pabs g2.
Proof. exact gcd_unique_up_to_sign. Qed.
Print Assumptions C03_strategy_independent.

(* trial division with re-multiplication is a sound divisibility test *)
Theorem C03_pdivides_b_sound : forall d a : list Z, pdivides_b d a = true -> pdivides d a.
Proof. exact pdivides_b_sound. Qed.
Print Assumptions C03_pdivides_b_sound.

(* the executable gcd criterion run on the implementation's result: it proves "is a gcd" ... *)
Theorem C03_gcd_check_sound : forall g a b : list Z, gcd_check_Z g a b = true -> is_gcd g a b.
Proof. exact gcd_check_Z_sound. Qed.
Print Assumptions C03_gcd_check_sound.

(* ... and every gcd is, after sign normalisation, THE reference gcd (what the driver compares exactly) *)
Theorem C03_gcd_is_reference : forall g a b : list Z, is_gcd g a b -> peqb (pabs g) (pgcd a b) = true.
Proof. exact gcd_is_reference. Qed.
Print Assumptions C03_gcd_is_reference.

(* zero operands of lp_upolynomial_gcd over Z (repaired code): the other operand with lc > 0, which is a gcd *)
Theorem C03_upoly_gcd_Z_zero_operand : forall (mode : Z) (b : list Z),
  upoly_gcd_Z mode [] b = Some (pabs b) /\ upoly_gcd_Z mode b [] = Some (pabs b) /\ is_gcd (pabs b) [] b.
Proof. exact upoly_gcd_Z_zero. Qed.
Print Assumptions C03_upoly_gcd_Z_zero_operand.

(* the heuristic strategy can only return a common divisor: a candidate is accepted only after both trial
   divisions, and zero pseudo-remainder of d*primitive with d | contents is divisibility in Z[x] (Gauss) *)
Theorem C03_heuristic_divides_both_partial : forall (n : nat) (A B D : list Z),
  pnorm A <> [] -> pnorm B <> [] ->
  gcd_heuristic n A B = Some (Some D) -> pdivides D A /\ pdivides D B.
Proof. exact gcd_heuristic_sound. Qed.
Print Assumptions C03_heuristic_divides_both_partial.
Definition C03_heuristic_full_statement : Prop := forall (n : nat) (A B D : list Z),
  pnorm A <> [] -> pnorm B <> [] -> gcd_heuristic n A B = Some (Some D) -> is_gcd D A B.

(* ---------------------------------------------------------------- lcm *)

(* l * gcd = +- a * b makes l a least common multiple: both operands divide l, l divides every common multiple *)
Theorem C03_lcm_of_gcd : forall l g a b : list Z,
  pnorm a <> [] -> pnorm b <> [] -> is_gcd g a b -> lcm_check_Z l g a b = true ->
  pdivides a l /\ pdivides b l /\ forall m, pdivides a m -> pdivides b m -> pdivides l m.
Proof. exact lcm_of_gcd. Qed.
Print Assumptions C03_lcm_of_gcd.

(* ---------------------------------------------------------------- Z_p[x]: extended gcd and Bezout certificates *)

(* what the extended-gcd check proves: g is a greatest common divisor modulo p and u*a + v*b = g modulo p *)
Theorem C03_egcd_check_sound : forall (p : Z), p <> 0 -> forall (g u v a b : list Z),
  egcd_check_Zp p g u v a b = true ->
  is_gcd_mod p g a b /\ peqm p (padd (pmul u a) (pmul v b)) g.
Proof. exact egcd_check_Zp_sound. Qed.
Print Assumptions C03_egcd_check_sound.

(* what the solve_bezout check proves: u*a + v*b = r modulo p within the documented degree bounds *)
Theorem C03_solve_bezout_check_sound : forall (p : Z), p <> 0 -> forall (u v a b r : list Z),
  solve_bezout_check p u v a b r = true ->
  peqm p (padd (pmul u a) (pmul v b)) r /\
  (psize u < psize (zp_norm p b))%nat /\ (psize v < psize (zp_norm p a))%nat.
Proof. exact solve_bezout_check_sound. Qed.
Print Assumptions C03_solve_bezout_check_sound.

(* the faithful model of upolynomial_gcd_euclid maintains r_i = s_i*A + t_i*B: its outputs satisfy Bezout *)
Theorem C03_gcd_euclid_bezout : forall (p : Z), 0 < p -> forall (A B g u v : list Z),
  gcd_euclid p A B = Some (g, u, v) -> peqm p (padd (pmul u A) (pmul v B)) g.
Proof. exact gcd_euclid_bezout. Qed.
Print Assumptions C03_gcd_euclid_bezout.

(* ---------------------------------------------------------------- multivariate: certificate checkers *)

(* divides-both / planted-factor checks: a successful check exhibits a quotient, and the identity holds under
   every integer valuation of the variables *)
Theorem C03_mp_divides_b_sound : forall (vars : list var) (d a : mpoly),
  mp_divides_b vars d a = true ->
  exists q : mpoly, forall rho : var -> Z, mp_eval rho a = mp_eval rho d * mp_eval rho q.
Proof. exact mp_divides_b_sound. Qed.
Print Assumptions C03_mp_divides_b_sound.

(* the pp/cont check: cont * pp = input under every valuation *)
Theorem C03_mppc_check_product : forall (vars ord : list var) (fuel : nat) (pp cont a : mpoly),
  mppc_check vars ord fuel pp cont a = Some true ->
  forall rho : var -> Z, mp_eval rho a = mp_eval rho cont * mp_eval rho pp.
Proof. exact mppc_check_product. Qed.
Print Assumptions C03_mppc_check_product.

(* COND: if the reference gcd is a gcd (premise = correctness of the unproved oracle mp_gcd_ref, i.e. Gauss' lemma
   over the recursive coefficient rings), a successful mgcd_check proves that the implementation's g divides both
   operands and is divisible by every common divisor, semantically *)
Theorem C03_mgcd_check_cond : forall (vars : list var) (fuel : nat),
  (forall a b r, mp_gcd_ref vars fuel a b = Some r -> mp_is_gcd r a b) ->
  forall g a b planted, mgcd_check vars fuel g a b planted = Some true -> mp_is_gcd g a b.
Proof. exact mgcd_check_cond. Qed.
Print Assumptions C03_mgcd_check_cond.

(* ---------------------------------------------------------------- non-vacuity *)
Example C03_ex_gcd : pgcd [-4; 0; 4] [6; 6] = [2; 2].
Proof. vm_compute. reflexivity. Qed.
Example C03_ex_check : gcd_check_Z [-2; -2] [-4; 0; 4] [6; 6] = true /\ is_gcd [-2; -2] [-4; 0; 4] [6; 6].
Proof. split; [vm_compute; reflexivity|apply gcd_check_Z_sound; vm_compute; reflexivity]. Qed.
Example C03_ex_content : content_Z [-6; 0; -4] = -2 /\ ppp [-6; 0; -4] = [3; 0; 2].
Proof. vm_compute. split; reflexivity. Qed.
Example C03_ex_heuristic : gcd_heuristic 2 [-4; 0; 4] [6; 6] = Some (Some [2; 2]).
Proof. vm_compute. reflexivity. Qed.
Example C03_ex_euclid : gcd_euclid 7 [-3; 0; 3] [-1; -1] = Some ([1; 1], [], [-1])
  /\ egcd_check_Zp 7 [1; 1] [] [-1] [-3; 0; 3] [-1; -1] = true.
Proof. vm_compute. split; reflexivity. Qed.
Example C03_ex_lcm : lcm_check_Z [-12; 0; 12] [2; 2] [-4; 0; 4] [6; 6] = true.
Proof. vm_compute. reflexivity. Qed.
Example C03_ex_bezout : solve_bezout_check 7 [-3; 3] [-3] [1; 1] [1; 0; 1] [1] = true.
Proof. vm_compute. reflexivity. Qed.
Example C03_ex_mdiv : mp_divides_b [0%N; 1%N] [([(1%N, 1%N)], 2)] [([(1%N, 1%N)], -2); ([(0%N, 2%N); (1%N, 1%N)], 2)] = true.
Proof. vm_compute. reflexivity. Qed.
