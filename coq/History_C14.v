(* Regression memory of property C14: the functions of the PINNED feasibility_set_int.c / root_finding.c
   that the model in FeasSetInt.v describes as repaired, each with the theorem refuting the property
   for the pinned version (witnesses are replayed against the library by corpus/C14.txt).

   1. status precedence: lp_feasibility_set_int_{intersect,union}_with_status report S2 for two operands
      that denote the SAME set in different representations, although the header promises "S2 only if
      the result is not s1".
   2. lp_feasibility_set_int_invert asserts M < 10000: intersect/union of valid sets over a field of
      >= 10000 elements abort as soon as a listed operand is larger than the complemented one's set.
   3. lp_feasibility_set_int_is_point asserts M > 2: aborts for every set over the field Z_2.
   4. lp_polynomial_constraint_get_feasible_set_Zp stores the roots in the order the random splitting found
      them: the "sorted unique" invariant breaks and binary search misses elements.                       *)
From Coq Require Import ZArith List Bool Lia.
From LP Require Import Scalar FeasSetInt FeasSetIntProofs FeasSetIntFull.
Import ListNotations.
Local Open Scope Z_scope.

(* ---- 1. status from the minus branch, as pinned (no BOTH) *)
Definition isect_LI_pinned (M : Z) (e1 e2 : list Z) : fset * (bool * bool) :=
  if fs_size_approx (mkFS M true e2) <? zlen e1 then
    let tmp := fs_invert (mkFS M true e2) in
    let '(r, st) := oset_intersect e1 (fs_el tmp) in (mkFS M false r, st)
  else
    let '(r, st) := oset_minus e1 e2 in (mkFS M false r, st).
Definition fs_intersect_internal_pinned (s1 s2 : fset) : fset * (bool * bool) :=
  let M := fs_M s1 in
  match fs_inv s1, fs_inv s2 with
  | true, true => let '(r, st) := oset_union (fs_el s1) (fs_el s2) in (mkFS M true r, st)
  | false, false => let '(r, st) := oset_intersect (fs_el s1) (fs_el s2) in (mkFS M false r, st)
  | true, false => let '(r, st) := isect_LI_pinned (fs_M s2) (fs_el s2) (fs_el s1) in (r, swap_status st)
  | false, true => isect_LI_pinned M (fs_el s1) (fs_el s2)
  end.
Definition fs_intersect_with_status_pinned (s1 s2 : fset) : fset * status :=
  let '(r, st) := fs_intersect_internal_pinned s1 s2 in
  (r, if fs_is_empty r then St_EMPTY else status_to_external st).

(* Z_5: s1 = Z_5 \ {0}, s2 = {-2,-1,1,2}: equal sets, the intersection IS s1, the pinned status is S2 *)
Theorem C14_status_precedence_pinned_refuted :
  exists s1 s2, wf s1 /\ wf s2 /\ fs_M s1 = fs_M s2 /\ same_set s1 s2 /\
    same_set (fst (fs_intersect_with_status_pinned s1 s2)) s1 /\
    snd (fs_intersect_with_status_pinned s1 s2) = St_S2.
Proof.
  exists (mkFS 5 true [0]), (mkFS 5 false [-2; -1; 1; 2]).
  assert (W1: wf (mkFS 5 true [0])) by (apply wf_b_spec; vm_compute; reflexivity).
  assert (W2: wf (mkFS 5 false [-2; -1; 1; 2])) by (apply wf_b_spec; vm_compute; reflexivity).
  assert (E: same_set (mkFS 5 true [0]) (mkFS 5 false [-2; -1; 1; 2])).
  { apply fs_eq_spec; try assumption; reflexivity. }
  split; [assumption|]. split; [assumption|]. split; [reflexivity|]. split; [assumption|].
  split; [|vm_compute; reflexivity].
  change (fst (fs_intersect_with_status_pinned (mkFS 5 true [0]) (mkFS 5 false [-2; -1; 1; 2])))
    with (mkFS 5 false [-2; -1; 1; 2]).
  intros x. symmetry. apply E.
Qed.

(* ---- 2. invert with the M < 10000 assertion: None = abort *)
Definition fs_invert_pinned (s : fset) : option fset :=
  if fs_M s <? 10000 then Some (fs_invert s) else None.
Definition isect_LI_pinned_abort (M : Z) (e1 e2 : list Z) : option (fset * (bool * bool)) :=
  if fs_size_approx (mkFS M true e2) <? zlen e1 then
    match fs_invert_pinned (mkFS M true e2) with
    | Some tmp => let '(r, st) := oset_intersect e1 (fs_el tmp) in Some (mkFS M false r, st)
    | None => None
    end
  else
    let '(r, st) := oset_minus e1 e2 in Some (mkFS M false r, st).

(* Z_10007: s1 lists the 5043 smallest elements, s2 is the complement of 5043 elements *)
Theorem C14_invert_assert_pinned_refuted :
  exists M e1 e2, wf (mkFS M false e1) /\ wf (mkFS M true e2) /\ isect_LI_pinned_abort M e1 e2 = None.
Proof.
  exists 10007, (invert_loop (Z.to_nat 5043) (ring_lb 10007) []), (invert_loop (Z.to_nat 5043) (ring_lb 10007 + 20) []).
  split; [apply wf_b_spec; vm_compute; reflexivity|].
  split; [apply wf_b_spec; vm_compute; reflexivity|].
  vm_compute. reflexivity.
Qed.

(* ---- 3. is_point with the M > 2 assertion *)
Definition fs_is_point_pinned (s : fset) : option bool :=
  if 2 <? fs_M s then Some (fs_is_point s) else None.
Theorem C14_is_point_Z2_pinned_refuted :
  exists s, wf s /\ fs_M s = 2 /\ fs_is_point_pinned s = None.
Proof.
  exists (mkFS 2 false [1]). split; [apply wf_b_spec; vm_compute; reflexivity|]. split; reflexivity.
Qed.

(* ---- 4. roots stored in discovery order (observed on the library: x^2 - 3x + 2 over Z_1009 gave {2, 1}) *)
Theorem C14_unsorted_constraint_set_pinned_refuted :
  exists M el x, In x el /\ fs_contains (mkFS M false el) x = false.
Proof. exists 1009, [2; 1], 1. split; [right; left; reflexivity|vm_compute; reflexivity]. Qed.
