(* Property C06 - real root counting and isolation of univariate integer polynomials is exact.
   ONLY theorem statements, each closed by `exact` of a lemma from RootIsoProofs.v, with Print Assumptions
   beneath.  Models: RootIso.v (oracle + faithful model of root_finding.c), reference arithmetic UPoly.v.

   Reals: every statement holds for an ARBITRARY real closed field R (R : rcfType; realalg is one).  An integer
   coefficient list f acts on R as the polynomial  PR f = map_poly ZtoR (Poly f)  where ZtoR is the ring
   morphism Z -> R; QR a b = a / b in R; rootsR p is MathComp's increasing list of ALL distinct real roots of p.

   Strength labels (docs/C06.md): ORACLE = a checker / certified reference proved correct for all inputs and
   applied to the implementation's output on every run; nothing here claims libpoly's own bisection is proved. *)
From Coq Require Import ZArith List Bool.
From LP Require Import UPoly RootIso.
Set Warnings "-notation-overridden,-ambiguous-paths".
From mathcomp Require Import all_ssreflect all_algebra all_real_closed.
From mathcomp Require Import ssrZ.
Set Warnings "notation-overridden,ambiguous-paths".
From LP Require Import AlgNum AlgNumProofs RootIsoSort.
From LP Require Import UPolySpec RootIsoProofs SturmItv.
From LP Require Import Scalar RefAlg RefAlgSpec RefAlgValid RootIsoFull RootIsoBisect RootIsoEnd RootIsoDiv.
Import GRing.Theory Num.Theory.
Local Open Scope ring_scope.

(* (a) SOUNDNESS of a sign change: if p changes sign between la/lb < ha/hb then p has a real root strictly inside *)
Theorem C06_sign_change_has_root : forall (R : rcfType) (p : list Z) (la lb ha hb : Z),
  (0 < lb)%R -> (0 < hb)%R -> riq_lt la lb ha hb ->
  Z.ltb (Z.mul (psgn_at_rat p la lb) (psgn_at_rat p ha hb)) Z0 ->
  exists2 x : R, QR R la lb < x < QR R ha hb & root (PR R p) x.
Proof. exact sign_change_root. Qed.
Print Assumptions C06_sign_change_has_root.

(* (b) the model's exact sign evaluation at a rational decides being a root *)
Theorem C06_sign_at_rational_exact : forall (R : rcfType) (p : list Z) (a b : Z), (0 < b)%R ->
  Num.sg (PR R p).[QR R a b] = ZtoR R (psgn_at_rat p a b).
Proof. exact sgr_horner_rat. Qed.
Print Assumptions C06_sign_at_rational_exact.

Theorem C06_point_item_is_root : forall (R : rcfType) (p : list Z) (a b : Z), (0 < b)%R ->
  root (PR R p) (QR R a b) = (psgn_at_rat p a b == 0).
Proof. exact root_rat. Qed.
Print Assumptions C06_point_item_is_root.

(* (c) well-formed, increasing, item-wise accepted items denote a STRICTLY INCREASING list of roots of f,
       one real per item (dens), hence there are at most as many items as distinct real roots *)
Theorem C06_checked_items_denote_distinct_roots : forall (R : rcfType) (f : list Z) (its : list item),
  all item_wf its -> items_sorted its -> all (item_ok f) its ->
  exists xs : seq R, [/\ dens its xs, sorted <%R xs & all (root (PR R f)) xs].
Proof. exact items_sound. Qed.
Print Assumptions C06_checked_items_denote_distinct_roots.

Theorem C06_items_le_roots : forall (R : rcfType) (f : list Z) (its : list item),
  PR R f != 0 -> all item_wf its -> items_sorted its -> all (item_ok f) its ->
  (size its <= size (rootsR (PR R f)))%N.
Proof. exact items_le_roots. Qed.
Print Assumptions C06_items_le_roots.

(* (d) COMPLETENESS from the count, in general: a strictly increasing list of roots that is as long as the
       list of all distinct real roots IS that list *)
Theorem C06_complete_from_count : forall (R : rcfType) (F : {poly R}) (xs : seq R), F != 0 ->
  sorted <%R xs -> all (root F) xs -> size xs = size (rootsR F) -> xs = rootsR F.
Proof. exact sorted_roots_complete. Qed.
Print Assumptions C06_complete_from_count.

(* the count itself: ANY chain accepted by chain_ok (positive multiples of f, f', -(rem) ... certified by
   multiplying back) has  V(-inf) - V(+inf) = number of distinct real roots  (Sturm / MathComp changes_mods);
   certified_count runs the reference chain UPoly.sturm_chain through that certificate *)
Theorem C06_chain_count_correct : forall (R : rcfType) (f : list Z) (ch : list (list Z)),
  chain_ok f ch -> chain_count ch = size (rootsR (PR R f)).
Proof. exact chain_count_correct. Qed.
Print Assumptions C06_chain_count_correct.

Theorem C06_certified_count_correct : forall (R : rcfType) (f : list Z) (n : nat),
  certified_count f = Some n -> n = size (rootsR (PR R f)).
Proof. exact certified_count_correct. Qed.
Print Assumptions C06_certified_count_correct.

(* the reference arithmetic behind the certificate is itself proved: pseudo-division of UPoly.v ... *)
Theorem C06_reference_pseudo_division : forall a b : list Z, Poly b != 0 -> (size (Poly b) <= size (Poly a))%N ->
  Poly (ppdivmod a b).1 * Poly b + Poly (ppdivmod a b).2 = ri_pdiv_scal a b *: Poly a
  /\ (size (Poly (ppdivmod a b).2) < size (Poly b))%N.
Proof. exact ppdivmodP. Qed.
Print Assumptions C06_reference_pseudo_division.

(* ... hence the reference Sturm chain ALWAYS passes the certificate (certified_count never answers None) ... *)
Theorem C06_reference_chain_certified : forall f : list Z, ~~ pis_zero f -> chain_ok f (sturm_chain f).
Proof. exact sturm_chain_certified. Qed.
Print Assumptions C06_reference_chain_certified.

(* ... and the reference whole-line count of UPoly.v is the number of distinct real roots, for EVERY non-zero
   integer polynomial (square-free or not) *)
Theorem C06_count_line : forall (R : rcfType) (f : list Z), ~~ pis_zero f ->
  count_real_roots f = size (rootsR (PR R f)).
Proof. exact count_real_roots_correct. Qed.
Print Assumptions C06_count_line.

(* THE ORACLE (closed, no premise): if check_isolation accepts the implementation's output then f <> 0 and the
   items are EXACTLY the distinct real roots of f in increasing order: item i denotes the i-th real root
   (a point item is that rational; an interval item's open interval contains that root, which is a root of
   the item's polynomial), and no other root of the item's polynomial lies in the item's interval (denu) *)
Theorem C06_isolation_checker_exact : forall (R : rcfType) (f : list Z) (items : list item),
  check_isolation f items -> PR R f != 0 /\ denu items (rootsR (PR R f)).
Proof. exact check_isolation_exact. Qed.
Print Assumptions C06_isolation_checker_exact.

(* root counting over an interval, honouring open / closed ends: the number of accepted items lying in the
   interval (decided by exact sign evaluations) is the number of distinct real roots of f in it *)
Theorem C06_count_in_interval_from_isolation : forall (R : rcfType) (f : list Z) (items : list item) (J : ri_itv),
  check_isolation f items -> (0 < qlo_d J)%R -> (0 < qhi_d J)%R ->
  count_in_itv items J = size [seq x <- rootsR (PR R f) | in_qitv J x].
Proof. exact count_in_itv_correct. Qed.
Print Assumptions C06_count_in_interval_from_isolation.

(* the Sturm sequence returned by the implementation, when accepted by check_sturm, has the sign-variation
   property on the whole line *)
Theorem C06_sturm_sequence_checker : forall (R : rcfType) (f : list Z) (ch : list (list Z)),
  check_sturm f ch -> (sturm_var ch MInf - sturm_var ch PInf)%N = size (rootsR (PR R f)).
Proof. exact check_sturm_correct. Qed.
Print Assumptions C06_sturm_sequence_checker.

(* libpoly's own Sturm computation (faithful model of upolynomial_dense_reduce_Z and of
   upolynomial_compute_sturm_sequence with its sign correction "negate when a > 0", repaired to stop at a zero
   remainder): the reduction is a pseudo-division with a non-zero (possibly NEGATIVE) multiplier ... *)
Theorem C06_libpoly_reduce_Z : forall a b : list Z, Poly b != 0 -> (size (Poly b) <= size (Poly a))%N ->
  [/\ (lp_reduce_Z a b).1 != 0,
      exists D, (lp_reduce_Z a b).1 *: Poly a = D * Poly b + Poly (lp_reduce_Z a b).2
    & (size (Poly (lp_reduce_Z a b).2) < size (Poly b))%N].
Proof. exact lp_reduce_ZP. Qed.
Print Assumptions C06_libpoly_reduce_Z.

(* ... and the sequence it builds has the whole-line sign-variation property for EVERY non-constant integer
   polynomial (multiple roots, negative leading coefficient, content): V(-inf) - V(+inf) = number of distinct
   real roots.  This is the theorem that fails if the sign correction is forgotten or inverted. *)
Theorem C06_libpoly_sturm_sequence : forall (R : rcfType) (f : list Z), (1 < size (PR R f))%N ->
  (sturm_var (lp_sturm_sequence f) MInf - sturm_var (lp_sturm_sequence f) PInf)%N = size (rootsR (PR R f)).
Proof. exact lp_sturm_sequence_correct. Qed.
Print Assumptions C06_libpoly_sturm_sequence.

(* COND: the REPAIRED end-point rule of sturm_seqence_count_roots (faithful model lp_count_roots_gen true) is
   right for every interval lo < hi, GIVEN the (a,b] sign-variation property of the sequence at finite points
   (premise sturm_oc_correct: Sturm's theorem with zero skipping - not proved, validated by sampling).
   The pinned rule (lp_count_roots_gen false) is refuted in History_C06.v. *)
Theorem C06_count_end_rule_cond : forall (R : rcfType) (S : list (list Z)),
  PR R (List.hd [::] S) != 0 ->
  (forall a b c d : Z, (0 < b)%R -> (0 < d)%R -> QR R a b < QR R c d ->
     Z.sub (Z.of_nat (lp_sign_changes S (Fin a b) (size S))) (Z.of_nat (lp_sign_changes S (Fin c d) (size S)))
     = Z.of_nat (count (fun x => QR R a b < x <= QR R c d) (rootsR (PR R (List.hd [::] S))))) ->
  forall J : ri_itv, (0 < qlo_d J)%R -> (0 < qhi_d J)%R ->
    QR R (qlo_n J) (qlo_d J) < QR R (qhi_n J) (qhi_d J) ->
    lp_count_roots_gen true S (Some J) = Z.of_nat (count (@in_qitv R J) (rootsR (PR R (List.hd [::] S)))).
Proof. exact lp_count_roots_repaired_cond. Qed.
Print Assumptions C06_count_end_rule_cond.

(* ---- Sturm's theorem at FINITE end points with zero skipping, for the shared reference count_roots_oc.
   The only hypothesis on the chain: its LAST member (gcd(f, f') up to a constant) does not vanish at the end
   points.  Inner members may vanish at a or b (their neighbours then have opposite signs), f itself may vanish
   at a or b as long as the root is simple.  b is counted when it is a root, a is not: the interval is (a, b]. *)
Theorem C06_count_interval : forall (R : rcfType) (f : list Z) (an ad bn bd : Z), ~~ pis_zero f ->
  (0 < ad)%R -> (0 < bd)%R -> QR R an ad < QR R bn bd ->
  psgn_at_rat (last [::] (sturm_chain f)) an ad != 0 ->
  psgn_at_rat (last [::] (sturm_chain f)) bn bd != 0 ->
  count_roots_oc f (Fin an ad) (Fin bn bd) = size [seq x <- rootsR (PR R f) | QR R an ad < x <= QR R bn bd].
Proof. exact count_roots_oc_fin. Qed.
Print Assumptions C06_count_interval.

(* sufficient: f(a) <> 0 and f(b) <> 0 (any f <> 0, multiple roots allowed strictly inside) *)
Theorem C06_count_interval_nonroot_ends : forall (R : rcfType) (f : list Z) (an ad bn bd : Z), ~~ pis_zero f ->
  (0 < ad)%R -> (0 < bd)%R -> QR R an ad < QR R bn bd ->
  psgn_at_rat f an ad != 0 -> psgn_at_rat f bn bd != 0 ->
  count_roots_oc f (Fin an ad) (Fin bn bd) = size [seq x <- rootsR (PR R f) | QR R an ad < x <= QR R bn bd].
Proof. exact count_roots_oc_fin_nonroot. Qed.
Print Assumptions C06_count_interval_nonroot_ends.

(* sufficient: f has no multiple real root (e.g. f = psqfree g); then NO condition at the end points *)
Theorem C06_count_interval_simple_roots : forall (R : rcfType) (f : list Z) (an ad bn bd : Z), ~~ pis_zero f ->
  (forall x : R, root (PR R f) x -> ~~ root (PR R f)^`() x) ->
  (0 < ad)%R -> (0 < bd)%R -> QR R an ad < QR R bn bd ->
  count_roots_oc f (Fin an ad) (Fin bn bd) = size [seq x <- rootsR (PR R f) | QR R an ad < x <= QR R bn bd].
Proof. exact count_roots_oc_fin_simple. Qed.
Print Assumptions C06_count_interval_simple_roots.

(* half lines *)
Theorem C06_count_minf : forall (R : rcfType) (f : list Z) (bn bd : Z), ~~ pis_zero f -> (0 < bd)%R ->
  psgn_at_rat (last [::] (sturm_chain f)) bn bd != 0 ->
  count_roots_oc f MInf (Fin bn bd) = size [seq x <- rootsR (PR R f) | x <= QR R bn bd].
Proof. exact count_roots_oc_minf. Qed.
Print Assumptions C06_count_minf.

Theorem C06_count_pinf : forall (R : rcfType) (f : list Z) (an ad : Z), ~~ pis_zero f -> (0 < ad)%R ->
  psgn_at_rat (last [::] (sturm_chain f)) an ad != 0 ->
  count_roots_oc f (Fin an ad) PInf = size [seq x <- rootsR (PR R f) | QR R an ad < x].
Proof. exact count_roots_oc_pinf. Qed.
Print Assumptions C06_count_pinf.

(* libpoly's OWN interval count (faithful repaired model of sturm_seqence_count_roots with its own
   zero-skipping sign-change counter and max_changes cut-off, on its own Sturm sequence of a non-constant f):
   the number of distinct real roots of f in J for all four open/closed combinations of the ends, whenever the
   last member of the sequence does not vanish at the two ends (always the case for a square-free factor).
   This discharges the premise of C06_count_end_rule_cond for the sequences libpoly actually builds. *)
Theorem C06_libpoly_count_interval : forall (R : rcfType) (f : list Z) (J : ri_itv), (1 < size (PR R f))%N ->
  (0 < qlo_d J)%R -> (0 < qhi_d J)%R -> QR R (qlo_n J) (qlo_d J) < QR R (qhi_n J) (qhi_d J) ->
  psgn_at_rat (last [::] (lp_sturm_sequence f)) (qlo_n J) (qlo_d J) != 0 ->
  psgn_at_rat (last [::] (lp_sturm_sequence f)) (qhi_n J) (qhi_d J) != 0 ->
  lp_count_roots_gen true (lp_sturm_sequence f) (Some J) = Z.of_nat (count (@in_qitv R J) (rootsR (PR R f))).
Proof. exact lp_count_roots_sturm. Qed.
Print Assumptions C06_libpoly_count_interval.

Theorem C06_libpoly_count_interval_nonroot_ends : forall (R : rcfType) (f : list Z) (J : ri_itv),
  (1 < size (PR R f))%N ->
  (0 < qlo_d J)%R -> (0 < qhi_d J)%R -> QR R (qlo_n J) (qlo_d J) < QR R (qhi_n J) (qhi_d J) ->
  psgn_at_rat f (qlo_n J) (qlo_d J) != 0 -> psgn_at_rat f (qhi_n J) (qhi_d J) != 0 ->
  lp_count_roots_gen true (lp_sturm_sequence f) (Some J) = Z.of_nat (count (@in_qitv R J) (rootsR (PR R f))).
Proof. exact lp_count_roots_sturm_nonroot. Qed.
Print Assumptions C06_libpoly_count_interval_nonroot_ends.

(* the reference square-free part: non-zero, its real roots are roots of p, and they are SIMPLE
   (gcd correctness lifted to R[x], exact division complete) *)
Theorem C06_psqfree_simple_roots : forall (R : rcfType) (p : list Z), Poly p != 0 ->
  [/\ PR R (psqfree p) != 0,
      forall x : R, root (PR R (psqfree p)) x -> root (PR R p) x
    & forall x : R, root (PR R (psqfree p)) x -> \mu_x (PR R (psqfree p)) = 1%N].
Proof. exact psqfree_spec. Qed.
Print Assumptions C06_psqfree_simple_roots.

(* a VALID reference algebraic number (RefAlg.rn_valid: canonical ends, lo < hi, p <> 0, p(lo) <> 0 <> p(hi),
   count_open (psqfree p) lo hi = 1) DENOTES a real: unique root of psqfree p in (lo, hi) with a sign change *)
Theorem C06_rn_valid_denotes : forall (R : rcfType) (x : rnum), rn_valid x = true ->
  exists v : R, rn_denotes (rn_norm x) v.
Proof. exact rn_valid_denotes. Qed.
Print Assumptions C06_rn_valid_denotes.

(* the interval count in the form consumed by the reference arithmetic on algebraic numbers
   (RefAlgArith.count_open_correct_premise, which additionally assumes coprimep (pr r) (pr r)' - not needed) *)
Theorem C06_count_open_correct : forall (R : rcfType) (r : list Z) (l h : Z * Z),
  qpos l -> qpos h -> (qr l < qr h :> R) -> Poly r != 0 ->
  ((pr r).[qr l] != 0 :> R) -> ((pr r).[qr h] != 0 :> R) ->
  count_open r l h = size (roots (pr r : {poly R}) (qr l) (qr h)).
Proof. exact count_open_correct. Qed.
Print Assumptions C06_count_open_correct.

(* ---- what is NOT proved (kept as statements so that the gap is visible) *)

(* libpoly's own algorithm (faithful model) always produces an accepted list.  STILL NOT PROVED in this form: the
   model stops BEFORE libpoly's final qsort by lp_algebraic_number_cmp, which refines overlapping intervals of
   different factors; an accepted list for f itself needs the roots of different factors separated by rationals
   (a root-separation / Archimedean argument that is not available in an arbitrary real closed field without
   more work).  NOTE: this statement is STRICTLY STRONGER than property C06, which only asks that an item's interval
   contains its root and no other root of the item's OWN polynomial; the property-level statement for the model is
   the theorem C06_libpoly_isolation_end_to_end below (isolation + the final sort with the C07 comparison model).
   What IS proved in the check_isolation form is the factor-wise statement C06_libpoly_isolation_factorwise below and the count
   C06_libpoly_isolation_count.  The stronger reading "a permutation of the model's own items is accepted for f"
   is FALSE for the model (Example C06_ex_model_needs_final_refinement): this is the unmodelled refinement, not a
   defect of libpoly (the real output is checked by check_isolation on every run). *)
Definition C06_libpoly_isolation_full_statement : Prop :=
  forall fuel f l, lp_roots_isolate fuel f = Some l -> pis_zero f = false ->
    exists items, List.length items = List.length l /\ check_isolation f items = true.
(* the repaired interval count of the faithful model is the number of roots in the interval *)
Definition C06_libpoly_count_full_statement : Prop :=
  forall (R : rcfType) f J, pis_zero f = false -> (0 < qlo_d J)%R -> (0 < qhi_d J)%R ->
    riq_lt (qlo_n J) (qlo_d J) (qhi_n J) (qhi_d J) ->
    lp_roots_count f (Some J) = Z.of_nat (size [seq x <- rootsR (PR R f) | in_qitv J x]).

(* ---- the count statement is now a THEOREM (RootIsoFull.v).  lp_roots_count is the faithful repaired model of
   lp_upolynomial_roots_count: content and power of x split off, the square-free factor loop (on the reference
   gcd / exact division), libpoly's own Sturm sequence per factor (reduce_Z, sign correction), its own
   zero-skipping sign-change counter with the max_changes cut-off, the open/closed end adjustments, summed over
   the factors.  Guard: lo < hi (a point interval [a,a] is answered by the model's separate first branch). *)
Theorem C06_libpoly_count_full : C06_libpoly_count_full_statement.
Proof. exact lp_roots_count_full. Qed.
Print Assumptions C06_libpoly_count_full.

(* the model's square-free factor list splits the distinct real roots of f: every factor is non-zero and divides f
   over Z, and at every real x the multiplicities of x in the factors sum to [x is a root of f] - so every real
   root of a factor is simple, the factors have pairwise disjoint real roots, and together they have all of them *)
Theorem C06_libpoly_sqfree_factors : forall (R : rcfType) (f : list Z), PR R f != 0 ->
  [/\ forall gk, gk \in lp_sqfree_factors f -> PR R gk.1 != 0 /\ GcdSpec.rdvd (Poly gk.1) (Poly f),
      forall gk, gk \in lp_sqfree_factors f -> gk.1 = [:: Z0; Zpos xH] \/ ~~ root (PR R gk.1) 0
    & forall x : R, (\sum_(gk <- lp_sqfree_factors f) \mu_x (PR R gk.1) = root (PR R f) x :> nat)%N].
Proof. exact lp_sqfree_factors_spec. Qed.
Print Assumptions C06_libpoly_sqfree_factors.

(* ---- isolation by the faithful model (RootIsoBisect.v): lp_grow, the (a,b] recursion lp_isolate with its three
   exits and the max_changes cut-off a_ch, lp_anum_construct (bisection + refinement with ceil/floor), the x factor.
   Whenever the model answers Some l, l is the concatenation - square-free factor by square-free factor - of lists
   EACH accepted by the proved checker for its factor (chk_factor gk l' = check_isolation gk.1 (items of l')): by
   C06_isolation_checker_exact the items of a factor are exactly its distinct real roots in increasing order, each
   a dyadic point or an open dyadic interval of ppp(factor) with a sign change and no other root of it; by
   C06_libpoly_sqfree_factors the factors have pairwise disjoint simple real roots which together are the real
   roots of f.  Invariant of the recursion: a_ch, b_ch are the Sturm counts at the dyadic ends, the items of the
   result lie in (a, b], are increasing and disjoint, and their number is a_ch - b_ch.  No fuel assumption: the
   statement is about every answer Some l (termination needs an Archimedean field). *)
Theorem C06_libpoly_isolation_factorwise : forall (R : rcfType) (fuel : nat) (f : list Z) (l : list ri_anum),
  pis_zero f = false -> lp_roots_isolate fuel f = Some l ->
  exists2 ls : seq (seq ri_anum), l = flatten ls
    & all2 chk_factor (if Nat.leb (length (pnorm f)) 1 then [::] else lp_sqfree_factors f) ls.
Proof. exact lp_roots_isolate_ok. Qed.
Print Assumptions C06_libpoly_isolation_factorwise.

(* one factor, stated directly: g non-zero with simple real roots, "constant coefficient 0" only for g = x *)
Theorem C06_libpoly_isolation_one_factor : forall (R : rcfType) (g : list Z),
  PR R g != 0 -> (forall x : R, (\mu_x (PR R g) <= 1)%N) -> forall (fuel : nat) (l : list ri_anum),
  (Z.eqb (List.nth 0 (pnorm g) Z0) Z0 -> g = [:: Z0; Zpos xH]) ->
  lp_isolate_one g fuel = Some l -> check_isolation g (map item_of_anum l) && all sign_cached l.
Proof. exact lp_isolate_one_ok. Qed.
Print Assumptions C06_libpoly_isolation_one_factor.

(* the number of roots the model returns is the number of distinct real roots of f *)
Theorem C06_libpoly_isolation_count : forall (R : rcfType) (fuel : nat) (f : list Z) (l : list ri_anum),
  pis_zero f = false -> lp_roots_isolate fuel f = Some l -> size l = size (rootsR (PR R f)).
Proof. exact lp_roots_isolate_size. Qed.
Print Assumptions C06_libpoly_isolation_count.

(* ---- END TO END (RootIsoSort.v, RootIsoEnd.v): the property-level statement for the faithful model.
   lp_roots_isolate_sorted = the isolation factor by factor followed by the sort with the faithful model of
   lp_algebraic_number_cmp (AlgNum.an_cmp, property C07: gcd reduction for equal intervals, refinement race
   otherwise; the refined operands replace the originals).  libc's qsort is represented by an insertion sort that
   threads the refined operands.  Dens s vs: s and vs have the same length and item i denotes vs_i in the sense of
   C07's Den: a point item IS the dyadic rational vs_i; an interval item (p, ]a,b[, sa, sb) has
   roots (PR p) a b = [:: vs_i] (vs_i is the ONE real root of p in the open dyadic interval) and sa, sb are the
   signs of p at the ends, opposite.  Conclusion: the answer denotes EXACTLY MathComp's strictly increasing list of
   all distinct real roots of f - every root once, in increasing order, each isolated from the other roots of the
   item's own polynomial.  Every R : rcfType, every f <> 0, every fuel; only answers Some s are constrained. *)
Theorem C06_libpoly_isolation_end_to_end : forall (R : rcfType) (fuel : nat) (f : list Z) (s : list anum),
  pis_zero f = false -> lp_roots_isolate_sorted fuel f = Some s -> Dens s (rootsR (PR R f)).
Proof. exact lp_roots_isolate_sorted_exact. Qed.
Print Assumptions C06_libpoly_isolation_end_to_end.

(* the same, item by item *)
Theorem C06_libpoly_isolation_end_to_end_items : forall (R : rcfType) (fuel : nat) (f : list Z) (s : list anum),
  pis_zero f = false -> lp_roots_isolate_sorted fuel f = Some s ->
  size s = size (rootsR (PR R f)) /\
  forall i, (i < size s)%N -> Den (nth (an_point an_dzero) s i) (nth 0 (rootsR (PR R f)) i).
Proof. by move=> R fuel f s fz E; apply: Dens_nth; exact: lp_roots_isolate_sorted_exact E. Qed.
Print Assumptions C06_libpoly_isolation_end_to_end_items.

(* the defining polynomial of every interval item of the answer divides f (in R[x], i.e. over Q): the isolation
   uses ppp of a square-free factor, refinement keeps the polynomial, the equal-interval branch of the comparison
   replaces it by a gcd.  an_poks P s: P holds of the polynomial of every interval item of s.  Together with
   C06_libpoly_isolation_end_to_end: a point item is a dyadic rational root of f; an interval item is a
   polynomial dividing f with an open dyadic interval containing exactly one real root of it - the denoted one *)
Theorem C06_libpoly_isolation_end_to_end_divides : forall (R : rcfType) (fuel : nat) (f : list Z) (s : list anum),
  pis_zero f = false -> lp_roots_isolate_sorted fuel f = Some s ->
  an_poks (fun p => PR R p %| PR R f) s.
Proof. exact lp_roots_isolate_sorted_divides. Qed.
Print Assumptions C06_libpoly_isolation_end_to_end_divides.

(* independent of the sort: the UNSORTED answer of the isolation model denotes a permutation of the roots *)
Theorem C06_libpoly_isolation_perm : forall (R : rcfType) (fuel : nat) (f : list Z) (l : list ri_anum),
  pis_zero f = false -> lp_roots_isolate fuel f = Some l ->
  exists2 vs : seq R, Dens (List.map anum_of_ri l) vs & perm_eq vs (rootsR (PR R f)).
Proof. exact lp_roots_isolate_perm. Qed.
Print Assumptions C06_libpoly_isolation_perm.

(* the sort alone: any list of numbers that denote vs is returned as numbers denoting the sorted permutation of vs
   (the comparator answers the order of the denotations - C07_cmp_full - and keeps the denotations) *)
Theorem C06_sort_by_cmp : forall (R : rcfType) (fuel : nat) (l : list anum) (vs : seq R) (s : list anum),
  Dens l vs -> an_isort fuel l = Some s ->
  exists ws : seq R, [/\ Dens s ws, perm_eq ws vs & sorted <=%R ws].
Proof. exact isortP. Qed.
Print Assumptions C06_sort_by_cmp.

(* ---- non-vacuity *)
Local Close Scope ring_scope.
Local Open Scope Z_scope.
Example C06_ex_checker_accepts_sqrt2 :
  check_isolation [:: -2; 0; 1] [:: IAlg [:: -2; 0; 1] (-3) 2 (-5) 4; IAlg [:: -2; 0; 1] 5 4 3 2] = true.
Proof. by vm_compute. Qed.
Example C06_ex_checker_accepts_mixed :   (* x^3 - 2x: -sqrt2, 0, sqrt2 *)
  check_isolation [:: 0; -2; 0; 1]
    [:: IAlg [:: -2; 0; 1] (-3) 2 (-5) 4; IPoint 0 1; IAlg [:: -2; 0; 1] 5 4 3 2] = true.
Proof. by vm_compute. Qed.
Example C06_ex_checker_rejects_missing_root :
  check_isolation [:: 0; -2; 0; 1] [:: IAlg [:: -2; 0; 1] (-3) 2 (-5) 4; IAlg [:: -2; 0; 1] 5 4 3 2] = false.
Proof. by vm_compute. Qed.
Example C06_ex_checker_rejects_two_roots_in_one_interval :   (* x^2-2 has equal signs at -2 and 2 *)
  check_isolation [:: -2; 0; 1] [:: IAlg [:: -2; 0; 1] (-2) 1 2 1] = false.
Proof. by vm_compute. Qed.
Example C06_ex_certified_count : certified_count [:: 4; -4; 1] = Some 1%N /\ certified_count [:: 1; 0; 1] = Some 0%N.
Proof. by vm_compute. Qed.
Example C06_ex_count_in_itv :
  count_in_itv [:: IAlg [:: -2; 0; 1] (-3) 2 (-5) 4; IAlg [:: -2; 0; 1] 5 4 3 2] (mkRiItv 0 1 false 2 1 false) = 1%N.
Proof. by vm_compute. Qed.
(* the model answers for (x^2-2)(8x-11)^2, factor by factor; the interval of sqrt2 and the one of 11/8 coincide,
   so no ordering of the model's own items passes items_sorted: libpoly's final qsort refines them (not modelled) *)
Example C06_ex_model_needs_final_refinement :
  let f := [:: -242; 352; -7; -176; 64] in
  let i1 := IAlg [:: -2; 0; 1] (-3) 2 (-5) 4 in
  let i2 := IAlg [:: -2; 0; 1] 5 4 3 2 in
  let i3 := IAlg [:: -11; 8] 5 4 3 2 in
  [/\ option_map (List.map item_of_anum) (lp_roots_isolate 100 f) = Some [:: i1; i2; i3],
      check_isolation f [:: i1; i2; i3] = false, check_isolation f [:: i1; i3; i2] = false
    & chk_factor ([:: -2; 0; 1], 1%N) [:: RItv [:: -2; 0; 1] (-3, 1%num) (-5, 2%num) 1 (-1);
                                          RItv [:: -2; 0; 1] (5, 2%num) (3, 1%num) (-1) 1] = true].
Proof. by split; vm_compute. Qed.
Example C06_ex_model_sorted :   (* the same f end to end: 11/8 has become a point, sqrt2 is refined to (11/8, 3/2) *)
  lp_roots_isolate_sorted 100 [:: -242; 352; -7; -176; 64]
  = Some [:: mkAN (Some [:: -2; 0; 1]) (mkDy (-3) 1) (mkDy (-5) 2) 1 (-1);
             an_point (mkDy 11 3);
             mkAN (Some [:: -2; 0; 1]) (mkDy 11 3) (mkDy 3 1) (-1) 1].
Proof. by vm_compute. Qed.
Example C06_ex_model_count_interval :   (* x^2-2 on [0,2] (the pinned code answered 2), (x-1)(x-2)^2(x-3)^3 on [0,5] *)
  lp_roots_count [:: -2; 0; 1] (Some (mkRiItv 0 1 false 2 1 false)) = 1
  /\ lp_roots_count (pmul [:: -1; 1] (pmul (ppow [:: -2; 1] 2) (ppow [:: -3; 1] 3))) (Some (mkRiItv 0 1 false 5 1 false)) = 3.
Proof. by vm_compute. Qed.
Example C06_ex_model_isolates :
  option_map (List.map item_of_anum) (lp_roots_isolate 100 [:: 0; -2; 0; 1])
  = Some [:: IAlg [:: -2; 0; 1] (-3) 2 (-5) 4; IAlg [:: -2; 0; 1] 5 4 3 2; IPoint 0 1].
Proof. by vm_compute. Qed.
(* the theorems are about a non-empty class of fields: the real algebraic numbers are a real closed field *)
Example C06_ex_realalg_instance :
  (PR [rcfType of realalg] [:: -2; 0; 1] != 0)%R /\
  denu [:: IAlg [:: -2; 0; 1] (-3) 2 (-5) 4; IAlg [:: -2; 0; 1] 5 4 3 2] (rootsR (PR [rcfType of realalg] [:: -2; 0; 1])).
Proof. exact: C06_isolation_checker_exact. Qed.
