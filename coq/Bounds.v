(* C16 model: ib_bound inference (lp_polynomial_constraint_infer_bounds / _explain_infer_bounds) and
   Fourier-Motzkin resolution (lp_polynomial_constraint_resolve_fm) of src/polynomial/polynomial.c, written on
   the reference polynomials of MPoly.v.  Executable, stdlib only, no proofs here (BoundsProofs.v).

   The C code works on the recursive representation in the current variable order.  The order is an argument
   `ord : list var`, TOP variable first, listing every variable of the context; "the top variable of p" is the
   first variable of `ord` that occurs in p, "the coefficient of x^k" is `mp_coeff x k p`, "numeric" is
   `bd_as_const _ = Some _` (the numeric zero is the empty polynomial). *)
From Coq Require Import ZArith NArith List Bool.
From LP Require Import Scalar MPoly.
Import ListNotations.
Local Open Scope Z_scope.

(* lp_sign_condition_t, in the order of the enum *)
Inductive sgn_cond := SgLT | SgLE | SgEQ | SgNE | SgGT | SgGE.

(* lp_sign_condition_negate *)
Definition sc_negate (c : sgn_cond) : sgn_cond :=
  match c with SgLT => SgGE | SgLE => SgGT | SgEQ => SgNE | SgNE => SgEQ | SgGT => SgLE | SgGE => SgLT end.

(* lp_sign_condition_consistent, on a sign in Z *)
Definition sc_holds (c : sgn_cond) (s : Z) : bool :=
  match c with
  | SgLT => s <? 0 | SgLE => s <=? 0 | SgEQ => s =? 0 | SgNE => negb (s =? 0) | SgGT => 0 <? s | SgGE => 0 <=? s
  end.

(* COEFFICIENT_NUMERIC *)
Definition bd_as_const (p : mpoly) : option Z :=
  match p with
  | [] => Some 0
  | [([], c)] => Some c
  | _ => None
  end.
Definition bd_is_const (p : mpoly) : bool := match bd_as_const p with Some _ => true | None => false end.

(* lp_polynomial_top_variable after lp_polynomial_external_clean *)
Fixpoint bd_top_var (ord : list var) (p : mpoly) : option var :=
  match ord with
  | [] => None
  | x :: ord' => if (0 <? mp_degree x p)%N then Some x else bd_top_var ord' p
  end.

(* ================================================================== infer_bounds *)

(* one peeled square: the variable x_k and the numeric A_k, B_k of  A_k x_k^2 + B_k x_k + rest *)
Definition sqterm := (var * Z * Z)%type.

(* first traversal: `while (ok && Ak->type != COEFFICIENT_NUMERIC)`.
   Returns the peeled terms in traversal order, the accumulated D = sum B_k^2/(4 A_k) and the final numeric
   constant; None is `ok = 0`. *)
Fixpoint ib_peel (ord : list var) (p : mpoly) (D : rat) : option (list sqterm * rat * Z) :=
  match ord with
  | [] => match bd_as_const p with Some c => Some ([], D, c) | None => None end
  | x :: ord' =>
    if (mp_degree x p =? 0)%N then ib_peel ord' p D                 (* x is not the top variable of Ak *)
    else if (mp_degree x p =? 2)%N then                             (* Ak_degree == 2 *)
      match bd_as_const (mp_coeff x 2 p), bd_as_const (mp_coeff x 1 p) with
      | Some a, Some b =>
        if 0 <? a then
          match ib_peel ord' (mp_coeff x 0 p) (q_add D (q_canon' (b * b, 4 * a))) with
          | Some (l, D', c) => Some ((x, a, b) :: l, D', c)
          | None => None
          end
        else None                                                    (* cannot do square root *)
      | _, _ => None                                                 (* A or B not numeric *)
      end
    else None
  end.

(* the quadratic handed to root isolation, (a, b, c) = a x^2 + b x + c:
   tmp_q = B^2/(4A) - D = p/q;  f = q*(A x^2 + B x) + p *)
Definition ib_quadr := (Z * Z * Z)%type.
Definition ib_quad (a b : Z) (D : rat) : ib_quadr :=
  let t := q_sub (q_canon' (b * b, 4 * a)) D in
  (snd t * a, snd t * b, fst t).
Definition quad_disc (q : ib_quadr) : Z := let '(a, b, c) := q in b * b - 4 * a * c.

(* the interval written for a variable: its end points are the real roots of the quadratic *)
Inductive ib_bound :=
| IbPoint (q : ib_quadr)                  (* one root r:        [r, r]                          *)
| IbRange (q : ib_quadr) (open : bool).   (* two roots r0 < r1: (r0, r1) if open else [r0, r1]  *)

(* second traversal: the writes lp_interval_assignment_set_interval(M, x, .) in order, and `conflict`.
   The number of real roots of the quadratic (coefficient_roots_isolate_univariate) is read off the
   discriminant. *)
Fixpoint ib_pass2 (l : list sqterm) (D : rat) (strict : bool) : list (var * ib_bound) * bool :=
  match l with
  | [] => ([], false)
  | (x, a, b) :: l' =>
    let q := ib_quad a b D in
    match quad_disc q ?= 0 with
    | Lt => ([], true)                                               (* no roots: conflict, break *)
    | Eq => if strict then ([], true)                                (* one root, < : conflict, break *)
            else let '(w, c) := ib_pass2 l' D strict in ((x, IbPoint q) :: w, c)
    | Gt => let '(w, c) := ib_pass2 l' D strict in ((x, IbRange q strict) :: w, c)
    end
  end.

(* the body after the switch: sgn_condition is SgLT (strict) or SgLE.  Result code and interval writes. *)
Definition ib_core (ord : list var) (p : mpoly) (strict : bool) : Z * list (var * ib_bound) :=
  match ib_peel ord p (0, 1) with
  | None => (0, [])
  | Some (l, D, c0) =>
    let D' := q_sub D (q_from_integer c0) in
    let '(w, conflict) := ib_pass2 l D' strict in
    (if conflict then -1 else 1, w)
  end.

(* lp_polynomial_constraint_infer_bounds: 1 bounds inferred, -1 conflict, 0 nothing *)
Definition infer_bounds (ord : list var) (p : mpoly) (c : sgn_cond) (negated : bool) : Z * list (var * ib_bound) :=
  let c := if negated then sc_negate c else c in
  match c with
  | SgLT => ib_core ord p true
  | SgLE => ib_core ord p false
  | SgEQ => let r := ib_core ord p false in
          if fst r =? 0 then ib_core ord (mp_neg p) false else r
  | SgNE => (0, [])
  | SgGT => ib_core ord (mp_neg p) true
  | SgGE => ib_core ord (mp_neg p) false
  end.

(* lp_polynomial_constraint_explain_infer_bounds *)
Definition quad_poly (x : var) (q : ib_quadr) : mpoly :=
  let '(a, b, c) := q in mp_of_terms [([(x, 2%N)], a); ([(x, 1%N)], b); ([], c)].
Fixpoint ib_find (l : list sqterm) (D : rat) (x : var) : option ib_quadr :=
  match l with
  | [] => None
  | (y, a, b) :: l' => if (y =? x)%N then Some (ib_quad a b D) else ib_find l' D x
  end.
Definition explain_core (ord : list var) (p : mpoly) (x : var) : option mpoly :=
  match ib_peel ord p (0, 1) with
  | None => None
  | Some (l, D, c0) =>
    match ib_find l (q_sub D (q_from_integer c0)) x with
    | Some q => Some (quad_poly x q)
    | None => None
    end
  end.
Definition explain_infer_bounds (ord : list var) (p : mpoly) (c : sgn_cond) (negated : bool) (x : var) : option mpoly :=
  let c := if negated then sc_negate c else c in
  match c with
  | SgLT | SgLE => explain_core ord p x
  | SgEQ => match explain_core ord p x with
          | Some e => Some e
          | None => explain_core ord (mp_neg p) x
          end
  | SgNE => None
  | SgGT | SgGE => explain_core ord (mp_neg p) x
  end.

(* ================================================================== resolve_fm *)

(* coefficient_sgn(ctx, C, M): numeric coefficients are decided directly, the others by evaluation under the
   model, which is the argument sgnM (lower layer; the drivers pass the exact sign under M) *)
Definition sgn_m (sgnM : mpoly -> Z) (c : mpoly) : Z :=
  match bd_as_const c with Some z => Z.sgn z | None => sgnM c end.

(* lp_polynomial_vector_push_back_coeff guarded by !coefficient_is_constant / type != NUMERIC *)
Definition push_nc (c : mpoly) (A : list mpoly) : list mpoly := if bd_is_const c then A else A ++ [c].

(* coefficient_reductum_m on the coefficients of the top variable, HIGH degree first: drops the leading
   coefficients that vanish under M, recording them and the first surviving one *)
Fixpoint fm_scan (sgnM : mpoly -> Z) (cs : list mpoly) (A : list mpoly) : list mpoly * list mpoly :=
  match cs with
  | [] => ([], A)
  | c :: cs' => if sgn_m sgnM c =? 0 then fm_scan sgnM cs' (push_nc c A) else (cs, push_nc c A)
  end.

(* reductum + the test `coefficient_degree(&p_c) == 1 && coefficient_top_variable(&p_c) == x`:
   Some (lc, c0) when what is left is lc*x + c0 *)
Definition fm_linear (sgnM : mpoly -> Z) (x : var) (p : mpoly) (A : list mpoly) : option (mpoly * mpoly) * list mpoly :=
  let '(kept, A') := fm_scan sgnM (rev (mp_coeffs x p)) A in
  match kept with
  | [lc; c0] => (Some (lc, c0), A')
  | _ => (None, A')
  end.

(* normalisation to <, <=, == *)
Definition fm_norm (pc : mpoly * mpoly) (c : sgn_cond) : (mpoly * mpoly) * sgn_cond :=
  match c with
  | SgGT => ((mp_neg (fst pc), mp_neg (snd pc)), SgLT)
  | SgGE => ((mp_neg (fst pc), mp_neg (snd pc)), SgLE)
  | _ => (pc, c)
  end.

(* the switch computing *R_sgn; None is ok = 0 *)
Definition fm_table (c1 c2 : sgn_cond) : option sgn_cond :=
  match c1, c2 with
  | SgLT, SgLT => Some SgLT | SgLT, SgLE => Some SgLT | SgLT, SgEQ => Some SgLT
  | SgLE, SgLT => Some SgLT | SgLE, SgLE => Some SgLE | SgLE, SgEQ => Some SgLE
  | _, _ => None
  end.

(* the test on the signs of the leading coefficients; result: the signs used to form |lc1|, |lc2|.
   REPAIRED code (fixes/C16-resolve-fm-sign-test.patch): equal signs are only accepted when one side is an
   equation; the pinned code is in History_C16.v *)
Definition fm_stest (c1 c2 : sgn_cond) (s1 s2 : Z) : option (Z * Z) :=
  if s1 =? s2 then
    match c1, c2 with
    | SgEQ, _ => Some (s1, - s2)
    | _, SgEQ => Some (- s1, s2)
    | _, _ => None
    end
  else Some (s1, s2).

Definition fm_poly (x : var) (pc : mpoly * mpoly) : mpoly := mp_add (mp_mul (fst pc) (mp_var_pow x 1)) (snd pc).

Record fm_out := mkFm { fm_ok : bool; fm_R : mpoly; fm_cond : sgn_cond; fm_assum : list mpoly }.

(* lp_polynomial_constraint_resolve_fm; R0, cR0, A0 are the previous contents of the output operands
   (R and *R_sgn are only overwritten, the assumptions vector is appended to) *)
Definition resolve_fm_with (stest : sgn_cond -> sgn_cond -> Z -> Z -> option (Z * Z))
    (sgnM : mpoly -> Z) (ord : list var) (p1 : mpoly) (c1 : sgn_cond) (p2 : mpoly) (c2 : sgn_cond)
    (R0 : mpoly) (cR0 : sgn_cond) (A0 : list mpoly) : fm_out :=
  match bd_top_var ord p1, bd_top_var ord p2 with
  | Some x, Some y =>
    if negb (x =? y)%N then mkFm false R0 cR0 A0 else
    let '(l1, A1) := fm_linear sgnM x p1 A0 in
    let '(l2, A2) := fm_linear sgnM x p2 A1 in
    match l1, l2 with
    | Some pc1, Some pc2 =>
      let '(pc1, c1) := fm_norm pc1 c1 in
      let '(pc2, c2) := fm_norm pc2 c2 in
      match fm_table c1 c2 with
      | None => mkFm false R0 cR0 A2
      | Some cR =>
        let lc1 := fst pc1 in
        let lc2 := fst pc2 in
        let A3 := push_nc lc1 A2 in
        let A4 := push_nc lc2 A3 in
        match stest c1 c2 (sgn_m sgnM lc1) (sgn_m sgnM lc2) with
        | None => mkFm false R0 cR A4
        | Some (s1, s2) =>
          let L1 := if 0 <? s1 then lc1 else mp_neg lc1 in
          let L2 := if 0 <? s2 then lc2 else mp_neg lc2 in
          mkFm true (mp_add (mp_mul (fm_poly x pc1) L2) (mp_mul (fm_poly x pc2) L1)) cR A4
        end
      end
    | _, _ => mkFm false R0 cR0 A2
    end
  | _, _ => mkFm false R0 cR0 A0     (* different top variables (a constant has none) *)
  end.

Definition resolve_fm := resolve_fm_with fm_stest.
