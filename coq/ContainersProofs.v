(* Proofs about the hash-set and vector models of Containers.v (property C20).
   The heap proofs are in ContainersHeapProofs.v. *)
From Coq Require Import ZArith NArith List Bool Arith Lia Permutation ZifyNat.
From LP Require Import Containers.
Import ListNotations.
Ltac Zify.zify_post_hook ::= Z.div_mod_to_equations.

(* ------------------------------------------------------------------------------------------- *)
(** * Lists, [upd], [get], [occ] *)

Lemma upd_length : forall A (l : list A) i v, length (upd l i v) = length l.
Proof. induction l as [|x l IH]; intros [|i] v; cbn; auto. Qed.

Lemma nth_error_upd_same : forall A (l : list A) i v, i < length l -> nth_error (upd l i v) i = Some v.
Proof. induction l as [|x l IH]; intros [|i] v Hi; cbn in *; try lia; auto. apply IH; lia. Qed.

Lemma nth_error_upd_other : forall A (l : list A) i j v, i <> j -> nth_error (upd l i v) j = nth_error l j.
Proof. induction l as [|x l IH]; intros [|i] [|j] v Hij; cbn; auto; try lia. Qed.

Lemma perm_in_iff : forall A (l l' : list A) x, Permutation l l' -> (In x l <-> In x l').
Proof. intros A l l' x HP. split; apply Permutation_in; [auto | symmetry; auto]. Qed.

Section Elem.
Variable elem : Type.
Variable eqb : elem -> elem -> bool.
Variable h : elem -> N.
Hypothesis eqb_spec : forall a b, eqb a b = true <-> a = b.

Notation table := (table elem).
Notation get := (@get elem).
Notation occ := (@occ elem).
Notation home := (home elem h).
Notation probe := (probe elem eqb).
Notation backshift := (backshift elem h).
Notation remove_at := (remove_at elem h).

Lemma eqb_refl : forall a, eqb a a = true.
Proof. intros a. apply eqb_spec. reflexivity. Qed.
Lemma eqb_false : forall a b, eqb a b = false <-> a <> b.
Proof.
  intros a b. destruct (eqb a b) eqn:E.
  - apply eqb_spec in E. split; congruence.
  - split; auto. intros _ Hab. apply eqb_spec in Hab. congruence.
Qed.

Lemma get_upd_same : forall (t : table) i v, i < length t -> get (upd t i v) i = v.
Proof. unfold Containers.get. induction t as [|x t IH]; intros [|i] v Hi; cbn in *; try lia; auto. apply IH; lia. Qed.

Lemma get_upd_other : forall (t : table) i j v, i <> j -> get (upd t i v) j = get t j.
Proof. unfold Containers.get. induction t as [|x t IH]; intros [|i] [|j] v Hij; cbn; auto; try lia. Qed.

Lemma get_overflow : forall (t : table) i, length t <= i -> get t i = None.
Proof. unfold Containers.get. intros. apply nth_overflow. auto. Qed.

Lemma In_occ : forall (t : table) e, In e (occ t) <-> exists p, p < length t /\ get t p = Some e.
Proof.
  unfold Containers.get. induction t as [|[x|] t IH]; intros e; cbn.
  - split; [tauto | intros (p & Hp & _); lia].
  - split.
    + intros [->|Hin]. { exists 0. split; [lia|auto]. }
      apply IH in Hin. destruct Hin as (p & Hp & Hg). exists (S p). split; [lia|auto].
    + intros ([|p] & Hp & Hg). { left. congruence. } right. apply IH. exists p. split; [lia|auto].
  - split.
    + intros Hin. apply IH in Hin. destruct Hin as (p & Hp & Hg). exists (S p). split; [lia|auto].
    + intros ([|p] & Hp & Hg). { discriminate. } apply IH. exists p. split; [lia|auto].
Qed.

Lemma occ_upd_some : forall (t : table) i e, i < length t -> get t i = None ->
  Permutation (occ (upd t i (Some e))) (e :: occ t).
Proof.
  unfold Containers.get. induction t as [|[x|] t IH]; intros [|i] e Hi Hg; cbn in *; try lia; try discriminate.
  - rewrite (IH i e) by (auto; lia). apply perm_swap.
  - reflexivity.
  - apply IH; auto; lia.
Qed.

Lemma occ_upd_none : forall (t : table) i e, i < length t -> get t i = Some e ->
  Permutation (e :: occ (upd t i None)) (occ t).
Proof.
  unfold Containers.get. induction t as [|[x|] t IH]; intros [|i] e Hi Hg; cbn in *; try lia; try discriminate.
  - injection Hg as ->. reflexivity.
  - rewrite perm_swap. apply perm_skip. apply IH; auto; lia.
  - apply IH; auto; lia.
Qed.

Lemma occ_length_le : forall (t : table), length (occ t) <= length t.
Proof. induction t as [|[x|] t IH]; cbn; lia. Qed.

Lemma empty_slot_exists : forall (t : table), length (occ t) < length t -> exists z, z < length t /\ get t z = None.
Proof.
  unfold Containers.get. induction t as [|[x|] t IH]; cbn; intros Hl; try lia.
  - destruct IH as (z & Hz & Hg); [lia|]. exists (S z). split; [lia|auto].
  - exists 0. split; [lia|auto].
Qed.

Lemma occ_repeat_none : forall k, occ (repeat None k) = [].
Proof. induction k; cbn; auto. Qed.

Lemma get_repeat_none : forall k i, get (repeat None k) i = None.
Proof. unfold Containers.get. induction k; intros [|i]; cbn; auto. Qed.

(* two slots holding the same element contradict NoDup *)
Lemma nodup_pos_unique : forall (t : table) p q e, NoDup (occ t) -> p < length t -> q < length t ->
  get t p = Some e -> get t q = Some e -> p = q.
Proof.
  intros t p q e Hnd Hp Hq Hgp Hgq.
  destruct (Nat.eq_dec p q) as [|Hne]; auto. exfalso.
  pose proof (occ_upd_none t p e Hp Hgp) as HP.
  assert (Hin : In e (occ (upd t p None))).
  { apply In_occ. exists q. rewrite upd_length. split; auto. rewrite get_upd_other; auto. }
  apply (Permutation_NoDup (Permutation_sym HP)) in Hnd. inversion Hnd; subst. contradiction.
Qed.

(* ------------------------------------------------------------------------------------------- *)
(** * Cyclic index arithmetic in a table of n slots *)

Definition nx (n i : nat) : nat := if S i =? n then 0 else S i.
Definition dist (n a p : nat) : nat := if a <=? p then p - a else p + n - a.      (* steps from a to p *)
Definition walk (n a d : nat) : nat := if a + d <? n then a + d else a + d - n.    (* a + d steps *)

Ltac cyc :=
  unfold nx, dist, walk, in_cyc in *;
  repeat match goal with
  | |- context [?a =? ?b] => destruct (Nat.eqb_spec a b)
  | |- context [?a <=? ?b] => destruct (Nat.leb_spec a b)
  | |- context [?a <? ?b] => destruct (Nat.ltb_spec a b)
  | H : context [?a =? ?b] |- _ => destruct (Nat.eqb_spec a b)
  | H : context [?a <=? ?b] |- _ => destruct (Nat.leb_spec a b)
  | H : context [?a <? ?b] |- _ => destruct (Nat.ltb_spec a b)
  end; cbn [andb orb] in *; try lia; try congruence.

Definition pow2 (n : nat) : Prop := exists k, n = 2 ^ k.

Lemma andm_mod : forall n x, pow2 n -> andm n x = N.to_nat (x mod N.of_nat n).
Proof.
  intros n x [k ->]. unfold andm.
  rewrite Nat2N.inj_pow. change (N.of_nat 2) with 2%N.
  rewrite <- N.pred_sub, <- N.ones_equiv, N.land_ones. reflexivity.
Qed.

Lemma pow2_pos : forall n, pow2 n -> 0 < n.
Proof. intros n [k ->]. pose proof (Nat.pow_nonzero 2 k). lia. Qed.

Lemma home_lt : forall n e, pow2 n -> home n e < n.
Proof.
  intros n e Hp. unfold Containers.home. rewrite andm_mod by auto.
  pose proof (pow2_pos n Hp). pose proof (N.mod_lt (h e) (N.of_nat n)). lia.
Qed.

Lemma nxt_nx : forall n i, pow2 n -> i < n -> nxt n i = nx n i.
Proof.
  intros n i Hp Hi. unfold nxt. rewrite andm_mod by auto. unfold nx.
  destruct (Nat.eqb_spec (S i) n) as [E|E].
  - replace (N.of_nat i + 1)%N with (N.of_nat n) by lia. rewrite N.mod_same by lia. reflexivity.
  - rewrite N.mod_small by lia. lia.
Qed.

(* ------------------------------------------------------------------------------------------- *)
(** * Probing *)

(* every stored element is reachable from its home slot without crossing an empty slot *)
Definition path_ok (n : nat) (t : table) : Prop :=
  forall p e q, p < n -> q < n -> get t p = Some e ->
    dist n (home n e) q < dist n (home n e) p -> get t q <> None.

Lemma probe_S : forall f t chk e i, probe (S f) t chk e i =
  match get t i with
  | None => Some (i, false)
  | Some q => if chk && eqb q e then Some (i, true) else probe f t chk e (nxt (length t) i)
  end.
Proof. reflexivity. Qed.

(* the probe walks from i over occupied, non-matching slots and stops at offset d *)
Lemma probe_walk : forall n d fuel (t : table) chk e i,
  length t = n -> pow2 n -> i < n -> d < n -> d < fuel ->
  (forall d', d' < d -> exists q, get t (walk n i d') = Some q /\ chk && eqb q e = false) ->
  (get t (walk n i d) = None /\ probe fuel t chk e i = Some (walk n i d, false)) \/
  (exists q, get t (walk n i d) = Some q /\
     (chk && eqb q e = true -> probe fuel t chk e i = Some (walk n i d, true))).
Proof.
  intros n. induction d as [|d IH]; intros fuel t chk e i Hl Hp Hi Hd Hf Hocc.
  - replace (walk n i 0) with i by cyc.
    destruct fuel as [|f]; [lia|]. rewrite probe_S.
    destruct (get t i) as [q|] eqn:G.
    + right. exists q. split; auto. intros Hc; rewrite Hc; auto.
    + left. auto.
  - destruct fuel as [|f]; [lia|]. rewrite probe_S.
    destruct (Hocc 0) as (q0 & G0 & C0); [lia|].
    replace (walk n i 0) with i in G0 by cyc. rewrite G0, C0, Hl.
    rewrite nxt_nx by auto.
    assert (Hw : forall d', d' <= d -> walk n (nx n i) d' = walk n i (S d')) by (intros; cyc).
    specialize (IH f t chk e (nx n i) Hl Hp).
    rewrite Hw in IH by lia.
    apply IH; try lia. { cyc. }
    intros d' Hd'. rewrite Hw by lia. apply Hocc. lia.
Qed.

(* minimal offset at which a decidable property of slots holds *)
Lemma first_offset : forall (P : nat -> bool) m, (exists d, d < m /\ P d = true) ->
  exists d, d < m /\ P d = true /\ forall d', d' < d -> P d' = false.
Proof.
  intros P. induction m as [|m IH]; intros (d & Hd & HP); [lia|].
  destruct (existsb P (seq 0 m)) eqn:E.
  - apply existsb_exists in E. destruct E as (x & Hx & HPx). apply in_seq in Hx.
    destruct IH as (d0 & H0 & HP0 & Hmin). { exists x. split; [lia|auto]. }
    exists d0. split; [lia|auto].
  - assert (Hall : forall x, x < m -> P x = false).
    { intros x Hx. destruct (P x) eqn:Px; auto.
      assert (existsb P (seq 0 m) = true) by (apply existsb_exists; exists x; split; [apply in_seq; lia|auto]).
      congruence. }
    assert (d = m). { destruct (Nat.eq_dec d m); auto. rewrite Hall in HP by lia. discriminate. }
    subst d. exists m. split; [lia|]. split; auto.
Qed.

Definition is_none (o : option elem) : bool := match o with None => true | Some _ => false end.

Lemma first_empty : forall n (t : table) a, a < n ->
  (exists z, z < n /\ get t z = None) ->
  exists d, d < n /\ get t (walk n a d) = None /\ forall d', d' < d -> get t (walk n a d') <> None.
Proof.
  intros n t a Ha (z & Hz & Gz).
  destruct (first_offset (fun d => is_none (get t (walk n a d))) n) as (d & Hd & HP & Hmin).
  { exists (dist n a z). split; [cyc|].
    replace (walk n a (dist n a z)) with z by cyc. rewrite Gz. reflexivity. }
  exists d. split; auto. split.
  - destruct (get t (walk n a d)); cbn in HP; [discriminate|auto].
  - intros d' Hd'. specialize (Hmin d' Hd'). destruct (get t (walk n a d')); cbn in Hmin; [congruence|discriminate].
Qed.

(* searching for a stored element finds it *)
Lemma probe_found : forall n (t : table) p e,
  length t = n -> pow2 n -> path_ok n t -> NoDup (occ t) -> p < n -> get t p = Some e ->
  probe n t true e (home n e) = Some (p, true).
Proof.
  intros n t p e Hl Hp Hpath Hnd Hlt G.
  assert (Ha : home n e < n) by (apply home_lt; auto).
  remember (home n e) as a eqn:Ea.
  assert (Hw : walk n a (dist n a p) = p) by cyc.
  destruct (probe_walk n (dist n a p) n t true e a Hl Hp Ha) as [[Gn _]|(q & Gq & Hyes)].
  - cyc.
  - cyc.
  - intros d' Hd'.
    assert (Hq : walk n a d' < n) by cyc.
    destruct (get t (walk n a d')) as [q|] eqn:Gq.
    + exists q. split; auto. cbn. apply eqb_false. intros ->.
      assert (walk n a d' = p) by (eapply nodup_pos_unique; eauto; lia). cyc.
    + exfalso. eapply (Hpath p e (walk n a d')); eauto. rewrite <- Ea. cyc.
  - rewrite Hw in Gn. congruence.
  - rewrite Hw in *. assert (q = e) by congruence. subst q. apply Hyes. cbn. apply eqb_refl.
Qed.

(* probing (with or without the equality check) for an element that is not stored stops at the
   first empty slot after the home slot *)
Lemma probe_absent : forall n (t : table) chk e,
  length t = n -> pow2 n -> (forall p, p < n -> get t p <> Some e) ->
  (exists z, z < n /\ get t z = None) ->
  exists z, z < n /\ get t z = None /\
    probe n t chk e (home n e) = Some (z, false) /\
    forall q, q < n -> dist n (home n e) q < dist n (home n e) z -> get t q <> None.
Proof.
  intros n t chk e Hl Hp Habs Hz.
  assert (Ha : home n e < n) by (apply home_lt; auto).
  remember (home n e) as a eqn:Ea.
  destruct (first_empty n t a Ha Hz) as (d & Hd & Gd & Hmin).
  exists (walk n a d). split; [cyc|]. split; auto.
  destruct (probe_walk n d n t chk e a Hl Hp Ha Hd Hd) as [[_ Hpr]|(q & Gq & _)].
  - intros d' Hd'. specialize (Hmin d' Hd').
    destruct (get t (walk n a d')) as [q|] eqn:Gq; [|congruence].
    exists q. split; auto. destruct chk; cbn; auto. apply eqb_false. intros ->.
    apply (Habs (walk n a d')); auto. cyc.
  - split; auto. intros q Hq Hdq.
    replace q with (walk n a (dist n a q)) by cyc. apply Hmin. cyc.
  - congruence.
Qed.

(* storing a new element in the slot where its probe stopped keeps the table well formed *)
Lemma place_ok : forall n (t : table) e z,
  length t = n -> path_ok n t -> z < n -> get t z = None ->
  (forall q, q < n -> dist n (home n e) q < dist n (home n e) z -> get t q <> None) ->
  path_ok n (upd t z (Some e)).
Proof.
  intros n t e z Hl Hpath Hz Gz Hbefore. unfold path_ok.
  intros p x q Hlp Hlq Gp Hd.
  destruct (Nat.eq_dec q z) as [->|Hqz].
  { rewrite get_upd_same by lia. discriminate. }
  rewrite get_upd_other by auto.
  destruct (Nat.eq_dec p z) as [->|Hpz].
  - rewrite get_upd_same in Gp by lia. injection Gp as <-. apply Hbefore; auto.
  - rewrite get_upd_other in Gp by auto. exact (Hpath p x q Hlp Hlq Gp Hd).
Qed.

(* ------------------------------------------------------------------------------------------- *)
(** * Back-shift deletion *)

Lemma dist_nx : forall n a j, a < n -> j < n -> nx n j <> a -> dist n a (nx n j) = S (dist n a j).
Proof. intros; cyc. Qed.
Lemma dist_nx_ne : forall n a j, a < n -> j < n -> S (dist n a j) < n -> nx n j <> a.
Proof. intros; cyc. Qed.
Lemma nx_lt : forall n j, j < n -> nx n j < n.
Proof. intros; cyc. Qed.
Lemma dist_inj : forall n a p q, a < n -> p < n -> q < n -> dist n a p = dist n a q -> p = q.
Proof. intros; cyc. Qed.
Lemma dist_lt : forall n a p, a < n -> p < n -> dist n a p < n.
Proof. intros; cyc. Qed.
Lemma dist_self : forall n a, dist n a a = 0.
Proof. intros; cyc. Qed.
Lemma dist_pos : forall n a p, a < n -> p < n -> p <> a -> 0 < dist n a p.
Proof. intros; cyc. Qed.
Lemma in_cyc_spec : forall n i j k, i < n -> j < n -> k < n -> i <> j ->
  (in_cyc i j k = true <-> 0 < dist n i k <= dist n i j).
Proof. intros n i j k Hi Hj Hk Hne. split; intros H; cyc. Qed.
(* q between i and p, i between a and p  ==>  q between a and p *)
Lemma between_trans : forall n a i p q, a < n -> i < n -> p < n -> q < n ->
  dist n a i < dist n a p -> dist n i q < dist n i p -> dist n a q < dist n a p.
Proof. intros; cyc. Qed.
(* k in (i, j]  ==>  i is not on the way from k to j *)
Lemma cyc_in_not_path : forall n i j k, i < n -> j < n -> k < n ->
  0 < dist n i k <= dist n i j -> ~ dist n k i < dist n k j.
Proof. intros; cyc. Qed.
Lemma cyc_out_path : forall n i j k, i < n -> j < n -> k < n -> i <> j ->
  ~ (0 < dist n i k <= dist n i j) -> dist n k i < dist n k j.
Proof. intros; cyc. Qed.
Lemma wrapped_low : forall n i0 i j, i0 < n -> i < n -> j < n -> i < i0 -> dist n i0 i <= dist n i0 j -> j < i0.
Proof. intros; cyc. Qed.

Lemma backshift_S : forall f (t : table) i j, backshift (S f) t i j =
  match get t (nxt (length t) j) with
  | None => Some t
  | Some q =>
    if in_cyc i (nxt (length t) j) (home (length t) q) then backshift f t i (nxt (length t) j)
    else backshift f (upd (upd t i (Some q)) (nxt (length t) j) None) (nxt (length t) j) (nxt (length t) j)
  end.
Proof. reflexivity. Qed.

(* Loop invariant of the back-shift.  i0 = the slot that was emptied first, z = an empty slot of the
   original table (the scan stops there at the latest), t0 = the table just after emptying i0;
   i = current hole, j = last slot scanned.  Positions are measured from i0. *)
Lemma backshift_ok : forall fuel n i0 z (t0 t : table) i j,
  pow2 n -> i0 < n -> z < n -> length t = n -> i < n -> j < n ->
  dist n i0 i <= dist n i0 j -> dist n i0 j < dist n i0 z ->
  get t z = None -> get t i = None ->
  (* probe paths are intact except possibly at the hole *)
  (forall p x q, p < n -> q < n -> get t p = Some x ->
     dist n (home n x) q < dist n (home n x) p -> q <> i -> get t q <> None) ->
  (* an element whose path crosses the hole has not been scanned yet *)
  (forall p x, p < n -> get t p = Some x ->
     dist n (home n x) i < dist n (home n x) p -> dist n i j < dist n i p) ->
  Permutation (occ t) (occ t0) ->
  (forall p y, p < i0 -> p < n -> get t p = Some y -> exists q, q < i0 /\ get t0 q = Some y) ->
  dist n i0 z - dist n i0 j <= fuel ->
  exists t', backshift fuel t i j = Some t' /\ length t' = n /\ path_ok n t' /\
    Permutation (occ t') (occ t0) /\
    (forall p y, p < i0 -> p < n -> get t' p = Some y -> exists q, q < i0 /\ get t0 q = Some y).
Proof.
  induction fuel as [|f IH]; intros n i0 z t0 t i j Hp Hi0 Hz Hl Hi Hj Hc1 Hc2 Gz Gi Hpath Huns Hperm Hlow Hf.
  { lia. }
  assert (Hn : 0 < n) by (apply pow2_pos; auto).
  rewrite backshift_S, Hl, nxt_nx by auto.
  remember (nx n j) as j' eqn:Ej'.
  assert (Hj' : j' < n) by (subst j'; apply nx_lt; auto).
  assert (Hzn : dist n i0 z < n) by (apply dist_lt; auto).
  assert (Hj'0 : j' <> i0) by (subst j'; apply dist_nx_ne; auto; lia).
  assert (HDj' : dist n i0 j' = S (dist n i0 j)) by (subst j'; apply dist_nx; auto).
  destruct (get t j') as [qe|] eqn:Gj'.
  - (* slot j' is occupied *)
    assert (Hj'z : j' <> z) by congruence.
    assert (Hj'i : j' <> i) by congruence.
    assert (HDlt : dist n i0 j' < dist n i0 z).
    { assert (dist n i0 j' <> dist n i0 z) by (intro E; apply Hj'z; apply (dist_inj n i0 j' z); auto). lia. }
    assert (Hij' : dist n i j' = S (dist n i j)) by (subst j'; apply dist_nx; auto; congruence).
    remember (home n qe) as k eqn:Ek.
    assert (Hk : k < n) by (subst k; apply home_lt; auto).
    destruct (in_cyc i j' k) eqn:Ecyc.
    + (* it stays: continue scanning *)
      apply in_cyc_spec with (n := n) in Ecyc; auto.
      apply (IH n i0 z t0); auto; try lia.
      intros p x Hpn Gp Hdx. specialize (Huns p x Hpn Gp Hdx).
      destruct (Nat.eq_dec p j') as [->|Hpj].
      * exfalso. assert (x = qe) by congruence. subst x. rewrite <- Ek in Hdx.
        exact (cyc_in_not_path n i j' k Hi Hj' Hk Ecyc Hdx).
      * assert (dist n i p <> dist n i j') by (intro E; apply Hpj; apply (dist_inj n i p j'); auto). lia.
    + (* it moves into the hole; the new hole is j' *)
      assert (Hout : ~ (0 < dist n i k <= dist n i j')).
      { intro H. apply (in_cyc_spec n i j' k) in H; auto. congruence. }
      assert (Hki : dist n k i < dist n k j') by (apply cyc_out_path; auto).
      assert (Hl1 : length (upd t i (Some qe)) = n) by (rewrite upd_length; auto).
      assert (Hl2 : length (upd (upd t i (Some qe)) j' None) = n) by (rewrite upd_length; auto).
      assert (Gnew : forall p, p <> i -> p <> j' -> get (upd (upd t i (Some qe)) j' None) p = get t p).
      { intros p H1 H2. rewrite get_upd_other, get_upd_other; auto. }
      assert (Gnewi : get (upd (upd t i (Some qe)) j' None) i = Some qe).
      { rewrite get_upd_other by auto. apply get_upd_same. lia. }
      assert (Gnewj : get (upd (upd t i (Some qe)) j' None) j' = None).
      { apply get_upd_same. lia. }
      apply (IH n i0 z t0); auto; try lia.
      * rewrite Gnew; auto. intro E. rewrite E in *. lia.
      * (* paths, new hole j' *)
        intros p x q Hpn Hqn Gp Hd Hqj.
        destruct (Nat.eq_dec q i) as [->|Hqi]. { rewrite Gnewi. discriminate. }
        rewrite Gnew by auto.
        destruct (Nat.eq_dec p i) as [->|Hpi].
        -- rewrite Gnewi in Gp. injection Gp as <-. rewrite <- Ek in Hd.
           apply (Hpath j' qe q); auto. rewrite <- Ek. lia.
        -- destruct (Nat.eq_dec p j') as [->|Hpj]. { rewrite Gnewj in Gp. discriminate. }
           rewrite Gnew in Gp by auto. exact (Hpath p x q Hpn Hqn Gp Hd Hqi).
      * (* nothing scanned after the new hole *)
        intros p x Hpn Gp _. rewrite dist_self. apply dist_pos; auto. intro E. subst p. congruence.
      * (* contents *)
        rewrite <- Hperm.
        pose proof (occ_upd_some t i qe ltac:(lia) Gi) as P1.
        pose proof (occ_upd_none (upd t i (Some qe)) j' qe ltac:(lia)) as P2.
        rewrite get_upd_other in P2 by auto. specialize (P2 Gj').
        rewrite P1 in P2. apply Permutation_cons_inv in P2. exact P2.
      * (* slots below i0 *)
        intros p y Hpi0 Hpn Gp.
        destruct (Nat.eq_dec p i) as [->|Hpi].
        -- rewrite Gnewi in Gp. injection Gp as <-.
           apply (Hlow j' qe); auto. eapply wrapped_low; eauto. lia.
        -- destruct (Nat.eq_dec p j') as [->|Hpj]. { rewrite Gnewj in Gp. discriminate. }
           rewrite Gnew in Gp by auto. exact (Hlow p y Hpi0 Hpn Gp).
  - (* slot j' is empty: done *)
    exists t. split; auto. split; auto. split; [|split; auto].
    intros p x q Hpn Hqn Gp Hd.
    destruct (Nat.eq_dec q i) as [->|Hqi]; [|exact (Hpath p x q Hpn Hqn Gp Hd Hqi)].
    exfalso.
    specialize (Huns p x Hpn Gp Hd).
    assert (Hj'i : j' <> i).
    { intro E. subst i. assert (dist n i0 (nx n j) = dist n i0 j \/ dist n i0 (nx n j) < dist n i0 j) by lia. lia. }
    assert (Hij' : dist n i j' = S (dist n i j)) by (subst j'; apply dist_nx; auto; congruence).
    assert (Hpj' : p <> j') by congruence.
    assert (dist n i p <> dist n i j') by (intro E; apply Hpj'; apply (dist_inj n i p j'); auto).
    apply (Hpath p x j'); auto.
    apply (between_trans n (home n x) i p j'); auto; try lia. apply home_lt; auto.
Qed.

Lemma remove_at_ok : forall n (t : table) i0 e,
  pow2 n -> length t = n -> path_ok n t -> i0 < n -> get t i0 = Some e -> length (occ t) < n ->
  exists t', remove_at t i0 = Some t' /\ length t' = n /\ path_ok n t' /\
    Permutation (e :: occ t') (occ t) /\
    (forall p y, p < i0 -> get t' p = Some y -> exists q, q < i0 /\ get t q = Some y).
Proof.
  intros n t i0 e Hp Hl Hpath Hi0 Gi0 Hocc.
  destruct (empty_slot_exists t) as (z & Hz & Gz); [lia|]. rewrite Hl in Hz.
  assert (Hzi : z <> i0) by congruence.
  unfold Containers.remove_at.
  assert (Hl0 : length (upd t i0 None) = n) by (rewrite upd_length; auto).
  destruct (backshift_ok (length t) n i0 z (upd t i0 None) (upd t i0 None) i0 i0) as (t' & Hb & Hl' & Hp' & Hperm & Hlow); auto.
  - rewrite dist_self. apply dist_pos; auto.
  - rewrite get_upd_other; auto.
  - apply get_upd_same. lia.
  - intros p x q Hpn Hqn Gp Hd Hq. rewrite get_upd_other by auto.
    destruct (Nat.eq_dec p i0) as [->|Hpi]. { rewrite get_upd_same in Gp by lia. discriminate. }
    rewrite get_upd_other in Gp by auto. exact (Hpath p x q Hpn Hqn Gp Hd).
  - intros p x Hpn Gp _. rewrite dist_self. apply dist_pos; auto. intro E. subst p.
    rewrite get_upd_same in Gp by lia. discriminate.
  - intros p y Hpi Hpn Gp. exists p. split; auto.
  - rewrite dist_self. pose proof (dist_lt n i0 z Hi0 Hz). lia.
  - exists t'. split; auto. split; auto. split; auto. split.
    + rewrite Hperm. apply occ_upd_none; auto. lia.
    + intros p y Hpi Gp. destruct (Hlow p y Hpi ltac:(lia) Gp) as (q & Hq & Gq).
      exists q. split; auto. rewrite get_upd_other in Gq by lia. auto.
Qed.

(* ------------------------------------------------------------------------------------------- *)
(** * The hash set: representation invariant and abstraction *)

Notation hset := (hset elem).
Notation hs_new := (hs_new elem).
Notation hs_contains := (hs_contains elem eqb h).
Notation hs_insert := (hs_insert elem eqb h).
Notation hs_remove := (hs_remove elem eqb h).
Notation hs_extend := (hs_extend elem eqb h).
Notation rehash := (rehash elem eqb h).
Notation hs_insert_list := (hs_insert_list elem eqb h).
Notation inter_loop := (inter_loop elem eqb h).
Notation hs_intersect := (hs_intersect elem eqb h).

(* the stored elements: of an open set all occupied slots, of a closed set the first `size` slots *)
Definition abs (s : hset) : list elem :=
  if closed _ s then occ (firstn (hsize _ s) (slots _ s)) else occ (slots _ s).

Definition hs_inv (s : hset) : Prop :=
  closed _ s = false /\
  pow2 (length (slots _ s)) /\ 4 <= length (slots _ s) /\
  path_ok (length (slots _ s)) (slots _ s) /\
  NoDup (occ (slots _ s)) /\
  hsize _ s = length (occ (slots _ s)) /\
  hsize _ s <= thresh _ s /\
  thresh _ s = threshold_of (length (slots _ s)).

Lemma elem_eq_dec : forall a b : elem, {a = b} + {a <> b}.
Proof. intros a b. destruct (eqb a b) eqn:E; [left; apply eqb_spec; auto | right; apply eqb_false; auto]. Qed.

Lemma threshold_lt : forall n, 4 <= n -> threshold_of n + 1 < n.
Proof. intros n Hn. unfold threshold_of. lia. Qed.

Lemma hs_inv_load : forall s, hs_inv s -> length (occ (slots _ s)) < length (slots _ s).
Proof.
  intros s (_ & _ & H4 & _ & _ & Hsz & Hth & Hthr). pose proof (threshold_lt _ H4). lia.
Qed.

Lemma hs_new_inv : hs_inv hs_new.
Proof.
  unfold hs_inv, Containers.hs_new. cbn [closed slots hsize thresh].
  rewrite repeat_length, occ_repeat_none.
  split; auto. split. { exists 6. reflexivity. } split. { unfold default_size. lia. }
  split. { intros p e q _ _ G. rewrite get_repeat_none in G. discriminate. }
  split. { constructor. } split; auto. split; [lia|auto].
Qed.

Lemma hs_contains_ok : forall s e, hs_inv s ->
  exists b, hs_contains s e = Some b /\ (b = true <-> In e (abs s)).
Proof.
  intros s e Hinv. pose proof (hs_inv_load s Hinv) as Hload.
  destruct Hinv as (Hc & Hp & H4 & Hpath & Hnd & Hsz & Hth & Hthr).
  unfold Containers.hs_contains, abs. rewrite Hc.
  destruct (in_dec elem_eq_dec e (occ (slots _ s))) as [Hin|Hnin].
  - pose proof Hin as Hin'. apply In_occ in Hin'. destruct Hin' as (p & Hlt & G).
    rewrite (probe_found _ _ p e eq_refl Hp Hpath Hnd Hlt G). exists true. tauto.
  - destruct (probe_absent (length (slots _ s)) (slots _ s) true e eq_refl Hp) as (z & Hz & Gz & Hpr & _).
    + intros p Hlt G. apply Hnin. apply In_occ. eauto.
    + apply empty_slot_exists. auto.
    + rewrite Hpr. exists false. split; auto. split; [discriminate|tauto].
Qed.

Lemma rehash_ok : forall (old new : table) n2,
  length new = n2 -> pow2 n2 -> path_ok n2 new -> NoDup (occ old ++ occ new) ->
  length (occ old) + length (occ new) < n2 ->
  exists t, rehash old new = Some t /\ length t = n2 /\ path_ok n2 t /\
            Permutation (occ t) (occ old ++ occ new).
Proof.
  induction old as [|[p|] r IH]; intros new n2 Hl Hp Hpath Hnd Hlen; cbn [Containers.rehash Containers.occ] in *.
  - exists new. auto.
  - cbn in Hnd, Hlen. inversion Hnd as [|? ? Hnotin Hnd']; subst.
    destruct (probe_absent (length new) new false p eq_refl Hp) as (z & Hz & Gz & Hpr & Hbefore).
    + intros q Hq G. apply Hnotin. apply in_or_app. right. apply In_occ. eauto.
    + apply empty_slot_exists. lia.
    + rewrite Hpr.
      pose proof (occ_upd_some new z p Hz Gz) as Hperm.
      destruct (IH (upd new z (Some p)) (length new)) as (t & Hr & Hlt & Hpt & Hpermt).
      * apply upd_length.
      * auto.
      * apply place_ok; auto.
      * eapply Permutation_NoDup; [|exact Hnd].
        rewrite Hperm. apply Permutation_middle.
      * rewrite (Permutation_length Hperm). cbn. lia.
      * exists t. split; auto. split; auto. split; auto.
        rewrite Hpermt, Hperm. symmetry. apply Permutation_middle.
  - apply IH; auto.
Qed.

Lemma threshold_double : forall n, 4 <= n -> threshold_of n + 1 <= threshold_of (2 * n).
Proof. intros n Hn. unfold threshold_of. lia. Qed.

Lemma hs_insert_ok : forall s e, hs_inv s ->
  exists s' b, hs_insert s e = Some (s', b) /\ hs_inv s' /\
    (b = true <-> ~ In e (abs s)) /\
    Permutation (abs s') (if b then e :: abs s else abs s).
Proof.
  intros s e Hinv. pose proof (hs_inv_load s Hinv) as Hload.
  pose proof Hinv as (Hc & Hp & H4 & Hpath & Hnd & Hsz & Hth & Hthr).
  unfold Containers.hs_insert. rewrite Hc.
  destruct (Nat.leb_spec (length (slots _ s)) (hsize _ s)) as [Hbad|_]; [lia|].
  destruct (in_dec elem_eq_dec e (occ (slots _ s))) as [Hin|Hnin].
  - pose proof Hin as Hin'. apply In_occ in Hin'. destruct Hin' as (p & Hlt & G).
    rewrite (probe_found _ _ p e eq_refl Hp Hpath Hnd Hlt G).
    exists s, false. split; auto. split; auto. unfold abs. rewrite Hc. split; [|reflexivity].
    split; [discriminate|tauto].
  - destruct (probe_absent (length (slots _ s)) (slots _ s) true e eq_refl Hp) as (z & Hz & Gz & Hpr & Hbefore).
    { intros p Hlt G. apply Hnin. apply In_occ. eauto. }
    { apply empty_slot_exists. auto. }
    rewrite Hpr. cbn [thresh hsize].
    pose proof (occ_upd_some (slots _ s) z e Hz Gz) as Hperm.
    assert (Hpath1 : path_ok (length (slots _ s)) (upd (slots _ s) z (Some e))) by (apply place_ok; auto).
    assert (Hnd1 : NoDup (occ (upd (slots _ s) z (Some e)))).
    { eapply Permutation_NoDup; [symmetry; exact Hperm|]. constructor; auto. }
    destruct (Nat.ltb_spec (thresh _ s) (S (hsize _ s))) as [Hgrow|Hno].
    + (* grow *)
      unfold Containers.hs_extend. cbn [slots hsize closed]. rewrite upd_length.
      destruct (rehash_ok (upd (slots _ s) z (Some e)) (repeat None (2 * length (slots _ s))) (2 * length (slots _ s)))
        as (t & Hr & Hlt & Hpt & Hpermt).
      * apply repeat_length.
      * destruct Hp as [k Hk]. exists (S k). rewrite Hk. cbn. lia.
      * intros p x q _ _ G. rewrite get_repeat_none in G. discriminate.
      * rewrite occ_repeat_none, app_nil_r. auto.
      * rewrite occ_repeat_none, (Permutation_length Hperm). cbn. lia.
      * rewrite Hr. rewrite occ_repeat_none, app_nil_r in Hpermt.
        eexists _, true. split; [reflexivity|]. split.
        -- unfold hs_inv. cbn [closed slots hsize thresh]. rewrite Hlt.
           split; auto. split. { destruct Hp as [k Hk]. exists (S k). rewrite Hk. cbn. lia. }
           split; [lia|]. split; auto. split. { eapply Permutation_NoDup; [symmetry; exact Hpermt|auto]. }
           split. { rewrite (Permutation_length Hpermt), (Permutation_length Hperm). cbn. lia. }
           split; auto. pose proof (threshold_double _ H4). lia.
        -- unfold abs. cbn [closed slots]. rewrite Hc. split; [tauto|].
           rewrite Hpermt. exact Hperm.
    + eexists _, true. split; [reflexivity|]. split.
      * unfold hs_inv. cbn [closed slots hsize thresh]. rewrite upd_length.
        split; auto. split; auto. split; auto. split; auto. split; auto.
        split. { rewrite (Permutation_length Hperm). cbn. lia. } split; [lia|auto].
      * unfold abs. cbn [closed slots]. rewrite Hc. split; [tauto|exact Hperm].
Qed.

Lemma hs_remove_ok : forall s e, hs_inv s ->
  exists s' b, hs_remove s e = Some (s', b) /\ hs_inv s' /\
    (b = true <-> In e (abs s)) /\
    (if b then Permutation (e :: abs s') (abs s) else s' = s).
Proof.
  intros s e Hinv. pose proof (hs_inv_load s Hinv) as Hload.
  pose proof Hinv as (Hc & Hp & H4 & Hpath & Hnd & Hsz & Hth & Hthr).
  unfold Containers.hs_remove. rewrite Hc.
  destruct (in_dec elem_eq_dec e (occ (slots _ s))) as [Hin|Hnin].
  - pose proof Hin as Hin'. apply In_occ in Hin'. destruct Hin' as (p & Hlt & G).
    rewrite (probe_found _ _ p e eq_refl Hp Hpath Hnd Hlt G).
    destruct (remove_at_ok _ (slots _ s) p e Hp eq_refl Hpath Hlt G Hload) as (t' & Hr & Hl' & Hp' & Hperm & _).
    rewrite Hr. eexists _, true. split; [reflexivity|]. split.
    + unfold hs_inv. cbn [closed slots hsize thresh]. rewrite Hl'.
      split; auto. split; auto. split; auto. split; auto.
      split. { apply (Permutation_NoDup (Permutation_sym Hperm)) in Hnd. inversion Hnd; auto. }
      split. { pose proof (Permutation_length Hperm) as E. cbn in E. lia. } split; [lia|auto].
    + unfold abs. cbn [closed slots]. rewrite Hc. split; [tauto|exact Hperm].
  - destruct (probe_absent (length (slots _ s)) (slots _ s) true e eq_refl Hp) as (z & Hz & Gz & Hpr & _).
    { intros p Hlt G. apply Hnin. apply In_occ. eauto. }
    { apply empty_slot_exists. auto. }
    rewrite Hpr. exists s, false. split; auto. split; auto. unfold abs. rewrite Hc.
    split; [|reflexivity]. split; [discriminate|tauto].
Qed.

Lemma hs_insert_list_ok : forall l s c, hs_inv s ->
  exists s' k, hs_insert_list s l c = Some (s', k) /\ hs_inv s' /\
    (forall x, In x (abs s') <-> In x l \/ In x (abs s)) /\
    k + length (abs s) = c + length (abs s').
Proof.
  induction l as [|e r IH]; intros s c Hinv; cbn [Containers.hs_insert_list].
  - exists s, c. split; auto. split; auto. split; [|lia]. intros x. cbn. tauto.
  - destruct (hs_insert_ok s e Hinv) as (s1 & b & Hi & Hinv1 & Hb & Hperm). rewrite Hi.
    destruct (IH s1 (if b then S c else c) Hinv1) as (s' & k & Hr & Hinv' & Hin & Hk).
    exists s', k. split; auto. split; auto. split.
    + intros x. rewrite Hin. destruct b.
      * rewrite (perm_in_iff _ _ _ x Hperm). cbn. intuition.
      * rewrite (perm_in_iff _ _ _ x Hperm). cbn. split; [intuition|].
        intros [[->|H]|H]; auto. right. destruct (in_dec elem_eq_dec x (abs s)); auto.
        exfalso. assert (false = true) by (apply Hb; auto). discriminate.
    + pose proof (Permutation_length Hperm) as E. destruct b; cbn in E; lia.
Qed.

(* ------------------------------------------------------------------------------------------- *)
(** * Intersection *)

Lemma inter_loop_S : forall f (t : table) sz o i, inter_loop (S f) t sz o i =
  if length t <=? i then Some (t, sz) else
  match get t i with
  | None => inter_loop f t sz o (S i)
  | Some q =>
    match hs_contains o q with
    | None => None
    | Some true => inter_loop f t sz o (S i)
    | Some false =>
      match remove_at t i with
      | None => None
      | Some t' => inter_loop f t' (pred sz) o i
      end
    end
  end.
Proof. reflexivity. Qed.

Lemma inter_loop_ok : forall fuel n (T0 t : table) sz (o : hset) i,
  pow2 n -> hs_inv o -> length t = n -> path_ok n t -> NoDup (occ t) -> sz = length (occ t) -> sz < n ->
  i <= n ->
  (forall x, In x (occ t) -> In x (occ T0)) ->
  (forall x, In x (occ T0) -> In x (abs o) -> In x (occ t)) ->
  (forall p y, p < i -> p < n -> get t p = Some y -> In y (abs o)) ->
  (n - i) + sz < fuel ->
  exists t' sz', inter_loop fuel t sz o i = Some (t', sz') /\ length t' = n /\ path_ok n t' /\
    NoDup (occ t') /\ sz' = length (occ t') /\ sz' <= sz /\
    (forall x, In x (occ t') <-> In x (occ T0) /\ In x (abs o)).
Proof.
  induction fuel as [|f IH]; intros n T0 t sz o i Hp Ho Hl Hpath Hnd Hsz Hload Hi Hsub Hsup Hdone Hf; [lia|].
  rewrite inter_loop_S, Hl.
  destruct (Nat.leb_spec n i) as [Hge|Hlt].
  - exists t, sz. split; auto. split; auto. split; auto. split; auto. split; auto. split; [lia|].
    intros x. split.
    + intros Hin. split; auto. apply In_occ in Hin. destruct Hin as (p & Hpl & G).
      apply (Hdone p x); auto; lia.
    + intros [H1 H2]. auto.
  - destruct (get t i) as [q|] eqn:G.
    + destruct (hs_contains_ok o q Ho) as (b & Hc & Hb). rewrite Hc. destruct b.
      * apply (IH n T0); auto; try lia.
        intros p y Hps Hpn Gp. destruct (Nat.eq_dec p i) as [->|Hne].
        -- assert (y = q) by congruence. subst y. apply Hb. auto.
        -- apply (Hdone p y); auto; lia.
      * destruct (remove_at_ok n t i q Hp Hl Hpath Hlt G ltac:(lia)) as (t' & Hr & Hl' & Hp' & Hperm & Hlow).
        rewrite Hr.
        assert (Hnd' : NoDup (q :: occ t')) by (eapply Permutation_NoDup; [symmetry; exact Hperm|auto]).
        pose proof (Permutation_length Hperm) as Hlen. cbn in Hlen.
        destruct (IH n T0 t' (pred sz) o i) as (t2 & sz2 & Hr2 & Hl2 & Hp2 & Hnd2 & Hsz2 & Hle2 & Hin2); auto; try lia.
        -- inversion Hnd'; auto.
        -- intros x Hin. apply Hsub. apply (perm_in_iff _ _ _ x Hperm). right. auto.
        -- intros x H1 H2. specialize (Hsup x H1 H2). apply (perm_in_iff _ _ _ x Hperm) in Hsup.
           destruct Hsup as [<-|]; auto. exfalso. assert (false = true) by (apply Hb; auto). discriminate.
        -- intros p y Hpi Hpn Gp. destruct (Hlow p y Hpi Gp) as (q' & Hq' & Gq').
           apply (Hdone q' y); auto; lia.
        -- exists t2, sz2. split; auto. split; auto. split; auto. split; auto. split; auto. split; [lia|auto].
    + apply (IH n T0); auto; try lia.
      intros p y Hps Hpn Gp. destruct (Nat.eq_dec p i) as [->|Hne]; [congruence|].
      apply (Hdone p y); auto; lia.
Qed.

Lemma hs_intersect_ok : forall s o, hs_inv s -> hs_inv o ->
  exists s', hs_intersect s o = Some s' /\ hs_inv s' /\
    (forall x, In x (abs s') <-> In x (abs s) /\ In x (abs o)).
Proof.
  intros s o Hinv Ho. pose proof (hs_inv_load s Hinv) as Hload.
  pose proof Hinv as (Hc & Hp & H4 & Hpath & Hnd & Hsz & Hth & Hthr).
  unfold Containers.hs_intersect. rewrite Hc.
  destruct (inter_loop_ok (2 * length (slots _ s)) (length (slots _ s)) (slots _ s) (slots _ s) (hsize _ s) o 0)
    as (t' & sz' & Hr & Hl' & Hp' & Hnd' & Hsz' & Hle & Hin); auto; try lia.
  rewrite Hr. eexists. split; [reflexivity|]. split.
  - unfold hs_inv. cbn [closed slots hsize thresh]. rewrite Hl'.
    split; auto. split; auto. split; auto. split; auto. split; auto. split; auto. split; [lia|auto].
  - unfold abs at 1 2. cbn [closed slots]. rewrite Hc. exact Hin.
Qed.

(* ------------------------------------------------------------------------------------------- *)
(** * close and at *)

Notation close_loop := (close_loop elem).
Notation hs_close := (hs_close elem).
Notation hs_at := (hs_at elem).

Lemma close_loop_spec : forall (rest t : table) i, i + length (occ rest) <= length t ->
  length (close_loop t rest i) = length t /\
  (forall k, k < i -> get (close_loop t rest i) k = get t k) /\
  (forall k, k < length (occ rest) -> get (close_loop t rest i) (i + k) = nth_error (occ rest) k).
Proof.
  induction rest as [|[p|] r IH]; intros t i Hlen; cbn [Containers.close_loop Containers.occ] in *.
  - split; auto. split; auto. intros k Hk. cbn in Hk. lia.
  - cbn [length] in Hlen.
    destruct (IH (upd t i (Some p)) (S i)) as (H1 & H2 & H3). { rewrite upd_length. lia. }
    rewrite upd_length in H1. split; auto. split.
    + intros k Hk. rewrite H2 by lia. apply get_upd_other. lia.
    + intros [|k] Hk.
      * rewrite Nat.add_0_r, H2 by lia. cbn. apply get_upd_same. lia.
      * replace (i + S k) with (S i + k) by lia. cbn in Hk. rewrite H3 by lia. reflexivity.
  - apply IH. auto.
Qed.

Lemma firstn_map_some : forall (l : list elem) (T : table),
  length l <= length T -> (forall k, k < length l -> get T k = nth_error l k) ->
  firstn (length l) T = map Some l.
Proof.
  unfold Containers.get. induction l as [|x l IH]; intros T Hlen Hget; cbn; auto.
  destruct T as [|y T]; cbn in Hlen; [lia|].
  pose proof (Hget 0 ltac:(cbn; lia)) as H0. cbn in H0. subst y. f_equal.
  apply IH; [lia|]. intros k Hk. apply (Hget (S k)). cbn. lia.
Qed.

Lemma occ_map_some : forall l : list elem, occ (map Some l) = l.
Proof. induction l; cbn; congruence. Qed.

Lemma get_firstn : forall (T : table) m k, k < m -> get (firstn m T) k = get T k.
Proof.
  unfold Containers.get. induction T as [|y T IH]; intros [|m] [|k] Hk; cbn; auto; try lia. apply IH. lia.
Qed.

(* representation invariant of a closed set *)
Definition hs_closed_ok (s : hset) : Prop :=
  closed _ s = true /\ NoDup (abs s) /\ hsize _ s = length (abs s) /\
  (forall k, k < hsize _ s -> get (slots _ s) k = nth_error (abs s) k).

Lemma hs_close_ok : forall s, hs_inv s -> hs_closed_ok (hs_close s) /\ abs (hs_close s) = abs s.
Proof.
  intros s Hinv. pose proof (hs_inv_load s Hinv) as Hload.
  destruct Hinv as (Hc & Hp & H4 & Hpath & Hnd & Hsz & Hth & Hthr).
  unfold Containers.hs_close. rewrite Hc.
  destruct (close_loop_spec (slots _ s) (slots _ s) 0 ltac:(lia)) as (H1 & _ & H3).
  assert (Habs : abs (mkHset _ (close_loop (slots _ s) (slots _ s) 0) (hsize _ s) (thresh _ s) true) = occ (slots _ s)).
  { unfold abs. cbn [closed hsize slots]. rewrite Hsz.
    rewrite firstn_map_some; [apply occ_map_some|lia|]. intros k Hk. apply (H3 k Hk). }
  split.
  - unfold hs_closed_ok. rewrite Habs. cbn [closed hsize slots].
    split; auto. split; auto. split; auto. intros k Hk. apply (H3 k). lia.
  - rewrite Habs. unfold abs. rewrite Hc. reflexivity.
Qed.

Lemma hs_at_ok : forall s n, hs_closed_ok s -> hs_at s n = Some (nth_error (abs s) n).
Proof.
  intros s n (Hc & Hnd & Hsz & Hget). unfold Containers.hs_at. rewrite Hc. f_equal.
  destruct (Nat.leb_spec (hsize _ s) n) as [Hge|Hlt].
  - symmetry. apply nth_error_None. lia.
  - apply Hget. auto.
Qed.

(* ------------------------------------------------------------------------------------------- *)
(** * Refinement of the mathematical finite set, over all operation sequences *)

Variable zero : elem.
Notation hs_step := (hs_step elem eqb h zero).
Notation hs_run := (hs_run elem eqb h zero).
Notation hs_of_list := (hs_of_list elem eqb h).

Definition set_eq (A B : list elem) : Prop := forall x, In x A <-> In x B.

(* One step of the specification.  S, S' are the set before/after as duplicate-free lists; of an
   open set only the elements matter (set_eq), a closed set is the enumeration fixed by `close`. *)
Definition hs_spec_step (S : list elem) (c : bool) (o : hs_op elem) (r : hs_res elem)
                        (S' : list elem) (c' : bool) : Prop :=
  match o with
  | OInsert _ e => c = false /\ c' = false /\
      exists b, r = RBool _ b /\ (b = true <-> ~ In e S) /\ set_eq S' (e :: S)
  | OInsertMove _ e => c = false /\ c' = false /\
      exists b, r = RMoved _ b (if b then zero else e) /\ (b = true <-> ~ In e S) /\ set_eq S' (e :: S)
  | OInsertVec _ l => c = false /\ c' = false /\
      exists k, r = RNat _ k /\ set_eq S' (l ++ S) /\ k + length S = length S'
  | ORemove _ e => c = false /\ c' = false /\
      exists b, r = RBool _ b /\ (b = true <-> In e S) /\ (forall x, In x S' <-> In x S /\ x <> e)
  | OContains _ e => c = false /\ c' = false /\ S' = S /\ exists b, r = RBool _ b /\ (b = true <-> In e S)
  | OSize _ => c' = c /\ S' = S /\ r = RNat _ (length S)
  | OIntersect _ l => c = false /\ c' = false /\ r = RUnit _ /\ (forall x, In x S' <-> In x S /\ In x l)
  | OClear _ => c' = false /\ S' = [] /\ r = RUnit _
  | OClose _ => c' = true /\ r = RUnit _ /\ (if c then S' = S else set_eq S' S)
  | OAt _ n => c = true /\ c' = true /\ S' = S /\ r = RElem _ (nth_error S n)
  end.

(* the operations the C code forbids by assert in the given open/closed state *)
Definition hs_illegal (c : bool) (o : hs_op elem) : bool :=
  match o with
  | OAt _ _ => negb c
  | OSize _ | OClear _ | OClose _ => false
  | _ => c
  end.

Definition hs_ok (s : hset) : Prop := hs_inv s \/ hs_closed_ok s.

Lemma hs_ok_facts : forall s, hs_ok s -> NoDup (abs s) /\ hsize _ s = length (abs s).
Proof.
  intros s [Hinv|(Hc & Hnd & Hsz & _)]; auto.
  destruct Hinv as (Hc & _ & _ & _ & Hnd & Hsz & _). unfold abs. rewrite Hc. auto.
Qed.

Lemma hs_ok_closed : forall s, hs_ok s -> (closed _ s = false -> hs_inv s) /\ (closed _ s = true -> hs_closed_ok s).
Proof.
  intros s [Hinv|Hcl]; split; intros Hc; auto.
  - destruct Hinv as (Hc' & _). congruence.
  - destruct Hcl as (Hc' & _). congruence.
Qed.

Lemma abs_new : abs hs_new = [].
Proof. unfold abs. cbn [Containers.hs_new closed slots]. apply occ_repeat_none. Qed.

Lemma hs_of_list_ok : forall l, exists o, hs_of_list l = Some o /\ hs_inv o /\ (forall x, In x (abs o) <-> In x l).
Proof.
  intros l. unfold Containers.hs_of_list.
  destruct (hs_insert_list_ok l hs_new 0 hs_new_inv) as (o & k & Hr & Hinv & Hin & _).
  rewrite Hr. exists o. split; auto. split; auto. intros x. rewrite Hin, abs_new. cbn. tauto.
Qed.

Theorem hs_step_refines : forall s o s' r, hs_ok s -> hs_step s o = Some (s', r) ->
  hs_ok s' /\ hs_spec_step (abs s) (closed _ s) o r (abs s') (closed _ s').
Proof.
  intros s o s' r Hok Hstep.
  destruct (hs_ok_closed s Hok) as [Hopen Hclosed]. destruct (hs_ok_facts s Hok) as [Hnd Hsz].
  destruct o as [e|e|l|e|e| |l| | |n]; cbn [Containers.hs_step] in Hstep.
  - (* insert *)
    destruct (closed _ s) eqn:Hc. { unfold Containers.hs_insert in Hstep. rewrite Hc in Hstep. discriminate. }
    destruct (hs_insert_ok s e (Hopen eq_refl)) as (s1 & b & Hi & Hinv1 & Hb & Hperm).
    rewrite Hi in Hstep. injection Hstep as <- <-. split; [left; auto|].
    cbn. destruct Hinv1 as (Hc1 & _). rewrite Hc1. split; auto. split; auto. exists b. split; auto. split; auto.
    intros x. rewrite (perm_in_iff _ _ _ x Hperm). destruct b; cbn; [tauto|].
    split; auto. intros [<-|]; auto. destruct (in_dec elem_eq_dec e (abs s)); auto.
    exfalso. assert (false = true) by (apply Hb; auto). discriminate.
  - (* insert_move *)
    unfold Containers.hs_insert_move in Hstep.
    destruct (closed _ s) eqn:Hc. { unfold Containers.hs_insert in Hstep. rewrite Hc in Hstep. discriminate. }
    destruct (hs_insert_ok s e (Hopen eq_refl)) as (s1 & b & Hi & Hinv1 & Hb & Hperm).
    rewrite Hi in Hstep. injection Hstep as <- <-. split; [left; auto|].
    cbn. destruct Hinv1 as (Hc1 & _). rewrite Hc1. split; auto. split; auto. exists b. split; auto. split; auto.
    intros x. rewrite (perm_in_iff _ _ _ x Hperm). destruct b; cbn; [tauto|].
    split; auto. intros [<-|]; auto. destruct (in_dec elem_eq_dec e (abs s)); auto.
    exfalso. assert (false = true) by (apply Hb; auto). discriminate.
  - (* insert_vector *)
    destruct (closed _ s) eqn:Hc; [discriminate|].
    destruct (hs_insert_list_ok l s 0 (Hopen eq_refl)) as (s1 & k & Hi & Hinv1 & Hin & Hk).
    rewrite Hi in Hstep. injection Hstep as <- <-. split; [left; auto|].
    cbn. destruct Hinv1 as (Hc1 & _). rewrite Hc1. split; auto. split; auto. exists k. split; auto. split; [|lia].
    intros x. rewrite Hin, in_app_iff. tauto.
  - (* remove *)
    destruct (closed _ s) eqn:Hc. { unfold Containers.hs_remove in Hstep. rewrite Hc in Hstep. discriminate. }
    destruct (hs_remove_ok s e (Hopen eq_refl)) as (s1 & b & Hi & Hinv1 & Hb & Hperm).
    rewrite Hi in Hstep. injection Hstep as <- <-. split; [left; auto|].
    cbn. pose proof Hinv1 as (Hc1 & _). rewrite Hc1. split; auto. split; auto. exists b. split; auto. split; auto.
    intros x. destruct b.
    + pose proof (Permutation_NoDup (Permutation_sym Hperm) Hnd) as Hnd1. inversion Hnd1; subst.
      rewrite <- (perm_in_iff _ _ _ x Hperm). cbn. split.
      * intros Hin. split; auto. intros ->. contradiction.
      * intros [[<-|Hin] Hne]; auto. congruence.
    + subst s1. split; [|tauto]. intros Hin. split; auto. intros ->.
      assert (false = true) by (apply Hb; auto). discriminate.
  - (* contains *)
    destruct (closed _ s) eqn:Hc. { unfold Containers.hs_contains in Hstep. rewrite Hc in Hstep. discriminate. }
    destruct (hs_contains_ok s e (Hopen eq_refl)) as (b & Hi & Hb).
    rewrite Hi in Hstep. injection Hstep as <- <-. split; auto.
    cbn. rewrite Hc. split; auto. split; auto. split; auto. exists b. auto.
  - (* size *)
    injection Hstep as <- <-. split; auto. cbn. unfold Containers.hs_size. rewrite Hsz. auto.
  - (* intersect *)
    destruct (hs_of_list_ok l) as (o & Ho & Hoinv & Hoin). rewrite Ho in Hstep.
    destruct (closed _ s) eqn:Hc. { unfold Containers.hs_intersect in Hstep. rewrite Hc in Hstep. discriminate. }
    destruct (hs_intersect_ok s o (Hopen eq_refl) Hoinv) as (s1 & Hi & Hinv1 & Hin).
    rewrite Hi in Hstep. injection Hstep as <- <-. split; [left; auto|].
    cbn. destruct Hinv1 as (Hc1 & _). rewrite Hc1. split; auto. split; auto. split; auto.
    intros x. rewrite Hin, Hoin. tauto.
  - (* clear *)
    injection Hstep as <- <-. split; [left; apply hs_new_inv|].
    unfold hs_spec_step, Containers.hs_clear. rewrite abs_new. auto.
  - (* close *)
    injection Hstep as <- <-.
    destruct (closed _ s) eqn:Hc.
    + unfold Containers.hs_close. rewrite Hc. split; auto. cbn. rewrite Hc. auto.
    + destruct (hs_close_ok s (Hopen eq_refl)) as [Hcl Habs]. split; [right; auto|].
      cbn. destruct Hcl as (Hc1 & _). rewrite Hc1. split; auto. split; auto. rewrite Habs. intros x. tauto.
  - (* at *)
    destruct (closed _ s) eqn:Hc; [|unfold Containers.hs_at in Hstep; rewrite Hc in Hstep; discriminate].
    rewrite (hs_at_ok s n (Hclosed eq_refl)) in Hstep. injection Hstep as <- <-. split; auto.
    cbn. rewrite Hc. auto.
Qed.

(* the model stops (None) only where an assert of the C code fires: never out of fuel, never on
   an out-of-bounds access *)
Theorem hs_step_progress : forall s o, hs_ok s -> hs_step s o = None -> hs_illegal (closed _ s) o = true.
Proof.
  intros s o Hok Hstep.
  destruct (hs_ok_closed s Hok) as [Hopen Hclosed].
  destruct (closed _ s) eqn:Hc.
  - destruct o; cbn; auto; cbn in Hstep; try discriminate.
    rewrite (hs_at_ok s n (Hclosed eq_refl)) in Hstep. discriminate.
  - specialize (Hopen eq_refl).
    destruct o as [e|e|l|e|e| |l| | |n]; cbn [Containers.hs_step] in Hstep; try discriminate; [exfalso..|reflexivity].
    + destruct (hs_insert_ok s e Hopen) as (s1 & b & Hi & _). rewrite Hi in Hstep. discriminate.
    + unfold Containers.hs_insert_move in Hstep.
      destruct (hs_insert_ok s e Hopen) as (s1 & b & Hi & _). rewrite Hi in Hstep. discriminate.
    + rewrite Hc in Hstep. destruct (hs_insert_list_ok l s 0 Hopen) as (s1 & k & Hi & _). rewrite Hi in Hstep. discriminate.
    + destruct (hs_remove_ok s e Hopen) as (s1 & b & Hi & _). rewrite Hi in Hstep. discriminate.
    + destruct (hs_contains_ok s e Hopen) as (b & Hi & _). rewrite Hi in Hstep. discriminate.
    + destruct (hs_of_list_ok l) as (o & Ho & Hoinv & _). rewrite Ho in Hstep.
      destruct (hs_intersect_ok s o Hopen Hoinv) as (s1 & Hi & _). rewrite Hi in Hstep. discriminate.
Qed.

Fixpoint hs_spec_run (S : list elem) (c : bool) (ops : list (hs_op elem)) (rs : list (hs_res elem))
                     (S' : list elem) (c' : bool) : Prop :=
  match ops, rs with
  | [], [] => S' = S /\ c' = c
  | o :: ops', r :: rs' =>
      exists S1 c1, hs_spec_step S c o r S1 c1 /\ NoDup S1 /\ hs_spec_run S1 c1 ops' rs' S' c'
  | _, _ => False
  end.

Theorem hs_run_refines : forall ops s s' rs, hs_ok s -> hs_run s ops = Some (s', rs) ->
  hs_ok s' /\ hsize _ s' = length (abs s') /\ NoDup (abs s') /\
  hs_spec_run (abs s) (closed _ s) ops rs (abs s') (closed _ s').
Proof.
  induction ops as [|o ops IH]; intros s s' rs Hok Hrun; cbn [Containers.hs_run] in Hrun.
  - injection Hrun as <- <-. destruct (hs_ok_facts s Hok). cbn. auto.
  - destruct (hs_step s o) as [[s1 r]|] eqn:Hstep; [|discriminate].
    destruct (hs_run s1 ops) as [[s2 rs2]|] eqn:Hrun2; [|discriminate].
    injection Hrun as <- <-.
    destruct (hs_step_refines s o s1 r Hok Hstep) as [Hok1 Hspec].
    destruct (IH s1 s2 rs2 Hok1 Hrun2) as (Hok2 & Hsz2 & Hnd2 & Hrunspec).
    split; auto. split; auto. split; auto.
    cbn. exists (abs s1), (closed _ s1). split; auto. split; auto. apply (hs_ok_facts s1 Hok1).
Qed.

Theorem hs_run_progress : forall ops s, hs_ok s -> hs_run s ops = None ->
  exists pre o post s1 rs, ops = pre ++ o :: post /\ hs_run s pre = Some (s1, rs) /\
                           hs_illegal (closed _ s1) o = true.
Proof.
  induction ops as [|o ops IH]; intros s Hok Hrun; cbn [Containers.hs_run] in Hrun; [discriminate|].
  destruct (hs_step s o) as [[s1 r]|] eqn:Hstep.
  - destruct (hs_step_refines s o s1 r Hok Hstep) as [Hok1 _].
    destruct (hs_run s1 ops) as [[s2 rs2]|] eqn:Hrun2; [discriminate|].
    destruct (IH s1 Hok1 Hrun2) as (pre & o' & post & s3 & rs3 & -> & Hpre & Hill).
    exists (o :: pre), o', post, s3, (r :: rs3). split; auto. split; auto.
    cbn [Containers.hs_run]. rewrite Hstep, Hpre. reflexivity.
  - exists [], o, ops, s, []. split; auto. split; auto. apply hs_step_progress; auto.
Qed.

Lemma hs_close_at : forall s k, hs_inv s -> hs_at (hs_close s) k = Some (nth_error (abs s) k).
Proof.
  intros s k Hinv. destruct (hs_close_ok s Hinv) as [Hcl Habs].
  rewrite (hs_at_ok _ k Hcl), Habs. reflexivity.
Qed.

Lemma hs_insert_move_ok : forall s e s' b src, hs_insert_move elem eqb h zero s e = Some (s', b, src) ->
  hs_insert s e = Some (s', b) /\ (b = true -> src = zero) /\ (b = false -> src = e).
Proof.
  intros s e s' b src. unfold Containers.hs_insert_move.
  destruct (hs_insert s e) as [[s1 b1]|]; [|discriminate].
  intros H. injection H as <- <- <-. split; auto. split; intros ->; reflexivity.
Qed.

Lemma hs_new_facts : hs_inv hs_new /\ abs hs_new = [].
Proof. split; [apply hs_new_inv | apply abs_new]. Qed.

Theorem hs_run_from_new : forall ops s' rs, hs_run hs_new ops = Some (s', rs) ->
  hs_ok s' /\ hsize _ s' = length (abs s') /\ NoDup (abs s') /\
  hs_spec_run [] false ops rs (abs s') (closed _ s').
Proof.
  intros ops s' rs Hrun.
  destruct (hs_run_refines ops hs_new s' rs (or_introl hs_new_inv) Hrun) as (H1 & H2 & H3 & H4).
  rewrite abs_new in H4. auto.
Qed.

End Elem.

(* ------------------------------------------------------------------------------------------- *)
(** * Vector *)

Section Vec.
Variable elem : Type.
Variable zero : elem.

Lemma vec_at_push : forall (v : list elem) p i,
  vec_at _ (vec_push _ v p) i = if i <? length v then vec_at _ v i else if i =? length v then Some p else None.
Proof.
  intros v p i. unfold vec_at, vec_push.
  destruct (Nat.ltb_spec i (length v)).
  - apply nth_error_app1. auto.
  - rewrite nth_error_app2 by auto. destruct (Nat.eqb_spec i (length v)) as [->|Hne].
    + rewrite Nat.sub_diag. reflexivity.
    + destruct (i - length v) as [|k] eqn:E; [lia|]. cbn. destruct k; reflexivity.
Qed.

(* at i = i-th pushed element, whatever mixture of push_back / push_back_move built the vector *)
Lemma vec_run_at : forall (ops : list (vec_op elem)) i,
  (forall o, In o ops -> o <> VReset _) ->
  vec_at _ (fold_left (vec_step _ zero) ops []) i =
  nth_error (map (fun o => match o with VPush _ p => p | VPushMove _ p => p | VReset _ => zero end) ops) i.
Proof.
  intros ops i Hnr.
  assert (G : forall (v : list elem), fold_left (vec_step _ zero) ops v =
            v ++ map (fun o => match o with VPush _ p => p | VPushMove _ p => p | VReset _ => zero end) ops).
  { induction ops as [|o ops IH]; intros v; cbn [fold_left map].
    - rewrite app_nil_r. reflexivity.
    - rewrite IH by (intros o' Ho'; apply Hnr; right; auto).
      destruct o as [p|p|]; [| |exfalso; apply (Hnr (VReset _)); [left; reflexivity|reflexivity]];
        unfold vec_step, vec_push, vec_push_move; cbn [fst]; rewrite <- app_assoc; reflexivity. }
  rewrite G. reflexivity.
Qed.

Lemma vec_run_size : forall (ops : list (vec_op elem)),
  (forall o, In o ops -> o <> VReset _) ->
  vec_size _ (fold_left (vec_step _ zero) ops []) = length ops.
Proof.
  intros ops Hnr. unfold vec_size.
  assert (G : forall (v : list elem), length (fold_left (vec_step _ zero) ops v) = length v + length ops).
  { induction ops as [|o ops IH]; intros v; cbn [fold_left length]; [lia|].
    rewrite IH by (intros o' Ho'; apply Hnr; right; auto).
    destruct o as [p|p|]; [| |exfalso; apply (Hnr (VReset _)); [left; reflexivity|reflexivity]];
      unfold vec_step, vec_push, vec_push_move; cbn [fst]; rewrite app_length; cbn; lia. }
  rewrite G. cbn. lia.
Qed.

End Vec.
