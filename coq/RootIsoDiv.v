(* Property C06: the polynomial of every interval item of the sorted answer divides f (in R[x]; the comparison may
   replace a polynomial by a gcd, refinement keeps it). *)
From Coq Require Import ZArith.
From LP Require Import Scalar UPoly RootIso RefAlg Gcd AlgNum RootIsoSort.
Set Warnings "-notation-overridden,-ambiguous-paths".
From mathcomp Require Import all_ssreflect all_algebra all_real_closed.
From mathcomp Require Import ssrZ zify.
Set Warnings "notation-overridden,ambiguous-paths".
From LP Require Import UPolySpec ScalarProofs GcdSpec RootIsoProofs SturmItv RefAlgValid RootIsoFull RootIsoBisect.
Import GRing.Theory Num.Theory Num.Def Order.TTheory.
Set Implicit Arguments.
Unset Strict Implicit.
Unset Printing Implicit Defensive.
Local Open Scope ring_scope.

Section PolyInv.
Variable Pp : seq Z -> Prop.
Hypothesis Pgcd : forall p q, Pp p -> Pp (an_ref_gcd p q).
Hypothesis Pgcd' : forall p q, Pp q -> Pp (an_ref_gcd p q).

Definition an_pok (x : anum) : Prop := match an_f x with None => Logic.True | Some p => Pp p end.

Fixpoint an_poks (l : seq anum) : Prop := match l with [::] => Logic.True | x :: l' => an_pok x /\ an_poks l' end.

Lemma rwp_pok x q : an_pok x -> an_pok (an_refine_with_point x q).
Proof.
rewrite /an_refine_with_point /an_pok; case E: (an_f x) => [p|] /= H; last by rewrite E.
by case: ifP => _; rewrite ?E //; case: ifP => _ //; case: ifP => _ /=; rewrite ?E.
Qed.

Lemma rdir_pok x : an_pok x -> an_pok (an_refine_dir x).1.
Proof.
rewrite /an_refine_dir /an_pok; case E: (an_f x) => [p|] /= H; last by rewrite E.
by case: ifP => _ //; case: ifP => _ /=; rewrite ?E.
Qed.

Lemma bisect_pok fuel x y x' y' : an_bisect_apart fuel x y = Some (x', y') ->
  an_pok x -> an_pok y -> an_pok x' /\ an_pok y'.
Proof.
elim: fuel x y => [|f IH] x y //=.
case Ex: (an_refine_dir x) => [x1 d1]; case Ey: (an_refine_dir y) => [y1 d2] E px py.
have px1 : an_pok x1 by have := rdir_pok px; rewrite Ex.
have py1 : an_pok y1 by have := rdir_pok py; rewrite Ey.
by move: E; case: ifP => _; [move=> /IH; apply | move=> [<- <-]].
Qed.

Lemma cmp_pok fuel x y c x' y' : an_cmp fuel an_ref_gcd x y = Some (c, x', y') ->
  an_pok x -> an_pok y -> an_pok x' /\ an_pok y'.
Proof.
rewrite /an_cmp => E px py; move: E.
case E1: (if negb _ then _ else _) => [x1 y1].
have [px1 py1] : an_pok x1 /\ an_pok y1.
  move: E1; case: ifP => _; last by move=> [<- <-].
  by case: ifP => _ [<- <-]; split; do ?apply: rwp_pok.
case Est: (match an_f x1 with Some _ => _ | None => _ end) => [[[eq x2] y2]|] //.
have [px2 py2] : an_pok x2 /\ an_pok y2.
  move: Est; case Efx: (an_f x1) => [p|]; case Efy: (an_f y1) => [q|]; try by move=> [_ <- <-].
  case: ifP => _; last by move=> [_ <- <-].
  case: ifP => _.
    move=> [_ <- <-]; rewrite /an_pok /=; split; [apply: Pgcd | apply: Pgcd'].
      by move: px1; rewrite /an_pok Efx.
    by move: py1; rewrite /an_pok Efy.
  by case Eb: an_bisect_apart => [[x2' y2']|] // [_ <- <-]; exact: bisect_pok Eb px1 py1.
by case: eq {Est}; [|rewrite /=; do ?case: ifP => _] => -[_ <- <-].
Qed.

Lemma insert_pok fuel x l s : an_insert fuel x l = Some s -> an_pok x -> an_poks l -> an_poks s.
Proof.
elim: l x s => [|y l IH] x s /=; first by move=> [<-].
case E: an_cmp => [[[c x1] y1]|] // H px [py pl].
have [px1 py1] := cmp_pok E px py.
move: H; case: ifP => _; first by move=> [<-].
by case E2: an_insert => [s'|] // [<-]; split=> //; exact: IH E2 px1 pl.
Qed.

Lemma isort_pok fuel l s : an_isort fuel l = Some s -> an_poks l -> an_poks s.
Proof.
elim: l s => [|x l IH] s /=; first by move=> [<-].
by case E: an_isort => [s0|] // H [px pl]; apply: insert_pok H px _; exact: IH E pl.
Qed.

End PolyInv.

Section DivF.
Variable R : rcfType.
Local Notation PR := (PR R).

(* the polynomial of an interval item divides f in R[x] *)
Definition an_divides (f : seq Z) (x : anum) : Prop := an_pok (fun p => PR p %| PR f) x.

Lemma gcd_dvd_l (f p q : seq Z) : PR p %| PR f -> PR (an_ref_gcd p q) %| PR f.
Proof.
apply: dvdp_trans; apply: rdvd_PR; apply: rdvd_trans (ppp_dvd _) _.
by have [] := pgcd_dvd p q.
Qed.
Lemma gcd_dvd_r (f p q : seq Z) : PR q %| PR f -> PR (an_ref_gcd p q) %| PR f.
Proof.
apply: dvdp_trans; apply: rdvd_PR; apply: rdvd_trans (ppp_dvd _) _.
by have [] := pgcd_dvd p q.
Qed.

Lemma qdivides_dvdp (p g : seq Z) : ri_qdivides p g -> PR p %| PR g.
Proof.
case/(@qdividesP R) => _ [e [q [e0 E]]].
by rewrite -(dvdpZr _ _ e0) E dvdp_mull.
Qed.

Lemma items_divide (f : seq Z) (gk : seq Z * nat) (l : seq ri_anum) : rdvd (Poly gk.1) (Poly f) ->
  chk_factor gk l -> an_poks (fun p => PR p %| PR f) (map anum_of_ri l).
Proof.
move=> dv /andP[chk _]; move: chk; rewrite /check_isolation !forallbE => /andP[/andP[_ ok] _].
elim: l ok => [|x l IH] //= /andP[o /IH os]; split=> //.
case: x o => [q|p a b sa sb] //= /andP[/qdivides_dvdp h _].
by rewrite /an_pok /=; apply: dvdp_trans h _; exact: rdvd_PR.
Qed.

Lemma an_poks_cat (Pp : seq Z -> Prop) l1 l2 : an_poks Pp l1 -> an_poks Pp l2 -> an_poks Pp (l1 ++ l2).
Proof. by elim: l1 => [|x l1 IH] //= [px /IH H] /H. Qed.

Theorem lp_roots_isolate_sorted_divides fuel (f : seq Z) (s : seq anum) : pis_zero f = false ->
  lp_roots_isolate_sorted fuel f = Some s -> an_poks (fun p => PR p %| PR f) s.
Proof.
move=> fz; rewrite /lp_roots_isolate_sorted; case E: lp_roots_isolate => [l|] // srt.
have f0 : PR f != 0 by rewrite PR_eq0 fz.
apply: (isort_pok (@gcd_dvd_l f) (@gcd_dvd_r f) srt).
have [ls -> a2] := @lp_roots_isolate_ok R _ _ _ fz E.
have -> : List.map anum_of_ri (flatten ls) = map anum_of_ri (flatten ls).
  by elim: (flatten ls) => //= ? ? ->.
have [fs1 _ _] := lp_sqfree_factors_spec f0.
have sub : forall gk, gk \in (if Nat.leb (length (pnorm f)) 1 then [::] else lp_sqfree_factors f) ->
    rdvd (Poly gk.1) (Poly f).
  by case: Nat.leb => // gk /fs1 [].
elim: (if Nat.leb _ _ then _ else _) ls a2 sub => [|gk fs IH] [|l0 ls] //= /andP[c /IH cs] sub.
rewrite map_cat; apply: an_poks_cat.
  by apply: items_divide c; apply: sub; rewrite inE eqxx.
by apply: cs => t tin; apply: sub; rewrite inE tin orbT.
Qed.

End DivF.
