(* Property C01, specification side: the reference model MPoly.v IS the mathematical object.
   A canonical sparse polynomial p denotes, for EVERY commutative ring R and valuation rho : var -> R,
   the element  mp_den R rho p = \sum_(m,c) c%:Z * \prod_(x,e) rho x ^ e  of R.  Quantifying over all R, rho is
   the universal property of Z[x1..xn]; for Z_m take the rings with m = 0.
   Proved here: every operation of MPoly.v computes the ring operation under mp_den, keeps the canonical
   form mp_wf, and the canonical form is unique (mp_wf p, mp_wf q, equal denotation everywhere -> p = q). *)
From Coq Require Import ZArith NArith List.
From LP Require Import Scalar ScalarProofs MPoly UPoly.
Set Warnings "-notation-overridden,-ambiguous-paths".
From mathcomp Require Import all_ssreflect all_algebra.
From mathcomp Require Import ssrZ zify ring.
Set Warnings "notation-overridden,ambiguous-paths".
Import GRing.Theory.
Set Implicit Arguments.
Unset Strict Implicit.
Unset Printing Implicit Defensive.
Local Open Scope ring_scope.
Delimit Scope Z_scope with SZ.

(* ------------------------------------------------------------------ Z -> R *)
Section ZR.
Variable R : comRingType.
Definition zr (c : Z) : R := (int_of_Z c)%:~R.
Lemma zr0 : zr 0%SZ = 0. Proof. by []. Qed.
Lemma zr1 : zr 1%SZ = 1. Proof. by []. Qed.
Lemma zrD a b : zr (a + b)%SZ = zr a + zr b.
Proof. by rewrite /zr -rmorphD /=; congr (_%:~R); rewrite -[RHS]rmorphD. Qed.
Lemma zrN a : zr (- a)%SZ = - zr a.
Proof. by rewrite /zr -rmorphN /=; congr (_%:~R); rewrite -[RHS]rmorphN. Qed.
Lemma zrM a b : zr (a * b)%SZ = zr a * zr b.
Proof. by rewrite /zr -rmorphM /=; congr (_%:~R); rewrite -[RHS]rmorphM. Qed.
Lemma zrB a b : zr (a - b)%SZ = zr a - zr b.
Proof. by rewrite -Z.add_opp_r zrD zrN. Qed.
Lemma zr_nat (n : nat) : zr (Z.of_nat n) = n%:R.
Proof.
elim: n => [|n IH] //; rewrite Nat2Z.inj_succ -Z.add_1_r zrD IH zr1 -[in RHS]addn1 natrD //.
Qed.
End ZR.

(* ------------------------------------------------------------------ denotation *)
Section Den.
Variable R : comRingType.
Variable rho : var -> R.

Definition mono_den (m : mono) : R :=
  foldr (fun ve acc => rho ve.1 ^+ N.to_nat ve.2 * acc) 1 m.
Definition term_den (t : term) : R := zr R t.2 * mono_den t.1.
Definition mp_den (p : mpoly) : R := foldr (fun t acc => term_den t + acc) 0 p.

Lemma mono_den_cons x e m : mono_den ((x, e) :: m) = rho x ^+ N.to_nat e * mono_den m.
Proof. by []. Qed.
Lemma mp_den_cons t p : mp_den (t :: p) = term_den t + mp_den p.
Proof. by []. Qed.
Lemma mp_den_cat p q : mp_den (p ++ q) = mp_den p + mp_den q.
Proof. by elim: p => [|t p IH] /=; rewrite ?add0r // IH addrA. Qed.

Lemma mono_den_mul a b : mono_den (mono_mul a b) = mono_den a * mono_den b.
Proof.
elim: a b => [|[x e] a IHa] b /=; first by rewrite mul1r.
elim: b => [|[y f] b IHb] /=; first by rewrite mulr1.
case: N.compare_spec => [->|_|_].
- rewrite mono_den_cons IHa N2Nat.inj_add exprD /=. ring.
- rewrite mono_den_cons IHa /=. ring.
- rewrite mono_den_cons IHb /=. ring.
Qed.

Lemma mono_den_var x e : mono_den (mono_var x e) = rho x ^+ N.to_nat e.
Proof.
rewrite /mono_var; case: N.eqb_spec => [->|_] /=; first by rewrite expr0.
by rewrite mulr1.
Qed.

Lemma Zeqb_eq0 (c : Z) : (c =? 0)%SZ = (c == 0).
Proof. by apply/idP/eqP => /Z.eqb_eq. Qed.

Lemma mono_cmp_eq a b : mono_cmp a b = Eq -> a = b.
Proof.
elim: a b => [|[x e] a IH] [|[y f] b] //=.
case: (N.compare_spec x y) => // ->; case: (N.compare_spec e f) => // -> /IH -> //.
Qed.

Lemma mp_den_add_term t p : mp_den (mp_add_term t p) = term_den t + mp_den p.
Proof.
case: t => m c; elim: p => [|[m' c'] p IH] /=.
  by case: Z.eqb_spec => [->|_] //=; rewrite /term_den /= zr0 mul0r addr0.
case: Z.eqb_spec => [->|_]; first by rewrite /= /term_den /= zr0 mul0r add0r.
case E: (mono_cmp m m') => /=.
- move/mono_cmp_eq: E => <-.
  case: Z.eqb_spec => [E0|_] /=.
    by rewrite addrA /term_den /= -mulrDl -zrD E0 zr0 mul0r add0r.
  by rewrite addrA /term_den /= -mulrDl -zrD.
- by rewrite IH addrCA.
- by [].
Qed.

Lemma mp_den_add p q : mp_den (mp_add p q) = mp_den p + mp_den q.
Proof.
rewrite /mp_add; elim: p => [|t p IH] /=; first by rewrite add0r.
by rewrite mp_den_add_term IH addrA.
Qed.

Lemma mp_den_neg p : mp_den (mp_neg p) = - mp_den p.
Proof.
rewrite /mp_neg; elim: p => [|[m c] p IH] /=; first by rewrite oppr0.
by rewrite IH /term_den /= zrN mulNr opprD.
Qed.

Lemma mp_den_sub p q : mp_den (mp_sub p q) = mp_den p - mp_den q.
Proof. by rewrite /mp_sub mp_den_add mp_den_neg. Qed.

Lemma mp_den_scale c p : mp_den (mp_scale c p) = zr R c * mp_den p.
Proof.
rewrite /mp_scale; case: Z.eqb_spec => [->|_]; first by rewrite zr0 mul0r.
elim: p => [|[m d] p IH] /=; first by rewrite mulr0.
by rewrite IH /term_den /= zrM mulrDr mulrA.
Qed.

Lemma mp_den_mul_term t p : mp_den (mp_mul_term t p) = term_den t * mp_den p.
Proof.
rewrite /mp_mul_term; elim: p => [|u p IH] /=; first by rewrite mulr0.
rewrite mp_den_add_term IH /term_den /= zrM mono_den_mul. ring.
Qed.

Lemma mp_den_mul p q : mp_den (mp_mul p q) = mp_den p * mp_den q.
Proof.
rewrite /mp_mul; elim: p => [|t p IH] /=; first by rewrite mul0r.
by rewrite mp_den_add mp_den_mul_term IH mulrDl.
Qed.

Lemma mp_den_const c : mp_den (mp_const c) = zr R c.
Proof.
rewrite /mp_const; case: Z.eqb_spec => [->|_] //=.
by rewrite /term_den /= mulr1 addr0.
Qed.

Lemma mp_den_pow p n : mp_den (mp_pow p n) = mp_den p ^+ n.
Proof.
elim: n => [|n IH]; first by rewrite [mp_pow p 0]/= mp_den_const zr1 expr0.
by rewrite [mp_pow p n.+1]/= mp_den_mul IH exprS.
Qed.

Lemma mp_den_var_pow x e : mp_den (mp_var_pow x e) = rho x ^+ N.to_nat e.
Proof. by rewrite /mp_var_pow /= /term_den /= mono_den_var zr1 mul1r addr0. Qed.

Lemma mp_den_of_terms l : mp_den (mp_of_terms l) = mp_den l.
Proof.
rewrite /mp_of_terms; elim: l => [|t l IH] //=.
by rewrite mp_den_add_term IH.
Qed.

(* reduction of the coefficients by any map that is the identity in R (ring_norm in a ring with m = 0) *)
Lemma mp_den_map_coeff (f : Z -> Z) p :
  (forall c, zr R (f c) = zr R c) -> mp_den (mp_map_coeff f p) = mp_den p.
Proof.
move=> Hf; rewrite /mp_map_coeff mp_den_of_terms.
by elim: p => [|[m c] p IH] //=; rewrite IH /term_den /= Hf.
Qed.

End Den.

(* ------------------------------------------------------------------ Z_m *)
Section Zm.
Variable R : comRingType.

Lemma zr_mod (M a b : Z) : zr R M = 0 -> (a mod M = b mod M)%SZ -> zr R a = zr R b.
Proof.
move=> HM E.
by rewrite (Z_div_mod_eq_full a M) (Z_div_mod_eq_full b M) E !zrD !zrM HM !mul0r.
Qed.

Lemma zr_ring_norm (M c : Z) : (0 < M)%SZ -> zr R M = 0 -> zr R (ring_norm (Some M) c) = zr R c.
Proof. by move=> HM H0; apply: (zr_mod H0); apply: ring_norm_cong. Qed.

(* Z_m[x1..xn]: reducing the coefficients into the symmetric range does not change the element denoted in
   any ring of characteristic dividing M *)
Lemma mp_den_reduce (rho : var -> R) (M : Z) p : (0 < M)%SZ -> zr R M = 0 ->
  mp_den rho (mp_map_coeff (ring_norm (Some M)) p) = mp_den rho p.
Proof. by move=> HM H0; apply: mp_den_map_coeff => c; apply: zr_ring_norm. Qed.

End Zm.

(* ------------------------------------------------------------------ canonical form is preserved *)
Definition hd_gt (m : mono) (p : mpoly) : bool :=
  match p with [::] => true | (m', _) :: _ => if mono_cmp m m' is Gt then true else false end.

Lemma mp_wf_cons m c p : mp_wf ((m, c) :: p) = [&& mono_wf m, c != 0, hd_gt m p & mp_wf p].
Proof.
by rewrite /= Zeqb_eq0 -!andbA; congr (_ && (_ && _)).
Qed.

Lemma mono_cmp_antisym a b : mono_cmp b a = CompOpp (mono_cmp a b).
Proof.
elim: a b => [|[x e] a IH] [|[y f] b] //=.
rewrite (N.compare_antisym x y) (N.compare_antisym e f).
case: (N.compare x y) => //=; case: (N.compare e f) => //=.
Qed.

Lemma mono_cmp_refl a : mono_cmp a a = Eq.
Proof. by elim: a => [|[x e] a IH] //=; rewrite !N.compare_refl. Qed.

Lemma mono_wf_from_mul lo a b :
  mono_wf_from lo a -> mono_wf_from lo b -> mono_wf_from lo (mono_mul a b).
Proof.
elim: a lo b => [|[x e] a IHa] lo b //=.
elim: b lo => [|[y f] b IHb] lo //=.
move=> /andP[/andP[He Hx] Ha] /andP[/andP[Hf Hy] Hb].
case: N.compare_spec => [E|L|L] /=.
- subst y; rewrite Hx /= IHa // andbT; lia.
- rewrite He Hx /= IHa //= Hf Hb andbT /=; lia.
- rewrite Hf Hy /=; apply: IHb => //=; rewrite He Ha andbT /=; lia.
Qed.

Lemma mono_wf_mul a b : mono_wf a -> mono_wf b -> mono_wf (mono_mul a b).
Proof. exact: mono_wf_from_mul. Qed.

Lemma mono_wf_var x e : mono_wf (mono_var x e).
Proof. rewrite /mono_var /mono_wf; case: N.eqb_spec => //= H; rewrite !andbT; lia. Qed.

Lemma mono_cmp_trans a b c : mono_cmp a b = Gt -> mono_cmp b c = Gt -> mono_cmp a c = Gt.
Proof.
elim: a b c => [|[x e] a IH] [|[y f] b] [|[z g] c] //=.
case: (N.compare_spec x y) => Hxy //; case: (N.compare_spec y z) => Hyz //;
  case: (N.compare_spec x z) => Hxz //; try lia;
  case: (N.compare_spec e f) => Hef //; case: (N.compare_spec f g) => Hfg //;
  case: (N.compare_spec e g) => Heg //; try lia.
exact: IH.
Qed.

Lemma hd_gt_trans m0 m c p : hd_gt m0 ((m, c) :: p) -> hd_gt m p -> hd_gt m0 p.
Proof.
case: p => [|[m2 c2] p] //=.
case E1: (mono_cmp m0 m) => //; case E2: (mono_cmp m m2) => // _ _.
by rewrite (mono_cmp_trans E1 E2).
Qed.

Lemma mp_wf_add_term_aux t p : mono_wf t.1 -> mp_wf p ->
  mp_wf (mp_add_term t p) /\
  (forall m0, hd_gt m0 p -> mono_cmp m0 t.1 = Gt -> hd_gt m0 (mp_add_term t p)).
Proof.
case: t => m c /= Hm; elim: p => [|[m' c'] p IH].
  move=> _; rewrite /mp_add_term; case: Z.eqb_spec => [_|Hc]; split=> //.
    by rewrite mp_wf_cons Hm /= andbT; apply/eqP.
  by move=> m0 _ /= ->.
rewrite mp_wf_cons => /and4P[Hm' Hc' Hhd Hp].
have [IH1 IH2] := IH Hp.
rewrite [mp_add_term _ _]/=.
case: Z.eqb_spec => [_|Hc].
  by split=> //; rewrite mp_wf_cons Hm' Hc' Hhd Hp.
case E: (mono_cmp m m').
- move/mono_cmp_eq: (E) => Emm; subst m'.
  case: Z.eqb_spec => [_|Hcc].
    by split=> // m0 H0 _; apply: hd_gt_trans H0 Hhd.
  split=> [|m0 _ /= -> //].
  by rewrite mp_wf_cons Hm Hhd Hp /= andbT; apply/eqP.
- have E' : mono_cmp m' m = Gt by rewrite mono_cmp_antisym E.
  split=> [|m0 /= H0 _ //].
  by rewrite mp_wf_cons Hm' Hc' IH1 (IH2 _ Hhd E').
- split=> [|m0 _ /= -> //].
  rewrite mp_wf_cons Hm [hd_gt _ _]/= E mp_wf_cons Hm' Hc' Hhd Hp !andbT /=; apply/eqP => H; exact: Hc.
Qed.

Lemma mp_wf_add_term t p : mono_wf t.1 -> mp_wf p -> mp_wf (mp_add_term t p).
Proof. by move=> H1 H2; case: (mp_wf_add_term_aux H1 H2). Qed.

Lemma mp_wf_monos p : mp_wf p -> forall t, t \in p -> mono_wf t.1 /\ t.2 != 0.
Proof.
elim: p => [|[m c] p IH] //; rewrite mp_wf_cons => /and4P[Hm Hc _ Hp] t.
by rewrite inE => /orP[/eqP ->|/IH]; [|apply].
Qed.

Lemma mp_wf_add p q : mp_wf p -> mp_wf q -> mp_wf (mp_add p q).
Proof.
rewrite /mp_add => Hp Hq; elim: p Hp => [|[m c] p IH] //.
rewrite mp_wf_cons => /and4P[Hm _ _ Hp] /=.
by apply: mp_wf_add_term => //; apply: IH.
Qed.

Lemma mp_wf_neg p : mp_wf p -> mp_wf (mp_neg p).
Proof.
rewrite /mp_neg; elim: p => [|[m c] p IH] //.
rewrite [List.map _ _]/= !mp_wf_cons => /and4P[-> Hc Hhd /IH ->] /=; rewrite andbT.
apply/andP; split; first by move: Hc; rewrite -!Zeqb_eq0; lia.
by move: Hhd; case: p {IH} => [|[m2 c2] p].
Qed.

Lemma mp_wf_sub p q : mp_wf p -> mp_wf q -> mp_wf (mp_sub p q).
Proof. by move=> Hp Hq; apply: mp_wf_add => //; apply: mp_wf_neg. Qed.

Lemma mp_wf_scale c p : mp_wf p -> mp_wf (mp_scale c p).
Proof.
rewrite /mp_scale; case: Z.eqb_spec => // Hc0.
elim: p => [|[m d] p IH] //.
rewrite [List.map _ _]/= !mp_wf_cons => /and4P[-> Hd Hhd /IH ->] /=; rewrite andbT.
apply/andP; split; first by move: Hd; rewrite -!Zeqb_eq0; lia.
by move: Hhd; case: p {IH} => [|[m2 c2] p].
Qed.

Lemma mp_wf_of_terms l : (forall t, t \in l -> mono_wf t.1) -> mp_wf (mp_of_terms l).
Proof.
rewrite /mp_of_terms; elim: l => [|t l IH] // H /=.
apply: mp_wf_add_term; first by apply: H; rewrite inE eqxx.
by apply: IH => u Hu; apply: H; rewrite inE Hu orbT.
Qed.

Lemma mp_wf_mul_term t p : mono_wf t.1 -> mp_wf p -> mp_wf (mp_mul_term t p).
Proof.
move=> Ht Hp; rewrite /mp_mul_term.
have {Hp} : forall u, u \in p -> mono_wf u.1 by move=> u /(mp_wf_monos Hp) [].
elim: p => [|u p IH] // H /=.
apply: mp_wf_add_term => /=; last by apply: IH => v Hv; apply: H; rewrite inE Hv orbT.
by apply: mono_wf_mul => //; apply: H; rewrite inE eqxx.
Qed.

Lemma mp_wf_mul p q : mp_wf p -> mp_wf q -> mp_wf (mp_mul p q).
Proof.
rewrite /mp_mul => Hp Hq; elim: p Hp => [|[m c] p IH] //.
rewrite mp_wf_cons => /and4P[Hm _ _ Hp] /=.
by apply: mp_wf_add; [apply: mp_wf_mul_term|apply: IH].
Qed.

Lemma mp_wf_const c : mp_wf (mp_const c).
Proof. by rewrite /mp_const; case: Z.eqb_spec => //= /eqP; rewrite -Zeqb_eq0 => /negbTE ->. Qed.

Lemma mp_wf_pow p n : mp_wf p -> mp_wf (mp_pow p n).
Proof. by move=> Hp; elim: n => [|n IH]; [exact: mp_wf_const|apply: mp_wf_mul]. Qed.

Lemma mp_wf_map_coeff f p : mp_wf p -> mp_wf (mp_map_coeff f p).
Proof.
move=> Hp; apply: mp_wf_of_terms => t /mapP[u Hu ->] /=.
by case: (mp_wf_monos Hp Hu).
Qed.

Lemma mono_wf_from_remove lo x m : mono_wf_from lo m -> mono_wf_from lo (mono_remove x m).
Proof.
rewrite /mono_remove; elim: m lo => [|[y e] m IH] lo //= /andP[/andP[He Hy] Hm].
case: N.eqb_spec => _ /=; last by rewrite He Hy IH.
apply: IH; move: Hm; case: (m) => [|[z g] m2] //= /andP[/andP[-> Hz] ->]; rewrite !andbT /=.
case: lo Hy => // l Hl; lia.
Qed.

Lemma mp_wf_deriv x p : mp_wf p -> mp_wf (mp_deriv x p).
Proof.
move=> Hp; apply: mp_wf_of_terms => t /mapP[u Hu ->] /=.
apply: mono_wf_mul; last exact: mono_wf_var.
by apply: mono_wf_from_remove; case: (mp_wf_monos Hp Hu).
Qed.

(* ------------------------------------------------------------------ uniqueness of the canonical form *)
(* Kronecker substitution x |-> 'X^(B^x) into the univariate polynomials over an arbitrary coefficient ring R0:
   monomials with exponents below B go to distinct powers of 'X, so the coefficients of a canonical polynomial
   can be read off its denotation. *)
Section Kronecker.
Variable R0 : comRingType.
Variable B : nat.

Definition kr (m : mono) : nat := foldr (fun ve acc => N.to_nat ve.2 * B ^ N.to_nat ve.1 + acc)%N 0%N m.
Definition rhoK (x : var) : {poly R0} := 'X^(B ^ N.to_nat x).
Definition bounded (m : mono) : bool := all (fun ve : var * N => N.to_nat ve.2 < B)%N m.

Lemma mono_den_kr m : mono_den rhoK m = 'X^(kr m).
Proof.
elim: m => [|[x e] m IH] /=; first by rewrite expr0.
by rewrite IH /rhoK -exprM -exprD mulnC.
Qed.

Lemma zr_polyC c : zr [comRingType of {poly R0}] c = (zr R0 c)%:P.
Proof. by rewrite /zr rmorph_int. Qed.

Lemma kr_dvd x m : mono_wf_from (Some x) m -> (B ^ (N.to_nat x).+1 %| kr m)%N.
Proof.
elim: m x => [|[y e] m IH] x //= /andP[/andP[_ Hxy] Hm].
have Hlt : ((N.to_nat x).+1 <= N.to_nat y)%N by clear -Hxy; lia.
apply: dvdn_add; first by apply: dvdn_mull; apply: dvdn_exp2l.
by apply: dvdn_trans (IH _ Hm); apply: dvdn_exp2l; apply: leqW.
Qed.

Lemma kr_inj lo a b :
  mono_wf_from lo a -> bounded a -> mono_wf_from lo b -> bounded b -> kr a = kr b -> a = b.
Proof.
elim: a lo b => [|[x e] a IH] lo [|[y f] b] //=.
- move=> _ _ /andP[/andP[Hf _] _] /andP[HfB _] E.
  have B0 : (0 < B)%N by apply: leq_ltn_trans HfB.
  have : (0 < N.to_nat f * B ^ N.to_nat y)%N by rewrite muln_gt0 expn_gt0 B0 andbT; clear -Hf; lia.
  by rewrite -(ltn_add2r (kr b)) add0n -E ltn0.
- move=> /andP[/andP[He _] _] /andP[HeB _] _ _ E.
  have B0 : (0 < B)%N by apply: leq_ltn_trans HeB.
  have : (0 < N.to_nat e * B ^ N.to_nat x)%N by rewrite muln_gt0 expn_gt0 B0 andbT; clear -He; lia.
  by rewrite -(ltn_add2r (kr a)) add0n E ltn0.
move=> /andP[/andP[He Hx] Ha] /andP[HeB Hba] /andP[/andP[Hf Hy] Hb] /andP[HfB Hbb] E.
have B0 : (0 < B)%N by apply: leq_ltn_trans HeB.
have e0 : (0 < N.to_nat e)%N by clear -He; lia.
have f0 : (0 < N.to_nat f)%N by clear -Hf; lia.
have Da := kr_dvd Ha; have Db := kr_dvd Hb.
(* the smaller variable would force B | its exponent *)
have low u v g h (ka kb : nat) : (N.to_nat u < N.to_nat v)%N -> (0 < g < B)%N ->
    (B ^ (N.to_nat u).+1 %| ka)%N -> (B ^ (N.to_nat v).+1 %| kb)%N ->
    (g * B ^ N.to_nat u + ka = h * B ^ N.to_nat v + kb)%N -> False.
  move=> Huv /andP[g0 gB] Dka Dkb Eq.
  have D1 : (B ^ (N.to_nat u).+1 %| h * B ^ N.to_nat v + kb)%N.
    apply: dvdn_add; first by apply: dvdn_mull; apply: dvdn_exp2l.
    by apply: dvdn_trans Dkb; apply: dvdn_exp2l; apply: leqW.
  move: D1; rewrite -Eq (dvdn_addl _ Dka) expnS dvdn_pmul2r ?expn_gt0 ?B0 // => /dvdn_leq.
  by move=> /(_ g0); rewrite leqNgt gB.
case: (ltngtP (N.to_nat x) (N.to_nat y)) => Hxy.
- by case: (low x y (N.to_nat e) (N.to_nat f) (kr a) (kr b) Hxy _ Da Db E); rewrite e0 HeB.
- by case: (low y x (N.to_nat f) (N.to_nat e) (kr b) (kr a) Hxy _ Db Da (esym E)); rewrite f0 HfB.
have Exy : x = y by clear -Hxy; lia.
subst y.
case/dvdnP: Da => u Eu; case/dvdnP: Db => v Ev.
move: E; rewrite Eu Ev !expnS ![(_ * (B * _))%N]mulnA -!mulnDl => /eqP.
rewrite eqn_pmul2r ?expn_gt0 ?B0 // => /eqP E.
have Eef : N.to_nat e = N.to_nat f.
  by have := congr1 (modn^~ B) E; rewrite /= ![(N.to_nat _ + _)%N]addnC !modnMDl !modn_small.
have Euv : u = v.
  by move/eqP: E; rewrite Eef eqn_add2l eqn_pmul2r // => /eqP.
have -> : e = f by apply: N2Nat.inj.
congr (_ :: _); apply: (IH (Some x)) => //.
by rewrite Eu Ev Euv.
Qed.

Definition lk (m0 : mono) (p : mpoly) : Z :=
  foldr (fun t acc => if t.1 == m0 then (t.2 + acc)%SZ else acc) 0%SZ p.

Lemma coef_den_kr p m0 :
  (forall t, t \in p -> mono_wf t.1 && bounded t.1) -> mono_wf m0 -> bounded m0 ->
  (mp_den rhoK p)`_(kr m0) = zr R0 (lk m0 p).
Proof.
move=> Hp Hm0 Hb0; elim: p Hp => [|[m c] p IH] Hp /=; first by rewrite coef0.
have /andP[Hm Hb] : mono_wf m && bounded m by apply: (Hp (m, c)); rewrite inE eqxx.
rewrite coefD IH; last by move=> t Ht; apply: Hp; rewrite inE Ht orbT.
rewrite /term_den /= mono_den_kr zr_polyC coefCM coefXn.
case: eqP => [E|NE].
  have -> : m = m0 by apply: (kr_inj (lo := None)).
  by rewrite eqxx mulr1 zrD.
case: eqP => [E|_]; first by case: NE; rewrite E.
by rewrite mulr0 add0r.
Qed.

End Kronecker.

(* exponents of a polynomial are below mp_bound *)
Definition mono_bound (m : mono) : nat := foldr (fun ve acc => maxn (N.to_nat ve.2).+1 acc) 0%N m.
Definition mp_bound (p : mpoly) : nat := foldr (fun t acc => maxn (mono_bound t.1) acc) 0%N p.

Lemma bounded_mono B m : (mono_bound m <= B)%N -> bounded B m.
Proof.
by elim: m => [|[x e] m IH] //=; rewrite geq_max => /andP[-> /IH ->].
Qed.

Lemma mp_bound_in p t : t \in p -> (mono_bound t.1 <= mp_bound p)%N.
Proof.
by elim: p => [|u p IH] //=; rewrite inE leq_max => /orP[/eqP ->|/IH ->]; rewrite ?leqnn ?orbT.
Qed.

Lemma lk_gt m0 p : mp_wf p -> hd_gt m0 p -> lk m0 p = 0%SZ.
Proof.
elim: p => [|[m c] p IH] //; rewrite mp_wf_cons => /and4P[_ _ Hhd Hp] H0 /=.
case: eqP => [E|_]; first by move: H0; rewrite /= E mono_cmp_refl.
by apply: IH => //; apply: hd_gt_trans H0 Hhd.
Qed.

(* canonical polynomials with the same coefficient at every (well-formed, bounded) monomial are equal *)
Lemma lk_inj B p q : mp_wf p -> mp_wf q -> (mp_bound p <= B)%N -> (mp_bound q <= B)%N ->
  (forall m0, mono_wf m0 -> bounded B m0 -> lk m0 p = lk m0 q) -> p = q.
Proof.
elim: p q => [|[m c] p IH] [|[m' c'] q] //.
- rewrite mp_wf_cons => _ /and4P[Hm' Hc' Hhd' Hq] _ /=; rewrite geq_max => /andP[Hb' _] H.
  have := H m' Hm' (bounded_mono Hb'); rewrite /= eqxx (lk_gt Hq Hhd') Z.add_0_r => E.
  by move: Hc'; rewrite -E.
- rewrite mp_wf_cons => /and4P[Hm Hc Hhd Hp] _ /=; rewrite geq_max => /andP[Hb _] _ H.
  have := H m Hm (bounded_mono Hb); rewrite /= eqxx (lk_gt Hp Hhd) Z.add_0_r => E.
  by move: Hc; rewrite E.
rewrite !mp_wf_cons => /and4P[Hm Hc Hhd Hp] /and4P[Hm' Hc' Hhd' Hq] /=.
rewrite !geq_max => /andP[Hb Hbp] /andP[Hb' Hbq] H.
have L1 := H m Hm (bounded_mono Hb); have L2 := H m' Hm' (bounded_mono Hb').
move: L1 L2; rewrite /= !eqxx (lk_gt Hp Hhd) (lk_gt Hq Hhd') !Z.add_0_r.
case E: (mono_cmp m m').
- move/mono_cmp_eq: E => E; subst m'; rewrite eqxx (lk_gt Hp Hhd) (lk_gt Hq Hhd') !Z.add_0_r => Ec _.
  rewrite Ec; congr (_ :: _); apply: IH => // m0 Hm0 Hb0.
  have := H m0 Hm0 Hb0; rewrite /= Ec.
  case: eqP => [E0|//]; subst m0.
  by rewrite (lk_gt Hp Hhd) (lk_gt Hq Hhd').
- (* m < m': m' does not occur in p *)
  have G : mono_cmp m' m = Gt by rewrite mono_cmp_antisym E.
  move=> _; case: eqP => [E0|_]; first by move: G; rewrite E0 mono_cmp_refl.
  have -> : lk m' p = 0%SZ.
    apply: lk_gt => //; move: Hhd; case: (p) => [|[m2 c2] p2] //=.
    by case E2: (mono_cmp m m2) => // _; rewrite (mono_cmp_trans G E2).
  by move=> E0; move: Hc'; rewrite -E0.
- case: eqP => [E0|_]; first by move: E; rewrite -E0 mono_cmp_refl.
  have -> : lk m q = 0%SZ.
    apply: lk_gt => //; move: Hhd'; case: (q) => [|[m2 c2] q2] //=.
    by case E2: (mono_cmp m' m2) => // _; rewrite (mono_cmp_trans E E2).
  by move=> E0; move: Hc; rewrite E0.
Qed.

(* C01_canonical_unique: a canonical polynomial is determined by its denotations *)
Theorem mp_canonical_unique p q : mp_wf p -> mp_wf q ->
  (forall (R : comRingType) (rho : var -> R), mp_den rho p = mp_den rho q) -> p = q.
Proof.
move=> Hp Hq H.
pose B := maxn (mp_bound p) (mp_bound q).
apply: (@lk_inj B) => //; rewrite ?leq_maxl ?leq_maxr // => m0 Hm0 Hb0.
have Hin (r : mpoly) : mp_wf r -> (mp_bound r <= B)%N ->
    forall t, t \in r -> mono_wf t.1 && bounded B t.1.
  move=> Hr Hbr t Ht; case: (mp_wf_monos Hr Ht) => -> _ /=.
  by apply: bounded_mono; apply: leq_trans (mp_bound_in Ht) Hbr.
have := congr1 (fun P : {poly Z} => P`_(kr B m0)) (H _ (rhoK [comRingType of Z] B)).
rewrite !coef_den_kr //; try by apply: Hin; rewrite ?leq_maxl ?leq_maxr.
by rewrite /zr -!ZInstances.Z_of_intE !int_of_ZK.
Qed.

(* ------------------------------------------------------------------ further consequences *)
Section More.
Variable R : comRingType.
Variable rho : var -> R.

(* shift by a power of a variable *)
Lemma mp_den_shift x e p : mp_den rho (mp_mul p (mp_var_pow x e)) = mp_den rho p * rho x ^+ N.to_nat e.
Proof. by rewrite mp_den_mul mp_den_var_pow. Qed.

End More.

(* re-canonicalising a canonical polynomial changes nothing *)
Lemma mp_of_terms_wf p : mp_wf p -> mp_of_terms p = p.
Proof.
move=> Hp; apply: mp_canonical_unique => //.
  by apply: mp_wf_of_terms => t /(mp_wf_monos Hp) [].
by move=> R rho; rewrite mp_den_of_terms.
Qed.

(* the canonical output is determined by its denotation: e.g. any canonical r denoting p + q IS mp_add p q *)
Lemma mp_add_determined p q r : mp_wf p -> mp_wf q -> mp_wf r ->
  (forall (R : comRingType) (rho : var -> R), mp_den rho r = mp_den rho p + mp_den rho q) -> r = mp_add p q.
Proof.
move=> Hp Hq Hr H; apply: mp_canonical_unique => //; first exact: mp_wf_add.
by move=> R rho; rewrite H mp_den_add.
Qed.
Lemma mp_mul_determined p q r : mp_wf p -> mp_wf q -> mp_wf r ->
  (forall (R : comRingType) (rho : var -> R), mp_den rho r = mp_den rho p * mp_den rho q) -> r = mp_mul p q.
Proof.
move=> Hp Hq Hr H; apply: mp_canonical_unique => //; first exact: mp_wf_mul.
by move=> R rho; rewrite H mp_den_mul.
Qed.

(* evaluation at an integer point is the denotation in Z *)
Lemma Zpow_expr (a : Z) (e : N) : Z.pow a (Z.of_N e) = a ^+ N.to_nat e.
Proof.
elim/N.peano_ind: e => [|e IH]; first by rewrite expr0.
by rewrite N2Z.inj_succ Z.pow_succ_r ?N2Nat.inj_succ ?exprS ?IH //; lia.
Qed.

Lemma mp_eval_den (rho : var -> Z) p : mp_eval rho p = mp_den rho p.
Proof.
have Hm m : mono_eval rho m = mono_den rho m.
  by elim: m => [|[x e] m IH] //=; rewrite IH Zpow_expr.
elim: p => [|[m c] p IH] //=; rewrite IH Hm /term_den /=; congr (_ * _ + _).
by rewrite /zr -ZInstances.Z_of_intE int_of_ZK.
Qed.
