(* C05.1: the multiply-back invariant of the Yun-style loops of Factor.v (generic in the polynomial type, then
   instantiated to Z[x] with the reference gcd / exact division and to Z_p[x]). *)
From Coq Require Import ZArith List.
From LP Require Import UPoly FactorCheck Factor.
Set Warnings "-notation-overridden,-ambiguous-paths".
From mathcomp Require Import all_ssreflect all_algebra separable finfield.
From mathcomp Require Import ssrZ zify.
Set Warnings "notation-overridden,ambiguous-paths".
From LP Require Import UPolySpec FactorCheckProofs FactorFp.
Import GRing.Theory.
Set Implicit Arguments.
Unset Strict Implicit.
Unset Printing Implicit Defensive.
Local Open Scope ring_scope.
Delimit Scope Z_scope with ZZ.

(* ------------------------------------------------------------------ the loop invariant, for ANY gcd function *)
Section YunInvariant.
Variable R : comRingType.
Variable T : Type.
Variable den : T -> R.
Variables (tgcd : T -> T -> T) (tdiv : T -> T -> option T) (tconst : T -> bool) (teqb : T -> T -> bool).
Hypothesis tdiv_sound : forall a b q, tdiv a b = Some q -> den a = den b * den q.
Hypothesis teqb_sound : forall a b, teqb a b = true -> den a = den b.

Definition prodden (acc : seq (T * nat)) : R := \prod_(fm <- acc) den fm.1 ^+ fm.2.

Lemma prodden_rcons acc f m : prodden (acc ++ [:: (f, m)]) = prodden acc * den f ^+ m.
Proof. by rewrite /prodden big_cat big_seq1. Qed.

Theorem yun_loop_invariant fuel k P L acc acc' P' L' k' :
  yun_loop T tgcd tdiv tconst teqb fuel k P L acc = Some (acc', P', L', k') ->
  prodden acc' * den P' * den L' ^+ k' = prodden acc * den P * den L ^+ k.
Proof.
elim: fuel k P L acc => [|fuel IH] k P L acc //=.
case: ifP => _; first by case=> <- <- <- <-.
case EP: (tdiv P (tgcd P L)) => [P1|] //.
move/tdiv_sound: EP => EP.
case: ifP => [/teqb_sound EL|_].
  move=> /IH ->; rewrite EP EL exprS; set r := den (tgcd P L).
  by rewrite -!mulrA; congr (_ * _); rewrite mulrCA mulrA.
case EO: (tdiv L (tgcd P L)) => [O1|] //.
move/tdiv_sound: EO => EO.
move=> /IH ->; rewrite prodden_rcons EP EO exprS exprMn; set r := den (tgcd P L).
rewrite -!mulrA; congr (_ * _).
by rewrite mulrCA [in RHS]mulrCA; congr (_ * _); rewrite mulrC -mulrA.
Qed.

(* the loop stops only when L is constant *)
Lemma yun_loop_exit fuel k P L acc acc' P' L' k' :
  yun_loop T tgcd tdiv tconst teqb fuel k P L acc = Some (acc', P', L', k') -> tconst L' = true.
Proof.
elim: fuel k P L acc => [|fuel IH] k P L acc //=.
case: ifP => [H|_]; first by case=> _ _ <- _.
case: (tdiv P _) => [P1|] //; case: ifP => _; first exact: IH.
by case: (tdiv L _) => [O1|] //; exact: IH.
Qed.
End YunInvariant.

(* ------------------------------------------------------------------ the reference exact division over Z is sound *)
Lemma pdiv_exact_aux_sound fuel q r b db lb q' :
  pdiv_exact_aux fuel q r b db lb = Some q' -> Poly q' * Poly b = Poly q * Poly b + Poly r.
Proof.
elim: fuel q r => [|fuel IH] q r /=.
  case E: (pnorm r) => [|c t] // [<-].
  by rewrite -(Poly_pnorm r) E /= addr0.
case E: (pnorm r) => [|c t]; first by case=> <-; rewrite -(Poly_pnorm r) E /= addr0.
case: ifP => // _; case: ifP => // _ /IH ->.
rewrite Poly_padd Poly_psub Poly_pmul -E Poly_pnorm mulrDl.
by rewrite -addrA; congr (_ + _); rewrite addrCA subrr addr0.
Qed.

Theorem pdiv_exact_sound a b q : pdiv_exact a b = Some q -> Poly a = Poly b * Poly q.
Proof.
rewrite /pdiv_exact; case E: (pnorm b) => [|c t] //.
case E2: (pdiv_exact_aux _ _ _ _ _ _) => [q1|] // [<-].
move/pdiv_exact_aux_sound: E2; rewrite -E !Poly_pnorm /= mul0r add0r => <-.
by rewrite mulrC.
Qed.

(* ------------------------------------------------------------------ Z[x] *)
Theorem yun_loop_Z_invariant fuel k P L acc acc' P' L' k' :
  yun_loop_Z fuel k P L acc = Some (acc', P', L', k') ->
  uprodP acc' * Poly P' * Poly L' ^+ k' = uprodP acc * Poly P * Poly L ^+ k.
Proof.
apply: (@yun_loop_invariant _ _ (Poly : seq Z -> {poly Z})); first exact: pdiv_exact_sound.
by move=> a b /peqbP.
Qed.

Lemma size1_polyC_Z (l : seq Z) : pdeg l = 0%N -> Poly l = (plc l)%:P.
Proof.
rewrite pdeg_size -lead_coef_plc => H.
have sz : (size (Poly l) <= 1)%N by move: H; case: (size (Poly l)) => [|[|n]].
by rewrite {1}(size1_polyC sz) lead_coefE H.
Qed.

(* upolynomial_factor_square_free_primitive over Z multiplies back up to the constant left in P and L when the
   loop stops (which is 1 for primitive input with positive leading coefficient: see the _full_statement) *)
Theorem sqfree_prim_Z_multiply_back_partial fuel f c fs :
  sqfree_prim_Z fuel f = Some (c, fs) -> exists u : Z, Poly f = (u * c) *: uprodP fs.
Proof.
rewrite /sqfree_prim_Z; case: ifP => [/Nat.eqb_eq d0|_].
  case=> <- <-; exists 1; rewrite mul1r /uprodP big_nil alg_polyC; exact: size1_polyC_Z.
case: ifP => // _.
case EL: (pdiv_exact f _) => [L|] //; move/pdiv_exact_sound: EL => EL.
case EY: (yun_loop_Z _ _ _ _ _) => [[[[fs1 P'] L'] k']|] //.
case: ifP => // /Nat.eqb_eq dP [<- <-].
have dL : pdeg L' = 0%N by apply/Nat.eqb_eq; apply: (yun_loop_exit EY).
move/yun_loop_Z_invariant: EY.
rewrite /uprodP big_nil mul1r expr1 -EL (size1_polyC_Z dP) (size1_polyC_Z dL) => E.
exists (plc P' * plc L' ^+ k'); rewrite mulr1 -E -mulrA -rmorphX -rmorphM /= mulrC.
by rewrite mul_polyC.
Qed.

(* ------------------------------------------------------------------ Z_p[x] *)
Arguments yun_loop_Zp : simpl never.
Arguments pgcd_Zp : simpl never.
Arguments pdiv_Zp : simpl never.
Arguments div_degrees : simpl never.
Section Zp.
Variable p : nat.
Hypothesis pr : prime p.
Let pz : Z := Z.of_nat p.
Notation PFp := (PF p).

Lemma pdiv_Zp_sound a b q : pdiv_Zp pz a b = Some q -> PFp a = PFp b * PFp q.
Proof.
rewrite /pdiv_Zp; case: (pdivmod_monic _ _ _) => q1 _.
by case: ifP => // /(peqb_pP pr); rewrite PF_mul => -> [<-]; rewrite mulrC.
Qed.

Theorem yun_loop_Zp_invariant fuel k P L acc acc' P' L' k' :
  yun_loop_Zp pz fuel k P L acc = Some (acc', P', L', k') ->
  uprodF p acc' * PFp P' * PFp L' ^+ k' = uprodF p acc * PFp P * PFp L ^+ k.
Proof.
apply: (@yun_loop_invariant _ _ PFp); first exact: pdiv_Zp_sound.
by move=> a b /(peqb_pP pr).
Qed.

(* the p-th root branch: f(x) = g(x^p) = g(x)^p over F_p *)
Lemma Fp_frob (a : 'F_p) : a ^+ p = a.
Proof. by have := expf_card a; rewrite card_Fp. Qed.

Lemma poly_frobenius (q : {poly 'F_p}) : q ^+ p = q \Po 'X^p.
Proof.
have chp : p \in [char {poly 'F_p}] by apply: (rmorph_char (polyC_rmorphism _)); apply: char_Fp.
rewrite -(Frobenius_autE chp) comp_polyE -{1}[q]coefK poly_def rmorph_sum /=.
apply: eq_bigr => i _.
by rewrite -mul_polyC rmorphM /= !Frobenius_autE -rmorphX /= Fp_frob exprAC -exprM mulnC exprM mul_polyC.
Qed.

Lemma div_degrees_aux_spec n i f g : (0 < n)%N ->
  div_degrees_aux n i f = Some g -> Poly f = 'X^i * (Poly g \Po 'X^n) :> {poly Z}.
Proof.
move=> n0; elim: f i g => [|c f IH] i g /=; first by case=> <-; rewrite /= comp_poly0 mulr0.
case E: (div_degrees_aux _ _ f) => [g'|] //; move/IH: E => E.
case: i E => [|i] E.
  case=> <-; rewrite expr0 mul1r /= !cons_poly_def E comp_polyD comp_polyM comp_polyX comp_polyC.
  by congr (_ + _); rewrite mulrAC -exprSr prednK // mulrC.
case: ifP => // /Z.eqb_eq -> [<-].
by rewrite cons_poly_def E polyC0 addr0 mulrC exprS mulrA.
Qed.

Lemma div_degrees_spec f g : div_degrees p f = Some g -> PFp f = PFp g ^+ p.
Proof.
move=> /(div_degrees_aux_spec (prime_gt0 pr)); rewrite expr0 mul1r /PF => ->.
by rewrite poly_frobenius map_comp_poly map_polyXn.
Qed.

Lemma uprodF_nil : uprodF p [::] = 1.
Proof. by rewrite /uprodF big_nil. Qed.

Lemma uprodF_cat a b : uprodF p (a ++ b) = uprodF p a * uprodF p b.
Proof. by rewrite /uprodF big_cat. Qed.

Lemma uprodF_scale_mults fs : uprodF p (scale_mults p fs) = uprodF p fs ^+ p.
Proof.
rewrite /uprodF /scale_mults big_map /= -prodrXl.
by apply: eq_bigr => fm _; rewrite exprM.
Qed.

Lemma size1_polyC_F (l : seq Z) : (psize_p pz l <= 1)%N -> PFp l = (lead_coef (PFp l))%:P.
Proof. by rewrite -size_PF // => sz; rewrite {1}(size1_polyC sz) lead_coefE; case: (size (PFp l)) sz => [|[|n]]. Qed.

(* upolynomial_factor_square_free_primitive over Z_p (incl. both p-th-root branches) multiplies back up to a
   constant of F_p *)
Theorem sqfree_prim_Zp_multiply_back_partial fuel f c fs :
  sqfree_prim_Zp pz fuel f = Some (c, fs) -> exists u : 'F_p, PFp f = u *: uprodF p fs.
Proof.
elim: fuel f c fs => [|fuel IH] f c fs //=.
set fn := pnorm (pmodp pz f).
have Efn : PFp fn = PFp f by rewrite PF_pnorm PF_pmodp.
rewrite -Efn.
case: ifP => [/Nat.leb_le sz|_].
  case=> _ <-; rewrite uprodF_nil.
  have : (size (PFp fn) <= 1)%N by rewrite Efn size_PF //; apply/leP.
  by move=> /size1_polyC ->; eexists; rewrite alg_polyC.
case: ifP => [_|_].
  case Ed: (div_degrees _ fn) => [fp|] //.
  case Er: (sqfree_prim_Zp _ _ fp) => [[c0 fs0]|] // [_ <-].
  have [u Eu] := IH _ _ _ Er.
  move: Ed; rewrite /pz Nat2Z.id => /div_degrees_spec ->.
  by rewrite uprodF_scale_mults Eu exprZn; eexists.
case EL: (pdiv_Zp _ _ _) => [L|] //; move/pdiv_Zp_sound: EL => EL.
case EY: (yun_loop_Zp _ _ _ _ _ _) => [[[[fs1 P'] L'] k']|] //.
have dL : (size (PFp L') <= 1)%N by rewrite size_PF //; apply/leP/Nat.leb_le; apply: (yun_loop_exit EY).
move/yun_loop_Zp_invariant: EY.
rewrite uprodF_nil mul1r expr1 -EL (size1_polyC dL) => E.
case: ifP => [/Nat.leb_le /leP dP|_].
  case=> _ <-; move: E; rewrite -size_PF // in dP; rewrite (size1_polyC dP) => <-.
  by rewrite -mulrA -rmorphX -rmorphM /= mulrC mul_polyC; eexists.
case Ed: (div_degrees _ _) => [Pp|] //.
case Er: (sqfree_prim_Zp _ _ Pp) => [[c0 sub]|] // [_ <-].
have [u Eu] := IH _ _ _ Er.
move: Ed; rewrite /pz Nat2Z.id => /div_degrees_spec; rewrite PF_pnorm PF_pmodp // => EP.
rewrite -E EP Eu exprZn uprodF_cat uprodF_scale_mults.
rewrite -!rmorphX /= -!mul_polyC.
exists (u ^+ p * (PFp L')`_0 ^+ k').
by rewrite -mul_polyC rmorphM /= mulrCA mulrAC.
Qed.
End Zp.

(* ------------------------------------------------------------------ the wrapper lp_upolynomial_factor_square_free over Z *)
Lemma pcontent_divide (f : seq Z) x : List.In x f -> (pcontent f | x)%ZZ.
Proof.
elim: f => [|c f IH] //= [<-|/IH H]; first exact: Z.gcd_divide_l.
by apply: Z.divide_trans H; exact: Z.gcd_divide_r.
Qed.

Lemma Poly_pdivc (f : seq Z) (c : Z) : (forall x, List.In x f -> (c | x)%ZZ) -> c <> 0%ZZ ->
  Poly f = c *: Poly (pdivc f c).
Proof.
move=> H c0; rewrite -Poly_pscale; congr (Poly _).
elim: f H => [|x f IH] H //=; congr (_ :: _).
  have [k ->] : (c | x)%ZZ by apply: H; left.
  by rewrite Z.div_mul //; lia.
by apply: IH => y Hy; apply: H; right.
Qed.

Lemma xpower_spec (f : seq Z) k g : xpower f = (k, g) -> Poly f = Poly g * 'X^k.
Proof.
elim: f k g => [|c f IH] k g /=; first by case=> <- <-; rewrite expr0 mulr1.
case: Z.eqb_spec => [->|_]; last by case=> <- <-; rewrite expr0 mulr1.
case E: (xpower f) => [k' g'] [<- <-].
by rewrite cons_poly_def (IH _ _ E) polyC0 addr0 exprSr mulrA.
Qed.

Lemma content_signed_divide (f : seq Z) x : List.In x f -> (content_signed f | x)%ZZ.
Proof.
move=> /pcontent_divide H; rewrite /content_signed; case: ifP => _ //.
by apply/Z.divide_opp_l.
Qed.

Lemma In_pnorm (f : seq Z) x : List.In x (pnorm f) -> List.In x f.
Proof.
elim: f => [|c f IH] //=; case: (pnorm f) IH => [|d t] IH.
  by case: ifP => // _ [->|//]; left.
by case=> [->|H]; [left | right; apply: IH].
Qed.

Theorem factor_square_free_Z_multiply_back_partial fuel f c fs :
  factor_square_free_Z fuel f = Some (c, fs) -> exists u : Z, Poly f = (u * c) *: uprodP fs.
Proof.
rewrite /factor_square_free_Z; case: Z.eqb_spec => // c0.
case Ex: (xpower _) => [k g].
case Es: (sqfree_prim_Z fuel g) => [[c' fs']|] // [<- <-].
have [u Eu] := sqfree_prim_Z_multiply_back_partial Es.
have Ef : Poly f = content_signed (pnorm f) *: Poly (pdivc (pnorm f) (content_signed (pnorm f))).
  by rewrite -Poly_pdivc ?Poly_pnorm // => x /content_signed_divide.
exists u; rewrite Ef (xpower_spec Ex) Eu.
have -> : uprodP (if Nat.eqb k 0 then fs' else (fs' ++ [:: ([:: 0%ZZ; 1%ZZ], k)])%list) = uprodP fs' * 'X^k.
  case: Nat.eqb_spec => [->|_]; first by rewrite expr0 mulr1.
  rewrite /uprodP big_cat big_seq1 /=; congr (_ * _ ^+ _).
  by rewrite !cons_poly_def mul0r add0r polyC0 addr0 polyC1 mul1r.
rewrite -scalerAl scalerA; congr (_ *: _).
by rewrite mulrC -mulrA.
Qed.

(* ------------------------------------------------------------------ Hensel lifting after the repair: the exact division is exact *)
Lemma In_nth0 (l : seq Z) x : List.In x l -> exists i, x = nth 0 l i.
Proof.
elim: l => [|c l IH] //= [->|/IH [i ->]]; first by exists 0%N.
by exists i.+1.
Qed.

Theorem hensel_D_defined (q : Z) F As : (0 < q)%ZZ ->
  peqb_p q F (uprod (ones As)) = true ->
  exists D, hensel_D q F As = Some D /\ Poly F = uprodP (ones As) + q *: Poly D.
Proof.
move=> q0 /peqbP E; rewrite /hensel_D.
set G := uprod (ones As) in E *.
have Hd x : List.In x (pnorm (psub F G)) -> (x mod q)%ZZ = 0%ZZ.
  move=> /In_pnorm /In_nth0 [i ->].
  rewrite -coef_Poly_nth Poly_psub coefB !coef_Poly_nth.
  apply/(@Zmod_eq_sub _ _ _ q0).
  have /polyP /(_ i) := E; rewrite !coef_Poly_nth /pmodp.
  by rewrite !(@nth_map0 _ _ (fun z => Z.modulo z q) 0 0) ?Zmod_0_l.
have -> : forallb (fun c : Z => Z.eqb (c mod q) 0) (pnorm (psub F G)) = true.
  by apply/forallb_forall => x /Hd ->.
eexists; split; first by [].
rewrite -Poly_pdivc; first by rewrite Poly_pnorm Poly_psub -Poly_uprod addrC subrK.
  by move=> x /Hd H; apply/Z.mod_divide => //; lia.
by lia.
Qed.

(* ------------------------------------------------------------------ FULL multiply-back over Z: the constant left over is 1
   (the reference gcd returns polynomials with non-negative leading coefficient; a constant dividing a primitive
   polynomial is a unit) *)
Lemma plc_pscale c q : plc (pscale c q) = c * plc q.
Proof. by rewrite -!lead_coef_plc Poly_pscale lead_coefZ. Qed.

Lemma plc_pneg q : plc (pneg q) = - plc q.
Proof. by rewrite -!lead_coef_plc Poly_pneg lead_coefN. Qed.

Lemma plc_nil : plc [::] = 0.
Proof. by []. Qed.

Lemma pcontent_ge0 (f : seq Z) : (0 <= pcontent f)%ZZ.
Proof. by case: f => [|c f] //=; apply: Z.gcd_nonneg. Qed.

Lemma plc_ppp_ge0 g : (0 <= plc (ppp g))%ZZ.
Proof.
rewrite /ppp; case: Z.eqb_spec => _; first by [].
case: Z.ltb_spec => H; last by [].
by rewrite plc_pneg /GRing.opp /=; lia.
Qed.

Lemma plc_scale_ppp_ge0 c g : (0 <= c)%ZZ -> (0 <= plc (pscale c (ppp g)))%ZZ.
Proof. by move=> c0; rewrite plc_pscale; apply: Z.mul_nonneg_nonneg => //; exact: plc_ppp_ge0. Qed.

Lemma plc_pgcd_ge0 a b : (0 <= plc (pgcd a b))%ZZ.
Proof.
rewrite /pgcd; case: (pnorm a) => [|x a']; case: (pnorm b) => [|y b'] //;
  apply: plc_scale_ppp_ge0; try exact: pcontent_ge0; exact: Z.gcd_nonneg.
Qed.

Lemma plc_eq0 (x : seq Z) : (plc x == 0) = (Poly x == 0).
Proof. by rewrite -lead_coef_plc lead_coef_eq0. Qed.

Lemma plc_div a b q : pdiv_exact a b = Some q -> (0 < plc a)%ZZ -> (0 < plc b)%ZZ -> (0 < plc q)%ZZ.
Proof.
move=> /pdiv_exact_sound /(congr1 lead_coef); rewrite lead_coefM !lead_coef_plc => -> H Hb.
by move: H; rewrite /GRing.mul /=; nia.
Qed.

Lemma yun_loop_Z_pos fuel k P L acc acc' P' L' k' :
  yun_loop_Z fuel k P L acc = Some (acc', P', L', k') ->
  (0 < plc P)%ZZ -> (0 < plc L)%ZZ -> (0 < plc P')%ZZ /\ (0 < plc L')%ZZ.
Proof.
rewrite /yun_loop_Z; elim: fuel k P L acc => [|fuel IH] k P L acc //=.
case: ifP => _; first by case=> _ <- <- _.
case EP: (pdiv_exact P _) => [P1|] //.
move=> H pP pL.
have R0 : (0 < plc (pgcd P L))%ZZ.
  have := @plc_pgcd_ge0 P L; have := plc_eq0 (pgcd P L).
  have : Poly (pgcd P L) != 0.
    have PP : Poly P != 0 by rewrite -plc_eq0; apply/eqP; lia.
    by move: PP; rewrite (pdiv_exact_sound EP) mulf_eq0 negb_or => /andP[].
  by move=> /negbTE -> /eqP; lia.
have P1pos := plc_div EP pP R0.
move: H; case: ifP => _; first by move=> /IH; apply.
by case EO: (pdiv_exact L _) => [O1|] // /IH; apply.
Qed.

Lemma pcontent_greatest (f : seq Z) u : (forall x, List.In x f -> (u | x)%ZZ) -> (u | pcontent f)%ZZ.
Proof.
elim: f => [|c f IH] H /=; first exact: Z.divide_0_r.
by apply: Z.gcd_greatest; [apply: H; left | apply: IH => x Hx; apply: H; right].
Qed.

Lemma scale_divides_content (f : seq Z) (u : Z) (W : {poly Z}) : Poly f = u *: W -> (u | pcontent f)%ZZ.
Proof.
move=> E; apply: pcontent_greatest => x /In_nth0 [i ->].
by rewrite -coef_Poly_nth E coefZ; exists (W`_i); rewrite /GRing.mul /=; lia.
Qed.

Theorem sqfree_prim_Z_multiply_back fuel f c fs :
  pcontent f = 1%ZZ -> (0 < plc f)%ZZ ->
  sqfree_prim_Z fuel f = Some (c, fs) -> Poly f = c *: uprodP fs.
Proof.
move=> cont1 lcpos; rewrite /sqfree_prim_Z; case: ifP => [/Nat.eqb_eq d0|_].
  by case=> <- <-; rewrite /uprodP big_nil alg_polyC; exact: size1_polyC_Z.
case: ifP => // _.
case EL: (pdiv_exact f _) => [L|] //.
case EY: (yun_loop_Z _ _ _ _ _) => [[[[fs1 P'] L'] k']|] //.
case: ifP => // /Nat.eqb_eq dP [<- <-].
have dL : pdeg L' = 0%N by apply/Nat.eqb_eq; apply: (yun_loop_exit EY).
have P0 : (0 < plc (pgcd f (pderiv f)))%ZZ.
  have := @plc_pgcd_ge0 f (pderiv f); have := plc_eq0 (pgcd f (pderiv f)).
  have : Poly (pgcd f (pderiv f)) != 0.
    have PP : Poly f != 0 by rewrite -plc_eq0; apply/eqP; lia.
    by move: PP; rewrite (pdiv_exact_sound EL) mulf_eq0 negb_or => /andP[].
  by move=> /negbTE -> /eqP; lia.
have L0 := plc_div EL lcpos P0.
have [P'pos L'pos] := yun_loop_Z_pos EY P0 L0.
move/yun_loop_Z_invariant: EY.
rewrite /uprodP big_nil mul1r expr1 -(pdiv_exact_sound EL) (size1_polyC_Z dP) (size1_polyC_Z dL) => E.
have Eu : Poly f = (plc P' * plc L' ^+ k') *: uprodP fs1.
  by rewrite -E -mulrA -rmorphX -rmorphM /= mulrC mul_polyC.
have upos : (0 < plc P' * plc L' ^+ k')%ZZ.
  apply: Z.mul_pos_pos => //; elim: k' {E Eu} => [|n IHn]; first by [].
  by rewrite exprS; apply: Z.mul_pos_pos.
have /Z.divide_1_r_nonneg : (plc P' * plc L' ^+ k' | 1)%ZZ by rewrite -cont1; apply: scale_divides_content Eu.
move=> H; rewrite Eu /uprodP; congr (_ *: _); apply: H; lia.
Qed.

Lemma pcontent_pdivc (f : seq Z) (c : Z) : c <> 0%ZZ -> (c = pcontent f \/ c = - pcontent f)%ZZ ->
  pcontent (pdivc f c) = 1%ZZ.
Proof.
move=> c0 Hc.
have Hdiv x : List.In x f -> (c | x)%ZZ.
  by move=> /pcontent_divide H; case: Hc => ->; [|apply/Z.divide_opp_l].
set d := pcontent (pdivc f c).
have d0 : (0 <= d)%ZZ by apply: pcontent_ge0.
have H1 : (c * d | pcontent f)%ZZ.
  apply: pcontent_greatest => x Hx.
  have [k Ek] := Hdiv x Hx.
  have : (d | x / c)%ZZ by apply: pcontent_divide; rewrite /pdivc; apply/in_map_iff; exists x.
  by rewrite Ek Z.div_mul // => -[m ->]; exists m; lia.
have : (d | 1)%ZZ.
  case: Hc H1 => Ec H1.
    by apply/(Z.mul_divide_cancel_l _ _ c) => //; rewrite Z.mul_1_r {2}Ec.
  apply/Z.divide_opp_r/(Z.mul_divide_cancel_l _ _ c) => //.
  by have -> : (c * -1 = pcontent f)%ZZ by lia.
by move=> /Z.divide_1_r_nonneg; apply.
Qed.

Lemma pnorm_nil_of_Poly0 (f : seq Z) : Poly f = 0 -> pnorm f = [::].
Proof. by move=> E; rewrite -polyseq_Poly_pnorm E polyseq0. Qed.

Lemma plc_pdivc_pos (f : seq Z) : content_signed (pnorm f) <> 0%ZZ ->
  (0 < plc (pdivc (pnorm f) (content_signed (pnorm f))))%ZZ.
Proof.
set f' := pnorm f; set c := content_signed f' => c0.
have E : Poly f' = c *: Poly (pdivc f' c) by apply: Poly_pdivc => // x /content_signed_divide.
have lcE : plc f' = (c * plc (pdivc f' c))%ZZ by rewrite -!lead_coef_plc E lead_coefZ.
have g0 := @pcontent_ge0 f'.
have lc0 : plc f' <> 0%ZZ.
  move=> /eqP; rewrite plc_eq0 /f' Poly_pnorm => /eqP /pnorm_nil_of_Poly0 H.
  by apply: c0; rewrite /c /content_signed /f' H.
move: lcE c0 lc0; rewrite /c /content_signed; case: Z.ltb_spec => H; nia.
Qed.

Lemma xpower_content_plc (f : seq Z) k g : xpower f = (k, g) -> pcontent g = pcontent f /\ plc g = plc f.
Proof.
move=> E; split; last first.
  by rewrite -!lead_coef_plc (xpower_spec E) lead_coefM lead_coefXn mulr1.
elim: f k g E => [|c f IH] k g /=; first by case=> _ <-.
case: Z.eqb_spec => [->|_]; last by case=> _ <-.
case E: (xpower f) => [k' g'] [_ <-]; rewrite (IH _ _ E) /=.
by have := @pcontent_ge0 f; lia.
Qed.

(* lp_upolynomial_factor_square_free over Z, as coded (content, sign, x^k, Yun loop): FULL multiply-back *)
Theorem factor_square_free_Z_multiply_back fuel f c fs :
  factor_square_free_Z fuel f = Some (c, fs) -> Poly f = c *: uprodP fs.
Proof.
rewrite /factor_square_free_Z; case: Z.eqb_spec => // c0.
case Ex: (xpower _) => [k g].
case Es: (sqfree_prim_Z fuel g) => [[c' fs']|] // [<- <-].
have [Ec Elc] := xpower_content_plc Ex.
have g1 : pcontent g = 1%ZZ.
  rewrite Ec; apply: pcontent_pdivc => //.
  by rewrite /content_signed; case: ifP => _; [right | left].
have gpos : (0 < plc g)%ZZ by rewrite Elc; apply: plc_pdivc_pos.
have Eg := sqfree_prim_Z_multiply_back g1 gpos Es.
have Ef : Poly f = content_signed (pnorm f) *: Poly (pdivc (pnorm f) (content_signed (pnorm f))).
  by rewrite -Poly_pdivc ?Poly_pnorm // => x /content_signed_divide.
rewrite Ef (xpower_spec Ex) Eg.
have -> : uprodP (if Nat.eqb k 0 then fs' else (fs' ++ [:: ([:: 0%ZZ; 1%ZZ], k)])%list) = uprodP fs' * 'X^k.
  case: Nat.eqb_spec => [->|_]; first by rewrite expr0 mulr1.
  rewrite /uprodP big_cat big_seq1 /=; congr (_ * _ ^+ _).
  by rewrite !cons_poly_def mul0r add0r polyC0 addr0 polyC1 mul1r.
by rewrite -scalerAl scalerA mulrC.
Qed.
