(* Property C19 - what a Rocq model can express of it (DESIGN section 4 C19):
   (1) reference counting as a state machine over ALL histories inside the API contract (Refcount.v);
   (2) output-operand independence of the scalar layer (restated from C17: the field-by-field programs
       do not depend on the previous contents of the output nor on aliasing).
   Out-of-bounds accesses, use-after-free, undefined behaviour and leaks of the C runtime are OBSERVED by
   the sanitizer runs of every harness, not proved.  Theorem statements only. *)
From Coq Require Import Arith List Bool ZArith.
From LP Require Import Refcount RefcountProofs Scalar ScalarProofs.
Import ListNotations.

(* the counter of every object equals the number of outstanding user references plus the contribution of
   the contexts pointing at it; liveness is "counter positive" - for every history of permitted calls *)
Theorem C19_refcount_invariant : forall ops, Inv (fst (run ops)) (snd (run ops)).
Proof. exact run_inv. Qed.
Print Assumptions C19_refcount_invariant.

(* an object stays allocated exactly while somebody holds it *)
Theorem C19_live_iff_held : forall ops x, let '(s, h) := run ops in x < nxt s ->
  (live s x = true <-> 0 < h x + psum s x (nxt s)).
Proof. exact live_iff_held. Qed.
Print Assumptions C19_live_iff_held.

(* after every holder has detached nothing remains allocated *)
Theorem C19_all_released_nothing_live : forall ops,
  let '(s, h) := run ops in (forall x, h x = 0) -> forall x, live s x = false.
Proof. exact all_released_nothing_live. Qed.
Print Assumptions C19_all_released_nothing_live.

(* calls inside the contract never touch a destroyed object, directly or through a context's pointers *)
Theorem C19_no_use_after_destroy : forall ops o,
  let '(s, h) := run ops in permitted s h o = true ->
  match o with
  | New ks => forall k, In k ks -> live s k = true
  | Attach i => live s i = true /\ forall k, In k (kids s i) -> live s k = true
  | Detach i => live s i = true /\ forall k, In k (kids s i) -> live s k = true
  end.
Proof. exact permitted_targets_live. Qed.
Print Assumptions C19_no_use_after_destroy.

(* output operands of the dyadic layer (full list in Properties_C17.v) *)
Theorem C19_dst_independent_dy_add : forall al dst a b, alias_ok al dst a b -> dy_add al dst a b = dy_add_pure a b.
Proof. exact dy_add_dst. Qed.
Print Assumptions C19_dst_independent_dy_add.
Theorem C19_dst_independent_dy_neg : forall al dst a, alias1_ok al dst a -> dy_neg al dst a = dy_neg_pure a.
Proof. exact dy_neg_dst. Qed.
Print Assumptions C19_dst_independent_dy_neg.
Theorem C19_dst_independent_dy_mul_2exp : forall al dst a n, alias1_ok al dst a -> dy_mul_2exp al dst a n = dy_mul_2exp_pure a n.
Proof. exact dy_mul_2exp_dst. Qed.
Print Assumptions C19_dst_independent_dy_mul_2exp.

(* non-vacuity: a history with a ring, a db, an order, a context over them, an extra attach, and full release *)
Example C19_history :
  let ops := [New []; New []; New []; New [0; 1; 2]; Attach 3; Detach 0; Detach 1; Detach 2; Detach 3; Detach 3] in
  forallb (fun k => let sh := fold_left step (firstn k ops) (init, fun _ => 0) in
                    match nth_error ops k with Some o => permitted (fst sh) (snd sh) o | None => true end)
          (seq 0 (length ops)) = true
  /\ live_count (fst (run ops)) 4 = 0
  /\ live_count (fst (run (firstn 8 ops))) 4 = 4.
Proof. vm_compute. repeat split. Qed.
