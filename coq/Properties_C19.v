(* Property C19 - what a Rocq model can express of it (DESIGN section 4 C19):
   (1) reference counting as a state machine over ALL histories inside the API contract (Refcount.v);
   (2) output-operand independence of the scalar layer (restated from C17: the field-by-field programs
       do not depend on the previous contents of the output nor on aliasing).
   (3) output-operand independence of the interval layer (rational, dyadic and any scalar operations record):
       the result written into ANY previous interval (a point or a proper interval) and under ANY aliasing of the
       output with the inputs equals the result of the pure function (lemmas of IntervalArithProofs.v, property C15).
   Out-of-bounds accesses, use-after-free, undefined behaviour and leaks of the C runtime are OBSERVED by
   the sanitizer runs of every harness, not proved.  Theorem statements only. *)
From Coq Require Import Arith List Bool ZArith.
From LP Require Import Refcount RefcountProofs Scalar ScalarProofs IntervalArith IntervalArithProofs.
Import ListNotations.

(* the counter of every object equals the number of outstanding user references plus the contribution of
   the contexts pointing at it; liveness is "counter positive" - for every history of permitted calls *)
Theorem C19_refcount_invariant : forall ops, RefcountProofs.Inv (fst (run ops)) (snd (run ops)).
Proof. exact run_inv. Qed.
Print Assumptions C19_refcount_invariant.

(* an object stays allocated exactly while somebody holds it *)
Theorem C19_live_iff_held : forall ops x, let '(s, h) := run ops in x < nxt s ->
  (live s x = true <-> 0 < h x + psum s x (nxt s)).
Proof. exact live_iff_held. Qed.
Print Assumptions C19_live_iff_held.

(* after every holder has detached nothing remains allocated *)
Theorem C19_all_released_nothing_live : forall ops,
  let '(s, h) := run ops in (forall x, h x = 0) -> forall x, live s x = false.
Proof. exact all_released_nothing_live. Qed.
Print Assumptions C19_all_released_nothing_live.

(* calls inside the contract never touch a destroyed object, directly or through a context's pointers *)
Theorem C19_no_use_after_destroy : forall ops o,
  let '(s, h) := run ops in permitted s h o = true ->
  match o with
  | New ks => forall k, In k ks -> live s k = true
  | Attach i => live s i = true /\ forall k, In k (kids s i) -> live s k = true
  | Detach i => live s i = true /\ forall k, In k (kids s i) -> live s k = true
  end.
Proof. exact permitted_targets_live. Qed.
Print Assumptions C19_no_use_after_destroy.

(* output operands of the dyadic layer (full list in Properties_C17.v) *)
Theorem C19_dst_independent_dy_add : forall al dst a b, alias_ok al dst a b -> dy_add al dst a b = dy_add_pure a b.
Proof. exact dy_add_dst. Qed.
Print Assumptions C19_dst_independent_dy_add.
Theorem C19_dst_independent_dy_neg : forall al dst a, alias1_ok al dst a -> dy_neg al dst a = dy_neg_pure a.
Proof. exact dy_neg_dst. Qed.
Print Assumptions C19_dst_independent_dy_neg.
Theorem C19_dst_independent_dy_mul_2exp : forall al dst a n, alias1_ok al dst a -> dy_mul_2exp al dst a n = dy_mul_2exp_pure a n.
Proof. exact dy_mul_2exp_dst. Qed.
Print Assumptions C19_dst_independent_dy_mul_2exp.

(* non-vacuity: a history with a ring, a db, an order, a context over them, an extra attach, and full release *)
Example C19_history :
  let ops := [New []; New []; New []; New [0; 1; 2]; Attach 3; Detach 0; Detach 1; Detach 2; Detach 3; Detach 3] in
  forallb (fun k => let sh := fold_left step (firstn k ops) (init, fun _ => 0) in
                    match nth_error ops k with Some o => permitted (fst sh) (snd sh) o | None => true end)
          (seq 0 (length ops)) = true
  /\ live_count (fst (run ops)) 4 = 0
  /\ live_count (fst (run (firstn 8 ops))) 4 = 4.
Proof. vm_compute. repeat split. Qed.

(* output operands of the interval layer: S is the previous content of the output (pt_ok: a point interval keeps its
   unused upper end at the scalar zero, as libpoly's constructors leave it), al the aliasing of the output with the inputs *)
Theorem C19_dst_independent_interval_add : forall (T : Type) (O : sops T) al (S I1 I2 : itv T),
  alias_ok_i al S I1 I2 -> pt_ok O S -> gi_add O al S I1 I2 = gi_add_pure O I1 I2.
Proof. exact @gi_add_dst. Qed.
Print Assumptions C19_dst_independent_interval_add.
Theorem C19_dst_independent_interval_neg : forall (T : Type) (O : sops T) al (N I : itv T),
  alias1_ok_i al N I -> pt_ok O N -> gi_neg O al N I = gi_neg_pure O I.
Proof. exact @gi_neg_dst. Qed.
Print Assumptions C19_dst_independent_interval_neg.
Theorem C19_dst_independent_interval_sub : forall (T : Type) (O : sops T) al (S I1 I2 : itv T),
  alias_ok_i al S I1 I2 -> pt_ok O S -> pt_ok O I2 -> gi_sub O al S I1 I2 = gi_sub_pure O I1 I2.
Proof. exact @gi_sub_dst. Qed.
Print Assumptions C19_dst_independent_interval_sub.
Theorem C19_dst_independent_interval_mul : forall (T : Type) (O : sops T) al (P I1 I2 : itv T),
  alias_ok_i al P I1 I2 -> pt_ok O P -> gi_mul O al P I1 I2 = gi_mul_pure O I1 I2.
Proof. exact @gi_mul_dst. Qed.
Print Assumptions C19_dst_independent_interval_mul.
Theorem C19_dst_independent_interval_pow : forall (T : Type) (O : sops T) al (P I : itv T) (n : N),
  alias1_ok_i al P I -> pt_ok O P -> gi_pow O al P I n = gi_pow_pure O I n.
Proof. exact @gi_pow_dst. Qed.
Print Assumptions C19_dst_independent_interval_pow.
