(* C03: meaning of the reference gcd / content / primitive part of UPoly.v and of the checkers of Gcd.v
   in MathComp's {poly Z}; Gauss' lemma is imported from mathcomp.algebra.intdiv through the ring
   isomorphism Z ~ int of mathcomp.zify.ssrZ. *)
From Coq Require Import ZArith List.
From LP Require Import Scalar UPoly Gcd GcdLemmas.
Set Warnings "-notation-overridden,-ambiguous-paths".
From mathcomp Require Import all_ssreflect all_algebra.
From mathcomp Require Import ssrZ zify.
Set Warnings "notation-overridden,ambiguous-paths".
From LP Require Import UPolySpec.
Import GRing.Theory.
Set Implicit Arguments.
Unset Strict Implicit.
Unset Printing Implicit Defensive.
Local Open Scope ring_scope.
Delimit Scope Z_scope with ZZ.

(* ------------------------------------------------------------------ divisibility in a commutative ring *)
Section RDvd.
Variable R : idomainType.
Implicit Types a b c d : R.

Definition rdvd d a := exists q, a = d * q.

Lemma rdvd_refl a : rdvd a a. Proof. by exists 1; rewrite mulr1. Qed.
Lemma rdvd0 d : rdvd d 0. Proof. by exists 0; rewrite mulr0. Qed.
Lemma rdvd_trans b a c : rdvd a b -> rdvd b c -> rdvd a c.
Proof. by move=> [q ->] [q' ->]; exists (q * q'); rewrite mulrA. Qed.
Lemma rdvd_mulr d a c : rdvd d a -> rdvd d (a * c).
Proof. by move=> [q ->]; exists (q * c); rewrite mulrA. Qed.
Lemma rdvd_mull d a c : rdvd d a -> rdvd d (c * a).
Proof. by rewrite mulrC; apply: rdvd_mulr. Qed.
Lemma rdvd_add d a b : rdvd d a -> rdvd d b -> rdvd d (a + b).
Proof. by move=> [q ->] [q' ->]; exists (q + q'); rewrite mulrDr. Qed.
Lemma rdvd_opp d a : rdvd d a -> rdvd d (- a).
Proof. by move=> [q ->]; exists (- q); rewrite mulrN. Qed.
Lemma rdvd_sub d a b : rdvd d a -> rdvd d b -> rdvd d (a - b).
Proof. by move=> Ha Hb; apply: rdvd_add => //; apply: rdvd_opp. Qed.
Lemma rdvd_oppl d a : rdvd d a -> rdvd (- d) a.
Proof. by move=> [q ->]; exists (- q); rewrite mulrNN. Qed.
Lemma rdvd_mul d a d' a' : rdvd d a -> rdvd d' a' -> rdvd (d * d') (a * a').
Proof. by move=> [q ->] [q' ->]; exists (q * q'); rewrite mulrACA. Qed.
Lemma rdvd_0l a : rdvd 0 a -> a = 0.
Proof. by move=> [q ->]; rewrite mul0r. Qed.
Lemma rdvd_cancel c d a : c != 0 -> rdvd (c * d) (c * a) -> rdvd d a.
Proof. by move=> c0 [q E]; exists q; apply: (mulfI c0); rewrite E mulrA. Qed.
End RDvd.

(* ------------------------------------------------------------------ small bridges *)
Lemma Zpow_exp (x : Z) (n : nat) : Z.pow x (Z.of_nat n) = x ^+ n.
Proof.
elim: n => [|n IH]; first by rewrite expr0.
by rewrite Nat2Z.inj_succ Z.pow_succ_r ?IH ?exprS //; lia.
Qed.

Lemma Zpow_pos_exp (x : Z) (f : nat) : Z.pow_pos x (Pos.of_succ_nat f) = x ^+ f.+1.
Proof. by rewrite -Zpow_exp. Qed.

Lemma Poly1 (c : Z) : Poly [:: c] = c%:P.
Proof. by rewrite /= cons_poly_def mul0r add0r. Qed.

Lemma polyseqK_Z (q : {poly Z}) : Poly (polyseq q) = q.
Proof. exact: polyseqK. Qed.

Lemma pnorm_eq_Poly (p q : seq Z) : pnorm p = pnorm q <-> Poly p = Poly q.
Proof.
split; last exact: Poly_inj_norm.
by move=> E; rewrite -(Poly_pnorm p) -(Poly_pnorm q) E.
Qed.

Lemma pnorm_nil_Poly (p : seq Z) : pnorm p = [::] <-> Poly p = 0.
Proof.
split=> [E|E]; first by rewrite -Poly_pnorm E.
by rewrite -polyseq_Poly_pnorm E polyseq0.
Qed.

Lemma plc_neq0 (p : seq Z) : Poly p != 0 -> plc p != 0.
Proof. by rewrite -lead_coef_plc lead_coef_eq0. Qed.

Lemma size_Poly_length (p : seq Z) : size (Poly p) = psize p.
Proof. by rewrite size_Poly_pnorm. Qed.

(* ------------------------------------------------------------------ divisibility of coefficient lists *)
(* d divides a in Z[x] *)
Definition pdivides (d a : seq Z) : Prop := exists q : seq Z, pnorm (pmul d q) = pnorm a.

Lemma pdividesP (d a : seq Z) : pdivides d a <-> rdvd (Poly d) (Poly a).
Proof.
split=> [[q /pnorm_eq_Poly E]|[q E]].
  by exists (Poly q); rewrite -E Poly_pmul.
by exists (polyseq q); apply/pnorm_eq_Poly; rewrite Poly_pmul polyseqK_Z.
Qed.

(* ------------------------------------------------------------------ Gauss' lemma, through Z ~ int *)
Section Gauss.
Local Notation fZ := (map_poly int_of_Z).
Local Notation gZ := (map_poly Z_of_int).

Lemma fZK : cancel fZ gZ.
Proof. by move=> p; rewrite -map_poly_comp map_poly_id // => x _ /=; rewrite int_of_ZK. Qed.
Lemma gZK : cancel gZ fZ.
Proof. by move=> p; rewrite -map_poly_comp map_poly_id // => x _ /=; rewrite Z_of_intK. Qed.

(* primitive: only +-1 divides all the coefficients *)
Definition zprim (g : {poly Z}) : Prop :=
  forall d : Z, (forall i, exists k, g`_i = d * k) -> d = 1 \/ d = -1.

Lemma scale_inj_poly (R : idomainType) (c : R) (p q : {poly R}) : c != 0 -> c *: p = c *: q -> p = q.
Proof.
move=> c0 E; apply/eqP; rewrite -subr_eq0.
have: c *: (p - q) == 0 by rewrite scalerBr E subrr.
by rewrite scale_poly_eq0 (negbTE c0).
Qed.

Lemma zprim_contents g : zprim g -> zcontents (fZ g) = 1 \/ zcontents (fZ g) = -1.
Proof.
move=> Hg; set c := zcontents _.
have Hc i : (c %| (fZ g)`_i)%Z.
  have := dvdz_contents c (fZ g); rewrite dvdzz => /esym/polyOverP H; exact: H.
have [i|E|E] := Hg (Z_of_int c).
- have /dvdzP [q Eq] := Hc i; exists (Z_of_int q).
  by rewrite mulrC -rmorphM -Eq coef_map /= int_of_ZK.
- by left; apply: (can_inj Z_of_intK); rewrite E.
- by right; apply: (can_inj Z_of_intK); rewrite E rmorphN rmorph1.
Qed.

Lemma gauss_cancel (g a q : {poly Z}) (c : Z) :
  zprim g -> c != 0 -> c *: a = g * q -> rdvd g a.
Proof.
move=> Hg c0 E.
have c0' : int_of_Z c != 0.
  by apply: contra c0 => /eqP E0; rewrite -(int_of_ZK c) E0.
have E' : int_of_Z c *: fZ a = fZ g * fZ q by rewrite -map_polyZ E rmorphM.
have C : (int_of_Z c %| zcontents (fZ q))%Z.
  have := congr1 zcontents E'; rewrite zcontentsZ zcontentsM.
  case: (zprim_contents Hg) => ->; rewrite ?mul1r ?mulN1r => H.
    by rewrite -H dvdz_mulr.
  by apply/dvdzP; exists (- zcontents (fZ a)); rewrite mulNr mulrC H opprK.
have /polyOverP Hq : fZ q \is a polyOver (dvdz (int_of_Z c)) by rewrite -dvdz_contents.
pose q' : {poly int} := map_poly (divz^~ (int_of_Z c)) (fZ q).
have Eq : fZ q = int_of_Z c *: q'.
  apply/polyP => i; rewrite coefZ [q'`_i]coef_map_id0 ?div0z // mulrC divzK //; exact: Hq.
exists (gZ q'); apply: (can_inj fZK); rewrite rmorphM /= gZK.
apply: (scale_inj_poly c0'); rewrite E' Eq.
by rewrite -!mul_polyC mulrCA.
Qed.
End Gauss.

(* ------------------------------------------------------------------ content and primitive part of Z[x] *)
Lemma In_nth_ssr (x : Z) (l : seq Z) : List.In x l -> exists i, nth 0 l i = x.
Proof.
elim: l => [|c l IH] //= [->|/IH [i Hi]]; first by exists 0%N.
by exists i.+1.
Qed.

Lemma nth_In_ssr (l : seq Z) (i : nat) : nth 0 l i = 0 \/ List.In (nth 0 l i) l.
Proof.
elim: l i => [|c l IH] [|i] /=; try by left.
  by right; left.
by case: (IH i) => [->|H]; [left|right; right].
Qed.

Lemma pcontent1_zprim (g : seq Z) : pcontent g = 1%ZZ -> zprim (Poly g).
Proof.
move=> Hc d Hd.
have D : (d | pcontent g)%ZZ.
  apply: pcontent_greatest => x /In_nth_ssr [i Hi].
  have [k Hk] := Hd i; exists k.
  by rewrite -Hi -coef_Poly_nth Hk mulrC.
by rewrite Hc in D; apply: Z.divide_1_r.
Qed.

Lemma dvd_all_pcontent (d : Z) (a : seq Z) :
  (forall i, exists k, (Poly a)`_i = d * k) -> (d | pcontent a)%ZZ.
Proof.
move=> Hd; apply: pcontent_greatest => x /In_nth_ssr [i Hi].
by have [k Hk] := Hd i; exists k; rewrite -Hi -coef_Poly_nth Hk mulrC.
Qed.

Lemma pcontent_neq0 (p : seq Z) : Poly p != 0 -> pcontent p <> 0%ZZ.
Proof. by move=> H /pcontent_eq0_pnorm /pnorm_nil_Poly E; rewrite E eqxx in H. Qed.

Lemma Poly_pdivc_content (p : seq Z) :
  Poly p != 0 -> Poly p = pcontent p *: Poly (pdivc (pnorm p) (pcontent p)).
Proof.
move=> /pcontent_neq0 Hc; rewrite -Poly_pscale pscale_pdivc ?Poly_pnorm //.
by move=> x Hx; rewrite -pcontent_pnorm; apply: pcontent_divide.
Qed.

Lemma ppp_spec (p : seq Z) : Poly p != 0 ->
  [/\ Poly p = content_Z p *: Poly (ppp p), pcontent (ppp p) = 1%ZZ & (0 < plc (ppp p))%ZZ].
Proof.
move=> p0; have Hc := pcontent_neq0 p0.
have cpos : (0 < pcontent p)%ZZ by have := pcontent_nonneg p; lia.
set q := pdivc (pnorm p) (pcontent p).
have Eq : Poly p = pcontent p *: Poly q := Poly_pdivc_content p0.
have q0 : Poly q != 0.
  by apply: contra p0 => /eqP E; rewrite Eq E scaler0.
have Hlc : plc p = (pcontent p * plc q)%ZZ by rewrite -!lead_coef_plc Eq lead_coefZ.
have Hq1 : pcontent q = 1%ZZ.
  by rewrite /q -(pcontent_pnorm p); apply: pcontent_pdivc; rewrite pcontent_pnorm.
have lq0 : plc q <> 0%ZZ by apply/eqP/plc_neq0.
rewrite /ppp /content_Z; move/Z.eqb_neq: (Hc) => ->; rewrite -/q.
case: (Z.ltb_spec (plc q) 0) => Hlt.
- have -> : (plc p <? 0)%ZZ = true by apply/Z.ltb_lt; nia.
  split.
  + by rewrite Poly_pneg scalerN -scaleNr opprK.
  + by rewrite pcontent_pneg.
  + by rewrite -lead_coef_plc Poly_pneg lead_coefN lead_coef_plc; lia.
- have -> : (plc p <? 0)%ZZ = false by apply/Z.ltb_ge; nia.
  by split=> //; lia.
Qed.

Lemma ppp_zero (p : seq Z) : Poly p = 0 -> ppp p = [::].
Proof.
by move=> /pnorm_nil_Poly/pcontent_eq0_pnorm E; rewrite /ppp E.
Qed.

Lemma Poly_ppp_eq0 (p : seq Z) : (Poly (ppp p) == 0) = (Poly p == 0).
Proof.
case: (altP (Poly p =P 0)) => [E|p0]; first by rewrite ppp_zero //= eqxx.
have [_ _ H] := ppp_spec p0.
by apply/negbTE; rewrite -lead_coef_eq0 lead_coef_plc; apply/eqP; lia.
Qed.

Lemma size_ppp (p : seq Z) : size (Poly (ppp p)) = size (Poly p).
Proof.
case: (altP (Poly p =P 0)) => [E|p0]; first by rewrite ppp_zero // E.
have [E _ _] := ppp_spec p0.
rewrite [in RHS]E size_scale //.
by apply: contra p0 => /eqP c0; rewrite E c0 scale0r.
Qed.

Lemma ppp_dvd (p : seq Z) : rdvd (Poly (ppp p)) (Poly p).
Proof.
case: (altP (Poly p =P 0)) => [->|p0]; first exact: rdvd0.
have [E _ _] := ppp_spec p0.
by exists (content_Z p)%:P; rewrite mulrC mul_polyC.
Qed.

Lemma zprim_ppp (p : seq Z) : Poly p != 0 -> zprim (Poly (ppp p)).
Proof. by move=> /ppp_spec [_ H _]; apply: pcontent1_zprim. Qed.

(* ------------------------------------------------------------------ pseudo-division of the reference *)
Lemma ppdivmod_aux_S f (q r b : seq Z) (db : nat) (lb : Z) :
  ppdivmod_aux f.+1 q r b db lb =
  match pnorm r with
  | [::] => (pscale (Z.pow lb (Z.of_nat f.+1)) q, [::])
  | _ => let r := pnorm r in
    let dr := Nat.pred (length r) in
    if Nat.ltb dr db then (pscale (Z.pow lb (Z.of_nat f.+1)) q, pscale (Z.pow lb (Z.of_nat f.+1)) r)
    else let t := pshift (dr - db) [:: List.last r 0] in
         ppdivmod_aux f (padd (pscale lb q) t) (psub (pscale lb r) (pmul t b)) b db lb
  end.
Proof. by rewrite /=; case: (pnorm r). Qed.

Lemma ltbP (m n : nat) : Nat.ltb m n = (m < n)%N.
Proof. by apply/idP/idP => [/Nat.ltb_lt|] H; [|apply/Nat.ltb_lt]; lia. Qed.

Section Prem.
Variable b : seq Z.
Hypothesis bnorm : pnorm b = b.
Hypothesis b0 : Poly b != 0.
Let B : {poly Z} := Poly b.
Let db := Nat.pred (length b).
Let lb := List.last b 0.

Lemma size_B : size B = db.+1.
Proof.
rewrite /B /db size_Poly_pnorm bnorm.
case: b b0 => [|c l] //=; by rewrite eqxx.
Qed.

Lemma lead_B : B`_db = lb.
Proof.
have := lead_coef_plc b; rewrite lead_coefE size_B /= /plc bnorm -/lb => <-.
by [].
Qed.

Lemma ppdivmod_aux_spec fuel (q r q1 r1 : seq Z) :
  ppdivmod_aux fuel q r b db lb = (q1, r1) ->
  lb ^+ fuel *: (Poly q * B + Poly r) = Poly q1 * B + Poly r1
  /\ ((size (Poly r) <= db + fuel)%N -> (size (Poly r1) <= db)%N).
Proof.
elim: fuel q r => [|f IH] q r.
  by move=> [<- <-]; rewrite expr0 scale1r addn0.
rewrite ppdivmod_aux_S.
case E: (pnorm r) => [|c r'].
  have R0 : Poly r = 0 by apply/pnorm_nil_Poly.
  move=> [<- <-]; rewrite Poly_pscale Zpow_pos_exp R0 !addr0 scalerAl; split=> // _.
  by rewrite size_poly0.
rewrite -E; set R' := pnorm r; set dr := Nat.pred (length R').
have szR : size (Poly r) = dr.+1.
  by rewrite size_Poly_pnorm /dr -/R' /R' E.
have PR : Poly R' = Poly r by rewrite /R' Poly_pnorm.
cbv zeta; rewrite ltbP; case: ltnP => Hd.
  move=> [<- <-]; rewrite !Poly_pscale Zpow_pos_exp PR scalerDr scalerAl; split=> // _.
  by apply: leq_trans (size_scale_leq _ _) _; rewrite szR.
set lr := List.last R' 0.
set t := pshift (dr - db) [:: lr].
have Pt : Poly t = lr%:P * 'X^(dr - db) by rewrite /t Poly_pshift Poly1.
move=> /IH [IH1 IH2].
have Hlr : (Poly r)`_dr = lr.
  by rewrite -PR /lr List_last_nth coef_Poly_nth.
split.
  rewrite -IH1 exprSr -scalerA; congr (_ *: _).
  rewrite Poly_padd Poly_psub !Poly_pscale Poly_pmul PR -/B.
  by rewrite mulrDl scalerDr -scalerAl addrCA addrK addrC.
move=> Hsz; apply: IH2.
have Hdr : (dr <= db + f)%N by rewrite szR addnS ltnS in Hsz.
apply: leq_trans Hdr; apply/leq_sizeP => j Hj.
rewrite Poly_psub Poly_pscale Poly_pmul PR Pt -/B coefB coefZ -mulrA coefCM coefXnM.
have -> : (j < dr - db)%N = false by apply/negbTE; rewrite -leqNgt; lia.
case: (ltngtP dr j) Hj => // [Hlt|<-] _.
  rewrite (nth_default _ (_ : size (Poly r) <= j)%N) ?szR //.
  rewrite (nth_default _ (_ : size B <= j - (dr - db))%N) ?mulr0 ?subrr // size_B.
  by lia.
have -> : (dr - (dr - db) = db)%N by lia.
by rewrite lead_B Hlr mulrC subrr.
Qed.
End Prem.

Lemma pnorm_idem (p : seq Z) : pnorm (pnorm p) = pnorm p.
Proof. by rewrite -!polyseq_Poly_pnorm polyseqK. Qed.

Lemma pprem_spec (a b : seq Z) : Poly b != 0 ->
  exists (k : nat) (q : {poly Z}),
    plc b ^+ k *: Poly a = q * Poly b + Poly (pprem a b)
    /\ (size (Poly (pprem a b)) < size (Poly b))%N.
Proof.
move=> b0; rewrite /pprem /ppdivmod.
set a' := pnorm a; set b' := pnorm b.
have bn : pnorm b' = b' := pnorm_idem b.
have b0' : Poly b' != 0 by rewrite /b' Poly_pnorm.
have Pa : Poly a' = Poly a := Poly_pnorm a.
have Pb : Poly b' = Poly b := Poly_pnorm b.
have sa : size (Poly a) = length a' by rewrite size_Poly_pnorm.
have sb : size (Poly b) = (Nat.pred (length b')).+1 by rewrite -Pb (size_B bn b0').
rewrite ltbP; case: ltnP => Hd.
  exists 0%N, 0; rewrite expr0 scale1r mul0r add0r /= Pa; split=> //.
  by rewrite sa sb; lia.
case H: (ppdivmod_aux _ _ _ _ _ _) => [q r] /=.
have [H1 H2] := ppdivmod_aux_spec bn b0' H.
exists (Nat.pred (length a') - Nat.pred (length b')).+1, (Poly q).
rewrite Poly_pnorm -Pb -H1 /= mul0r add0r Pa; split=> //.
rewrite Pb sb ltnS; apply: H2; rewrite Pa sa; lia.
Qed.

(* ------------------------------------------------------------------ the primitive Euclidean PRS *)
Lemma pnorm_cons_Poly (b : seq Z) c l : pnorm b = c :: l -> Poly b != 0.
Proof. by move=> E; apply/eqP => /pnorm_nil_Poly; rewrite E. Qed.

Lemma prs_step_up (a b : seq Z) (d : {poly Z}) : Poly b != 0 -> zprim d ->
  rdvd d (Poly b) -> rdvd d (Poly (ppp (pprem a b))) -> rdvd d (Poly a).
Proof.
move=> b0 Hd Db Dr.
have [k [q [E _]]] := pprem_spec a b0.
have Dr' : rdvd d (Poly (pprem a b)) := rdvd_trans Dr (ppp_dvd _).
have [q' Eq] : rdvd d (plc b ^+ k *: Poly a).
  by rewrite E; apply: rdvd_add => //; apply: rdvd_mull.
by apply: (gauss_cancel Hd _ Eq); apply: expf_neq0; apply: plc_neq0.
Qed.

Lemma prs_step_down (a b : seq Z) (d : {poly Z}) : Poly b != 0 -> zprim d ->
  rdvd d (Poly a) -> rdvd d (Poly b) -> rdvd d (Poly (ppp (pprem a b))).
Proof.
move=> b0 Hd Da Db; set r := pprem a b.
case: (altP (Poly r =P 0)) => [E|r0]; first by rewrite ppp_zero //; apply: rdvd0.
have [k [q [E _]]] := pprem_spec a b0.
have [q' Eq] : rdvd d (Poly r).
  have -> : Poly r = plc b ^+ k *: Poly a - q * Poly b by rewrite E addrC addKr.
  apply: rdvd_sub; last exact: rdvd_mull.
  by rewrite -mul_polyC; apply: rdvd_mull.
have [Er _ _] := ppp_spec r0.
rewrite Er in Eq; apply: (gauss_cancel Hd _ Eq).
by apply: contra r0 => /eqP c0; rewrite Er c0 scale0r.
Qed.

Lemma pgcd_prim_aux_greatest fuel (a b : seq Z) (d : {poly Z}) : zprim d ->
  rdvd d (Poly a) -> rdvd d (Poly b) -> rdvd d (Poly (pgcd_prim_aux fuel a b)).
Proof.
move=> Hd; elim: fuel a b => [|f IH] a b Da Db //=.
case E: (pnorm b) => [|c l] //.
by apply: IH => //; apply: prs_step_down => //; apply: pnorm_cons_Poly E.
Qed.

Lemma pgcd_prim_aux_dvd fuel (a b : seq Z) : (size (Poly b) < fuel)%N ->
  rdvd (Poly (ppp (pgcd_prim_aux fuel a b))) (Poly a) /\
  rdvd (Poly (ppp (pgcd_prim_aux fuel a b))) (Poly b).
Proof.
elim: fuel a b => [|f IH] a b //= Hf.
case E: (pnorm b) => [|c l].
  split; first exact: ppp_dvd.
  by have /pnorm_nil_Poly -> := E; apply: rdvd0.
have b0 : Poly b != 0 := pnorm_cons_Poly E.
set r' := ppp (pprem a b).
have [k [q [_ Hs]]] := pprem_spec a b0.
have [|Gb Gr] := IH b r'.
  by rewrite /r' size_ppp; apply: leq_trans Hs _.
have Hz : zprim (Poly (ppp (pgcd_prim_aux f b r'))).
  apply: zprim_ppp; apply/eqP => X0.
  by move: Gb; rewrite (ppp_zero X0) => /rdvd_0l /eqP; rewrite (negbTE b0).
by split=> //; apply: (prs_step_up b0 Hz Gb Gr).
Qed.

(* ------------------------------------------------------------------ the reference gcd *)
Lemma rdvd_scale (c1 c2 : Z) (x y : {poly Z}) :
  (c1 | c2)%ZZ -> rdvd x y -> rdvd (c1 *: x) (c2 *: y).
Proof.
move=> [k ->] [q ->]; exists (k *: q).
by rewrite -scalerAr -scalerAl scalerA.
Qed.

Lemma content_Z_abs (p : seq Z) : content_Z p = pcontent p \/ content_Z p = (- pcontent p)%ZZ.
Proof. by rewrite /content_Z; case: Z.ltb; [right|left]. Qed.

Lemma Poly_content_ppp (p : seq Z) : Poly p = content_Z p *: Poly (ppp p).
Proof.
case: (altP (Poly p =P 0)) => [E|/ppp_spec [] //].
by rewrite ppp_zero //= scaler0.
Qed.

Lemma rdvd_cppp (p : seq Z) : rdvd (pcontent p *: Poly (ppp p)) (Poly p).
Proof.
rewrite [X in rdvd _ X]Poly_content_ppp; apply: rdvd_scale (rdvd_refl _).
by case: (content_Z_abs p) => ->; [exists 1%ZZ|exists (-1)%ZZ]; lia.
Qed.

Lemma rdvd_cppp' (p : seq Z) : rdvd (Poly p) (pcontent p *: Poly (ppp p)).
Proof.
rewrite [X in rdvd X _]Poly_content_ppp; apply: rdvd_scale (rdvd_refl _).
by case: (content_Z_abs p) => ->; [exists 1%ZZ|exists (-1)%ZZ]; lia.
Qed.

Lemma pgcd_cases (a b : seq Z) :
  [\/ [/\ Poly a = 0, Poly b = 0 & pgcd a b = [::]],
      [/\ Poly a = 0, Poly b != 0 & pgcd a b = pscale (pcontent (pnorm b)) (ppp (pnorm b))],
      [/\ Poly a != 0, Poly b = 0 & pgcd a b = pscale (pcontent (pnorm a)) (ppp (pnorm a))]
    | [/\ Poly a != 0, Poly b != 0 &
        exists fuel u v, [/\ pgcd a b = pscale (Z.gcd (pcontent (pnorm a)) (pcontent (pnorm b)))
                                          (ppp (pgcd_prim_aux fuel u v)),
                            (size (Poly v) < fuel)%N
                          & (u = ppp (pnorm a) /\ v = ppp (pnorm b)) \/ (u = ppp (pnorm b) /\ v = ppp (pnorm a))]]].
Proof.
rewrite /pgcd.
case Ea: (pnorm a) => [|ca la]; case Eb: (pnorm b) => [|cb lb].
- by apply: Or41; split=> //; apply/pnorm_nil_Poly.
- apply: Or42; split=> //; first exact/pnorm_nil_Poly.
  exact: pnorm_cons_Poly Eb.
- apply: Or43; split=> //; last exact/pnorm_nil_Poly.
  exact: pnorm_cons_Poly Ea.
- apply: Or44; split; [exact: pnorm_cons_Poly Ea|exact: pnorm_cons_Poly Eb|].
  case: ifP => _.
    exists (length (ppp (ca :: la))).+1, (ppp (cb :: lb)), (ppp (ca :: la)); split=> //; last by right.
    by rewrite ltnS; apply: size_Poly.
  exists (length (ppp (cb :: lb))).+1, (ppp (ca :: la)), (ppp (cb :: lb)); split=> //; last by left.
  by rewrite ltnS; apply: size_Poly.
Qed.

Theorem pgcd_dvd (a b : seq Z) :
  rdvd (Poly (pgcd a b)) (Poly a) /\ rdvd (Poly (pgcd a b)) (Poly b).
Proof.
case: (pgcd_cases a b) => [[a0 b0 ->]|[a0 b0 ->]|[a0 b0 ->]|[a0 b0 [fuel [u [v [-> Hf Huv]]]]]].
- by rewrite a0 b0; split; apply: rdvd0.
- rewrite a0 Poly_pscale; split; first exact: rdvd0.
  by rewrite -[X in rdvd _ X]Poly_pnorm; apply: rdvd_cppp.
- rewrite b0 Poly_pscale; split; last exact: rdvd0.
  by rewrite -[X in rdvd _ X]Poly_pnorm; apply: rdvd_cppp.
- have [Gu Gv] := pgcd_prim_aux_dvd u Hf.
  have Ha : rdvd (Poly (ppp (pgcd_prim_aux fuel u v))) (Poly (ppp (pnorm a))).
    by case: Huv => [[<- _]|[_ <-]].
  have Hb : rdvd (Poly (ppp (pgcd_prim_aux fuel u v))) (Poly (ppp (pnorm b))).
    by case: Huv => [[_ <-]|[<- _]].
  rewrite Poly_pscale; split.
  + rewrite -(Poly_pnorm a); apply: (rdvd_trans _ (rdvd_cppp _)).
    by apply: rdvd_scale Ha; apply: Z.gcd_divide_l.
  + rewrite -(Poly_pnorm b); apply: (rdvd_trans _ (rdvd_cppp _)).
    by apply: rdvd_scale Hb; apply: Z.gcd_divide_r.
Qed.

Lemma rdvd_content (d : {poly Z}) (c : Z) (a : seq Z) :
  rdvd (c *: d) (Poly a) -> (c | pcontent a)%ZZ.
Proof.
move=> [q E]; apply: dvd_all_pcontent => i.
by exists (d * q)`_i; rewrite E -scalerAl coefZ.
Qed.

Lemma rdvd_prim_pp (d : {poly Z}) (a : seq Z) :
  zprim d -> rdvd d (Poly a) -> rdvd d (Poly (ppp a)).
Proof.
move=> Hd; case: (altP (Poly a =P 0)) => [a0 _|a0 [q Eq]].
  by rewrite ppp_zero //; apply: rdvd0.
have [Ea _ _] := ppp_spec a0; rewrite Ea in Eq.
apply: (gauss_cancel Hd _ Eq).
by apply: contra a0 => /eqP c0; rewrite Ea c0 scale0r.
Qed.

Theorem pgcd_greatest (a b : seq Z) (d : {poly Z}) :
  rdvd d (Poly a) -> rdvd d (Poly b) -> rdvd d (Poly (pgcd a b)).
Proof.
move=> Da Db.
case: (pgcd_cases a b) => [[a0 b0 ->]|[a0 b0 ->]|[a0 b0 ->]|[a0 b0 [fuel [u [v [-> Hf Huv]]]]]].
- exact: rdvd0.
- by rewrite Poly_pscale; apply: rdvd_trans (rdvd_cppp' _); rewrite Poly_pnorm.
- by rewrite Poly_pscale; apply: rdvd_trans (rdvd_cppp' _); rewrite Poly_pnorm.
- have d0 : d != 0.
    by apply: contra a0 => /eqP d0; move: Da; rewrite d0 => /rdvd_0l ->.
  pose dl := polyseq d.
  have Pd : Poly dl = d by rewrite /dl polyseqK.
  have dl0 : Poly dl != 0 by rewrite Pd.
  have [Ed _ _] := ppp_spec dl0.
  have Hp := zprim_ppp dl0.
  set pd := Poly (ppp dl) in Ed Hp.
  have pdd : rdvd pd d by rewrite -Pd; apply: ppp_dvd.
  have Pa : rdvd pd (Poly (ppp (pnorm a))).
    by apply: rdvd_prim_pp => //; rewrite Poly_pnorm; apply: rdvd_trans pdd Da.
  have Pb : rdvd pd (Poly (ppp (pnorm b))).
    by apply: rdvd_prim_pp => //; rewrite Poly_pnorm; apply: rdvd_trans pdd Db.
  have Pg : rdvd pd (Poly (ppp (pgcd_prim_aux fuel u v))).
    apply: rdvd_prim_pp => //; apply: pgcd_prim_aux_greatest => //.
      by case: Huv => [[-> _]|[-> _]].
    by case: Huv => [[_ ->]|[_ ->]].
  rewrite Poly_pscale -Pd Ed; apply: rdvd_scale Pg.
  have Ca : (content_Z dl | pcontent (pnorm a))%ZZ.
    by apply: (@rdvd_content pd); rewrite -Ed Pd Poly_pnorm.
  have Cb : (content_Z dl | pcontent (pnorm b))%ZZ.
    by apply: (@rdvd_content pd); rewrite -Ed Pd Poly_pnorm.
  exact: Z.gcd_greatest.
Qed.

(* ------------------------------------------------------------------ uniqueness up to sign *)
Lemma rdvd_antisym (a b : {poly Z}) : rdvd a b -> rdvd b a -> a = b \/ a = - b.
Proof.
move=> [q Eb] [q' Ea].
case: (altP (a =P 0)) => [a0|a0]; first by left; rewrite Eb a0 mul0r.
have /(mulfI a0) E1 : a * 1 = a * (q * q') by rewrite mulr1 mulrA -Eb -Ea.
have : size (q * q') == 1%N by rewrite -E1 size_poly1.
rewrite size_mul_eq1 => /andP [/size_poly1P [c c0 Eq] /size_poly1P [c' c0' Eq']].
have cc : (c * c' = 1)%ZZ.
  by apply: (@polyC_inj _); rewrite polyCM -Eq -Eq' -E1.
have [c1|c1] : c = 1%ZZ \/ c = (-1)%ZZ by apply: Z.mul_eq_1 cc.
  by left; rewrite Eb Eq c1 mulr1.
by right; rewrite Eb Eq c1 (_ : (-1)%ZZ = - 1 :> Z) // polyCN mulrN mulr1 opprK.
Qed.

(* g is a greatest common divisor of a and b in Z[x] *)
Definition is_gcd (g a b : seq Z) : Prop :=
  pdivides g a /\ pdivides g b /\ forall d, pdivides d a -> pdivides d b -> pdivides d g.

Lemma Poly_pabs (a : seq Z) : Poly (pabs a) = Poly a \/ Poly (pabs a) = - Poly a.
Proof. by rewrite /pabs; case: Z.ltb; [right; rewrite Poly_pneg Poly_pnorm|left; rewrite Poly_pnorm]. Qed.

Lemma plc_pabs (a : seq Z) : (0 <= plc (pabs a))%ZZ.
Proof.
rewrite /pabs; case: Z.ltb_spec => H.
  by rewrite -lead_coef_plc Poly_pneg Poly_pnorm lead_coefN lead_coef_plc; lia.
by rewrite -lead_coef_plc Poly_pnorm lead_coef_plc.
Qed.

Lemma pabs_norm (a : seq Z) : pnorm (pabs a) = pabs a.
Proof.
by rewrite /pabs; case: Z.ltb; rewrite ?pnorm_pneg pnorm_idem.
Qed.

Definition pabsP (p : {poly Z}) : {poly Z} := if (lead_coef p <? 0)%ZZ then - p else p.

Lemma Poly_pabsP (a : seq Z) : Poly (pabs a) = pabsP (Poly a).
Proof. by rewrite /pabs /pabsP lead_coef_plc; case: Z.ltb; rewrite ?Poly_pneg Poly_pnorm. Qed.

Lemma pabsPN (p : {poly Z}) : pabsP (- p) = pabsP p.
Proof.
rewrite /pabsP lead_coefN.
case: (altP (p =P 0)) => [->|p0]; first by rewrite lead_coef0 oppr0 /= oppr0.
have : lead_coef p != 0 by rewrite lead_coef_eq0.
move/eqP; case: Z.ltb_spec; case: Z.ltb_spec => //; rewrite ?opprK //; lia.
Qed.

Lemma eq_or_opp_pabs (a b : seq Z) : Poly a = Poly b \/ Poly a = - Poly b -> pabs a = pabs b.
Proof.
move=> H; rewrite -(pabs_norm a) -(pabs_norm b); apply: Poly_inj_norm.
by rewrite !Poly_pabsP; case: H => ->; rewrite ?pabsPN.
Qed.

Theorem gcd_unique_up_to_sign (g1 g2 a b : seq Z) :
  is_gcd g1 a b -> is_gcd g2 a b -> pabs g1 = pabs g2.
Proof.
move=> [A1 [B1 G1]] [A2 [B2 G2]]; apply: eq_or_opp_pabs.
by apply: rdvd_antisym; apply/pdividesP; [apply: G2|apply: G1].
Qed.

(* ------------------------------------------------------------------ model-level statements *)
Theorem pgcd_is_gcd (a b : seq Z) : is_gcd (pgcd a b) a b.
Proof.
have [Ha Hb] := pgcd_dvd a b.
split; [exact/pdividesP|split; [exact/pdividesP|]].
by move=> d /pdividesP Da /pdividesP Db; apply/pdividesP; apply: pgcd_greatest.
Qed.

Lemma pdivides_trans (b a c : seq Z) : pdivides a b -> pdivides b c -> pdivides a c.
Proof. by move=> /pdividesP H1 /pdividesP H2; apply/pdividesP; apply: rdvd_trans H1 H2. Qed.

Lemma pdivides_b_sound (d a : seq Z) : pdivides_b d a = true -> pdivides d a.
Proof.
rewrite /pdivides_b; case E: (pnorm d) => [|c l].
  move/pis_zeroP => a0; exists [::]; apply/pnorm_eq_Poly.
  by rewrite Poly_pmul a0 /= mulr0.
case: (pdiv_exact a d) => [q|] // /peqbP E'.
by exists q; apply/pnorm_eq_Poly.
Qed.

Theorem gcd_check_Z_sound (g a b : seq Z) : gcd_check_Z g a b = true -> is_gcd g a b.
Proof.
rewrite /gcd_check_Z => /andP [/andP [/pdivides_b_sound Ga /pdivides_b_sound Gb] /pdivides_b_sound Gg].
split=> //; split=> // d Da Db; apply: pdivides_trans Gg.
by have [_ [_ H]] := pgcd_is_gcd a b; apply: H.
Qed.

Lemma plc_ppp_ge0 (x : seq Z) : (0 <= plc (ppp x))%ZZ.
Proof.
case: (altP (Poly x =P 0)) => [x0|/ppp_spec [_ _]]; last by lia.
by rewrite ppp_zero.
Qed.

Lemma plc_cppp_ge0 (c : Z) (x : seq Z) : (0 <= c)%ZZ -> (0 <= plc (pscale c (ppp x)))%ZZ.
Proof.
move=> c0; rewrite -lead_coef_plc Poly_pscale lead_coefZ lead_coef_plc.
by have := @plc_ppp_ge0 x; nia.
Qed.

Lemma plc_pgcd_ge0 (a b : seq Z) : (0 <= plc (pgcd a b))%ZZ.
Proof.
case: (pgcd_cases a b) => [[_ _ ->]|[_ _ ->]|[_ _ ->]|[_ _ [fuel [u [v [-> _ _]]]]]] //;
  apply: plc_cppp_ge0; try exact: pcontent_nonneg.
exact: Z.gcd_nonneg.
Qed.

(* the normalised gcd is THE reference gcd: what the driver compares *)
Theorem gcd_is_reference (g a b : seq Z) : is_gcd g a b -> peqb (pabs g) (pgcd a b) = true.
Proof.
move=> Hg; have E := gcd_unique_up_to_sign Hg (pgcd_is_gcd a b).
apply/peqbP; rewrite E /pabs.
have := @plc_pgcd_ge0 a b; case: Z.ltb_spec; first by lia.
by rewrite Poly_pnorm.
Qed.

(* ------------------------------------------------------------------ content / primitive part, as the C code computes them *)
Theorem content_pp_Z (a : seq Z) : pnorm a <> [::] ->
  pnorm (pscale (content_Z a) (ppp a)) = pnorm a /\ pcontent (ppp a) = 1%ZZ /\ (0 < plc (ppp a))%ZZ.
Proof.
move=> Ha; have a0 : Poly a != 0 by apply/eqP => /pnorm_nil_Poly.
have [E H1 H2] := ppp_spec a0; split=> //.
by apply/pnorm_eq_Poly; rewrite Poly_pscale.
Qed.

Theorem make_primitive_Z_ppp (a : seq Z) : make_primitive_Z a = ppp a.
Proof.
rewrite /make_primitive_Z /ppp /content_Z.
case: (Z.eqb_spec (pcontent a) 0) => [->|Hc]; first by case: Z.ltb.
have a0 : Poly a != 0.
  by apply/eqP => /pnorm_nil_Poly /pcontent_eq0_pnorm.
have cpos : (0 < pcontent a)%ZZ by have := pcontent_nonneg a; lia.
set q := pdivc (pnorm a) (pcontent a).
have Hlc : plc a = (pcontent a * plc q)%ZZ.
  by rewrite -!lead_coef_plc {1}(Poly_pdivc_content a0) lead_coefZ.
have Hdiv x : List.In x (pnorm a) -> (pcontent a | x)%ZZ.
  by move=> Hx; rewrite -pcontent_pnorm; apply: pcontent_divide.
case: (Z.ltb_spec (plc a) 0) => H1; case: (Z.ltb_spec (plc q) 0) => H2; try nia.
- have /Z.eqb_neq -> : (- pcontent a)%ZZ <> 0%ZZ by lia.
  by rewrite pdivc_opp.
- by move/Z.eqb_neq: (Hc) => ->.
Qed.

(* ------------------------------------------------------------------ congruence modulo p in Z[x]; Bezout certificates *)
Section ModP.
Variable p : Z.

Definition eqm (x y : {poly Z}) : Prop := exists k : {poly Z}, x - y = p *: k.

Lemma eqm_refl x : eqm x x. Proof. by exists 0; rewrite subrr scaler0. Qed.
Lemma eqm_sym x y : eqm x y -> eqm y x.
Proof. by move=> [k E]; exists (- k); rewrite scalerN -E opprB. Qed.
Lemma eqm_trans y x z : eqm x y -> eqm y z -> eqm x z.
Proof.
move=> [k E] [k' E']; exists (k + k').
by rewrite scalerDr -E -E' addrA subrK.
Qed.
Lemma eqm_add x y x' y' : eqm x x' -> eqm y y' -> eqm (x + y) (x' + y').
Proof.
move=> [k E] [k' E']; exists (k + k').
by rewrite scalerDr -E -E' opprD addrACA.
Qed.
Lemma eqm_opp x x' : eqm x x' -> eqm (- x) (- x').
Proof. by move=> [k E]; exists (- k); rewrite scalerN -E opprB opprK addrC. Qed.
Lemma eqm_sub x y x' y' : eqm x x' -> eqm y y' -> eqm (x - y) (x' - y').
Proof. by move=> H1 H2; apply: eqm_add => //; apply: eqm_opp. Qed.
Lemma eqm_mul x y x' y' : eqm x x' -> eqm y y' -> eqm (x * y) (x' * y').
Proof.
move=> [k E] [k' E']; exists (k * y + x' * k').
rewrite scalerDr scalerAl scalerAr -E -E' mulrBl mulrBr.
by rewrite addrA subrK.
Qed.
Lemma eqm_scale c x x' : eqm x x' -> eqm (c *: x) (c *: x').
Proof. by rewrite -!mul_polyC; apply: eqm_mul; apply: eqm_refl. Qed.

(* list level *)
Definition peqm (x y : seq Z) : Prop := exists k : seq Z, pnorm (psub x y) = pnorm (pscale p k).
Definition pdivides_mod (d a : seq Z) : Prop := exists q : seq Z, peqm (pmul d q) a.
Definition is_gcd_mod (g a b : seq Z) : Prop :=
  pdivides_mod g a /\ pdivides_mod g b /\
  forall d, pdivides_mod d a -> pdivides_mod d b -> pdivides_mod d g.

Lemma peqmP (x y : seq Z) : peqm x y <-> eqm (Poly x) (Poly y).
Proof.
split=> [[k /pnorm_eq_Poly E]|[k E]].
  by exists (Poly k); rewrite -Poly_psub E Poly_pscale.
by exists (polyseq k); apply/pnorm_eq_Poly; rewrite Poly_psub Poly_pscale polyseqK.
Qed.

Hypothesis p0 : p <> 0%ZZ.

(* every coefficient divisible by p *)
Lemma all_mod0_scale (l : seq Z) :
  List.forallb (fun c => (c mod p =? 0)%ZZ) l = true -> exists k : {poly Z}, Poly l = p *: k.
Proof.
move=> /List.forallb_forall H; exists (Poly (pdivc l p)).
rewrite -Poly_pscale pscale_pdivc // => x /H /Z.eqb_eq Hx.
exact/Z.mod_divide.
Qed.

Lemma peqm_b_sound (x y : seq Z) : peqm_b p x y = true -> peqm x y.
Proof.
rewrite /peqm_b => /all_mod0_scale [k E]; apply/peqmP.
by exists k; rewrite -Poly_psub.
Qed.

Lemma pdivides_mod_b_sound (d a : seq Z) : pdivides_mod_b p d a = true -> pdivides_mod d a.
Proof.
rewrite /pdivides_mod_b; case: (zp_norm p d) => [|c l].
  move=> /peqm_b_sound /peqmP H; exists [::]; apply/peqmP.
  by rewrite Poly_pmul /= mulr0; apply: eqm_sym.
case: (zp_divmod p a d) => q [|//] /peqm_b_sound H.
by exists q.
Qed.

Theorem egcd_check_Zp_sound (g u v a b : seq Z) :
  egcd_check_Zp p g u v a b = true ->
  is_gcd_mod g a b /\ peqm (padd (pmul u a) (pmul v b)) g.
Proof.
rewrite /egcd_check_Zp /bezout_check.
move=> /andP [/andP [/andP [/peqm_b_sound Hb /pdivides_mod_b_sound Ga] /pdivides_mod_b_sound Gb] _].
split=> //; split=> //; split=> // d [q1 /peqmP H1] [q2 /peqmP H2].
exists (padd (pmul u q1) (pmul v q2)); apply/peqmP.
move/peqmP: Hb; apply: eqm_trans.
rewrite !(Poly_pmul, Poly_padd) in H1 H2 *.
have -> : Poly d * (Poly u * Poly q1 + Poly v * Poly q2)
        = Poly u * (Poly d * Poly q1) + Poly v * (Poly d * Poly q2).
  by rewrite mulrDr !mulrA ![Poly d * _]mulrC.
by apply: eqm_add; apply: eqm_mul => //; apply: eqm_refl.
Qed.

Theorem solve_bezout_check_sound (u v a b r : seq Z) :
  solve_bezout_check p u v a b r = true ->
  peqm (padd (pmul u a) (pmul v b)) r /\
  (psize u < psize (zp_norm p b))%coq_nat /\ (psize v < psize (zp_norm p a))%coq_nat.
Proof.
rewrite /solve_bezout_check /bezout_check /size_lt.
by move=> /andP [/andP [/peqm_b_sound H /Nat.ltb_lt H1] /Nat.ltb_lt H2].
Qed.
End ModP.
