(* Theorems about the SHARED REFERENCE models (the mathematical objects libpoly's results are compared with).
   Statements only; proofs in ScalarProofs.v, UPolySpec.v, RefAlgSpec.v, RefAlgLoops.v, RefAlgOps.v.  The per-property files
   (Properties_C01 .. C20) contain further theorems about the reference functions they use
   (MPolySpec.v for MPoly, RootIsoProofs.v for the Sturm count, SylvesterProofs.v for resultants, ...).
   Arithmetic of the reference algebraic numbers: RefAlgDet.v (Bareiss determinant), RefAlgAnn.v (resultant and
   annihilating polynomials), RefAlgSqfree.v (gcd and square-free part over a real closed field),
   RefAlgArith.v (rn_add / rn_sub / rn_mul / rn_inv / rn_div / rn_pow by denotation). *)
From Coq Require Import ZArith.
From LP Require Import Scalar UPoly RefAlg.
Set Warnings "-notation-overridden,-ambiguous-paths".
From mathcomp Require Import all_ssreflect all_algebra all_real_closed.
From mathcomp Require Import ssrZ.
Set Warnings "notation-overridden,ambiguous-paths".
From LP Require Import UPolySpec RefAlgSpec RefAlgLoops RefAlgOps RefAlgDet RefAlgAnn RefAlgArith RefAlgSqfree RefAlgFinal RefAlgRoots RefAlgRat RefAlgPow RefAlgCmp.
Import GRing.Theory Num.Theory.
Local Open Scope ring_scope.

(* the model's sign of p at a rational a/b (b > 0) is the sign of p there, in every real closed field *)
Theorem Base_psgn_at_rat : forall (R : rcfType) (p : seq Z) (a b : Z), Z.lt 0 b ->
  @zr R (psgn_at_rat p a b) = Num.sg (@pr R p).[zr a / zr b].
Proof. exact: psgn_at_ratP. Qed.
Print Assumptions Base_psgn_at_rat.

(* reference comparison of a real algebraic number with a rational: the sign of v - q *)
Theorem Base_rn_cmp_q : forall (R : rcfType) (x : rnum) (q : Z * Z) (v : R),
  rn_denotes x v -> qpos q -> zr (rn_cmp_q x q) = Num.sg (v - qr q).
Proof. exact: rn_cmp_q_spec. Qed.
Print Assumptions Base_rn_cmp_q.

(* one bisection step of the reference keeps denoting the same real number *)
Theorem Base_rn_refine : forall (R : rcfType) (x : rnum) (v : R), rn_denotes x v -> rn_denotes (rn_refine x) v.
Proof. exact: rn_refine_spec. Qed.
Print Assumptions Base_rn_refine.

(* reference list polynomials are MathComp polynomials *)
Theorem Base_Poly_pmul : forall p q : seq Z, Poly (pmul p q) = Poly p * Poly q :> {poly Z}.
Proof. exact: Poly_pmul. Qed.
Print Assumptions Base_Poly_pmul.
Theorem Base_Poly_padd : forall p q : seq Z, Poly (padd p q) = Poly p + Poly q :> {poly Z}.
Proof. exact: Poly_padd. Qed.
Print Assumptions Base_Poly_padd.
Theorem Base_Poly_pderiv : forall p : seq Z, Poly (pderiv p) = (Poly p)^`() :> {poly Z}.
Proof. exact: Poly_pderiv. Qed.
Print Assumptions Base_Poly_pderiv.
Theorem Base_horner_peval : forall (p : seq Z) (x : Z), (Poly p).[x] = peval p x.
Proof. exact: horner_peval. Qed.
Print Assumptions Base_horner_peval.
Theorem Base_canonical_form : forall p : seq Z, polyseq (Poly p) = pnorm p.
Proof. exact: polyseq_Poly_pnorm. Qed.
Print Assumptions Base_canonical_form.

(* ---- the fuelled loops of the reference algebraic numbers: WHEN they answer, the answer is the mathematical one
   (running out of fuel is reported as FUEL by the drivers and never compared) *)

(* comparison of two numbers by simultaneous refinement *)
Theorem Base_rn_cmp_loop : forall (R : rcfType) (fuel : nat) (x y : rnum) (a b : R) (s : Z),
  rn_denotes x a -> rn_denotes y b -> rn_cmp_loop fuel x y = Some s -> zr s = Num.sg (a - b).
Proof. exact: rn_cmp_loop_spec. Qed.
Print Assumptions Base_rn_cmp_loop.

(* the full comparison (equality test first): COND on the soundness of the equality test for two proper algebraic
   numbers (gcd + Sturm count over an interval); FULL when one side is rational (next theorem) *)
Theorem Base_rn_cmp_cond : forall (R : rcfType) (fuel : nat) (x y : rnum) (a b : R) (s : Z),
  (rn_eqb x y = true -> a = b) ->
  rn_denotes x a -> rn_denotes y b -> rn_cmp fuel x y = Some s -> zr s = Num.sg (a - b).
Proof. exact: rn_cmp_spec_cond. Qed.
Print Assumptions Base_rn_cmp_cond.

Theorem Base_rn_eqb_sound_rational : forall (R : rcfType) (x y : rnum) (a b : R),
  rn_denotes x a -> rn_denotes y b -> (if x is RQ _ then true else if y is RQ _ then true else false) ->
  rn_eqb x y = true -> a = b.
Proof. exact: rn_eqb_sound_rational. Qed.
Print Assumptions Base_rn_eqb_sound_rational.

(* refinement away from a rational keeps the number and ends with the rational outside the open interval *)
Theorem Base_rn_refine_away : forall (R : rcfType) (fuel : nat) (x x' : rnum) (q : Z * Z) (v : R),
  rn_denotes x v -> qpos q -> rn_refine_away fuel x q = Some x' ->
  rn_denotes x' v /\ match x' with RQ _ => Logic.True | RA _ lo hi => @qr R q <= qr lo \/ @qr R hi <= qr q end.
Proof. exact: rn_refine_away_spec. Qed.
Print Assumptions Base_rn_refine_away.

(* floor, ceiling, integrality *)
Theorem Base_rn_floor : forall (R : rcfType) (fuel : nat) (x : rnum) (v : R) (z : Z),
  rn_denotes x v -> rn_floor fuel x = Some z -> zr z <= v < zr z + 1.
Proof. exact: rn_floor_spec. Qed.
Print Assumptions Base_rn_floor.

Theorem Base_rn_ceiling : forall (R : rcfType) (fuel : nat) (x : rnum) (v : R) (z : Z),
  rn_denotes x v -> rn_ceiling fuel x = Some z -> zr z - 1 < v <= zr z.
Proof. exact: rn_ceiling_spec. Qed.
Print Assumptions Base_rn_ceiling.

Theorem Base_rn_is_integer : forall (R : rcfType) (fuel : nat) (x : rnum) (v : R) (b : bool),
  rn_denotes x v -> rn_is_integer fuel x = Some b -> b = true <-> exists z : Z, v = zr z.
Proof. exact: rn_is_integer_spec. Qed.
Print Assumptions Base_rn_is_integer.

(* negation *)
Theorem Base_rn_neg : forall (R : rcfType) (x : rnum) (v : R), rn_denotes x v -> rn_denotes (rn_neg x) (- v).
Proof. exact: rn_neg_spec. Qed.
Print Assumptions Base_rn_neg.

(* ---------------------------------------------------------------- arithmetic of the reference algebraic numbers *)

(* G1: the fraction-free (Bareiss) determinant with row pivoting and exact divisions by the previous pivot, on a square
   matrix of list polynomials, is the determinant over Z[z] *)
Theorem Base_pdet_fast_det : forall (n : nat) (m : seq (seq (seq Z))),
  size m = n -> all (fun r : seq (seq Z) => size r == n) m ->
  Poly (pdet_fast m) = \det (\matrix_(i < n, j < n) (Poly (nth [::] (nth [::] m i) j) : {poly Z})).
Proof. exact: pdet_fast_det. Qed.
Print Assumptions Base_pdet_fast_det.

(* G2: the reference resultant in t of two bivariate polynomials (coefficient lists in t, LOW degree first, leading
   coefficients non-zero, coefficients list polynomials in z) is MathComp's resultant up to the sign (-1)^(deg a * deg b)
   (RefAlg.sylvester lists the rows HIGH degree first = the classical Sylvester matrix; MathComp's lists them low
   degree first).  BP l = Poly (map Poly l) : {poly {poly Z}} *)
Theorem Base_bires_resultant : forall a b : seq (seq Z),
  Poly (last [::] a) != 0 :> {poly Z} -> Poly (last [::] b) != 0 :> {poly Z} ->
  Poly (bires a b) = (-1) ^+ ((size a).-1 * (size b).-1) * resultant (BP a) (BP b).
Proof. exact: bires_resultant. Qed.
Print Assumptions Base_bires_resultant.

(* the slow reference (Laplace expansion pdet, bires_ref) is the determinant / the same resultant; hence the two
   executable resultants agree on all operands with non-zero leading coefficients *)
Theorem Base_pdet_det : forall (n : nat) (m : seq (seq (seq Z))),
  size m = n -> all (fun r : seq (seq Z) => size r == n) m ->
  Poly (pdet n m) = \det (\matrix_(i < n, j < n) (Poly (nth [::] (nth [::] m i) j) : {poly Z})).
Proof. exact: pdet_det. Qed.
Print Assumptions Base_pdet_det.

Theorem Base_bires_ref_resultant : forall a b : seq (seq Z),
  Poly (last [::] a) != 0 :> {poly Z} -> Poly (last [::] b) != 0 :> {poly Z} ->
  Poly (bires_ref a b) = (-1) ^+ ((size a).-1 * (size b).-1) * resultant (BP a) (BP b).
Proof. exact: bires_ref_resultant. Qed.
Print Assumptions Base_bires_ref_resultant.

Theorem Base_bires_ref_bires : forall a b : seq (seq Z),
  Poly (last [::] a) != 0 :> {poly Z} -> Poly (last [::] b) != 0 :> {poly Z} -> bires_ref a b = bires a b.
Proof. exact: bires_ref_bires. Qed.
Print Assumptions Base_bires_ref_bires.

(* G3: annihilating polynomials: non-zero, and vanish at the sum / product / power of roots, in every real closed field *)
Theorem Base_ann_add_neq0 : forall p q : seq Z,
  Poly p != 0 :> {poly Z} -> Poly q != 0 :> {poly Z} -> Poly (ann_add p q) != 0 :> {poly Z}.
Proof. exact: ann_add_neq0. Qed.
Print Assumptions Base_ann_add_neq0.

Theorem Base_ann_add_root : forall (R : rcfType) (p q : seq Z) (a b : R),
  Poly p != 0 :> {poly Z} -> Poly q != 0 :> {poly Z} ->
  root (pr p) a -> root (pr q) b -> root (pr (ann_add p q)) (a + b).
Proof. exact: ann_add_root. Qed.
Print Assumptions Base_ann_add_root.

Theorem Base_ann_mul_neq0 : forall p q : seq Z,
  Poly p != 0 :> {poly Z} -> Poly q != 0 :> {poly Z} -> Poly (ann_mul p q) != 0 :> {poly Z}.
Proof. exact: ann_mul_neq0. Qed.
Print Assumptions Base_ann_mul_neq0.

(* extra hypothesis b <> 0 (see RefAlgAnn.ann_mul_root): rn_mul never multiplies by zero through ann_mul *)
Theorem Base_ann_mul_root : forall (R : rcfType) (p q : seq Z) (a b : R),
  Poly p != 0 :> {poly Z} -> Poly q != 0 :> {poly Z} -> b != 0 ->
  root (pr p) a -> root (pr q) b -> root (pr (ann_mul p q)) (a * b).
Proof. exact: ann_mul_root. Qed.
Print Assumptions Base_ann_mul_root.

Theorem Base_ann_pow_neq0 : forall (p : seq Z) (n : nat),
  Poly p != 0 :> {poly Z} -> (0 < n)%N -> Poly (ann_pow p n) != 0 :> {poly Z}.
Proof. exact: ann_pow_neq0. Qed.
Print Assumptions Base_ann_pow_neq0.

Theorem Base_ann_pow_root : forall (R : rcfType) (p : seq Z) (n : nat) (a : R),
  Poly p != 0 :> {poly Z} -> (0 < n)%N -> root (pr p) a -> root (pr (ann_pow p n)) (a ^+ n).
Proof. exact: ann_pow_root. Qed.
Print Assumptions Base_ann_pow_root.

(* the reference gcd is a gcd over every real closed field, and the square-free part is non-zero, coprime with its
   derivative over R, and has the same roots in R *)
Theorem Base_pr_pgcd : forall (R : rcfType) (a b : seq Z),
  Poly a != 0 :> {poly Z} -> (@pr R (pgcd a b) %= gcdp (pr a) (pr b))%R.
Proof. exact: pr_pgcd. Qed.
Print Assumptions Base_pr_pgcd.

Theorem Base_psqfree_correct : forall (R : rcfType) (p : seq Z), Poly p != 0 :> {poly Z} ->
  [/\ Poly (psqfree p) != 0 :> {poly Z}, coprimep (@pr R (psqfree p)) (@pr R (psqfree p))^`()
    & forall v : R, root (pr (psqfree p)) v = root (pr p) v].
Proof. exact: psqfree_correct. Qed.
Print Assumptions Base_psqfree_correct.

(* G4: the operations of the reference algebraic numbers, by denotation, in every real closed field: WHEN an operation
   answers (fuel not exhausted), the answer denotes the mathematical result.  All unconditional: the interval Sturm
   count (RefAlgValid.count_open_correct, proved for C06 on top of SturmItv.v) discharges the only premise of
   RefAlgArith.v / RefAlgSqfree.v (count_open_correct_premise; the `_cond` / `_sturm` lemmas there are stated relative
   to it). *)
Theorem Base_count_open_correct : forall (R : rcfType) (r : seq Z) (l h : Z * Z),
  qpos l -> qpos h -> @qr R l < qr h -> Poly r != 0 :> {poly Z} ->
  (@pr R r).[qr l] != 0 -> (@pr R r).[qr h] != 0 ->
  count_open r l h = size (roots (@pr R r) (qr l) (qr h)).
Proof. exact: RefAlgValid.count_open_correct. Qed.
Print Assumptions Base_count_open_correct.

(* the selection loop: encl_ok = the enclosure computed from the current representations is the point v or an open
   interval around v *)
Theorem Base_rn_select : forall (R : rcfType) (fuel : nat) (r : seq Z) encl (x y z : rnum) (a b v : R),
  Poly r != 0 :> {poly Z} -> coprimep (@pr R r) (@pr R r)^`() -> root (pr r) v -> encl_ok encl a b v ->
  rn_denotes x a -> rn_denotes y b -> rn_select fuel r encl x y = Some z -> rn_denotes z v.
Proof. exact: rn_select_spec. Qed.
Print Assumptions Base_rn_select.

Theorem Base_rn_add : forall (R : rcfType) (fuel : nat) (x y z : rnum) (a b : R),
  rn_denotes x a -> rn_denotes y b -> rn_add fuel x y = Some z -> rn_denotes z (a + b).
Proof. exact: rn_add_spec. Qed.
Print Assumptions Base_rn_add.

Theorem Base_rn_sub : forall (R : rcfType) (fuel : nat) (x y z : rnum) (a b : R),
  rn_denotes x a -> rn_denotes y b -> rn_sub fuel x y = Some z -> rn_denotes z (a - b).
Proof. exact: rn_sub_spec. Qed.
Print Assumptions Base_rn_sub.

Theorem Base_rn_mul : forall (R : rcfType) (fuel : nat) (x y z : rnum) (a b : R),
  rn_denotes x a -> rn_denotes y b -> rn_mul fuel x y = Some z -> rn_denotes z (a * b).
Proof. exact: rn_mul_spec. Qed.
Print Assumptions Base_rn_mul.

Theorem Base_rn_inv : forall (R : rcfType) (fuel : nat) (x z : rnum) (a : R),
  rn_denotes x a -> rn_inv fuel x = Some z -> a != 0 /\ rn_denotes z a^-1.
Proof. exact: rn_inv_spec. Qed.
Print Assumptions Base_rn_inv.

Theorem Base_rn_div : forall (R : rcfType) (fuel : nat) (x y z : rnum) (a b : R),
  rn_denotes x a -> rn_denotes y b -> rn_div fuel x y = Some z -> b != 0 /\ rn_denotes z (a / b).
Proof. exact: rn_div_spec. Qed.
Print Assumptions Base_rn_div.

Theorem Base_rn_pow : forall (R : rcfType) (fuel : nat) (x z : rnum) (a : R) (n : nat),
  rn_denotes x a -> rn_pow fuel x n = Some z -> rn_denotes z (a ^+ n).
Proof. exact: rn_pow_spec. Qed.
Print Assumptions Base_rn_pow.

(* multiplication of a reference number by a rational, directly on the representation *)
Theorem Base_rn_mul_q : forall (R : rcfType) (x : rnum) (q : Z * Z) (v : R),
  rn_denotes x v -> qpos q -> rn_denotes (rn_mul_q x q) (v * qr q).
Proof. exact: rn_mul_q_spec. Qed.
Print Assumptions Base_rn_mul_q.

(* exact value of a reference multivariate polynomial at real algebraic points (the reference of C10-C12):
   mp_evalR rhoR p = sum over the terms (m, c) of  c * prod over (v, e) in m of rhoR v ^ e  - the formula of
   MPoly.mp_eval, read in R *)
Theorem Base_mp_eval_rn : forall (R : rcfType) (fuel : nat) (rho : MPoly.var -> rnum) (rhoR : MPoly.var -> R)
  (p : MPoly.mpoly) (z : rnum),
  (forall v, rn_denotes (rho v) (rhoR v)) ->
  mp_eval_rn fuel rho p = Some z -> rn_denotes z (mp_evalR rhoR p).
Proof. exact: mp_eval_rn_spec. Qed.
Print Assumptions Base_mp_eval_rn.

(* the equality test of the reference comparison (gcd, square-free part, Sturm count on the intersection of the isolating
   intervals) is sound, and hence the full comparison rn_cmp - the operation by which every check compares libpoly's
   numbers with the reference BY DENOTATION - computes the sign of a - b (compare Base_rn_cmp_cond above, which
   assumes the soundness of the equality test) *)
Theorem Base_rn_eqb_sound : forall (R : rcfType) (x y : rnum) (a b : R),
  rn_denotes x a -> rn_denotes y b -> rn_eqb x y = true -> a = b.
Proof. exact: rn_eqb_sound. Qed.
Print Assumptions Base_rn_eqb_sound.

Theorem Base_rn_cmp : forall (R : rcfType) (fuel : nat) (x y : rnum) (a b : R) (s : Z),
  rn_denotes x a -> rn_denotes y b -> rn_cmp fuel x y = Some s -> zr s = Num.sg (a - b).
Proof. exact: rn_cmp_spec. Qed.
Print Assumptions Base_rn_cmp.

(* what the drivers check on every number read from the implementation (rn_valid) guarantees that the normalised
   representation denotes a real number (unique by definition of rn_denotes) *)
Theorem Base_rn_valid_denotes : forall (R : rcfType) (x : rnum),
  rn_valid x = true -> exists v : R, rn_denotes (rn_norm x) v.
Proof. exact: rn_valid_denotes. Qed.
Print Assumptions Base_rn_valid_denotes.

(* all real roots of a non-zero polynomial by the reference (psqfree, Cauchy bound root_bound, Sturm counts on half-open
   intervals, bisection, rational roots hit by a midpoint split off by exact division): the answer denotes, element by
   element (dens), the increasing list rootsR of ALL roots of p in R *)
Theorem Base_root_bound : forall (R : rcfType) (p : seq Z) (w : R),
  Poly p != 0 :> {poly Z} -> root (pr p) w -> `|w| < zr (root_bound p).
Proof. exact: root_bound_lt. Qed.
Print Assumptions Base_root_bound.

Theorem Base_rn_isolate : forall (R : rcfType) (fuel : nat) (p : seq Z) (lo hi : Z * Z) (rs : seq rnum),
  Poly p != 0 :> {poly Z} -> coprimep (@pr R p) (@pr R p)^`() -> qpos lo -> qpos hi -> @qr R lo < qr hi ->
  (@pr R p).[qr lo] != 0 -> rn_isolate fuel p lo hi = Some rs ->
  exists2 vs : seq R, dens rs vs & isolated p (qr lo) (qr hi) vs.
Proof. exact: rn_isolate_spec. Qed.
Print Assumptions Base_rn_isolate.

Theorem Base_rn_roots : forall (R : rcfType) (fuel : nat) (p : seq Z) (rs : seq rnum),
  Poly p != 0 :> {poly Z} -> rn_roots fuel p = Some rs -> dens rs (rootsR (@pr R p)).
Proof. exact: rn_roots_correct. Qed.
Print Assumptions Base_rn_roots.

(* sign, rationality (x is rational iff lc(p) * x is an integer: rational root theorem) and the rational value *)
Theorem Base_rn_sgn : forall (R : rcfType) (x : rnum) (a : R), rn_denotes x a -> zr (rn_sgn x) = Num.sg a.
Proof. exact: rn_sgn_spec. Qed.
Print Assumptions Base_rn_sgn.

Theorem Base_rational_root_den : forall (R : rcfType) (l : seq Z) (n d : Z), Z.lt 0 d -> Z.gcd n d = Zpos xH ->
  (@pr R l).[zr n / zr d] = 0 -> Z.divide d (last Z0 l).
Proof. exact: rational_root_den. Qed.
Print Assumptions Base_rational_root_den.

Theorem Base_rn_is_rational : forall (R : rcfType) (fuel : nat) (x : rnum) (v : R) (b : bool),
  rn_denotes x v -> rn_is_rational fuel x = Some b -> b = true <-> exists q : Z * Z, qpos q /\ v = qr q.
Proof. exact: rn_is_rational_spec. Qed.
Print Assumptions Base_rn_is_rational.

Theorem Base_rn_to_rational : forall (R : rcfType) (fuel : nat) (x : rnum) (v : R) (q : Z * Z),
  rn_denotes x v -> rn_to_rational fuel x = Some q -> qpos q /\ v = qr q.
Proof. exact: rn_to_rational_spec. Qed.
Print Assumptions Base_rn_to_rational.

(* the direct power x^n (annihilator Res_t(p(t), z - t^n), enclosure by the powers of the interval ends) *)
Theorem Base_rn_pow_direct : forall (R : rcfType) (fuel : nat) (x z : rnum) (a : R) (n : nat),
  rn_denotes x a -> rn_pow_direct fuel x n = Some z -> rn_denotes z (a ^+ n).
Proof. exact: rn_pow_direct_spec. Qed.
Print Assumptions Base_rn_pow_direct.

(* extended values: -inf < every number < +inf, finite numbers by Base_rn_cmp *)
Theorem Base_xv_cmp : forall (R : rcfType) (fuel : nat) (u v : xval) (a b : R) (s : Z),
  xv_denotes u a -> xv_denotes v b -> xv_cmp fuel u v = Some s ->
  match u, v with
  | XFin _, XFin _ => zr s = Num.sg (a - b)
  | XMinf, XMinf | XPinf, XPinf => s = Z0
  | XMinf, _ | _, XPinf => s = Zneg xH
  | _, _ => s = Zpos xH
  end.
Proof. exact: xv_cmp_spec. Qed.
Print Assumptions Base_xv_cmp.
