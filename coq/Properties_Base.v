(* Theorems about the SHARED REFERENCE models (the mathematical objects libpoly's results are compared with).
   Statements only; proofs in ScalarProofs.v, UPolySpec.v, RefAlgSpec.v.  The per-property files
   (Properties_C01 .. C20) contain further theorems about the reference functions they use
   (MPolySpec.v for MPoly, RootIsoProofs.v for the Sturm count, SylvesterProofs.v for resultants, ...). *)
From Coq Require Import ZArith.
From LP Require Import Scalar UPoly RefAlg.
Set Warnings "-notation-overridden,-ambiguous-paths".
From mathcomp Require Import all_ssreflect all_algebra all_real_closed.
From mathcomp Require Import ssrZ.
Set Warnings "notation-overridden,ambiguous-paths".
From LP Require Import UPolySpec RefAlgSpec.
Import GRing.Theory Num.Theory.
Local Open Scope ring_scope.

(* the model's sign of p at a rational a/b (b > 0) is the sign of p there, in every real closed field *)
Theorem Base_psgn_at_rat : forall (R : rcfType) (p : seq Z) (a b : Z), Z.lt 0 b ->
  @zr R (psgn_at_rat p a b) = Num.sg (@pr R p).[zr a / zr b].
Proof. exact: psgn_at_ratP. Qed.
Print Assumptions Base_psgn_at_rat.

(* reference comparison of a real algebraic number with a rational: the sign of v - q *)
Theorem Base_rn_cmp_q : forall (R : rcfType) (x : rnum) (q : Z * Z) (v : R),
  rn_denotes x v -> qpos q -> zr (rn_cmp_q x q) = Num.sg (v - qr q).
Proof. exact: rn_cmp_q_spec. Qed.
Print Assumptions Base_rn_cmp_q.

(* one bisection step of the reference keeps denoting the same real number *)
Theorem Base_rn_refine : forall (R : rcfType) (x : rnum) (v : R), rn_denotes x v -> rn_denotes (rn_refine x) v.
Proof. exact: rn_refine_spec. Qed.
Print Assumptions Base_rn_refine.

(* reference list polynomials are MathComp polynomials *)
Theorem Base_Poly_pmul : forall p q : seq Z, Poly (pmul p q) = Poly p * Poly q :> {poly Z}.
Proof. exact: Poly_pmul. Qed.
Print Assumptions Base_Poly_pmul.
Theorem Base_Poly_padd : forall p q : seq Z, Poly (padd p q) = Poly p + Poly q :> {poly Z}.
Proof. exact: Poly_padd. Qed.
Print Assumptions Base_Poly_padd.
Theorem Base_Poly_pderiv : forall p : seq Z, Poly (pderiv p) = (Poly p)^`() :> {poly Z}.
Proof. exact: Poly_pderiv. Qed.
Print Assumptions Base_Poly_pderiv.
Theorem Base_horner_peval : forall (p : seq Z) (x : Z), (Poly p).[x] = peval p x.
Proof. exact: horner_peval. Qed.
Print Assumptions Base_horner_peval.
Theorem Base_canonical_form : forall p : seq Z, polyseq (Poly p) = pnorm p.
Proof. exact: polyseq_Poly_pnorm. Qed.
Print Assumptions Base_canonical_form.
