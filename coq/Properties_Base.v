(* Theorems about the SHARED REFERENCE models (the mathematical objects libpoly's results are compared with).
   Statements only; proofs in ScalarProofs.v, UPolySpec.v, RefAlgSpec.v, RefAlgLoops.v, RefAlgOps.v.  The per-property files
   (Properties_C01 .. C20) contain further theorems about the reference functions they use
   (MPolySpec.v for MPoly, RootIsoProofs.v for the Sturm count, SylvesterProofs.v for resultants, ...). *)
From Coq Require Import ZArith.
From LP Require Import Scalar UPoly RefAlg.
Set Warnings "-notation-overridden,-ambiguous-paths".
From mathcomp Require Import all_ssreflect all_algebra all_real_closed.
From mathcomp Require Import ssrZ.
Set Warnings "notation-overridden,ambiguous-paths".
From LP Require Import UPolySpec RefAlgSpec RefAlgLoops RefAlgOps RefAlgValid RefAlgCmp.
Import GRing.Theory Num.Theory.
Local Open Scope ring_scope.

(* the model's sign of p at a rational a/b (b > 0) is the sign of p there, in every real closed field *)
Theorem Base_psgn_at_rat : forall (R : rcfType) (p : seq Z) (a b : Z), Z.lt 0 b ->
  @zr R (psgn_at_rat p a b) = Num.sg (@pr R p).[zr a / zr b].
Proof. exact: psgn_at_ratP. Qed.
Print Assumptions Base_psgn_at_rat.

(* reference comparison of a real algebraic number with a rational: the sign of v - q *)
Theorem Base_rn_cmp_q : forall (R : rcfType) (x : rnum) (q : Z * Z) (v : R),
  rn_denotes x v -> qpos q -> zr (rn_cmp_q x q) = Num.sg (v - qr q).
Proof. exact: rn_cmp_q_spec. Qed.
Print Assumptions Base_rn_cmp_q.

(* one bisection step of the reference keeps denoting the same real number *)
Theorem Base_rn_refine : forall (R : rcfType) (x : rnum) (v : R), rn_denotes x v -> rn_denotes (rn_refine x) v.
Proof. exact: rn_refine_spec. Qed.
Print Assumptions Base_rn_refine.

(* reference list polynomials are MathComp polynomials *)
Theorem Base_Poly_pmul : forall p q : seq Z, Poly (pmul p q) = Poly p * Poly q :> {poly Z}.
Proof. exact: Poly_pmul. Qed.
Print Assumptions Base_Poly_pmul.
Theorem Base_Poly_padd : forall p q : seq Z, Poly (padd p q) = Poly p + Poly q :> {poly Z}.
Proof. exact: Poly_padd. Qed.
Print Assumptions Base_Poly_padd.
Theorem Base_Poly_pderiv : forall p : seq Z, Poly (pderiv p) = (Poly p)^`() :> {poly Z}.
Proof. exact: Poly_pderiv. Qed.
Print Assumptions Base_Poly_pderiv.
Theorem Base_horner_peval : forall (p : seq Z) (x : Z), (Poly p).[x] = peval p x.
Proof. exact: horner_peval. Qed.
Print Assumptions Base_horner_peval.
Theorem Base_canonical_form : forall p : seq Z, polyseq (Poly p) = pnorm p.
Proof. exact: polyseq_Poly_pnorm. Qed.
Print Assumptions Base_canonical_form.

(* ---- the fuelled loops of the reference algebraic numbers: WHEN they answer, the answer is the mathematical one
   (running out of fuel is reported as FUEL by the drivers and never compared) *)

(* comparison of two numbers by simultaneous refinement *)
Theorem Base_rn_cmp_loop : forall (R : rcfType) (fuel : nat) (x y : rnum) (a b : R) (s : Z),
  rn_denotes x a -> rn_denotes y b -> rn_cmp_loop fuel x y = Some s -> zr s = Num.sg (a - b).
Proof. exact: rn_cmp_loop_spec. Qed.
Print Assumptions Base_rn_cmp_loop.

(* the full comparison (equality test first): COND on the soundness of the equality test for two proper algebraic
   numbers (gcd + Sturm count over an interval); FULL when one side is rational (next theorem) *)
Theorem Base_rn_cmp_cond : forall (R : rcfType) (fuel : nat) (x y : rnum) (a b : R) (s : Z),
  (rn_eqb x y = true -> a = b) ->
  rn_denotes x a -> rn_denotes y b -> rn_cmp fuel x y = Some s -> zr s = Num.sg (a - b).
Proof. exact: rn_cmp_spec_cond. Qed.
Print Assumptions Base_rn_cmp_cond.

Theorem Base_rn_eqb_sound_rational : forall (R : rcfType) (x y : rnum) (a b : R),
  rn_denotes x a -> rn_denotes y b -> (if x is RQ _ then true else if y is RQ _ then true else false) ->
  rn_eqb x y = true -> a = b.
Proof. exact: rn_eqb_sound_rational. Qed.
Print Assumptions Base_rn_eqb_sound_rational.

(* refinement away from a rational keeps the number and ends with the rational outside the open interval *)
Theorem Base_rn_refine_away : forall (R : rcfType) (fuel : nat) (x x' : rnum) (q : Z * Z) (v : R),
  rn_denotes x v -> qpos q -> rn_refine_away fuel x q = Some x' ->
  rn_denotes x' v /\ match x' with RQ _ => Logic.True | RA _ lo hi => @qr R q <= qr lo \/ @qr R hi <= qr q end.
Proof. exact: rn_refine_away_spec. Qed.
Print Assumptions Base_rn_refine_away.

(* floor, ceiling, integrality *)
Theorem Base_rn_floor : forall (R : rcfType) (fuel : nat) (x : rnum) (v : R) (z : Z),
  rn_denotes x v -> rn_floor fuel x = Some z -> zr z <= v < zr z + 1.
Proof. exact: rn_floor_spec. Qed.
Print Assumptions Base_rn_floor.

Theorem Base_rn_ceiling : forall (R : rcfType) (fuel : nat) (x : rnum) (v : R) (z : Z),
  rn_denotes x v -> rn_ceiling fuel x = Some z -> zr z - 1 < v <= zr z.
Proof. exact: rn_ceiling_spec. Qed.
Print Assumptions Base_rn_ceiling.

Theorem Base_rn_is_integer : forall (R : rcfType) (fuel : nat) (x : rnum) (v : R) (b : bool),
  rn_denotes x v -> rn_is_integer fuel x = Some b -> b = true <-> exists z : Z, v = zr z.
Proof. exact: rn_is_integer_spec. Qed.
Print Assumptions Base_rn_is_integer.

(* negation *)
Theorem Base_rn_neg : forall (R : rcfType) (x : rnum) (v : R), rn_denotes x v -> rn_denotes (rn_neg x) (- v).
Proof. exact: rn_neg_spec. Qed.
Print Assumptions Base_rn_neg.

(* ---- validity and comparison of reference numbers, unconditionally (interval Sturm count: SturmItv.v; gcd, square-free
   part: GcdSpec.v, RefAlgValid.v) *)

(* every representation accepted by rn_valid (checked on everything read from the implementation) denotes a real number *)
Theorem Base_rn_valid_denotes : forall (R : rcfType) (x : rnum),
  rn_valid x = true -> exists v : R, rn_denotes (rn_norm x) v.
Proof. exact: rn_valid_denotes. Qed.
Print Assumptions Base_rn_valid_denotes.

(* the equality test (gcd has a root in the intersection of the isolating intervals) is sound *)
Theorem Base_rn_eqb_sound : forall (R : rcfType) (x y : rnum) (a b : R),
  rn_denotes x a -> rn_denotes y b -> rn_eqb x y = true -> a = b.
Proof. exact: rn_eqb_sound. Qed.
Print Assumptions Base_rn_eqb_sound.

(* FULL: whenever the reference comparison answers, the answer is the sign of a - b *)
Theorem Base_rn_cmp : forall (R : rcfType) (fuel : nat) (x y : rnum) (a b : R) (s : Z),
  rn_denotes x a -> rn_denotes y b -> rn_cmp fuel x y = Some s -> zr s = Num.sg (a - b).
Proof. exact: rn_cmp_spec. Qed.
Print Assumptions Base_rn_cmp.

(* extended values *)
Theorem Base_xv_cmp : forall (R : rcfType) (fuel : nat) (u v : xval) (a b : R) (s : Z),
  xv_denotes u a -> xv_denotes v b -> xv_cmp fuel u v = Some s ->
  match u, v with
  | XFin _, XFin _ => zr s = Num.sg (a - b)
  | XMinf, XMinf | XPinf, XPinf => s = Z0
  | XMinf, _ | _, XPinf => s = Zneg xH
  | _, _ => s = Zpos xH
  end.
Proof. exact: xv_cmp_spec. Qed.
Print Assumptions Base_xv_cmp.
