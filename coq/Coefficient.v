(* L2 model (property C01): src/polynomial/coefficient.c - libpoly's RECURSIVE polynomial representation
   with its CAPACITY SLACK, plus the sparse univariate type of src/upolynomial/upolynomial.c.
   Executable Gallina, stdlib only, no proofs in this file.

   coefficient_t  ->  coef := CNum z | CRec x size cs
       cs   = the whole malloc'ed array `coefficients` (length cs = capacity),
       size = the used size; the entries cs[size..] are the SLACK: they are not part of the polynomial
              but they are still there and become visible again when `size` is raised.
   lp_polynomial_context_t -> K : ring (Scalar.v: None = lp_Z, Some m = Z_m) and rk : var -> N, the rank
       function of the variable order (lp_variable_order_cmp x y = compare (rk x) (rk y) for x <> y).
   Functions follow the C statement order and case splits (of /repo with fixes/C01-*.patch applied; the
   pre-repair versions are in History_C01.v).  Data-dependent recursion takes `fuel` and returns None on
   exhaustion.  Output operands: every operation builds `result` and swaps it into the output, so the
   previous contents of the output matter only where the model takes them as an argument
   (c_neg in place, c_shl/c_pow/c_assign on an aliased output, c_add_om which updates in place). *)
From Coq Require Import ZArith NArith List Bool.
From LP Require Import Scalar MPoly.
Import ListNotations.
Local Open Scope Z_scope.

Inductive coef : Type :=
| CNum (z : Z)
| CRec (x : var) (size : nat) (cs : list coef).

Definition c_zero : coef := CNum 0.
Definition c_nth (i : nat) (cs : list coef) : coef := nth i cs c_zero.
Fixpoint c_upd (i : nat) (v : coef) (cs : list coef) : list coef :=
  match cs, i with
  | [], _ => []
  | _ :: t, O => v :: t
  | h :: t, S j => h :: c_upd j v t
  end.

Fixpoint opt_map {A B : Type} (f : A -> option B) (l : list A) : option (list B) :=
  match l with
  | [] => Some []
  | a :: l' => match f a with
               | None => None
               | Some b => match opt_map f l' with None => None | Some r => Some (b :: r) end
               end
  end.

(* traversals of the USED part cs[0..size) of a coefficient array (structural on the list so that they can be
   used in the nested recursion over `coef`) *)
Section UsedMap.
Variable f : coef -> coef.
Fixpoint used_map (n : nat) (l : list coef) {struct l} : list coef :=
  match l with
  | [] => []
  | e :: l' => match n with O => [] | S n' => f e :: used_map n' l' end
  end.
End UsedMap.
(* f on cs[0..size), g on the slack cs[size..]; false when size > capacity *)
Section UsedAll.
Variable f : coef -> bool.
Variable g : list coef -> bool.
Fixpoint used_all (n : nat) (l : list coef) {struct l} : bool :=
  match l with
  | [] => match n with O => g [] | S _ => false end
  | e :: l' => match n with O => g l | S n' => f e && used_all n' l' end
  end.
End UsedAll.
Section UsedFlat.
Variable T : Type.
Variable f : nat -> coef -> list T.
Fixpoint used_flat (n d : nat) (l : list coef) {struct l} : list T :=
  match l with
  | [] => []
  | e :: l' => match n with O => [] | S n' => f d e ++ used_flat n' (S d) l' end
  end.
End UsedFlat.
Arguments used_flat {T} f n d l.

Section WithContext.
Variable K : ring.
Variable rk : var -> N.

(* lp_variable_order_cmp *)
Definition var_cmp (x y : var) : comparison := if N.eqb x y then Eq else N.compare (rk x) (rk y).

(* coefficient_cmp_type *)
Definition cmp_type (a b : coef) : comparison :=
  match a, b with
  | CNum _, CNum _ => Eq
  | CNum _, CRec _ _ _ => Lt
  | CRec _ _ _, CNum _ => Gt
  | CRec x _ _, CRec y _ _ => var_cmp x y
  end.

(* coefficient_is_zero *)
Definition c_is_zero (c : coef) : bool :=
  match c with CNum z => int_is_zero K z | CRec _ _ _ => false end.

(* coefficient_construct_rec: size = capacity = cap, all entries 0 *)
Definition c_construct_rec (x : var) (cap : nat) : coef := CRec x cap (repeat c_zero cap).

(* coefficient_normalize: the scan `while (i > 0 && is_zero(COEFF(C,i))) i--` started at i *)
Fixpoint norm_scan (cs : list coef) (i : nat) : nat :=
  match i with
  | O => O
  | S j => if c_is_zero (c_nth i cs) then norm_scan cs j else i
  end.
Definition c_normalize (c : coef) : coef :=
  match c with
  | CNum _ => c
  | CRec x size cs =>
    let i := norm_scan cs (Nat.pred size) in
    match i with
    | O => c_nth 0 cs                 (* upgraded to its constant coefficient; the array is freed *)
    | S _ => CRec x (S i) cs          (* only `size` drops: the entries stay where they are *)
    end
  end.

(* coefficient_ensure_capacity (repaired: `size` is raised also when the capacity is already there) *)
Definition c_ensure_capacity (x : var) (cap : nat) (c : coef) : coef :=
  match c with
  | CNum _ => CRec x cap (c :: repeat c_zero (Nat.pred cap))
  | CRec y size cs =>
    if negb (N.eqb x y) then CRec x cap (c :: repeat c_zero (Nat.pred cap))
    else if Nat.ltb (length cs) cap then CRec y cap (cs ++ repeat c_zero (cap - length cs))
    else if Nat.ltb size cap then CRec y cap cs
    else c
  end.

(* coefficient_construct_copy: capacity := size, the slack is not copied *)
Fixpoint c_copy (c : coef) : coef :=
  match c with
  | CNum z => CNum z
  | CRec x size cs => CRec x size (used_map c_copy size cs)
  end.

(* coefficient_assign into an output that is not `from` itself *)
Definition c_assign (from : coef) : coef :=
  match from with CNum z => CNum (int_assign K z) | CRec _ _ _ => c_copy from end.

(* coefficient_neg.  inplace = true is the branch N == C (entries negated where they are, slack and
   capacity kept, no normalisation); otherwise a fresh result of capacity `size`. *)
Fixpoint c_neg (inplace : bool) (c : coef) : coef :=
  match c with
  | CNum z => CNum (int_neg K z)
  | CRec x size cs =>
    let body := used_map (fun e => if c_is_zero e then (if inplace then e else c_zero) else c_neg inplace e) size cs in
    if inplace then CRec x size (body ++ skipn size cs) else c_normalize (CRec x size body)
  end.

(* coefficient_mul_integer / coefficient_mul_int *)
Fixpoint c_mul_integer (a : Z) (c : coef) : coef :=
  match c with
  | CNum z => CNum (int_mul K z a)
  | CRec x size cs =>
    c_normalize (CRec x size (used_map (fun e => if c_is_zero e then c_zero else c_mul_integer a e) size cs))
  end.

(* coefficient_derivative: result[i-1] = C[i] * i for 1 <= i < size, in an array of `size` entries *)
Definition c_derivative (c : coef) : coef :=
  match c with
  | CNum _ => CNum (int_assign K 0)
  | CRec x size cs =>
    c_normalize (CRec x size
      (map (fun i => if Nat.ltb (S i) size then c_mul_integer (Z.of_nat (S i)) (c_nth (S i) cs) else c_zero)
           (seq 0 size)))
  end.

(* ---- addition / subtraction *)
Fixpoint c_add (fuel : nat) (a b : coef) : option coef :=
  match fuel with
  | O => None
  | S f =>
    match cmp_type a b with
    | Eq =>
      match a, b with
      | CNum z1, CNum z2 => Some (CNum (int_add K z1 z2))
      | CRec x sa ca, CRec _ sb cb =>
        let n := Nat.max sa sb in
        match opt_map (fun i =>
                if Nat.ltb i sa then
                  if Nat.ltb i sb then c_add f (c_nth i ca) (c_nth i cb)
                  else Some (c_assign (c_nth i ca))
                else Some (c_assign (c_nth i cb))) (seq 0 n) with
        | None => None
        | Some r => Some (c_normalize (CRec x n r))
        end
      | _, _ => None
      end
    | Gt =>   (* a > b: b is added into the constant coefficient of a copy of a *)
      match c_copy a with
      | CRec x sa ca' =>
        match a with
        | CRec _ _ ca =>
          match c_add f (c_nth 0 ca) b with
          | None => None
          | Some r0 => Some (CRec x sa (c_upd 0 r0 ca'))
          end
        | _ => None
        end
      | _ => None
      end
    | Lt =>
      match c_copy b with
      | CRec y sb cb' =>
        match b with
        | CRec _ _ cb =>
          match c_add f a (c_nth 0 cb) with
          | None => None
          | Some r0 => Some (CRec y sb (c_upd 0 r0 cb'))
          end
        | _ => None
        end
      | _ => None
      end
    end
  end.

Fixpoint c_sub (fuel : nat) (a b : coef) : option coef :=
  match fuel with
  | O => None
  | S f =>
    match cmp_type a b with
    | Eq =>
      match a, b with
      | CNum z1, CNum z2 => Some (CNum (int_sub K z1 z2))
      | CRec x sa ca, CRec _ sb cb =>
        let n := Nat.max sa sb in
        match opt_map (fun i =>
                if Nat.ltb i sa then
                  if Nat.ltb i sb then c_sub f (c_nth i ca) (c_nth i cb)
                  else Some (c_assign (c_nth i ca))
                else Some (c_neg false (c_nth i cb))) (seq 0 n) with
        | None => None
        | Some r => Some (c_normalize (CRec x n r))
        end
      | _, _ => None
      end
    | Gt =>
      match c_copy a with
      | CRec x sa ca' =>
        match a with
        | CRec _ _ ca =>
          match c_sub f (c_nth 0 ca) b with
          | None => None
          | Some r0 => Some (CRec x sa (c_upd 0 r0 ca'))
          end
        | _ => None
        end
      | _ => None
      end
    | Lt =>   (* S = C2 - C1; S = -S in place *)
      match c_sub f b a with
      | None => None
      | Some r => Some (c_neg true r)
      end
    end
  end.

(* ---- multiplication; F is the fuel handed to the additions *)
Definition c_all_num (s a b : coef) : option (Z * Z * Z) :=
  match s, a, b with CNum zs, CNum za, CNum zb => Some (zs, za, zb) | _, _, _ => None end.

Fixpoint c_mul (F : nat) (fuel : nat) (a b : coef) : option coef :=
  match fuel with
  | O => None
  | S f =>
    (* coefficient_add_mul with the recursive call at fuel f *)
    let add_mul (s x y : coef) : option coef :=
      match c_all_num s x y with
      | Some (zs, zx, zy) => Some (CNum (int_add_mul K zs zx zy))
      | None => match c_mul F f x y with None => None | Some m => c_add F s m end
      end in
    match cmp_type a b with
    | Eq =>
      match a, b with
      | CNum z1, CNum z2 => Some (CNum (int_mul K z1 z2))
      | CRec x sa ca, CRec _ sb cb =>
        let cap := (sa + sb - 1)%nat in
        let step (acc : option (list coef)) (ij : nat * nat) : option (list coef) :=
          match acc with
          | None => None
          | Some r =>
            let '(i, j) := ij in
            if c_is_zero (c_nth i ca) || c_is_zero (c_nth j cb) then Some r
            else match add_mul (c_nth (i + j) r) (c_nth i ca) (c_nth j cb) with
                 | None => None
                 | Some v => Some (c_upd (i + j) v r)
                 end
          end in
        match fold_left step (list_prod (seq 0 sa) (seq 0 sb)) (Some (repeat c_zero cap)) with
        | None => None
        | Some r => Some (c_normalize (CRec x cap r))
        end
      | _, _ => None
      end
    | Gt =>
      match a with
      | CRec x sa ca =>
        match opt_map (fun i => c_mul F f (c_nth i ca) b) (seq 0 sa) with
        | None => None
        | Some r => Some (c_normalize (CRec x sa r))
        end
      | _ => None
      end
    | Lt =>
      match b with
      | CRec y sb cb =>
        match opt_map (fun i => if c_is_zero (c_nth i cb) then Some c_zero else c_mul F f a (c_nth i cb)) (seq 0 sb) with
        | None => None
        | Some r => Some (c_normalize (CRec y sb r))
        end
      | _ => None
      end
    end
  end.

Definition c_add_mul (F : nat) (s a b : coef) : option coef :=
  match c_all_num s a b with
  | Some (zs, za, zb) => Some (CNum (int_add_mul K zs za zb))
  | None => match c_mul F F a b with None => None | Some m => c_add F s m end
  end.
Definition c_sub_mul (F : nat) (s a b : coef) : option coef :=
  match c_all_num s a b with
  | Some (zs, za, zb) => Some (CNum (int_sub_mul K zs za zb))
  | None => match c_mul F F a b with None => None | Some m => c_sub F s m end
  end.

(* ---- coefficient_shl(S, C, x, n) after `coefficient_assign(S, C)`: s0 is S at that point (a copy of C,
   or S itself with its slack when S == C).  `ens` is coefficient_ensure_capacity. *)
Definition c_shl_gen (ens : var -> nat -> coef -> coef) (s0 : coef) (x : var) (n : nat) : coef :=
  if c_is_zero s0 || Nat.eqb n 0 then s0
  else
    let old_size := match s0 with CNum _ => 1%nat | CRec y size _ => if N.eqb y x then size else 1%nat end in
    match ens x (old_size + n)%nat s0 with
    | CRec y size cs =>
      (* for (i = old_size-1; i >= 0; --i) if (!is_zero(S[i])) swap(S[i+n], S[i]) *)
      let cs' := fold_left (fun l i =>
                   if c_is_zero (c_nth i l) then l
                   else c_upd i (c_nth (i + n) l) (c_upd (i + n) (c_nth i l) l))
                 (rev (seq 0 old_size)) cs in
      CRec y size cs'
    | c => c
    end.
Definition c_shl := c_shl_gen c_ensure_capacity.

(* ---- coefficient_pow.  p0 = what the output holds when n = 1 and the output is C itself. *)
Fixpoint c_pow_loop (F : nat) (fuel : nat) (result tmp : coef) (n : N) : option coef :=
  match fuel with
  | O => None
  | S f =>
    if N.eqb n 0 then Some result
    else
      match (if N.odd n then c_mul F F result tmp else Some result) with
      | None => None
      | Some result' =>
        match c_mul F F tmp tmp with
        | None => None
        | Some tmp' => c_pow_loop F f result' tmp' (N.div2 n)
        end
      end
  end.
Definition c_pow (F : nat) (c : coef) (n : N) : option coef :=
  if N.eqb n 0 then Some (CNum (int_assign K 1))
  else if N.eqb n 1 then Some (c_assign c)
  else
    match c with
    | CNum z => Some (CNum (int_pow K z n))
    | CRec x size _ =>
      let result := c_ensure_capacity x (Nat.pred size * N.to_nat n + 1)%nat (CNum (int_assign K 1)) in
      match c_pow_loop F F result (c_copy c) n with
      | None => None
      | Some r => Some (c_normalize r)
      end
    end.

(* ---- coefficient_add_ordered_monomial: m = powers, TOP variable first; a = the coefficient.
   Updates C in place (this is where an operand that shrank by cancellation meets ensure_capacity). *)
Fixpoint c_add_om_gen (ens : var -> nat -> coef -> coef) (fuel : nat) (m : list (var * nat)) (a : Z) (c : coef)
  : option coef :=
  match fuel with
  | O => None
  | S f =>
    match m with
    | [] =>
      match c with
      | CNum z => Some (CNum (int_add K z a))
      | CRec x size cs =>
        match c_add_om_gen ens f [] a (c_nth 0 cs) with
        | None => None
        | Some r => Some (CRec x size (c_upd 0 r cs))
        end
      end
    | (x, d) :: m' =>
      let here := match c with
                  | CNum _ => true
                  | CRec y _ _ => match var_cmp x y with Lt => false | _ => true end
                  end in
      if here then
        match ens x (S d) c with
        | CRec y size cs =>
          match c_add_om_gen ens f m' a (c_nth d cs) with
          | None => None
          | Some r => Some (c_normalize (CRec y size (c_upd d r cs)))
          end
        | _ => None
        end
      else
        match c with
        | CRec y size cs =>
          match c_add_om_gen ens f m a (c_nth 0 cs) with
          | None => None
          | Some r => Some (CRec y size (c_upd 0 r cs))
          end
        | _ => None
        end
    end
  end.
Definition c_add_om := c_add_om_gen c_ensure_capacity.

(* lp_monomial_construct_copy(.., sort = 1): selection sort, top variable first *)
Fixpoint mono_insert (p : var * nat) (m : list (var * nat)) : list (var * nat) :=
  match m with
  | [] => [p]
  | q :: m' => match var_cmp (fst p) (fst q) with Lt => q :: mono_insert p m' | _ => p :: m end
  end.
Definition mono_sort (m : list (var * nat)) : list (var * nat) := fold_right mono_insert [] m.
Definition c_add_monomial (fuel : nat) (m : list (var * nat)) (a : Z) (c : coef) : option coef :=
  c_add_om fuel (mono_sort m) (int_assign K a) c.

(* ---- coefficient_traverse: the monomials handed to the callback, powers in push order (top first) *)
Fixpoint c_terms (c : coef) : list (list (var * nat) * Z) :=
  match c with
  | CNum z => [([], int_assign K z)]
  | CRec x size cs =>
    used_flat (fun d e =>
        if c_is_zero e then []
        else map (fun t => ((if Nat.eqb d 0 then fst t else (x, d) :: fst t), snd t)) (c_terms e))
      size 0%nat cs
  end.

Definition mono_of_powers (m : list (var * nat)) : mono :=
  fold_right (fun p acc => mono_mul (mono_var (fst p) (N.of_nat (snd p))) acc) [] m.
(* the polynomial denoted by a coefficient, in the canonical form of the reference model *)
Definition to_mpoly (c : coef) : mpoly :=
  mp_of_terms (map (fun t => (mono_of_powers (fst t), snd t)) (c_terms c)).

(* coefficient_order: rebuild from the traversal by add_monomial (also how the drivers build polynomials) *)
Definition c_of_terms (fuel : nat) (l : list (list (var * nat) * Z)) : option coef :=
  fold_left (fun acc t => match acc with None => None | Some c => c_add_monomial fuel (fst t) (snd t) c end)
            l (Some (CNum (int_assign K 0))).
Definition c_order (fuel : nat) (c : coef) : option coef :=
  match c with CNum _ => Some c | _ => c_of_terms fuel (c_terms c) end.

(* ---- coefficient_evaluate_integer under rho *)
Fixpoint c_eval (rho : var -> Z) (c : coef) : Z :=
  match c with
  | CNum z => int_assign K z
  | CRec x size cs =>
    fst ((fix go (n : nat) (l : list coef) (acc : Z * Z) {struct l} : Z * Z :=
            match n, l with
            | S n', e :: l' =>
              let out := int_add_mul K (fst acc) (c_eval rho e) (snd acc) in
              go n' l' (out, match n' with O => snd acc | S _ => int_mul K (snd acc) (rho x) end)
            | _, _ => acc
            end) size cs (int_assign K 0, int_assign K 1))
  end.

(* degree / top variable as reported by coefficient_degree, coefficient_top_variable *)
Definition c_degree (c : coef) : nat := match c with CNum _ => O | CRec _ size _ => Nat.pred size end.
Definition c_top (c : coef) : option var := match c with CNum _ => None | CRec x _ _ => Some x end.

(* ---- representation invariants (booleans, checked by the driver on the model and by the harness on C) *)
(* sanity of the stored representation: 1 <= size <= capacity and every entry at or above `size` is zero
   ("every stored term is below size") *)
Fixpoint c_slack_ok (c : coef) : bool :=
  match c with
  | CNum _ => true
  | CRec _ size cs => Nat.leb 1 size && used_all c_slack_ok (forallb c_is_zero) size cs
  end.
(* coefficient_is_normalized recursively + variable order: size >= 2, non-zero top entry, sub-coefficients
   in strictly smaller variables *)
Fixpoint c_normal (c : coef) : bool :=
  match c with
  | CNum _ => true
  | CRec x size cs =>
    Nat.leb 2 size && negb (c_is_zero (c_nth (Nat.pred size) cs)) &&
    used_all (fun e => c_normal e &&
                       match e with CRec y _ _ => match var_cmp x y with Gt => true | _ => false end | _ => true end)
             (fun _ => true) size cs
  end.

(* nesting depth, used for fuel bounds *)
Fixpoint c_depth (c : coef) : nat :=
  match c with
  | CNum _ => O
  | CRec _ _ cs => S (fold_right (fun e acc => Nat.max (c_depth e) acc) O cs)
  end.

End WithContext.

(* ===================================================================================================== *)
(* Sparse univariate polynomials  (src/upolynomial/upolynomial.c): monomials (degree, coefficient) by
   increasing degree, non-zero coefficients, the zero polynomial is [(0,0)].  Dense scratch buffers are
   coefficient lists (UPoly.v conventions, low degree first). *)
From LP Require Import UPoly.

Definition upoly := list (nat * Z).

Section Univariate.
Variable K : ring.

(* lp_upolynomial_construct(K, degree, coefficients): zero coefficients (after reduction into K) skipped *)
Fixpoint u_collect (d : nat) (l : list Z) : upoly :=
  match l with
  | [] => []
  | c :: l' => let c' := int_assign K c in
               if c' =? 0 then u_collect (S d) l' else (d, c') :: u_collect (S d) l'
  end.
Definition u_construct (l : list Z) : upoly :=
  match u_collect 0 l with [] => [(0%nat, 0)] | r => r end.

Definition u_degree (p : upoly) : nat := fst (last p (0%nat, 0)).
(* lp_upolynomial_unpack into a zeroed array of degree+1 entries *)
Definition u_unpack (p : upoly) : list Z :=
  map (fun i => fold_right (fun m acc => if Nat.eqb (fst m) i then snd m else acc) 0 p) (seq 0 (S (u_degree p))).
Definition u_is_zero (p : upoly) : bool :=
  match p with [(O, c)] => c =? 0 | _ => false end.

(* upolynomial_dense_to_upolynomial of a buffer whose entries are already reduced *)
Definition u_of_dense (l : list Z) : upoly := u_construct l.

Definition u_add (p q : upoly) : upoly :=
  u_of_dense (map (int_assign K) (padd (u_unpack p) (u_unpack q))).
Definition u_sub (p q : upoly) : upoly :=
  u_of_dense (map (int_assign K) (psub (u_unpack p) (u_unpack q))).
Definition u_neg (p : upoly) : upoly := map (fun m => (fst m, int_neg K (snd m))) p.

(* lp_upolynomial_multiply_simple (repaired: vanishing products are dropped) *)
Definition u_multiply_simple (md : nat) (mc : Z) (q : upoly) : upoly :=
  match filter (fun m => negb (snd m =? 0)) (map (fun m => ((fst m + md)%nat, int_mul K mc (snd m))) q) with
  | [] => [(0%nat, 0)]
  | r => r
  end.
Definition u_mul_c (p : upoly) (c : Z) : upoly := u_multiply_simple 0 (int_assign K c) p.

Definition u_mul (p q : upoly) : upoly :=
  let '(p, q) := if Nat.ltb (length q) (length p) then (q, p) else (p, q) in
  if u_is_zero p || u_is_zero q then [(0%nat, 0)]
  else
    match K, p with
    | None, [(d, c)] => u_multiply_simple d c q
    | _, _ => u_of_dense (map (int_assign K) (pmul (u_unpack p) (u_unpack q)))
    end.

Fixpoint u_pow_loop (fuel : nat) (result tmp : upoly) (n : N) : option upoly :=
  match fuel with
  | O => None
  | S f =>
    if N.eqb n 0 then Some result
    else u_pow_loop f (if N.odd n then u_mul result tmp else result) (u_mul tmp tmp) (N.div2 n)
  end.
Definition u_pow (fuel : nat) (p : upoly) (n : N) : option upoly :=
  match p with
  | [(d, c)] =>
    let c' := int_pow K c n in
    Some [(if c' =? 0 then 0%nat else (d * N.to_nat n)%nat, c')]       (* repaired: 0 is the constant 0 *)
  | _ => u_pow_loop fuel [(0%nat, int_assign K 1)] p n
  end.

Definition u_derivative (p : upoly) : upoly :=
  u_of_dense (map (int_assign K) (pderiv (u_unpack p))).

(* lp_upolynomial_evaluate_at_integer: sum of c_i * x^d_i in K *)
Definition u_eval_int (p : upoly) (x : Z) : Z :=
  fold_left (fun v m => int_add_mul K v (snd m) (int_pow K x (N.of_nat (fst m)))) p 0.

End Univariate.

(* ---- conversions between the two types *)
Section Conversions.
Variable K : ring.
Variable rk : var -> N.
(* coefficient_to_univariate (lp_polynomial_to_univariate returns NULL unless every entry is a number) *)
Definition c_to_univariate (c : coef) : option upoly :=
  match c with
  | CNum z => Some (u_construct K [z])
  | CRec x size cs =>
    let used := firstn size cs in
    if forallb (fun e => match e with CNum _ => true | _ => false end) used
    then Some (u_construct K (map (fun e => match e with CNum z => z | _ => 0 end) used))
    else None
  end.
(* lp_upolynomial_to_polynomial: every monomial is pushed as (x, degree) - also degree 0 - and added with
   lp_polynomial_add_monomial *)
Definition c_of_upoly (ens : var -> nat -> coef -> coef) (fuel : nat) (x : var) (u : upoly) : option coef :=
  fold_left (fun acc m => match acc with
                          | None => None
                          | Some c => c_add_om_gen K rk ens fuel [(x, fst m)] (int_assign K (snd m)) c
                          end) u (Some (CNum (int_assign K 0))).
End Conversions.

(* Horner evaluation at a rational / dyadic point with the C17 scalar models
   (upolynomial_dense_evaluate_at_rational / _dyadic_rational; K = Z only) *)
Definition u_eval_rat (p : list Z) (x : rat) : rat :=
  fold_right (fun c v => q_add_integer (q_mul v x) c) (0, 1) p.
Definition u_eval_dy (p : list Z) (x : dyadic) : dyadic :=
  fold_right (fun c v => let w := dy_mul AliasA v v x in dy_add_integer AliasA w w c) (mkDy 0 0) p.
