(* C18 proofs, part 7: the monomials of an in-order object are pairwise different and (in normal form) have
   non-zero coefficients; hence the traversal is a permutation of the canonical term list, and the XOR hash is a
   function of the denoted polynomial - whatever the order the object is laid out in. *)
From Coq Require Import ZArith NArith List Bool Lia Sorted Permutation.
From LP Require Import MPoly VarOrder VarOrderMPoly VarOrderProofs VarOrderDen VarOrderWf VarOrderNorm.
Import ListNotations.
Local Open Scope Z_scope.

Definition key (t : pmono * Z) : mono := mono_canon (fst t).

Lemma NoDup_app_intro : forall (A : Type) (l1 l2 : list A), NoDup l1 -> NoDup l2 -> (forall a, In a l1 -> ~ In a l2) -> NoDup (l1 ++ l2).
Proof.
  induction l1 as [|a l1 IH]; intros l2 H1 H2 Hd; cbn; auto. inversion H1; subst. constructor.
  - rewrite in_app_iff. intros [H|H]; [contradiction|]. apply (Hd a); [now left|exact H].
  - apply IH; auto. intros b Hb. apply Hd. now right.
Qed.

Lemma NoDup_map_transfer : forall (A B C : Type) (f : A -> B) (g : A -> C) l,
  (forall a b, In a l -> In b l -> f a = f b -> g a = g b) -> NoDup (map g l) -> NoDup (map f l).
Proof.
  induction l as [|a l IH]; intros H Hg; cbn; [constructor|]. cbn in Hg. inversion Hg; subst. constructor.
  - intros Hin. apply in_map_iff in Hin as (b & Hb & Hin). apply H2. rewrite (H a b); [now apply in_map|now left|now right|auto].
  - apply IH; auto. intros a' b' Ha Hb. apply H; now right.
Qed.

Lemma all_below_mexp : forall o x s, all_below o x s -> mexp s x = 0%N.
Proof.
  induction 1 as [|[y e] s Hy _ IH]; cbn; auto. cbn in Hy. destruct (N.eqb_spec y x) as [->|]; [exfalso; exact (gtv_irrefl _ _ Hy)|]. lia.
Qed.

Lemma traverse_below_mexp : forall o x c, wf_order o c -> below o x c -> forall t, In t (traverse c []) -> mexp (fst t) x = 0%N.
Proof.
  intros o x c Hw Hb [s a] Hin. cbn [fst]. eapply all_below_mexp. eapply (proj2 (traverse_sdesc o c Hw s a Hin)). exact Hb.
Qed.

Lemma key_cons_inj : forall x d s s', mono_canon ((x, d) :: s) = mono_canon ((x, d) :: s') -> mono_canon s = mono_canon s'.
Proof.
  intros x d s s' H. apply mono_canon_ext. intros y.
  assert (E : mexp (mono_canon ((x, d) :: s)) y = mexp (mono_canon ((x, d) :: s')) y) by now rewrite H.
  rewrite !mexp_canon in E. cbn [mexp] in E. lia.
Qed.

Lemma mexp_key : forall t x, mexp (key t) x = mexp (fst t) x.
Proof. intros; apply mexp_canon. Qed.

Lemma tpowers_distinct : forall o x rest d,
  (forall ci, In ci rest -> below o x ci /\ wf_order o ci /\ NoDup (map key (traverse ci []))) ->
  NoDup (map key (tpowers x [] d rest)) /\ (forall t, In t (tpowers x [] d rest) -> (d <= mexp (fst t) x)%N).
Proof.
  intros o x. induction rest as [|ci rest IH]; intros d H; [split; [constructor|intros t []]|].
  cbn [tpowers]. destruct (H ci (or_introl eq_refl)) as (Hb & Hw & Hnd).
  destruct (IH (d + 1)%N (fun c Hc => H c (or_intror Hc))) as [IH1 IH2].
  assert (Hblock : forall t, In t (if is_zero ci then [] else traverse ci ([] ++ [(x, d)])) -> mexp (fst t) x = d).
  { intros t Ht. destruct (is_zero ci); [destruct Ht|]. rewrite traverse_pfx in Ht. unfold pfx in Ht.
    apply in_map_iff in Ht as (u & <- & Hu). cbn [fst app]. cbn [mexp]. rewrite N.eqb_refl.
    pose proof (traverse_below_mexp o x ci Hw Hb u Hu) as E0. destruct u as [su au]. cbn [fst] in *. rewrite E0. lia. }
  split.
  - rewrite map_app. apply NoDup_app_intro; auto.
    + destruct (is_zero ci); [constructor|]. rewrite traverse_pfx. unfold pfx. rewrite map_map.
      eapply NoDup_map_transfer; [|exact Hnd]. intros a b _ _ E. unfold key in *. cbn [fst app] in E. eapply key_cons_inj; eauto.
    + intros k Hk1 Hk2. apply in_map_iff in Hk1 as (t1 & <- & Ht1). apply in_map_iff in Hk2 as (t2 & E & Ht2).
      pose proof (Hblock t1 Ht1) as E1. pose proof (IH2 t2 Ht2) as E2.
      assert (mexp (key t1) x = mexp (key t2) x) by now rewrite E. rewrite !mexp_key in *. lia.
  - intros t Ht. apply in_app_or in Ht as [Ht|Ht]; [rewrite (Hblock t Ht); lia|]. specialize (IH2 t Ht). lia.
Qed.

Theorem traverse_distinct : forall o c, wf_order o c -> NoDup (map key (traverse c [])).
Proof.
  intros o. induction c as [b|x cs IH] using coef_ind2; intros Hw; [cbn; repeat constructor; auto|].
  rewrite wf_rec_iff in Hw. rewrite Forall_forall in IH. destruct cs as [|c0 rest]; [constructor|]. rewrite traverse_rec.
  destruct (tpowers_distinct o x rest 1) as [H1 H2].
  { intros ci Hci. destruct (Hw ci (or_intror Hci)) as [Hb Hwi]. repeat split; auto. apply IH; [now right|exact Hwi]. }
  destruct (Hw c0 (or_introl eq_refl)) as [Hb0 Hw0].
  rewrite map_app. apply NoDup_app_intro; auto.
  - destruct (is_zero c0); [constructor|]. apply IH; [now left|exact Hw0].
  - intros k Hk1 Hk2. apply in_map_iff in Hk1 as (t1 & <- & Ht1). apply in_map_iff in Hk2 as (t2 & E & Ht2).
    destruct (is_zero c0); [destruct Ht1|].
    pose proof (traverse_below_mexp o x c0 Hw0 Hb0 t1 Ht1) as E1. pose proof (H2 t2 Ht2) as E2.
    assert (mexp (key t1) x = mexp (key t2) x) by now rewrite E. rewrite !mexp_key in *. lia.
Qed.

(* ---------------------------------------------------------------- in normal form every reported coefficient is non-zero *)
Definition tz (c : coef) (p : pmono) : list (pmono * Z) := if is_zero c then [] else traverse c p.

Lemma tpowers_tz : forall x p l d, tpowers x p d l =
  match l with [] => [] | ci :: l' => tz ci (p ++ [(x, d)]) ++ tpowers x p (d + 1)%N l' end.
Proof. intros x p [|ci l] d; reflexivity. Qed.

Lemma tz_nonzero : forall c, norm c -> forall p, Forall (fun t => snd t <> 0) (tz c p).
Proof.
  induction c as [b|x cs IH] using coef_ind2; intros Hn p; unfold tz.
  - cbn [is_zero traverse]. destruct (Z.eqb_spec b 0); constructor; auto.
  - cbn [is_zero]. rewrite Forall_forall in IH. destruct cs as [|c0 rest]; [constructor|]. rewrite traverse_rec.
    apply Forall_app. split.
    + apply IH; [now left|]. eapply norm_children; eauto. now left.
    + assert (Hr : forall c, In c rest -> norm c) by (intros c Hc; eapply norm_children; eauto; now right).
      assert (IHr : forall c, In c rest -> forall p, Forall (fun t => snd t <> 0) (tz c p)) by (intros c Hc; apply IH; [now right|auto]).
      clear IH Hn. generalize 1%N. induction rest as [|ci rest IHl]; intros d; [constructor|].
      rewrite tpowers_tz. apply Forall_app. split; [apply IHr; now left|].
      apply IHl; intros c Hc; [apply Hr|apply IHr]; now right.
Qed.

Lemma traverse_nonzero : forall c, norm c -> is_zero c = false -> Forall (fun t => snd t <> 0) (traverse c []).
Proof. intros c Hn Hz. pose proof (tz_nonzero c Hn []) as H. unfold tz in H. now rewrite Hz in H. Qed.

Lemma tpowers_last : forall x p l d t, l <> [] -> In t (tz (last l (CNum 0)) (p ++ [(x, (d + N.of_nat (length l - 1))%N)])) ->
  In t (tpowers x p d l).
Proof.
  intros x p. induction l as [|c l IH]; intros d t Hne Hin; [congruence|]. rewrite tpowers_tz. apply in_or_app.
  destruct l as [|c' l'].
  - left. cbn [last length] in Hin. replace (d + N.of_nat (1 - 1))%N with d in Hin by lia. exact Hin.
  - right. apply IH; [discriminate|]. change (last (c :: c' :: l') (CNum 0)) with (last (c' :: l') (CNum 0)) in Hin.
    replace (d + 1 + N.of_nat (length (c' :: l') - 1))%N with (d + N.of_nat (length (c :: c' :: l') - 1))%N by (cbn [length]; lia).
    exact Hin.
Qed.

Lemma last_In : forall (A : Type) (l : list A) d, l <> [] -> In (last l d) l.
Proof.
  induction l as [|a l IH]; intros d H; [congruence|]. destruct l as [|b l]; [now left|]. right. apply (IH d). discriminate.
Qed.

Lemma traverse_nonempty : forall c, norm c -> is_zero c = false -> forall p, exists t, In t (traverse c p).
Proof.
  induction c as [b|x cs IH] using coef_ind2; intros Hn Hz p; [exists (p, b); now left|].
  inversion Hn as [|? ? Hlen Hlast Hch]; subst. rewrite Forall_forall in IH.
  destruct cs as [|c0 rest]; [cbn in Hlen; lia|]. destruct rest as [|c1 rest]; [cbn in Hlen; lia|].
  assert (Hin : In (last (c0 :: c1 :: rest) (CNum 0)) (c0 :: c1 :: rest)) by (apply last_In; discriminate).
  destruct (IH _ Hin (Hch _ Hin) Hlast (p ++ [(x, (1 + N.of_nat (length (c1 :: rest) - 1))%N)])) as [t Ht].
  exists t. rewrite traverse_rec. apply in_or_app; right. apply tpowers_last; [discriminate|].
  change (last (c0 :: c1 :: rest) (CNum 0)) with (last (c1 :: rest) (CNum 0)) in *. unfold tz. rewrite Hlast. exact Ht.
Qed.

(* ---------------------------------------------------------------- the traversal vs. the canonical term list *)
Lemma In_of_terms_fst : forall l u, In u (mp_of_terms l) -> In (fst u) (map fst l).
Proof.
  induction l as [|t l IH]; intros u H; [destruct H|]. unfold mp_of_terms in H. cbn [fold_right] in H.
  apply In_add_term in H as [H|H]; [left; now rewrite H|right; now apply IH].
Qed.

Lemma add_term_perm : forall t p, snd t <> 0 -> ~ In (fst t) (map fst p) -> Permutation (mp_add_term t p) (t :: p).
Proof.
  intros [mt c] p Hc. cbn [snd fst] in *. induction p as [|[m' c'] p IH]; intros Hn; cbn [mp_add_term].
  - destruct (Z.eqb_spec c 0); [contradiction|reflexivity].
  - destruct (Z.eqb_spec c 0); [contradiction|]. destruct (mono_cmp mt m') eqn:E.
    + apply mono_cmp_eq in E; subst. exfalso; apply Hn; now left.
    + cbn [mp_add_term] in IH. destruct (Z.eqb_spec c 0); [contradiction|].
      eapply perm_trans; [apply perm_skip, IH|apply perm_swap]. intros H; apply Hn; now right.
    + reflexivity.
Qed.

Lemma of_terms_perm : forall l, NoDup (map fst l) -> Forall (fun t => snd t <> 0) l -> Permutation (mp_of_terms l) l.
Proof.
  induction l as [|t l IH]; intros Hnd Hnz; [reflexivity|]. cbn [map] in Hnd. inversion Hnd; subst. inversion Hnz; subst.
  unfold mp_of_terms; cbn [fold_right]. fold (mp_of_terms l).
  eapply perm_trans; [apply add_term_perm; auto|apply perm_skip; auto].
  intros Hin. apply in_map_iff in Hin as (u & Hu & Hin). apply In_of_terms_fst in Hin. rewrite Hu in Hin. contradiction.
Qed.

Lemma to_mpoly_perm : forall o c, wf_order o c -> norm c -> is_zero c = false ->
  Permutation (to_mpoly c) (map canon_term (traverse c [])).
Proof.
  intros o c Hw Hn Hz. unfold to_mpoly, mp_norm. apply of_terms_perm.
  - rewrite map_map. exact (traverse_distinct o c Hw).
  - apply Forall_forall. intros t Hin. apply in_map_iff in Hin as (u & <- & Hu). cbn [canon_term snd].
    pose proof (traverse_nonzero c Hn Hz) as H. rewrite Forall_forall in H. now apply H.
Qed.

(* the powers reported by a traversal have positive exponents *)
Lemma traverse_pos : forall c t, In t (traverse c []) -> Forall (fun p => (0 < snd p)%N) (fst t).
Proof.
  induction c as [b|x cs IH] using coef_ind2; intros t Hin.
  - destruct Hin as [<-|[]]. constructor.
  - rewrite Forall_forall in IH. destruct cs as [|c0 rest]; [destruct Hin|]. rewrite traverse_rec in Hin. apply in_app_or in Hin as [Hin|Hin].
    + destruct (is_zero c0); [destruct Hin|]. apply (IH c0); [now left|exact Hin].
    + apply In_tpowers in Hin as (i & ci & s & Hn & Hin & Hs). rewrite Hs. constructor; [cbn [snd]; lia|].
      apply nth_error_In in Hn. apply (IH ci (or_intror Hn) (s, snd t) Hin).
Qed.

Lemma mono_mul_single_perm : forall x d b, (0 < d)%N -> ~ In x (map fst b) -> Permutation (mono_mul [(x, d)] b) ((x, d) :: b).
Proof.
  intros x d. induction b as [|[y f] b IH]; intros Hd Hn; [reflexivity|]. cbn [mono_mul].
  destruct (N.compare_spec x y) as [->|Hlt|Hgt].
  - exfalso; apply Hn; now left.
  - reflexivity.
  - cbn [mono_mul] in IH. eapply perm_trans; [apply perm_skip, IH; auto|apply perm_swap]. intros H; apply Hn; now right.
Qed.

Lemma mono_canon_perm_self : forall s, NoDup (map fst s) -> Forall (fun p => (0 < snd p)%N) s -> Permutation (mono_canon s) s.
Proof.
  induction s as [|[x d] s IH]; intros Hnd Hpos; [reflexivity|]. cbn [map fst] in Hnd. inversion Hnd; subst. inversion Hpos; subst. cbn [snd] in *.
  cbn [mono_canon fold_right fst snd]. fold (mono_canon s). unfold mono_var. destruct (N.eqb_spec d 0); [lia|].
  specialize (IH H2 H4).
  eapply perm_trans; [apply mono_mul_single_perm; auto|apply perm_skip; exact IH].
  intros Hin. apply H1. eapply Permutation_in; [apply Permutation_map; exact IH|exact Hin].
Qed.

Section HashFacts.
  Variable hz : Z -> N.
  Variable hp : var -> N -> N.

  Definition xsum (l : list N) : N := fold_right N.lxor 0%N l.
  Definition powers_hash (s : pmono) : N := xsum (map (fun xd => hp (fst xd) (snd xd)) s).
  Definition term_hash (t : pmono * Z) : N := N.lxor (hz (snd t)) (powers_hash (fst t)).
  Definition mp_hash (p : mpoly) : N := xsum (map term_hash p).

  Lemma xsum_perm : forall l1 l2, Permutation l1 l2 -> xsum l1 = xsum l2.
  Proof.
    induction 1 as [|x l l' _ IH|x y l|l1 l2 l3 _ IH1 _ IH2]; cbn [xsum fold_right]; auto.
    - unfold xsum in IH. now rewrite IH.
    - rewrite <- !N.lxor_assoc. f_equal. apply N.lxor_comm.
    - congruence.
  Qed.
  Lemma xsum_app : forall l1 l2, xsum (l1 ++ l2) = N.lxor (xsum l1) (xsum l2).
  Proof. induction l1 as [|a l1 IH]; intros l2; cbn [app xsum fold_right]; [now rewrite N.lxor_0_l|]. fold (xsum (l1 ++ l2)) (xsum l1). now rewrite IH, N.lxor_assoc. Qed.

  Lemma fold_powers : forall s h, fold_left (fun h xd => N.lxor h (hp (fst xd) (snd xd))) s h = N.lxor h (powers_hash s).
  Proof.
    induction s as [|p s IH]; intros h; cbn; [now rewrite N.lxor_0_r|]. rewrite IH. unfold powers_hash. now rewrite N.lxor_assoc.
  Qed.
  Lemma hash_step_eq : forall h t, hash_step hz hp h t = N.lxor h (term_hash t).
  Proof. intros h [s a]. unfold hash_step, term_hash. cbn [fst snd]. rewrite fold_powers. now rewrite N.lxor_assoc. Qed.
  Lemma fold_hash_step : forall l h, fold_left (hash_step hz hp) l h = N.lxor h (xsum (map term_hash l)).
  Proof.
    induction l as [|t l IH]; intros h; cbn [fold_left map xsum fold_right]; [now rewrite N.lxor_0_r|].
    rewrite IH, hash_step_eq. now rewrite N.lxor_assoc.
  Qed.
  Lemma coef_hash_xsum : forall c, coef_hash hz hp c = xsum (map term_hash (traverse c [])).
  Proof. intros. unfold coef_hash. rewrite fold_hash_step. now rewrite N.lxor_0_l. Qed.

  Lemma term_hash_perm : forall s s' a, Permutation s s' -> term_hash (s, a) = term_hash (s', a).
  Proof. intros s s' a H. unfold term_hash, powers_hash. cbn [fst snd]. f_equal. apply xsum_perm. now apply Permutation_map. Qed.

  (* hashing the traversal = hashing the canonical terms *)
  Lemma term_hash_canon : forall o c t, wf_order o c -> In t (traverse c []) -> term_hash (canon_term t) = term_hash t.
  Proof.
    intros o c [s a] Hw Hin. unfold canon_term. cbn [fst snd]. apply term_hash_perm. apply mono_canon_perm_self.
    - eapply traverse_nodup_vars; eauto.
    - exact (traverse_pos c (s, a) Hin).
  Qed.

  Theorem coef_hash_mp_hash : forall o c, wf_order o c -> norm c -> is_zero c = false ->
    coef_hash hz hp c = mp_hash (to_mpoly c).
  Proof.
    intros o c Hw Hn Hz. rewrite coef_hash_xsum. unfold mp_hash.
    rewrite (xsum_perm _ _ (Permutation_map term_hash (to_mpoly_perm o c Hw Hn Hz))). rewrite map_map. f_equal.
    apply map_ext_in. intros t Ht. symmetry. eapply term_hash_canon; eauto.
  Qed.

  (* the hash is a function of the denoted polynomial: two objects laid out under ANY two orders that denote the
     same polynomial have the same coefficient_hash *)
  Theorem coef_hash_denotation : forall o1 o2 c1 c2, wf_order o1 c1 -> norm c1 -> wf_order o2 c2 -> norm c2 ->
    to_mpoly c1 = to_mpoly c2 -> coef_hash hz hp c1 = coef_hash hz hp c2.
  Proof.
    intros o1 o2 c1 c2 Hw1 Hn1 Hw2 Hn2 He.
    assert (Hzero : forall o c, wf_order o c -> norm c -> is_zero c = false -> to_mpoly c <> []).
    { intros o c Hw Hn Hz E. pose proof (to_mpoly_perm o c Hw Hn Hz) as P. rewrite E in P. apply Permutation_nil in P.
      destruct (traverse_nonempty c Hn Hz []) as [t Ht]. destruct (traverse c []); [destruct Ht|discriminate]. }
    assert (Hz0 : forall c, is_zero c = true -> to_mpoly c = []).
    { intros c Hz. apply is_zero_eq in Hz; subst. reflexivity. }
    destruct (is_zero c1) eqn:Z1; destruct (is_zero c2) eqn:Z2.
    - apply is_zero_eq in Z1, Z2. now subst.
    - exfalso. apply (Hzero o2 c2 Hw2 Hn2 Z2). rewrite <- He. now apply Hz0.
    - exfalso. apply (Hzero o1 c1 Hw1 Hn1 Z1). rewrite He. now apply Hz0.
    - rewrite (coef_hash_mp_hash o1 c1), (coef_hash_mp_hash o2 c2); auto. now rewrite He.
  Qed.

  (* in particular re-ordering never changes the hash *)
  Theorem coef_hash_coef_order : forall o0 o c, wf_order o0 c -> norm c -> coef_hash hz hp (coef_order o c) = coef_hash hz hp c.
  Proof.
    intros o0 o c Hw Hn. apply (coef_hash_denotation o o0); auto.
    - eapply coef_order_wf; eauto.
    - now apply coef_order_norm.
    - apply to_mpoly_coef_order.
  Qed.
End HashFacts.
