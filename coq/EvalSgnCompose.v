(* C10 proofs: composition.  Bridges stdlib Q / Qc (evaluate_rationals, C15) into an arbitrary real field, the
   interval record of IntervalArith.v into the one of EvalSgn.v, and states the sign theorems with the premises
   `encloses` / `annihilates` discharged where the lower layers allow it. *)
From Coq Require Import ZArith NArith List Bool QArith Qcanon.
From LP Require Import Scalar ScalarProofs UPoly MPoly IntervalArith IntervalArithProofs EvalSgn EvalSgnProofs EvalSgnApprox EvalSgnApproxProofs Bounds.
Set Warnings "-notation-overridden,-ambiguous-paths".
From mathcomp Require Import all_ssreflect all_algebra.
From mathcomp Require Import ssrZ zify ring.
Set Warnings "notation-overridden,ambiguous-paths".
From LP Require Import BoundsProofs EvalSgnReal EvalSgnElim.
Import Order.TTheory GRing.Theory Num.Theory.
Set Implicit Arguments.
Unset Strict Implicit.
Unset Printing Implicit Defensive.
Local Open Scope ring_scope.

Section Bridge.
Variable R : realFieldType.

(* stdlib rationals in R *)
Definition QR (x : Q) : R := zR R (Qnum x) / zR R (Zpos (Qden x)).

Lemma QR_den_gt0 (x : Q) : 0 < zR R (Zpos (Qden x)).
Proof. by apply: zR_gt0. Qed.

Lemma QR_lt x y : Qlt x y -> QR x < QR y.
Proof.
rewrite /Qlt /QR => H.
rewrite ltr_pdivr_mulr ?QR_den_gt0 // mulrAC ltr_pdivl_mulr ?QR_den_gt0 // -!zRM zR_lt.
exact/Z.ltb_lt.
Qed.

Lemma QR_eq x y : Qeq x y -> QR x = QR y.
Proof.
rewrite /Qeq /QR => H.
have dx := QR_den_gt0 x; have dy := QR_den_gt0 y.
apply/eqP; rewrite eqr_div ?lt0r_neq0 // -!zRM; apply/eqP; congr (zR _ _); exact: H.
Qed.

Lemma QR_QofR (a : Scalar.rat) : qpos a -> QR (QofR a) = qR R a.
Proof.
case: a => n [|p|p] //= _; rewrite /qpos /QofR /=.
by rewrite (@QR_eq _ (Qmake n p)) // -Qmake_Qdiv.
Qed.

(* the interval record of IntervalArith.v as the record of EvalSgn.v *)
Definition of_ritv (I : ritv) : rint := mkRint (ia I) (ib I) (ipt I) (ia_open I) (ib_open I).

Lemma rint_wf_of_ritv I : rwf I -> rint_wf (of_ritv I).
Proof. by case=> [[a1 _] [[b1 _] _]]; split. Qed.

Lemma in_rint_of_rin I x : rwf I -> rin x I -> in_rint (of_ritv I) (QR x).
Proof.
move=> W; have [wa wb] := rint_wf_of_ritv W.
rewrite /rin /Qin /in_rint /of_ritv /= -(QR_QofR wa) -(QR_QofR wb) /=.
case: (ipt I); first by move=> /QR_eq ->.
case=> Ha Hb; apply/andP; split.
- case: Ha => [/QR_lt H|[/QR_eq -> ->]] //.
  by case: (ia_open I) => //; exact: ltW.
- case: Hb => [/QR_lt H|[/QR_eq -> ->]] //.
  by case: (ib_open I) => //; exact: ltW.
Qed.

(* ---- Qc -> R is a ring morphism, and commutes with polynomial evaluation *)
Definition QRc (q : Qc) : R := QR (this q).

Lemma QR_add x y : QR (Qplus x y) = QR x + QR y.
Proof.
rewrite /QR /=.
have dx := QR_den_gt0 x; have dy := QR_den_gt0 y.
have -> : zR R (Zpos (Qden x * Qden y)) = zR R (Zpos (Qden x)) * zR R (Zpos (Qden y)) by rewrite -zRM.
rewrite zRD !zRM; field.
by rewrite !lt0r_neq0.
Qed.

Lemma QR_mul x y : QR (Qmult x y) = QR x * QR y.
Proof.
rewrite /QR /=.
have dx := QR_den_gt0 x; have dy := QR_den_gt0 y.
have -> : zR R (Zpos (Qden x * Qden y)) = zR R (Zpos (Qden x)) * zR R (Zpos (Qden y)) by rewrite -zRM.
rewrite zRM; field.
by rewrite !lt0r_neq0.
Qed.

Lemma QRc_add a b : QRc (Qcplus a b) = QRc a + QRc b.
Proof. by rewrite /QRc (QR_eq (this_add a b)) QR_add. Qed.
Lemma QRc_mul a b : QRc (Qcmult a b) = QRc a * QRc b.
Proof. by rewrite /QRc (QR_eq (this_mul a b)) QR_mul. Qed.
Lemma QRc_zq c : QRc (zq c) = zR R c.
Proof. by rewrite /QRc (QR_eq (this_zq c)) /QR /= divr1. Qed.
Lemma QRc0 : QRc (Q2Qc 0) = 0. Proof. by rewrite /QRc /QR /= mul0r. Qed.
Lemma QRc1 : QRc (Q2Qc 1) = 1. Proof. by rewrite /QRc /QR /= divr1. Qed.
Lemma QRc_pow a n : QRc (Qcpower a n) = QRc a ^+ n.
Proof. by elim: n => [|n IH]; rewrite ?expr0 ?QRc1 //= QRc_mul IH exprS. Qed.

Lemma evalR_QRc (rho : var -> Qc) p : mp_evalR (fun x => QRc (rho x)) p = QRc (mp_evalQ rho p).
Proof.
elim: p => [|[m c] p IH]; first by rewrite QRc0.
rewrite evalQ_cons QRc_add QRc_mul QRc_zq /= IH /term_evalR /=; congr (_ * _ + _).
elim: m => [|[x e] m IHm]; first by rewrite QRc1.
by rewrite mono_evalQ_cons QRc_mul QRc_pow /= IHm.
Qed.

Lemma evalR_ext (rho rho' : var -> R) p : (forall x, rho x = rho' x) -> mp_evalR rho p = mp_evalR rho' p.
Proof.
move=> H; elim: p => [|[m c] p IH] //=; rewrite IH /term_evalR /=; congr (_ * _ + _).
by elim: m => [|[x e] m IHm] //=; rewrite IHm H.
Qed.

(* ================================================================ composition *)
(* (2)+(c): the interval stage of coefficient_sgn with the MODEL's approximations (coefficient_value_approx on the
   intervals m j of round j), when the values of the remaining variables are rational numbers lying in their
   intervals: the only premise left about libpoly's computation is `annihilates` *)
Theorem coef_sgn_rational_values fuel order (m : nat -> var -> ritv) (rho : var -> Qc) C_rat (B : seq Z) s :
  (forall j x, rwf (m j x)) -> (forall j x, rin (this (rho x)) (m j x)) ->
  mwf C_rat -> vars_in order C_rat ->
  strip_zeros B <> [::] -> hornerR B (QRc (mp_evalQ rho C_rat)) = 0 ->
  coef_sgn_core fuel (fun j => of_ritv (value_approx order (m j) C_rat)) B = Some s ->
  s = rsgn (QRc (mp_evalQ rho C_rat)).
Proof.
move=> Wm Hm wC vC B0 Bv H.
have enc j := value_approx_encloses order (m j) rho C_rat (Wm j) (Hm j) wC vC.
have [] // := @coef_sgn_core_correct R fuel _ B (QRc (mp_evalQ rho C_rat)) s _ _ B0 Bv H.
- by move=> j; apply: rint_wf_of_ritv; case: (enc j).
- by move=> j; apply: in_rint_of_rin; case: (enc j).
Qed.

(* (2)+(3)+(c), end to end for ONE remaining variable y whose value is a rational number a (given as a root of f,
   degree >= 2 in libpoly, so that it is kept symbolic): no premise about libpoly's computation is left except that
   the eliminant is not the zero polynomial (a decidable fact about the computed B, asserted by the C code) *)
Theorem coef_sgn_one_variable_rational fuel z y (m : nat -> ritv) (a : Qc) C_rat (f : seq Z) s :
  z <> y -> mp_wf C_rat -> vars_in [:: y] C_rat -> mp_degree z C_rat = 0%num ->
  (1 < size f)%N -> List.last f Z0 <> Z0 -> hornerR f (QRc a) = 0 ->
  (forall j, rwf (m j)) -> (forall j, rin (this a) (m j)) ->
  let rho := fun x : var => if N.eqb x y then a else Q2Qc 0 in
  let box := fun j (x : var) => if N.eqb x y then m j else ri_zero in
  let B := eliminant1 z y C_rat f in
  strip_zeros B <> [::] ->
  coef_sgn_core fuel (fun j => of_ritv (value_approx [:: y] (box j) C_rat)) B = Some s ->
  s = rsgn (QRc (mp_evalQ rho C_rat)).
Proof.
move=> zy wC vC dC sf lf fa Wm Hm rho box B B0 H.
have [z0 w0] := ri_zero_ok.
apply: (@coef_sgn_rational_values fuel [:: y] box rho C_rat B s) => //.
- by move=> j x; rewrite /box; case: (N.eqb x y).
- by move=> j x; rewrite /box /rho; case: (N.eqb x y).
- exact: mp_wf_mwf.
- have := @eliminant1_annihilates R z y C_rat f (QRc a) zy wC dC sf lf fa.
  rewrite -/B => <-; congr (hornerR B _); rewrite -evalR_QRc; apply: evalR_ext => x.
  by rewrite /ptz /rho; case: (N.eqb x y) => //; rewrite QRc0.
Qed.

(* (3)+(c) for ONE proper algebraic variable y := alpha (any real root of f): `annihilates` is discharged by the
   resultant criterion; what remains is `encloses` (C15 over a real field) and that the eliminant is not zero *)
Theorem coef_sgn_one_algebraic fuel (approx : nat -> rint) z y C_rat (f : seq Z) (alpha : R) s :
  z <> y -> mp_wf C_rat -> mp_degree z C_rat = 0%num ->
  (1 < size f)%N -> List.last f Z0 <> Z0 -> hornerR f alpha = 0 ->
  let v := mp_evalR (ptz y alpha) C_rat in
  let B := eliminant1 z y C_rat f in
  (forall j, rint_wf (approx j)) -> (forall j, in_rint (approx j) v) ->
  strip_zeros B <> [::] ->
  coef_sgn_core fuel approx B = Some s -> s = rsgn v.
Proof.
move=> zy wC dC sf lf fa v B wf enc B0 H.
have Bv := @eliminant1_annihilates R z y C_rat f alpha zy wC dC sf lf fa.
by have [] := @coef_sgn_core_correct R fuel approx B v s wf enc B0 Bv H.
Qed.
End Bridge.

(* ================================================================ totality of the numeric exits *)
Lemma eval_rat_const order M : (forall x, List.In x order -> M x <> None) ->
  forall C, mp_wf C = true -> vars_in order C -> is_const (fst (eval_rat order M C)).
Proof.
move=> HM; elim: order HM => [|x rest IH] HM C wC vC /=; first exact: (wf_no_vars_const C wC vC).
have HM' : forall x0, List.In x0 rest -> M x0 <> None by move=> x0 H0; apply: HM; right.
case: (N.eqb_spec (mp_degree x C) 0) => [d0|_].
  by apply: IH => //; apply: (vars_in_deg0 x rest C (mp_wf_mwf' C wC) vC d0).
case E: (M x) => [[p q]|]; last by case: (HM x (or_introl erefl)).
apply: is_const_sum_scaled => br /(subst_terms_fst _ _ _ _ _ _ _) [r [/List.in_map_iff [c [<- Hc]] ->]].
move: Hc; rewrite /mp_coeffs; case: (C) wC vC => [|t C'] wC vC //= Hc.
have {Hc} [k <-] : exists k, mp_coeff x (N.of_nat k) (t :: C') = c.
  by case: Hc => [<-|/List.in_map_iff [k [<- _]]]; [exists 0%N|exists k].
apply: IH => //; first by apply: mp_wf_coeff.
exact: (vars_in_coeff x rest (N.of_nat k) _ vC).
Qed.

(* for a canonical polynomial whose variables all have rational / dyadic / integer values, coefficient_sgn always
   returns through a numeric exit *)
Theorem coef_sgn_numeric_total order M C : mp_wf C = true -> vars_in order C ->
  (forall x, List.In x order -> M x <> None) -> exists s, coef_sgn_numeric order M C = Some s.
Proof.
move=> wC vC HM; rewrite /coef_sgn_numeric.
case: (mp_numeric C) => [c|]; first by exists (Z.sgn c).
have [c ->] := is_const_numeric _ (eval_rat_const HM wC vC).
by exists (Z.sgn c).
Qed.

(* sign of a Qc as an element of R *)
Lemma rsgn_QRc (R : realFieldType) (q : Qc) : rsgn (QRc R q) = qc_sgn q.
Proof.
rewrite /rsgn /QRc /QR /qc_sgn.
have d0 := QR_den_gt0 R (this q).
rewrite pmulr_llt0 ?invr_gt0 // mulf_eq0 invr_eq0 (gt_eqF d0) orbF -(zR0 R) zR_lt zR_eq.
by case: (Qnum (this q)).
Qed.

(* FULL for rational / dyadic / integer assignments: the model of coefficient_sgn always answers, through a numeric
   exit, with the sign of the exact value *)
Theorem coef_sgn_rational_assignment order M C rho :
  (forall x p q, M x = Some (p, q) -> Z.lt 0 q) -> mp_wf C = true -> vars_in order C ->
  (forall x, List.In x order -> M x <> None) ->
  exists s, coef_sgn_numeric order M C = Some s /\ s = qc_sgn (mp_evalQ (subst_rho order M rho) C).
Proof.
move=> HM wC vC Hall; have [s Hs] := coef_sgn_numeric_total wC vC Hall.
by exists s; split => //; apply: (coef_sgn_numeric_correct order M rho C s HM wC Hs).
Qed.

(* (1) the refinement loop with the exponent the model computes from the eliminant: premises annihilates, encloses *)
Theorem sgn_loop_eliminant (R : realFieldType) fuel (approx : nat -> rint) (B : seq Z) (v : R) s i :
  (forall j, rint_wf (approx j)) -> (forall j, in_rint (approx j) v) ->
  strip_zeros B <> [::] -> hornerR B v = 0 ->
  sgn_loop fuel approx (root_lower_bound B) i = Some s -> s = rsgn v.
Proof.
move=> wf enc B0 Bv; case E0: (strip_zeros B) B0 => [|c0 rest] // _.
have [k2 _] := root_lower_bound_int B c0 rest E0.
apply: (sgn_loop_correct wf enc); first by apply: Z.le_trans k2.
by move=> v0; apply: root_lower_bound_real => //; rewrite E0.
Qed.
