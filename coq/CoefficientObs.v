(* Property C01, API coverage: reference predictions (over the shared reference models UPoly.v / MPoly.v) for the
   observers and small transformers of the two polynomial types that are not ring operations:
   univariate  sgn_at_*, const_term, lead_coeff, is_zero/one/monic, make_monic, reverse, subst_x_neg, subst_x_pow,
               construct_power, div_degrees, change of ring;
   multivariate is_linear/univariate/monomial, leading coefficient chain (lc_sgn, lc_constant, lc_is_constant),
               variables, is_assigned, reductum, get_coefficient, to_univariate under an integer assignment,
   monomial gcd.  Executable, stdlib only, no proofs in this file (lemmas: CoefficientObsSpec.v). *)
From Coq Require Import ZArith NArith List Bool.
From LP Require Import Scalar UPoly MPoly Coefficient CoefficientOps.
Import ListNotations.
Local Open Scope Z_scope.

(* ------------------------------------------------------------------ univariate (dense lists, low degree first) *)
(* x^deg(p) * p(1/x): lp_upolynomial_reverse_in_place *)
Definition preverse (p : list Z) : list Z := pnorm (rev (pnorm p)).
(* p(-x): lp_upolynomial_subst_x_neg *)
Fixpoint psubst_neg (p : list Z) : list Z :=
  match p with [] => [] | c :: p' => c :: pneg (psubst_neg p') end.
(* p(x^n), n >= 1: lp_upolynomial_subst_x_pow_in_place *)
Fixpoint psubst_pow (n : nat) (p : list Z) : list Z :=
  match p with [] => [] | c :: p' => c :: pshift (Nat.pred n) (psubst_pow n p') end.
(* q with q(x^a) = p, when every exponent of p is a multiple of a (a >= 1): lp_upolynomial_div_degrees *)
Definition pdiv_degrees (a : nat) (p : list Z) : list Z :=
  map (fun i => nth (i * a) p 0) (seq 0 (S (Nat.div (Nat.pred (length p)) a))).
Definition pdiv_degrees_ok (a : nat) (p : list Z) : bool :=
  forallb (fun i => (nth i p 0 =? 0) || (Nat.eqb (Nat.modulo i a) 0)) (seq 0 (length p)).
(* c * x^d *)
Definition ppower (d : nat) (c : Z) : list Z := repeat 0 d ++ [c].
(* signs *)
Definition psgn_at_int (K : ring) (p : list Z) (x : Z) : Z := Z.sgn (ring_norm K (peval p x)).
(* lp_upolynomial_make_monic: divide by the leading coefficient (Z: exact division; Z_M: multiply by its inverse);
   None when the leading coefficient is not invertible / does not divide *)
Definition pmake_monic (K : ring) (p : list Z) : option (list Z) :=
  match pnorm p with
  | [] => Some []
  | q =>
    let lc := last q 0 in
    match K with
    | None => if forallb (fun c => c mod lc =? 0) q then Some (map (fun c => c / lc) q) else None
    | Some M => match int_inv K lc with
                | Some i => Some (map (fun c => ring_norm K (c * i)) q)
                | None => None
                end
    end
  end.

(* ------------------------------------------------------------------ multivariate *)
Definition mp_is_const (p : mpoly) : bool := match mp_vars p with [] => true | _ => false end.
(* lp_polynomial_is_linear: non-constant, every term of total degree <= 1 *)
Definition mp_is_linear (p : mpoly) : bool :=
  negb (mp_is_const p) && forallb (fun t => (mono_total_deg (fst t) <=? 1)%N) p.
(* lp_polynomial_is_univariate: at most one variable (constants count) *)
Definition mp_is_univariate (p : mpoly) : bool := Nat.leb (length (mp_vars p)) 1.
(* lp_polynomial_is_monomial: at most one term (0 and constants count) *)
Definition mp_is_monomial (p : mpoly) : bool := Nat.leb (length p) 1.

(* the chain of leading coefficients lc(lc(..p..)) down to a number: coefficient_lc_sgn / _lc_constant *)
Fixpoint mp_lc_num (rk : var -> N) (fuel : nat) (p : mpoly) : option Z :=
  match fuel with
  | O => None
  | S f =>
    match mp_top rk p with
    | None => Some (match p with [] => 0 | (_, c) :: _ => c end)
    | Some x => mp_lc_num rk f (mp_lc x p)
    end
  end.
Definition mp_lc_is_const (rk : var -> N) (p : mpoly) : bool :=
  match mp_top rk p with None => true | Some x => mp_is_const (mp_lc x p) end.
(* lp_polynomial_reductum: drop the terms of maximal degree in the main variable (non-constant p) *)
Definition mp_reductum (rk : var -> N) (p : mpoly) : mpoly :=
  match mp_top rk p with
  | None => []
  | Some x => let d := mp_degree x p in filter (fun t => negb (N.eqb (mono_deg x (fst t)) d)) p
  end.
(* lp_polynomial_get_coefficient *)
Definition mp_get_coeff (rk : var -> N) (k : N) (p : mpoly) : mpoly :=
  match mp_top rk p with
  | None => if N.eqb k 0 then p else []
  | Some x => mp_coeff x k p
  end.
(* lp_polynomial_is_assigned under the assignment that sets exactly the variables satisfying `set` *)
Definition mp_is_assigned (set : var -> bool) (p : mpoly) : bool := forallb set (mp_vars p).
(* lp_polynomial_to_univariate_m: the main variable stays (unless it is assigned), the others are evaluated *)
Definition mp_to_upoly_m (rk : var -> N) (set : var -> bool) (rho : var -> Z) (p : mpoly) : list Z :=
  match mp_top rk p with
  | None => [mp_eval rho p]
  | Some x =>
    if set x then [mp_eval rho p]
    else map (fun q => mp_eval rho q) (mp_coeffs x p)
  end.

(* lp_monomial_gcd over Z: gcd of the coefficients, minimum of the exponents of the common variables *)
Definition mono_gcd (a b : mono) : mono :=
  fold_right (fun ve acc => let e := N.min (snd ve) (mono_deg (fst ve) b) in
                            if N.eqb e 0 then acc else (fst ve, e) :: acc) [] a.
Definition term_gcd (s t : term) : term := (mono_gcd (fst s) (fst t), Z.gcd (snd s) (snd t)).
