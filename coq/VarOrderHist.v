(* C18 proofs, part 5: histories.  Every object keeps its denotation across order changes, automatic and explicit
   re-ordering, hashing and comparing; operations change the denotations exactly as the order-free history says. *)
From Coq Require Import ZArith NArith List Bool Lia Permutation.
From LP Require Import MPoly VarOrder VarOrderMPoly VarOrderProofs VarOrderDen VarOrderWf.
Import ListNotations.
Local Open Scope Z_scope.

Lemma map_set_nth : forall (A B : Type) (f : A -> B) l i p, map f (set_nth l i p) = set_nth (map f l) i (f p).
Proof. induction l as [|a l IH]; intros [|i] p; cbn; auto. now rewrite IH. Qed.
Lemma set_nth_same : forall (A : Type) (l : list A) i d, set_nth l i (nth i l d) = l.
Proof. induction l as [|a l IH]; intros [|i] d; cbn; auto. now rewrite IH. Qed.
Lemma set_nth_length : forall (A : Type) (l : list A) i p, length (set_nth l i p) = length l.
Proof. induction l as [|a l IH]; intros [|i] p; cbn; auto. Qed.
Lemma nth_set_nth_eq : forall (A : Type) (l : list A) i p d, (i < length l)%nat -> nth i (set_nth l i p) d = p.
Proof. induction l as [|a l IH]; intros [|i] p d H; cbn in *; try lia; auto. apply IH; lia. Qed.
Lemma nth_set_nth_neq : forall (A : Type) (l : list A) i j p d, i <> j -> nth j (set_nth l i p) d = nth j l d.
Proof. induction l as [|a l IH]; intros [|i] [|j] p d H; cbn; auto; try congruence. Qed.

Lemma mp_norm_wf_monos : forall l, Forall (fun t => mono_wf (fst t) = true) (mp_norm l).
Proof.
  intros l. unfold mp_norm.
  assert (H : Forall (fun t => mono_wf (fst t) = true) (map canon_term l)).
  { apply Forall_forall. intros t Hin. apply in_map_iff in Hin as (u & <- & _). apply mono_canon_wf. }
  induction (map canon_term l) as [|t l' IH]; [constructor|]. inversion H as [|? ? Ht Hl]; subst. specialize (IH Hl).
  unfold mp_of_terms in *. cbn [fold_right]. apply Forall_forall. intros u Hu. apply In_add_term in Hu as [Hu|Hu].
  - destruct u as [mu cu], t as [mt ct]. cbn [fst] in *. now subst mu.
  - rewrite Forall_forall in IH. now apply IH.
Qed.
Lemma mp_norm_idem : forall l, mp_norm (mp_norm l) = mp_norm l.
Proof. intros l. apply mp_norm_canon_wf; [apply canon_of_terms|apply mp_norm_wf_monos]. Qed.

Section Hist.
  Variable hz : Z -> N.
  Variable hp : var -> N -> N.
  Variable wr : poly -> coef -> poly.
  Hypothesis wr_data : forall p d, pdata (wr p d) = d.

  Notation den p := (to_mpoly (pdata p)).

  Lemma dens_put : forall s i p, dens (put s i p) = set_nth (dens s) i (den p).
  Proof. intros. unfold dens, put. cbn [sobjs]. apply map_set_nth. Qed.
  Lemma dens_nth : forall s i, nth i (dens s) [] = den (get s i).
  Proof. intros. unfold dens, get. change (@nil term) with ((fun p => to_mpoly (pdata p)) dummy). apply (map_nth (fun p => to_mpoly (pdata p))). Qed.
  Lemma dens_put_same : forall s i p, den p = den (get s i) -> dens (put s i p) = dens s.
  Proof. intros s i p H. rewrite dens_put, H, <- dens_nth. apply set_nth_same. Qed.
  Lemma den_clean : forall o p, den (external_clean o p) = den p.
  Proof. intros o p. unfold external_clean. destruct (pext p && negb (in_order o (pdata p))); auto. cbn. apply to_mpoly_coef_order. Qed.
  Lemma get_put_den : forall s i j p, den p = den (get s i) -> den (get (put s i p) j) = den (get s j).
  Proof. intros s i j p H. rewrite <- !dens_nth. now rewrite dens_put_same. Qed.
  Lemma den_hash : forall p, den (snd (poly_hash hz hp p)) = den p.
  Proof. intros p. unfold poly_hash. destruct (pcache p =? 0)%N; reflexivity. Qed.

  (* one step: the denotations change exactly as the order-free step says *)
  Theorem exec_den : forall s e,
    dens (fst (exec hz hp wr s e)) = spec_step (sord s) (dens s) e.
  Proof.
    intros s e. destruct e; cbn [exec spec_step fst]; try reflexivity.
    - (* PNew *) unfold dens. cbn [sobjs]. rewrite map_app. cbn [map pdata]. now rewrite to_mpoly_of_mpoly.
    - (* PCopy *) unfold dens at 1. cbn [sobjs]. rewrite map_app. cbn [map pdata]. now rewrite dens_nth.
    - (* PSetExt *) now rewrite dens_put_same.
    - (* PAssign *) destruct (Nat.eqb_spec i j) as [->|Hne]; cbn [fst].
      + now rewrite set_nth_same.
      + now rewrite dens_put, wr_data, dens_nth.
    - (* PSwap *) rewrite !dens_put. cbn [pdata]. now rewrite !dens_nth.
    - (* PUn *) rewrite dens_put, wr_data, to_mpoly_of_mpoly, mp_norm_idem, dens_put_same by apply den_clean.
      now rewrite den_clean, dens_nth.
    - (* PBin *)
      set (pa := external_clean (sord s) (get s a)). set (pb := external_clean (sord s) (get s b)).
      assert (H1 : dens (put s a pa) = dens s) by (apply dens_put_same, den_clean).
      assert (H2 : dens (put (put s a pa) b pb) = dens s).
      { rewrite dens_put_same; auto. unfold pb. rewrite den_clean. rewrite <- !dens_nth. now rewrite H1. }
      rewrite dens_put, wr_data, to_mpoly_of_mpoly, mp_norm_idem, H2. unfold pa, pb. now rewrite !den_clean, !dens_nth.
    - (* PAddMono *) rewrite dens_put, wr_data, to_mpoly_add_monomial, den_clean, dens_nth. reflexivity.
    - (* PMoveOut *) now rewrite dens_put, wr_data.
    - (* PHash *) pose proof (den_hash (get s i)) as H. destruct (poly_hash hz hp (get s i)) as [h p]. cbn [fst snd] in *.
      now rewrite dens_put_same.
    - (* PEq *)
      unfold poly_eq, poly_cmp.
      pose proof (den_hash (get s i)) as Hi. pose proof (den_hash (get s j)) as Hj.
      destruct (poly_hash hz hp (get s i)) as [h1 p1]. destruct (poly_hash hz hp (get s j)) as [h2 q1]. cbn [snd] in *.
      destruct (negb (h1 =? h2)%N); cbn [fst].
      + rewrite (dens_put_same (put s i p1)).
        * now apply dens_put_same.
        * rewrite Hj. symmetry. now apply get_put_den.
      + rewrite (dens_put_same (put s i _)).
        * apply dens_put_same. now rewrite den_clean.
        * rewrite den_clean, Hj. symmetry. apply get_put_den. now rewrite den_clean.
    - (* PCmp *)
      unfold poly_cmp. cbn [fst]. rewrite (dens_put_same (put s i _)).
      + apply dens_put_same, den_clean.
      + rewrite den_clean. symmetry. apply get_put_den, den_clean.
    - (* PEnsure *) apply dens_put_same. unfold ensure_order. cbn. apply to_mpoly_coef_order.
  Qed.

  Theorem step_den : forall s e,
    dens (fst (step hz hp wr s e)) = if enabled s e then spec_step (sord s) (dens s) e else dens s.
  Proof. intros s e. unfold step. destruct (enabled s e); [apply exec_den|reflexivity]. Qed.

  (* all histories: the implementation-level run and the order-free run stay in correspondence *)
  Theorem sim_run_den : forall h s d, dens s = d ->
    let (s', d') := sim_run hz hp wr (s, d) h in s' = run hz hp wr s h /\ dens s' = d'.
  Proof.
    induction h as [|e h IH]; intros s d Hd; cbn [sim_run run fold_left]; [split; auto|].
    unfold sim_step at 2. unfold step at 2. destruct (enabled s e) eqn:E.
    - apply IH. rewrite exec_den. now rewrite Hd.
    - apply IH. exact Hd.
  Qed.

  (* an order change or an observation never changes what any object denotes *)
  Definition order_or_observation (e : op) : bool :=
    match e with
    | OPush _ | OPop | OReverse | OClear | OMakeTop _ | OMakeBot _
    | PSetExt _ | PHash _ | PEq _ _ | PCmp _ _ | PEnsure _ | PCheck _ => true
    | _ => false
    end.
  Theorem order_change_keeps_denotations : forall s e, order_or_observation e = true ->
    dens (fst (step hz hp wr s e)) = dens s.
  Proof.
    intros s e H. rewrite step_den. destruct (enabled s e); [|reflexivity]. destruct e; try discriminate; reflexivity.
  Qed.
End Hist.
