(* Proofs for property C06 (models in RootIso.v).  Real numbers: an arbitrary real closed field R : rcfType;
   an integer polynomial acts on R through the unique ring morphism Z -> R. *)
From Coq Require Import ZArith.
From LP Require Import UPoly RootIso.
Set Warnings "-notation-overridden,-ambiguous-paths".
From mathcomp Require Import all_ssreflect all_algebra all_real_closed.
From mathcomp Require Import ssrZ zify.
Set Warnings "notation-overridden,ambiguous-paths".
From LP Require Import UPolySpec.
Import GRing.Theory Num.Theory Num.Def Order.TTheory.
Set Implicit Arguments.
Unset Strict Implicit.
Unset Printing Implicit Defensive.
Local Open Scope ring_scope.

(* ====================================================================== the reference chain is always certified *)
(* ---- the reference pseudo-division of UPoly.v over {poly Z} *)

Lemma pnorm_idem (p : seq Z) : pnorm (pnorm p) = pnorm p.
Proof. by rewrite -[LHS]polyseq_Poly_pnorm Poly_pnorm polyseq_Poly_pnorm. Qed.

Lemma Poly_nil_eq0 (p : seq Z) : pnorm p = [::] -> Poly p = 0.
Proof. by move=> E; rewrite -Poly_pnorm E. Qed.

Lemma last_lead (p : seq Z) : List.last (pnorm p) 0 = lead_coef (Poly p).
Proof. by rewrite lead_coef_plc. Qed.

Lemma pred_length_size (p : seq Z) : Nat.pred (length (pnorm p)) = (size (Poly p)).-1.
Proof. by rewrite size_Poly_pnorm. Qed.

Lemma Poly_monom (c : Z) (k : nat) : Poly (pshift k [:: c]) = c *: 'X^k.
Proof. by rewrite Poly_pshift /= cons_poly_def mul0r add0r mul_polyC. Qed.

(* one elimination step lowers the size *)
Lemma size_elim_step (r b : {poly Z}) : b != 0 -> r != 0 -> (size b <= size r)%N ->
  (size ((lead_coef b *: r - (lead_coef r *: 'X^((size r).-1 - (size b).-1)) * b)%R) < size r)%N.
Proof.
move=> b0 r0 sbr.
have sr : (0 < size r)%N by rewrite size_poly_gt0.
have sb : (0 < size b)%N by rewrite size_poly_gt0.
rewrite -[X in (_ < X)%N](prednK sr) ltnS; apply/leq_sizeP => j lej.
rewrite coefB coefZ -scalerAl coefZ coefXnM.
case: ltnP => [jlt|_]; first by exfalso; lia.
move: lej; rewrite leq_eqVlt => /orP[/eqP <-|ltj].
  by rewrite subKn -?lead_coefE ?[_ * lead_coef r]mulrC ?subrr //; lia.
rewrite [r`_j]nth_default ?mulr0 ?sub0r; last by rewrite -(prednK sr).
rewrite nth_default ?mulr0 ?oppr0 //.
by move: (size r) (size b) sr sb sbr ltj => m n; lia.
Qed.

Lemma NltbE (a b : nat) : Nat.ltb a b = (a < b)%N.
Proof. by apply/idP/idP => [/Nat.ltb_lt|] ?; [|apply/Nat.ltb_lt]; lia. Qed.

Lemma ZpowE (x : Z) (n : nat) : Z.pow x (Z.of_nat n) = x ^+ n.
Proof.
elim: n => [|n IH]; first by rewrite expr0.
by rewrite Nat2Z.inj_succ Z.pow_succ_r ?IH ?exprS //; lia.
Qed.

Lemma ppdivmod_aux_S f q r b db lb : ppdivmod_aux (S f) q r b db lb =
  match pnorm r with
  | [::] => (pscale (Z.pow lb (Z.of_nat (S f))) q, [::])
  | _ =>
    let dr := Nat.pred (length (pnorm r)) in
    if Nat.ltb dr db then (pscale (Z.pow lb (Z.of_nat (S f))) q, pscale (Z.pow lb (Z.of_nat (S f))) (pnorm r))
    else
      let t := pshift (dr - db) [:: List.last (pnorm r) 0] in
      ppdivmod_aux f (padd (pscale lb q) t) (psub (pscale lb (pnorm r)) (pmul t b)) b db lb
  end.
Proof. by []. Qed.

Lemma ppdivmod_auxP (fuel : nat) (q r b : seq Z) :
  Poly b != 0 -> pnorm b = b -> (size (Poly r) <= (size (Poly b)).-1 + fuel)%N ->
  let qr := ppdivmod_aux fuel q r b (Nat.pred (length b)) (List.last b 0) in
  Poly qr.1 * Poly b + Poly qr.2 = (lead_coef (Poly b) ^+ fuel) *: (Poly q * Poly b + Poly r)
  /\ (size (Poly qr.2) < size (Poly b))%N.
Proof.
move=> b0 nb; have sb : (0 < size (Poly b))%N by rewrite size_poly_gt0.
have db : Nat.pred (length b) = (size (Poly b)).-1 by rewrite -nb pred_length_size Poly_pnorm.
have lb : List.last b 0 = lead_coef (Poly b) by rewrite -nb last_lead Poly_pnorm.
rewrite db lb; set l := lead_coef (Poly b).
elim: fuel q r => [|f IH] q r szr; last rewrite ppdivmod_aux_S.
  by rewrite /= expr0 scale1r; split=> //; move: (size (Poly r)) (size (Poly b)) szr sb => m n; lia.
case E: (pnorm r) => [|c r'].
  have -> : Poly r = 0 by rewrite -Poly_pnorm E.
  by rewrite /fst /snd Poly_pscale ZpowE [Poly [::]]/= !addr0 -scalerAl size_poly0.
rewrite -E; cbv zeta; rewrite pred_length_size NltbE; case: ltnP => [lt|ge].
  rewrite /fst /snd !Poly_pscale ZpowE Poly_pnorm -scalerAl -scalerDr; split=> //.
  apply: leq_ltn_trans (size_scale_leq _ _) _.
  by move: (size (Poly r)) (size (Poly b)) lt sb => m n; lia.
have r0 : Poly r != 0 by apply/eqP => r0; move: E; rewrite -polyseq_Poly_pnorm r0 polyseq0.
have sbr : (size (Poly b) <= size (Poly r))%N.
  have : (0 < size (Poly r))%N by rewrite size_poly_gt0.
  by move: (size (Poly r)) (size (Poly b)) ge sb => m n; lia.
set t := pshift _ _.
have tE : Poly t = lead_coef (Poly r) *: 'X^((size (Poly r)).-1 - (size (Poly b)).-1).
  by rewrite /t Poly_monom last_lead.
set q1 := padd _ _; set r1 := psub _ _.
have r1E : Poly r1 = l *: Poly r - Poly t * Poly b.
  by rewrite /r1 Poly_psub Poly_pmul Poly_pscale Poly_pnorm.
have sz1 : (size (Poly r1) <= (size (Poly b)).-1 + f)%N.
  have := size_elim_step b0 r0 sbr; rewrite -/l -tE -r1E.
  by move: (size (Poly r1)) (size (Poly r)) (size (Poly b)) szr => m n k; lia.
have [e1 e2] := IH q1 r1 sz1; split=> //.
rewrite e1 r1E /q1 Poly_padd Poly_pscale exprSr -scalerA; congr (_ *: _).
by rewrite mulrDl addrACA subrr addr0 -scalerAl -scalerDr.
Qed.

(* a / b with deg a >= deg b: e * a = q * b + r, deg r < deg b, e = lc(b)^(deg a - deg b + 1) *)
Lemma ppdivmodP (a b : seq Z) : Poly b != 0 -> (size (Poly b) <= size (Poly a))%N ->
  Poly (ppdivmod a b).1 * Poly b + Poly (ppdivmod a b).2 = ri_pdiv_scal a b *: Poly a
  /\ (size (Poly (ppdivmod a b).2) < size (Poly b))%N.
Proof.
move=> b0 sba; have sb : (0 < size (Poly b))%N by rewrite size_poly_gt0.
rewrite /ppdivmod /ri_pdiv_scal !pred_length_size NltbE.
case: ltnP => [lt|ge]; first by exfalso; move: (size (Poly a)) (size (Poly b)) lt sba sb => m n; lia.
have b0' : Poly (pnorm b) != 0 by rewrite Poly_pnorm.
have := @ppdivmod_auxP ((size (Poly a)).-1 - (size (Poly b)).-1).+1 [::] (pnorm a) (pnorm b) b0' (pnorm_idem b).
rewrite pred_length_size !Poly_pnorm.
case: ppdivmod_aux => q r; cbv beta iota zeta delta [fst snd] => H.
have [|e1 e2] := H.
  by move: (size (Poly a)) (size (Poly b)) sba sb => m n; lia.
rewrite !Poly_pnorm; split=> //.
rewrite e1 [Poly [::]]/= mul0r add0r ZpowE lead_coef_plc; congr (_ ^+ _ *: _).
rewrite -!size_Poly_pnorm.
by move: (size (Poly a)) (size (Poly b)) sba sb => m n; lia.
Qed.

(* ---- content and the sign-preserving primitive part *)
Lemma pcontent_ge0 (p : seq Z) : (0 <= pcontent p)%R.
Proof. by case: p => [|a p] //=; apply/idP; have := Z.gcd_nonneg a (pcontent p); lia. Qed.

Lemma pcontent_dvd (p : seq Z) (i : nat) : Z.divide (pcontent p) (nth 0 p i).
Proof.
elim: p i => [|a p IH] [|i] /=; try exact: Z.divide_0_r.
  exact: Z.gcd_divide_l.
exact: Z.divide_trans (Z.gcd_divide_r _ _) (IH i).
Qed.

Lemma pcontent_eq0 (p : seq Z) : pcontent p = 0 -> Poly p = 0.
Proof.
elim: p => [|a p IH] //= /Z.gcd_eq_0 [-> /IH ->].
by rewrite cons_poly_def mul0r add0r.
Qed.

Lemma nth_map0 (f : Z -> Z) (l : seq Z) (i : nat) : f 0 = 0 -> nth 0 (map f l) i = f (nth 0 l i).
Proof. by move=> f0; elim: l i => [|a l IH] [|i] //=. Qed.

Lemma ppos_primP (s : seq Z) : Poly s != 0 ->
  (0 < pcontent s)%R /\ Poly s = pcontent s *: Poly (ppos_prim s).
Proof.
move=> s0.
have c0 : pcontent s != 0 by apply: contra_neq s0; exact: pcontent_eq0.
have cpos : (0 < pcontent s)%R by rewrite lt_neqAle eq_sym c0 pcontent_ge0.
split=> //; rewrite /ppos_prim; case: Z.eqb_spec => [/eqP|_]; first by rewrite (negPf c0).
apply/polyP => i; rewrite coefZ !coef_Poly /pdivc nth_map0 //.
have -> : (pnorm s)`_i = s`_i by rewrite -[LHS]coef_Poly Poly_pnorm coef_Poly.
apply: Znumtheory.Zdivide_Zdiv_eq (pcontent_dvd s i).
by move: (pcontent s) cpos => c; lia.
Qed.

Lemma ri_ppropP (a b : seq Z) (c : Z) : (0 < c)%R -> Poly b != 0 -> Poly b = c *: Poly a -> ri_pprop a b.
Proof.
move=> c0 b0 E; rewrite /ri_pprop -!lead_coef_plc E lead_coefZ.
have a0 : lead_coef (Poly a) != 0.
  by rewrite lead_coef_eq0; apply: contra_neq b0 => a0; rewrite E a0 scaler0.
apply/andP; split.
  apply/Z.ltb_lt; have : (0 < c * (lead_coef (Poly a) * lead_coef (Poly a)))%R.
    by rewrite mulr_gt0 // -expr2 exprn_even_gt0.
  by move: (lead_coef _) => l; lia.
by apply/peqbP; rewrite !Poly_pscale E scalerA mulrC.
Qed.

(* ---- the reference Sturm chain always passes the certificate chain_ok *)
Lemma NoddE (n : nat) : Nat.odd n = odd n.
Proof. by elim: n => // n IH; rewrite Nat.odd_succ -Nat.negb_odd IH. Qed.

Lemma Zpow_lt0 (x : Z) (n : nat) : Z.ltb (Z.pow x (Z.of_nat n)) Z0 = Z.ltb x Z0 && Nat.odd n.
Proof.
rewrite ZpowE NoddE; apply/idP/idP.
  move=> /Z.ltb_lt h; have h' : (x ^+ n < 0)%R by apply/idP; move: (x ^+ n) h => y; lia.
  have [o|e] := boolP (odd n).
    by rewrite andbT; apply/Z.ltb_lt; move: h'; rewrite exprn_odd_lt0 // => ?; lia.
  by move: h'; rewrite ltNge exprn_even_ge0.
move=> /andP[/Z.ltb_lt h o]; apply/Z.ltb_lt.
have : (x ^+ n < 0)%R by rewrite exprn_odd_lt0 //; apply/idP; lia.
by move: (x ^+ n) => y; lia.
Qed.

Lemma ppdivmod_pnorm (a b : seq Z) : ppdivmod (pnorm a) (pnorm b) = ppdivmod a b.
Proof. by rewrite /ppdivmod !pnorm_idem. Qed.

Lemma plc_pnorm (b : seq Z) : plc (pnorm b) = plc b.
Proof. by rewrite /plc pnorm_idem. Qed.

Lemma ri_pdiv_scal_neq0 (a b : seq Z) : Poly b != 0 -> ri_pdiv_scal a b != 0.
Proof.
by move=> b0; rewrite /ri_pdiv_scal ZpowE expf_neq0 // -lead_coef_plc lead_coef_eq0.
Qed.

Lemma Poly_ppos_prim0 (s : seq Z) : Poly s = 0 -> Poly (ppos_prim s) = 0.
Proof.
move=> s0; rewrite /ppos_prim; case: Z.eqb_spec => // _.
have -> : pnorm s = [::] by rewrite -polyseq_Poly_pnorm s0 polyseq0.
by [].
Qed.

Lemma sturm_nextP (a b : seq Z) : Poly b != 0 -> (size (Poly b) <= size (Poly a))%N ->
  let c := sturm_next a b in
  [/\ (size (Poly c) < size (Poly b))%N,
      Poly c != 0 -> ri_link_ok a b c
    & Poly c = 0 -> ri_last_ok a b].
Proof.
move=> b0 sba c.
have [e1 e2] := ppdivmodP b0 sba.
have e0 := ri_pdiv_scal_neq0 a b0.
have e0b : ~~ Z.eqb (ri_pdiv_scal a b) Z0 by rewrite ZeqbP.
pose s := if Z.ltb (ri_pdiv_scal a b) Z0 then (ppdivmod a b).2 else pneg (ppdivmod a b).2.
have cE : c = ppos_prim s.
  rewrite /c /sturm_next /s /pprem ppdivmod_pnorm plc_pnorm /ri_pdiv_scal Zpow_lt0.
  by rewrite -plus_n_Sm -plus_n_O.
have szs : size (Poly s) = size (Poly (ppdivmod a b).2).
  by rewrite /s; case: ifP => _ //; rewrite Poly_pneg size_opp.
have [s0|s0] := eqVneq (Poly s) 0.
  have c0 : Poly c = 0 by rewrite cE Poly_ppos_prim0.
  have r0 : Poly (ppdivmod a b).2 = 0 by apply/eqP; rewrite -size_poly_eq0 -szs s0 size_poly0.
  split; first by rewrite c0 size_poly0 size_poly_gt0.
    by rewrite c0 eqxx.
  move=> _; rewrite /ri_last_ok e0b andbT; apply/andP; split.
    by apply/negP => /pis_zeroP /eqP; rewrite (negPf b0).
  by apply/peqbP; rewrite Poly_pscale Poly_pmul -e1 r0 addr0.
have [cpos sE] := ppos_primP s0.
have c0 : Poly c != 0 by apply: contra_neq s0; rewrite sE cE => ->; rewrite scaler0.
have szc : size (Poly c) = size (Poly s).
  by rewrite sE cE size_scale // gt_eqF.
split; first by rewrite szc szs.
  move=> _; rewrite /ri_link_ok e0b /=; apply/andP; split; last first.
    by rewrite -/s cE; apply: (ri_ppropP cpos s0 sE).
  apply/andP; split; first by apply/peqbP; rewrite Poly_pscale Poly_padd Poly_pmul e1.
  by rewrite NltbE -!size_Poly_pnorm.
by move=> c0'; rewrite c0' eqxx in c0.
Qed.

Lemma sturm_aux_cons fuel a b : exists l, sturm_aux fuel a b = a :: l.
Proof. by case: fuel => [|f] /=; [exists [::]|case: (pnorm b) => [|x l]; [exists [::]|eexists]]. Qed.

Lemma pnorm_nil_Poly (b : seq Z) : (pnorm b == [::]) = (Poly b == 0).
Proof. by rewrite -polyseq_Poly_pnorm -size_poly_eq0 -size_eq0. Qed.

Lemma sturm_aux_links fuel a b : Poly b != 0 -> (size (Poly b) <= size (Poly a))%N ->
  (size (Poly b) <= fuel)%N -> ri_links_ok (sturm_aux fuel a b).
Proof.
elim: fuel a b => [|f IH] a b b0 sba szf.
  by move: szf; rewrite leqn0 size_poly_eq0 (negPf b0).
have nb : pnorm b != [::] by rewrite pnorm_nil_Poly.
have [sc lk lst] := sturm_nextP b0 sba.
rewrite /=; case E: (pnorm b) nb => [|x l] // _.
have [c0|c0] := eqVneq (Poly (sturm_next a b)) 0.
  have -> : sturm_aux f b (sturm_next a b) = [:: b].
    by case: (f) => //= f'; move/eqP: c0; rewrite -pnorm_nil_Poly => /eqP ->.
  by rewrite /= lst.
have szc : (size (Poly (sturm_next a b)) <= f)%N.
  by move: (size (Poly (sturm_next a b))) (size (Poly b)) sc szf => m n; lia.
have := IH b (sturm_next a b) c0 (ltnW sc) szc.
have f0 : (0 < f)%N by apply: leq_trans szc; rewrite size_poly_gt0.
case: f f0 szc {IH szf} => // f' _ szc /=.
have nc : pnorm (sturm_next a b) != [::] by rewrite pnorm_nil_Poly.
case E2: (pnorm (sturm_next a b)) nc => [|y l2] // _.
have [l3 ->] := sturm_aux_cons f' (sturm_next a b) (sturm_next b (sturm_next a b)).
by move=> H; rewrite (lk c0) /=.
Qed.

Lemma chain_ok_cons2 f a b rest :
  chain_ok f (a :: b :: rest) = ri_pprop a f && ri_pprop b (pderiv f) && ri_links_ok (a :: b :: rest).
Proof. by []. Qed.

Theorem sturm_chain_certified (f : seq Z) : ~~ pis_zero f -> chain_ok f (sturm_chain f).
Proof.
move=> f0; have F0 : Poly f != 0 by apply/negP => /eqP/pis_zeroP; rewrite (negPf f0).
rewrite /sturm_chain; set p := pnorm f.
have pE : Poly p = Poly f by rewrite Poly_pnorm.
have pp : ri_pprop p f by apply: (@ri_ppropP _ _ 1) => //; rewrite scale1r pE.
have [d0|d0] := eqVneq (Poly (pderiv p)) 0.
  have -> : sturm_aux (length p).+1 p (pderiv p) = [:: p].
    by move/eqP: d0; rewrite /= -pnorm_nil_Poly => /eqP ->.
  rewrite /= pp /=; apply/pis_zeroP.
  by rewrite Poly_pderiv -pE -Poly_pderiv.
have nb : pnorm (pderiv p) != [::] by rewrite pnorm_nil_Poly.
have lk := @sturm_aux_links (length p).+1 p (pderiv p) d0.
move: lk; rewrite /=; case E: (pnorm (pderiv p)) nb => [|x l] // _.
have [l2 ->] := sturm_aux_cons (length p) (pderiv p) (sturm_next p (pderiv p)).
have szd : (size (Poly (pderiv p)) <= size (Poly p))%N.
  rewrite Poly_pderiv; apply: leq_trans (size_poly _ _) _ => /=.
  exact: leq_pred.
move=> /(_ szd) lk.
rewrite chain_ok_cons2 pp /=; apply/andP; split; last first.
  apply: lk; apply: leq_trans szd _.
  by rewrite size_Poly_pnorm /p pnorm_idem.
apply: (@ri_ppropP _ _ 1) => //; rewrite ?scale1r ?Poly_pderiv ?pE //.
by rewrite -pE -Poly_pderiv.
Qed.

(* ====================================================================== libpoly's reduce_Z *)
(* ---- upolynomial_dense_reduce_Z (faithful model lp_reduce_Z) over {poly Z} *)

Lemma coef_monomM (c : Z) (k : nat) (q : {poly Z}) (j : nat) :
  ((c *: 'X^k) * q)`_j = if (j < k)%N then 0 else c * q`_(j - k).
Proof. by rewrite -scalerAl coefZ coefXnM; case: ltnP => _; rewrite ?mulr0. Qed.

Lemma Poly_shift_scale (k : nat) (c : Z) (q : seq Z) : Poly (pshift k (pscale c q)) = (c *: 'X^k) * Poly q.
Proof. by rewrite Poly_pshift Poly_pscale -!scalerAl mulrC. Qed.

Lemma size_monomM (c : Z) (n : nat) (Q : {poly Z}) : Q != 0 ->
  (size (((c *: 'X^n) * Q)%R) <= (size Q).-1 + n.+1)%N.
Proof.
move=> Q0; have sq : (0 < size Q)%N by rewrite size_poly_gt0.
apply: leq_trans (size_mul_leq _ _) _.
have := size_scale_leq c ('X^n : {poly Z}); rewrite size_polyXn.
by move: (size (c *: 'X^n)) (size Q) sq => a b; lia.
Qed.

Lemma List_nthE (l : seq Z) (k : nat) : List.nth k l 0 = nth 0 l k.
Proof. by elim: l k => [|a l IH] [|k] /=. Qed.

(* loop invariant: m * P = D * Q + Red with m <> 0 and size Red <= qd + n *)
Lemma lp_reduce_loopP (n : nat) (q : seq Z) (P : {poly Z}) (m : Z) (red : seq Z) (D : {poly Z}) :
  Poly q != 0 -> m != 0 -> m *: P = D * Poly q + Poly red ->
  (size (Poly red) <= (size (Poly q)).-1 + n)%N ->
  let res := lp_reduce_loop n (size (Poly q)).-1 q (lead_coef (Poly q)) m red in
  [/\ res.1 != 0, exists D', res.1 *: P = D' * Poly q + Poly res.2
    & (size (Poly res.2) < size (Poly q))%N].
Proof.
move=> q0; have sq : (0 < size (Poly q))%N by rewrite size_poly_gt0.
have lq0 : lead_coef (Poly q) != 0 by rewrite lead_coef_eq0.
set qd := (size (Poly q)).-1; set lq := lead_coef (Poly q).
elim: n m red D => [|n IH] m red D m0 E sz /=; rewrite ?List_nthE ?plusE.
  split=> //; first by exists D.
  by rewrite /qd in sz; move: (size (Poly red)) (size (Poly q)) sz sq => a b; lia.
have cE : nth 0 red (qd + n) = (Poly red)`_(qd + n) by rewrite coef_Poly.
have lqE : lq = (Poly q)`_qd by rewrite /lq lead_coefE.
(* a polynomial of size <= k+1 whose coefficient k vanishes has size <= k *)
have shrink (r : {poly Z}) : (size r <= qd + n.+1)%N -> r`_(qd + n) = 0 -> (size r <= qd + n)%N.
  move=> sr r0; apply/leq_sizeP => j; rewrite leq_eqVlt => /orP[/eqP <- //|lt].
  by apply/leq_sizeP: lt; rewrite -addnS.
case: Z.eqb_spec => [c0|/eqP c0].
  by apply: IH E _ => //; apply: shrink => //; rewrite -cE c0.
case: Z.eqb_spec => [dv|ndv].
  (* lc(q) divides the coefficient *)
  have cq : nth 0 red (qd + n) = Z.quot (nth 0 red (qd + n)) lq * lq.
    have [k kE] : Z.divide lq (nth 0 red (qd + n)) by apply/Z.mod_divide => //; exact/eqP.
    by rewrite kE Z.quot_mul //; exact/eqP.
  apply: (IH _ _ (D + (Z.quot (nth 0 red (qd + n)) lq) *: 'X^n)) => //.
    by rewrite Poly_psub Poly_shift_scale mulrDl E addrACA subrr addr0.
  apply: shrink.
    rewrite Poly_psub Poly_shift_scale; apply: leq_trans (size_add _ _) _; rewrite size_opp geq_max sz /=.
    exact: size_monomM.
  rewrite Poly_psub Poly_shift_scale coefB coef_monomM ltnNge leq_addl /= addnK -lqE -cE.
  by rewrite -cq subrr.
(* lcm scaling *)
set c := nth 0 red (qd + n) in c0 ndv cE *.
have lcm0 : Z.lcm c lq != 0.
  by apply/eqP => /Z.lcm_eq_0 [] /eqP; rewrite ?(negPf c0) ?(negPf lq0).
have [k1 k1E] := Z.divide_lcm_l c lq; have [k2 k2E] := Z.divide_lcm_r c lq.
have rmE : Z.div (Z.lcm c lq) c = k1 by rewrite k1E Z.div_mul //; exact/eqP.
have mE : Z.div (Z.lcm c lq) lq = k2 by rewrite k2E Z.div_mul //; exact/eqP.
have k10 : k1 != 0 by apply: contra_neq lcm0 => k0; rewrite k1E k0.
rewrite rmE mE.
apply: (IH _ _ (k1 *: D + k2 *: 'X^n)) => //.
- by rewrite mulf_neq0.
- rewrite Poly_psub Poly_shift_scale Poly_pscale mulrDl addrACA subrr addr0.
  have -> : Z.mul m k1 = k1 * m by rewrite mulrC.
  by rewrite -scalerA E scalerDr scalerAl.
apply: shrink.
  rewrite Poly_psub Poly_shift_scale Poly_pscale; apply: leq_trans (size_add _ _) _; rewrite size_opp geq_max.
  rewrite (leq_trans (size_scale_leq _ _) sz) /=.
  exact: size_monomM.
rewrite Poly_psub Poly_shift_scale Poly_pscale coefB coefZ coef_monomM ltnNge leq_addl /= addnK -lqE -cE.
by apply/eqP; rewrite subr_eq0; apply/eqP; move: k1E k2E; move: (Z.lcm c lq) => L; lia.
Qed.

Lemma lp_reduce_ZP (a b : seq Z) : Poly b != 0 -> (size (Poly b) <= size (Poly a))%N ->
  [/\ (lp_reduce_Z a b).1 != 0,
      exists D, (lp_reduce_Z a b).1 *: Poly a = D * Poly b + Poly (lp_reduce_Z a b).2
    & (size (Poly (lp_reduce_Z a b).2) < size (Poly b))%N].
Proof.
move=> b0 sba; have sb : (0 < size (Poly b))%N by rewrite size_poly_gt0.
rewrite /lp_reduce_Z.
have b0' : Poly (pnorm b) != 0 by rewrite Poly_pnorm.
have E : (1 : Z) *: Poly a = 0 * Poly (pnorm b) + Poly (pnorm a) by rewrite scale1r mul0r add0r Poly_pnorm.
have sz : (size (Poly (pnorm a)) <= (size (Poly (pnorm b))).-1 + ((length (pnorm a)).-1.+1 - (length (pnorm b)).-1))%N.
  rewrite !Poly_pnorm -!size_Poly_pnorm.
  by move: (size (Poly a)) (size (Poly b)) sba sb => m n; lia.
have := lp_reduce_loopP b0' (oner_neq0 _) E sz.
have h1 : (size (Poly (pnorm b))).-1 = (length (pnorm b)).-1 by rewrite size_Poly_pnorm pnorm_idem.
have h2 : lead_coef (Poly (pnorm b)) = List.last (pnorm b) 0 by rewrite lead_coef_plc /plc pnorm_idem.
rewrite h1 h2 -minusE.
by case: lp_reduce_loop => m red /=; rewrite !Poly_pnorm.
Qed.

Section Morph.
Variable R : rcfType.

(* the ring morphism Z -> R *)
Definition ZtoR (z : Z) : R := (int_of_Z z)%:~R.

Lemma ZtoR_is_rmorphism : rmorphism ZtoR.
Proof.
have -> : ZtoR = [rmorphism of (intr : int -> R) \o int_of_Z] by [].
exact: rmorphismP.
Qed.
Canonical ZtoR_additive := Additive ZtoR_is_rmorphism.
Canonical ZtoR_rmorphism := RMorphism ZtoR_is_rmorphism.

Lemma ZtoR_lt (x y : Z) : (ZtoR x < ZtoR y) = (x < y).
Proof. by rewrite /ZtoR ltr_int; apply/idP/idP; lia. Qed.
Lemma ZtoR_le (x y : Z) : (ZtoR x <= ZtoR y) = (x <= y).
Proof. by rewrite /ZtoR ler_int; apply/idP/idP; lia. Qed.
Lemma ZtoR_eq0 (x : Z) : (ZtoR x == 0) = (x == 0).
Proof. by rewrite /ZtoR intr_eq0; apply/eqP/eqP; lia. Qed.
Lemma ZtoR_inj : injective ZtoR.
Proof.
move=> x y /eqP; rewrite -subr_eq0 -rmorphB ZtoR_eq0 subr_eq0 => /eqP; exact.
Qed.
Lemma ZtoR_gt0 (x : Z) : (0 < ZtoR x) = (0 < x).
Proof. by rewrite -(rmorph0 ZtoR_rmorphism) ZtoR_lt. Qed.
Lemma ZtoR_lt0 (x : Z) : (ZtoR x < 0) = (x < 0).
Proof. by rewrite -(rmorph0 ZtoR_rmorphism) ZtoR_lt. Qed.

Lemma sgr_ZtoR (x : Z) : sgr (ZtoR x) = ZtoR (Z.sgn x).
Proof.
case: (ltrgtP x 0) => [xlt|xgt|->].
- by rewrite ltr0_sg ?ZtoR_lt0 // (_ : Z.sgn x = -1) ?rmorphN ?rmorph1 //; lia.
- by rewrite gtr0_sg ?ZtoR_gt0 // (_ : Z.sgn x = 1) ?rmorph1 //; lia.
- by rewrite rmorph0 sgr0.
Qed.


(* ---- integer polynomials acting on R *)
Definition PR (l : seq Z) : {poly R} := map_poly ZtoR (Poly l).

Lemma PR_nil : PR [::] = 0.
Proof. by rewrite /PR /= rmorph0. Qed.
Lemma PR_cons (c : Z) (l : seq Z) : PR (c :: l) = (ZtoR c)%:P + PR l * 'X.
Proof. by rewrite /PR Poly_cons0 rmorphD rmorphM /= map_polyC map_polyX. Qed.
Lemma PR_padd p q : PR (padd p q) = PR p + PR q.
Proof. by rewrite /PR Poly_padd rmorphD. Qed.
Lemma PR_pmul p q : PR (pmul p q) = PR p * PR q.
Proof. by rewrite /PR Poly_pmul rmorphM. Qed.
Lemma PR_pneg p : PR (pneg p) = - PR p.
Proof. by rewrite /PR Poly_pneg rmorphN. Qed.
Lemma PR_pscale c p : PR (pscale c p) = ZtoR c *: PR p.
Proof. by rewrite /PR Poly_pscale -mul_polyC rmorphM /= map_polyC mul_polyC. Qed.
Lemma PR_pderiv p : PR (pderiv p) = (PR p)^`().
Proof. by rewrite /PR Poly_pderiv deriv_map. Qed.
Lemma PR_pnorm p : PR (pnorm p) = PR p.
Proof. by rewrite /PR Poly_pnorm. Qed.
Lemma PR_inj p q : PR p = PR q -> Poly p = Poly q.
Proof. exact: (map_inj_poly ZtoR_inj (rmorph0 _)). Qed.
Lemma PR_peqb p q : peqb p q -> PR p = PR q.
Proof. by move/peqbP => E; rewrite /PR E. Qed.
Lemma PR_eq0 p : (PR p == 0) = pis_zero p.
Proof.
apply/eqP/pis_zeroP => [E|E]; last by rewrite /PR E rmorph0.
by apply: (map_inj_poly ZtoR_inj (rmorph0 _)); rewrite -/(PR p) E rmorph0.
Qed.
Lemma size_PR p : size (PR p) = size (pnorm p).
Proof. by rewrite /PR (size_map_inj_poly ZtoR_inj) ?rmorph0 // polyseq_Poly_pnorm. Qed.
Lemma lead_coef_PR p : lead_coef (PR p) = ZtoR (plc p).
Proof. by rewrite /PR (lead_coef_map_inj ZtoR_inj) ?rmorph0 // lead_coef_plc. Qed.

(* ---- evaluation at a rational a/b, b > 0 *)
Definition QR (a b : Z) : R := ZtoR a / ZtoR b.

Lemma peval_hom_auxP p (a b : Z) : (0 < b)%R ->
  ZtoR (peval_hom_aux p a b).2 = ZtoR b ^+ size p /\
  ZtoR (peval_hom_aux p a b).1 * ZtoR b = ZtoR b ^+ size p * (PR p).[QR a b].
Proof.
move=> b0; have B0 : ZtoR b != 0 by rewrite ZtoR_eq0; apply/eqP; lia.
elim: p => [|c p [IH1 IH2]] /=; first by rewrite PR_nil horner0 rmorph0 mul0r mulr0 rmorph1 expr0.
case E: (peval_hom_aux p a b) IH1 IH2 => [v bp] /= IH1 IH2.
rewrite rmorphM /= IH1 -exprSr; split=> //.
rewrite PR_cons hornerD hornerM hornerC hornerX rmorphD !rmorphM /= IH1 mulrDl.
rewrite -[ZtoR a * _ * _]mulrA IH2 exprSr mulrDr /QR; congr (_ + _); first by rewrite -mulrA mulrC.
rewrite mulrCA -[RHS]mulrA; congr (_ * _).
by rewrite [in RHS]mulrCA [ZtoR b * (_ / _)]mulrCA divff // mulr1 mulrC.
Qed.

Lemma sgr_horner_rat p (a b : Z) : (0 < b)%R -> sgr (PR p).[QR a b] = ZtoR (psgn_at_rat p a b).
Proof.
move=> b0; have [_ H] := peval_hom_auxP p a b0.
have B0 : 0 < ZtoR b by rewrite ZtoR_gt0.
rewrite /psgn_at_rat -sgr_ZtoR.
have : sgr (ZtoR (peval_hom_aux p a b).1 * ZtoR b) = sgr (ZtoR b ^+ size p * (PR p).[QR a b]) by rewrite H.
by rewrite !sgrM (gtr0_sg B0) mulr1 sgrX (gtr0_sg B0) expr1n mul1r => ->.
Qed.

Lemma root_rat p (a b : Z) : (0 < b)%R -> root (PR p) (QR a b) = (psgn_at_rat p a b == 0).
Proof. by move=> b0; rewrite rootE -sgr_eq0 sgr_horner_rat // ZtoR_eq0. Qed.

(* comparison of rationals *)
Lemma QR_lt (a b c d : Z) : (0 < b)%R -> (0 < d)%R -> (QR a b < QR c d) = riq_lt a b c d.
Proof.
move=> b0 d0; rewrite /QR /riq_lt ltr_pdivr_mulr ?ZtoR_gt0 // mulrAC ltr_pdivl_mulr ?ZtoR_gt0 //.
rewrite -!rmorphM ZtoR_lt; apply/idP/idP; lia.
Qed.
Lemma QR_le (a b c d : Z) : (0 < b)%R -> (0 < d)%R -> (QR a b <= QR c d) = riq_le a b c d.
Proof.
move=> b0 d0; rewrite /QR /riq_le ler_pdivr_mulr ?ZtoR_gt0 // mulrAC ler_pdivl_mulr ?ZtoR_gt0 //.
rewrite -!rmorphM ZtoR_le; apply/idP/idP; lia.
Qed.


Lemma in_rootsR (p : {poly R}) x : p != 0 -> (x \in rootsR p) = root p x.
Proof. by move=> p0; rewrite -(roots_on_rootsR p0) inE. Qed.

(* ---- e * f = q * p with e <> 0: the roots of p are roots of f *)
Lemma qdividesP p f : ri_qdivides p f ->
  PR p != 0 /\ exists (e : R) (q : {poly R}), e != 0 /\ e *: PR f = q * PR p.
Proof.
rewrite /ri_qdivides => /andP[/andP[pn0 en0] /PR_peqb E]; split; first by rewrite PR_eq0.
exists (ZtoR (ri_pdiv_scal f p)), (PR (fst (ppdivmod f p))); split.
  by rewrite ZtoR_eq0; move: en0; case: Z.eqb_spec => // ? _; apply/eqP.
by rewrite -PR_pscale E PR_pmul.
Qed.

Lemma qdivides_root p f x : ri_qdivides p f -> root (PR p) x -> root (PR f) x.
Proof.
case/qdividesP => _ [e [q [e0 E]]] rx.
have : root (e *: PR f) x by rewrite E rootM rx orbT.
by rewrite rootZ.
Qed.

Lemma Zsgn_cases (x : Z) : [\/ Z.sgn x = 0, Z.sgn x = 1 | Z.sgn x = -1].
Proof. by case: x => [|p|p]; [constructor 1|constructor 2|constructor 3]. Qed.

Lemma sign_change_root p (la lb ha hb : Z) : (0 < lb)%R -> (0 < hb)%R -> riq_lt la lb ha hb ->
  Z.ltb (Z.mul (psgn_at_rat p la lb) (psgn_at_rat p ha hb)) Z0 ->
  exists2 x : R, QR la lb < x < QR ha hb & root (PR p) x.
Proof.
move=> lb0 hb0 lh sc.
have lt : QR la lb <= QR ha hb by rewrite ltW // QR_lt.
have sg : sgr (PR p).[QR la lb] * sgr (PR p).[QR ha hb] = -1.
  rewrite !sgr_horner_rat // -rmorphM /=.
  rewrite /psgn_at_rat in sc *.
  have -> : (Z.sgn (peval_hom_aux p la lb).1 * Z.sgn (peval_hom_aux p ha hb).1 = -1)%R.
    by case: (Zsgn_cases (peval_hom_aux p la lb).1) sc => ->;
       case: (Zsgn_cases (peval_hom_aux p ha hb).1) => ->.
  by rewrite rmorphN rmorph1.
by have [x xin rx] := ivt_sign lt sg; exists x => //; move: xin; rewrite in_itv.
Qed.

(* ---- denotation of items *)
Definition item_den (it : item) (x : R) : Prop :=
  match it with
  | IPoint a b => x = QR a b
  | IAlg p la lb ha hb => QR la lb < x < QR ha hb /\ root (PR p) x
  end.

Fixpoint dens (its : seq item) (xs : seq R) : Prop :=
  match its, xs with
  | [::], [::] => Logic.True
  | it :: its', x :: xs' => item_den it x /\ dens its' xs'
  | _, _ => Logic.False
  end.

Lemma dens_size its xs : dens its xs -> size xs = size its.
Proof. by elim: its xs => [|it its IH] [|x xs] //= [_ /IH ->]. Qed.

Lemma item_ok_exists f it : item_wf it -> item_ok f it ->
  exists2 x : R, item_den it x & root (PR f) x.
Proof.
case: it => [a b|p la lb ha hb] /=.
  move=> /Z.ltb_lt b0 /Z.eqb_eq E; exists (QR a b) => //.
  by rewrite root_rat ?E //; apply/idP; lia.
move=> /andP[/andP[/Z.ltb_lt lb0 /Z.ltb_lt hb0] lh] /andP[dv sc].
have lb0' : (0 < lb)%R by apply/idP; lia.
have hb0' : (0 < hb)%R by apply/idP; lia.
have [x xin rx] := sign_change_root lb0' hb0' lh sc.
by exists x => //; exact: qdivides_root rx.
Qed.

Lemma item_before_lt it1 it2 x y : item_wf it1 -> item_wf it2 -> item_before it1 it2 ->
  item_den it1 x -> item_den it2 y -> x < y.
Proof.
have pos (b : Z) : Z.ltb Z0 b -> (0 < b)%R by move=> /Z.ltb_lt ?; apply/idP; lia.
case: it1 => [a b|p la lb ha hb]; case: it2 => [c d|p' la' lb' ha' hb'] /=.
- by move=> /pos b0 /pos d0 bf -> ->; rewrite QR_lt.
- move=> /pos b0 /andP[/andP[/pos lb0 /pos hb0] _] bf -> [/andP[ly _] _].
  by apply: le_lt_trans ly; rewrite QR_le.
- move=> /andP[/andP[/pos lb0 /pos hb0] _] /pos d0 bf [/andP[_ xh] _] ->.
  by apply: (lt_le_trans xh); rewrite QR_le.
- move=> /andP[/andP[/pos lb0 /pos hb0] _] /andP[/andP[/pos lb0' /pos hb0'] _] bf.
  move=> [/andP[_ xh] _] [/andP[ly _] _].
  by apply: (lt_trans xh); apply: le_lt_trans ly; rewrite QR_le.
Qed.

(* soundness: a checked list denotes a strictly increasing list of roots of f *)
Lemma items_sound f its : all item_wf its -> items_sorted its -> all (item_ok f) its ->
  exists xs : seq R, [/\ dens its xs, sorted <%R xs & all (root (PR f)) xs].
Proof.
elim: its => [|it its IH]; first by exists [::].
move=> /= /andP[wf wfs] srt /andP[ok oks].
have srt' : items_sorted its by case: its srt {IH wfs oks} => [|b l] //= /andP[].
have [xs [dxs sxs rxs]] := IH wfs srt' oks.
have [x dx rx] := item_ok_exists wf ok.
exists (x :: xs); split=> //=; last by rewrite rx.
case: its xs dxs sxs srt wfs {IH srt' oks rxs} => [|it2 its] [|y ys] //= [dy _] -> /andP[bf _] /andP[wf2 _].
by rewrite (item_before_lt wf wf2 bf dx dy).
Qed.

(* hence no more items than distinct real roots *)
Lemma items_le_roots f its : PR f != 0 -> all item_wf its -> items_sorted its -> all (item_ok f) its ->
  (size its <= size (rootsR (PR f)))%N.
Proof.
move=> F0 wf srt ok; have [xs [dxs sxs rxs]] := items_sound wf srt ok.
rewrite -(dens_size dxs); apply: uniq_leq_size.
  by apply: sorted_uniq sxs; [exact: lt_trans | exact: ltxx].
by move=> x /(allP rxs); rewrite in_rootsR.
Qed.

(* completeness from the count: a strictly increasing list of roots as long as the list of all roots IS it *)
Lemma sorted_roots_complete (F : {poly R}) (xs : seq R) : F != 0 ->
  sorted <%R xs -> all (root F) xs -> size xs = size (rootsR F) -> xs = rootsR F.
Proof.
move=> F0 sxs rxs sz.
have uxs : uniq xs by apply: sorted_uniq sxs; [exact: lt_trans | exact: ltxx].
have sub : {subset xs <= rootsR F} by move=> x /(allP rxs); rewrite in_rootsR.
have [_ eqm] := uniq_min_size uxs sub (eq_leq (esym sz)).
by apply: lt_sorted_eq => //; exact: sorted_roots.
Qed.


(* ====================================================================== Sturm chains up to positive scaling *)

Definition ppos (p q : {poly R}) := exists2 c : R, 0 < c & p = c *: q.

Lemma ppos_refl p : ppos p p.
Proof. by exists 1; rewrite ?ltr01 ?scale1r. Qed.
Lemma ppos_trans p q r : ppos p q -> ppos q r -> ppos p r.
Proof. by move=> [c c0 ->] [d d0 ->]; exists (c * d); rewrite ?mulr_gt0 ?scalerA. Qed.
Lemma ppos_sym p q : ppos p q -> ppos q p.
Proof.
by move=> [c c0 ->]; exists c^-1; rewrite ?invr_gt0 // scalerA mulVf ?scale1r // gt_eqF.
Qed.
Lemma ppos_eq0 p q : ppos p q -> (p == 0) = (q == 0).
Proof. by move=> [c c0 ->]; rewrite scaler_eq0 gt_eqF. Qed.
Lemma ppos_size p q : ppos p q -> size p = size q.
Proof. by move=> [c c0 ->]; rewrite size_scale // gt_eqF. Qed.
Lemma ppos_lead p q : ppos p q -> sgr (lead_coef p) = sgr (lead_coef q).
Proof. by move=> [c c0 ->]; rewrite lead_coefZ sgrM gtr0_sg // mul1r. Qed.
Lemma ppos_opp p q : ppos p q -> ppos (- p) (- q).
Proof. by move=> [c c0 ->]; exists c; rewrite ?scalerN. Qed.
Lemma ppos_scale c p : 0 < c -> ppos (c *: p) p.
Proof. by move=> c0; exists c. Qed.

Lemma rmodp_modp (p q : {poly R}) : q != 0 ->
  Pdiv.Ring.rmodp p q = (lead_coef q ^+ Pdiv.Ring.rscalp p q) *: (p %% q).
Proof.
move=> q0; rewrite modpE scalerA mulfV ?scale1r //.
by rewrite expf_neq0 // lead_coef_eq0.
Qed.

Lemma ppos_next_mod a b p q : ppos a p -> ppos b q -> q != 0 ->
  ppos (- (a %% b)) (next_mod p q).
Proof.
move=> [c c0 ->] [d d0 ->] q0; rewrite modpZl modpZr ?gt_eqF //.
rewrite /next_mod rmodp_modp // scalerA.
set L := lead_coef q ^+ _; rewrite mulNr scaleNr -expr2; apply: ppos_opp.
have e0 : 0 < L ^+ 2 by rewrite exprn_even_gt0 //= expf_neq0 // lead_coef_eq0.
exact: ppos_trans (ppos_scale _ c0) (ppos_sym (ppos_scale _ e0)).
Qed.

Fixpoint pposs (s t : seq {poly R}) : Prop :=
  match s, t with
  | [::], [::] => Logic.True
  | a :: s', b :: t' => ppos a b /\ pposs s' t'
  | _, _ => Logic.False
  end.

Fixpoint Rlinks (ch : seq {poly R}) : Prop :=
  match ch with
  | a :: ((b :: rest) as tl) =>
    match rest with
    | [::] => b != 0 /\ a %% b = 0
    | c :: _ => [/\ b != 0, c != 0 & ppos c (- (a %% b))]
    end /\ Rlinks tl
  | _ => Logic.True
  end.

Lemma Rlinks_mods a b rest p q : a != 0 -> ppos a p -> ppos b q ->
  Rlinks (a :: b :: rest) -> pposs (a :: b :: rest) (mods p q).
Proof.
elim: rest a b p q => [|c rest IH] a b p q a0 ap bq /=.
  move=> [[b0 ab0] _].
  have p0 : p != 0 by rewrite -(ppos_eq0 ap).
  have q0 : q != 0 by rewrite -(ppos_eq0 bq).
  have nm : next_mod p q = 0.
    have := ppos_next_mod ap bq q0; rewrite ab0 oppr0 => /ppos_eq0; rewrite eqxx => /esym/eqP; exact.
  by rewrite neq0_mods_rec // nm modsp0 (negPf q0).
move=> [[b0 c0 cab] lk].
have p0 : p != 0 by rewrite -(ppos_eq0 ap).
have q0 : q != 0 by rewrite -(ppos_eq0 bq).
rewrite neq0_mods_rec //; split=> //.
apply: IH => //.
exact: ppos_trans cab (ppos_next_mod ap bq q0).
Qed.


(* ---- sign variations *)
Lemma changes_sgr (s : seq R) : changes (map sgr s) = changes s.
Proof.
elim: s => [|a s IH] //=; rewrite IH; congr (_ + _)%N.
by case: s {IH} => [|b s] /=; rewrite ?mulr0 ?ltxx // -sgrM sgr_lt0.
Qed.

Lemma pposs_size s t : pposs s t -> size s = size t.
Proof. by elim: s t => [|a s IH] [|b t] //= [_ /IH ->]. Qed.

Lemma pposs_pinfty s t : pposs s t -> changes_pinfty s = changes_pinfty t.
Proof.
move=> st; rewrite /changes_pinfty -changes_sgr -[RHS]changes_sgr -!map_comp; congr changes.
by elim: s t st => [|a s IH] [|b t] //= [ab /IH ->]; rewrite (ppos_lead ab).
Qed.

Lemma pposs_minfty s t : pposs s t -> changes_minfty s = changes_minfty t.
Proof.
move=> st; rewrite /changes_minfty -changes_sgr -[RHS]changes_sgr -!map_comp; congr changes.
elim: s t st => [|a s IH] [|b t] //= [ab /IH ->].
by rewrite !sgrM (ppos_lead ab) (ppos_size ab).
Qed.

Lemma taq1 (z : seq R) : taq z 1 = (size z)%:Z.
Proof.
rewrite /taq; elim: z => [|x z IH]; first by rewrite big_nil.
by rewrite big_cons IH hornerC sgz1 /= intS.
Qed.

(* the whole-line count of any chain positively proportional to mods p p' *)
Lemma pposs_count (F : {poly R}) (ch : seq {poly R}) : pposs ch (mods F F^`()) ->
  (size (rootsR F) = changes_minfty ch - changes_pinfty ch)%N.
Proof.
move=> st; have := taq_taqR F 1; rewrite taq1 /taqR mulr1 /changes_mods /changes_poly.
rewrite -(pposs_minfty st) -(pposs_pinfty st); lia.
Qed.

(* sign_var of a list of signs +-1 is MathComp's `changes` *)
Definition is_sign (z : Z) : bool := (z == 1) || (z == -1).

Lemma sign_var_auxP (prev : Z) (l : seq Z) : is_sign prev || (prev == 0) -> all is_sign l ->
  sign_var_aux prev l = ((ZtoR prev * ZtoR (head 0 l) < 0)%R + changes (map ZtoR l))%N.
Proof.
elim: l prev => [|s l IH] prev pv /=; first by rewrite rmorph0 mulr0 ltxx.
move=> /andP[ss sl].
have hd : head 0 (map ZtoR l) = ZtoR (head 0 l) by case: (l) => //=; rewrite rmorph0.
have -> : Z.eqb s Z0 = false by case/orP: ss => /eqP ->.
rewrite (IH s) ?ss // hd -!rmorphM /= !ZtoR_lt0.
by case/orP: pv => [/orP[] /eqP ->|/eqP ->]; case/orP: (ss) => /eqP ->.
Qed.

Lemma sign_varP (l : seq Z) : all is_sign l -> sign_var l = changes (map ZtoR l).
Proof. by move=> sl; rewrite /sign_var sign_var_auxP ?eqxx ?orbT // rmorph0 mul0r ltxx. Qed.


Lemma mods_neq0 (p q : {poly R}) : all (fun r => r != 0) (mods p q).
Proof.
suff H : forall s p q, mods p q = s -> all (fun r : {poly R} => r != 0) s by exact: (H _ p q erefl).
move=> {p q}; elim=> [|r s IHs] p q hrpq //=.
have p0 : p != 0 by rewrite -(mods_eq0 p q) hrpq.
by move: hrpq; rewrite neq0_mods_rec // => -[<- hs]; rewrite p0 /=; exact: IHs hs.
Qed.

Lemma pposs_neq0 s t : pposs s t -> all (fun r => r != 0) t -> all (fun r => r != 0) s.
Proof.
by elim: s t => [|a s IH] [|b t] //= [ab /IH H] /andP[b0 /H ->]; rewrite (ppos_eq0 ab) b0.
Qed.

(* ---- the model's sign variations at +-infinity are MathComp's *)
Lemma Zsgn_is_sign (x : Z) : x != 0 -> is_sign (Z.sgn x).
Proof. by case: x. Qed.

Lemma plc_neq0 p : PR p != 0 -> plc p != 0.
Proof. by rewrite -lead_coef_eq0 lead_coef_PR ZtoR_eq0. Qed.

Lemma sturm_var_pinf (ch : seq (seq Z)) : all (fun p => PR p != 0) ch ->
  sturm_var ch PInf = changes_pinfty (map PR ch).
Proof.
move=> nz; rewrite /sturm_var sign_varP; last first.
  by rewrite all_map; apply: sub_all nz => p /plc_neq0 /Zsgn_is_sign.
rewrite /changes_pinfty -[RHS]changes_sgr -!map_comp; congr changes.
by apply: eq_map => p /=; rewrite /psgn_pinf lead_coef_PR sgr_ZtoR.
Qed.

Lemma sturm_var_minf (ch : seq (seq Z)) : all (fun p => PR p != 0) ch ->
  sturm_var ch MInf = changes_minfty (map PR ch).
Proof.
move=> nz; rewrite /sturm_var sign_varP; last first.
  rewrite all_map; apply: sub_all nz => p /plc_neq0 /Zsgn_is_sign /=.
  by rewrite /psgn_minf; case: Nat.odd => //; case/orP => /eqP ->.
rewrite /changes_minfty -[RHS]changes_sgr -!map_comp; apply: congr1.
apply/eq_in_map => p /(allP nz) p0 /=.
rewrite /psgn_minf sgrM sgrX sgrN sgr1 lead_coef_PR sgr_ZtoR pdeg_size.
have -> : size (Poly p) = size (PR p) by rewrite size_PR polyseq_Poly_pnorm.
have -> : Nat.odd (size (PR p)).-1 = ~~ odd (size (PR p)).
  rewrite (polySpred p0) /= negbK; elim: (size (PR p)).-1 => // n IH.
  by rewrite Nat.odd_succ -Nat.negb_odd IH.
by case: (odd _); rewrite /= ?expr1 ?expr0 ?mul1r // mulN1r rmorphN.
Qed.

(* ---- the Z-level certificates imply the R-level chain conditions *)
Lemma div_gt0_of_mul (x y : R) : 0 < x * y -> 0 < x / y.
Proof. by rewrite -sgr_gt0 sgrM -[sgr y]sgrV -sgrM sgr_gt0. Qed.

Lemma ppropP a b : ri_pprop a b -> ppos (PR a) (PR b) /\ PR a != 0.
Proof.
rewrite /ri_pprop => /andP[/Z.ltb_lt lt /PR_peqb]; rewrite !PR_pscale => E.
have ab0 : 0 < ZtoR (plc a) * ZtoR (plc b) by rewrite -rmorphM ZtoR_gt0; apply/idP; lia.
have b0 : ZtoR (plc b) != 0.
  by apply: contraTneq ab0 => ->; rewrite mulr0 ltxx.
have a0 : ZtoR (plc a) != 0.
  by apply: contraTneq ab0 => ->; rewrite mul0r ltxx.
split; last by rewrite -lead_coef_eq0 lead_coef_PR.
exists (ZtoR (plc a) / ZtoR (plc b)); first exact: div_gt0_of_mul.
by rewrite mulrC -scalerA -E scalerA mulVf // scale1r.
Qed.

Lemma pdiv_scal_neq0 (e : Z) : ~~ Z.eqb e Z0 -> ZtoR e != 0.
Proof. by rewrite ZtoR_eq0; case: Z.eqb_spec => // ? _; apply/eqP. Qed.

Lemma link_okP a b c : ri_link_ok a b c ->
  [/\ PR b != 0, PR c != 0 & ppos (PR c) (- (PR a %% PR b))].
Proof.
rewrite /ri_link_ok; set e := ri_pdiv_scal a b; set qr := ppdivmod a b.
move=> /andP[/andP[/andP[/pdiv_scal_neq0 e0 /PR_peqb E] /Nat.ltb_lt /ssrnat.ltP sz]] /ppropP[cs c0].
rewrite PR_pscale PR_padd PR_pmul in E.
have {}sz : (size (PR qr.2) < size (PR b))%N by rewrite !size_PR; exact: sz.
have b0 : PR b != 0 by rewrite -size_poly_gt0 (leq_trans _ sz).
have rE : PR qr.2 = ZtoR e *: (PR a %% PR b) by rewrite -modpZl; exact: modpP E sz.
split=> //; apply: ppos_trans cs _.
case: ifP => [/Z.ltb_lt elt|/Z.ltb_ge ege].
  rewrite rE -[ZtoR e]opprK scaleNr -scalerN; apply: ppos_scale.
  by rewrite oppr_gt0 ZtoR_lt0; apply/idP; lia.
rewrite PR_pneg rE -scalerN; apply: ppos_scale.
by rewrite lt_neqAle eq_sym e0 /= -(rmorph0 ZtoR_rmorphism) ZtoR_le; apply/idP; lia.
Qed.

Lemma last_okP a b : ri_last_ok a b -> PR b != 0 /\ PR a %% PR b = 0.
Proof.
rewrite /ri_last_ok => /andP[/andP[b0 /pdiv_scal_neq0 e0] /PR_peqb]; rewrite PR_pscale PR_pmul => E.
split; first by rewrite PR_eq0.
have : (ZtoR (ri_pdiv_scal a b) *: PR a) %% PR b = 0 by rewrite E modp_mull.
by rewrite modpZl => /eqP; rewrite scaler_eq0 (negPf e0) /= => /eqP.
Qed.

Lemma links_okP ch : ri_links_ok ch -> Rlinks (map PR ch).
Proof.
elim: ch => [|a [|b rest] IH] //= /andP[lk /IH H]; split=> //.
case: rest lk {IH H} => [|c rest] /=; first exact: last_okP.
exact: link_okP.
Qed.

Lemma chain_okP f ch : chain_ok f ch -> pposs (map PR ch) (mods (PR f) (PR f)^`()).
Proof.
case: ch => [|a [|b rest]] //.
  move=> /= /andP[/ppropP[af a0]]; rewrite -PR_eq0 PR_pderiv => /eqP ->.
  by rewrite modsp0 -(ppos_eq0 af) (negPf a0).
rewrite chain_ok_cons2 => /andP[/andP[/ppropP[af a0] /ppropP[bf' _]] /links_okP lk].
by apply: (@Rlinks_mods (PR a) (PR b) (map PR rest)) => //; rewrite -PR_pderiv.
Qed.

(* the certified whole-line count IS the number of distinct real roots *)
Lemma chain_count_correct f ch : chain_ok f ch ->
  chain_count ch = size (rootsR (PR f)).
Proof.
move=> /chain_okP st.
have nz : all (fun p => PR p != 0) ch.
  by have := pposs_neq0 st (mods_neq0 _ _); rewrite all_map.
by rewrite /chain_count sturm_var_minf // sturm_var_pinf // (pposs_count st).
Qed.

Lemma certified_count_correct f n : certified_count f = Some n -> n = size (rootsR (PR f)).
Proof.
by rewrite /certified_count; case: ifP => // /chain_count_correct <- [<-].
Qed.


(* ====================================================================== the isolation checker is correct *)

Theorem check_isolation_correct f items : check_isolation f items ->
  PR f != 0 /\ dens items (rootsR (PR f)).
Proof.
rewrite /check_isolation => /andP[/andP[/andP[/andP[f0 wf] srt] ok]].
case cc: (certified_count f) => [n|] // /Nat.eqb_eq nE.
have F0 : PR f != 0 by rewrite PR_eq0.
split=> //.
have [xs [dxs sxs rxs]] := items_sound wf srt ok.
suff <- : xs = rootsR (PR f) by [].
apply: sorted_roots_complete => //.
by rewrite (dens_size dxs) -(certified_count_correct cc) nE.
Qed.

(* ---- each interval item contains no other root of its polynomial *)
Definition ilo (it : item) : R :=
  match it with IPoint a b => QR a b | IAlg _ la lb _ _ => QR la lb end.
Definition ihi (it : item) : R :=
  match it with IPoint a b => QR a b | IAlg _ _ _ ha hb => QR ha hb end.
Definition ib (a b : item) : bool := ihi a <= ilo b.

Lemma Zltb_pos (b : Z) : Z.ltb Z0 b -> (0 < b)%R.
Proof. by move=> /Z.ltb_lt ?; apply/idP; lia. Qed.

Lemma den_bounds it x : item_wf it -> item_den it x -> ilo it <= x <= ihi it.
Proof.
case: it => [a b|p la lb ha hb] /= _; first by move=> ->; rewrite lexx.
by move=> [/andP[/ltW -> /ltW ->]].
Qed.

Lemma before_bounds it1 it2 : item_wf it1 -> item_wf it2 -> item_before it1 it2 -> ib it1 it2.
Proof.
rewrite /ib; case: it1 => [a b|p la lb ha hb]; case: it2 => [c d|p' la' lb' ha' hb'] /=.
- by move=> /Zltb_pos b0 /Zltb_pos d0 bf; rewrite ltW // QR_lt.
- by move=> /Zltb_pos b0 /andP[/andP[/Zltb_pos lb0 _] _] bf; rewrite QR_le.
- by move=> /andP[/andP[_ /Zltb_pos hb0] _] /Zltb_pos d0 bf; rewrite QR_le.
- by move=> /andP[/andP[_ /Zltb_pos hb0] _] /andP[/andP[/Zltb_pos lb0 _] _] bf; rewrite QR_le.
Qed.

Lemma wf_bounds it : item_wf it -> ilo it <= ihi it.
Proof.
case: it => [a b|p la lb ha hb] //= /andP[/andP[/Zltb_pos lb0 /Zltb_pos hb0] lh].
by rewrite ltW // QR_lt.
Qed.

Lemma sorted_allafter it its : all item_wf (it :: its) -> items_sorted (it :: its) ->
  all (ib it) its.
Proof.
elim: its it => [|it2 its IH] it //= /andP[wf /andP[wf2 wfs]] /andP[bf srt].
have b12 := before_bounds wf wf2 bf.
rewrite b12 /=; have := IH it2; rewrite /= wf2 wfs => /(_ isT srt).
apply: sub_all => it3; rewrite /ib => h; apply: le_trans h.
exact: le_trans b12 (wf_bounds wf2).
Qed.

Lemma sorted_pairwise_ib its : all item_wf its -> items_sorted its -> pairwise ib its.
Proof.
elim: its => [|it its IH] // wfs srt; rewrite pairwise_cons (sorted_allafter wfs srt) /=.
apply: IH; first by case/andP: wfs.
by case: (its) srt => [|b l] //= /andP[].
Qed.

Definition item_uniq (it : item) (x : R) : Prop :=
  match it with
  | IPoint _ _ => Logic.True
  | IAlg p la lb ha hb => forall y, QR la lb < y < QR ha hb -> root (PR p) y -> y = x
  end.

Fixpoint denu (its : seq item) (xs : seq R) : Prop :=
  match its, xs with
  | [::], [::] => Logic.True
  | it :: its', x :: xs' => [/\ item_den it x, item_uniq it x & denu its' xs']
  | _, _ => Logic.False
  end.

Lemma denu_dens its xs : denu its xs -> dens its xs.
Proof. by elim: its xs => [|it its IH] [|x xs] //= [d _ /IH]. Qed.

Lemma dens_allafter it its xs : all item_wf its -> all (ib it) its -> dens its xs ->
  all (fun y => ihi it <= y) xs.
Proof.
elim: its xs => [|it2 its IH] [|y ys] //= /andP[wf2 wfs] /andP[b12 bs] [dy dys].
rewrite (IH _ wfs bs dys) andbT; apply: le_trans b12 _.
by have /andP[] := den_bounds wf2 dy.
Qed.

Lemma denu_aux f pre its xs :
  (forall y, root (PR f) y -> y \in pre ++ xs) ->
  all (fun it => all (fun y => y <= ilo it) pre) its ->
  all item_wf its -> pairwise ib its -> all (item_ok f) its -> dens its xs -> denu its xs.
Proof.
elim: its xs pre => [|it its IH] [|x xs] pre //= Hall /andP[prit prits] /andP[wf wfs].
move=> /andP[aft pw] /andP[ok oks] [dx dxs]; split=> //.
  case: it wf ok dx prit aft {prits} => [a b|p la lb ha hb] //= wf /andP[dv _] _ prit aft y /andP[ly yh] ry.
  have := Hall y (qdivides_root dv ry); rewrite mem_cat inE => /or3P[ypre|/eqP //|yxs].
  - by have := allP prit _ ypre; rewrite leNgt ly.
  - have := allP (dens_allafter wfs aft dxs) _ yxs => /=; by rewrite leNgt yh.
apply: (IH xs (rcons pre x)) => //; first by move=> y /Hall; rewrite cat_rcons.
have /andP[_ xh] := den_bounds wf dx.
have : all (predI (fun it' => all (fun y => y <= ilo it') pre) (ib it)) its by rewrite all_predI prits aft.
apply: sub_all => it' /= /andP[h1 h2]; rewrite all_rcons h1 andbT.
exact: le_trans xh h2.
Qed.

(* the full statement: the items are exactly the distinct real roots in increasing order, and each interval
   item contains no other root of its polynomial *)
Theorem check_isolation_exact f items : check_isolation f items ->
  PR f != 0 /\ denu items (rootsR (PR f)).
Proof.
move=> chk; have [F0 dn] := check_isolation_correct chk; split=> //.
move: chk; rewrite /check_isolation => /andP[/andP[/andP[/andP[_ wf] srt] ok] _].
apply: (@denu_aux f [::]) => //.
- by move=> y ry; rewrite cat0s in_rootsR.
- by elim: (items) => //= ? ? ->.
- exact: sorted_pairwise_ib.
Qed.

(* ---- counting the roots in an interval from a checked isolation list *)
Definition cmp_spec (c : comparison) (x q : R) : Prop :=
  match c with Datatypes.Lt => x < q | Datatypes.Eq => x = q | Datatypes.Gt => q < x end.

Lemma item_cmp_ratP f it x (a b : Z) : (0 < b)%R -> item_wf it -> item_ok f it ->
  item_den it x -> item_uniq it x -> cmp_spec (item_cmp_rat it a b) x (QR a b).
Proof.
move=> b0; case: it => [c d|p la lb ha hb] /=.
  move=> /Zltb_pos d0 _ -> _.
  case: Z.compare_spec => h /=.
  - by apply/eqP; rewrite eq_le !QR_le //; apply/andP; split; apply/idP; rewrite /riq_le; lia.
  - by rewrite QR_lt // /riq_lt; apply/idP; lia.
  - by rewrite QR_lt // /riq_lt; apply/idP; lia.
move=> /andP[/andP[/Zltb_pos lb0 /Zltb_pos hb0] lh] /andP[dv sc] [/andP[lx xh] rx] uq.
case: ifP => [|/negbT]; rewrite -QR_le //; first by move=> h /=; exact: le_lt_trans h lx.
rewrite -ltNge => lq.
case: ifP => [|/negbT]; rewrite -QR_le //; first by move=> h /=; exact: lt_le_trans xh h.
rewrite -ltNge => qh.
have sl := sgr_horner_rat p la lb0; have sh := sgr_horner_rat p ha hb0; have sq := sgr_horner_rat p a b0.
have Heq : psgn_at_rat p a b = 0 -> x = QR a b.
  by move=> s0; apply/esym/uq; rewrite ?lq ?qh // root_rat // s0.
have Hgt : sgr (PR p).[QR a b] * sgr (PR p).[QR ha hb] = -1 -> QR a b < x.
  move=> /(ivt_sign (ltW qh)) [y]; rewrite in_itv /= => /andP[qy yh] ry.
  by rewrite -(uq y) // yh (lt_trans lq qy).
have Hlt : sgr (PR p).[QR la lb] * sgr (PR p).[QR a b] = -1 -> x < QR a b.
  move=> /(ivt_sign (ltW lq)) [y]; rewrite in_itv /= => /andP[ly yq] ry.
  by rewrite -(uq y) // ly (lt_trans yq qh).
move: sc sl sh sq Heq Hgt Hlt; rewrite /psgn_at_rat.
case: (Zsgn_cases (peval_hom_aux p la lb).1) => ->;
case: (Zsgn_cases (peval_hom_aux p ha hb).1) => -> //= _;
case: (Zsgn_cases (peval_hom_aux p a b).1) => -> /= sl sh sq Heq Hgt Hlt;
  try (by apply: Heq); try (by apply: Hgt; rewrite sq sh !rmorphN !rmorph1 ?mulr1 ?mul1r ?mulrNN);
  by apply: Hlt; rewrite sl sq !rmorphN !rmorph1 ?mulr1 ?mul1r ?mulrNN.
Qed.

Definition in_qitv (J : ri_itv) (x : R) : bool :=
  (if qlo_open J then QR (qlo_n J) (qlo_d J) < x else QR (qlo_n J) (qlo_d J) <= x)
  && (if qhi_open J then x < QR (qhi_n J) (qhi_d J) else x <= QR (qhi_n J) (qhi_d J)).

Lemma lo_side c (x q : R) (op : bool) : cmp_spec c x q ->
  (match c with Datatypes.Gt => true | Datatypes.Eq => ~~ op | Datatypes.Lt => false end)
  = (if op then q < x else q <= x).
Proof.
case: c => /= h; case: op => /=.
- by rewrite h ltxx.
- by rewrite h lexx.
- by rewrite (lt_gtF h).
- by rewrite (lt_geF h).
- by rewrite h.
- by rewrite (ltW h).
Qed.

Lemma hi_side c (x q : R) (op : bool) : cmp_spec c x q ->
  (match c with Datatypes.Lt => true | Datatypes.Eq => ~~ op | Datatypes.Gt => false end)
  = (if op then x < q else x <= q).
Proof.
case: c => /= h; case: op => /=.
- by rewrite h ltxx.
- by rewrite h lexx.
- by rewrite h.
- by rewrite (ltW h).
- by rewrite (lt_gtF h).
- by rewrite (lt_geF h).
Qed.

Lemma item_in_itvP f it x J : (0 < qlo_d J)%R -> (0 < qhi_d J)%R -> item_wf it -> item_ok f it ->
  item_den it x -> item_uniq it x -> item_in_itv it J = in_qitv J x.
Proof.
move=> l0 h0 wf ok dx ux; rewrite /item_in_itv /in_qitv.
rewrite (lo_side _ (item_cmp_ratP (qlo_n J) l0 wf ok dx ux)).
by rewrite (hi_side _ (item_cmp_ratP (qhi_n J) h0 wf ok dx ux)).
Qed.

Theorem count_in_itv_correct f items J : check_isolation f items ->
  (0 < qlo_d J)%R -> (0 < qhi_d J)%R ->
  count_in_itv items J = size [seq x <- rootsR (PR f) | in_qitv J x].
Proof.
move=> chk l0 h0; have [_ dn] := check_isolation_exact chk.
move: chk; rewrite /check_isolation => /andP[/andP[/andP[/andP[_ wf] _] ok] _].
rewrite /count_in_itv; elim: (items) (rootsR _) wf ok dn => [|it its IH] [|x xs] //=.
move=> /andP[wf wfs] /andP[ok oks] [dx ux dxs].
by rewrite (item_in_itvP l0 h0 wf ok dx ux); case: ifP => _ /=; rewrite (IH xs).
Qed.

Lemma rootsRN (p : {poly R}) : rootsR (- p) = rootsR p.
Proof.
have [->|p0] := eqVneq p 0; first by rewrite oppr0.
rewrite -(@rootsRP _ (- p) (- cauchy_bound p) (cauchy_bound p)) ?roots_opp //.
  by move=> x xin; rewrite rootN; apply: le_cauchy_bound.
by move=> x xin; rewrite rootN; apply: ge_cauchy_bound.
Qed.

(* checker for a Sturm sequence returned by the implementation: whole-line sign-variation property *)
Theorem check_sturm_correct f ch : check_sturm f ch ->
  (sturm_var ch MInf - sturm_var ch PInf)%N = size (rootsR (PR f)).
Proof.
case/andP => _ /orP[|] /chain_count_correct //.
by rewrite PR_pneg rootsRN.
Qed.

(* ====================================================================== the end-point rule of the count *)

(* number of elements of a duplicate-free list in an interval with open/closed ends, from the (lo,hi] count *)
Lemma count_ends (xs : seq R) (lo hi : R) (lo_open hi_open : bool) : uniq xs -> lo < hi ->
  (count (fun x => (if lo_open then lo < x else lo <= x)%R && (if hi_open then x < hi else x <= hi)%R) xs
   + (hi_open && (hi \in xs)) = count (fun x => lo < x <= hi)%R xs + (~~ lo_open && (lo \in xs)))%N.
Proof.
move=> + lh; elim: xs => [|x xs IH] /=; first by rewrite !andbF.
move=> /andP[nin /IH {}IH]; rewrite !inE.
have [xlo|nlo] := eqVneq x lo.
  rewrite xlo ?ltxx ?lexx ?lh ?(ltW lh) ?eqxx ?(gt_eqF lh) /= in nin *.
  by move: IH; rewrite (negPf nin) !andbF /=; case: lo_open; case: hi_open => /=; lia.
have [xhi|nhi] := eqVneq x hi.
  rewrite xhi ?ltxx ?lexx ?lh ?(ltW lh) ?eqxx ?(lt_eqF lh) /= in nin *.
  by move: IH; rewrite (negPf nin) !andbF /=; case: lo_open; case: hi_open => /=; lia.
rewrite /=.
have -> : (lo <= x) = (lo < x) by rewrite le_eqVlt eq_sym (negPf nlo).
have -> : (x <= hi) = (x < hi) by rewrite le_eqVlt (negPf nhi).
by move: IH; case: lo_open; case: hi_open => /=; lia.
Qed.


(* The repaired end-point rule of sturm_seqence_count_roots is right for EVERY interval, given the (a,b]
   sign-variation property of the sequence (premise sturm_oc_correct: Sturm's theorem with zero skipping at
   finite points - not proved here; validated by sampling in the correspondence). *)
Section CountAdjust.
Variable S : seq (seq Z).
Let s0 := List.hd [::] S.
Hypothesis s0_neq0 : PR s0 != 0.

(* premise only at the two end points of J *)
Theorem lp_count_roots_repaired_at (J : ri_itv) : (0 < qlo_d J)%R -> (0 < qhi_d J)%R ->
  QR (qlo_n J) (qlo_d J) < QR (qhi_n J) (qhi_d J) ->
  Z.sub (Z.of_nat (lp_sign_changes S (Fin (qlo_n J) (qlo_d J)) (size S)))
        (Z.of_nat (lp_sign_changes S (Fin (qhi_n J) (qhi_d J)) (size S)))
  = Z.of_nat (count (fun x => QR (qlo_n J) (qlo_d J) < x <= QR (qhi_n J) (qhi_d J)) (rootsR (PR s0))) ->
  lp_count_roots_gen true S (Some J) = Z.of_nat (count (in_qitv J) (rootsR (PR s0))).
Proof.
move=> l0 h0 lh oc; rewrite /lp_count_roots_gen -/s0.
have -> : Z.eqb (Z.mul (qlo_n J) (qhi_d J)) (Z.mul (qhi_n J) (qlo_d J)) = false.
  by move: lh; rewrite QR_lt // /riq_lt => /Z.ltb_lt ?; apply/Z.eqb_neq; lia.
rewrite /=.
have -> : length S = size S by [].
rewrite oc /=.
have uxs : uniq (rootsR (PR s0)).
  by apply: (@sorted_uniq _ <%R) (sorted_roots _ _ _); [exact: lt_trans | exact: ltxx].
have := count_ends (qlo_open J) (qhi_open J) uxs lh.
rewrite !in_rootsR // !root_rat // /in_qitv.
rewrite !ZeqbP.
case: (qhi_open J); case: (qlo_open J) => /=;
  case: (psgn_at_rat s0 (qhi_n J) (qhi_d J) == 0); case: (psgn_at_rat s0 (qlo_n J) (qlo_d J) == 0) => /=; lia.
Qed.

Hypothesis sturm_oc_correct : forall a b c d : Z, (0 < b)%R -> (0 < d)%R -> QR a b < QR c d ->
  Z.sub (Z.of_nat (lp_sign_changes S (Fin a b) (size S))) (Z.of_nat (lp_sign_changes S (Fin c d) (size S)))
  = Z.of_nat (count (fun x => QR a b < x <= QR c d) (rootsR (PR s0))).

Theorem lp_count_roots_repaired_cond (J : ri_itv) : (0 < qlo_d J)%R -> (0 < qhi_d J)%R ->
  QR (qlo_n J) (qlo_d J) < QR (qhi_n J) (qhi_d J) ->
  lp_count_roots_gen true S (Some J) = Z.of_nat (count (in_qitv J) (rootsR (PR s0))).
Proof. by move=> l0 h0 lh; apply: lp_count_roots_repaired_at => //; exact: sturm_oc_correct. Qed.

End CountAdjust.

(* the reference count of UPoly.v is total and correct: no run-time certificate can fail *)
Lemma certified_count_total f : ~~ pis_zero f -> certified_count f = Some (count_real_roots f).
Proof. by move=> f0; rewrite /certified_count sturm_chain_certified. Qed.

Theorem count_real_roots_correct f : ~~ pis_zero f -> count_real_roots f = size (rootsR (PR f)).
Proof. by move=> f0; apply: certified_count_correct; rewrite certified_count_total. Qed.

(* ====================================================================== libpoly's Sturm sequence (faithful model) *)

Lemma rootsRZ (c : R) (p : {poly R}) : c != 0 -> rootsR (c *: p) = rootsR p.
Proof.
move=> c0; have [->|p0] := eqVneq p 0; first by rewrite scaler0.
rewrite -(@rootsRP _ (c *: p) (- cauchy_bound p) (cauchy_bound p)) ?rootsZ //.
  by move=> x xin; rewrite rootZ //; apply: le_cauchy_bound.
by move=> x xin; rewrite rootZ //; apply: ge_cauchy_bound.
Qed.

Lemma PR_ppos_prim s : PR s != 0 -> PR (ppos_prim s) != 0 /\ ppos (PR s) (PR (ppos_prim s)).
Proof.
rewrite PR_eq0 => s0.
have s0' : Poly s != 0 by apply/negP => /eqP/pis_zeroP; rewrite (negPf s0).
have [cpos sE] := ppos_primP s0'.
have E : PR s = ZtoR (pcontent s) *: PR (ppos_prim s) by rewrite -PR_pscale /PR Poly_pscale -sE.
have c0 : 0 < ZtoR (pcontent s) by rewrite ZtoR_gt0.
split; last by exists (ZtoR (pcontent s)).
by apply/eqP => pp0; move: s0; rewrite -PR_eq0 E pp0 scaler0 eqxx.
Qed.

Lemma ZltbE (x y : Z) : Z.ltb x y = (x < y).
Proof. by []. Qed.

Definition psigned (p : seq Z) : seq Z := if Z.ltb (plc p) Z0 then pneg p else p.

Lemma pppE p : ppp p = psigned (ppos_prim p).
Proof. by rewrite /ppp /ppos_prim /psigned; case: Z.eqb_spec. Qed.

(* pp(p): positive leading coefficient, a positive multiple of p or of -p according to the sign of lc(p) *)
Lemma PR_ppp p : PR p != 0 ->
  [/\ PR (ppp p) != 0, 0 < lead_coef (PR (ppp p))
    & ppos (PR (ppp p)) (if lead_coef (PR p) < 0 then - PR p else PR p)].
Proof.
move=> p0; have [q0 pq] := PR_ppos_prim p0.
have sl := ppos_lead pq.
rewrite pppE /psigned ZltbE -ZtoR_lt0 -lead_coef_PR.
have lq0 : lead_coef (PR (ppos_prim p)) != 0 by rewrite lead_coef_eq0.
have -> : (lead_coef (PR p) < 0) = (lead_coef (PR (ppos_prim p)) < 0).
  by rewrite -sgr_lt0 sl sgr_lt0.
case: ifP => lt.
  rewrite PR_pneg oppr_eq0 q0 lead_coefN oppr_gt0 lt; split=> //.
  exact/ppos_opp/ppos_sym.
split=> //; last exact: ppos_sym.
by rewrite lt_neqAle eq_sym lq0 leNgt lt.
Qed.

Lemma modp_const (p c : {poly R}) : size c = 1%N -> p %% c = 0.
Proof. by move=> /eqP/size_poly1P [k k0 ->]; rewrite modpC. Qed.

(* one step of upolynomial_compute_sturm_sequence: the sign correction makes the new element a POSITIVE multiple
   of -(prev mod cur) *)
Lemma lp_stepP prev cur : PR cur != 0 -> (size (PR cur) <= size (PR prev))%N ->
  let mr := lp_reduce_Z prev cur in
  let s := if Z.ltb Z0 mr.1 then pneg (ppos_prim mr.2) else ppos_prim mr.2 in
  [/\ (size (PR mr.2) < size (PR cur))%N,
      pis_zero mr.2 -> PR prev %% PR cur = 0
    & ~~ pis_zero mr.2 -> [/\ PR s != 0, size (PR s) = size (PR mr.2) & ppos (PR s) (- (PR prev %% PR cur))]].
Proof.
move=> c0 sz mr s.
have c0' : Poly cur != 0 by apply/negP => /eqP/pis_zeroP; rewrite -PR_eq0 (negPf c0).
have sz' : (size (Poly cur) <= size (Poly prev))%N by move: sz; rewrite !size_PR !size_Poly_pnorm => h; exact: h.
have [m0 [D E] szr] := lp_reduce_ZP c0' sz'; rewrite -/mr in m0 E szr.
have ER : ZtoR mr.1 *: PR prev = map_poly ZtoR D * PR cur + PR mr.2.
  by have := congr1 (map_poly ZtoR) E; rewrite rmorphD rmorphM /= map_polyZ.
have szrR : (size (PR mr.2) < size (PR cur))%N by move: szr; rewrite !size_PR !size_Poly_pnorm => h; exact: h.
have M0 : ZtoR mr.1 != 0 by rewrite ZtoR_eq0.
have redE : PR mr.2 = ZtoR mr.1 *: (PR prev %% PR cur) by rewrite -modpZl; exact: modpP ER szrR.
split=> //.
  by rewrite -PR_eq0 redE scaler_eq0 (negPf M0) /= => /eqP.
rewrite -PR_eq0 => r0; have [pp0 rpp] := PR_ppos_prim r0.
have [k k0 kE] := ppos_sym rpp.
have sE : PR s = (if Z.ltb Z0 mr.1 then - k else k) *: PR mr.2.
  by rewrite /s; case: ifP => _; rewrite ?PR_pneg kE ?scaleNr.
split.
- by rewrite /s; case: ifP => _; rewrite ?PR_pneg ?oppr_eq0.
- by rewrite /s; case: ifP => _; rewrite ?PR_pneg ?size_opp (ppos_size (ppos_sym rpp)).
rewrite sE redE scalerA; case: ifP => [/Z.ltb_lt mpos|/Z.ltb_ge mneg].
  rewrite mulNr scaleNr -scalerN; apply: ppos_scale.
  by rewrite mulr_gt0 // ZtoR_gt0; apply/idP; lia.
rewrite -[k * _]opprK -mulrN scaleNr -scalerN; apply: ppos_scale.
rewrite mulr_gt0 // oppr_gt0 ZtoR_lt0; apply/idP.
by move/eqP: m0 => m0; lia.
Qed.

Lemma lp_loop_cons fuel prev cur : exists l, lp_sturm_loop fuel prev cur = cur :: l.
Proof.
case: fuel => [|f] /=; first by exists [::].
case: Nat.leb; first by exists [::].
case: lp_reduce_Z => a red; case: pis_zero; first by exists [::].
by eexists.
Qed.

Lemma lp_loop_links fuel prev cur : PR prev != 0 -> PR cur != 0 ->
  (size (PR cur) <= size (PR prev))%N -> (size (PR cur) <= fuel.+1)%N ->
  Rlinks (map PR (prev :: lp_sturm_loop fuel prev cur)).
Proof.
have base p c : PR c != 0 -> (size (PR c) <= 1)%N -> Rlinks (map PR [:: p; c]).
  move=> c0 sc /=; split=> //; split=> //; apply: modp_const.
  by apply/eqP; rewrite eqn_leq sc size_poly_gt0.
elim: fuel prev cur => [|f IH] prev cur p0 c0 scp scf; first exact: base.
rewrite [lp_sturm_loop _ _ _]/=.
case: (boolP (Nat.leb _ _)) => [/Nat.leb_le le1|_].
  by apply: base => //; rewrite size_PR; apply/ssrnat.leP.
have [szr zr nzr] := lp_stepP c0 scp.
case E: (lp_reduce_Z prev cur) zr nzr szr => [a red] /= zr nzr szr.
case: (boolP (pis_zero red)) => [/zr z|/nzr [s0 ss sp]].
  by rewrite /=; split.
set s := (if Z.ltb Z0 a then _ else _) in s0 ss sp *.
have [l lE] := lp_loop_cons f cur s.
have := IH cur s c0 s0; rewrite lE ss => /(_ (ltnW szr)) H.
rewrite /=; split; first by split.
apply: H.
by move: (size (PR red)) (size (PR cur)) szr scf => m n; lia.
Qed.

Lemma lead_coef_deriv_gt0 (p : {poly R}) : (1 < size p)%N -> 0 < lead_coef p -> 0 < lead_coef p^`().
Proof.
move=> sp lp; rewrite lead_coefE size_deriv coef_deriv.
have -> : (size p).-1.-1.+1 = (size p).-1 by move: (size p) sp => n; lia.
by rewrite -lead_coefE pmulrn_lgt0 //; move: (size p) sp => n; lia.
Qed.

(* libpoly's Sturm sequence (repaired model) has the whole-line sign-variation property, for every
   non-constant integer polynomial - square-free or not, any sign of the leading coefficient, any content *)
Theorem lp_sturm_sequence_correct f : (1 < size (PR f))%N ->
  (sturm_var (lp_sturm_sequence f) MInf - sturm_var (lp_sturm_sequence f) PInf)%N = size (rootsR (PR f)).
Proof.
move=> sf; have f0 : PR f != 0 by rewrite -size_poly_gt0 (ltn_trans _ sf).
rewrite /lp_sturm_sequence; set s0 := ppp f; set s1 := ppp (pderiv s0).
have [s00 ls0 ps0] := PR_ppp f0; rewrite -/s0 in s00 ls0 ps0.
have szs0 : size (PR s0) = size (PR f).
  by rewrite (ppos_size ps0); case: ifP => _ //; rewrite size_opp.
have d0 : PR (pderiv s0) != 0.
  by rewrite PR_pderiv -size_poly_gt0 size_deriv szs0; move: (size (PR f)) sf => n; lia.
have [s10 ls1 ps1] := PR_ppp d0; rewrite -/s1 in s10 ls1 ps1.
have ld : 0 < lead_coef (PR (pderiv s0)).
  by rewrite PR_pderiv lead_coef_deriv_gt0 // szs0.
rewrite ltNge (ltW ld) /= in ps1.
have szs1 : (size (PR s1) <= size (PR s0))%N.
  by rewrite (ppos_size ps1) PR_pderiv size_deriv leq_pred.
have lk : Rlinks (map PR (s0 :: lp_sturm_loop (length s0) s0 s1)).
  apply: lp_loop_links => //.
  apply: leq_trans szs1 _; rewrite size_PR.
  have : (size (pnorm s0) <= size s0)%N.
    by rewrite -polyseq_Poly_pnorm; apply: size_Poly.
  by move=> h; apply: leq_trans h _.
have [l lE] := lp_loop_cons (length s0) s0 s1; rewrite lE in lk *.
have st : pposs (map PR (s0 :: s1 :: l)) (mods (PR s0) (PR s0)^`()).
  apply: Rlinks_mods => //; first exact: ppos_refl.
  by rewrite -PR_pderiv.
have nz : all (fun p => PR p != 0) (s0 :: s1 :: l).
  by have := pposs_neq0 st (mods_neq0 _ _); rewrite all_map.
rewrite sturm_var_minf // sturm_var_pinf // -(pposs_count st).
have [c c0 ->] := ps0; case: ifP => _; rewrite ?rootsRZ ?rootsRN ?scalerN ?rootsRN ?rootsRZ //; exact: lt0r_neq0.
Qed.

(* the libpoly chain as an R-level Sturm chain of G = PR (ppp f), which has the roots of f *)
Lemma lp_sturm_sequence_chain f : (1 < size (PR f))%N ->
  [/\ PR (ppp f) != 0, rootsR (PR (ppp f)) = rootsR (PR f),
      pposs (map PR (lp_sturm_sequence f)) (mods (PR (ppp f)) (PR (ppp f))^`())
    & Rlinks (map PR (lp_sturm_sequence f))].
Proof.
move=> sf; have f0 : PR f != 0 by rewrite -size_poly_gt0 (ltn_trans _ sf).
rewrite /lp_sturm_sequence; set s0 := ppp f; set s1 := ppp (pderiv s0).
have [s00 ls0 ps0] := PR_ppp f0; rewrite -/s0 in s00 ls0 ps0.
have szs0 : size (PR s0) = size (PR f).
  by rewrite (ppos_size ps0); case: ifP => _ //; rewrite size_opp.
have d0 : PR (pderiv s0) != 0.
  by rewrite PR_pderiv -size_poly_gt0 size_deriv szs0; move: (size (PR f)) sf => n; lia.
have [s10 ls1 ps1] := PR_ppp d0; rewrite -/s1 in s10 ls1 ps1.
have ld : 0 < lead_coef (PR (pderiv s0)).
  by rewrite PR_pderiv lead_coef_deriv_gt0 // szs0.
rewrite ltNge (ltW ld) /= in ps1.
have szs1 : (size (PR s1) <= size (PR s0))%N.
  by rewrite (ppos_size ps1) PR_pderiv size_deriv leq_pred.
have lk : Rlinks (map PR (s0 :: lp_sturm_loop (length s0) s0 s1)).
  apply: lp_loop_links => //.
  apply: leq_trans szs1 _; rewrite size_PR.
  have : (size (pnorm s0) <= size s0)%N.
    by rewrite -polyseq_Poly_pnorm; apply: size_Poly.
  by move=> h; apply: leq_trans h _.
split=> //.
  by have [c c0 ->] := ps0; case: ifP => _; rewrite ?rootsRZ ?rootsRN ?scalerN ?rootsRN ?rootsRZ //; exact: lt0r_neq0.
have [l lE] := lp_loop_cons (length s0) s0 s1; rewrite lE in lk *.
apply: Rlinks_mods => //; first exact: ppos_refl.
by rewrite -PR_pderiv.
Qed.


End Morph.
