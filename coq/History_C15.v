(* Regression memory of property C15 (DESIGN 2.4): the PINNED versions of the functions of
   src/interval/arithmetic.c and interval.c that were repaired (the patches fixes/C15-xxx.patch), each with a
   machine-checked refutation of "never loses a point" on the faithful model of the pinned code.
   The witnesses are replayed against the real library on every run (corpus/C15.txt).
   IntervalArith.v describes the repaired code. *)
From Coq Require Import ZArith List Bool Lia Lqa QArith.
From LP Require Import Scalar ScalarProofs IntervalArith IntervalArithProofs.
Import ListNotations.
Local Open Scope Z_scope.

Section Pinned.
Context {T : Type} (O : sops T).

(* pinned *_interval_mul: the UPPER end point is compared with the lower-end order (D1) *)
Definition corner_step_prefix (st : T * bool * T * bool) (tmp : T) (tmp_open : bool) : T * bool * T * bool :=
  let '(ra, rao, rb, rbo) := st in
  if endpoint_lt O tmp tmp_open ra rao then (tmp, tmp_open, rb, rbo)
  else if endpoint_lt O rb rbo tmp tmp_open then (ra, rao, tmp, tmp_open)
  else st.

(* `flip` = the dyadic version exchanges the strictness flags for a negative point, the rational
   version does not (D3); no zero fix-up at the end (D4) *)
Definition gi_mul_core_prefix (flip : bool) (al : alias) (P I1 I2 : itv T) : itv T :=
  let r1 := irdA al P I1 in
  let r2 := irdB al P I2 in
  if ipt r1 then
    if ipt r2 then
      let P1 := iset_a P (s_mul O (ia r1) (ia r2)) in
      let P2 := if negb (ipt P1) then iset_pt (iset_b P1 (s_zero O)) true else P1 in
      iset_bo (iset_ao P2 false) false
    else
      let a_sgn := s_sgn O (ia r1) in
      if a_sgn =? 0 then
        let P1 := if negb (ipt P) then iset_pt (iset_b P (s_zero O)) true else P in
        let P2 := iset_bo (iset_ao P1 false) false in
        iset_a P2 (s_zero O)
      else if 0 <? a_sgn then
        mkI (s_mul O (ia r1) (ia r2)) (s_mul O (ia r1) (ib r2)) (ia_open r2) (ib_open r2) false
      else if flip then
        mkI (s_mul O (ia r1) (ib r2)) (s_mul O (ia r1) (ia r2)) (ib_open r2) (ia_open r2) false
      else
        mkI (s_mul O (ia r1) (ib r2)) (s_mul O (ia r1) (ia r2)) (ia_open r2) (ib_open r2) false
  else
    let c1 := s_mul O (ia r1) (ia r2) in
    let o1 := ia_open r1 || ia_open r2 in
    let st0 := (c1, o1, c1, o1) in
    let st1 := corner_step_prefix st0 (s_mul O (ia r1) (ib r2)) (ia_open r1 || ib_open r2) in
    let st2 := corner_step_prefix st1 (s_mul O (ib r1) (ia r2)) (ib_open r1 || ia_open r2) in
    let st3 := corner_step_prefix st2 (s_mul O (ib r1) (ib r2)) (ib_open r1 || ib_open r2) in
    let '(ra, rao, rb, rbo) := st3 in
    mkI ra rb rao rbo false.

Definition gi_mul_prefix (flip : bool) (al : alias) (P I1 I2 : itv T) : itv T :=
  let r1 := irdA al P I1 in
  let r2 := irdB al P I2 in
  if ipt r1 then gi_mul_core_prefix flip al P I1 I2
  else if ipt r2 then gi_mul_core_prefix flip (swap_alias al) P I2 I1
  else gi_mul_core_prefix flip al P I1 I2.

(* pinned *_interval_pow: lower-end order for the upper end in the case around zero (D2); in the
   negative case P->a_open is written before I->a_open is read (D5, visible when P == I) *)
Definition gi_pow_prefix (al : alias) (P I : itv T) (n : N) : itv T :=
  if (n =? 0)%N then
    let P1 := if negb (ipt P) then iset_b (iset_pt P true) (s_zero O) else P in
    let P2 := iset_a P1 (s_one O) in
    iset_bo (iset_ao P2 false) false
  else if ipt (irdA al P I) then
    let P1 := if negb (ipt P) then iset_bo (iset_ao (iset_pt (iset_b P (s_zero O)) true) false) false else P in
    iset_a P1 (s_pow O (ia (irdA al P1 I)) n)
  else
    let P1 := if ipt P then iset_b (iset_pt P false) (s_zero O) else P in
    if N.odd n then
      let P2 := iset_ao P1 (ia_open (irdA al P1 I)) in
      let P3 := iset_bo P2 (ib_open (irdA al P2 I)) in
      let P4 := iset_a P3 (s_pow O (ia (irdA al P3 I)) n) in
      iset_b P4 (s_pow O (ib (irdA al P4 I)) n)
    else
      let sgn := gi_sgn O (irdA al P1 I) in
      let P2 := iset_a P1 (s_pow O (ia (irdA al P1 I)) n) in
      let P3 := iset_b P2 (s_pow O (ib (irdA al P2 I)) n) in
      if sgn =? 0 then
        let P5 :=
          if endpoint_lt O (ib P3) (ib_open (irdA al P3 I)) (ia P3) (ia_open (irdA al P3 I)) then
            let P4 := mkI (ib P3) (ia P3) (ia_open P3) (ib_open P3) (ipt P3) in
            iset_bo P4 (ia_open (irdA al P4 I))
          else
            iset_bo P3 (ib_open (irdA al P3 I)) in
        iset_ao (iset_a P5 (s_zero O)) false
      else if 0 <? sgn then
        let P4 := iset_ao P3 (ia_open (irdA al P3 I)) in
        iset_bo P4 (ib_open (irdA al P4 I))
      else
        let P4 := mkI (ib P3) (ia P3) (ia_open P3) (ib_open P3) (ipt P3) in
        let P5 := iset_ao P4 (ib_open (irdA al P4 I)) in
        iset_bo P5 (ia_open (irdA al P5 I)).
End Pinned.

Definition ri_mul_prefix := gi_mul_prefix rat_ops false.
Definition di_mul_prefix := gi_mul_prefix dy_ops true.
Definition ri_pow_prefix := gi_pow_prefix rat_ops.
(* pinned dyadic_interval_pow(I, 0): dyadic_rational_assign_int(&P->a, 1, 1) is 1/2^1 (D6) *)
Definition dy_ops_prefix : sops dyadic :=
  mkSops dyadic (dy_from_int 0 1) (dy_from_int 1 1)
         (dy_add NoAlias dy0) (dy_neg NoAlias dy0) (dy_mul NoAlias dy0)
         (fun a n => dy_pow NoAlias dy0 a n) dy_cmp dy_sgn.
Definition di_pow_prefix := gi_pow_prefix dy_ops_prefix.

(* pinned lp_interval_mul / lp_interval_pow (value level): lower-end order for the upper end *)
Definition v_corner_step_prefix (st : value * bool * value * bool) (tmp : value) (tmp_open : bool) :=
  let '(ra, rao, rb, rbo) := st in
  let '(ra1, rao1) := if v_endpoint_lt tmp tmp_open ra rao then (tmp, tmp_open) else (ra, rao) in
  let '(rb1, rbo1) := if v_endpoint_lt rb rbo tmp tmp_open then (tmp, tmp_open) else (rb, rbo) in
  (ra1, rao1, rb1, rbo1).
Definition vi_mul_gen_prefix (I1 I2 : vitv) : vitv :=
  let c1 := value_mul_approx (ia I1) (ia I2) in
  let o1 := ia_open I1 || ia_open I2 in
  let st0 := (c1, o1, c1, o1) in
  let st1 := v_corner_step_prefix st0 (value_mul_approx (ia I1) (ib I2)) (ia_open I1 || ib_open I2) in
  let st2 := v_corner_step_prefix st1 (value_mul_approx (ib I1) (ia I2)) (ib_open I1 || ia_open I2) in
  let st3 := v_corner_step_prefix st2 (value_mul_approx (ib I1) (ib I2)) (ib_open I1 || ib_open I2) in
  let '(ra, rao, rb, rbo) := st3 in
  let cz := v_closed_zero_end I1 I2 in
  mkI ra rb (if (value_sgn ra =? 0) && cz then false else rao) (if (value_sgn rb =? 0) && cz then false else rbo) false.
Definition vi_pow_even_zero_prefix (I : vitv) (n : N) : vitv :=
  let ra := value_pow_approx (ia I) n in
  let rb := value_pow_approx (ib I) n in
  if v_endpoint_lt rb (ib_open I) ra (ia_open I)
  then mkI (VInt 0) ra false (ia_open I) false
  else mkI (VInt 0) rb false (ib_open I) false.

(* pinned lp_rational_interval_construct_from_int(I, a, ., b, .): rational_construct_from_int(., a, 0)
   = mpq_set_si(q, a, 0); mpq_canonicalize(q): a division by zero (D7) *)
Definition ri_construct_from_int_prefix (a b : Z) : option (rat * rat) :=
  match q_from_int a 0, q_from_int b 0 with Some x, Some y => Some (x, y) | _, _ => None end.

(* ------------------------------------------------------------------ refutations *)
Local Open Scope Q_scope.

Definition Iv {T} (a : T) (ao : bool) (b : T) (bo : bool) : itv T := mkI a b ao bo false.
Definition rq (n d : Z) : rat := (n, d).
Definition fresh_r : ritv := gi_point rat_ops (0, 1)%Z.
Definition fresh_d : ditv := gi_point dy_ops dy0.

Ltac wf_tac := repeat split; cbn; try reflexivity; try (intros; discriminate); try (left; split; reflexivity); try (right; left; reflexivity); try (right; right; reflexivity).

Lemma r_not_in I q : rwf I -> q_wf q -> ri_contains I q = false -> ~ rin (QofR q) I.
Proof. intros W Wq H Hin. apply (ri_contains_spec I q W Wq) in Hin. congruence. Qed.
Lemma r_in I q : rwf I -> q_wf q -> ri_contains I q = true -> rin (QofR q) I.
Proof. intros W Wq H. apply (ri_contains_spec I q W Wq). assumption. Qed.
Lemma d_not_in I q : dwf I -> dy_wf q -> di_contains I q = false -> ~ din (QofD q) I.
Proof. intros W Wq H Hin. apply (di_contains_spec I q W Wq) in Hin. congruence. Qed.
Lemma d_in I q : dwf I -> dy_wf q -> di_contains I q = true -> din (QofD q) I.
Proof. intros W Wq H. apply (di_contains_spec I q W Wq). assumption. Qed.

(* D1: [-1,1) * [-1,1) = (-1,1): the product (-1)*(-1) = 1 is lost *)
Theorem C15_rat_mul_prefix_refuted :
  exists I1 I2 x y, rwf I1 /\ rwf I2 /\ rin x I1 /\ rin y I2 /\ ~ rin (x * y) (ri_mul_prefix NoAlias fresh_r I1 I2).
Proof.
  exists (Iv (rq (-1) 1) false (rq 1 1) true), (Iv (rq (-1) 1) false (rq 1 1) true), (QofR (rq (-1) 1)), (QofR (rq (-1) 1)).
  split; [wf_tac|]. split; [wf_tac|]. split; [apply r_in; [wf_tac|wf_tac|reflexivity]|]. split; [apply r_in; [wf_tac|wf_tac|reflexivity]|].
  intros H. apply (r_not_in (ri_mul_prefix NoAlias fresh_r (Iv (rq (-1) 1) false (rq 1 1) true) (Iv (rq (-1) 1) false (rq 1 1) true)) (rq 1 1)); [wf_tac|wf_tac|reflexivity|].
  eapply (Qin_compat QofR); [|exact H]. reflexivity.
Qed.

Theorem C15_dy_mul_prefix_refuted :
  exists I1 I2 x y, dwf I1 /\ dwf I2 /\ din x I1 /\ din y I2 /\ ~ din (x * y) (di_mul_prefix NoAlias fresh_d I1 I2).
Proof.
  exists (Iv (mkDy (-1) 0) false (mkDy 1 0) true), (Iv (mkDy (-1) 0) false (mkDy 1 0) true), (QofD (mkDy (-1) 0)), (QofD (mkDy (-1) 0)).
  split; [wf_tac|]. split; [wf_tac|]. split; [apply d_in; [wf_tac|wf_tac|reflexivity]|]. split; [apply d_in; [wf_tac|wf_tac|reflexivity]|].
  intros H. apply (d_not_in (di_mul_prefix NoAlias fresh_d (Iv (mkDy (-1) 0) false (mkDy 1 0) true) (Iv (mkDy (-1) 0) false (mkDy 1 0) true)) (mkDy 1 0)); [wf_tac|wf_tac|reflexivity|].
  eapply (Qin_compat QofD); [|exact H]. reflexivity.
Qed.

(* D3: [-1] * [0,1) = [-1,0) in the rational version: (-1)*0 = 0 is lost *)
Theorem C15_rat_mul_negative_point_prefix_refuted :
  exists I1 I2 x y, rwf I1 /\ rwf I2 /\ ipt I1 = true /\ rin x I1 /\ rin y I2 /\ ~ rin (x * y) (ri_mul_prefix NoAlias fresh_r I1 I2).
Proof.
  exists (gi_point rat_ops (rq (-1) 1)), (Iv (rq 0 1) false (rq 1 1) true), (QofR (rq (-1) 1)), (QofR (rq 0 1)).
  split; [wf_tac|]. split; [wf_tac|]. split; [reflexivity|]. split; [apply r_in; [wf_tac|wf_tac|reflexivity]|]. split; [apply r_in; [wf_tac|wf_tac|reflexivity]|].
  intros H. apply (r_not_in (ri_mul_prefix NoAlias fresh_r (gi_point rat_ops (rq (-1) 1)) (Iv (rq 0 1) false (rq 1 1) true)) (rq 0 1)); [wf_tac|wf_tac|reflexivity|].
  eapply (Qin_compat QofR); [|exact H]. reflexivity.
Qed.

(* D4: [0,1] * (1,2) = (0,2): 0 * (3/2) = 0 is lost (rational and dyadic) *)
Theorem C15_rat_mul_closed_zero_prefix_refuted :
  exists I1 I2 x y, rwf I1 /\ rwf I2 /\ rin x I1 /\ rin y I2 /\ ~ rin (x * y) (ri_mul_prefix NoAlias fresh_r I1 I2).
Proof.
  exists (Iv (rq 0 1) false (rq 1 1) false), (Iv (rq 1 1) true (rq 2 1) true), (QofR (rq 0 1)), (QofR (rq 3 2)).
  split; [wf_tac|]. split; [wf_tac|]. split; [apply r_in; [wf_tac|wf_tac|reflexivity]|]. split; [apply r_in; [wf_tac|wf_tac|reflexivity]|].
  intros H. apply (r_not_in (ri_mul_prefix NoAlias fresh_r (Iv (rq 0 1) false (rq 1 1) false) (Iv (rq 1 1) true (rq 2 1) true)) (rq 0 1)); [wf_tac|wf_tac|reflexivity|].
  eapply (Qin_compat QofR); [|exact H]. reflexivity.
Qed.
Theorem C15_dy_mul_closed_zero_prefix_refuted :
  exists I1 I2 x y, dwf I1 /\ dwf I2 /\ din x I1 /\ din y I2 /\ ~ din (x * y) (di_mul_prefix NoAlias fresh_d I1 I2).
Proof.
  exists (Iv (mkDy 0 0) false (mkDy 1 0) false), (Iv (mkDy 1 0) true (mkDy 2 0) true), (QofD (mkDy 0 0)), (QofD (mkDy 3 1)).
  split; [wf_tac|]. split; [wf_tac|]. split; [apply d_in; [wf_tac|wf_tac|reflexivity]|]. split; [apply d_in; [wf_tac|wf_tac|reflexivity]|].
  intros H. apply (d_not_in (di_mul_prefix NoAlias fresh_d (Iv (mkDy 0 0) false (mkDy 1 0) false) (Iv (mkDy 1 0) true (mkDy 2 0) true)) (mkDy 0 0)); [wf_tac|wf_tac|reflexivity|].
  eapply (Qin_compat QofD); [|exact H]. reflexivity.
Qed.

(* D2: (-1,1]^2 = [0,1): 1^2 = 1 is lost *)
Theorem C15_rat_pow_prefix_refuted :
  exists I x n, rwf I /\ rin x I /\ ~ rin (x ^ Z.of_N n) (ri_pow_prefix NoAlias fresh_r I n).
Proof.
  exists (Iv (rq (-1) 1) true (rq 1 1) false), (QofR (rq 1 1)), 2%N.
  split; [wf_tac|]. split; [apply r_in; [wf_tac|wf_tac|reflexivity]|].
  intros H. apply (r_not_in (ri_pow_prefix NoAlias fresh_r (Iv (rq (-1) 1) true (rq 1 1) false) 2) (rq 1 1)); [wf_tac|wf_tac|reflexivity|].
  eapply (Qin_compat QofR); [|exact H]. reflexivity.
Qed.
Theorem C15_dy_pow_prefix_refuted :
  exists I x n, dwf I /\ din x I /\ ~ din (x ^ Z.of_N n) (di_pow_prefix NoAlias fresh_d I n).
Proof.
  exists (Iv (mkDy (-1) 0) false (mkDy 1 0) true), (QofD (mkDy (-1) 0)), 2%N.
  split; [wf_tac|]. split; [apply d_in; [wf_tac|wf_tac|reflexivity]|].
  intros H. apply (d_not_in (di_pow_prefix NoAlias fresh_d (Iv (mkDy (-1) 0) false (mkDy 1 0) true) 2) (mkDy 1 0)); [wf_tac|wf_tac|reflexivity|].
  eapply (Qin_compat QofD); [|exact H]. reflexivity.
Qed.

(* D5: [-2,-1)^2 computed in place (P == I) is (1,4): (-2)^2 = 4 is lost; with a separate output it is (1,4] *)
Theorem C15_rat_pow_inplace_prefix_refuted :
  exists I x n, rwf I /\ rin x I /\ rin (x ^ Z.of_N n) (ri_pow_prefix NoAlias fresh_r I n) /\
                ~ rin (x ^ Z.of_N n) (ri_pow_prefix AliasA I I n).
Proof.
  exists (Iv (rq (-2) 1) false (rq (-1) 1) true), (QofR (rq (-2) 1)), 2%N.
  split; [wf_tac|]. split; [apply r_in; [wf_tac|wf_tac|reflexivity]|]. split.
  - eapply (Qin_compat QofR); [|apply (r_in _ (rq 4 1)); [wf_tac|wf_tac|reflexivity]]. reflexivity.
  - intros H. apply (r_not_in (ri_pow_prefix AliasA (Iv (rq (-2) 1) false (rq (-1) 1) true) (Iv (rq (-2) 1) false (rq (-1) 1) true) 2) (rq 4 1)); [wf_tac|wf_tac|reflexivity|].
    eapply (Qin_compat QofR); [|exact H]. reflexivity.
Qed.

(* D6: dyadic I^0 = [1/2] does not contain x^0 = 1 *)
Theorem C15_dy_pow_zero_prefix_refuted :
  exists I x, dwf I /\ din x I /\ ~ din (x ^ 0) (di_pow_prefix NoAlias fresh_d I 0).
Proof.
  exists (gi_point dy_ops (mkDy 3 0)), (QofD (mkDy 3 0)).
  split; [wf_tac|]. split; [apply d_in; [wf_tac|wf_tac|reflexivity]|].
  intros H. apply (d_not_in (di_pow_prefix NoAlias fresh_d (gi_point dy_ops (mkDy 3 0)) 0) (mkDy 1 0)); [wf_tac|wf_tac|reflexivity|].
  eapply (Qin_compat QofD); [|exact H]. reflexivity.
Qed.

(* D7: every call divides by zero *)
Theorem C15_rat_construct_from_int_prefix_refuted : forall a b, ri_construct_from_int_prefix a b = None.
Proof. intros a b. unfold ri_construct_from_int_prefix, q_from_int, q_canon. reflexivity. Qed.

(* value level, D1 and D2: the pinned functions, evaluated on [-1,1) (all ends integers) *)
Theorem C15_value_mul_prefix_refuted :
  let I := Iv (VInt (-1)) false (VInt 1) true in
  vi_contains I (VInt (-1)) = true /\ vi_contains (vi_mul_gen_prefix I I) (VInt ((-1) * (-1))) = false.
Proof. vm_compute. split; reflexivity. Qed.
Theorem C15_value_pow_prefix_refuted :
  let I := Iv (VInt (-1)) false (VInt 1) true in
  vi_sgn I = 0%Z /\ vi_contains I (VInt (-1)) = true /\ vi_contains (vi_pow_even_zero_prefix I 2) (VInt ((-1) ^ 2)) = false.
Proof. vm_compute. repeat split; reflexivity. Qed.
