(* C09: the ACCEPTANCE TESTS of the model driver (ocaml/p_c09.ml) as Gallina functions.  Executable, stdlib only, no
   proofs here (RefineCheckProofs.v proves that whatever these tests accept is right, in every real closed field).

   The driver replays a history of libpoly calls on a REFERENCE POOL of immutable reference numbers (RefAlg.rnum) and,
   step by step, hands to `check_step`
     - the operation,
     - what libpoly answered (the observation),
     - the raw representations libpoly holds for all slots after the step (each read as an rnum: RQ for a rational /
       a point, RA f lo hi for a proper algebraic number), when they were printed.
   `check_step` accepts iff the observation is the reference answer and every printed representation is a valid one that
   denotes the same real as the reference number of its slot.

   The three expensive reference functions enter as PARAMETERS (sn, cmpf, flf) so that the driver can pass memoised
   closures; the soundness theorem only needs: whenever the closure answers, the Gallina function gives that answer
   (sn r x = true -> same_number fuel r x = true, ...).  With the Gallina functions themselves the premise is trivial. *)
From Coq Require Import ZArith NArith List Bool.
From LP Require Import Scalar UPoly MPoly RefAlg Refine.
Import ListNotations.
Local Open Scope Z_scope.

(* ---------------------------------------------------------------- one representation against one reference number *)
Definition opt_is (o : option Z) (c : Z) : bool := match o with Some s => s =? c | None => false end.

(* r (read from libpoly) is a valid representation and denotes the same real as the reference number x *)
Definition same_number (fuel : nat) (r x : rnum) : bool :=
  rn_valid r && opt_is (rn_cmp fuel (rn_norm r) x) 0.

(* the representation of the state machine of Refine.v as the driver reads it: dyadic end points as rationals *)
Definition dq (d : dyq) : Z * Z := (fst d, p2 (snd d)).
Definition anum_rn (x : anum) : rnum :=
  match af x with
  | None => RQ (dq (aa x))
  | Some l => RA l (dq (aa x)) (dq (ab x))
  end.

(* ---------------------------------------------------------------- operations, observations, printed steps *)
Inductive cop :=
| CCmp (i j : nat)                 (* lp_value_cmp / lp_algebraic_number_cmp: sign of slot i - slot j *)
| CCmpQ (i : nat) (q : Z * Z)      (* cmp_integer / cmp_dyadic_rational / cmp_rational, lp_value_cmp_rational *)
| CSgn (i : nat)
| CFloor (i : nat)
| CCeil (i : nat)
| CIsInt (i : nat)
| CTouch                           (* any other const call (refine, hash, to_double, midpoint, root isolation, the end of
                                      a battery): nothing mathematical is observed, but the slots are re-read *)
| CAdd (d i j : nat) | CSub (d i j : nat) | CMul (d i j : nat) | CDiv (d i j : nat)
| CNeg (d i : nat) | CInv (d i : nat) | CCopy (d i : nat)
| CPSgn (p : mpoly)                (* lp_polynomial_sgn under the assignment x_k := slot k *)
| CPEval (p : mpoly).              (* lp_polynomial_evaluate *)

Inductive cobs := BNone | BInt (z : Z) | BBool (b : bool) | BNum (r : rnum).

Record citem := mkItem { it_op : cop; it_obs : cobs; it_reps : option (list rnum) }.

Definition cop_is_query (o : cop) : bool :=
  match o with
  | CCmp _ _ | CCmpQ _ _ | CSgn _ | CFloor _ | CCeil _ | CIsInt _ | CTouch | CPSgn _ | CPEval _ => true
  | _ => false
  end.

Definition zero_rn : rnum := RQ (0, 1).
Definition rho_of (pool : list rnum) (v : var) : rnum := nth (N.to_nat v) pool zero_rn.

Fixpoint upd (pool : list rnum) (d : nat) (x : rnum) : list rnum :=
  match pool, d with
  | [], _ => []
  | _ :: t, O => x :: t
  | h :: t, S d' => h :: upd t d' x
  end.

Definition qposb (q : Z * Z) : bool := 0 <? snd q.

Section Checker.
Variable sn : rnum -> rnum -> bool.                 (* same_number fuel, possibly memoised *)
Variable cmpf : rnum -> rnum -> option Z.           (* rn_cmp fuel *)
Variable flf : rnum -> option Z.                    (* rn_floor fuel *)
Variable fuel : nat.

(* the observation is the reference answer *)
Definition check_obs (pool : list rnum) (o : cop) (b : cobs) : bool :=
  match o, b with
  | CCmp i j, BInt c =>
    match nth_error pool i, nth_error pool j with
    | Some x, Some y => opt_is (cmpf x y) c
    | _, _ => false
    end
  | CCmpQ i q, BInt c =>
    match nth_error pool i with Some x => qposb q && (rn_cmp_q x q =? c) | None => false end
  | CSgn i, BInt c =>
    match nth_error pool i with Some x => rn_sgn x =? c | None => false end
  | CFloor i, BInt z =>
    match nth_error pool i with Some x => opt_is (flf x) z | None => false end
  | CCeil i, BInt z =>
    match nth_error pool i with Some x => opt_is (rn_ceiling fuel x) z | None => false end
  | CIsInt i, BBool v =>
    match nth_error pool i with
    | Some x => match rn_is_integer fuel x with Some w => Bool.eqb w v | None => false end
    | None => false
    end
  | CPSgn p, BInt c =>
    match mp_eval_rn fuel (rho_of pool) p with Some z => rn_sgn z =? c | None => false end
  | CPEval p, BNum r =>
    match mp_eval_rn fuel (rho_of pool) p with Some z => sn r z | None => false end
  | CTouch, BNone => true
  | CAdd _ _ _, BNone | CSub _ _ _, BNone | CMul _ _ _, BNone | CDiv _ _ _, BNone
  | CNeg _ _, BNone | CInv _ _, BNone | CCopy _ _, BNone => true
  | _, _ => false
  end.

(* the reference pool after the operation: queries leave it alone, arithmetic stores the reference result *)
Definition bin (f : nat -> rnum -> rnum -> option rnum) (pool : list rnum) (d i j : nat) : option (list rnum) :=
  match nth_error pool i, nth_error pool j with
  | Some x, Some y =>
    if Nat.ltb d (length pool) then
      match f fuel x y with Some z => Some (upd pool d z) | None => None end
    else None
  | _, _ => None
  end.

Definition next_pool (pool : list rnum) (o : cop) : option (list rnum) :=
  match o with
  | CAdd d i j => bin rn_add pool d i j
  | CSub d i j => bin rn_sub pool d i j
  | CMul d i j => bin rn_mul pool d i j
  | CDiv d i j => bin rn_div pool d i j
  | CNeg d i =>
    match nth_error pool i with
    | Some x => if Nat.ltb d (length pool) then Some (upd pool d (rn_neg x)) else None
    | None => None
    end
  | CInv d i =>
    match nth_error pool i with
    | Some x => if Nat.ltb d (length pool) then
                  match rn_inv fuel x with Some z => Some (upd pool d z) | None => None end
                else None
    | None => None
    end
  | CCopy d i =>
    match nth_error pool i with
    | Some x => if Nat.ltb d (length pool) then Some (upd pool d x) else None
    | None => None
    end
  | _ => Some pool
  end.

Fixpoint all2sn (rs pool : list rnum) : bool :=
  match rs, pool with
  | [], [] => true
  | r :: rs', x :: pool' => sn r x && all2sn rs' pool'
  | _, _ => false
  end.

(* one printed step: Some (the new reference pool) iff accepted *)
Definition check_step (pool : list rnum) (it : citem) : option (list rnum) :=
  if check_obs pool (it_op it) (it_obs it) then
    match next_pool pool (it_op it) with
    | Some pool' =>
      match it_reps it with
      | None => Some pool'
      | Some rs => if all2sn rs pool' then Some pool' else None
      end
    | None => None
    end
  else None.

Fixpoint check_run (pool : list rnum) (items : list citem) : bool :=
  match items with
  | [] => true
  | it :: rest =>
    match check_step pool it with
    | Some pool' => check_run pool' rest
    | None => false
    end
  end.
End Checker.

(* the checker with the Gallina reference functions themselves *)
Definition check_step_ref (fuel : nat) := check_step (same_number fuel) (rn_cmp fuel) (rn_floor fuel) fuel.
Definition check_run_ref (fuel : nat) := check_run (same_number fuel) (rn_cmp fuel) (rn_floor fuel) fuel.
