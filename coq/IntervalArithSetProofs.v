(* C15, the rest of the interval API (interval.c): intersection, disjointness, equality, comparison with a
   number, collapse_to / set_a / set_b, split.  Lemmas against the membership predicate Qin of
   IntervalArithProofs.v.  Only the comparison of the scalar layer is needed. *)
From Coq Require Import ZArith List Bool Lia Lqa QArith Qfield.
From LP Require Import Scalar ScalarProofs IntervalArith IntervalArithProofs.
Local Open Scope Q_scope.
Set Warnings "-unused-intro-pattern".

Section SetProofs.
Context {T : Type} (O : sops T) (den : T -> Q) (wfT : T -> Prop).
Hypothesis H_zero : wfT (s_zero O).
Hypothesis H_cmp : forall a b, wfT a -> wfT b -> Z.sgn (s_cmp O a b) = cmp_to_Z (den a ?= den b).

Notation Qin := (Qin den).
Notation iwf := (iwf O wfT).

(* non-point intervals are ordered (asserted by every constructor) *)
Definition iord (I : itv T) : Prop := ipt I = false -> den (ia I) < den (ib I).

Lemma cmp3 a b : wfT a -> wfT b ->
  ((s_cmp O a b < 0)%Z /\ den a < den b) \/ (s_cmp O a b = 0%Z /\ den a == den b) \/ ((0 < s_cmp O a b)%Z /\ den b < den a).
Proof.
  intros Ha Hb. pose proof (H_cmp a b Ha Hb) as H.
  destruct (Qcompare_spec (den a) (den b)); cbn in H; [right; left|left|right; right]; split; try assumption; lia.
Qed.

(* decide the integer tests of the model once the comparison outcome is known *)
Ltac zt :=
  repeat match goal with
         | H : (?c < 0)%Z |- context [(?c <? 0)%Z] => rewrite (proj2 (Z.ltb_lt c 0) H)
         | H : (?c < 0)%Z |- context [(?c =? 0)%Z] => rewrite (proj2 (Z.eqb_neq c 0) ltac:(lia))
         | H : (?c < 0)%Z |- context [(0 <? ?c)%Z] => rewrite (proj2 (Z.ltb_ge 0 c) ltac:(lia))
         | H : (?c < 0)%Z |- context [(0 <=? ?c)%Z] => rewrite (proj2 (Z.leb_gt 0 c) ltac:(lia))
         | H : (0 < ?c)%Z |- context [(?c <? 0)%Z] => rewrite (proj2 (Z.ltb_ge c 0) ltac:(lia))
         | H : (0 < ?c)%Z |- context [(?c =? 0)%Z] => rewrite (proj2 (Z.eqb_neq c 0) ltac:(lia))
         | H : (0 < ?c)%Z |- context [(0 <? ?c)%Z] => rewrite (proj2 (Z.ltb_lt 0 c) H)
         | H : (0 < ?c)%Z |- context [(0 <=? ?c)%Z] => rewrite (proj2 (Z.leb_le 0 c) ltac:(lia))
         | H : ?c = 0%Z |- context [?c] => rewrite H
         end; cbn [Z.ltb Z.eqb Z.leb Z.compare negb andb orb].

(* finishing tactic for goals about membership with concrete flags *)
Ltac qfin :=
  cbn in *;
  repeat match goal with
         | H : _ /\ _ |- _ => destruct H
         | H : _ \/ _ |- _ => destruct H
         | H : true = false |- _ => discriminate H
         | H : false = true |- _ => discriminate H
         | H : Some _ = None |- _ => discriminate H
         | H : None = Some _ |- _ => discriminate H
         end;
  try lra;
  repeat match goal with |- _ /\ _ => split end;
  try reflexivity; try lra;
  try (left; lra); try (right; split; [lra|first [reflexivity|assumption]]).

Lemma contains_spec I q : iwf I -> wfT q -> (gi_contains O I q = true <-> Qin (den q) I).
Proof.
  intros (A & B & _) Wq. unfold IntervalArithProofs.Qin, gi_contains. destruct (ipt I).
  - destruct (cmp3 (ia I) q A Wq) as [[Es Ev]|[[Es Ev]|[Es Ev]]]; zt; split; intros H; try discriminate; try reflexivity; try lra.
  - destruct (cmp3 (ia I) q A Wq) as [[Es Ev]|[[Es Ev]|[Es Ev]]];
    destruct (cmp3 q (ib I) Wq B) as [[Fs Fv]|[[Fs Fv]|[Fs Fv]]];
    destruct (ia_open I), (ib_open I); zt; split; intros H; try discriminate; try reflexivity; qfin.
Qed.

(* ---- lp_dyadic_interval_disjoint *)
Lemma gi_disjoint_sound I1 I2 z : iwf I1 -> iwf I2 -> gi_disjoint O I1 I2 = true -> Qin z I1 -> Qin z I2 -> False.
Proof.
  intros W1 W2. pose proof W1 as (A1 & B1 & _). pose proof W2 as (A2 & B2 & _).
  unfold gi_disjoint. destruct (ipt I1) eqn:P1.
  - intros H H1 H2. apply negb_true_iff in H. unfold IntervalArithProofs.Qin in H1. rewrite P1 in H1.
    assert (Hc : gi_contains O I2 (ia I1) = true) by (apply contains_spec; [assumption|assumption|]; eapply Qin_compat; [symmetry; exact H1|exact H2]).
    congruence.
  - destruct (ipt I2) eqn:P2.
    + intros H H1 H2. apply negb_true_iff in H. unfold IntervalArithProofs.Qin in H2. rewrite P2 in H2.
      assert (Hc : gi_contains O I1 (ia I2) = true) by (apply contains_spec; [assumption|assumption|]; eapply Qin_compat; [symmetry; exact H2|exact H1]).
      congruence.
    + unfold IntervalArithProofs.Qin. rewrite P1, P2.
      destruct (cmp3 (ib I1) (ia I2) B1 A2) as [[Es Ev]|[[Es Ev]|[Es Ev]]];
      destruct (cmp3 (ib I2) (ia I1) B2 A1) as [[Fs Fv]|[[Fs Fv]|[Fs Fv]]];
      destruct (ia_open I1), (ib_open I1), (ia_open I2), (ib_open I2); zt; intros H H1 H2; try discriminate; qfin.
Qed.

Lemma gi_disjoint_complete I1 I2 : iwf I1 -> iwf I2 -> iord I1 -> iord I2 ->
  gi_disjoint O I1 I2 = false -> exists z, Qin z I1 /\ Qin z I2.
Proof.
  intros W1 W2 O1 O2. pose proof W1 as (A1 & B1 & _). pose proof W2 as (A2 & B2 & _).
  unfold gi_disjoint, iord in *. destruct (ipt I1) eqn:P1.
  - intros H. apply negb_false_iff in H. apply contains_spec in H; try assumption.
    exists (den (ia I1)). split; [unfold IntervalArithProofs.Qin; rewrite P1; reflexivity|exact H].
  - destruct (ipt I2) eqn:P2.
    + intros H. apply negb_false_iff in H. apply contains_spec in H; try assumption.
      exists (den (ia I2)). split; [exact H|unfold IntervalArithProofs.Qin; rewrite P2; reflexivity].
    + specialize (O1 eq_refl). specialize (O2 eq_refl).
      unfold IntervalArithProofs.Qin. rewrite P1, P2.
      set (a1 := den (ia I1)) in *. set (b1 := den (ib I1)) in *. set (a2 := den (ia I2)) in *. set (b2 := den (ib I2)) in *.
      destruct (cmp3 (ib I1) (ia I2) B1 A2) as [[Es Ev]|[[Es Ev]|[Es Ev]]];
      destruct (cmp3 (ib I2) (ia I1) B2 A1) as [[Fs Fv]|[[Fs Fv]|[Fs Fv]]];
      fold a1 b1 a2 b2 in Ev, Fv;
      destruct (ia_open I1), (ib_open I1), (ia_open I2), (ib_open I2); zt; intros H; try discriminate; try (exfalso; lra);
      (* touching at a closed end, or a proper overlap *)
      first [ exists b1; qfin; fail
            | exists b2; qfin; fail
            | destruct (Qlt_le_dec a1 a2); destruct (Qlt_le_dec b1 b2);
              first [ exists ((a2 + b1) * (1 # 2)); qfin; fail
                    | exists ((a2 + b2) * (1 # 2)); qfin; fail
                    | exists ((a1 + b1) * (1 # 2)); qfin; fail
                    | exists ((a1 + b2) * (1 # 2)); qfin; fail ] ].
Qed.

(* ---- lp_dyadic_interval_construct (used by intersection, split) *)
Lemma gi_construct_spec a ao b bo J : wfT a -> wfT b -> gi_construct O a ao b bo = Some J ->
  iwf J /\ forall z, Qin z J <-> (den a < z \/ (den a == z /\ ao = false)) /\ (z < den b \/ (z == den b /\ bo = false)).
Proof.
  intros Wa Wb. unfold gi_construct, gi_point.
  destruct (cmp3 a b Wa Wb) as [[Es Ev]|[[Es Ev]|[Es Ev]]]; zt.
  - intros H. injection H as <-. split; [repeat split; try assumption; cbn; discriminate|].
    intros z. unfold IntervalArithProofs.Qin. cbn. tauto.
  - destruct ao, bo; cbn; intros H; try discriminate. injection H as <-.
    split; [repeat split; try assumption; reflexivity|].
    intros z. unfold IntervalArithProofs.Qin. cbn. split; intros Hz; qfin.
  - discriminate.
Qed.

(* ---- lp_dyadic_interval_construct_intersection *)
Lemma gi_intersection_spec I1 I2 J : iwf I1 -> iwf I2 -> gi_intersection O I1 I2 = Some J ->
  iwf J /\ forall z, Qin z J <-> Qin z I1 /\ Qin z I2.
Proof.
  intros W1 W2. pose proof W1 as (A1 & B1 & _). pose proof W2 as (A2 & B2 & _).
  unfold gi_intersection. destruct (ipt I1) eqn:P1.
  - destruct (gi_contains O I2 (ia I1)) eqn:Hc; [|discriminate]. intros H. injection H as <-. split; [assumption|].
    apply contains_spec in Hc; try assumption. intros z. unfold IntervalArithProofs.Qin at 1 2. rewrite P1. split.
    + intros Hz. split; [assumption|]. eapply Qin_compat; [exact Hz|exact Hc].
    + tauto.
  - destruct (ipt I2) eqn:P2.
    + destruct (gi_contains O I1 (ia I2)) eqn:Hc; [|discriminate]. intros H. injection H as <-. split; [assumption|].
      apply contains_spec in Hc; try assumption. intros z. unfold IntervalArithProofs.Qin at 1 3. rewrite P2. split.
      * intros Hz. split; [|assumption]. eapply Qin_compat; [exact Hz|exact Hc].
      * tauto.
    + intros H.
      assert (Wmax : wfT (if (s_cmp O (ia I1) (ia I2) <? 0)%Z then ia I2 else ia I1)) by (destruct (s_cmp O (ia I1) (ia I2) <? 0)%Z; assumption).
      assert (Wmin : wfT (if (s_cmp O (ib I1) (ib I2) <? 0)%Z then ib I1 else ib I2)) by (destruct (s_cmp O (ib I1) (ib I2) <? 0)%Z; assumption).
      destruct (gi_construct_spec _ _ _ _ _ Wmax Wmin H) as [WJ HJ]. split; [exact WJ|].
      intros z. rewrite HJ. unfold IntervalArithProofs.Qin. rewrite P1, P2. clear H HJ WJ Wmax Wmin.
      destruct (cmp3 (ia I1) (ia I2) A1 A2) as [[Es Ev]|[[Es Ev]|[Es Ev]]];
      destruct (cmp3 (ib I1) (ib I2) B1 B2) as [[Fs Fv]|[[Fs Fv]|[Fs Fv]]];
      destruct (ia_open I1), (ib_open I1), (ia_open I2), (ib_open I2); zt; split; intros Hz; qfin.
Qed.

(* ---- lp_dyadic_interval_equals *)
Lemma gi_equals_sound I1 I2 z : iwf I1 -> iwf I2 -> gi_equals O I1 I2 = true -> (Qin z I1 <-> Qin z I2).
Proof.
  intros (A1 & B1 & _) (A2 & B2 & _). unfold gi_equals, IntervalArithProofs.Qin.
  destruct (ipt I1), (ipt I2); cbn; try discriminate.
  - destruct (cmp3 (ia I1) (ia I2) A1 A2) as [[Es Ev]|[[Es Ev]|[Es Ev]]]; zt; intros H; try discriminate. rewrite Ev. tauto.
  - destruct (cmp3 (ia I1) (ia I2) A1 A2) as [[Es Ev]|[[Es Ev]|[Es Ev]]];
    destruct (cmp3 (ib I1) (ib I2) B1 B2) as [[Fs Fv]|[[Fs Fv]|[Fs Fv]]];
    destruct (ia_open I1), (ib_open I1), (ia_open I2), (ib_open I2); zt; intros H; try discriminate; rewrite Ev, Fv; tauto.
Qed.

(* ---- lp_dyadic_interval_cmp_integer / _dyadic_rational / _rational *)
Lemma gi_cmp_elem_spec (cmpf : T -> Z) (x : Q) I : iwf I -> iord I ->
  (forall e, wfT e -> Z.sgn (cmpf e) = cmp_to_Z (den e ?= x)) ->
  (gi_cmp_elem cmpf I = 0%Z <-> Qin x I) /\
  ((0 < gi_cmp_elem cmpf I)%Z -> forall z, Qin z I -> x < z) /\
  ((gi_cmp_elem cmpf I < 0)%Z -> forall z, Qin z I -> z < x).
Proof.
  intros (A & B & _) Ho Hc. unfold iord in Ho.
  assert (C3 : forall e, wfT e -> ((cmpf e < 0)%Z /\ den e < x) \/ (cmpf e = 0%Z /\ den e == x) \/ ((0 < cmpf e)%Z /\ x < den e)).
  { intros e We. pose proof (Hc e We) as H. destruct (Qcompare_spec (den e) x); cbn in H; [right; left|left|right; right]; split; try assumption; lia. }
  unfold gi_cmp_elem, IntervalArithProofs.Qin. destruct (ipt I).
  - destruct (C3 _ A) as [[Es Ev]|[[Es Ev]|[Es Ev]]]; repeat split; intros; try lia; try lra.
  - specialize (Ho eq_refl).
    destruct (C3 _ A) as [[Es Ev]|[[Es Ev]|[Es Ev]]]; destruct (C3 _ B) as [[Fs Fv]|[[Fs Fv]|[Fs Fv]]];
    destruct (ia_open I), (ib_open I); zt; repeat split; intros; try lia; qfin.
Qed.

(* ---- lp_dyadic_interval_collapse_to / _set_a / _set_b *)
Lemma gi_collapse_to_spec I q z : Qin z (gi_collapse_to O I q) <-> den q == z.
Proof. unfold gi_collapse_to, IntervalArithProofs.Qin. destruct I as [a b ao bo p]; destruct p; cbn; reflexivity. Qed.

Definition upper_of (I : itv T) (z : Q) : Prop :=
  if ipt I then z <= den (ia I) else (z < den (ib I) \/ (z == den (ib I) /\ ib_open I = false)).
Definition lower_of (I : itv T) (z : Q) : Prop :=
  if ipt I then den (ia I) <= z else (den (ia I) < z \/ (den (ia I) == z /\ ia_open I = false)).

Lemma gi_set_a_spec I a ao J z : iwf I -> wfT a -> (ipt I = true -> den a == den (ia I) -> ao = false) ->
  gi_set_a O I a ao = Some J ->
  (Qin z J <-> (den a < z \/ (den a == z /\ ao = false)) /\ upper_of I z).
Proof.
  intros (A & B & _) Wa Hpt. unfold gi_set_a, upper_of, gi_collapse_to, IntervalArithProofs.Qin. destruct (ipt I) eqn:P.
  - specialize (Hpt eq_refl).
    destruct (cmp3 a (ia I) Wa A) as [[Es Ev]|[[Es Ev]|[Es Ev]]]; zt; intros H; try discriminate; injection H as <-; cbn; rewrite ?P;
      try (rewrite (Hpt Ev)); try destruct ao; split; intros Hz; qfin.
  - destruct (cmp3 a (ib I) Wa B) as [[Es Ev]|[[Es Ev]|[Es Ev]]]; zt; try discriminate.
    + intros H. injection H as <-. cbn. rewrite P. tauto.
    + destruct ao, (ib_open I); cbn; intros H; try discriminate. injection H as <-. cbn. rewrite ?P. cbn. split; intros Hz; qfin.
Qed.

Lemma gi_set_b_spec I b bo J z : iwf I -> wfT b -> gi_set_b O I b bo = Some J ->
  (Qin z J <-> lower_of I z /\ (z < den b \/ (z == den b /\ bo = false))).
Proof.
  intros (A & B & Pk) Wb. unfold gi_set_b, lower_of, gi_collapse_to, IntervalArithProofs.Qin.
  destruct (cmp3 (ia I) b A Wb) as [[Es Ev]|[[Es Ev]|[Es Ev]]]; zt; try discriminate.
  - intros H. injection H as <-. destruct (ipt I) eqn:P; cbn.
    + destruct (Pk P) as (Pa & _). rewrite Pa. split; intros Hz; qfin.
    + rewrite P. tauto.
  - destruct (ia_open I) eqn:Ao, bo; cbn; intros H; try discriminate. injection H as <-.
    destruct (ipt I) eqn:P; cbn; rewrite ?P; cbn; split; intros Hz; qfin.
Qed.
End SetProofs.

(* ================================================================== the dyadic instance *)
Definition dord := iord QofD.

Lemma dy_H_zero_wf : dy_wf (s_zero dy_ops). Proof. exact (proj1 dy_H_zero). Qed.

Lemma di_disjoint_sound I1 I2 z : dwf I1 -> dwf I2 -> di_disjoint I1 I2 = true -> din z I1 -> din z I2 -> False.
Proof. apply (gi_disjoint_sound dy_ops QofD dy_wf dy_H_cmp). Qed.
Lemma di_disjoint_complete I1 I2 : dwf I1 -> dwf I2 -> dord I1 -> dord I2 ->
  di_disjoint I1 I2 = false -> exists z, din z I1 /\ din z I2.
Proof. apply (gi_disjoint_complete dy_ops QofD dy_wf dy_H_cmp). Qed.
Lemma di_intersection_spec I1 I2 J : dwf I1 -> dwf I2 -> di_intersection I1 I2 = Some J ->
  dwf J /\ forall z, din z J <-> din z I1 /\ din z I2.
Proof. apply (gi_intersection_spec dy_ops QofD dy_wf dy_H_zero_wf dy_H_cmp). Qed.
Lemma di_equals_sound I1 I2 z : dwf I1 -> dwf I2 -> di_equals I1 I2 = true -> (din z I1 <-> din z I2).
Proof. apply (gi_equals_sound dy_ops QofD dy_wf dy_H_cmp). Qed.
Lemma di_set_a_spec I a ao J z : dwf I -> dy_wf a -> (ipt I = true -> QofD a == QofD (ia I) -> ao = false) ->
  di_set_a I a ao = Some J ->
  (din z J <-> (QofD a < z \/ (QofD a == z /\ ao = false)) /\ upper_of QofD I z).
Proof. apply (gi_set_a_spec dy_ops QofD dy_wf dy_H_cmp). Qed.
Lemma di_set_b_spec I b bo J z : dwf I -> dy_wf b -> di_set_b I b bo = Some J ->
  (din z J <-> lower_of QofD I z /\ (z < QofD b \/ (z == QofD b /\ bo = false))).
Proof. apply (gi_set_b_spec dy_ops QofD dy_wf dy_H_cmp). Qed.
Lemma di_collapse_to_spec I q z : din z (di_collapse_to I q) <-> QofD q == z.
Proof. apply (gi_collapse_to_spec dy_ops QofD). Qed.

(* comparison of a dyadic interval with an integer, a dyadic, a rational *)
Lemma di_cmp_dyadic_spec I q : dwf I -> dord I -> dy_wf q ->
  (di_cmp_dyadic I q = 0%Z <-> din (QofD q) I) /\
  ((0 < di_cmp_dyadic I q)%Z -> forall z, din z I -> QofD q < z) /\
  ((di_cmp_dyadic I q < 0)%Z -> forall z, din z I -> z < QofD q).
Proof.
  intros W Wo Wq. eapply (gi_cmp_elem_spec dy_ops QofD dy_wf); try exact W; try exact Wo; try exact dy_H_cmp; try exact dy_H_zero_wf.
  intros e _. apply dy_cmp_spec.
Qed.
Lemma di_cmp_integer_spec I k : dwf I -> dord I ->
  (di_cmp_integer I k = 0%Z <-> din (inject_Z k) I) /\
  ((0 < di_cmp_integer I k)%Z -> forall z, din z I -> inject_Z k < z) /\
  ((di_cmp_integer I k < 0)%Z -> forall z, din z I -> z < inject_Z k).
Proof.
  intros W Wo. eapply (gi_cmp_elem_spec dy_ops QofD dy_wf); try exact W; try exact Wo; try exact dy_H_cmp; try exact dy_H_zero_wf.
  intros e _. unfold dy_cmp_integer. rewrite dy_cmp_spec. destruct (dy_from_integer_spec k) as [_ E]. rewrite E. reflexivity.
Qed.
Lemma di_cmp_rational_spec I q : dwf I -> dord I -> q_wf q ->
  (di_cmp_rational I q = 0%Z <-> din (QofR q) I) /\
  ((0 < di_cmp_rational I q)%Z -> forall z, din z I -> QofR q < z) /\
  ((di_cmp_rational I q < 0)%Z -> forall z, din z I -> z < QofR q).
Proof.
  intros W Wo Wq. eapply (gi_cmp_elem_spec dy_ops QofD dy_wf); try exact W; try exact Wo; try exact dy_H_cmp; try exact dy_H_zero_wf.
  intros e _. rewrite Z.sgn_opp, (q_cmp_dyadic_spec q e Wq), sgn_cmp_to_Z, cmp_to_Z_opp, Qcompare_antisym. reflexivity.
Qed.

(* lp_dyadic_interval_construct_from_split: the two halves cover I except possibly the mid point (when both
   split flags are open), and add nothing *)
Lemma di_from_split_spec I lo ro L R : dwf I -> dord I -> di_from_split I lo ro = Some (L, R) ->
  let m := (QofD (ia I) + QofD (ib I)) * (1 # 2) in
  dwf L /\ dwf R /\
  forall z, ((din z L \/ din z R) -> din z I) /\
            (din z I -> din z L \/ din z R \/ (z == m /\ lo = true /\ ro = true)).
Proof.
  intros (A & B & Pk) Ho. unfold di_from_split. destruct (ipt I) eqn:P; [discriminate|]. specialize (Ho P). cbn in Ho.
  set (m0 := dy_add NoAlias dy0 (ia I) (ib I)).
  set (md := dy_div_2exp AliasA m0 m0 1).
  assert (Wm : dy_wf md /\ QofD md == (QofD (ia I) + QofD (ib I)) * (1 # 2)).
  { unfold md. rewrite dy_div_2exp_dst by reflexivity. destruct (dy_div_2exp_spec m0 1) as [W E]. split; [exact W|].
    rewrite E. unfold m0. destruct (dy_H_add (ia I) (ib I) A B) as [_ E']. cbn in E'. rewrite E'.
    change (inject_Z (pow2 1)) with 2. field. }
  destruct Wm as [Wm Em].
  destruct (di_construct (ia I) (ia_open I) md lo) as [l|] eqn:El; [|discriminate].
  destruct (di_construct md ro (ib I) (ib_open I)) as [r|] eqn:Er; [|discriminate].
  intros H. injection H as <- <-. cbn zeta.
  destruct (gi_construct_spec dy_ops QofD dy_wf dy_H_zero_wf dy_H_cmp _ _ _ _ _ A Wm El) as [WL HL].
  destruct (gi_construct_spec dy_ops QofD dy_wf dy_H_zero_wf dy_H_cmp _ _ _ _ _ Wm B Er) as [WR HR].
  split; [exact WL|]. split; [exact WR|].
  intros z. fold din in HL, HR. unfold din in *. rewrite (HL z), (HR z). unfold IntervalArithProofs.Qin. rewrite P.
  rewrite Em in *. set (a := QofD (ia I)) in *. set (b := QofD (ib I)) in *.
  destruct lo, ro, (ia_open I), (ib_open I); split; intros Hz;
    repeat match goal with
           | H : _ /\ _ |- _ => destruct H
           | H : _ \/ _ |- _ => destruct H
           | H : true = false |- _ => discriminate H
           end;
    try (split; first [left; lra|right; split; [lra|reflexivity]]);
    destruct (Qcompare_spec z ((a + b) * (1 # 2)));
    first [ left; split; first [left; lra|right; split; [lra|reflexivity]]; first [left; lra|right; split; [lra|reflexivity]]
          | right; left; split; first [left; lra|right; split; [lra|reflexivity]]; first [left; lra|right; split; [lra|reflexivity]]
          | right; right; repeat split; try reflexivity; lra ].
Qed.
