(* Fermat's little theorem for the standard library's Z and Znumtheory.prime, obtained from MathComp's
   `fermat_little` (ssreflect/binomial.v) through mathcomp.zify.  The ONLY file of the C14 development
   that loads MathComp; it exports one statement in pure standard-library terms (fermat_Z). *)
From mathcomp Require Import all_ssreflect zify.
From Coq Require Import ZArith Znumtheory Lia Zpow_facts.
Set Warnings "-notation-overridden".
Ltac Zify.zify_post_hook ::= Z.div_mod_to_equations.

Lemma prime_Z_nat (p : Z) : Znumtheory.prime p -> prime.prime (Z.to_nat p).
Proof.
  move=> Hp. have H1 := prime_ge_2 p Hp.
  apply/primeP; split; first by lia.
  move=> d /dvdnP [k Hk].
  have Hd : (Z.of_nat d | p)%Z.
  { exists (Z.of_nat k). lia. }
  case: (prime_divisors p Hp _ Hd) => [H|[H|[H|H]]]; apply/orP; [lia|left|right|lia]; apply/eqP; lia.
Qed.

Lemma fermat_nat (b n : nat) : prime.prime n ->
  (Z.of_nat b ^ Z.of_nat n mod Z.of_nat n = Z.of_nat b mod Z.of_nat n)%Z.
Proof.
  move=> Hn. have Hf := fermat_little b Hn.
  have H0 : (0 < n)%nat by exact: prime_gt0.
  have Hle : (b <= expn b n)%nat.
  { case: b {Hf} => [|b] //. have := @leq_pexp2l b.+1 1 n isT H0. by rewrite expn1. }
  move/eqP: Hf. rewrite eqn_mod_dvd //. move/dvdnP => [k Hk].
  have -> : (Z.of_nat b ^ Z.of_nat n = Z.of_nat b + Z.of_nat k * Z.of_nat n)%Z by lia.
  by rewrite Z_mod_plus_full.
Qed.

Lemma fermat_Z (p a : Z) : Znumtheory.prime p -> ((a ^ p) mod p = a mod p)%Z.
Proof.
  move=> Hp. have H1 := prime_ge_2 p Hp.
  have Hn := prime_Z_nat p Hp.
  rewrite Zpower_mod; last by lia.
  rewrite -[in RHS](Z.mod_mod a p); last by lia.
  have Hb : (0 <= a mod p < p)%Z by apply Z.mod_pos_bound; lia.
  move: (a mod p)%Z Hb => b Hb.
  rewrite -(Z2Nat.id b); last by lia.
  rewrite -(Z2Nat.id p); last by lia.
  exact: fermat_nat.
Qed.
