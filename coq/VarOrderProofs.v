(* C18 proofs, part 1: the variable order is a strict total order; the order check is the structural invariant. *)
From Coq Require Import ZArith NArith List Bool Lia.
From LP Require Import MPoly VarOrder.
Import ListNotations.
Local Open Scope Z_scope.

(* ------------------------------------------------------------------------------------------------ *)
(* lp_variable_list_index *)
Lemma index_from_range : forall l x i, index_from l x i = -1 \/ i <= index_from l x i.
Proof.
  induction l as [|y l IH]; intros x i; cbn [index_from]; [now left|].
  destruct (N.eqb x y); [right; lia|]. destruct (IH x (i + 1)) as [H|H]; [now left|right; lia].
Qed.

Lemma index_from_inj : forall l x y i, 0 <= i ->
  index_from l x i = index_from l y i -> index_from l x i <> -1 -> x = y.
Proof.
  induction l as [|z l IH]; intros x y i Hi He Hn; cbn [index_from] in *; [congruence|].
  destruct (N.eqb_spec x z) as [->|Hxz]; destruct (N.eqb_spec y z) as [->|Hyz]; auto.
  - destruct (index_from_range l y (i + 1)); lia.
  - destruct (index_from_range l x (i + 1)); lia.
  - apply (IH x y (i + 1)); auto; lia.
Qed.

Lemma var_index_range : forall o x, var_index o x = -1 \/ 0 <= var_index o x.
Proof. intros; apply index_from_range. Qed.
Lemma var_index_inj : forall o x y, var_index o x = var_index o y -> var_index o x <> -1 -> x = y.
Proof. intros o x y; apply index_from_inj; lia. Qed.

Lemma is_var_true : forall v x, is_var v x = true -> v = Some x.
Proof. intros [y|] x; cbn; [|discriminate]. intros H; apply N.eqb_eq in H; now subst. Qed.

Lemma cmp_var_refl : forall o x, cmp_var o x x = 0.
Proof. intros; unfold cmp_var; now rewrite N.eqb_refl. Qed.

Lemma cmp_var_eq : forall o x y, cmp_var o x y = 0 -> x = y.
Proof.
  intros o x y. unfold cmp_var.
  destruct (N.eqb_spec x y); auto.
  destruct (is_var (obot o) x); [lia|]. destruct (is_var (obot o) y); [lia|].
  destruct (is_var (otop o) x); [lia|]. destruct (is_var (otop o) y); [lia|].
  destruct (Z.eqb_spec (var_index o x) (var_index o y)) as [He|Hne].
  - intros H; apply N2Z.inj; lia.
  - destruct (Z.eqb_spec (var_index o x) (-1)); [lia|]. destruct (Z.eqb_spec (var_index o y) (-1)); lia.
Qed.

Lemma cmp_var_antisym : forall o x y, Z.sgn (cmp_var o y x) = - Z.sgn (cmp_var o x y).
Proof.
  intros o x y. unfold cmp_var. rewrite (N.eqb_sym y x).
  destruct (N.eqb_spec x y); [reflexivity|].
  destruct (is_var (obot o) x) eqn:Bx; destruct (is_var (obot o) y) eqn:By;
    try (apply is_var_true in Bx); try (apply is_var_true in By); try congruence; try reflexivity.
  destruct (is_var (otop o) x) eqn:Tx; destruct (is_var (otop o) y) eqn:Ty;
    try (apply is_var_true in Tx); try (apply is_var_true in Ty); try congruence; try reflexivity.
  rewrite (Z.eqb_sym (var_index o y) (var_index o x)).
  destruct (Z.eqb_spec (var_index o x) (var_index o y)); [lia|].
  destruct (Z.eqb_spec (var_index o x) (-1)); destruct (Z.eqb_spec (var_index o y) (-1)); lia.
Qed.

Lemma cmp_var_trans : forall o x y z, cmp_var o x y < 0 -> cmp_var o y z < 0 -> cmp_var o x z < 0.
Proof.
  intros o x y z. unfold cmp_var.
  destruct (N.eqb_spec x y) as [->|Hxy]; [lia|].
  destruct (N.eqb_spec y z) as [->|Hyz]; [lia|].
  destruct (N.eqb_spec x z) as [->|Hxz].
  - (* x < y < x *)
    destruct (is_var (obot o) z) eqn:Bz; destruct (is_var (obot o) y) eqn:By;
      try (apply is_var_true in Bz); try (apply is_var_true in By); try congruence; try lia.
    destruct (is_var (otop o) z) eqn:Tz; destruct (is_var (otop o) y) eqn:Ty;
      try (apply is_var_true in Tz); try (apply is_var_true in Ty); try congruence; try lia.
    rewrite (Z.eqb_sym (var_index o y) (var_index o z)).
    destruct (Z.eqb_spec (var_index o z) (var_index o y)); [lia|].
    destruct (Z.eqb_spec (var_index o z) (-1)); destruct (Z.eqb_spec (var_index o y) (-1)); lia.
  - destruct (is_var (obot o) x) eqn:Bx; [lia|].
    destruct (is_var (obot o) y) eqn:By; [lia|].
    destruct (is_var (obot o) z) eqn:Bz; [lia|].
    destruct (is_var (otop o) x) eqn:Tx; [lia|].
    destruct (is_var (otop o) y) eqn:Ty; [lia|].
    destruct (is_var (otop o) z) eqn:Tz; [lia|].
    pose proof (var_index_range o x). pose proof (var_index_range o y). pose proof (var_index_range o z).
    destruct (Z.eqb_spec (var_index o x) (var_index o y)); destruct (Z.eqb_spec (var_index o y) (var_index o z));
      destruct (Z.eqb_spec (var_index o x) (var_index o z));
      destruct (Z.eqb_spec (var_index o x) (-1)); destruct (Z.eqb_spec (var_index o y) (-1));
      destruct (Z.eqb_spec (var_index o z) (-1)); try lia.
Qed.

(* what the comparison means when no special top / bottom variable is set *)
Lemma index_from_notin : forall l x i, ~ In x l -> index_from l x i = -1.
Proof.
  induction l as [|y l IH]; intros x i Hn; cbn [index_from]; auto.
  destruct (N.eqb_spec x y) as [->|]; [exfalso; apply Hn; now left|]. apply IH; intros H; apply Hn; now right.
Qed.
Lemma index_from_in : forall l x i, In x l -> i <= index_from l x i < i + Z.of_nat (length l).
Proof.
  induction l as [|y l IH]; intros x i Hin; [destruct Hin|]. cbn [index_from length].
  destruct (N.eqb_spec x y) as [->|Hne]; [lia|].
  destruct Hin as [->|Hin]; [congruence|]. specialize (IH x (i + 1) Hin). lia.
Qed.
Lemma index_from_app_l : forall l1 l2 x i, In x l1 -> index_from (l1 ++ l2) x i = index_from l1 x i.
Proof.
  induction l1 as [|y l1 IH]; intros l2 x i Hin; [destruct Hin|]. cbn [app index_from].
  destruct (N.eqb_spec x y); auto. destruct Hin as [->|Hin]; [congruence|]. now apply IH.
Qed.
Lemma index_from_app_r : forall l1 l2 x i, ~ In x l1 ->
  index_from (l1 ++ l2) x i = index_from l2 x (i + Z.of_nat (length l1)).
Proof.
  induction l1 as [|y l1 IH]; intros l2 x i Hn; cbn [app index_from length].
  - f_equal; lia.
  - destruct (N.eqb_spec x y) as [->|]; [exfalso; apply Hn; now left|].
    rewrite IH by (intros H; apply Hn; now right). f_equal; lia.
Qed.

Definition plain (o : order) : Prop := otop o = None /\ obot o = None.

Lemma cmp_var_plain : forall o x y, plain o -> x <> y ->
  cmp_var o x y =
  (if var_index o x =? var_index o y then Z.of_N x - Z.of_N y
   else if var_index o x =? -1 then 1 else if var_index o y =? -1 then -1 else var_index o x - var_index o y).
Proof.
  intros o x y [Ht Hb] Hne. unfold cmp_var. rewrite Ht, Hb. cbn [is_var].
  destruct (N.eqb_spec x y); [contradiction|reflexivity].
Qed.

(* listed variables compare by position: a variable listed earlier is smaller *)
Lemma cmp_var_listed : forall o l1 l2 l3 x y, plain o -> NoDup (olist o) ->
  olist o = l1 ++ x :: l2 ++ y :: l3 -> cmp_var o x y < 0.
Proof.
  intros o l1 l2 l3 x y Hp Hnd Hl.
  assert (Hx1 : ~ In x l1 /\ ~ In x l2 /\ x <> y /\ ~ In y l1 /\ ~ In y l2).
  { rewrite Hl in Hnd. apply NoDup_remove in Hnd as [Hnd Hx].
    rewrite in_app_iff in Hx. repeat split.
    - tauto.
    - intros H; apply Hx; right. rewrite in_app_iff; now left.
    - intros ->; apply Hx; right. rewrite in_app_iff; right; now left.
    - intros H. rewrite app_assoc in Hnd. apply NoDup_remove_2 in Hnd. apply Hnd. rewrite !in_app_iff; tauto.
    - intros H. rewrite app_assoc in Hnd. apply NoDup_remove_2 in Hnd. apply Hnd. rewrite !in_app_iff; tauto. }
  destruct Hx1 as (Hx1 & Hx2 & Hxy & Hy1 & Hy2).
  rewrite cmp_var_plain by auto. unfold var_index. rewrite Hl.
  rewrite (index_from_app_r l1 _ x) by auto. cbn [index_from]. rewrite N.eqb_refl.
  rewrite (index_from_app_r l1 _ y) by auto. cbn [index_from].
  destruct (N.eqb_spec y x); [congruence|].
  rewrite (index_from_app_r l2 _ y) by auto. cbn [index_from]. rewrite N.eqb_refl.
  repeat match goal with |- context [?a =? ?b] => destruct (Z.eqb_spec a b); try lia end.
Qed.

(* a listed variable is below every unlisted one; unlisted ones compare by id *)
Lemma cmp_var_listed_unlisted : forall o x y, plain o -> In x (olist o) -> ~ In y (olist o) -> cmp_var o x y < 0.
Proof.
  intros o x y Hp Hx Hy.
  assert (x <> y) by (intros ->; contradiction).
  rewrite cmp_var_plain by auto. unfold var_index. rewrite (index_from_notin _ y) by auto.
  pose proof (index_from_in _ x 0 Hx).
  repeat match goal with |- context [?a =? ?b] => destruct (Z.eqb_spec a b); try lia end.
Qed.
Lemma cmp_var_unlisted : forall o x y, plain o -> ~ In x (olist o) -> ~ In y (olist o) ->
  cmp_var o x y = Z.of_N x - Z.of_N y.
Proof.
  intros o x y Hp Hx Hy. destruct (N.eq_dec x y) as [->|Hne]; [rewrite cmp_var_refl; lia|].
  rewrite cmp_var_plain by auto. unfold var_index. rewrite !index_from_notin by auto. reflexivity.
Qed.
(* the special variables *)
Lemma cmp_var_bot : forall o b y, obot o = Some b -> y <> b -> cmp_var o b y < 0.
Proof.
  intros o b y Hb Hne. unfold cmp_var. destruct (N.eqb_spec b y); [congruence|]. rewrite Hb. cbn. rewrite N.eqb_refl. lia.
Qed.
Lemma cmp_var_top : forall o t y, otop o = Some t -> y <> t -> ~ is_var (obot o) y = true -> ~ is_var (obot o) t = true ->
  cmp_var o y t < 0.
Proof.
  intros o t y Ht Hne Hby Hbt. unfold cmp_var. destruct (N.eqb_spec y t); [congruence|].
  destruct (is_var (obot o) y); [lia|]. destruct (is_var (obot o) t); [congruence|].
  rewrite Ht. cbn. destruct (N.eqb_spec y t); [congruence|]. rewrite N.eqb_refl. lia.
Qed.

(* reversing the list reverses the comparison of listed variables *)
Lemma cmp_var_reverse : forall o x y, plain o -> NoDup (olist o) -> In x (olist o) -> In y (olist o) ->
  cmp_var o x y < 0 -> cmp_var (order_reverse o) y x < 0.
Proof.
  intros o x y Hp Hnd Hx Hy Hlt.
  assert (Hne : x <> y) by (intros ->; rewrite cmp_var_refl in Hlt; lia).
  (* x comes before y in the list *)
  apply in_split in Hx as (l1 & r & Hl).
  assert (Hyr : In y l1 \/ In y r).
  { rewrite Hl in Hy. apply in_app_or in Hy as [H|[H|H]]; auto; congruence. }
  destruct Hyr as [Hy1|Hyr].
  - (* y before x: contradiction with cmp x y < 0 *)
    apply in_split in Hy1 as (a & b & ->).
    assert (cmp_var o y x < 0).
    { apply (cmp_var_listed o a b r y x); auto. rewrite Hl. now rewrite <- app_assoc. }
    pose proof (cmp_var_antisym o x y). lia.
  - apply in_split in Hyr as (a & b & ->).
    apply (cmp_var_listed (order_reverse o) (rev b) (rev a) (rev l1) y x).
    + exact Hp.
    + cbn. now apply NoDup_rev.
    + cbn [order_reverse olist]. rewrite Hl. rewrite rev_app_distr. cbn [rev]. rewrite rev_app_distr. cbn [rev].
      rewrite <- !app_assoc. reflexivity.
Qed.

(* ------------------------------------------------------------------------------------------------ *)
(* induction over the nested type *)
Section CoefInd.
  Variable P : coef -> Prop.
  Hypothesis Hnum : forall a, P (CNum a).
  Hypothesis Hrec : forall x cs, Forall P cs -> P (CRec x cs).
  Fixpoint coef_ind2 (c : coef) : P c :=
    match c with
    | CNum a => Hnum a
    | CRec x cs =>
      Hrec x cs ((fix go (l : list coef) : Forall P l :=
                    match l with [] => Forall_nil P | c :: l' => Forall_cons c (coef_ind2 c) (go l') end) cs)
    end.
End CoefInd.

(* the structural invariant: along every path the main variables strictly decrease in the order *)
Definition below (o : order) (x : var) (c : coef) : Prop :=
  match c with CNum _ => True | CRec y _ => 0 < cmp_var o x y end.
Inductive wf_order (o : order) : coef -> Prop :=
| wf_num : forall a, wf_order o (CNum a)
| wf_rec : forall x cs, (forall c, In c cs -> below o x c /\ wf_order o c) -> wf_order o (CRec x cs).

Lemma in_order_iff : forall o c, in_order o c = true <-> wf_order o c.
Proof.
  intros o c; induction c as [a|x cs IH] using coef_ind2.
  - split; [constructor|reflexivity].
  - cbn [in_order]. rewrite forallb_forall. rewrite Forall_forall in IH. split.
    + intros H. constructor. intros c Hc. specialize (H c Hc). destruct c as [a|y l]; cbn [below].
      * split; [exact I|constructor].
      * apply andb_true_iff in H as [H1 H2]. split; [now apply Z.ltb_lt|]. now apply IH.
    + intros H; inversion H as [|x' cs' Hc]; subst. intros c Hin. destruct (Hc c Hin) as [Hb Hw].
      destruct c as [a|y l]; auto. cbn [below] in Hb. apply andb_true_iff; split; [now apply Z.ltb_lt|]. now apply IH.
Qed.
