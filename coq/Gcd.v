(* C03 models: gcd / lcm / content / primitive part / extended gcd / Bezout.
   Executable, stdlib only, no proofs here (GcdSpec.v proves the checkers and the reference; Properties_C03.v
   states the theorems).

   Part 1  faithful models of libpoly's univariate code (src/upolynomial/gcd.c, upolynomial.c):
           dense polynomials are coefficient lists, LOW degree first, canonical (UPoly.pnorm); over Z_p the
           coefficients are the representatives in libpoly's symmetric range (Scalar.ring_norm).
   Part 2  executable CHECKERS run on the implementation's outputs (univariate Z[x], Z_p[x]).
   Part 3  multivariate reference side on MPoly.mpoly: exact division on the univariate view, reference gcd by
           the recursive primitive PRS (oracle), checkers for gcd / lcm / pp / cont. *)
From Coq Require Import ZArith NArith List Bool.
From LP Require Import Scalar UPoly MPoly.
Import ListNotations.
Local Open Scope Z_scope.

(* ================================================================ Part 1: univariate models *)

Definition psize (a : poly) : nat := length (pnorm a).
(* lp_upolynomial_degree: 0 for the zero polynomial *)
Definition udeg (a : poly) : nat := Nat.pred (psize a).

(* ---- Z[x]: lp_upolynomial_content_Z (sign of the leading coefficient), make_primitive_Z / primitive_part_Z *)
Definition content_Z (a : poly) : Z :=
  let c := pcontent a in if plc a <? 0 then - c else c.
(* divide every coefficient by the signed content (integer_div_exact) *)
Definition make_primitive_Z (a : poly) : poly :=
  let c := content_Z a in if c =? 0 then [] else pdivc (pnorm a) c.
(* lp_upolynomial_is_primitive *)
Definition is_primitive_Z (a : poly) : bool := (content_Z a =? 1) && (0 <? plc a).

(* sign normalisation: leading coefficient > 0 *)
Definition pabs (a : poly) : poly := if plc a <? 0 then pneg (pnorm a) else pnorm a.

(* ---- lp_upolynomial_divides over Z ("p divides q"): cheap rejections, then ZERO PSEUDO-REMAINDER.
   (This is divisibility over Q, not over Z: 2x+4 "divides" x^2+4x+4.  The gcd code only calls it with a
   candidate d*prim whose content d divides both contents, where the two notions agree by Gauss' lemma.) *)
Fixpoint low_deg (a : poly) : nat :=
  match a with [] => O | c :: a' => if c =? 0 then S (low_deg a') else O end.
Definition low_coef (a : poly) : Z := nth (low_deg a) a 0.
Definition upoly_divides_Z (p q : poly) : bool :=
  if Nat.ltb (udeg q) (udeg p) then false
  else if Nat.ltb (low_deg (pnorm q)) (low_deg (pnorm p)) then false
  else if negb (int_divides None false (low_coef (pnorm p)) (low_coef (pnorm q))) then false
  else pis_zero (pprem q p).

(* ---- upolynomial_gcd_subresultant (Z[x], deg A >= deg B, B <> 0) *)
Fixpoint subres_loop (fuel : nat) (d : Z) (r0 r1 : poly) (g h : Z) : option poly :=
  match fuel with
  | O => None
  | S f =>
    let delta := Z.of_nat (psize r0 - psize r1) in          (* int delta = r_0.size - r_1.size *)
    let r2 := pprem r0 r1 in                                 (* dense_div_general(K, 0, ...): full-power pseudo-remainder *)
    if Nat.leb (psize r2) 1 then                             (* r_2.size == 1: a constant (possibly zero) *)
      match pnorm r2 with
      | [] => Some (pscale d (ppp r1))                       (* mk_primitive_Z(&r_1, 1); mult_c(&r_1, d) *)
      | _ => Some [d]
      end
    else
      let r1' := pdivc r2 (g * h ^ delta) in                 (* q = rem / (g*h^delta) *)
      let g' := plc r1 in                                    (* g = lc(p) (after the swap p = old q) *)
      (* h = g^delta / h^(delta-1); delta = 0 only in the first round where h = 1, and 1^(unsigned)(-1) = 1 *)
      let h' := if delta =? 0 then 1 else (g' ^ delta) / (h ^ (delta - 1)) in
      subres_loop f d r1 r1' g' h'
  end.
Definition gcd_subresultant (A B : poly) : option poly :=
  let A := pnorm A in let B := pnorm B in
  let ca := content_Z A in let cb := content_Z B in
  let d := Z.gcd ca cb in
  let r0 := if d =? 1 then A else pdivc A ca in              (* contents are removed only when their gcd is not 1 *)
  let r1 := if d =? 1 then B else pdivc B cb in
  subres_loop (S (length B)) d r0 r1 1 1.

(* ---- upolynomial_gcd_heuristic: evaluate pp(A), pp(B) at 2^n, integer gcd, read the digits back, VERIFY *)
(* bits of the largest coefficient of A / cont *)
Definition max_bits (A : poly) (c : Z) : Z :=
  fold_right (fun x m => if x =? 0 then m else Z.max (z_bits (Z.quot x c)) m) 0 A.
Definition bound_valuation (A B : poly) (ca cb : Z) : Z := Z.min (max_bits A ca) (max_bits B cb) + 2.
Definition eval_pow2 (A : poly) (c : Z) (n : Z) : Z := peval (pdivc A c) (2 ^ n).
(* digits of v in base 2^n, a digit is moved to the negative side as soon as integer_bits(rem) + 1 >= n *)
Fixpoint digits_pow2 (fuel : nat) (v n : Z) : option poly :=
  match fuel with
  | O => None
  | S f =>
    if v =? 0 then Some [] else
    let dv := Z.quot v (2 ^ n) in
    let rm := Z.rem v (2 ^ n) in
    let '(dv, rm) := if n <=? z_bits rm + 1 then (dv + 1, rm - 2 ^ n) else (dv, rm) in
    match digits_pow2 f dv n with Some l => Some (rm :: l) | None => None end
  end.
Definition reconstruct (max_size : nat) (v n cont : Z) : option poly :=
  match digits_pow2 (S max_size) v n with
  | Some l => if Nat.ltb max_size (length l) then None else Some (pscale cont (ppp l))
  | None => None
  end.
Fixpoint heuristic_loop (attempts : nat) (A B : poly) (ca cb d n : Z) : option (option poly) :=
  match attempts with
  | O => Some None
  | S k =>
    let av := eval_pow2 A ca n in
    let bv := eval_pow2 B cb n in
    match reconstruct (S (udeg A)) (Z.gcd av bv) n d with
    | None => None                                            (* the C code would leave its buffer *)
    | Some D =>
      if upoly_divides_Z D B && upoly_divides_Z D A then Some (Some D)      (* accepted only after BOTH trial divisions *)
      else heuristic_loop k A B ca cb d (n + 1)
    end
  end.
(* Some (Some D): success; Some None: gave up; None: model cannot follow the C code *)
Definition gcd_heuristic (attempts : nat) (A B : poly) : option (option poly) :=
  let A := pnorm A in let B := pnorm B in
  let '(A, B) := if Nat.ltb (udeg A) (udeg B) then (B, A) else (A, B) in
  let ca := content_Z A in let cb := content_Z B in
  heuristic_loop attempts A B ca cb (Z.gcd ca cb) (bound_valuation A B ca cb).

(* ---- lp_upolynomial_gcd over Z.  mode bit 0 (verification hook): skip the heuristic.
   REPAIRED zero case: the copy of the non-zero operand is sign-normalised (header: lc(gcd) > 0). *)
Definition upoly_gcd_Z (mode : Z) (a b : poly) : option poly :=
  let a := pnorm a in let b := pnorm b in
  match a, b with
  | [], _ => Some (pabs b)
  | _, [] => Some (pabs a)
  | _, _ =>
    let '(a, b) := if Nat.ltb (udeg a) (udeg b) then (b, a) else (a, b) in
    if Z.odd mode then gcd_subresultant a b
    else match gcd_heuristic 2 a b with
         | None => None
         | Some (Some D) => Some D
         | Some None => gcd_subresultant a b
         end
  end.

(* ---- Z_p[x] *)
Definition zp_norm (p : Z) (a : poly) : poly := pnorm (map (ring_norm (Some p)) a).
Definition zp_add (p : Z) (a b : poly) : poly := zp_norm p (padd a b).
Definition zp_sub (p : Z) (a b : poly) : poly := zp_norm p (psub a b).
Definition zp_mul (p : Z) (a b : poly) : poly := zp_norm p (pmul a b).
Definition zp_scale (p : Z) (c : Z) (a : poly) : poly := zp_norm p (pscale c a).
(* integer_inv in a PRIME field (the C code asserts K->is_prime): c^(p-2) by square-and-multiply, normalised.
   (Scalar.int_inv goes through the standard library's opaque Znumtheory.euclid and does not reduce inside Coq;
   this transparent definition lets the examples of Properties_C03.v compute.  For prime p both give the unique
   inverse in the symmetric range; the correspondence run compares it with mpz_invert on every Z_p case.) *)
Fixpoint powm_pos (b : Z) (e : positive) (m : Z) : Z :=
  match e with
  | xH => b mod m
  | xO e' => let t := powm_pos b e' m in (t * t) mod m
  | xI e' => let t := powm_pos b e' m in (t * t * b) mod m
  end.
Definition zp_inv (p : Z) (c : Z) : Z :=
  match p - 2 with
  | Zpos e => ring_norm (Some p) (powm_pos c e p)
  | _ => ring_norm (Some p) 1
  end.

(* division with remainder in Z_p[x] (upolynomial_dense_div_general, exact = 1); r and b canonical, b <> 0,
   ilb = 1 / lc(b) *)
Fixpoint zp_divmod_aux (fuel : nat) (p : Z) (q r b : poly) (db : nat) (ilb : Z) : poly * poly :=
  match fuel with
  | O => (q, r)
  | S f =>
    match r with
    | [] => (q, [])
    | _ =>
      let dr := Nat.pred (length r) in
      if Nat.ltb dr db then (q, r)
      else
        let t := pshift (dr - db) [ring_norm (Some p) (last r 0 * ilb)] in
        zp_divmod_aux f p (zp_add p q t) (zp_sub p r (pmul t b)) b db ilb
    end
  end.
Definition zp_divmod (p : Z) (a b : poly) : poly * poly :=
  let a := zp_norm p a in let b := zp_norm p b in
  zp_divmod_aux (S (length a)) p [] a b (Nat.pred (length b)) (zp_inv p (last b 0)).
Definition zp_monic (p : Z) (a : poly) : poly :=
  let a := zp_norm p a in
  match a with [] => [] | _ => if plc a =? 1 then a else zp_scale p (zp_inv p (plc a)) a end.

(* upolynomial_gcd_euclid (extended): deg A >= deg B, B <> 0.  Returns (gcd, U, V), gcd monic. *)
Fixpoint gcd_euclid_aux (fuel : nat) (p : Z) (r0 r1 s0 s1 t0 t1 : poly) : option (poly * poly * poly) :=
  match fuel with
  | O => None
  | S f =>
    let '(q, r2) := zp_divmod p r0 r1 in
    match r2 with
    | [] =>
      let lc := plc r1 in
      if lc =? 1 then Some (r1, s1, t1)
      else let i := zp_inv p lc in Some (zp_scale p i r1, zp_scale p i s1, zp_scale p i t1)
    | _ => gcd_euclid_aux f p r1 r2 s1 (zp_sub p s0 (pmul q s1)) t1 (zp_sub p t0 (pmul q t1))
    end
  end.
Definition gcd_euclid (p : Z) (A B : poly) : option (poly * poly * poly) :=
  let A := zp_norm p A in let B := zp_norm p B in
  match B with
  | [] => None                                               (* assert(!lp_upolynomial_is_zero(B)) *)
  | _ => gcd_euclid_aux (S (length B)) p A B [1] [] [] [1]
  end.

(* lp_upolynomial_gcd over Z_p.  REPAIRED zero case: the non-zero operand is made monic. *)
Definition upoly_gcd_Zp (p : Z) (a b : poly) : option poly :=
  let a := zp_norm p a in let b := zp_norm p b in
  match a, b with
  | [], _ => Some (zp_monic p b)
  | _, [] => Some (zp_monic p a)
  | _, _ =>
    match (if Nat.ltb (udeg a) (udeg b) then gcd_euclid p b a else gcd_euclid p a b) with
    | Some (g, _, _) => Some g
    | None => None
    end
  end.

(* lp_upolynomial_extended_gcd.  REPAIRED: a zero operand is answered directly (the code as it is hands it to
   upolynomial_gcd_euclid, whose first line asserts B <> 0). *)
Definition upoly_extended_gcd (p : Z) (a b : poly) : option (poly * poly * poly) :=
  let a := zp_norm p a in let b := zp_norm p b in
  match a, b with
  | [], [] => Some ([], [], [])
  | _, [] => let i := zp_inv p (plc a) in Some (zp_monic p a, zp_norm p [i], [])
  | [], _ => let i := zp_inv p (plc b) in Some (zp_monic p b, [], zp_norm p [i])
  | _, _ =>
    if Nat.ltb (udeg a) (udeg b)
    then match gcd_euclid p b a with Some (g, v, u) => Some (g, u, v) | None => None end
    else gcd_euclid p a b
  end.

(* lp_upolynomial_solve_bezout: u*p + v*q = r, given gcd(p,q) | r *)
Definition solve_bezout (p : Z) (a b r : poly) : option (poly * poly) :=
  match upoly_extended_gcd p a b with
  | None => None
  | Some (g, u1, v1) =>
    match g with
    | [] => None
    | _ =>
      let m := fst (zp_divmod p r g) in
      let u2 := zp_mul p u1 m in
      let v2 := zp_mul p v1 m in
      match zp_norm p a, zp_norm p b with
      | [], _ | _, [] => None
      | a', b' => Some (snd (zp_divmod p u2 b'), snd (zp_divmod p v2 a'))
      end
    end
  end.

(* ================================================================ Part 2: univariate checkers *)

(* d | a in Z[x]: trial division by the reference pdiv_exact, the quotient is re-multiplied (certificate) *)
Definition pdivides_b (d a : poly) : bool :=
  match pnorm d with
  | [] => pis_zero a
  | _ => match pdiv_exact a d with
         | Some q => peqb (pmul d q) a
         | None => false
         end
  end.

(* "g is a greatest common divisor of a and b in Z[x]": g divides both and the reference gcd divides g *)
Definition gcd_check_Z (g a b : poly) : bool :=
  pdivides_b g a && pdivides_b g b && pdivides_b (pgcd a b) g.

(* reference lcm, and the lcm checker  l * g = +- a * b  for a gcd g *)
Definition plcm (a b : poly) : poly :=
  match pdiv_exact (pmul a b) (pgcd a b) with Some l => pabs l | None => [] end.
Definition lcm_check_Z (l g a b : poly) : bool :=
  let ab := pmul a b in let lg := pmul l g in peqb lg ab || peqb lg (pneg ab).

(* content / primitive part: c * pp = a, pp has content 1 and positive leading coefficient (a <> 0) *)
Definition cont_pp_check_Z (c : Z) (pp a : poly) : bool :=
  peqb (pscale c pp) a && (pcontent pp =? 1) && (0 <? plc pp).

(* congruence modulo p of integer polynomials: every coefficient of x - y is divisible by p *)
Definition peqm_b (p : Z) (x y : poly) : bool := forallb (fun c => c mod p =? 0) (psub x y).
(* d | a modulo p: division in Z_p[x] by the model, the quotient is re-multiplied (certificate) *)
Definition pdivides_mod_b (p : Z) (d a : poly) : bool :=
  match zp_norm p d with
  | [] => peqm_b p a []
  | _ => let '(q, r) := zp_divmod p a d in
         match r with [] => peqm_b p (pmul d q) a | _ => false end
  end.
Definition bezout_check (p : Z) (u v a b r : poly) : bool := peqm_b p (padd (pmul u a) (pmul v b)) r.
Definition is_monic_or_zero (p : Z) (g : poly) : bool :=
  match zp_norm p g with [] => true | g' => plc g' =? 1 end.
(* extended gcd: Bezout identity + g divides both (=> g is a gcd modulo p) + monic *)
Definition egcd_check_Zp (p : Z) (g u v a b : poly) : bool :=
  bezout_check p u v a b g && pdivides_mod_b p g a && pdivides_mod_b p g b && is_monic_or_zero p g.
(* documented degree bounds of solve_bezout: deg u < deg q, deg v < deg p (sizes, so that u = 0 is allowed) *)
Definition size_lt (u q : poly) : bool := Nat.ltb (psize u) (psize q).
Definition solve_bezout_check (p : Z) (u v a b r : poly) : bool :=
  bezout_check p u v a b r && size_lt u (zp_norm p b) && size_lt v (zp_norm p a).

(* ================================================================ Part 3: multivariate reference side *)

Definition mp_sgn (p : mpoly) : Z := match p with [] => 0 | (_, c) :: _ => Z.sgn c end.
(* canonical sign: the first term of the canonical form (largest monomial) has a positive coefficient *)
Definition mp_abs (p : mpoly) : mpoly := if mp_sgn p <? 0 then mp_neg p else p.
Definition mp_is_const (p : mpoly) : bool := match p with [] => true | [([], _)] => true | _ => false end.

(* exact division a / b in Z[vars] on the univariate view (recursion over the variable list; all variables of
   a and b must be listed).  b = 0 gives None. *)
Fixpoint mp_div_exact (vars : list var) (a b : mpoly) : option mpoly :=
  match vars with
  | [] =>
    match a, b with
    | [], (_ :: _) => Some []
    | [([], c)], [([], d)] => if (d =? 0) then None else if c mod d =? 0 then Some (mp_const (c / d)) else None
    | _, _ => None
    end
  | x :: rest =>
    match b with
    | [] => None
    | _ =>
      let db := mp_degree x b in
      let lb := mp_lc x b in
      (fix loop (fuel : nat) (q r : mpoly) : option mpoly :=
         match r with
         | [] => Some q
         | _ =>
           match fuel with
           | O => None
           | S f =>
             let dr := mp_degree x r in
             if (dr <? db)%N then None
             else match mp_div_exact rest (mp_lc x r) lb with
                  | None => None
                  | Some t =>
                    let tt := mp_mul t (mp_var_pow x (dr - db)) in
                    loop f (mp_add q tt) (mp_sub r (mp_mul tt b))
                  end
           end
         end) (S (N.to_nat (mp_degree x a))) [] a
    end
  end.

(* d | a : trial division + re-multiplication of the quotient (certificate) *)
Definition mp_divides_b (vars : list var) (d a : mpoly) : bool :=
  match d with
  | [] => mp_is_zero a
  | _ => match mp_div_exact vars a d with
         | Some q => mp_eqb (mp_mul d q) a
         | None => false
         end
  end.

(* pseudo-remainder in x:  lc(b)^(da-db+1) * a = q*b + r *)
Fixpoint mp_prem_aux (fuel : nat) (x : var) (r b lb : mpoly) (db : N) : mpoly :=
  match fuel with
  | O => r
  | S f =>
    match r with
    | [] => []
    | _ =>
      let dr := mp_degree x r in
      if (dr <? db)%N then mp_mul (mp_pow lb (S f)) r
      else
        let t := mp_mul (mp_lc x r) (mp_var_pow x (dr - db)) in
        mp_prem_aux f x (mp_sub (mp_mul lb r) (mp_mul t b)) b lb db
    end
  end.
Definition mp_prem (x : var) (a b : mpoly) : mpoly :=
  let da := mp_degree x a in let db := mp_degree x b in
  if (da <? db)%N then a else mp_prem_aux (S (N.to_nat (da - db))) x a b (mp_lc x b) db.

(* REFERENCE gcd in Z[vars] (unproved oracle): contents by recursion on the remaining variables, primitive
   Euclidean PRS in the first variable.  Result normalised with mp_abs. *)
Fixpoint mp_gcd_ref (vars : list var) (fuel : nat) (a b : mpoly) : option mpoly :=
  match vars with
  | [] =>
    match a, b with
    | [], [] => Some []
    | [], [([], d)] => Some (mp_const (Z.abs d))
    | [([], c)], [] => Some (mp_const (Z.abs c))
    | [([], c)], [([], d)] => Some (mp_const (Z.gcd c d))
    | _, _ => None
    end
  | x :: rest =>
    let g0 := mp_gcd_ref rest fuel in
    let cont := fun (p : mpoly) =>
      fold_right (fun c acc => match acc with None => None | Some g => g0 c g end) (Some []) (mp_coeffs x p) in
    let pp := fun (p : mpoly) =>
      match cont p with
      | Some [] => Some []
      | Some c => mp_div_exact (x :: rest) p c
      | None => None
      end in
    match a, b with
    | [], _ => Some (mp_abs b)
    | _, [] => Some (mp_abs a)
    | _, _ =>
      match cont a, cont b, pp a, pp b with
      | Some ca, Some cb, Some pa, Some pb =>
        match g0 ca cb with
        | None => None
        | Some gc =>
          let prs := (fix prs (n : nat) (u v : mpoly) : option mpoly :=
            match n with
            | O => None
            | S n' =>
              match v with
              | [] => Some u
              | _ =>
                if (mp_degree x v =? 0)%N then Some (mp_const 1)      (* a non-zero primitive "constant" in x *)
                else match pp (mp_prem x u v) with
                     | Some w => prs n' v w
                     | None => None
                     end
              end
            end) in
          let '(u, v) := if (mp_degree x pa <? mp_degree x pb)%N then (pb, pa) else (pa, pb) in
          match (if (mp_degree x v =? 0)%N then (match v with [] => Some u | _ => Some (mp_const 1) end)
                 else prs fuel u v) with
          | Some g => match pp g with Some g' => Some (mp_abs (mp_mul gc g')) | None => None end
          | None => None
          end
        end
      | _, _, _, _ => None
      end
    end
  end.

(* sign of the leading coefficient with respect to a variable order given TOP variable first
   (coefficient_lc_sgn): repeatedly take the leading coefficient in the top-most variable *)
Definition mp_lc_sgn (order_top_first : list var) (p : mpoly) : Z :=
  mp_sgn (fold_left (fun q x => mp_lc x q) order_top_first p).
(* the main variable of p: the first variable of the order (top first) that occurs in p *)
Definition mp_top_var (order_top_first : list var) (p : mpoly) : option var :=
  find (fun x => negb (mp_degree x p =? 0)%N) order_top_first.

(* gcd checker: g divides both, the planted common factor divides g, g agrees with the reference up to sign *)
Definition mgcd_check (vars : list var) (fuel : nat) (g a b planted : mpoly) : option bool :=
  match mp_gcd_ref vars fuel a b with
  | None => None
  | Some r =>
    Some (mp_divides_b vars g a && mp_divides_b vars g b && mp_divides_b vars planted g && mp_eqb (mp_abs g) r)
  end.
(* lcm checker: l * gcd = +- a * b, and the sign rule lc_sgn(l) >= 0 *)
Definition mlcm_check (vars order_top_first : list var) (fuel : nat) (l a b : mpoly) : option bool :=
  match mp_gcd_ref vars fuel a b with
  | None => None
  | Some r =>
    let ab := mp_mul a b in let lg := mp_mul l r in
    Some ((mp_eqb lg ab || mp_eqb lg (mp_neg ab)) && (0 <=? mp_lc_sgn order_top_first l)
          && (match r with [] => mp_is_zero l | _ => true end))
  end.
(* pp / cont checker with respect to the main variable x of a:
   cont * pp = a, cont is free of x, the coefficients of pp in x have reference gcd 1, lc_sgn(pp) > 0;
   for a constant a: pp = 1, cont = a *)
Definition mppc_check (vars order_top_first : list var) (fuel : nat) (pp cont a : mpoly) : option bool :=
  match mp_top_var order_top_first a with
  | None => Some (mp_eqb pp (mp_const 1) && mp_eqb cont a)
  | Some x =>
    let others := filter (fun y => negb (N.eqb y x)) vars in
    match fold_right (fun c acc => match acc with None => None | Some g => mp_gcd_ref others fuel c g end)
                     (Some []) (mp_coeffs x pp) with
    | None => None
    | Some cg =>
      Some (mp_eqb (mp_mul cont pp) a && (mp_degree x cont =? 0)%N && mp_eqb cg (mp_const 1)
            && (0 <? mp_lc_sgn order_top_first pp))
    end
  end.
