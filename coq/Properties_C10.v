(* Property C10 - sign and value of a polynomial under an assignment are exact.
   ONLY theorem statements, each closed by `exact` of a lemma from EvalSgnProofs.v / EvalSgnReal.v / History_C10.v,
   with Print Assumptions beneath, and non-vacuity examples.  Models: EvalSgn.v (+ generated EvalSgnScGen.v).
   Labels: FULL = closed theorem about the faithful model for all inputs; COND = under the named premises.
   The algebraic core (eliminant by resultants, interval evaluation, root selection) is NOT proved: it is validated
   on every run against the reference evaluation by denotation (level translation_validation). *)
From Coq Require Import ZArith NArith List Bool QArith Qcanon.
From LP Require Import Scalar ScalarProofs UPoly MPoly IntervalArith IntervalArithProofs EvalSgn EvalSgnScGen EvalSgnProofs
  EvalSgnApprox EvalSgnApproxProofs History_C10.
Set Warnings "-notation-overridden,-ambiguous-paths".
From mathcomp Require Import all_ssreflect all_algebra all_real_closed.
From mathcomp Require Import ssrZ zify.
Set Warnings "notation-overridden,ambiguous-paths".
From LP Require Import Bounds BoundsProofs EvalSgnReal EvalSgnElim EvalSgnCompose.
(* several layers define sc_consistent / ri_sgn / mwf ...: the C10 names win *)
Import EvalSgn EvalSgnProofs EvalSgnReal.
Import Order.TTheory GRing.Theory Num.Theory.
Local Open Scope ring_scope.
(* mathcomp rebinds the delimiters %ZZ (int) and %NN (nat): stdlib Z / N literals are written %ZZ / %NN here *)
Delimit Scope Z_scope with ZZ.
Delimit Scope N_scope with NN.

(* ---------------------------------------------------------------- 1. coefficient_evaluate_rationals  [FULL]
   For a canonical polynomial C, any variable order, any map M of variables to rational values p/q (q > 0) and any
   values rho of the remaining variables:  multiplier > 0  and  [[C_rat]] rho = multiplier * [[C]] (rho with x := p/q),
   over Q (Qc = canonical rationals); in particular C_rat's value does not depend on the substituted variables. *)
Theorem C10_eval_rationals : forall order M rho C,
  (forall x p q, M x = Some (p, q) -> Z.lt 0 q) -> mp_wf C = true ->
  Z.lt 0 (snd (eval_rat order M C)) /\
  mp_evalQ rho (fst (eval_rat order M C)) = Qcmult (zq (snd (eval_rat order M C))) (mp_evalQ (subst_rho order M rho) C).
Proof. exact eval_rat_correct. Qed.
Print Assumptions C10_eval_rationals.

(* the same against MPoly.mp_eval (integer values for the variables that are not substituted) *)
Theorem C10_eval_rationals_mp_eval : forall order M (rho : var -> Z) C,
  (forall x p q, M x = Some (p, q) -> Z.lt 0 q) -> mp_wf C = true ->
  let '(C_rat, mult) := eval_rat order M C in
  Z.lt 0 mult /\ zq (mp_eval rho C_rat) = Qcmult (zq mult) (mp_evalQ (subst_rho order M (fun x => zq (rho x))) C).
Proof. exact eval_rat_correct_Z. Qed.
Print Assumptions C10_eval_rationals_mp_eval.

(* mp_evalQ is the extension of MPoly.mp_eval to Q *)
Theorem C10_evalQ_extends_mp_eval : forall (rho : var -> Z) p, mp_evalQ (fun x => zq (rho x)) p = zq (mp_eval rho p).
Proof. exact evalQ_of_Z. Qed.
Print Assumptions C10_evalQ_extends_mp_eval.

(* non-vacuity: C = 3 x0^2 x1 - 2 x1 + 5, x0 := 2/3, x1 algebraic, x1 on top:  C_rat = -6 x1 + 45, multiplier 9 *)
Example C10_eval_rationals_example :
  let C : mpoly := [:: ([:: (1%NN, 1%NN)], (-2)%ZZ); ([:: (0%NN, 2%NN); (1%NN, 1%NN)], 3%ZZ); ([::], 5%ZZ)] in
  let M := fun x : var => if N.eqb x 0 then Some (2%ZZ, 3%ZZ) else None in
  mp_wf C = true /\ eval_rat [:: 1%NN; 0%NN] M C = ([:: ([:: (1%NN, 1%NN)], (-6)%ZZ); ([::], 45%ZZ)], 9%ZZ).
Proof. by vm_compute; split. Qed.

(* ---------------------------------------------------------------- 2. the sign-condition table  [FULL] *)
Theorem C10_sign_condition_table : forall c s, sc_consistent c s = true <-> sc_holds c s.
Proof. exact sc_consistent_spec. Qed.
Print Assumptions C10_sign_condition_table.

Theorem C10_sign_condition_depends_on_sign_only : forall c s, sc_consistent c s = sc_consistent c (Z.sgn s).
Proof. exact sc_consistent_sgn. Qed.
Print Assumptions C10_sign_condition_depends_on_sign_only.

Theorem C10_sign_condition_negate : forall c s, sc_consistent (sc_negate c) s = negb (sc_consistent c s).
Proof. exact sc_negate_complement. Qed.
Print Assumptions C10_sign_condition_negate.

(* the Gallina `match` re-derived from src/utils/sign_condition.c on every run is the hand-written model, and has
   the meaning of the six conditions *)
Theorem C10_sign_condition_generated_model : forall c s,
  sc_consistent_gen c s = sc_consistent c s /\ sc_negate_gen c = sc_negate c /\ (sc_consistent_gen c s = true <-> sc_holds c s).
Proof. move=> c s; split; [exact: sc_gen_agrees|split; [exact: sc_negate_gen_agrees|exact: sc_gen_spec]]. Qed.
Print Assumptions C10_sign_condition_generated_model.

(* lp_polynomial_constraint_evaluate on the true sign of a real value decides the condition on that value *)
Theorem C10_constraint_evaluate : forall (R : realFieldType) c (v : R),
  constraint_evaluate c (rsgn v) = sc_sem c v.
Proof. exact constraint_evaluate_correct. Qed.
Print Assumptions C10_constraint_evaluate.

(* ---------------------------------------------------------------- 3. the root lower bound  [FULL for the repaired formula]
   Cauchy: for B = c0 + c1 x + ... (c0 <> 0 after removing the zero roots), every root r <> 0 in any real field
   satisfies |c0| <= |r| (|c0| + max|c_i|); the coded exponent satisfies |c0| + max|c_i| <= 2^k |c0|; hence
   2^-k <= |r|. *)
Theorem C10_cauchy_lower_bound : forall (R : realFieldType) (c0 : Z) (rest : seq Z) (r M : R),
  all (fun c => `|zR R c| <= M) rest -> 0 <= M -> hornerR (c0 :: rest) r = 0 ->
  `|zR R c0| <= `|r| * (`|zR R c0| + M).
Proof. exact cauchy_lower. Qed.
Print Assumptions C10_cauchy_lower_bound.

Theorem C10_root_bound_exponent : forall B c0 rest, strip_zeros B = c0 :: rest ->
  Z.le 2 (root_lower_bound B) /\ Z.le (Z.add (Z.abs c0) (pmaxabs rest)) (Z.mul (Z.pow 2 (root_lower_bound B)) (Z.abs c0)).
Proof. exact root_lower_bound_int. Qed.
Print Assumptions C10_root_bound_exponent.

Theorem C10_root_bound : forall (R : realFieldType) (B : seq Z) (r : R),
  strip_zeros B <> [::] -> hornerR B r = 0 -> r != 0 ->
  2%:R ^- (Z.to_nat (root_lower_bound B)) <= `|r|.
Proof. exact root_lower_bound_real. Qed.
Print Assumptions C10_root_bound.

(* hornerR is evaluation of the MathComp polynomial Poly B mapped into R *)
Theorem C10_hornerR_is_horner : forall (R : realFieldType) (l : seq Z) (r : R),
  hornerR l r = (map_poly (intr \o int_of_Z) (Poly l)).[r].
Proof. exact hornerRE. Qed.
Print Assumptions C10_hornerR_is_horner.

(* REFUTED for the pinned formula (offset 1): a polynomial with k = 2 and a root in (1/5, 1/4) *)
Theorem C10_root_bound_prefix_refuted :
  exists B : list Z,
    root_lower_bound_prefix B = 2%ZZ /\ psgn_at_rat B 1 5 = 1%ZZ /\ psgn_at_rat B 1 4 = (-1)%ZZ.
Proof. exact C10_root_lower_bound_prefix_refuted. Qed.
Print Assumptions C10_root_bound_prefix_refuted.

(* ... and in every real closed field that polynomial HAS a non-zero root closer to 0 than the pinned L (IVT) *)
Theorem C10_root_bound_prefix_refuted_real : forall R : rcfType,
  exists (B : seq Z) (r : R),
    [/\ strip_zeros B <> [::], hornerR B r = 0, r != 0 & `|r| < 2%:R ^- (Z.to_nat (root_lower_bound_prefix B))].
Proof. exact root_lower_bound_prefix_refuted_real. Qed.
Print Assumptions C10_root_bound_prefix_refuted_real.

(* ---------------------------------------------------------------- 4. exit logic of coefficient_sgn  [COND]
   premises:  encloses    - every interval computed by coefficient_value_approx contains the value v (C15),
              annihilates - v is a root of the non-zero eliminant B (resultants, C04/C07);
   conclusion: the reported sign is the sign of v - in particular 0 is reported only for v = 0 ("tiny is not zero"). *)
Theorem C10_sgn_exact_cond : forall (R : realFieldType) fuel (approx : nat -> rint) (B : seq Z) (v : R) s,
  (forall j, rint_wf (approx j)) ->
  (forall j, in_rint (approx j) v) ->
  strip_zeros B <> [::] -> hornerR B v = 0 ->
  coef_sgn_core fuel approx B = Some s -> s = rsgn v /\ sgn_norm s = rsgn v.
Proof. exact coef_sgn_core_correct. Qed.
Print Assumptions C10_sgn_exact_cond.

(* the loop alone, for ANY exponent k with the bound property (premise bound_correct) *)
Theorem C10_sgn_loop_cond : forall (R : realFieldType) fuel (approx : nat -> rint) k (v : R) s i,
  (forall j, rint_wf (approx j)) -> (forall j, in_rint (approx j) v) -> Z.le 0 k ->
  (v != 0 -> 2%:R ^- (Z.to_nat k) <= `|v|) ->
  sgn_loop fuel approx k i = Some s -> s = rsgn v.
Proof. exact sgn_loop_correct. Qed.
Print Assumptions C10_sgn_loop_cond.

(* the interval predicates of interval.c mean what their names say *)
Theorem C10_interval_contains_zero : forall (R : realFieldType) I, rint_wf I -> ri_contains_zero I = in_rint (R := R) I 0.
Proof. exact ri_contains_zeroE. Qed.
Print Assumptions C10_interval_contains_zero.

Theorem C10_interval_sgn : forall (R : realFieldType) I (v : R),
  rint_wf I -> in_rint I v -> (in_rint I (0 : R) -> v = 0) -> ri_sgn I = rsgn v.
Proof. exact ri_sgn_correct. Qed.
Print Assumptions C10_interval_sgn.

(* REFUTED with the pinned bound: an enclosure that exits with sign 0 although the value is a positive root of B *)
Theorem C10_sgn_exit_prefix_refuted :
  sgn_first witness_I = None /\
  sgn_exit witness_I (root_lower_bound_prefix witness_B) = Some 0%ZZ /\
  psgn_at_rat witness_B 3 8 = 1%ZZ /\ psgn_at_rat witness_B 27 64 = (-1)%ZZ /\
  q_cmp (ri_a witness_I) (3%ZZ, 8%ZZ) = (-1)%ZZ /\ q_cmp (27%ZZ, 64%ZZ) (ri_b witness_I) = (-1)%ZZ /\
  sgn_exit witness_I (root_lower_bound witness_B) = None.
Proof. exact C10_sgn_prefix_refuted. Qed.
Print Assumptions C10_sgn_exit_prefix_refuted.

(* non-vacuity of the premises of C10_sgn_exact_cond, in every real field: the value 0, root of B = z, enclosed by
   (-1/8, 1/8) at every round: the model answers 0 *)
Example C10_sgn_exact_cond_nonvacuous : forall R : realFieldType,
  let approx := fun _ : nat => mkRint ((-1)%ZZ, 8%ZZ) (1%ZZ, 8%ZZ) false true true in
  let B := [:: 0%ZZ; 1%ZZ] in
  (forall j, rint_wf (approx j)) /\ (forall j, in_rint (approx j) (0 : R)) /\ strip_zeros B <> [::] /\
  hornerR B (0 : R) = 0 /\ coef_sgn_core (S (S O)) approx B = Some 0%ZZ.
Proof.
move=> R approx B; split; first by move=> j; split.
split.
  by move=> j; rewrite /in_rint /= qR_lt0 // qR_gt0.
split; first by [].
split; first by rewrite /= mul0r addr0.
by vm_compute.
Qed.

(* and a non-zero value: v = 1, root of B = z - 1, enclosed by the closed interval [1/2, 3/2]: the model answers 1 *)
Example C10_sgn_exact_cond_nonvacuous_pos : forall R : realFieldType,
  let approx := fun _ : nat => mkRint (1%ZZ, 2%ZZ) (3%ZZ, 2%ZZ) false false false in
  let B := [:: (-1)%ZZ; 1%ZZ] in
  (forall j, rint_wf (approx j)) /\ (forall j, in_rint (approx j) (1 : R)) /\ strip_zeros B <> [::] /\
  hornerR B (1 : R) = 0 /\ coef_sgn_core (S (S O)) approx B = Some 1%ZZ /\ rsgn (1 : R) = 1%ZZ.
Proof.
move=> R approx B; split; first by move=> j; split.
split.
  move=> j; rewrite /in_rint /= /qR /=.
  have h2 : (0 : R) < zR R 2 by exact: zR_gt0.
  by rewrite ler_pdivr_mulr // ler_pdivl_mulr // !mul1r !zR_le.
split; first by [].
split; first by rewrite /= mulr0 addr0 mul1r -zRD.
split; first by vm_compute.
by rewrite rsgn_gt0 // ltr01.
Qed.

(* ================================================================ 5. reducing the premises (follow-up)
   bound_correct is no premise of C10_sgn_exact_cond: the exponent is the one the model computes from B and the bound
   is C10_root_bound.  The same for the loop alone: *)
Theorem C10_sgn_loop_eliminant_cond : forall (R : realFieldType) fuel (approx : nat -> rint) (B : seq Z) (v : R) s i,
  (forall j, rint_wf (approx j)) -> (forall j, in_rint (approx j) v) ->          (* encloses *)
  strip_zeros B <> [::] -> hornerR B v = 0 ->                                     (* annihilates *)
  sgn_loop fuel approx (root_lower_bound B) i = Some s -> s = rsgn v.
Proof. exact sgn_loop_eliminant. Qed.
Print Assumptions C10_sgn_loop_eliminant_cond.

(* ---- 5a. rational / dyadic / integer assignments  [FULL: no premise about the library's computation]
   coef_sgn_numeric = the two numeric exits of coefficient_sgn (C numeric; C_rat numeric after evaluate_rationals).
   Whenever an exit is taken the answer is the sign of the exact value ... *)
Theorem C10_sgn_numeric_exit : forall order M rho C s,
  (forall x p q, M x = Some (p, q) -> Z.lt 0 q) -> mp_wf C = true ->
  coef_sgn_numeric order M C = Some s -> s = qc_sgn (mp_evalQ (subst_rho order M rho) C).
Proof. exact coef_sgn_numeric_correct. Qed.
Print Assumptions C10_sgn_numeric_exit.

(* ... and when every variable of the (canonical) polynomial has a rational value an exit IS taken *)
Theorem C10_sgn_rational_assignment : forall order M C rho,
  (forall x p q, M x = Some (p, q) -> Z.lt 0 q) -> mp_wf C = true -> vars_in order C ->
  (forall x, List.In x order -> M x <> None) ->
  exists s, coef_sgn_numeric order M C = Some s /\ s = qc_sgn (mp_evalQ (subst_rho order M rho) C).
Proof. exact coef_sgn_rational_assignment. Qed.
Print Assumptions C10_sgn_rational_assignment.

Theorem C10_sign_of_rational_in_real_field : forall (R : realFieldType) (q : Qc), rsgn (QRc R q) = qc_sgn q.
Proof. exact rsgn_QRc. Qed.
Print Assumptions C10_sign_of_rational_in_real_field.

(* ---- 5b. encloses, from C15  [FULL for RATIONAL members]
   value_approx = coefficient_value_approx on the C15 model of rational_interval_pow / mul / add (aliasing and
   pre-used outputs as in the C loop).  If every variable's (rational) value lies in its interval then the value of
   the polynomial lies in the computed interval, which satisfies the data-structure invariant. *)
Theorem C10_value_approx_encloses : forall order m rho C,
  (forall x, rwf (m x)) -> (forall x, rin (this (rho x)) (m x)) ->
  EvalSgnApproxProofs.mwf C -> vars_in order C ->
  rin (this (mp_evalQ rho C)) (value_approx order m C) /\ rwf (value_approx order m C).
Proof. exact value_approx_encloses. Qed.
Print Assumptions C10_value_approx_encloses.

(* membership of a stdlib rational in a C15 interval is membership of its image in the interval of the exit logic *)
Theorem C10_interval_bridge : forall (R : realFieldType) I x, rwf I -> rin x I ->
  rint_wf (of_ritv I) /\ in_rint (of_ritv I) (QR R x).
Proof. by move=> R I x W H; split; [exact: rint_wf_of_ritv|exact: in_rint_of_rin]. Qed.
Print Assumptions C10_interval_bridge.

(* the interval stage with the MODEL's enclosures, all remaining variables rational-valued: only `annihilates` left *)
Theorem C10_sgn_rational_values_cond : forall (R : realFieldType) fuel order (m : nat -> var -> ritv) (rho : var -> Qc) C_rat (B : seq Z) s,
  (forall j x, rwf (m j x)) -> (forall j x, rin (this (rho x)) (m j x)) ->
  EvalSgnApproxProofs.mwf C_rat -> vars_in order C_rat ->
  strip_zeros B <> [::] -> hornerR B (QRc R (mp_evalQ rho C_rat)) = 0 ->       (* annihilates *)
  coef_sgn_core fuel (fun j => of_ritv (value_approx order (m j) C_rat)) B = Some s ->
  s = rsgn (QRc R (mp_evalQ rho C_rat)).
Proof. exact coef_sgn_rational_values. Qed.
Print Assumptions C10_sgn_rational_values_cond.

(* ---- 5c. annihilates, one algebraic variable, from C04  [FULL relative to the reference resultant]
   eliminant1 z y C_rat f = the coefficient list in z of Res_y (z - C_rat, f), Res = the reference resultant of C04.
   For every real root alpha of f (degree >= 1, leading coefficient <> 0) the value of C_rat at y = alpha is a root. *)
Theorem C10_eliminant_annihilates : forall (R : realFieldType) z y C_rat (f : seq Z) (alpha : R),
  z <> y -> mp_wf C_rat -> mp_degree z C_rat = N0 ->
  (1 < size f)%N -> List.last f Z0 <> Z0 -> hornerR f alpha = 0 ->
  hornerR (eliminant1 z y C_rat f) (mp_evalR (ptz y alpha) C_rat) = 0.
Proof. exact eliminant1_annihilates. Qed.
Print Assumptions C10_eliminant_annihilates.

(* one elimination step in general (any number of other variables, valued by rho) *)
Theorem C10_elimination_step : forall (R : realFieldType) (rho : var -> R) y A (f : seq Z) (alpha : R),
  BoundsProofs.mwf A -> A <> [::] -> (1 < size f)%N -> List.last f Z0 <> Z0 ->
  hornerR f alpha = 0 -> mp_evalR (upd rho y alpha) A = 0 ->
  mp_evalR rho (elim_alg y A f) = 0.
Proof. exact elim_alg_vanishes. Qed.
Print Assumptions C10_elimination_step.

(* one proper algebraic variable: premises left = encloses (C15 over a real field) and "the eliminant is not 0" *)
Theorem C10_sgn_one_algebraic_cond : forall (R : realFieldType) fuel (approx : nat -> rint) z y C_rat (f : seq Z) (alpha : R) s,
  z <> y -> mp_wf C_rat -> mp_degree z C_rat = N0 ->
  (1 < size f)%N -> List.last f Z0 <> Z0 -> hornerR f alpha = 0 ->
  let v := mp_evalR (ptz y alpha) C_rat in
  let B := eliminant1 z y C_rat f in
  (forall j, rint_wf (approx j)) -> (forall j, in_rint (approx j) v) ->           (* encloses *)
  strip_zeros B <> [::] ->
  coef_sgn_core fuel approx B = Some s -> s = rsgn v.
Proof. exact coef_sgn_one_algebraic. Qed.
Print Assumptions C10_sgn_one_algebraic_cond.

(* ---- 5d. end to end for one remaining variable with a rational value (an algebraic number that is secretly
   rational): enclosures by the model of coefficient_value_approx, eliminant by the reference resultant; the only
   premise besides the input conditions is the decidable fact that the computed eliminant is not the zero polynomial *)
Theorem C10_sgn_one_variable_rational : forall (R : realFieldType) fuel z y (m : nat -> ritv) (a : Qc) C_rat (f : seq Z) s,
  z <> y -> mp_wf C_rat -> vars_in [:: y] C_rat -> mp_degree z C_rat = N0 ->
  (1 < size f)%N -> List.last f Z0 <> Z0 -> hornerR f (QRc R a) = 0 ->
  (forall j, rwf (m j)) -> (forall j, rin (this a) (m j)) ->
  let rho := fun x : var => if N.eqb x y then a else Q2Qc 0 in
  let box := fun j (x : var) => if N.eqb x y then m j else ri_zero in
  let B := eliminant1 z y C_rat f in
  strip_zeros B <> [::] ->
  coef_sgn_core fuel (fun j => of_ritv (value_approx [:: y] (box j) C_rat)) B = Some s ->
  s = rsgn (QRc R (mp_evalQ rho C_rat)).
Proof. exact coef_sgn_one_variable_rational. Qed.
Print Assumptions C10_sgn_one_variable_rational.

(* non-vacuity: the eliminants the model computes for  y^2 - 2 at sqrt 2,  y at sqrt 2,  3y - 1 at the roots of
   (y^2 - 2)(3y - 1): z^2, z^2 - 2, -3z^3 - 6z^2 + 51z *)
Example C10_eliminant_examples :
  eliminant1 9%NN 0%NN [:: ([:: (0%NN, 2%NN)], 1%ZZ); ([::], (-2)%ZZ)] [:: (-2)%ZZ; 0%ZZ; 1%ZZ] = [:: 0%ZZ; 0%ZZ; 1%ZZ] /\
  eliminant1 9%NN 0%NN [:: ([:: (0%NN, 1%NN)], 1%ZZ)] [:: (-2)%ZZ; 0%ZZ; 1%ZZ] = [:: (-2)%ZZ; 0%ZZ; 1%ZZ] /\
  eliminant1 9%NN 0%NN [:: ([:: (0%NN, 1%NN)], 3%ZZ); ([::], (-1)%ZZ)] [:: 2%ZZ; (-6)%ZZ; (-1)%ZZ; 3%ZZ] = [:: 0%ZZ; 51%ZZ; (-6)%ZZ; (-3)%ZZ].
Proof. by vm_compute. Qed.

(* non-vacuity of C10_sgn_one_variable_rational: 3y - 3 at y = 1 (root of y^2 - 1... here f = y - 1 doubled to
   degree 2: y^2 - 2y + 1), enclosed by the point interval [1]: the model answers 0 *)
Example C10_sgn_one_variable_rational_nonvacuous : forall R : realFieldType,
  let C_rat : mpoly := [:: ([:: (0%NN, 1%NN)], 3%ZZ); ([::], (-3)%ZZ)] in
  let f := [:: 1%ZZ; (-2)%ZZ; 1%ZZ] in
  let a := Q2Qc 1 in
  let m := fun _ : nat => gi_point rat_ops (1%ZZ, 1%ZZ) in
  let box := fun (j : nat) (x : var) => if N.eqb x 0%NN then m j else ri_zero in
  [/\ mp_wf C_rat, vars_in [:: 0%NN] C_rat, hornerR f (QRc R a) = 0 & (forall j, rwf (m j) /\ rin (this a) (m j))] /\
  strip_zeros (eliminant1 9%NN 0%NN C_rat f) <> [::] /\
  coef_sgn_core (S O) (fun j => of_ritv (value_approx [:: 0%NN] (box j) C_rat)) (eliminant1 9%NN 0%NN C_rat f) = Some 0%ZZ.
Proof.
move=> R C_rat f a m box; split; [split|split].
- by [].
- by move=> t [<-|[<-|[]]] ve //= [<-|[]] /=; left.
- by rewrite QRc1 /= mulr0 addr0 !mul1r -!zRD.
- by move=> j; split; [case: (ri_point_ok (1%ZZ, 1%ZZ)) => //; split|rewrite /rin /Qin /=].
- by vm_compute.
- by vm_compute.
Qed.
