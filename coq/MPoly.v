(* Shared base: REFERENCE sparse multivariate polynomials over Z (the "mathematical object" side for
   the polynomial layers).  Executable, stdlib only, no proofs here.
   A polynomial is a list of (monomial, coefficient) kept in canonical form:
     monomial = list of (variable, exponent), variables strictly increasing, exponents > 0;
     terms strictly decreasing in the monomial order `mono_cmp`, coefficients non-zero.
   The canonical form does NOT depend on libpoly's variable order: it is what
   lp_polynomial_traverse reports after sorting, which is what the correspondence compares. *)
From Coq Require Import ZArith NArith List Bool.
Import ListNotations.
Local Open Scope Z_scope.

Definition var := N.
Definition mono := list (var * N).
Definition term := (mono * Z)%type.
Definition mpoly := list term.

(* ---- monomials *)
Fixpoint mono_mul (a b : mono) : mono :=
  match a with
  | [] => b
  | (x, e) :: a' =>
    (fix inner (b : mono) : mono :=
       match b with
       | [] => a
       | (y, f) :: b' =>
         match N.compare x y with
         | Lt => (x, e) :: mono_mul a' b
         | Eq => (x, (e + f)%N) :: mono_mul a' b'
         | Gt => (y, f) :: inner b'
         end
       end) b
  end.

(* total order on canonical monomials: lexicographic on (variable, exponent) pairs *)
Fixpoint mono_cmp (a b : mono) : comparison :=
  match a, b with
  | [], [] => Eq
  | [], _ => Lt
  | _, [] => Gt
  | (x, e) :: a', (y, f) :: b' =>
    match N.compare x y with
    | Eq => match N.compare e f with Eq => mono_cmp a' b' | c => c end
    | c => c
    end
  end.

Definition mono_deg (x : var) (m : mono) : N :=
  fold_right (fun ve acc => if N.eqb (fst ve) x then snd ve else acc) 0%N m.
Definition mono_remove (x : var) (m : mono) : mono := filter (fun ve => negb (N.eqb (fst ve) x)) m.
Definition mono_total_deg (m : mono) : N := fold_right (fun ve acc => (snd ve + acc)%N) 0%N m.
Definition mono_var (x : var) (e : N) : mono := if (e =? 0)%N then [] else [(x, e)].

(* ---- polynomials *)
(* add one term, keeping the list strictly decreasing and free of zero coefficients *)
Fixpoint mp_add_term (t : term) (p : mpoly) : mpoly :=
  let '(m, c) := t in
  if c =? 0 then p else
  match p with
  | [] => [t]
  | (m', c') :: p' =>
    match mono_cmp m m' with
    | Gt => t :: p
    | Eq => if c + c' =? 0 then p' else (m, c + c') :: p'
    | Lt => (m', c') :: mp_add_term t p'
    end
  end.

Definition mp_add (p q : mpoly) : mpoly := fold_right mp_add_term q p.
Definition mp_scale (c : Z) (p : mpoly) : mpoly :=
  if c =? 0 then [] else map (fun t => (fst t, c * snd t)) p.
Definition mp_neg (p : mpoly) : mpoly := map (fun t => (fst t, - snd t)) p.
Definition mp_sub (p q : mpoly) : mpoly := mp_add p (mp_neg q).
Definition mp_mul_term (t : term) (p : mpoly) : mpoly :=
  fold_right (fun u acc => mp_add_term (mono_mul (fst t) (fst u), snd t * snd u) acc) [] p.
Definition mp_mul (p q : mpoly) : mpoly := fold_right (fun t acc => mp_add (mp_mul_term t q) acc) [] p.
Definition mp_const (c : Z) : mpoly := if c =? 0 then [] else [([], c)].
Definition mp_var_pow (x : var) (e : N) : mpoly := [(mono_var x e, 1)].
Fixpoint mp_pow (p : mpoly) (n : nat) : mpoly :=
  match n with O => mp_const 1 | S n' => mp_mul p (mp_pow p n') end.
(* canonicalise an arbitrary term list *)
Definition mp_of_terms (l : list term) : mpoly := fold_right mp_add_term [] l.

Definition mp_eqb (p q : mpoly) : bool :=
  (fix go (a b : mpoly) : bool :=
     match a, b with
     | [], [] => true
     | (m, c) :: a', (m', c') :: b' =>
       match mono_cmp m m' with Eq => (c =? c') && go a' b' | _ => false end
     | _, _ => false
     end) p q.
Definition mp_is_zero (p : mpoly) : bool := match p with [] => true | _ => false end.

(* coefficients reduced into the symmetric range of Z_m (Scalar.ring_norm done by the caller's function f) *)
Definition mp_map_coeff (f : Z -> Z) (p : mpoly) : mpoly := mp_of_terms (map (fun t => (fst t, f (snd t))) p).

(* partial derivative in x *)
Definition mp_deriv (x : var) (p : mpoly) : mpoly :=
  mp_of_terms (map (fun t =>
     let e := mono_deg x (fst t) in
     (mono_mul (mono_remove x (fst t)) (mono_var x (e - 1)), Z.of_N e * snd t)) p).

Definition mp_degree (x : var) (p : mpoly) : N :=
  fold_right (fun t acc => N.max (mono_deg x (fst t)) acc) 0%N p.
Definition mp_vars (p : mpoly) : list var :=
  fold_right (fun t acc => fold_right (fun ve acc => if existsb (N.eqb (fst ve)) acc then acc else fst ve :: acc) acc (fst t)) [] p.

(* coefficient of x^k as a polynomial in the other variables *)
Definition mp_coeff (x : var) (k : N) (p : mpoly) : mpoly :=
  mp_of_terms (map (fun t => (mono_remove x (fst t), snd t)) (filter (fun t => N.eqb (mono_deg x (fst t)) k) p)).
(* univariate view in x: coefficient list, low degree first, length = degree + 1 ([] for zero) *)
Definition mp_coeffs (x : var) (p : mpoly) : list mpoly :=
  match p with
  | [] => []
  | _ => map (fun k => mp_coeff x (N.of_nat k) p) (seq 0 (S (N.to_nat (mp_degree x p))))
  end.
Definition mp_of_coeffs (x : var) (l : list mpoly) : mpoly :=
  fst (fold_left (fun (acc : mpoly * N) c => (mp_add (fst acc) (mp_mul c (mp_var_pow x (snd acc))), (snd acc + 1)%N)) l ([], 0%N)).
Definition mp_lc (x : var) (p : mpoly) : mpoly := mp_coeff x (mp_degree x p) p.

(* evaluation at integers; substitution of a polynomial for a variable *)
Definition mono_eval (rho : var -> Z) (m : mono) : Z :=
  fold_right (fun ve acc => Z.pow (rho (fst ve)) (Z.of_N (snd ve)) * acc) 1 m.
Definition mp_eval (rho : var -> Z) (p : mpoly) : Z :=
  fold_right (fun t acc => snd t * mono_eval rho (fst t) + acc) 0 p.
Definition mp_subst (x : var) (q : mpoly) (p : mpoly) : mpoly :=
  fold_right (fun t acc =>
     mp_add (mp_mul [(mono_remove x (fst t), snd t)] (mp_pow q (N.to_nat (mono_deg x (fst t))))) acc) [] p.

(* exact division by an integer constant *)
Definition mp_divc (p : mpoly) (c : Z) : mpoly := map (fun t => (fst t, snd t / c)) p.
Definition mp_content (p : mpoly) : Z := fold_right (fun t g => Z.gcd (snd t) g) 0 p.

(* dense univariate <-> sparse in one variable *)
Definition mp_of_upoly (x : var) (l : list Z) : mpoly :=
  mp_of_terms (map (fun kc => (mono_var x (N.of_nat (fst kc)), snd kc)) (combine (seq 0 (length l)) l)).
Definition mp_to_upoly (x : var) (p : mpoly) : list Z :=
  map (fun q => match q with [] => 0 | (_, c) :: _ => c end) (mp_coeffs x p).

(* well-formedness of the canonical form (boolean) *)
Fixpoint mono_wf_from (lo : option var) (m : mono) : bool :=
  match m with
  | [] => true
  | (x, e) :: m' =>
    (0 <? e)%N && (match lo with None => true | Some y => (y <? x)%N end) && mono_wf_from (Some x) m'
  end.
Definition mono_wf (m : mono) : bool := mono_wf_from None m.
Fixpoint mp_wf (p : mpoly) : bool :=
  match p with
  | [] => true
  | (m, c) :: p' =>
    mono_wf m && negb (c =? 0) &&
    (match p' with [] => true | (m', _) :: _ => match mono_cmp m m' with Gt => true | _ => false end end) &&
    mp_wf p'
  end.
