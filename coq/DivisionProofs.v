(* Property C02 - proofs about the multivariate part of Division.v (stdlib only).
   The "mathematical object" side is the evaluation of the reference model MPoly.v at arbitrary integer
   points: mp_eval rho is proved here to be a ring homomorphism (mp_add, mp_mul, mp_neg, mp_pow, mp_const),
   WITHOUT any well-formedness premise.  A polynomial in the univariate view `l : list mpoly` is evaluated at
   a valuation rho of the coefficient variables and an INDEPENDENT value xv of the main variable:
       cp_eval rho xv l = sum_i mp_eval rho l_i * xv^i .
   Equality of these evaluations for all rho, xv is equality of polynomials over Z (Z is infinite). *)
From Coq Require Import ZArith NArith List Bool Lia.
From LP Require Import Scalar UPoly MPoly Division.
Import ListNotations.
Local Open Scope Z_scope.

(* ------------------------------------------------------------------ evaluation is a homomorphism *)

Lemma mono_cmp_eq a : forall b, mono_cmp a b = Eq -> a = b.
Proof.
  induction a as [|[x e] a IH]; intros [|[y f] b]; cbn; try discriminate; auto.
  destruct (N.compare x y) eqn:Exy; try discriminate.
  destruct (N.compare e f) eqn:Eef; try discriminate.
  intros H. apply N.compare_eq in Exy. apply N.compare_eq in Eef. subst. f_equal. auto.
Qed.

Lemma mono_eval_cons rho x e m : mono_eval rho ((x, e) :: m) = rho x ^ Z.of_N e * mono_eval rho m.
Proof. reflexivity. Qed.

Lemma mono_eval_mul rho a : forall b, mono_eval rho (mono_mul a b) = mono_eval rho a * mono_eval rho b.
Proof.
  induction a as [|[x e] a IH].
  - intros b. cbn [mono_mul]. change (mono_eval rho []) with 1. lia.
  - induction b as [|[y f] b IHb].
    + cbn [mono_mul]. change (mono_eval rho []) with 1. lia.
    + cbn [mono_mul]. destruct (N.compare x y) eqn:E.
      * apply N.compare_eq in E. subst y. rewrite !mono_eval_cons, IH.
        rewrite N2Z.inj_add, Z.pow_add_r by lia. ring.
      * rewrite mono_eval_cons, IH, !mono_eval_cons. ring.
      * rewrite mono_eval_cons. cbn [mono_mul] in IHb. rewrite IHb, !mono_eval_cons. ring.
Qed.

Lemma mp_eval_cons rho t p : mp_eval rho (t :: p) = snd t * mono_eval rho (fst t) + mp_eval rho p.
Proof. reflexivity. Qed.

Lemma mp_eval_add_term rho t p :
  mp_eval rho (mp_add_term t p) = snd t * mono_eval rho (fst t) + mp_eval rho p.
Proof.
  destruct t as [m c]. induction p as [|[m' c'] p IH]; cbn [mp_add_term fst snd].
  - destruct (c =? 0) eqn:E; [apply Z.eqb_eq in E; subst; cbn; lia|reflexivity].
  - destruct (c =? 0) eqn:E; [apply Z.eqb_eq in E; subst; lia|].
    destruct (mono_cmp m m') eqn:Ec.
    + apply mono_cmp_eq in Ec. subst m'.
      destruct (c + c' =? 0) eqn:E2.
      * apply Z.eqb_eq in E2. rewrite mp_eval_cons. cbn [fst snd]. nia.
      * rewrite !mp_eval_cons. cbn [fst snd]. ring.
    + rewrite !mp_eval_cons, IH. cbn [fst snd]. ring.
    + rewrite !mp_eval_cons. cbn [fst snd]. ring.
Qed.

Lemma mp_eval_add rho p q : mp_eval rho (mp_add p q) = mp_eval rho p + mp_eval rho q.
Proof.
  unfold mp_add. induction p as [|t p IH]; cbn [fold_right].
  - cbn. lia.
  - rewrite mp_eval_add_term, IH, mp_eval_cons. ring.
Qed.

Lemma mp_eval_neg rho p : mp_eval rho (mp_neg p) = - mp_eval rho p.
Proof.
  unfold mp_neg. induction p as [|t p IH]; cbn [map]; [reflexivity|].
  rewrite !mp_eval_cons, IH. cbn [fst snd]. ring.
Qed.

Lemma mp_eval_sub rho p q : mp_eval rho (mp_sub p q) = mp_eval rho p - mp_eval rho q.
Proof. unfold mp_sub. rewrite mp_eval_add, mp_eval_neg. ring. Qed.

Lemma mp_eval_mul_term rho t p :
  mp_eval rho (mp_mul_term t p) = snd t * mono_eval rho (fst t) * mp_eval rho p.
Proof.
  unfold mp_mul_term. induction p as [|u p IH]; cbn [fold_right].
  - cbn. lia.
  - rewrite mp_eval_add_term, IH, mp_eval_cons. cbn [fst snd]. rewrite mono_eval_mul. ring.
Qed.

Lemma mp_eval_mul rho p q : mp_eval rho (mp_mul p q) = mp_eval rho p * mp_eval rho q.
Proof.
  unfold mp_mul. induction p as [|t p IH]; cbn [fold_right].
  - cbn. lia.
  - rewrite mp_eval_add, mp_eval_mul_term, IH, mp_eval_cons. ring.
Qed.

Lemma mp_eval_const rho c : mp_eval rho (mp_const c) = c.
Proof.
  unfold mp_const. destruct (c =? 0) eqn:E.
  - apply Z.eqb_eq in E. subst. reflexivity.
  - cbn. unfold mono_eval. cbn. lia.
Qed.

Lemma mp_eval_pow rho p n : mp_eval rho (mp_pow p n) = mp_eval rho p ^ Z.of_nat n.
Proof.
  induction n as [|n IH].
  - cbn [mp_pow]. rewrite mp_eval_const. reflexivity.
  - cbn [mp_pow]. rewrite mp_eval_mul, IH, Nat2Z.inj_succ, Z.pow_succ_r by lia. ring.
Qed.

Lemma mp_is_zero_eval rho p : mp_is_zero p = true -> mp_eval rho p = 0.
Proof. destruct p; [reflexivity|discriminate]. Qed.

(* mp_eqb decides syntactic equality, hence equal evaluations *)
Lemma mp_eqb_eq p : forall q, mp_eqb p q = true -> p = q.
Proof.
  unfold mp_eqb. induction p as [|[m c] p IH]; intros [|[m' c'] q]; try discriminate; auto.
  destruct (mono_cmp m m') eqn:E; try discriminate.
  intros H. apply andb_true_iff in H. destruct H as [H1 H2].
  apply mono_cmp_eq in E. apply Z.eqb_eq in H1. subst. f_equal. auto.
Qed.

(* ------------------------------------------------------------------ the univariate view *)

Fixpoint cp_eval (rho : var -> Z) (xv : Z) (l : cpoly) : Z :=
  match l with
  | [] => 0
  | c :: l' => mp_eval rho c + xv * cp_eval rho xv l'
  end.

Lemma cp_eval_norm rho xv l : cp_eval rho xv (cp_norm l) = cp_eval rho xv l.
Proof.
  induction l as [|c l IH]; [reflexivity|].
  cbn [cp_norm]. destruct (cp_norm l) as [|d l'] eqn:E.
  - cbn [cp_eval] in *. rewrite <- IH.
    destruct (mp_is_zero c) eqn:Ez.
    + rewrite (mp_is_zero_eval rho c Ez). cbn. lia.
    + cbn. lia.
  - cbn [cp_eval] in *. rewrite IH. reflexivity.
Qed.

Lemma cp_norm_nil_eval rho xv l : cp_norm l = [] -> cp_eval rho xv l = 0.
Proof. intros H. rewrite <- cp_eval_norm, H. reflexivity. Qed.

Lemma cp_is_zero_eval rho xv l : cp_is_zero l = true -> cp_eval rho xv l = 0.
Proof.
  unfold cp_is_zero. destruct (cp_norm l) eqn:E; [|discriminate]. intros _. apply cp_norm_nil_eval. assumption.
Qed.

Lemma cp_eval_add rho xv a : forall b, cp_eval rho xv (cp_add a b) = cp_eval rho xv a + cp_eval rho xv b.
Proof.
  induction a as [|x a IH]; intros [|y b]; cbn [cp_add cp_eval]; try lia.
  rewrite mp_eval_add, IH. ring.
Qed.

Lemma cp_eval_neg rho xv a : cp_eval rho xv (cp_neg a) = - cp_eval rho xv a.
Proof.
  unfold cp_neg. induction a as [|x a IH]; cbn [map cp_eval]; [reflexivity|].
  rewrite mp_eval_neg, IH. ring.
Qed.

Lemma cp_eval_sub rho xv a b : cp_eval rho xv (cp_sub a b) = cp_eval rho xv a - cp_eval rho xv b.
Proof. unfold cp_sub. rewrite cp_eval_add, cp_eval_neg. ring. Qed.

Lemma cp_eval_scale rho xv c a : cp_eval rho xv (cp_scale c a) = mp_eval rho c * cp_eval rho xv a.
Proof.
  unfold cp_scale. induction a as [|x a IH]; cbn [map cp_eval]; [ring|].
  rewrite mp_eval_mul, IH. ring.
Qed.

Lemma cp_eval_shift rho xv d a : cp_eval rho xv (cp_shift d a) = xv ^ Z.of_nat d * cp_eval rho xv a.
Proof.
  unfold cp_shift. induction d as [|d IH]; cbn [repeat app cp_eval].
  - change (Z.of_nat 0) with 0. rewrite Z.pow_0_r. ring.
  - rewrite IH, Nat2Z.inj_succ, Z.pow_succ_r by lia. change (mp_eval rho []) with 0. ring.
Qed.

Lemma cp_norm_idem l : cp_norm (cp_norm l) = cp_norm l.
Proof.
  induction l as [|c l IH]; [reflexivity|].
  cbn [cp_norm]. destruct (cp_norm l) as [|d l'] eqn:E.
  - destruct (mp_is_zero c) eqn:Ez; [reflexivity|]. cbn. rewrite Ez. reflexivity.
  - change (cp_norm (c :: d :: l')) with
      (match cp_norm (d :: l') with [] => if mp_is_zero c then [] else [c] | l'' => c :: l'' end).
    rewrite IH. reflexivity.
Qed.

Lemma cp_norm_length l : (length (cp_norm l) <= length l)%nat.
Proof.
  induction l as [|c l IH]; [cbn; lia|].
  cbn [cp_norm]. destruct (cp_norm l) as [|d l'].
  - destruct (mp_is_zero c); cbn; lia.
  - cbn [length] in *. lia.
Qed.

Lemma cp_deg_nonneg l : 0 <= cp_deg l.
Proof. unfold cp_deg. lia. Qed.

Lemma cp_deg_norm l : cp_deg (cp_norm l) = cp_deg l.
Proof. unfold cp_deg. rewrite cp_norm_idem. reflexivity. Qed.

Lemma cp_is_zero_norm l : cp_is_zero (cp_norm l) = cp_is_zero l.
Proof. unfold cp_is_zero. rewrite cp_norm_idem. reflexivity. Qed.

Lemma cp_deg_scale_le c l : cp_deg (cp_norm (cp_scale c l)) <= Z.of_nat (length l - 1).
Proof.
  unfold cp_deg. rewrite cp_norm_idem.
  pose proof (cp_norm_length (cp_scale c l)) as H. unfold cp_scale in *. rewrite map_length in H.
  apply Nat2Z.inj_le. lia.
Qed.

(* ------------------------------------------------------------------ the loop invariant  P*A = Q*B + R *)

Section ReduceProofs.
Variable divf : mpoly -> mpoly -> option mpoly.
Variable lcmf : mpoly -> mpoly -> mpoly.
Variable missedf : bool -> Z -> Z -> Z -> Z.

Notation loop := (reduce_loop divf lcmf missedf).

Lemma reduce_loop_identity ty rho xv B Bd lcB Aval : forall fuel P Q R Rd Rdp P' Q' R',
  loop ty fuel B Bd lcB P Q R Rd Rdp = Some (P', Q', R') ->
  mp_eval rho P * Aval = cp_eval rho xv Q * cp_eval rho xv B + cp_eval rho xv R ->
  mp_eval rho P' * Aval = cp_eval rho xv Q' * cp_eval rho xv B + cp_eval rho xv R'.
Proof.
  induction fuel as [|f IH]; intros P Q R Rd Rdp P' Q' R' Hrun Hinv; [discriminate|].
  cbn [reduce_loop] in Hrun.
  (* the missed-power adjustment keeps the invariant *)
  set (adj := match ty with
              | PseudoDense =>
                if 0 <? missedf (cp_is_zero R) Rd Rdp Bd
                then (mp_mul P (mp_pow lcB (Z.to_nat (missedf (cp_is_zero R) Rd Rdp Bd))),
                      cp_scale (mp_pow lcB (Z.to_nat (missedf (cp_is_zero R) Rd Rdp Bd))) Q,
                      cp_norm (cp_scale (mp_pow lcB (Z.to_nat (missedf (cp_is_zero R) Rd Rdp Bd))) R))
                else (P, Q, R)
              | _ => (P, Q, R)
              end) in *.
  assert (Hadj : mp_eval rho (fst (fst adj)) * Aval =
                 cp_eval rho xv (snd (fst adj)) * cp_eval rho xv B + cp_eval rho xv (snd adj)).
  { subst adj. destruct ty; cbn [fst snd]; try assumption.
    destruct (0 <? missedf (cp_is_zero R) Rd Rdp Bd); cbn [fst snd]; try assumption.
    rewrite mp_eval_mul, cp_eval_norm, !cp_eval_scale. nia. }
  destruct adj as [[P1 Q1] R1]. cbn [fst snd] in Hadj.
  destruct (cp_is_zero R1 || (Rd <? Bd)).
  { inversion Hrun; subst. assumption. }
  destruct (step_mult divf lcmf ty (cp_lc R1) lcB) as [[r b]|]; [|discriminate].
  destruct (mp_is_zero r || mp_is_zero b); [discriminate|].
  match type of Hrun with (if negb ?c then _ else _) = _ => destruct c; [|discriminate] end.
  cbn [negb] in Hrun. apply IH in Hrun; [assumption|].
  rewrite mp_eval_mul, cp_eval_add, cp_eval_norm, cp_eval_sub, !cp_eval_scale, !cp_eval_shift, !cp_eval_scale.
  cbn [cp_eval]. nia.
Qed.

(* P*A = Q*B + R for every result of coefficient_reduce: all four variants, ANY exact-division and lcm
   oracle (the identity does not depend on the divisions being exact), any missed-power rule *)
Lemma reduce_identity ty fuel A B P Q R :
  reduce divf lcmf missedf ty fuel A B = Some (P, Q, R) ->
  forall rho xv, mp_eval rho P * cp_eval rho xv A = cp_eval rho xv Q * cp_eval rho xv B + cp_eval rho xv R.
Proof.
  unfold reduce. intros H rho xv.
  destruct (cp_norm B) as [|b0 B'] eqn:EB; [discriminate|].
  eapply reduce_loop_identity with (rho := rho) (xv := xv) (Aval := cp_eval rho xv A) in H.
  - rewrite H. rewrite <- (cp_eval_norm rho xv B), EB. reflexivity.
  - rewrite mp_eval_const, cp_eval_norm. change (cp_eval rho xv []) with 0. ring.
Qed.

(* ------------------------------------------------------------------ degree of the remainder *)

Lemma reduce_loop_degree ty B Bd lcB : forall fuel P Q R Rd Rdp P' Q' R',
  loop ty fuel B Bd lcB P Q R Rd Rdp = Some (P', Q', R') ->
  cp_norm R = R -> Rd = cp_deg R ->
  cp_norm R' = R' /\ (cp_is_zero R' = true \/ cp_deg R' < Bd).
Proof.
  induction fuel as [|f IH]; intros P Q R Rd Rdp P' Q' R' Hrun HnR HRd; [discriminate|].
  cbn [reduce_loop] in Hrun.
  set (adj := match ty with
              | PseudoDense =>
                if 0 <? missedf (cp_is_zero R) Rd Rdp Bd
                then (mp_mul P (mp_pow lcB (Z.to_nat (missedf (cp_is_zero R) Rd Rdp Bd))),
                      cp_scale (mp_pow lcB (Z.to_nat (missedf (cp_is_zero R) Rd Rdp Bd))) Q,
                      cp_norm (cp_scale (mp_pow lcB (Z.to_nat (missedf (cp_is_zero R) Rd Rdp Bd))) R))
                else (P, Q, R)
              | _ => (P, Q, R)
              end) in *.
  assert (Hadj : cp_norm (snd adj) = snd adj /\ cp_deg (snd adj) <= Rd).
  { subst adj. destruct ty; cbn [snd]; try (split; [assumption|lia]).
    destruct (0 <? missedf (cp_is_zero R) Rd Rdp Bd); cbn [snd]; try (split; [assumption|lia]).
    split; [apply cp_norm_idem|].
    etransitivity; [apply cp_deg_scale_le|]. subst Rd. unfold cp_deg. rewrite HnR. lia. }
  destruct adj as [[P1 Q1] R1]. cbn [snd] in Hadj. destruct Hadj as [HnR1 HdR1].
  destruct (cp_is_zero R1) eqn:Ez; cbn [orb] in Hrun.
  { inversion Hrun; subst. split; [assumption|left; assumption]. }
  destruct (Rd <? Bd) eqn:Elt.
  { inversion Hrun; subst. apply Z.ltb_lt in Elt. split; [assumption|right; lia]. }
  destruct (step_mult divf lcmf ty (cp_lc R1) lcB) as [[r b]|]; [|discriminate].
  destruct (mp_is_zero r || mp_is_zero b); [discriminate|].
  match type of Hrun with (if negb ?c then _ else _) = _ => destruct c; [|discriminate] end.
  cbn [negb] in Hrun. eapply IH in Hrun; [exact Hrun|apply cp_norm_idem|reflexivity].
Qed.

Lemma reduce_degree ty fuel A B P Q R :
  reduce divf lcmf missedf ty fuel A B = Some (P, Q, R) ->
  cp_norm R = R /\ (cp_is_zero R = true \/ cp_deg R < cp_deg B).
Proof.
  unfold reduce. intros H.
  destruct (cp_norm B) as [|b0 B'] eqn:EB; [discriminate|].
  apply reduce_loop_degree in H; [|apply cp_norm_idem|reflexivity].
  rewrite <- EB, cp_deg_norm in H. exact H.
Qed.

End ReduceProofs.

(* ------------------------------------------------------------------ P is free of the main variable *)

(* semantic freeness: the value does not depend on the valuation of x *)
Definition indep (x : var) (p : mpoly) : Prop :=
  forall rho rho', (forall y, y <> x -> rho y = rho' y) -> mp_eval rho p = mp_eval rho' p.

Lemma indep_nil x : indep x [].
Proof. intros rho rho' _. reflexivity. Qed.
Lemma indep_const x c : indep x (mp_const c).
Proof. intros rho rho' _. rewrite !mp_eval_const. reflexivity. Qed.
Lemma indep_mul x p q : indep x p -> indep x q -> indep x (mp_mul p q).
Proof. intros Hp Hq rho rho' H. rewrite !mp_eval_mul, (Hp _ _ H), (Hq _ _ H). reflexivity. Qed.
Lemma indep_pow x p n : indep x p -> indep x (mp_pow p n).
Proof. intros Hp rho rho' H. rewrite !mp_eval_pow, (Hp _ _ H). reflexivity. Qed.
Lemma indep_neg x p : indep x p -> indep x (mp_neg p).
Proof. intros Hp rho rho' H. rewrite !mp_eval_neg, (Hp _ _ H). reflexivity. Qed.

Lemma cp_norm_In c l : In c (cp_norm l) -> In c l.
Proof.
  induction l as [|d l IH]; [intros []|].
  cbn [cp_norm]. destruct (cp_norm l) as [|e l'] eqn:E.
  - destruct (mp_is_zero d); [intros []|]. intros [H|[]]. left; assumption.
  - intros [H|H]; [left; assumption|right; apply IH; assumption].
Qed.

Lemma last_In_or_default {A} (l : list A) d : last l d = d \/ In (last l d) l.
Proof.
  induction l as [|a l IH]; [left; reflexivity|].
  destruct l as [|b l']; [right; left; reflexivity|].
  change (last (a :: b :: l') d) with (last (b :: l') d).
  destruct IH as [H|H]; [left; assumption|right; right; assumption].
Qed.

Lemma cp_lc_indep x B : Forall (indep x) B -> indep x (cp_lc B).
Proof.
  intros HB. unfold cp_lc. destruct (last_In_or_default (cp_norm B) []) as [H|H].
  - rewrite H. apply indep_nil.
  - apply cp_norm_In in H. rewrite Forall_forall in HB. apply HB. assumption.
Qed.

Section PFree.
Variable divf : mpoly -> mpoly -> option mpoly.
Variable lcmf : mpoly -> mpoly -> mpoly.
Variable missedf : bool -> Z -> Z -> Z -> Z.
Variable x : var.
Variable ty : rem_type.
Variable lcB : mpoly.
Hypothesis HlcB : indep x lcB.
(* every multiplier r chosen for a step is free of x: a fact for the exact and pseudo variants
   (step_mult_r_indep below), a premise on the division/lcm oracle for the lcm variant *)
Hypothesis Hr : forall lcR r b, step_mult divf lcmf ty lcR lcB = Some (r, b) -> indep x r.

Lemma reduce_loop_P_indep B Bd : forall fuel P Q R Rd Rdp P' Q' R',
  reduce_loop divf lcmf missedf ty fuel B Bd lcB P Q R Rd Rdp = Some (P', Q', R') ->
  indep x P -> indep x P'.
Proof.
  induction fuel as [|f IH]; intros P Q R Rd Rdp P' Q' R' Hrun HP; [discriminate|].
  cbn [reduce_loop] in Hrun.
  set (adj := match ty with
              | PseudoDense =>
                if 0 <? missedf (cp_is_zero R) Rd Rdp Bd
                then (mp_mul P (mp_pow lcB (Z.to_nat (missedf (cp_is_zero R) Rd Rdp Bd))),
                      cp_scale (mp_pow lcB (Z.to_nat (missedf (cp_is_zero R) Rd Rdp Bd))) Q,
                      cp_norm (cp_scale (mp_pow lcB (Z.to_nat (missedf (cp_is_zero R) Rd Rdp Bd))) R))
                else (P, Q, R)
              | _ => (P, Q, R)
              end) in *.
  assert (Hadj : indep x (fst (fst adj))).
  { subst adj. destruct ty; cbn [fst]; try assumption.
    destruct (0 <? missedf (cp_is_zero R) Rd Rdp Bd); cbn [fst]; try assumption.
    apply indep_mul; [assumption|apply indep_pow; assumption]. }
  destruct adj as [[P1 Q1] R1]. cbn [fst] in Hadj.
  destruct (cp_is_zero R1 || (Rd <? Bd)).
  { inversion Hrun; subst. assumption. }
  destruct (step_mult divf lcmf ty (cp_lc R1) lcB) as [[r b]|] eqn:Es; [|discriminate].
  destruct (mp_is_zero r || mp_is_zero b); [discriminate|].
  match type of Hrun with (if negb ?c then _ else _) = _ => destruct c; [|discriminate] end.
  cbn [negb] in Hrun. apply IH in Hrun; [assumption|].
  apply indep_mul; [assumption|]. eapply Hr. exact Es.
Qed.
End PFree.

Lemma step_mult_r_indep divf lcmf x ty lcB : ty <> LcmSparse -> indep x lcB ->
  forall lcR r b, step_mult divf lcmf ty lcR lcB = Some (r, b) -> indep x r.
Proof.
  intros Hty HlcB lcR r b. destruct ty; cbn [step_mult]; try congruence.
  - intros H. inversion H; subst. assumption.
  - destruct (divf lcR lcB); [|discriminate]. intros H. inversion H; subst. apply indep_const.
  - intros H. inversion H; subst. assumption.
Qed.

Lemma reduce_P_indep divf lcmf missedf x ty fuel A B P Q R :
  ty <> LcmSparse -> Forall (indep x) B ->
  reduce divf lcmf missedf ty fuel A B = Some (P, Q, R) -> indep x P.
Proof.
  intros Hty HB. unfold reduce. destruct (cp_norm B) as [|b0 B'] eqn:EB; [discriminate|].
  intros H. assert (HlcB : indep x (cp_lc (b0 :: B'))).
  { rewrite <- EB. unfold cp_lc. rewrite cp_norm_idem. apply cp_lc_indep. assumption. }
  eapply reduce_loop_P_indep in H; [exact H|exact HlcB| |apply indep_const].
  apply step_mult_r_indep; assumption.
Qed.

(* lcm variant: under the premise that the oracles map x-free polynomials to x-free polynomials *)
Lemma reduce_P_indep_lcm_cond divf lcmf missedf x fuel A B P Q R :
  Forall (indep x) B ->
  (forall lcR r b, step_mult divf lcmf LcmSparse lcR (cp_lc B) = Some (r, b) -> indep x r) ->
  reduce divf lcmf missedf LcmSparse fuel A B = Some (P, Q, R) -> indep x P.
Proof.
  intros HB Hor. unfold reduce. destruct (cp_norm B) as [|b0 B'] eqn:EB; [discriminate|].
  intros H. assert (E : cp_lc (b0 :: B') = cp_lc B).
  { rewrite <- EB. unfold cp_lc. rewrite cp_norm_idem. reflexivity. }
  rewrite E in H.
  eapply reduce_loop_P_indep with (x := x) in H; [exact H|apply cp_lc_indep; assumption|exact Hor|apply indep_const].
Qed.

(* ------------------------------------------------------------------ dense variant: P = lc(B)^(deg A - deg B + 1) *)

(* the reference arithmetic exhibits a zero divisor: scaling a non-zero view by a power of c gives zero.
   Impossible in Z[x1..xn] (an integral domain) for canonical operands; it is kept as an explicit escape
   clause because the canonical-form theory of MPoly.v is property C01's subject. *)
Definition zero_divisor_witness (c : mpoly) : Prop :=
  exists (n : nat) (R : cpoly), cp_norm R = R /\ cp_is_zero R = false /\ cp_is_zero (cp_norm (cp_scale (mp_pow c n) R)) = true.

Section DensePower.
Variable divf : mpoly -> mpoly -> option mpoly.
Variable lcmf : mpoly -> mpoly -> mpoly.
Variable rho : var -> Z.
Variable B : cpoly.
Variable Bd dA : Z.
Variable lcB : mpoly.
Hypothesis HBd : 0 <= Bd <= dA.
Let L := mp_eval rho lcB.

Lemma norm_zero_nil R : cp_norm R = R -> cp_is_zero R = true -> R = [].
Proof. unfold cp_is_zero. intros H. rewrite H. destruct R; [reflexivity|discriminate]. Qed.

Lemma reduce_loop_dense_power : forall fuel P Q R Rd Rdp P' Q' R',
  reduce_loop divf lcmf missed_power PseudoDense fuel B Bd lcB P Q R Rd Rdp = Some (P', Q', R') ->
  cp_norm R = R -> Rd = cp_deg R ->
  ((Rdp = Rd /\ Rd = dA /\ cp_is_zero R = false /\ mp_eval rho P = 1)
   \/ (Bd <= Rdp <= dA /\ (cp_is_zero R = true \/ Rd < Rdp) /\ mp_eval rho P = L ^ (dA - Rdp + 1))) ->
  mp_eval rho P' = L ^ (dA - Bd + 1) \/ zero_divisor_witness lcB.
Proof.
  induction fuel as [|f IH]; intros P Q R Rd Rdp P' Q' R' Hrun HnR HRd Hinv; [discriminate|].
  assert (HRd0 : 0 <= Rd) by (subst Rd; apply cp_deg_nonneg).
  cbn [reduce_loop] in Hrun.
  destruct Hinv as [(E1 & E2 & Ez & HP)|((Hb1 & Hb2) & Hdec & HP)].
  - (* first iteration: nothing was missed *)
    subst Rdp. assert (Em : 0 <? missed_power (cp_is_zero R) Rd Rd Bd = false).
    { unfold missed_power. rewrite Ez. cbn [orb]. destruct (Rd <? Bd) eqn:E; apply Z.ltb_ge; [apply Z.ltb_lt in E|]; lia. }
    rewrite Em in Hrun. rewrite Ez in Hrun. cbn [orb] in Hrun.
    assert (Elt : Rd <? Bd = false) by (apply Z.ltb_ge; lia). rewrite Elt in Hrun.
    cbn [step_mult] in Hrun.
    destruct (mp_is_zero lcB || mp_is_zero (cp_lc R)); [discriminate|].
    match type of Hrun with (if negb ?c then _ else _) = _ => destruct c eqn:Ec; [|discriminate] end.
    cbn [negb] in Hrun. eapply IH in Hrun; [exact Hrun|apply cp_norm_idem|reflexivity|].
    right. split; [lia|]. split.
    + apply orb_true_iff in Ec. destruct Ec as [Ec|Ec]; [left; assumption|right; apply Z.ltb_lt; assumption].
    + rewrite mp_eval_mul, HP. fold L. replace (dA - Rd + 1) with 1 by lia. rewrite Z.pow_1_r. ring.
  - destruct (cp_is_zero R || (Rd <? Bd)) eqn:Eex.
    + (* the remainder is final: all remaining powers are supplied *)
      assert (Em : missed_power (cp_is_zero R) Rd Rdp Bd = Rdp - Bd).
      { unfold missed_power. rewrite Eex. reflexivity. }
      rewrite Em in Hrun.
      destruct (0 <? Rdp - Bd) eqn:Epos.
      * apply Z.ltb_lt in Epos.
        assert (Hex : cp_is_zero (cp_norm (cp_scale (mp_pow lcB (Z.to_nat (Rdp - Bd))) R)) || (Rd <? Bd) = true).
        { apply orb_true_iff in Eex. destruct Eex as [Ez|Elt]; [|rewrite Elt; apply orb_true_r].
          rewrite (norm_zero_nil R HnR Ez). reflexivity. }
        rewrite Hex in Hrun. inversion Hrun; subst P' Q' R'. left.
        rewrite mp_eval_mul, mp_eval_pow, HP. fold L. rewrite Z2Nat.id by lia.
        rewrite <- Z.pow_add_r by lia. f_equal. lia.
      * apply Z.ltb_ge in Epos. rewrite Eex in Hrun. inversion Hrun; subst P' Q' R'. left.
        rewrite HP. f_equal. lia.
    + (* a proper step follows: powers skipped since the previous remainder are supplied first *)
      apply orb_false_iff in Eex. destruct Eex as [Ez Elt].
      destruct Hdec as [Hz|Hdec]; [congruence|]. apply Z.ltb_ge in Elt.
      assert (Em : missed_power (cp_is_zero R) Rd Rdp Bd = Rdp - Rd - 1).
      { unfold missed_power. rewrite Ez. cbn [orb]. replace (Rd <? Bd) with false by (symmetry; apply Z.ltb_ge; lia). reflexivity. }
      rewrite Em in Hrun.
      set (m := Rdp - Rd - 1) in *.
      set (P1 := if 0 <? m then mp_mul P (mp_pow lcB (Z.to_nat m)) else P).
      set (Q1 := if 0 <? m then cp_scale (mp_pow lcB (Z.to_nat m)) Q else Q).
      set (R1 := if 0 <? m then cp_norm (cp_scale (mp_pow lcB (Z.to_nat m)) R) else R).
      assert (Hrun' : (if cp_is_zero R1 || (Rd <? Bd) then Some (P1, Q1, R1) else
                 let d := Z.to_nat (Rd - Bd) in
                 match step_mult divf lcmf PseudoDense (cp_lc R1) lcB with
                 | None => None
                 | Some (r, b) =>
                   if mp_is_zero r || mp_is_zero b then None else
                   let R' := cp_norm (cp_sub (cp_scale r R1) (cp_shift d (cp_scale b B))) in
                   let R_deg' := cp_deg R' in
                   if negb (cp_is_zero R' || (R_deg' <? Rd)) then None
                   else reduce_loop divf lcmf missed_power PseudoDense f B Bd lcB (mp_mul P1 r)
                          (cp_add (cp_scale r Q1) (cp_shift d [b])) R' R_deg' Rd
                 end) = Some (P', Q', R')).
      { subst P1 Q1 R1. destruct (0 <? m); exact Hrun. }
      clear Hrun.
      assert (HP1 : mp_eval rho P1 = L ^ (dA - Rd)).
      { subst P1. destruct (0 <? m) eqn:Epos.
        - apply Z.ltb_lt in Epos. rewrite mp_eval_mul, mp_eval_pow, HP. fold L. rewrite Z2Nat.id by lia.
          rewrite <- Z.pow_add_r by lia. f_equal. lia.
        - apply Z.ltb_ge in Epos. rewrite HP. f_equal. lia. }
      destruct (cp_is_zero R1) eqn:Ez1.
      * (* scaling annihilated a non-zero remainder: a zero divisor *)
        right. subst R1. destruct (0 <? m); [|congruence].
        exists (Z.to_nat m), R. split; [assumption|]. split; [assumption|]. rewrite cp_is_zero_norm in Ez1.
        rewrite cp_is_zero_norm. exact Ez1.
      * cbn [orb] in Hrun'. replace (Rd <? Bd) with false in Hrun' by (symmetry; apply Z.ltb_ge; lia).
        cbn [step_mult] in Hrun'.
        destruct (mp_is_zero lcB || mp_is_zero (cp_lc R1)); [discriminate|].
        cbv zeta in Hrun'.
        match type of Hrun' with (if negb ?c then _ else _) = _ => destruct c eqn:Ec; [|discriminate] end.
        cbn [negb] in Hrun'. eapply IH in Hrun'; [exact Hrun'|apply cp_norm_idem|reflexivity|].
        right. split; [lia|]. split.
        -- apply orb_true_iff in Ec. destruct Ec as [Ec|Ec]; [left; assumption|right; apply Z.ltb_lt; assumption].
        -- rewrite mp_eval_mul, HP1. fold L. replace (dA - Rd + 1) with (Z.succ (dA - Rd)) by lia.
           rewrite Z.pow_succ_r by lia. ring.
Qed.
End DensePower.

Lemma reduce_dense_power divf lcmf fuel A B P Q R :
  reduce divf lcmf missed_power PseudoDense fuel A B = Some (P, Q, R) ->
  cp_is_zero A = false -> cp_deg B <= cp_deg A ->
  forall rho, mp_eval rho P = mp_eval rho (cp_lc B) ^ (cp_deg A - cp_deg B + 1) \/ zero_divisor_witness (cp_lc B).
Proof.
  unfold reduce. intros H HA Hd rho.
  destruct (cp_norm B) as [|b0 B'] eqn:EB; [discriminate|].
  assert (E : cp_lc (b0 :: B') = cp_lc B) by (rewrite <- EB; unfold cp_lc; rewrite cp_norm_idem; reflexivity).
  assert (Ed : cp_deg (b0 :: B') = cp_deg B) by (rewrite <- EB; apply cp_deg_norm).
  rewrite E, Ed in H.
  eapply reduce_loop_dense_power with (rho := rho) (dA := cp_deg A) in H; [exact H| | apply cp_norm_idem | reflexivity |].
  - split; [apply cp_deg_nonneg|assumption].
  - left. rewrite cp_deg_norm, cp_is_zero_norm, mp_eval_const. auto.
Qed.

(* ------------------------------------------------------------------ fuel *)

Section Fuel.
Variable divf : mpoly -> mpoly -> option mpoly.
Variable lcmf : mpoly -> mpoly -> mpoly.
Variable missedf : bool -> Z -> Z -> Z -> Z.
Notation loop := (reduce_loop divf lcmf missedf).

(* iterations still needed: one to notice a zero remainder, else at most one per degree plus two *)
Definition fuel_need (R : cpoly) (Rd : Z) : nat := if cp_is_zero R then 1%nat else (Z.to_nat Rd + 2)%nat.

(* one iteration, with the recursive call abstracted *)
Definition loop_body (rec : mpoly -> cpoly -> cpoly -> Z -> Z -> option (mpoly * cpoly * cpoly))
    (ty : rem_type) (B : cpoly) (Bd : Z) (lcB : mpoly) (P : mpoly) (Q R : cpoly) (Rd Rdp : Z) :=
  let '(P, Q, R) :=
    match ty with
    | PseudoDense =>
      let missed := missedf (cp_is_zero R) Rd Rdp Bd in
      if 0 <? missed then
        let pw := mp_pow lcB (Z.to_nat missed) in
        (mp_mul P pw, cp_scale pw Q, cp_norm (cp_scale pw R))
      else (P, Q, R)
    | _ => (P, Q, R)
    end in
  if cp_is_zero R || (Rd <? Bd) then Some (P, Q, R)
  else
    let d := Z.to_nat (Rd - Bd) in
    let lc_R := cp_lc R in
    match step_mult divf lcmf ty lc_R lcB with
    | None => None
    | Some (r, b) =>
      if mp_is_zero r || mp_is_zero b then None else
      let R' := cp_norm (cp_sub (cp_scale r R) (cp_shift d (cp_scale b B))) in
      let R_deg' := cp_deg R' in
      if negb (cp_is_zero R' || (R_deg' <? Rd)) then None
      else rec (mp_mul P r) (cp_add (cp_scale r Q) (cp_shift d [b])) R' R_deg' Rd
    end.

Lemma reduce_loop_S ty f B Bd lcB P Q R Rd Rdp :
  loop ty (S f) B Bd lcB P Q R Rd Rdp = loop_body (loop ty f B Bd lcB) ty B Bd lcB P Q R Rd Rdp.
Proof. reflexivity. Qed.

(* with enough fuel the result does not depend on the fuel: a None is then a failed assertion of the
   code (inexact division of leading coefficients), never exhaustion *)
Lemma reduce_loop_fuel_stable ty B Bd lcB : forall fuel P Q R Rd Rdp,
  cp_norm R = R -> 0 <= Rd -> (fuel_need R Rd <= fuel)%nat ->
  loop ty (S fuel) B Bd lcB P Q R Rd Rdp = loop ty fuel B Bd lcB P Q R Rd Rdp.
Proof.
  induction fuel as [|f IH]; intros P Q R Rd Rdp HnR HRd Hneed.
  { unfold fuel_need in Hneed. destruct (cp_is_zero R); lia. }
  rewrite (reduce_loop_S ty (S f)), (reduce_loop_S ty f). unfold loop_body.
  set (adj := match ty with
              | PseudoDense =>
                let missed := missedf (cp_is_zero R) Rd Rdp Bd in
                if 0 <? missed
                then let pw := mp_pow lcB (Z.to_nat missed) in
                     (mp_mul P pw, cp_scale pw Q, cp_norm (cp_scale pw R))
                else (P, Q, R)
              | _ => (P, Q, R)
              end).
  assert (Hz : cp_is_zero R = true -> cp_is_zero (snd adj) = true).
  { intros Hz. pose proof (norm_zero_nil R HnR Hz) as E. subst adj R.
    destruct ty; cbn [snd]; try reflexivity. cbv zeta.
    destruct (0 <? missedf (cp_is_zero []) Rd Rdp Bd); reflexivity. }
  destruct adj as [[P1 Q1] R1]. cbn [snd] in Hz.
  destruct (cp_is_zero R1) eqn:Ez1; cbn [orb]; [reflexivity|].
  destruct (Rd <? Bd); [reflexivity|].
  destruct (step_mult divf lcmf ty (cp_lc R1) lcB) as [[r b]|]; [|reflexivity].
  destruct (mp_is_zero r || mp_is_zero b); [reflexivity|].
  cbv zeta.
  match goal with |- (if negb ?c then _ else _) = _ => destruct c eqn:Ec; [|reflexivity] end.
  cbn [negb]. apply IH; [apply cp_norm_idem|apply cp_deg_nonneg|].
  assert (EzR : cp_is_zero R = false) by (destruct (cp_is_zero R); [discriminate Hz; reflexivity|reflexivity]).
  unfold fuel_need in *. rewrite EzR in Hneed.
  apply orb_true_iff in Ec. destruct Ec as [Ec|Ec].
  - rewrite Ec. lia.
  - apply Z.ltb_lt in Ec.
    match goal with |- context [cp_is_zero ?X] => destruct (cp_is_zero X) end; [lia|].
    match type of Ec with ?d < _ => assert (0 <= d) by apply cp_deg_nonneg end. lia.
Qed.

Lemma reduce_loop_fuel_ge ty B Bd lcB P Q R Rd Rdp fuel fuel' :
  cp_norm R = R -> 0 <= Rd -> (fuel_need R Rd <= fuel)%nat -> (fuel <= fuel')%nat ->
  loop ty fuel' B Bd lcB P Q R Rd Rdp = loop ty fuel B Bd lcB P Q R Rd Rdp.
Proof.
  intros HnR HRd Hneed Hle. induction Hle as [|m Hle IH]; [reflexivity|].
  rewrite reduce_loop_fuel_stable by (try assumption; lia). exact IH.
Qed.

Lemma reduce_fuel_sufficient ty A B fuel fuel' :
  (Z.to_nat (cp_deg A) + 2 <= fuel)%nat -> (fuel <= fuel')%nat ->
  reduce divf lcmf missedf ty fuel' A B = reduce divf lcmf missedf ty fuel A B.
Proof.
  intros H1 H2. unfold reduce. destruct (cp_norm B) as [|b0 B']; [reflexivity|].
  apply reduce_loop_fuel_ge; [apply cp_norm_idem|apply cp_deg_nonneg| |assumption].
  unfold fuel_need. rewrite cp_deg_norm. destruct (cp_is_zero (cp_norm A)); lia.
Qed.
End Fuel.

(* ------------------------------------------------------------------ the checkers are sound *)

Lemma check_reduce_sound x A B P Q R : check_reduce x A B P Q R = true ->
  (forall rho, mp_eval rho P * mp_eval rho A = mp_eval rho Q * mp_eval rho B + mp_eval rho R)
  /\ (R = [] \/ (mp_degree x R < mp_degree x B)%N)
  /\ mp_degree x P = 0%N /\ P <> [].
Proof.
  unfold check_reduce. intros H.
  apply andb_true_iff in H. destruct H as [H H4].
  apply andb_true_iff in H. destruct H as [H H3].
  apply andb_true_iff in H. destruct H as [H1 H2].
  split; [|split; [|split]].
  - intros rho. apply mp_eqb_eq in H1.
    rewrite <- mp_eval_mul, H1, mp_eval_add, mp_eval_mul. reflexivity.
  - apply orb_true_iff in H2. destruct H2 as [H2|H2].
    + left. destruct R; [reflexivity|discriminate].
    + right. apply N.ltb_lt. assumption.
  - apply N.eqb_eq. assumption.
  - intros E. subst P. discriminate.
Qed.

Lemma check_pow_reduce_sound x A B lc Q R : forall n P, check_pow_reduce x A B lc Q R P n = true ->
  exists (k : nat) (P' : mpoly), (k <= n)%nat /\ check_reduce x A B P' Q R = true /\
    forall rho, mp_eval rho P' = mp_eval rho lc ^ Z.of_nat k * mp_eval rho P.
Proof.
  induction n as [|n IH]; intros P H; cbn [check_pow_reduce] in H; apply orb_true_iff in H; destruct H as [H|H].
  - exists O, P. split; [lia|]. split; [assumption|]. intros rho. change (Z.of_nat 0) with 0. rewrite Z.pow_0_r. ring.
  - discriminate.
  - exists O, P. split; [lia|]. split; [assumption|]. intros rho. change (Z.of_nat 0) with 0. rewrite Z.pow_0_r. ring.
  - apply IH in H. destruct H as (k & P' & Hk & Hc & He).
    exists (S k), P'. split; [lia|]. split; [assumption|]. intros rho.
    rewrite He, mp_eval_mul, Nat2Z.inj_succ, Z.pow_succ_r by lia. ring.
Qed.

(* ------------------------------------------------------------------ exact variant: the multiplier is 1 *)
Section ExactP.
Variable divf : mpoly -> mpoly -> option mpoly.
Variable lcmf : mpoly -> mpoly -> mpoly.
Variable missedf : bool -> Z -> Z -> Z -> Z.
Variable rho : var -> Z.

Lemma reduce_loop_exact_P B Bd lcB : forall fuel P Q R Rd Rdp P' Q' R',
  reduce_loop divf lcmf missedf ExactSparse fuel B Bd lcB P Q R Rd Rdp = Some (P', Q', R') ->
  mp_eval rho P = 1 -> mp_eval rho P' = 1.
Proof.
  induction fuel as [|f IH]; intros P Q R Rd Rdp P' Q' R' Hrun HP; [discriminate|].
  cbn [reduce_loop] in Hrun.
  destruct (cp_is_zero R || (Rd <? Bd)).
  { inversion Hrun; subst. assumption. }
  cbn [step_mult] in Hrun.
  destruct (divf (cp_lc R) lcB) as [b|]; [|discriminate].
  destruct (mp_is_zero (mp_const 1) || mp_is_zero b); [discriminate|].
  match type of Hrun with (if negb ?c then _ else _) = _ => destruct c; [|discriminate] end.
  cbn [negb] in Hrun. apply IH in Hrun; [assumption|].
  rewrite mp_eval_mul, HP, mp_eval_const. reflexivity.
Qed.
End ExactP.

(* division with remainder in Z[y][x] (coefficient_rem / divrem / div): A = Q*B + R, and if the
   remainder came out zero the quotient is exact *)
Lemma reduce_exact_identity divf lcmf missedf fuel A B P Q R :
  reduce divf lcmf missedf ExactSparse fuel A B = Some (P, Q, R) ->
  forall rho xv, cp_eval rho xv A = cp_eval rho xv Q * cp_eval rho xv B + cp_eval rho xv R.
Proof.
  intros H rho xv. pose proof (reduce_identity _ _ _ _ _ _ _ _ _ _ H rho xv) as Hid.
  unfold reduce in H. destruct (cp_norm B) as [|b0 B'] eqn:EB; [discriminate|].
  apply reduce_loop_exact_P with (rho := rho) in H; [|apply mp_eval_const].
  rewrite H in Hid. lia.
Qed.

Lemma reduce_exact_quotient divf lcmf missedf fuel A B P Q R :
  reduce divf lcmf missedf ExactSparse fuel A B = Some (P, Q, R) -> cp_is_zero R = true ->
  forall rho xv, cp_eval rho xv Q * cp_eval rho xv B = cp_eval rho xv A.
Proof.
  intros H Hz rho xv. rewrite (reduce_exact_identity _ _ _ _ _ _ _ _ _ H rho xv).
  rewrite (cp_is_zero_eval rho xv R Hz). lia.
Qed.

(* ------------------------------------------------------------------ from the view back to polynomials *)
(* mp_of_coeffs x and mp_coeffs x are inverse up to evaluation: the identities above are identities of the
   multivariate polynomials the entry points m_reduce / m_prem / ... receive and return. *)

Lemma mp_eval_of_terms rho l :
  mp_eval rho (mp_of_terms l) = fold_right (fun t acc => snd t * mono_eval rho (fst t) + acc) 0 l.
Proof.
  unfold mp_of_terms. induction l as [|t l IH]; [reflexivity|].
  cbn [fold_right]. rewrite mp_eval_add_term, IH. reflexivity.
Qed.

Lemma mp_eval_var_pow rho x k : mp_eval rho (mp_var_pow x k) = rho x ^ Z.of_N k.
Proof.
  unfold mp_var_pow, mono_var. destruct (k =? 0)%N eqn:E.
  - apply N.eqb_eq in E. subst. cbn. reflexivity.
  - rewrite mp_eval_cons. cbn [fst snd]. rewrite mono_eval_cons.
    change (mono_eval rho []) with 1. change (mp_eval rho []) with 0. ring.
Qed.

Lemma mp_of_coeffs_fold rho x : forall l acc k,
  mp_eval rho (fst (fold_left (fun (acc : mpoly * N) c =>
       (mp_add (fst acc) (mp_mul c (mp_var_pow x (snd acc))), (snd acc + 1)%N)) l (acc, k))) =
  mp_eval rho acc + rho x ^ Z.of_N k * cp_eval rho (rho x) l.
Proof.
  induction l as [|c l IH]; intros acc k; cbn [fold_left fst snd cp_eval].
  - lia.
  - rewrite IH, mp_eval_add, mp_eval_mul, mp_eval_var_pow.
    rewrite N2Z.inj_add, Z.pow_add_r by lia. change (Z.of_N 1) with 1. rewrite Z.pow_1_r. ring.
Qed.

Lemma mp_of_coeffs_eval rho x l : mp_eval rho (mp_of_coeffs x l) = cp_eval rho (rho x) l.
Proof.
  unfold mp_of_coeffs. rewrite mp_of_coeffs_fold. change (Z.of_N 0) with 0. rewrite Z.pow_0_r.
  change (mp_eval rho []) with 0. ring.
Qed.

(* a canonical monomial splits into its x-free part and the power of x *)
Lemma mono_wf_from_gt : forall m y, mono_wf_from (Some y) m = true -> forall ve, In ve m -> (y < fst ve)%N.
Proof.
  induction m as [|[z e] m IH]; intros y H ve Hin; [destruct Hin|].
  cbn [mono_wf_from] in H. apply andb_true_iff in H. destruct H as [H H2].
  apply andb_true_iff in H. destruct H as [_ H1]. apply N.ltb_lt in H1.
  destruct Hin as [<-|Hin]; [assumption|].
  specialize (IH z H2 ve Hin). lia.
Qed.

Lemma mono_remove_noop x m : (forall ve, In ve m -> fst ve <> x) -> mono_remove x m = m.
Proof.
  unfold mono_remove. induction m as [|ve m IH]; intros H; [reflexivity|].
  cbn [filter]. cbv beta.
  match goal with |- context [negb ?b] => destruct b eqn:E end; cbn [negb].
  - exfalso. apply N.eqb_eq in E. apply (H ve); [left; reflexivity|assumption].
  - f_equal. apply IH. intros v Hv. apply H. right. assumption.
Qed.

Lemma mono_split rho x : forall m lo, mono_wf_from lo m = true ->
  mono_eval rho m = mono_eval rho (mono_remove x m) * rho x ^ Z.of_N (mono_deg x m).
Proof.
  induction m as [|[y e] m IH]; intros lo H.
  - cbn. reflexivity.
  - cbn [mono_wf_from] in H. apply andb_true_iff in H. destruct H as [_ H2].
    unfold mono_remove, mono_deg. cbn [filter fold_right fst snd]. cbv beta. cbn [fst snd].
    fold (mono_remove x m). fold (mono_deg x m).
    match goal with |- context [negb ?b] => destruct b eqn:E end; cbn [negb].
    + apply N.eqb_eq in E. subst y.
      rewrite mono_remove_noop.
      * rewrite mono_eval_cons. ring.
      * intros ve Hve. pose proof (mono_wf_from_gt m x H2 ve Hve). lia.
    + rewrite !mono_eval_cons, (IH (Some y) H2). ring.
Qed.

(* sums over 0 <= i < n in Horner form, as cp_eval computes them *)
Fixpoint sumx (xv : Z) (g : nat -> Z) (s n : nat) : Z :=
  match n with O => 0 | S n' => g s + xv * sumx xv g (S s) n' end.

Lemma cp_eval_map_seq rho xv (F : nat -> mpoly) : forall n s,
  cp_eval rho xv (map F (seq s n)) = sumx xv (fun k => mp_eval rho (F k)) s n.
Proof. induction n as [|n IH]; intros s; cbn [seq map cp_eval sumx]; [reflexivity|]. rewrite IH. reflexivity. Qed.

Lemma sumx_add xv g h : forall n s, sumx xv (fun k => g k + h k) s n = sumx xv g s n + sumx xv h s n.
Proof. induction n as [|n IH]; intros s; cbn [sumx]; [reflexivity|]. rewrite IH. ring. Qed.

Lemma sumx_ext xv g h : (forall k, g k = h k) -> forall n s, sumx xv g s n = sumx xv h s n.
Proof. intros E. induction n as [|n IH]; intros s; cbn [sumx]; [reflexivity|]. rewrite IH, E. reflexivity. Qed.

Lemma sumx_indicator xv (d : nat) a : forall n s,
  sumx xv (fun k => if (k =? d)%nat then a else 0) s n =
  if ((s <=? d) && (d <? s + n))%nat then a * xv ^ Z.of_nat (d - s) else 0.
Proof.
  induction n as [|n IH]; intros s; cbn [sumx].
  - destruct (s <=? d)%nat eqn:E1; cbn [andb]; [|reflexivity].
    replace (d <? s + 0)%nat with false; [reflexivity|].
    symmetry. apply Nat.ltb_ge. apply Nat.leb_le in E1. lia.
  - rewrite IH. destruct (Nat.eqb_spec s d) as [E|E].
    + subst d. replace (S s <=? s)%nat with false by (symmetry; apply Nat.leb_gt; lia). cbn [andb].
      rewrite Nat.leb_refl. replace (s <? s + S n)%nat with true by (symmetry; apply Nat.ltb_lt; lia).
      cbn [andb]. rewrite Nat.sub_diag. change (Z.of_nat 0) with 0. rewrite Z.pow_0_r. ring.
    + destruct (S s <=? d)%nat eqn:E1; cbn [andb].
      * apply Nat.leb_le in E1. replace (s <=? d)%nat with true by (symmetry; apply Nat.leb_le; lia). cbn [andb].
        replace (S s + n)%nat with (s + S n)%nat by lia.
        destruct (d <? s + S n)%nat; [|ring].
        replace (d - s)%nat with (S (d - S s)) by lia. rewrite Nat2Z.inj_succ, Z.pow_succ_r by lia. ring.
      * apply Nat.leb_gt in E1. replace (s <=? d)%nat with false by (symmetry; apply Nat.leb_gt; lia).
        cbn [andb]. ring.
Qed.

Lemma mp_coeff_cons_eval rho x k t p :
  mp_eval rho (mp_coeff x k (t :: p)) =
  (if (mono_deg x (fst t) =? k)%N then snd t * mono_eval rho (mono_remove x (fst t)) else 0) + mp_eval rho (mp_coeff x k p).
Proof.
  unfold mp_coeff. cbn [filter]. destruct (mono_deg x (fst t) =? k)%N.
  - cbn [map]. rewrite !mp_eval_of_terms. cbn [fold_right fst snd]. rewrite <- mp_eval_of_terms. reflexivity.
  - lia.
Qed.

Lemma mp_coeff_nil_eval rho x k : mp_eval rho (mp_coeff x k []) = 0.
Proof. reflexivity. Qed.

Lemma view_eval_terms rho x n : forall p,
  (forall t, In t p -> mono_wf (fst t) = true /\ (N.to_nat (mono_deg x (fst t)) < n)%nat) ->
  cp_eval rho (rho x) (map (fun k => mp_coeff x (N.of_nat k) p) (seq 0 n)) = mp_eval rho p.
Proof.
  induction p as [|t p IH]; intros H.
  - rewrite cp_eval_map_seq. rewrite (sumx_ext _ _ (fun _ => 0)) by (intros; apply mp_coeff_nil_eval).
    clear. generalize 0%nat. induction n as [|n IHn]; intros s; cbn [sumx]; [reflexivity|]. rewrite IHn. cbn. lia.
  - destruct (H t (or_introl eq_refl)) as [Hwf Hdeg].
    rewrite cp_eval_map_seq.
    rewrite (sumx_ext _ _ (fun k => (if (k =? N.to_nat (mono_deg x (fst t)))%nat
                                     then snd t * mono_eval rho (mono_remove x (fst t)) else 0)
                                    + mp_eval rho (mp_coeff x (N.of_nat k) p))).
    + rewrite sumx_add, sumx_indicator, <- cp_eval_map_seq, IH by (intros u Hu; apply H; right; assumption).
      cbn [Nat.leb andb]. replace (_ <? 0 + n)%nat with true by (symmetry; apply Nat.ltb_lt; lia).
      rewrite Nat.sub_0_r, N_nat_Z, mp_eval_cons.
      rewrite (mono_split rho x (fst t) None Hwf). ring.
    + intros k. rewrite mp_coeff_cons_eval. f_equal.
      destruct (Nat.eqb_spec k (N.to_nat (mono_deg x (fst t)))) as [E|E].
      * subst k. rewrite N2Nat.id, N.eqb_refl. reflexivity.
      * replace (mono_deg x (fst t) =? N.of_nat k)%N with false; [reflexivity|].
        symmetry. apply N.eqb_neq. intros E'. apply E. rewrite E', Nat2N.id. reflexivity.
Qed.

Lemma mp_degree_ge x : forall p t, In t p -> (mono_deg x (fst t) <= mp_degree x p)%N.
Proof.
  unfold mp_degree. induction p as [|u p IH]; intros t Hin; [destruct Hin|].
  destruct Hin as [<-|Hin]; cbn [fold_right]; [lia|].
  specialize (IH t Hin). lia.
Qed.

Lemma mp_wf_monos : forall p, mp_wf p = true -> forall t, In t p -> mono_wf (fst t) = true.
Proof.
  induction p as [|[m c] p IH]; intros H t Hin; [destruct Hin|].
  destruct Hin as [<-|Hin].
  - cbn [mp_wf] in H. repeat (apply andb_true_iff in H; destruct H as [H ?]). assumption.
  - cbn [mp_wf] in H. apply andb_true_iff in H. destruct H as [_ H]. apply IH; assumption.
Qed.

Lemma mp_coeffs_eval rho x p : mp_wf p = true -> cp_eval rho (rho x) (mp_coeffs x p) = mp_eval rho p.
Proof.
  intros Hwf. unfold mp_coeffs. destruct p as [|t p]; [reflexivity|].
  apply view_eval_terms. intros u Hu. split; [apply (mp_wf_monos _ Hwf); assumption|].
  pose proof (mp_degree_ge x _ u Hu). lia.
Qed.

(* the entry point on polynomials: coefficient_reduce(A, B, &P, &Q, &R, type) *)
Lemma m_reduce_identity lcmf fuel ty A B P Q R :
  mp_wf A = true -> mp_wf B = true ->
  m_reduce lcmf fuel ty A B = Some (P, Q, R) ->
  forall rho, mp_eval rho P * mp_eval rho A = mp_eval rho Q * mp_eval rho B + mp_eval rho R.
Proof.
  intros HA HB. unfold m_reduce. destruct (mp_top A) as [x|]; [|discriminate].
  destruct (cmp_type A B); try discriminate;
    (destruct (reduce _ _ _ _ _ _ _) as [[[P0 Q0] R0]|] eqn:E; [|discriminate]);
    intros H rho; inversion H; subst P Q R;
    pose proof (reduce_identity _ _ _ _ _ _ _ _ _ _ E rho (rho x)) as Hid;
    rewrite !mp_coeffs_eval in Hid by assumption; rewrite !mp_of_coeffs_eval; exact Hid.
Qed.
