(* C09 regression memory: algebraic_interval_restore (src/polynomial/coefficient.c) of the pinned tree.

   remember   stores the interval of a value only when !lp_value_is_rational(value); for every other value it stores
              the "zero interval" (a point, [0]) as a placeholder;
   restore    (pinned) wrote the cache into every value with type == ALGEBRAIC && !I.is_point.

   An algebraic number whose defining polynomial has degree 1 (the rational 1/3 held as the root of 3x - 1; every
   non-dyadic rational that passes through lp_algebraic_number_construct_from_rational, and every number reduced to a
   linear gcd by lp_algebraic_number_cmp) IS rational for `remember` but is NOT a point for `restore`: the
   placeholder [0] is written over its isolating interval by lp_dyadic_interval_assign (a := 0, b destructed,
   is_point := 1).  The value keeps its polynomial and from then on "is" the point 0.
   Reached from lp_polynomial_sgn / lp_polynomial_evaluate / lp_polynomial_roots_isolate as soon as one model value is
   such a number and another one is irrational.  Repair: fixes/C09-restore-rational.patch (Refine.an_restore). *)
From Coq Require Import ZArith NArith List Bool.
From LP Require Import UPoly Refine.
Import ListNotations.
Local Open Scope Z_scope.

(* the pinned restore: the cache (None = the placeholder [0]) is written whenever the value is not a point *)
Definition an_restore_prefix (x : anum) (c : option (dyq * dyq)) : anum :=
  if an_is_point x then x
  else match c with
       | Some (a, b) => an_set_I x a b
       | None => an_set_I x (0, 0%N) (0, 0%N)
       end.

(* 1/3 as libpoly holds it after lp_algebraic_number_construct_from_rational: <3x - 1, (1/4, 1/2)> *)
Definition third : anum := mkAnum (Some [-1; 3]) (1, 2%N) (1, 1%N) (-1) 1.

(* the same question before and after one remember/restore bracket: 1/3 > 1/4 becomes "1/3" < 1/4, the isolating
   interval is no interval any more, and floor / sign are those of 0 *)
Theorem C09_restore_prefix_refuted :
  exists x,
    an_cmp_q 100 x (1, 4) = Some (x, 1) /\
    let x' := an_restore_prefix x (an_remember x) in
    an_cmp_q 100 x' (1, 4) = Some (x', -1) /\ dyq_lt (aa x') (ab x') = false /\ af x' <> None.
Proof. exists third. vm_compute. repeat split; discriminate. Qed.

(* the repaired restore leaves the number alone *)
Theorem C09_restore_repaired_on_witness : an_restore third (an_remember third) = third.
Proof. reflexivity. Qed.
