(* Naturality of the sweeps of FeasSweep.v: they commute with every order embedding of the carrier.  Used to move a
   set computed on the RANKS of the roots (what the checks run) to the real numbers the roots denote. *)
From Coq Require Import ZArith List Bool Arith Lia.
From LP Require Import FeasSweep.
Import ListNotations.
Local Open Scope Z_scope.

Section Nat.
Variables (T U : Type) (cmpT : T -> T -> comparison) (cmpU : U -> U -> comparison) (f : T -> U).
(* f only has to respect the order on the listed roots *)
Variable roots : list T.
Hypothesis f_mono : forall a b, In a roots -> In b roots -> cmpU (f a) (f b) = cmpT a b.

Definition ext_in (a : ext T) : Prop := match a with Finite t => In t roots | _ => True end.

Definition map_ext (a : ext T) : ext U :=
  match a with NegInf => NegInf | Finite t => Finite (f t) | PosInf => PosInf end.
Definition map_iv (i : interval T) : interval U :=
  match i with IPoint a => IPoint (map_ext a) | IIv a ao b bo => IIv (map_ext a) ao (map_ext b) bo end.

Lemma ext_cmp_map : forall a b, ext_in a -> ext_in b -> ext_cmp U cmpU (map_ext a) (map_ext b) = ext_cmp T cmpT a b.
Proof. intros [| x |] [| y |] Ha Hb; cbn; try reflexivity. apply f_mono; assumption. Qed.

Lemma mk_interval_map : forall a ao b bo, ext_in a -> ext_in b ->
  map_iv (mk_interval T cmpT a ao b bo) = mk_interval U cmpU (map_ext a) ao (map_ext b) bo.
Proof.
  intros a ao b bo Ha Hb. unfold mk_interval. rewrite ext_cmp_map by assumption.
  destruct (ext_cmp T cmpT a b); try reflexivity. destruct (ao || bo); reflexivity.
Qed.

Lemma root_at_map : forall i, root_at U (map f roots) i = map_ext (root_at T roots i).
Proof.
  intros i. unfold root_at. rewrite nth_error_map. destruct (nth_error roots i); reflexivity.
Qed.
Lemma root_at_in : forall i, ext_in (root_at T roots i).
Proof.
  intros i. unfold root_at. destruct (nth_error roots i) eqn:E; [| exact I]. cbn. eapply nth_error_In; eassumption.
Qed.

Lemma run_interval_map : forall size lb ub,
  map_iv (run_interval T cmpT roots size lb ub) = run_interval U cmpU (map f roots) size lb ub.
Proof.
  intros size lb ub. unfold run_interval.
  destruct (Nat.eqb lb (ub + 1) && Nat.odd lb).
  - unfold mk_point. cbn [map_iv]. rewrite root_at_map. reflexivity.
  - rewrite !root_at_map.
    destruct (Nat.eqb (lb mod 2) 1); destruct (Nat.eqb lb 0); destruct (Nat.eqb (ub mod 2) 0); destruct (Nat.eqb ub size);
      rewrite mk_interval_map; try reflexivity; try apply root_at_in; exact I.
Qed.

Lemma collect_runs_map : forall fuel cons size lb,
  map map_iv (collect_runs T cmpT fuel roots cons size lb) = collect_runs U cmpU fuel (map f roots) cons size lb.
Proof.
  induction fuel as [| fuel IH]; intros cons size lb; cbn [collect_runs]; [reflexivity |].
  destruct (Nat.ltb lb size); [| reflexivity].
  destruct (Nat.ltb (scan (fun i => negb (cons i)) lb (size - lb)) size); [| reflexivity].
  cbn [map]. rewrite run_interval_map, IH. reflexivity.
Qed.

Lemma full_interval_map : map_iv (full_interval T cmpT) = full_interval U cmpU.
Proof. unfold full_interval. rewrite mk_interval_map; [reflexivity | exact I | exact I]. Qed.

Theorem constraint_feasible_set_map : forall degree sgn_const sgn_lc sign_mid sc negated,
  map map_iv (constraint_feasible_set T cmpT roots degree sgn_const sgn_lc sign_mid sc negated)
  = constraint_feasible_set U cmpU (map f roots) degree sgn_const sgn_lc sign_mid sc negated.
Proof.
  intros. unfold constraint_feasible_set. rewrite map_length.
  destruct (Nat.eqb degree 0).
  - destruct (sc_consistent (if negated then sc_negate sc else sc) sgn_const); cbn [map]; [rewrite full_interval_map |]; reflexivity.
  - apply collect_runs_map.
Qed.

Theorem root_constraint_feasible_set_map : forall degree k sc negated,
  map map_iv (root_constraint_feasible_set T cmpT roots degree k sc negated)
  = root_constraint_feasible_set U cmpU (map f roots) degree k sc negated.
Proof.
  intros. unfold root_constraint_feasible_set. rewrite map_length.
  destruct (Nat.eqb degree 0).
  - destruct (negb negated); cbn [map]; [| rewrite full_interval_map]; reflexivity.
  - destruct (Nat.leb (length roots) k).
    + destruct (negb negated); cbn [map]; [| rewrite full_interval_map]; reflexivity.
    + rewrite root_at_map.
      pose proof (root_at_in k) as Hk.
      destruct (if negated then sc_negate sc else sc); cbn [map]; unfold mk_point;
        rewrite ?mk_interval_map; try reflexivity; try exact Hk; exact I.
Qed.

End Nat.
