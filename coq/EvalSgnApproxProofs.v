(* C10 proofs: coefficient_value_approx never loses the value (DESIGN C10.2), from the C15 theorems about
   rational_interval_pow / mul / add (IntervalArithProofs.v).  Members are RATIONAL numbers (stdlib Q, as in C15;
   polynomial values are computed in Qc and read back through `this`): see docs/C10.md for what is missing for
   irrational members. *)
From Coq Require Import ZArith NArith List Bool Lia Lqa QArith Qcanon Qpower.
From LP Require Import Scalar ScalarProofs UPoly MPoly IntervalArith IntervalArithProofs EvalSgn EvalSgnProofs EvalSgnApprox.
Import ListNotations.
Local Open Scope Q_scope.

(* ---- Qc -> Q *)
Lemma this_add (a b : Qc) : this (a + b)%Qc == this a + this b.
Proof. unfold Qcplus, Q2Qc, this at 1. apply Qred_correct. Qed.
Lemma this_mul (a b : Qc) : this (a * b)%Qc == this a * this b.
Proof. unfold Qcmult, Q2Qc, this at 1. apply Qred_correct. Qed.
Lemma this_pow (a : Qc) n : this (Qcpower a n) == this a ^ Z.of_nat n.
Proof.
  induction n as [|n IH]; [reflexivity|].
  cbn [Qcpower]. rewrite this_mul, IH, Nat2Z.inj_succ. unfold Z.succ.
  destruct (Qeq_dec (this a) 0) as [E|E].
  - rewrite E. rewrite Qmult_0_l. destruct (Z.of_nat n + 1)%Z eqn:Ez; try lia. cbn. symmetry. apply Qpower_positive_0.
  - rewrite Qpower_plus by exact E. cbn. ring.
Qed.
Lemma this_zq c : this (zq c) == inject_Z c.
Proof. unfold zq, Q2Qc, this. apply Qred_correct. Qed.

(* ---- variables of a canonical polynomial *)
Definition mwf (p : mpoly) : Prop := forall t, In t p -> mono_wf (fst t) = true.
Definition vars_in (order : list var) (p : mpoly) : Prop :=
  forall t, In t p -> forall ve, In ve (fst t) -> In (fst ve) order.

Lemma mono_wf_from_in lo m x e : mono_wf_from lo m = true -> In (x, e) m -> (0 < e)%N /\ mono_deg x m = e.
Proof.
  revert lo. induction m as [|[y f] m IH]; intros lo H Hin; [destruct Hin|].
  cbn [mono_wf_from] in H. apply andb_prop in H. destruct H as [H H3]. apply andb_prop in H. destruct H as [H1 _].
  unfold mono_deg. cbn [fold_right fst snd]. fold (mono_deg x m).
  destruct Hin as [E|Hin].
  - injection E as -> ->. rewrite N.eqb_refl. split; [apply N.ltb_lt; exact H1|reflexivity].
  - destruct (IH (Some y) H3 Hin) as [He Hd].
    destruct (mono_wf_from_ok m (Some y) H3) as [_ Hgt].
    assert (Hy : (y < x)%N) by (apply (Hgt x); apply in_map_iff; exists (x, e); split; [reflexivity|exact Hin]).
    destruct (N.eqb_spec y x) as [->|_]; [lia|]. split; assumption.
Qed.

Lemma mwf_monos_ok p : mwf p -> monos_ok p.
Proof. intros H t Ht. unfold mono_ok. apply (mono_wf_from_ok (fst t) None). apply H, Ht. Qed.

Lemma mono_deg_le_degree x t p : In t p -> (mono_deg x (fst t) <= mp_degree x p)%N.
Proof.
  induction p as [|u p IH]; intros Hin; [destruct Hin|].
  unfold mp_degree. cbn [fold_right]. fold (mp_degree x p). destruct Hin as [->|Hin]; [lia|]. specialize (IH Hin). lia.
Qed.

Lemma vars_in_deg0 x rest p : mwf p -> vars_in (x :: rest) p -> mp_degree x p = 0%N -> vars_in rest p.
Proof.
  intros Hw Hv Hd t Ht [y e] Hve. cbn [fst].
  destruct (Hv t Ht (y, e) Hve) as [E|Hin]; [|exact Hin]. cbn [fst] in E. subst y.
  destruct (mono_wf_from_in None (fst t) x e (Hw t Ht) Hve) as [He Hdeg].
  pose proof (mono_deg_le_degree x t p Ht). lia.
Qed.

Lemma mono_wf_from_remove x m : forall lo, mono_wf_from lo m = true -> mono_wf_from lo (mono_remove x m) = true.
Proof.
  unfold mono_remove. induction m as [|[y e] m IH]; intros lo H; [reflexivity|].
  cbn [mono_wf_from] in H. apply andb_prop in H. destruct H as [H H3]. apply andb_prop in H. destruct H as [H1 H2].
  cbn [filter fst]. destruct (negb (N.eqb y x)).
  - cbn [mono_wf_from]. rewrite H1, H2, (IH _ H3). reflexivity.
  - specialize (IH _ H3). clear -IH H2.
    (* weaken the lower bound from Some y to lo *)
    destruct (filter (fun ve => negb (N.eqb (fst ve) x)) m) as [|[z f] m'] eqn:E; [reflexivity|].
    cbn [mono_wf_from] in *. apply andb_prop in IH. destruct IH as [IH I3]. apply andb_prop in IH. destruct IH as [I1 I2].
    rewrite I1, I3. destruct lo as [l|]; [|reflexivity]. apply N.ltb_lt in H2, I2.
    replace (l <? z)%N with true by (symmetry; apply N.ltb_lt; lia). reflexivity.
Qed.

Lemma coeff_terms x k p t : In t (mp_coeff x k p) -> exists u, In u p /\ fst t = mono_remove x (fst u).
Proof.
  unfold mp_coeff. intros H. apply in_of_terms in H. destruct H as [w [Hw Hf]].
  apply in_map_iff in Hw. destruct Hw as [u [<- Hu]]. apply filter_In in Hu. exists u. split; [tauto|symmetry; exact Hf].
Qed.

Lemma mwf_coeff x k p : mwf p -> mwf (mp_coeff x k p).
Proof.
  intros Hw t Ht. destruct (coeff_terms x k p t Ht) as [u [Hu ->]]. apply mono_wf_from_remove, Hw, Hu.
Qed.

Lemma vars_in_coeff x rest k p : vars_in (x :: rest) p -> vars_in rest (mp_coeff x k p).
Proof.
  intros Hv t Ht ve Hve. destruct (coeff_terms x k p t Ht) as [u [Hu E]]. rewrite E in Hve.
  unfold mono_remove in Hve. apply filter_In in Hve. destruct Hve as [Hin Hne].
  destruct (Hv u Hu ve Hin) as [Ex|H]; [|exact H]. rewrite Ex, N.eqb_refl in Hne. discriminate.
Qed.

(* a polynomial without variables: its value is the integer mp_eval gives *)
Lemma evalQ_no_vars rho p : vars_in [] p -> mp_evalQ rho p = zq (mp_eval (fun _ => 0%Z) p).
Proof.
  intros Hv. induction p as [|[m c] p IH]; [reflexivity|].
  rewrite evalQ_cons, IH by (intros t Ht; apply Hv; right; exact Ht).
  unfold mp_eval. cbn [fold_right fst snd]. rewrite zq_add, zq_mul.
  destruct m as [|ve m]; [|destruct (Hv (ve :: m, c) (or_introl eq_refl) ve (or_introl eq_refl))].
  reflexivity.
Qed.

Lemma rwf_rpt_ok I : rwf I -> rpt_ok I.
Proof. intros (_ & _ & H). exact H. Qed.

Lemma ri_zero_ok : rin 0 ri_zero /\ rwf ri_zero.
Proof.
  split; [unfold rin, Qin, ri_zero; cbn; reflexivity|].
  split; [|split]; cbn; try (split; cbn; [lia|reflexivity]). intros _. auto.
Qed.

Lemma ri_point_ok (q : rat) : q_wf q -> rin (QofR q) (gi_point rat_ops q) /\ rwf (gi_point rat_ops q).
Proof.
  intros Hq. split; [unfold rin, Qin; cbn; reflexivity|].
  split; [exact Hq|split]; cbn; [split; cbn; [lia|reflexivity]|intros _; auto].
Qed.

Section Loop.
Variables (rec : mpoly -> ritv) (E : mpoly -> Qc) (xv : ritv) (xq : Qc).
Hypothesis Hx : rin (this xq) xv.
Hypothesis Wx : rwf xv.

(* the loop of coefficient_value_approx: result encloses the partial power sum *)
Lemma va_loop_correct cs : (forall c, In c cs -> rin (this (E c)) (rec c) /\ rwf (rec c)) ->
  (forall c, In c cs -> mp_is_zero c = true -> E c = Q2Qc 0) ->
  forall i (r : Qc) result tmp1 tmp2, rin (this r) result -> rwf result -> rwf tmp1 -> rwf tmp2 ->
  let st := va_loop rec xv cs (N.of_nat i) (result, tmp1, tmp2) in
  rin (this (r + wsum (map E cs) xq i)%Qc) (fst (fst st)) /\ rwf (fst (fst st)).
Proof.
  induction cs as [|c cs IH]; intros Hrec Hz i r result tmp1 tmp2 Hr Wr W1 W2; cbn [va_loop map wsum].
  - cbn [fst]. split; [|exact Wr]. eapply Qin_compat; [|exact Hr]. rewrite this_add. cbn. ring.
  - assert (Hrec' : forall c', In c' cs -> rin (this (E c')) (rec c') /\ rwf (rec c')) by (intros; apply Hrec; right; assumption).
    assert (Hz' : forall c', In c' cs -> mp_is_zero c' = true -> E c' = Q2Qc 0) by (intros; apply Hz; [right|]; assumption).
    replace (N.succ (N.of_nat i)) with (N.of_nat (S i)) by lia.
    destruct (mp_is_zero c) eqn:Ec.
    + destruct (IH Hrec' Hz' (S i) r result tmp1 tmp2 Hr Wr W1 W2) as [H W]. split; [|exact W].
      eapply Qin_compat; [|exact H]. rewrite (Hz c (or_introl eq_refl) Ec), !this_add, this_mul. cbn. ring.
    + destruct (Hrec c (or_introl eq_refl)) as [Hc Wc].
      destruct (ri_pow_correct NoAlias tmp2 xv (N.of_nat i) (this xq) I (rwf_rpt_ok _ W2) Wx Hx) as [Hp Wp].
      destruct (ri_mul_correct AliasA _ _ (rec c) _ _ eq_refl (rwf_rpt_ok _ Wp) Wp Wc Hp Hc) as [Hm Wm].
      destruct (ri_add_correct AliasA _ _ _ _ _ eq_refl (rwf_rpt_ok _ Wr) Wr Wm Hr Hm) as [Ha Wa].
      set (res' := ri_add AliasA result result _) in *.
      assert (Hres : rin (this (r + E c * Qcpower xq i)%Qc) res').
      { eapply Qin_compat; [|exact Ha]. rewrite this_add, this_mul, this_pow, nat_N_Z. ring. }
      destruct (IH Hrec' Hz' (S i) _ res' (rec c) _ Hres Wa Wc Wm) as [H W]. split; [|exact W].
      eapply Qin_compat; [|exact H]. rewrite !this_add. ring.
Qed.
End Loop.

(* (2) encloses, for RATIONAL members: if every variable's value lies in its interval, the value of C lies in the
   interval computed by coefficient_value_approx, and that interval satisfies the data-structure invariant *)
Theorem value_approx_encloses : forall order m rho C,
  (forall x, rwf (m x)) -> (forall x, rin (this (rho x)) (m x)) ->
  mwf C -> vars_in order C ->
  rin (this (mp_evalQ rho C)) (value_approx order m C) /\ rwf (value_approx order m C).
Proof.
  intros order m rho C Wm Hm. revert C. induction order as [|x rest IH]; intros C Hw Hv; cbn [value_approx].
  - rewrite (evalQ_no_vars rho C Hv).
    destruct (ri_point_ok (q_from_integer (mp_eval (fun _ => 0%Z) C)) (q_wf_integer _)) as [H W]. split; [|exact W].
    eapply Qin_compat; [|exact H]. rewrite this_zq. unfold QofR, q_from_integer. cbn. field.
  - destruct (N.eqb_spec (mp_degree x C) 0) as [Hd|Hd]; [apply IH; [exact Hw|exact (vars_in_deg0 x rest C Hw Hv Hd)]|].
    set (D := N.to_nat (mp_degree x C)).
    assert (HC : mp_coeffs x C = map (fun k => mp_coeff x (N.of_nat k) C) (seq 0 (S D))).
    { unfold mp_coeffs. destruct C; [contradiction Hd; reflexivity|reflexivity]. }
    rewrite HC.
    destruct ri_zero_ok as [H0 W0].
    pose proof (va_loop_correct (value_approx rest m) (mp_evalQ rho) (m x) (rho x) (Hm x) (Wm x)
                  (map (fun k => mp_coeff x (N.of_nat k) C) (seq 0 (S D)))) as HL.
    destruct (HL) with (i := O) (r := Q2Qc 0) (result := ri_zero) (tmp1 := ri_zero) (tmp2 := ri_zero) as [H W]; try assumption.
    + intros c Hc. apply in_map_iff in Hc. destruct Hc as [k [<- _]].
      apply IH; [apply mwf_coeff; exact Hw|apply vars_in_coeff; exact Hv].
    + intros c _ Hc. destruct c; [reflexivity|discriminate].
    + split; [|exact W]. eapply Qin_compat; [|exact H].
      rewrite (evalQ_decompose rho x C D (mwf_monos_ok C Hw)) by (unfold D; lia).
      rewrite map_map, this_add. cbn. ring.
Qed.

Local Open Scope Z_scope.

(* ================================================================ the numeric exit is always taken for rational assignments *)
Definition is_const (p : mpoly) : Prop := p = [] \/ exists c, c <> 0 /\ p = [([], c)].

Lemma is_const_numeric p : is_const p -> exists c, mp_numeric p = Some c.
Proof. intros [->|[c [_ ->]]]; [exists 0|exists c]; reflexivity. Qed.

Lemma is_const_scale k p : is_const p -> is_const (mp_scale k p).
Proof.
  unfold mp_scale. intros [->|[c [Hc ->]]]; destruct (Z.eqb_spec k 0) as [->|Hk]; try (left; reflexivity).
  right. exists (k * c). split; [lia|reflexivity].
Qed.

Lemma is_const_add p q : is_const p -> is_const q -> is_const (mp_add p q).
Proof.
  unfold mp_add. intros [->|[c [Hc ->]]] Hq; [exact Hq|]. cbn [fold_right].
  destruct Hq as [->|[c' [Hc' ->]]]; cbn [mp_add_term].
  - apply Z.eqb_neq in Hc. rewrite Hc. right. exists c. split; [apply Z.eqb_neq; exact Hc|reflexivity].
  - pose proof Hc as Hc0. apply Z.eqb_neq in Hc0. rewrite Hc0. cbn [mono_cmp].
    destruct (Z.eqb_spec (c + c') 0) as [E|E]; [left; reflexivity|right; exists (c + c'); split; [exact E|reflexivity]].
Qed.

Lemma is_const_sum_scaled brs : (forall br, In br brs -> is_const (fst br)) -> is_const (sum_scaled brs).
Proof.
  unfold sum_scaled. assert (H : forall acc, is_const acc -> (forall br, In br brs -> is_const (fst br)) ->
      is_const (fold_left (fun acc br => mp_add acc (mp_scale (snd br) (fst br))) brs acc)).
  { induction brs as [|br brs IH]; intros acc Ha Hb; cbn [fold_left]; [exact Ha|].
    apply IH; [|intros b Hb'; apply Hb; right; exact Hb'].
    apply is_const_add; [exact Ha|apply is_const_scale, Hb; left; reflexivity]. }
  intros Hb. apply H; [left; reflexivity|exact Hb].
Qed.

Lemma subst_terms_fst rs m p q n : forall i br, In br (subst_terms rs m p q i n) -> exists r, In r rs /\ fst br = fst r.
Proof.
  induction rs as [|r rs IH]; intros i br; cbn [subst_terms]; [intros []|].
  intros [<-|H]; [exists r; split; [left|]; reflexivity|].
  destruct (IH _ _ H) as [r' [Hr' E]]. exists r'. split; [right; exact Hr'|exact E].
Qed.

(* canonical form without variables *)
Lemma wf_no_vars_const p : mp_wf p = true -> vars_in [] p -> is_const p.
Proof.
  intros Hw Hv. destruct p as [|[m c] p]; [left; reflexivity|].
  assert (Hm : m = []) by (destruct m as [|ve m]; [reflexivity|destruct (Hv _ (or_introl eq_refl) ve (or_introl eq_refl))]).
  subst m. cbn [mp_wf] in Hw. apply andb_prop in Hw. destruct Hw as [Hw _]. apply andb_prop in Hw. destruct Hw as [Hw Hgt].
  apply andb_prop in Hw. destruct Hw as [_ Hc].
  destruct p as [|[m' c'] p].
  - right. exists c. split; [|reflexivity]. intros ->. discriminate.
  - destruct m' as [|ve m']; [cbn in Hgt; discriminate|].
    destruct (Hv _ (or_intror (or_introl eq_refl)) ve (or_introl eq_refl)).
Qed.

Lemma mp_wf_mwf' p : mp_wf p = true -> mwf p.
Proof.
  induction p as [|[m c] p IH]; intros H t Ht; [destruct Ht|].
  cbn [mp_wf] in H. apply andb_prop in H. destruct H as [H H4]. apply andb_prop in H. destruct H as [H _].
  apply andb_prop in H. destruct H as [H1 _]. destruct Ht as [<-|Ht]; [exact H1|exact (IH H4 t Ht)].
Qed.
