(* C13 - the integer queries on REAL end points.
   An end point is -inf, +inf or a real number v of an arbitrary real closed field R; its [epi] view
   (is_integer, floor, ceiling) is correct when it says what Base_rn_is_integer / Base_rn_floor / Base_rn_ceiling
   prove of the reference computations.  For such views the integer-only characterisation [ei_mem] is membership
   of the integer in the real interval, hence ei_contains_int / ei_count_int answer for the real interval. *)
From Coq Require Import ZArith Lia List.
From LP Require Import Scalar UPoly RefAlg FeasSet FeasSetSpec FeasSetProofs.
Set Warnings "-notation-overridden,-ambiguous-paths".
From mathcomp Require Import all_ssreflect all_algebra all_real_closed.
From mathcomp Require Import ssrZ zify ring.
Set Warnings "notation-overridden,ambiguous-paths".
From LP Require Import UPolySpec ScalarProofs RefAlgSpec RefAlgLoops.
Import GRing.Theory Num.Theory Num.Def Order.TTheory.
Set Implicit Arguments.
Unset Strict Implicit.
Unset Printing Implicit Defensive.
Local Open Scope ring_scope.

Section RealEnds.
Variable R : rcfType.
Local Notation zr := (@zr R).
Local Notation Z1 := (Zpos xH).

Inductive rend := RMinf | RFin (v : R) | RPinf.

(* the view e describes the end point x *)
Definition view_of (e : epi) (x : rend) : Prop :=
  match e, x with
  | EPInf, RMinf => Logic.True
  | EPInf, RPinf => Logic.True
  | EPFin b fl ce, RFin v =>
      [/\ (b = true <-> exists z : Z, v = zr z), zr fl <= v < zr fl + 1 & zr ce - 1 < v <= zr ce]
  | _, _ => Logic.False
  end.

Definition rlow (x : rend) (o : bool) (z : Z) : Prop :=
  match x with RMinf => Logic.True | RFin v => if o then v < zr z else v <= zr z | RPinf => Logic.False end.
Definition rup (x : rend) (o : bool) (z : Z) : Prop :=
  match x with RPinf => Logic.True | RFin v => if o then zr z < v else zr z <= v | RMinf => Logic.False end.
(* the integer z belongs to the real interval with ends a, b *)
Definition rmem (z : Z) (a : rend) (ao : bool) (b : rend) (bo : bool) : Prop := rlow a ao z /\ rup b bo z.
Definition rlt (a b : rend) : Prop :=
  match a, b with
  | RMinf, RMinf => Logic.False | RMinf, _ => Logic.True
  | RFin v, RFin w => v < w | RFin _, RPinf => Logic.True
  | _, _ => Logic.False
  end.

Lemma zr_sub1 (z : Z) : zr z - 1 = zr (Z.sub z Z1).
Proof. by rewrite -(zr1 R) -(rmorphB (zr_rmorphism R)). Qed.
Lemma zr_add1 (z : Z) : zr z + 1 = zr (Z.add z Z1).
Proof. by rewrite zrD zr1. Qed.

Lemma view_consistent b fl ce v : view_of (EPFin b fl ce) (RFin v) -> epi_wf (EPFin b fl ce).
Proof.
case=> Hb /andP[f1 f2] /andP[c1 c2] /=.
case: b Hb => Hb.
  have [k Ek] : exists z, v = zr z by apply/Hb.
  move: f1 f2 c1 c2; rewrite Ek zr_add1 zr_sub1 !zr_le !zr_lt => /Z.leb_le ? /Z.ltb_lt ? /Z.ltb_lt ? /Z.leb_le ?; lia.
have Hn : forall z, v <> zr z by move=> z Ez; have: false = true by apply/Hb; exists z.
have H1 : zr fl < zr ce.
  rewrite lt_neqAle (le_trans f1 c2) andbT; apply/eqP => E.
  by apply: (Hn fl); apply/eqP; rewrite eq_le f1 andbT E.
have H2 : zr (Z.sub ce Z1) < zr (Z.add fl Z1) by rewrite -zr_sub1 -zr_add1; exact: lt_trans c1 f2.
move: H1 H2; rewrite !zr_lt => /Z.ltb_lt ? /Z.ltb_lt ?; lia.
Qed.

Lemma rlow_view b fl ce v o z : view_of (EPFin b fl ce) (RFin v) ->
  rlow (RFin v) o z <-> epi_low (EPFin b fl ce) o z.
Proof.
move=> V; have W := view_consistent V; case: V => Hb /andP[f1 f2] /andP[c1 c2] /=.
case: b Hb W => Hb /= W.
  have [k Ek] : exists z, v = zr z by apply/Hb.
  have Ekf : k = fl.
    by move: f1 f2; rewrite Ek zr_add1 !zr_le !zr_lt => /Z.leb_le ? /Z.ltb_lt ?; lia.
  rewrite Ek Ekf; case: o => /=.
    by rewrite zr_lt; split=> [/Z.ltb_lt H|H]; [lia | apply/Z.ltb_lt; lia].
  by rewrite zr_le; split=> [/Z.leb_le H|H]; [lia | apply/Z.leb_le; lia].
have Hn : forall z, v <> zr z by move=> y Ey; have: false = true by apply/Hb; exists y.
have Hle : v <= zr z <-> Z.le ce z.
  split=> [Hv|Hz].
    have: zr (Z.sub ce Z1) < zr z by rewrite -zr_sub1; exact: lt_le_trans c1 Hv.
    by rewrite zr_lt => /Z.ltb_lt ?; lia.
  by apply: (le_trans c2); rewrite zr_le; apply/Z.leb_le.
case: o => //; rewrite -Hle; split=> [/ltW //|Hv].
by rewrite lt_neqAle Hv andbT; apply/eqP; exact: Hn.
Qed.

Lemma rup_view b fl ce v o z : view_of (EPFin b fl ce) (RFin v) ->
  rup (RFin v) o z <-> epi_up (EPFin b fl ce) o z.
Proof.
move=> V; have W := view_consistent V; case: V => Hb /andP[f1 f2] /andP[c1 c2] /=.
case: b Hb W => Hb /= W.
  have [k Ek] : exists z, v = zr z by apply/Hb.
  have Ekf : k = fl.
    by move: f1 f2; rewrite Ek zr_add1 !zr_le !zr_lt => /Z.leb_le ? /Z.ltb_lt ?; lia.
  rewrite Ek Ekf; case: o => /=.
    by rewrite zr_lt; split=> [/Z.ltb_lt H|H]; [lia | apply/Z.ltb_lt; lia].
  by rewrite zr_le; split=> [/Z.leb_le H|H]; [lia | apply/Z.leb_le; lia].
have Hn : forall z, v <> zr z by move=> y Ey; have: false = true by apply/Hb; exists y.
have Hle : zr z <= v <-> Z.le z fl.
  split=> [Hv|Hz].
    have: zr z < zr (Z.add fl Z1) by rewrite -zr_add1; exact: le_lt_trans Hv f2.
    by rewrite zr_lt => /Z.ltb_lt ?; lia.
  by apply: le_trans f1; rewrite zr_le; apply/Z.leb_le.
case: o => //; rewrite -Hle; split=> [/ltW //|Hv].
by rewrite lt_neqAle Hv andbT; apply/eqP => E; exact: (Hn z).
Qed.
Lemma gap_view ba fa ca va bb fb cb vb :
  view_of (EPFin ba fa ca) (RFin va) -> view_of (EPFin bb fb cb) (RFin vb) -> va < vb ->
  Z.le (if ba then Z.add fa Z1 else ca) (Z.add (if bb then Z.sub fb Z1 else fb) Z1).
Proof.
move=> Va Vb Hlt.
set m := (if ba then _ else _); set u := (if bb then _ else _).
have H1 : zr (Z.sub m Z1) <= va.
  rewrite leNgt; apply/negP => K.
  have /(rlow_view true (Z.sub m Z1) Va) /= : rlow (RFin va) true (Z.sub m Z1) by [].
  by rewrite -/m; case: (ba) => ?; lia.
have H2 : vb <= zr (Z.add u Z1).
  rewrite leNgt; apply/negP => K.
  have /(rup_view true (Z.add u Z1) Vb) /= : rup (RFin vb) true (Z.add u Z1) by [].
  by rewrite -/u; case: (bb) => ?; lia.
have: zr (Z.sub m Z1) < zr (Z.add u Z1) by exact: le_lt_trans H1 (lt_le_trans Hlt H2).
by rewrite zr_lt => /Z.ltb_lt ?; lia.
Qed.

(* the views of the ends of X describe the real interval with ends a, b (a point when ipt X) *)
Definition real_ends_ok (X : itv epi) (a b : rend) : Prop :=
  if ipt X then [/\ ia_open X = false, ib_open X = false, ib X = ia X, b = a & view_of (ia X) a /\ exists v, a = RFin v]
  else [/\ view_of (ia X) a, view_of (ib X) b & rlt a b].

Theorem real_view X a b : real_ends_ok X a b ->
  view_wf X /\ forall z, ei_mem z X <-> rmem z a (ia_open X) b (ib_open X).
Proof.
case: X => ea eb ao bo p; rewrite /real_ends_ok /view_wf /ei_mem /rmem /=.
case: p => /=.
  case=> -> -> -> -> [Va [v Ev]]; subst a.
  case: ea Va => [|ba fa ca] //= Va.
  have W := view_consistent Va.
  split; first by split=> //; split.
  move=> z; split=> -[A B]; split.
  - exact/(rlow_view false z Va). - exact/(rup_view false z Va).
  - exact/(rlow_view false z Va). - exact/(rup_view false z Va).
case=> Va Vb Hlt.
case: ea a Va Hlt => [|ba fa ca] [|va|] //= Va; case: eb b Vb => [|bb fb cb] [|vb|] //= Vb Hlt.
- have Wb := view_consistent Vb; split; first by split=> //; split=> //; exact: Wb.
  move=> z; split=> -[A B]; split=> //; exact/(rup_view bo z Vb).
- have Wa := view_consistent Va; split; first by split=> //; exact: Wa.
  move=> z; split=> -[A B]; split=> //; exact/(rlow_view ao z Va).
- have Wa := view_consistent Va; have Wb := view_consistent Vb.
  split; first by split; [exact: Wa | split; [exact: Wb | exact: gap_view Va Vb Hlt]].
  move=> z; split=> -[A B]; split.
  - exact/(rlow_view ao z Va). - exact/(rup_view bo z Vb).
  - exact/(rlow_view ao z Va). - exact/(rup_view bo z Vb).
Qed.

(* lp_interval_contains_int on real end points *)
Theorem real_contains_int X a b : real_ends_ok X a b ->
  (ei_contains_int X = true <-> exists z : Z, rmem z a (ia_open X) b (ib_open X)).
Proof.
move=> H; have [W M] := real_view H.
rewrite (ei_contains_int_core X W); split=> -[z Hz]; exists z; exact/M.
Qed.

(* lp_interval_count_int on real end points *)
Theorem real_count_int X a b : real_ends_ok X a b ->
  [/\ Z.le Z0 (ei_count_int X) /\ Z.le (ei_count_int X) LONG_MAX,
      (Z.lt (ei_count_int X) LONG_MAX -> exists lo : Z, forall z : Z,
         rmem z a (ia_open X) b (ib_open X) <-> Z.le lo z /\ Z.lt z (Z.add lo (ei_count_int X)))
    & (ei_count_int X = LONG_MAX -> exists lo : Z, forall z : Z,
         Z.le lo z /\ Z.lt z (Z.add lo LONG_MAX) -> rmem z a (ia_open X) b (ib_open X))].
Proof.
move=> H; have [W M] := real_view H.
have [Rg [Ex Sat]] := ei_count_int_core X W.
split=> //.
  by move=> C; have [lo Hlo] := Ex C; exists lo => z; rewrite -M.
by move=> C; have [lo Hlo] := Sat C; exists lo => z Hz; apply/M; exact: Hlo.
Qed.

(* the view computed by the reference (what the model driver does for algebraic end points) is a correct view *)
Theorem ref_view_of (fuel : nat) (x : rnum) (v : R) (b : bool) (fl ce : Z) :
  rn_denotes x v -> rn_is_integer fuel x = Some b -> rn_floor fuel x = Some fl -> rn_ceiling fuel x = Some ce ->
  view_of (EPFin b fl ce) (RFin v).
Proof.
move=> Hx Hb Hf Hc; split.
- exact: (rn_is_integer_spec Hx Hb).
- exact: (rn_floor_spec Hx Hf).
- exact: (rn_ceiling_spec Hx Hc).
Qed.

(* non-vacuity: the open interval (0, 3) with integer ends, in every real closed field *)
Lemma real_ends_example :
  real_ends_ok (mkItv (EPFin true Z0 Z0) (EPFin true (Zpos 3) (Zpos 3)) true true false) (RFin (zr Z0)) (RFin (zr (Zpos 3))).
Proof.
have V : forall k : Z, view_of (EPFin true k k) (RFin (zr k)).
  move=> k; split; first by split=> // _; exists k.
    by rewrite lexx ltr_addl ltr01.
  by rewrite lexx ltr_subl_addr ltr_addl ltr01.
by split; [exact: V | exact: V | rewrite /= zr_lt].
Qed.

End RealEnds.
