(* C16 proofs: soundness of the bound-inference and Fourier-Motzkin models of Bounds.v over an arbitrary
   ordered field (MathComp realFieldType; end points over a real closed field). *)
From Coq Require Import ZArith NArith List Bool.
From LP Require Import Scalar ScalarProofs MPoly Bounds.
Set Warnings "-notation-overridden,-ambiguous-paths".
From mathcomp Require Import all_ssreflect all_algebra.
From mathcomp Require Import ssrZ zify ring.
Set Warnings "notation-overridden,ambiguous-paths".
Import Order.Theory GRing.Theory Num.Theory.
Set Implicit Arguments.
Unset Strict Implicit.
Unset Printing Implicit Defensive.
Local Open Scope ring_scope.
(* ssrint rebinds the delimiter %Z to int_scope: stdlib integers are written %sZ below *)
Delimit Scope Z_scope with sZ.
Local Arguments Z.mul : simpl never.
Local Arguments Z.add : simpl never.
Local Arguments Z.sub : simpl never.
Local Arguments Z.opp : simpl never.

(* ------------------------------------------------------------------ integers of the model in a field *)
Section Embed.
Variable R : realFieldType.

Definition ZR (c : Z) : R := (int_of_Z c)%:~R.

Lemma ZR0 : ZR 0%sZ = 0. Proof. by []. Qed.
Lemma ZR1 : ZR 1%sZ = 1. Proof. by []. Qed.
Lemma ZRD a b : ZR (a + b)%sZ = ZR a + ZR b.
Proof. by rewrite /ZR -intrD; congr (_%:~R); lia. Qed.
Lemma ZRN a : ZR (- a)%sZ = - ZR a.
Proof. by rewrite /ZR -mulrNz; congr (_%:~R); lia. Qed.
Lemma ZRB a b : ZR (a - b)%sZ = ZR a - ZR b.
Proof. by rewrite /ZR -mulrzBr; congr (_%:~R); lia. Qed.
Lemma ZRM a b : ZR (a * b)%sZ = ZR a * ZR b.
Proof. by rewrite /ZR -intrM; congr (_%:~R); lia. Qed.
Lemma ZR_lt a b : (ZR a < ZR b) = (a <? b)%sZ.
Proof. by rewrite /ZR ltr_int; lia. Qed.
Lemma ZR_le a b : (ZR a <= ZR b) = (a <=? b)%sZ.
Proof. by rewrite /ZR ler_int; lia. Qed.
Lemma ZR_eq a b : (ZR a == ZR b) = (a =? b)%sZ.
Proof. by rewrite /ZR eqr_int; lia. Qed.
Lemma ZR_gt0 a : (0 < ZR a) = (0 <? a)%sZ. Proof. by rewrite -ZR0 ZR_lt. Qed.
Lemma ZR_lt0 a : (ZR a < 0) = (a <? 0)%sZ. Proof. by rewrite -ZR0 ZR_lt. Qed.
Lemma ZR_eq0 a : (ZR a == 0) = (a =? 0)%sZ. Proof. by rewrite -ZR0 ZR_eq. Qed.
End Embed.

(* ------------------------------------------------------------------ evaluation of reference polynomials *)
Section Eval.
Variable R : realFieldType.
Implicit Types (rho : var -> R) (m : MPoly.mono) (t : MPoly.term) (p q : mpoly).

Definition mono_evalR rho m : R := fold_right (fun ve acc => rho ve.1 ^+ N.to_nat ve.2 * acc) 1 m.
Definition term_evalR rho t : R := ZR R t.2 * mono_evalR rho t.1.
Definition mp_evalR rho p : R := fold_right (fun t acc => term_evalR rho t + acc) 0 p.

Lemma mono_cmp_eq m m' : mono_cmp m m' = Eq -> m = m'.
Proof.
elim: m m' => [|[x e] m IH] [|[y f] m'] //=.
case E1: (N.compare x y) => //; case E2: (N.compare e f) => // H; rewrite (IH _ H).
by move/N.compare_eq: E1 => ->; move/N.compare_eq: E2 => ->.
Qed.

Lemma evalR_add_term rho t p : mp_evalR rho (mp_add_term t p) = term_evalR rho t + mp_evalR rho p.
Proof.
case: t => m c; elim: p => [|[m' c'] p IH] /=.
  by case: (Z.eqb_spec c 0) => [->|_] //=; rewrite /term_evalR /= ZR0 mul0r addr0.
case: (Z.eqb_spec c 0) => [->|_]; first by rewrite /term_evalR /= ZR0 mul0r add0r.
case E: (mono_cmp m m') => //=.
- move/mono_cmp_eq: E => <-.
  case: (Z.eqb_spec (c + c') 0) => [E0|_] /=.
    by rewrite addrA -[term_evalR _ _ + _]mulrDl -ZRD E0 ZR0 mul0r add0r.
  by rewrite addrA -[term_evalR _ (m, c) + _]mulrDl -ZRD.
- by rewrite IH addrCA.
Qed.

Lemma evalR_add rho p q : mp_evalR rho (mp_add p q) = mp_evalR rho p + mp_evalR rho q.
Proof.
rewrite /mp_add; elim: p => [|t p IH] /=; first by rewrite add0r.
by rewrite evalR_add_term IH addrA.
Qed.

Lemma evalR_of_terms rho (l : seq MPoly.term) :
  mp_evalR rho (mp_of_terms l) = fold_right (fun t acc => term_evalR rho t + acc) 0 l.
Proof. by rewrite /mp_of_terms; elim: l => [|t l IH] //=; rewrite evalR_add_term IH. Qed.

Lemma evalR_neg rho p : mp_evalR rho (mp_neg p) = - mp_evalR rho p.
Proof.
rewrite /mp_neg; elim: p => [|[m c] p IH] /=; first by rewrite oppr0.
by rewrite IH /term_evalR /= ZRN mulNr opprD.
Qed.

Lemma mono_evalR_mul rho a b : mono_evalR rho (mono_mul a b) = mono_evalR rho a * mono_evalR rho b.
Proof.
elim: a b => [|[x e] a IHa] b /=; first by rewrite mul1r.
elim: b => [|[y f] b IHb] /=; first by rewrite mulr1.
case: (N.compare_spec x y) => [->|_|_] /=.
- by rewrite IHa N2Nat.inj_add exprD; ring.
- by rewrite IHa /=; ring.
- by rewrite IHb /=; ring.
Qed.

Lemma evalR_mul_term rho t p : mp_evalR rho (mp_mul_term t p) = term_evalR rho t * mp_evalR rho p.
Proof.
rewrite /mp_mul_term; elim: p => [|u p IH] /=; first by rewrite mulr0.
by rewrite evalR_add_term IH /term_evalR /= ZRM mono_evalR_mul; ring.
Qed.

Lemma evalR_mul rho p q : mp_evalR rho (mp_mul p q) = mp_evalR rho p * mp_evalR rho q.
Proof.
rewrite /mp_mul; elim: p => [|t p IH] /=; first by rewrite mul0r.
by rewrite evalR_add evalR_mul_term IH mulrDl.
Qed.

Lemma evalR_var1 rho x : mp_evalR rho (mp_var_pow x 1) = rho x.
Proof. by rewrite /mp_evalR /term_evalR /= ZR1 expr1; ring. Qed.

Lemma evalR_const rho p c : bd_as_const p = Some c -> mp_evalR rho p = ZR R c.
Proof.
case: p => [|[[|[y e] m] c'] [|u p]] //= [<-]; first by rewrite ZR0.
by rewrite /term_evalR /= mulr1 addr0.
Qed.
End Eval.

(* ------------------------------------------------------------------ a polynomial as a polynomial in one variable *)
Section Coeffs.
Variable R : realFieldType.
Implicit Types (rho : var -> R) (m : MPoly.mono) (t : MPoly.term) (p q : mpoly).

(* every monomial is in canonical form (implied by mp_wf) *)
Definition mwf p := forall t, In t p -> mono_wf t.1 = true.

Lemma mp_wf_mwf p : mp_wf p = true -> mwf p.
Proof.
elim: p => [|[m c] p IH] /=; first by move=> _ t [].
move=> /andP [/andP [/andP [Hm _] _] Hp] t [<-|Ht] //; exact: IH.
Qed.

Lemma mwf_cons t p : mwf (t :: p) -> mono_wf t.1 = true /\ mwf p.
Proof. by move=> H; split; [apply: H; left | move=> u Hu; apply: H; right]. Qed.

Lemma mono_wf_from_above x y m : mono_wf_from (Some y) m = true -> (x <= y)%num ->
  mono_deg x m = 0%num /\ mono_remove x m = m.
Proof.
elim: m y => [|[z f] m IH] y //= /andP [/andP [_ Hyz] Hm] Hxy.
have Hxz : (x <= z)%num by move: Hyz; lia.
have [E1 E2] := IH _ Hm Hxz.
have -> : N.eqb z x = false by move: Hyz; lia.
by rewrite /= E1 E2.
Qed.

Lemma mono_evalR_split rho x lo m : mono_wf_from lo m = true ->
  mono_evalR rho m = mono_evalR rho (mono_remove x m) * rho x ^+ N.to_nat (mono_deg x m).
Proof.
elim: m lo => [|[z f] m IH] lo /=; first by rewrite expr0 mulr1.
move=> /andP [/andP [_ _] Hm].
case E: (N.eqb z x) => /=.
- move/N.eqb_spec: E => E; subst z.
  have [_ ->] := mono_wf_from_above Hm (N.le_refl x).
  by rewrite mulrC.
- by rewrite (IH _ Hm); ring.
Qed.

Lemma mono_evalR_remove_indep rho rho' x m : (forall y, y <> x -> rho' y = rho y) ->
  mono_evalR rho' (mono_remove x m) = mono_evalR rho (mono_remove x m).
Proof.
move=> H; elim: m => [|[z f] m IH] //=.
case E: (N.eqb z x) => //=; rewrite IH H //.
by move/N.eqb_spec: E.
Qed.

(* the part of p of degree k in x, with x removed *)
Definition dpart rho x (k : N) p : R :=
  fold_right (fun t acc =>
     (if N.eqb (mono_deg x t.1) k then ZR R t.2 * mono_evalR rho (mono_remove x t.1) else 0) + acc) 0 p.

Lemma evalR_coeff rho x k p : mp_evalR rho (mp_coeff x k p) = dpart rho x k p.
Proof.
rewrite /mp_coeff evalR_of_terms; elim: p => [|t p IH] //=.
by case: (N.eqb _ k) => /=; rewrite IH ?add0r.
Qed.

Lemma evalR_coeff_indep rho rho' x k p : (forall y, y <> x -> rho' y = rho y) ->
  mp_evalR rho' (mp_coeff x k p) = mp_evalR rho (mp_coeff x k p).
Proof.
move=> H; rewrite !evalR_coeff; elim: p => [|t p IH] //=.
by rewrite IH (mono_evalR_remove_indep _ H).
Qed.

Lemma mono_deg_le_degree x t p : In t p -> (mono_deg x t.1 <= mp_degree x p)%num.
Proof.
elim: p => [|u p IH] //= [->|/IH]; lia.
Qed.

Lemma evalR_split rho x p n : mwf p -> (forall t, In t p -> (N.to_nat (mono_deg x t.1) < n)%N) ->
  mp_evalR rho p = \sum_(k < n) dpart rho x (N.of_nat k) p * rho x ^+ k.
Proof.
elim: p => [|t p IH] Hw Hd /=.
  by rewrite big1 // => i _; rewrite mul0r.
have [Ht Hp] := mwf_cons Hw.
rewrite (IH Hp); last by move=> u Hu; apply: Hd; right.
under [in RHS]eq_bigr => k _ do rewrite mulrDl.
rewrite big_split /=; congr (_ + _).
have Hdt : (N.to_nat (mono_deg x t.1) < n)%N by apply: Hd; left.
rewrite (bigD1 (Ordinal Hdt)) //= Nnat.N2Nat.id N.eqb_refl big1 ?addr0.
  by rewrite /term_evalR (mono_evalR_split rho x Ht) mulrA.
move=> i Hi; case E: (N.eqb _ _); last by rewrite mul0r.
move/N.eqb_spec: E => E; case/negP: Hi; apply/eqP/val_inj => /=.
by rewrite E Nnat.Nat2N.id.
Qed.

Fixpoint lsum (x : R) (k : nat) (vs : seq R) : R :=
  if vs is v :: vs' then v * x ^+ k + lsum x k.+1 vs' else 0.

Lemma lsum_map_seq (f : nat -> R) x s n :
  lsum x s (List.map f (List.seq s n)) = \sum_(s <= k < s + n) f k * x ^+ k.
Proof.
elim: n s => [|n IH] s /=; first by rewrite addn0 big_geq.
by rewrite IH addSnnS [in RHS]big_ltn // -[X in (X < _)%N]addn0 ltn_add2l.
Qed.

Lemma lsum_zero x k vs : (forall v, In v vs -> v = 0) -> lsum x k vs = 0.
Proof.
elim: vs k => [|v vs IH] k H //=.
by rewrite (H v) ?mul0r ?add0r ?IH //; [move=> u Hu; apply: H; right | left].
Qed.

(* p = sum_k coeff_k(p) x^k *)
Lemma evalR_coeffs rho x p : mwf p ->
  mp_evalR rho p = lsum (rho x) 0 (List.map (mp_evalR rho) (mp_coeffs x p)).
Proof.
move=> Hw; rewrite /mp_coeffs; case E: p => [|t0 p0] //; rewrite -E.
rewrite List.map_map lsum_map_seq add0n big_mkord.
rewrite (@evalR_split rho x p (N.to_nat (mp_degree x p)).+1 Hw).
  by apply: eq_bigr => k _; rewrite evalR_coeff.
by move=> t /(@mono_deg_le_degree x); rewrite ltnS; lia.
Qed.
End Coeffs.

(* ------------------------------------------------------------------ the rationals of Scalar.v in a field *)
Section Rat.
Variable R : realFieldType.

Definition ratR (q : Scalar.rat) : R := ZR R q.1 / ZR R q.2.

Lemma ZR_neq0 d : d <> 0%sZ -> ZR R d != 0.
Proof. by move=> H; rewrite ZR_eq0; apply/negP => /Z.eqb_spec. Qed.

Lemma q_canon'_R n d : d <> 0%sZ ->
  (0 < (q_canon' (n, d)).2)%sZ /\ ratR (q_canon' (n, d)) = ZR R n / ZR R d.
Proof.
move=> Hd; have [r Hr] := q_canon_some n d Hd.
rewrite /q_canon' Hr; have [[Hpos _] Hx] := q_canon_spec _ _ _ Hr.
split=> //; apply/eqP; rewrite /ratR eqr_div ?ZR_neq0 //; last by lia.
by rewrite -!ZRM Hx.
Qed.

Lemma q_add_R a b : (0 < a.2)%sZ -> (0 < b.2)%sZ ->
  (0 < (q_add a b).2)%sZ /\ ratR (q_add a b) = ratR a + ratR b.
Proof.
move=> Ha Hb; rewrite /q_add.
have Hd : (a.2 * b.2)%sZ <> 0%sZ by lia.
have [H1 ->] := q_canon'_R (a.1 * b.2 + b.1 * a.2) Hd; split=> //.
rewrite /ratR addf_div ?ZR_neq0 //; try lia.
by rewrite ZRD !ZRM.
Qed.

Lemma q_sub_R a b : (0 < a.2)%sZ -> (0 < b.2)%sZ ->
  (0 < (q_sub a b).2)%sZ /\ ratR (q_sub a b) = ratR a - ratR b.
Proof.
move=> Ha Hb; rewrite /q_sub.
have Hd : (a.2 * b.2)%sZ <> 0%sZ by lia.
have [H1 ->] := q_canon'_R (a.1 * b.2 - b.1 * a.2) Hd; split=> //.
rewrite /ratR -mulNr addf_div ?ZR_neq0 //; try lia.
by rewrite ZRB !ZRM mulNr.
Qed.
End Rat.

(* ------------------------------------------------------------------ well-formedness is preserved by the model's steps *)
Section Wf.

Lemma mono_wf_from_weaken lo z m : mono_wf_from (Some z) m = true ->
  (match lo with None => true | Some y => (y <? z)%num end) = true -> mono_wf_from lo m = true.
Proof.
case: m => [|[w g] m] //= /andP [/andP [-> Hzw] ->] Hlo; rewrite andbT /=.
by case: lo Hlo => [y|] //; move: Hzw; lia.
Qed.

Lemma mono_wf_remove x lo m : mono_wf_from lo m = true -> mono_wf_from lo (mono_remove x m) = true.
Proof.
elim: m lo => [|[z f] m IH] lo //= /andP [/andP [Hf Hlo] Hm].
case E: (N.eqb z x) => /=; last by rewrite Hf Hlo IH.
by apply: (@mono_wf_from_weaken lo z); [apply: IH | ].
Qed.

Lemma In_add_term u t p : In u (mp_add_term t p) -> u.1 = t.1 \/ exists2 u', In u' p & u.1 = u'.1.
Proof.
case: t => m c; elim: p => [|[m' c'] p IH] /=.
  by case: (c =? 0)%sZ => //= [[<-|]] //; left.
case: (c =? 0)%sZ; first by move=> H; right; exists u.
case E: (mono_cmp m m') => /=.
- case: (c + c' =? 0)%sZ => /=.
    by move=> H; right; exists u => //; right.
  case=> [<-|H]; first by left.
  by right; exists u => //; right.
- case=> [<-|/IH [->|[u' Hu' ->]]].
  + by right; exists (m', c') => //; left.
  + by left.
  + by right; exists u' => //; right.
- case=> [<-|H]; first by left.
  by right; exists u.
Qed.

Lemma mwf_of_terms (l : seq MPoly.term) : (forall t, In t l -> mono_wf t.1 = true) -> mwf (mp_of_terms l).
Proof.
rewrite /mp_of_terms; elim: l => [|t l IH] H //=.
move=> u /In_add_term [->|[u' Hu' ->]]; first by apply: H; left.
by apply: IH Hu' => v Hv; apply: H; right.
Qed.

Lemma mwf_coeff x k p : mwf p -> mwf (mp_coeff x k p).
Proof.
move=> Hw; apply: mwf_of_terms => t /in_map_iff [u [<- /filter_In [Hu _]]] /=.
exact/mono_wf_remove/Hw.
Qed.

Lemma mwf_neg p : mwf p -> mwf (mp_neg p).
Proof. by move=> Hw t /in_map_iff [u [<- Hu]] /=; apply: Hw. Qed.

End Wf.

(* ------------------------------------------------------------------ sign conditions and quadratics *)
Section Infer.
Variable R : realFieldType.
Implicit Types (rho : var -> R) (p : mpoly) (v : R).

Definition cond_sem (c : sgn_cond) v : bool :=
  match c with
  | SgLT => v < 0 | SgLE => v <= 0 | SgEQ => v == 0 | SgNE => v != 0 | SgGT => 0 < v | SgGE => 0 <= v
  end.
(* the constraint "p c 0", negated or not, at the value v of p *)
Definition constraint_holds (c : sgn_cond) (negated : bool) v : bool :=
  if negated then ~~ cond_sem c v else cond_sem c v.

Lemma cond_sem_negate c v : cond_sem (sc_negate c) v = ~~ cond_sem c v.
Proof.
case: c => /=.
- by rewrite leNgt.
- by rewrite ltNge.
- by [].
- by rewrite negbK.
- by rewrite leNgt.
- by rewrite ltNge.
Qed.

Lemma constraint_holdsE c negated v :
  constraint_holds c negated v = cond_sem (if negated then sc_negate c else c) v.
Proof. by rewrite /constraint_holds; case: negated; rewrite ?cond_sem_negate. Qed.

Definition quadR (q : ib_quadr) v : R := ZR R q.1.1 * v ^+ 2 + ZR R q.1.2 * v + ZR R q.2.

Lemma ZR4 : ZR R 4 = 4%:R. Proof. by []. Qed.

Lemma quad_4a q v :
  4%:R * ZR R q.1.1 * quadR q v = (2%:R * ZR R q.1.1 * v + ZR R q.1.2) ^+ 2 - ZR R (quad_disc q).
Proof.
case: q => [[a b] c]; rewrite /quadR /quad_disc; cbv beta iota; cbn [fst snd].
rewrite ZRB !ZRM ZR4; ring.
Qed.

Lemma quad_pos q v : 0 < ZR R q.1.1 -> ZR R (quad_disc q) < 0 -> 0 < quadR q v.
Proof.
move=> Ha Hd; have H := quad_4a q v.
have H4 : 0 < 4%:R * ZR R q.1.1 by rewrite mulr_gt0 // ltr0n.
rewrite -(pmulr_rgt0 _ H4) H subr_gt0; apply: lt_le_trans Hd _; exact: sqr_ge0.
Qed.

Lemma quad_nonneg q v : 0 < ZR R q.1.1 -> ZR R (quad_disc q) = 0 -> 0 <= quadR q v.
Proof.
move=> Ha Hd; have H := quad_4a q v.
have H4 : 0 < 4%:R * ZR R q.1.1 by rewrite mulr_gt0 // ltr0n.
by rewrite -(pmulr_rge0 _ H4) H Hd subr0 sqr_ge0.
Qed.

(* what an inferred interval says about the value v of its variable *)
Definition bound_quad (b : ib_bound) : ib_quadr := match b with IbPoint q => q | IbRange q _ => q end.
Definition bound_holds (b : ib_bound) v : bool :=
  match b with
  | IbPoint q => quadR q v <= 0
  | IbRange q true => quadR q v < 0
  | IbRange q false => quadR q v <= 0
  end.

(* ------------------------------------------------------------------ completing the squares *)
Definition sqval rho (s : sqterm) : R :=
  ZR R s.1.2 * (rho s.1.1 + ZR R s.2 / (2%:R * ZR R s.1.2)) ^+ 2.
Definition sq_sum rho (l : seq sqterm) : R := fold_right (fun s acc => sqval rho s + acc) 0 l.
Definition sq_pos (l : seq sqterm) := forall s, In s l -> (0 < s.1.2)%sZ.

Lemma sqval_ge0 rho s : (0 < s.1.2)%sZ -> 0 <= sqval rho s.
Proof. by move=> H; rewrite /sqval mulr_ge0 ?sqr_ge0 // -(ZR0 R) ZR_le; lia. Qed.

Lemma sq_sum_ge0 rho l : sq_pos l -> 0 <= sq_sum rho l.
Proof.
elim: l => [|s l IH] H //=; rewrite addr_ge0 ?sqval_ge0 ?IH //; first by apply: H; left.
by move=> u Hu; apply: H; right.
Qed.

Lemma sq_sum_ge_term rho l s : sq_pos l -> In s l -> sqval rho s <= sq_sum rho l.
Proof.
elim: l => [|u l IH] // H /= [->|Hs].
  by rewrite ler_addl sq_sum_ge0 // => w Hw; apply: H; right.
apply: le_trans (IH _ Hs) _; last by rewrite ler_addr sqval_ge0 //; apply: H; left.
by move=> w Hw; apply: H; right.
Qed.

Lemma degree2_coeffs x p : mp_degree x p = 2%num ->
  mp_coeffs x p = [:: mp_coeff x 0 p; mp_coeff x 1 p; mp_coeff x 2 p].
Proof. by case: p => [|t p] E //; rewrite /mp_coeffs E. Qed.

(* first traversal: p = sum of the completed squares - (D' - D) + c0 *)
Lemma ib_peel_sound ord p D l D' c0 : mwf p -> (0 < D.2)%sZ -> ib_peel ord p D = Some (l, D', c0) ->
  [/\ (0 < D'.2)%sZ, sq_pos l &
      forall rho, mp_evalR rho p = sq_sum rho l - (ratR R D' - ratR R D) + ZR R c0].
Proof.
elim: ord p D l D' c0 => [|x ord IH] p D l D' c0 Hw HD /=.
  case E: (bd_as_const p) => [c|] // [<- <- <-]; split=> // rho.
  by rewrite (evalR_const rho E) /= subrr subr0 add0r.
case: (N.eqb_spec (mp_degree x p) 0) => [_|_]; first exact: IH.
case: (N.eqb_spec (mp_degree x p) 2) => [E2|_] //.
case EA: (bd_as_const (mp_coeff x 2 p)) => [a|] //.
case EB: (bd_as_const (mp_coeff x 1 p)) => [b|] //.
case: (Z.ltb_spec 0 a) => [Ha|_] //.
have Hd : (4 * a)%sZ <> 0%sZ by lia.
have [Hq1 Hq2] := q_canon'_R R (b * b) Hd.
have [HD1 HD1v] := q_add_R R HD Hq1.
case E: (ib_peel _ _ _) => [[[l1 D1] c1]|] // [<- <- <-].
have [HD' Hl1 Hev] := IH _ _ _ _ _ (@mwf_coeff x 0 _ Hw) HD1 E.
split=> //; first by move=> s /= [<-|] //; apply: Hl1.
move=> rho; rewrite (evalR_coeffs rho x Hw) (degree2_coeffs E2) /= Hev.
rewrite (evalR_const rho EA) (evalR_const rho EB) HD1v Hq2 /sqval /= ZRM ZRM ZR4.
have Ha0 : ZR R a != 0 by apply: ZR_neq0; lia.
by field; rewrite Ha0.
Qed.

(* the quadratic of a variable is a positive multiple of  A (x + B/2A)^2 - D *)
Lemma ib_quad_sound a b D : (0 < a)%sZ -> (0 < D.2)%sZ ->
  let q := ib_quad a b D in
  (0 < q.1.1)%sZ /\
  exists2 k : R, 0 < k & forall rho x, quadR q (rho x) = k * (sqval rho (x, a, b) - ratR R D).
Proof.
move=> Ha HD.
have Hd : (4 * a)%sZ <> 0%sZ by lia.
have [Hq1 Hq2] := q_canon'_R R (b * b) Hd.
have [Ht Htv] := q_sub_R R Hq1 HD.
rewrite /ib_quad; set t := q_sub _ _ in Ht Htv *; split; first by rewrite /=; lia.
exists (ZR R t.2); first by rewrite ZR_gt0; apply/Z.ltb_spec0.
move=> rho x; rewrite /quadR /sqval /= !ZRM.
have Ht0 : ZR R t.2 != 0 by apply: ZR_neq0; lia.
have Ha0 : ZR R a != 0 by apply: ZR_neq0; lia.
have -> : ZR R t.1 = ZR R t.2 * ratR R t by rewrite /ratR mulrC divfK.
rewrite Htv Hq2 !ZRM ZR4.
by field; rewrite Ha0.
Qed.

Definition sum_cond (strict : bool) (s d : R) : bool := if strict then s < d else s <= d.

Lemma sum_cond_mono strict (s s' d : R) : s' <= s -> sum_cond strict s d -> sum_cond strict s' d.
Proof. by case: strict => /= H; [apply: le_lt_trans | apply: le_trans]. Qed.

(* second traversal *)
Lemma ib_pass2_sound l D strict w conflict : sq_pos l -> (0 < D.2)%sZ ->
  ib_pass2 l D strict = (w, conflict) ->
  forall rho,
    (sum_cond strict (sq_sum rho l) (ratR R D) -> forall x b, In (x, b) w -> bound_holds b (rho x)) /\
    (conflict = true -> ~~ sum_cond strict (sq_sum rho l) (ratR R D)).
Proof.
move=> + HD; elim: l w conflict => [|[[x a] b] l IH] w conflict Hl /=.
  by case=> <- <- rho; split.
have Ha : (0 < a)%sZ by apply: (Hl (x, a, b)); left.
have Hl' : sq_pos l by move=> s Hs; apply: Hl; right.
have [Hqa [k Hk Hq]] := ib_quad_sound b Ha HD.
set q := ib_quad a b D in Hqa Hq *.
have Hqa' : 0 < ZR R q.1.1 by rewrite ZR_gt0; apply/Z.ltb_spec0.
have Htail rho : sq_sum rho l <= sqval rho (x, a, b) + sq_sum rho l by rewrite ler_addr sqval_ge0.
have Hhead rho : sqval rho (x, a, b) <= sqval rho (x, a, b) + sq_sum rho l by rewrite ler_addl sq_sum_ge0.
case: (Z.compare_spec (quad_disc q) 0) => Hdisc.
- (* one root *)
  have Hge rho : ratR R D <= sqval rho (x, a, b).
    have := quad_nonneg (rho x) Hqa' (f_equal (ZR R) Hdisc).
    by rewrite Hq pmulr_rge0 // subr_ge0.
  case: strict IH => IH /=.
    case=> <- <- rho; split=> // _.
    by rewrite -leNgt; apply: le_trans (Hge rho) (Hhead rho).
  case E: (ib_pass2 l D false) => [w' c'] [<- <-] rho.
  have [IH1 IH2] := IH _ _ Hl' E rho; split.
    move=> Hs y b' /= [[<- <-]|Hin].
      by rewrite /= Hq pmulr_rle0 // subr_le0; apply: le_trans (Hhead rho) Hs.
    by apply: IH1 Hin; apply: le_trans (Htail rho) Hs.
  by move=> /IH2 /=; apply: contra; apply: le_trans (Htail rho).
- (* no root *)
  case=> <- <- rho; split=> // _.
  have : ratR R D < sqval rho (x, a, b).
    have Hd0 : ZR R (quad_disc q) < 0 by rewrite ZR_lt0; apply/Z.ltb_spec0.
    by have := quad_pos (rho x) Hqa' Hd0; rewrite Hq pmulr_rgt0 // subr_gt0.
  move=> Hlt; have Hlt' := lt_le_trans Hlt (Hhead rho).
  by case: strict {IH} => /=; rewrite -?leNgt -?ltNge // ltW.
- (* two roots *)
  case E: (ib_pass2 l D strict) => [w' c'] [<- <-] rho.
  have [IH1 IH2] := IH _ _ Hl' E rho; split.
    move=> Hs y b' /= [[<- <-]|Hin]; last by apply: IH1 Hin; apply: sum_cond_mono (Htail rho) Hs.
    have := sum_cond_mono (Hhead rho) Hs.
    by case: (strict) => /=; rewrite Hq ?pmulr_rlt0 ?pmulr_rle0 // ?subr_lt0 ?subr_le0.
  by move=> /IH2; apply: contra; apply: sum_cond_mono (Htail rho).
Qed.

Lemma ratR01 : ratR R (0%sZ, 1%sZ) = 0. Proof. by rewrite /ratR /= ZR0 mul0r. Qed.

(* the body for < (strict) and <= *)
Lemma ib_core_sound ord p strict code w : mwf p -> ib_core ord p strict = (code, w) ->
  [/\ code = 1%sZ -> forall rho, sum_cond strict (mp_evalR rho p) 0 ->
                     forall x b, In (x, b) w -> bound_holds b (rho x),
      code = (-1)%sZ -> forall rho, ~~ sum_cond strict (mp_evalR rho p) 0,
      code = 0%sZ -> w = [::] &
      code = 1%sZ \/ code = 0%sZ \/ code = (-1)%sZ].
Proof.
move=> Hw; rewrite /ib_core.
case E: (ib_peel ord p (0%sZ, 1%sZ)) => [[[l D] c0]|]; last first.
  by case=> <- <-; split=> //; right; left.
have [HD Hl Hev] := ib_peel_sound Hw (erefl : (0 < (0%sZ, 1%sZ).2)%sZ) E.
have [HD' HD'v] := q_sub_R R HD (erefl : (0 < (q_from_integer c0).2)%sZ).
case E2: (ib_pass2 _ _ _) => [w' conflict] [Hc <-].
have Hp2 := ib_pass2_sound Hl HD' E2.
have Hsc rho : sum_cond strict (mp_evalR rho p) 0 = sum_cond strict (sq_sum rho l) (ratR R (q_sub D (q_from_integer c0))).
  have -> : mp_evalR rho p = sq_sum rho l - (ratR R D - ZR R c0) by rewrite Hev ratR01; ring.
  have -> : ratR R (q_sub D (q_from_integer c0)) = ratR R D - ZR R c0.
    by rewrite HD'v /ratR /q_from_integer [in X in _ - X]/= ZR1 divr1.
  by case: (strict) => /=; rewrite ?subr_lt0 ?subr_le0.
split.
- by move=> Hc1 rho; rewrite Hsc => /(proj1 (Hp2 rho)).
- move=> Hc1 rho; rewrite Hsc; apply: (proj2 (Hp2 rho)).
  by move: Hc Hc1; case: (conflict) => // <-.
- by move: Hc; case: (conflict) => <-.
- by move: Hc; case: (conflict) => <-; [right; right | left].
Qed.

(* lp_polynomial_constraint_infer_bounds *)
Theorem infer_bounds_sound ord p c negated code w : mwf p -> infer_bounds ord p c negated = (code, w) ->
  [/\ code = 1%sZ -> forall rho, constraint_holds c negated (mp_evalR rho p) ->
                     forall x b, In (x, b) w -> bound_holds b (rho x),
      code = (-1)%sZ -> forall rho, ~~ constraint_holds c negated (mp_evalR rho p),
      code = 0%sZ -> w = [::] &
      code = 1%sZ \/ code = 0%sZ \/ code = (-1)%sZ].
Proof.
move=> Hw; rewrite /infer_bounds.
have Hwn := mwf_neg Hw.
have Hch rho : constraint_holds c negated (mp_evalR rho p) =
               cond_sem (if negated then sc_negate c else c) (mp_evalR rho p) by exact: constraint_holdsE.
case: (if negated then sc_negate c else c) Hch => Hch.
- (* < *) move=> /(ib_core_sound Hw) [H1 H2 H3 H4]; split=> //.
    by move=> Hc rho; rewrite Hch; apply: H1.
  by move=> Hc rho; rewrite Hch; apply: H2.
- (* <= *) move=> /(ib_core_sound Hw) [H1 H2 H3 H4]; split=> //.
    by move=> Hc rho; rewrite Hch; apply: H1.
  by move=> Hc rho; rewrite Hch; apply: H2.
- (* == : <= then >= *)
  case E1: (ib_core ord p false) => [code1 w1] /=.
  have [H1 H2 H3 H4] := ib_core_sound Hw E1.
  case: (Z.eqb_spec code1 0) => [E0|N0].
    move=> /(ib_core_sound Hwn) [G1 G2 G3 G4]; split=> //.
      move=> Hc rho; rewrite Hch /= => /eqP Hv; apply: G1 => //=.
      by rewrite evalR_neg Hv oppr0.
    move=> Hc rho; rewrite Hch /=; apply/negP => /eqP Hv.
    by have := G2 Hc rho; rewrite /= evalR_neg Hv oppr0 lexx.
  case=> <- <-; split=> //.
    by move=> Hc rho; rewrite Hch /= => /eqP Hv; apply: H1 => //=; rewrite Hv.
  move=> Hc rho; rewrite Hch /=; apply/negP => /eqP Hv.
  by have := H2 Hc rho; rewrite /= Hv lexx.
- (* != *) by case=> <- <-; split=> //; right; left.
- (* > *) move=> /(ib_core_sound Hwn) [H1 H2 H3 H4]; split=> //.
    by move=> Hc rho; rewrite Hch /= => Hv; apply: H1 => //=; rewrite evalR_neg oppr_lt0.
  by move=> Hc rho; rewrite Hch /=; have := H2 Hc rho; rewrite /= evalR_neg oppr_lt0.
- (* >= *) move=> /(ib_core_sound Hwn) [H1 H2 H3 H4]; split=> //.
    by move=> Hc rho; rewrite Hch /= => Hv; apply: H1 => //=; rewrite evalR_neg oppr_le0.
  by move=> Hc rho; rewrite Hch /=; have := H2 Hc rho; rewrite /= evalR_neg oppr_le0.
Qed.

End Infer.

(* ------------------------------------------------------------------ Fourier-Motzkin resolution *)
Section FM.
Variable R : realFieldType.
Implicit Types (rho : var -> R) (p : mpoly) (v : R) (A : seq mpoly).

(* the sign of a field element as the model's Z *)
Definition sgR v : Z := if v < 0 then (-1)%sZ else if v == 0 then 0%sZ else 1%sZ.

Lemma sgR_ZR z : sgR (ZR R z) = Z.sgn z.
Proof. by rewrite /sgR ZR_lt0 ZR_eq0; case: (Z.ltb_spec z 0); case: (Z.eqb_spec z 0); lia. Qed.
Lemma sgR_eq0 v : sgR v = 0%sZ -> v = 0.
Proof. by rewrite /sgR; case: ifP => // _; case: eqP. Qed.
Lemma sgR_pos v : (0 <? sgR v)%sZ = (0 < v).
Proof. by rewrite /sgR; case: (ltrgt0P v). Qed.
Lemma sgR_opp v : sgR (- v) = (- sgR v)%sZ.
Proof. by rewrite /sgR oppr_lt0 oppr_eq0; case: (ltrgt0P v). Qed.
Lemma sgR_neq0 v : sgR v <> 0%sZ -> v != 0.
Proof. by rewrite /sgR; case: (ltrgt0P v). Qed.

(* every recorded assumption has at rho the sign the oracle reported under the model *)
Definition assum_ok (sgnM : mpoly -> Z) rho A := forall a, In a A -> sgR (mp_evalR rho a) = sgnM a.

Lemma bd_is_constP c : bd_is_const c = true -> exists z, bd_as_const c = Some z.
Proof. by rewrite /bd_is_const; case: (bd_as_const c) => // z _; exists z. Qed.

Lemma sgn_m_at sgnM rho A c : assum_ok sgnM rho A -> bd_is_const c = true \/ In c A ->
  sgR (mp_evalR rho c) = sgn_m sgnM c.
Proof.
move=> HA; rewrite /sgn_m /bd_is_const.
case E: (bd_as_const c) => [z|]; first by rewrite (evalR_const rho E) sgR_ZR.
by case=> // /HA.
Qed.

Lemma push_nc_incl c A a : In a A -> In a (push_nc c A).
Proof. by rewrite /push_nc; case: bd_is_const => // H; apply/in_or_app; left. Qed.
Lemma push_nc_in c A : bd_is_const c = true \/ In c (push_nc c A).
Proof. by rewrite /push_nc; case: bd_is_const; [left | right; apply/in_or_app; right; left]. Qed.

Lemma fm_scan_spec sgnM cs A kept A' : fm_scan sgnM cs A = (kept, A') ->
  exists dropped,
    [/\ cs = dropped ++ kept,
        forall c, In c dropped -> sgn_m sgnM c = 0%sZ /\ (bd_is_const c = true \/ In c A'),
        forall a, In a A -> In a A' &
        forall c k', kept = c :: k' -> sgn_m sgnM c <> 0%sZ /\ (bd_is_const c = true \/ In c A')].
Proof.
elim: cs A => [|c cs IH] A /=.
  by case=> <- <-; exists [::]; split.
case: (Z.eqb_spec (sgn_m sgnM c) 0) => [E0|N0].
  move=> /IH [dropped [-> H1 H2 H3]]; exists (c :: dropped); split=> //.
    move=> c' [<-|/H1] //; split=> //.
    by case: (push_nc_in c A) => [|/H2]; [left | right].
  by move=> a Ha; apply/H2/push_nc_incl.
case=> <- <-; exists [::]; split=> //; first exact: push_nc_incl.
by move=> c' k' [<- _]; split=> //; apply: push_nc_in.
Qed.

(* reductum under the model + linearity test *)
Lemma fm_linear_spec sgnM x p A lc c0 A' : mwf p -> fm_linear sgnM x p A = (Some (lc, c0), A') ->
  [/\ forall a, In a A -> In a A',
      sgn_m sgnM lc <> 0%sZ,
      bd_is_const lc = true \/ In lc A',
      lc = mp_coeff x 1 p /\ c0 = mp_coeff x 0 p &
      forall rho, assum_ok sgnM rho A' -> mp_evalR rho p = mp_evalR rho lc * rho x + mp_evalR rho c0].
Proof.
move=> Hw; rewrite /fm_linear.
case E: (fm_scan _ _ _) => [kept A1].
have [dropped [Hcs Hd Hincl Hk]] := fm_scan_spec E.
case: kept Hcs Hk E => [|k1 [|k2 [|k3 kept]]] // Hcs Hk E [E1 E2 E3]; subst k1 k2 A1.
have [Hs Hin] := Hk _ _ erefl.
have Hcs' : mp_coeffs x p = c0 :: lc :: List.rev dropped.
  by rewrite -(List.rev_involutive (mp_coeffs x p)) Hcs List.rev_app_distr.
split=> //.
- move: Hcs'; rewrite /mp_coeffs; case: p {Hw Hcs E} => [|t p] //.
  by case: (N.to_nat _) => [|n] //= [<- <-].
- move=> rho HA; rewrite (evalR_coeffs rho x Hw) Hcs' /= expr0 expr1 mulr1.
  rewrite lsum_zero ?addr0 1?addrC // => v /in_map_iff [c [<- /(in_rev dropped) /Hd [Hc0 Hc]]].
  by apply: sgR_eq0; rewrite (sgn_m_at HA Hc).
Qed.

Lemma assum_ok_incl sgnM rho A A' : (forall a, In a A -> In a A') -> assum_ok sgnM rho A' -> assum_ok sgnM rho A.
Proof. by move=> H HA a /H /HA. Qed.

(* a positive combination of the two premises *)
Lemma comb_sound c1 c2 cR (P1 P2 u w : R) : fm_table c1 c2 = Some cR -> 0 < u -> 0 < w ->
  cond_sem c1 P1 -> cond_sem c2 P2 -> cond_sem cR (P1 * w + P2 * u).
Proof.
case: c1 => //; case: c2 => //= [] [<-] Hu Hw /= H1 H2.
- by rewrite -[0]addr0 ltr_add // ?pmulr_llt0.
- by rewrite -[0]addr0 ltr_le_add // ?pmulr_llt0 ?pmulr_lle0.
- by rewrite (eqP H2) mul0r addr0 pmulr_llt0.
- by rewrite -[0]addr0 ler_lt_add // ?pmulr_llt0 ?pmulr_lle0.
- by rewrite -[0]addr0 ler_add // ?pmulr_lle0.
- by rewrite (eqP H2) mul0r addr0 pmulr_lle0.
Qed.

(* the repaired sign test: the two multipliers get opposite "positive" flags *)
Lemma fm_stest_spec c1 c2 cR s1 s2 s1' s2' :
  (s1 = 1 \/ s1 = -1)%sZ -> (s2 = 1 \/ s2 = -1)%sZ ->
  fm_table c1 c2 = Some cR -> fm_stest c1 c2 s1 s2 = Some (s1', s2') ->
  (s1' = s1 /\ s2' = s2 /\ s1 <> s2) \/ (c2 = SgEQ /\ s1 = s2 /\ s1' = (- s1)%sZ /\ s2' = s2).
Proof.
rewrite /fm_stest => H1 H2; case: (Z.eqb_spec s1 s2) => [E|N]; last by move=> _ [<- <-]; left.
by case: c1 => //; case: c2 => //= _ [<- <-]; right.
Qed.

Definition absL (s : Z) (a : R) : R := if (0 <? s)%sZ then a else - a.

(* the arithmetic core: soundness of the combination, and cancellation of the eliminated variable *)
Lemma fm_arith c1 c2 cR (a1 b1 a2 b2 x : R) s1' s2' : a1 != 0 -> a2 != 0 ->
  fm_table c1 c2 = Some cR -> fm_stest c1 c2 (sgR a1) (sgR a2) = Some (s1', s2') ->
  (cond_sem c1 (a1 * x + b1) -> cond_sem c2 (a2 * x + b2) ->
   cond_sem cR ((a1 * x + b1) * absL s2' a2 + (a2 * x + b2) * absL s1' a1)) /\
  a1 * absL s2' a2 + a2 * absL s1' a1 = 0.
Proof.
move=> N1 N2 Ht Hs.
have S1 : (sgR a1 = 1 \/ sgR a1 = -1)%sZ by rewrite /sgR; case: (ltrgt0P a1) N1 => // _ _; [left | right].
have S2 : (sgR a2 = 1 \/ sgR a2 = -1)%sZ by rewrite /sgR; case: (ltrgt0P a2) N2 => // _ _; [left | right].
case: (fm_stest_spec S1 S2 Ht Hs) => [[-> [-> Hne]]|[Ec2 [Eq [-> ->]]]].
- (* opposite signs: |a1|, |a2| *)
  have P1 : 0 < absL (sgR a1) a1 by rewrite /absL sgR_pos; case: (ltrgt0P a1) N1 => //; rewrite oppr_gt0.
  have P2 : 0 < absL (sgR a2) a2 by rewrite /absL sgR_pos; case: (ltrgt0P a2) N2 => //; rewrite oppr_gt0.
  split; first exact: comb_sound.
  move: Hne; rewrite /absL !sgR_pos /sgR.
  case: (ltrgt0P a1) N1 => // H1 _; case: (ltrgt0P a2) N2 => // H2 _ _; ring.
- (* equal signs, the second premise is an equation *)
  have P2 : 0 < absL (sgR a2) a2 by rewrite /absL sgR_pos; case: (ltrgt0P a2) N2 => //; rewrite oppr_gt0.
  split.
    subst c2; move=> H1 /= /eqP ->; rewrite mul0r addr0.
    by case: c1 Ht H1 {Hs} => //= [] [<-] /=; rewrite ?pmulr_llt0 ?pmulr_lle0.
  move: Eq; rewrite /absL -sgR_opp !sgR_pos oppr_gt0 /sgR.
  case: (ltrgt0P a1) N1 => // H1 _; case: (ltrgt0P a2) N2 => // H2 _ _; ring.
Qed.

Definition upd rho (x : var) (v : R) : var -> R := fun y => if N.eqb y x then v else rho y.

Lemma evalR_coeff_upd rho x v k p : mp_evalR (upd rho x v) (mp_coeff x k p) = mp_evalR rho (mp_coeff x k p).
Proof. by apply: evalR_coeff_indep => y /N.eqb_spec; rewrite /upd; case: N.eqb. Qed.

(* a polynomial whose value does not depend on x *)
Definition xindep x p := forall rho v, mp_evalR (upd rho x v) p = mp_evalR rho p.
Lemma xindep_neg x p : xindep x p -> xindep x (mp_neg p).
Proof. by move=> H rho v; rewrite !evalR_neg H. Qed.

Lemma fm_norm_spec pc c pc' c' : fm_norm pc c = (pc', c') ->
  [/\ forall rho xv, cond_sem c (mp_evalR rho pc.1 * xv + mp_evalR rho pc.2) =
                     cond_sem c' (mp_evalR rho pc'.1 * xv + mp_evalR rho pc'.2),
      pc' = pc \/ pc' = (mp_neg pc.1, mp_neg pc.2) &
      forall rho, mp_evalR rho pc'.1 = mp_evalR rho pc.1 \/ mp_evalR rho pc'.1 = - mp_evalR rho pc.1].
Proof.
case: c => /= [] [<- <-]; split=> //; try (by left); try (by move=> rho; left); try (by right).
- by move=> rho xv /=; rewrite !evalR_neg -oppr_lt0; congr (_ < 0); ring.
- by move=> rho; right; rewrite evalR_neg.
- by move=> rho xv /=; rewrite !evalR_neg -oppr_le0; congr (_ <= 0); ring.
- by move=> rho; right; rewrite evalR_neg.
Qed.

Lemma evalR_fm_poly rho x pc : mp_evalR rho (fm_poly x pc) = mp_evalR rho pc.1 * rho x + mp_evalR rho pc.2.
Proof. by rewrite /fm_poly evalR_add evalR_mul evalR_var1. Qed.

Lemma evalR_absL rho s (lc : mpoly) :
  mp_evalR rho (if (0 <? s)%sZ then lc else mp_neg lc) = absL s (mp_evalR rho lc).
Proof. by rewrite /absL; case: Z.ltb; rewrite ?evalR_neg. Qed.

Lemma resolve_fm_inv sgnM ord p1 c1 p2 c2 R0 cR0 A0 : mwf p1 -> mwf p2 ->
  let r := resolve_fm sgnM ord p1 c1 p2 c2 R0 cR0 A0 in
  fm_ok r = true ->
  exists x pc1 pc2 c1' c2' s1' s2',
  [/\ bd_top_var ord p1 = Some x /\ bd_top_var ord p2 = Some x,
      fm_table c1' c2' = Some (fm_cond r),
      fm_stest c1' c2' (sgn_m sgnM pc1.1) (sgn_m sgnM pc2.1) = Some (s1', s2'),
      fm_R r = mp_add (mp_mul (fm_poly x pc1) (if (0 <? s2')%sZ then pc2.1 else mp_neg pc2.1))
                      (mp_mul (fm_poly x pc2) (if (0 <? s1')%sZ then pc1.1 else mp_neg pc1.1)) &
   [/\ forall a, In a A0 -> In a (fm_assum r),
      [/\ xindep x pc1.1, xindep x pc1.2, xindep x pc2.1 & xindep x pc2.2] &
      forall rho, assum_ok sgnM rho (fm_assum r) ->
        [/\ cond_sem c1 (mp_evalR rho p1) = cond_sem c1' (mp_evalR rho pc1.1 * rho x + mp_evalR rho pc1.2),
            cond_sem c2 (mp_evalR rho p2) = cond_sem c2' (mp_evalR rho pc2.1 * rho x + mp_evalR rho pc2.2),
            sgR (mp_evalR rho pc1.1) = sgn_m sgnM pc1.1 /\ sgR (mp_evalR rho pc1.1) <> 0%sZ &
            sgR (mp_evalR rho pc2.1) = sgn_m sgnM pc2.1 /\ sgR (mp_evalR rho pc2.1) <> 0%sZ]]].
Proof.
move=> Hw1 Hw2; rewrite /resolve_fm /resolve_fm_with.
case Ex: (bd_top_var ord p1) => [x|] //; case Ey: (bd_top_var ord p2) => [y|] //.
case: (N.eqb_spec x y) => [Exy|_] //=; subst y.
case E1: (fm_linear sgnM x p1 A0) => [[[lc1 k1]|] A1]; last by case: (fm_linear _ _ _ _) => [[?|] ?].
case E2: (fm_linear sgnM x p2 A1) => [[[lc2 k2]|] A2] //.
have [I1 S1 In1 [El1 Ek1] Ev1] := fm_linear_spec Hw1 E1.
have [I2 S2 In2 [El2 Ek2] Ev2] := fm_linear_spec Hw2 E2.
case N1: (fm_norm (lc1, k1) c1) => [pc1 c1'].
case N2: (fm_norm (lc2, k2) c2) => [pc2 c2'].
have [Hc1 Hp1 Hs1] := fm_norm_spec N1.
have [Hc2 Hp2 Hs2] := fm_norm_spec N2.
case Et: (fm_table c1' c2') => [cR|] //.
case Es: (fm_stest _ _ _ _) => [[s1' s2']|] //= _.
exists x, pc1, pc2, c1', c2', s1', s2'; split=> //; split.
- by move=> a /I1 /I2 Ha; apply/push_nc_incl/push_nc_incl.
- have X1 : xindep x lc1 by move=> rho v; rewrite El1 evalR_coeff_upd.
  have X2 : xindep x k1 by move=> rho v; rewrite Ek1 evalR_coeff_upd.
  have X3 : xindep x lc2 by move=> rho v; rewrite El2 evalR_coeff_upd.
  have X4 : xindep x k2 by move=> rho v; rewrite Ek2 evalR_coeff_upd.
  by case: Hp1 => ->; case: Hp2 => -> /=; split=> //; apply: xindep_neg.
- move=> rho HA.
  have HA3 : assum_ok sgnM rho (push_nc pc1.1 A2) by apply: assum_ok_incl HA => a; apply: push_nc_incl.
  have HA2 : assum_ok sgnM rho A2 by apply: assum_ok_incl HA3 => a; apply: push_nc_incl.
  have HA1 : assum_ok sgnM rho A1 by apply: assum_ok_incl HA2.
  have G1 : sgR (mp_evalR rho pc1.1) = sgn_m sgnM pc1.1 by apply: (sgn_m_at HA3); apply: push_nc_in.
  have G2 : sgR (mp_evalR rho pc2.1) = sgn_m sgnM pc2.1 by apply: (sgn_m_at HA); apply: push_nc_in.
  have Z1 : sgR (mp_evalR rho lc1) <> 0%sZ by rewrite (sgn_m_at HA1 In1).
  have Z2 : sgR (mp_evalR rho lc2) <> 0%sZ by rewrite (sgn_m_at HA2 In2).
  split=> //.
  + by rewrite (Ev1 rho HA1) -Hc1.
  + by rewrite (Ev2 rho HA2) -Hc2.
  + by split=> //; case: (Hs1 rho) => -> /=; rewrite ?sgR_opp; lia.
  + by split=> //; case: (Hs2 rho) => -> /=; rewrite ?sgR_opp; lia.
Qed.

(* success: the resolvent holds wherever both premises hold and the assumptions keep their recorded signs *)
Theorem resolve_fm_sound sgnM ord p1 c1 p2 c2 R0 cR0 A0 : mwf p1 -> mwf p2 ->
  let r := resolve_fm sgnM ord p1 c1 p2 c2 R0 cR0 A0 in
  fm_ok r = true ->
  forall rho, assum_ok sgnM rho (fm_assum r) ->
    cond_sem c1 (mp_evalR rho p1) -> cond_sem c2 (mp_evalR rho p2) ->
    cond_sem (fm_cond r) (mp_evalR rho (fm_R r)).
Proof.
move=> Hw1 Hw2 r Hok.
have [x [pc1 [pc2 [c1' [c2' [s1' [s2' [_ Ht Hs HR [_ _ Hrho]]]]]]]]] := resolve_fm_inv Hw1 Hw2 Hok.
move=> rho /Hrho [-> -> [G1 Z1] [G2 Z2]].
rewrite -/r HR evalR_add !evalR_mul !evalR_fm_poly !evalR_absL.
rewrite -G1 -G2 in Hs.
exact: (proj1 (fm_arith _ _ _ (sgR_neq0 Z1) (sgR_neq0 Z2) Ht Hs)).
Qed.

(* success: the value of the resolvent does not depend on the eliminated variable (given that the recorded
   assumption signs are consistent, e.g. they are the signs under the model itself) *)
Theorem resolve_fm_xindep sgnM ord p1 c1 p2 c2 R0 cR0 A0 x : mwf p1 -> mwf p2 ->
  let r := resolve_fm sgnM ord p1 c1 p2 c2 R0 cR0 A0 in
  fm_ok r = true -> bd_top_var ord p1 = Some x ->
  (exists rho0, assum_ok sgnM rho0 (fm_assum r)) ->
  forall rho v, mp_evalR (upd rho x v) (fm_R r) = mp_evalR rho (fm_R r).
Proof.
move=> Hw1 Hw2 r Hok Hx [rho0 H0].
have [x' [pc1 [pc2 [c1' [c2' [s1' [s2' [[Hx' _] Ht Hs HR [_ [X1 X2 X3 X4] Hrho]]]]]]]]] :=
  resolve_fm_inv Hw1 Hw2 Hok.
have Exx : x' = x by move: Hx'; rewrite Hx => -[].
subst x'.
have [_ _ [G1 Z1] [G2 Z2]] := Hrho _ H0.
rewrite -G1 -G2 in Hs.
have S1 : (sgR (mp_evalR rho0 pc1.1) = 1 \/ sgR (mp_evalR rho0 pc1.1) = -1)%sZ.
  by move: Z1; rewrite /sgR; case: ltrgt0P => // _ _; [left | right].
have S2 : (sgR (mp_evalR rho0 pc2.1) = 1 \/ sgR (mp_evalR rho0 pc2.1) = -1)%sZ.
  by move: Z2; rewrite /sgR; case: ltrgt0P => // _ _; [left | right].
have Hopp : (0 <? s1')%sZ = ~~ (0 <? s2')%sZ.
  by case: (fm_stest_spec S1 S2 Ht Hs) => [[-> [-> Hne]]|[_ [Eq [-> ->]]]]; lia.
move=> rho v; rewrite -/r HR !evalR_add !evalR_mul !evalR_fm_poly !evalR_absL.
rewrite X1 X2 X3 X4 /upd N.eqb_refl /absL Hopp.
by case: (0 <? s2')%sZ => /=; ring.
Qed.

Lemma resolve_fm_assum_incl sgnM ord p1 c1 p2 c2 R0 cR0 A0 a :
  In a A0 -> In a (fm_assum (resolve_fm sgnM ord p1 c1 p2 c2 R0 cR0 A0)).
Proof.
rewrite /resolve_fm /resolve_fm_with => Ha.
case: (bd_top_var ord p1) => [x|] //; case: (bd_top_var ord p2) => [y|] //.
case: (N.eqb x y) => //=.
case E1: (fm_linear sgnM x p1 A0) => [l1 A1].
case E2: (fm_linear sgnM x p2 A1) => [l2 A2].
have I1 : In a A1.
  move: E1; rewrite /fm_linear; case E: (fm_scan _ _ _) => [kept A'].
  have [_ [_ _ H _]] := fm_scan_spec E.
  by case: kept {E} => [|? [|? [|? ?]]] [_ <-]; apply: H.
have I2 : In a A2.
  move: E2; rewrite /fm_linear; case E: (fm_scan _ _ _) => [kept A'].
  have [_ [_ _ H _]] := fm_scan_spec E.
  by case: kept {E} => [|? [|? [|? ?]]] [_ <-]; apply: H.
case: l1 {E1} => [pc1|] //; case: l2 {E2} => [pc2|] //.
case: (fm_norm pc1 c1) => pc1' c1'; case: (fm_norm pc2 c2) => pc2' c2'.
case: (fm_table c1' c2') => [cR|] //.
by case: (fm_stest _ _ _ _) => [[? ?]|] /=; apply/push_nc_incl/push_nc_incl.
Qed.

End FM.

(* ------------------------------------------------------------------ shape of the inferred intervals; explanation *)
Section Writes.

Lemma ib_quad_pos a b D : (0 < a)%sZ -> (0 < D.2)%sZ -> (0 < (ib_quad a b D).1.1)%sZ.
Proof. by move=> Ha HD; have [] := ib_quad_sound rat_realFieldType b Ha HD. Qed.

(* an inferred interval comes from a quadratic with positive leading coefficient and two (one) real roots,
   and is open exactly for the strict condition *)
Definition bound_wf (strict : bool) (b : ib_bound) : Prop :=
  match b with
  | IbPoint q => [/\ (0 < q.1.1)%sZ, quad_disc q = 0%sZ & strict = false]
  | IbRange q o => [/\ (0 < q.1.1)%sZ, (0 < quad_disc q)%sZ & o = strict]
  end.

Lemma ib_pass2_wf l D strict w c : sq_pos l -> (0 < D.2)%sZ -> ib_pass2 l D strict = (w, c) ->
  forall x b, In (x, b) w -> bound_wf strict b.
Proof.
move=> + HD; elim: l w c => [|[[y a] b0] l IH] w c Hl /=; first by case=> <- _.
have Ha : (0 < a)%sZ by apply: (Hl (y, a, b0)); left.
have Hl' : sq_pos l by move=> s Hs; apply: Hl; right.
have Hq := ib_quad_pos b0 Ha HD.
case: (Z.compare_spec (quad_disc (ib_quad a b0 D)) 0) => Hdisc.
- case Es: strict; first by case=> <- _.
  case E: (ib_pass2 l D false) => [w' c'] [<- _] x b /= [[_ <-]|Hin] //.
  by rewrite -Es in E; have := IH _ _ Hl' E _ _ Hin; rewrite Es.
- by case=> <- _.
- case E: (ib_pass2 l D strict) => [w' c'] [<- _] x b /= [[_ <-]|Hin] //.
  exact: IH Hl' E _ _ Hin.
Qed.

Definition eff_strict (c : sgn_cond) (negated : bool) : bool :=
  match (if negated then sc_negate c else c) with SgLT | SgGT => true | _ => false end.

Lemma ib_core_wf ord p strict code w : mwf p -> ib_core ord p strict = (code, w) ->
  forall x b, In (x, b) w -> bound_wf strict b.
Proof.
move=> Hw; rewrite /ib_core.
case E: (ib_peel ord p (0%sZ, 1%sZ)) => [[[l D] c0]|]; last by case=> _ <-.
have [HD Hl _] := ib_peel_sound rat_realFieldType Hw (erefl : (0 < (0%sZ, 1%sZ).2)%sZ) E.
have [HD' _] := q_sub_R rat_realFieldType HD (erefl : (0 < (q_from_integer c0).2)%sZ).
case E2: (ib_pass2 _ _ _) => [w' conflict] [_ <-].
exact: ib_pass2_wf Hl HD' E2.
Qed.

Theorem infer_bounds_wf ord p c negated code w : mwf p -> infer_bounds ord p c negated = (code, w) ->
  forall x b, In (x, b) w -> bound_wf (eff_strict c negated) b.
Proof.
move=> Hw; have Hwn := mwf_neg Hw; rewrite /infer_bounds /eff_strict.
case: (if negated then sc_negate c else c); try exact: ib_core_wf.
- case E1: (ib_core ord p false) => [code1 w1] /=.
  case: (Z.eqb_spec code1 0) => _; first exact: ib_core_wf.
  by case=> _ <-; apply: ib_core_wf E1.
- by case=> _ <-.
Qed.

(* ---- lp_polynomial_constraint_explain_infer_bounds returns the quadratic of the FIRST interval written for x *)
Fixpoint w_find (x : var) (w : seq (var * ib_bound)) : option ib_bound :=
  match w with
  | [::] => None
  | (y, b) :: w' => if N.eqb y x then Some b else w_find x w'
  end.

Lemma ib_pass2_find l D strict w x : ib_pass2 l D strict = (w, false) ->
  ib_find l D x = omap bound_quad (w_find x w).
Proof.
elim: l w => [|[[y a] b0] l IH] w /=; first by case=> <-.
case: (Z.compare_spec _ _) => _ //.
- case: strict IH => IH //.
  case E: (ib_pass2 l D false) => [w' c'] [<- Ec] /=; subst c'.
  by case: N.eqb => //; apply: IH.
- case E: (ib_pass2 l D strict) => [w' c'] [<- Ec] /=; subst c'.
  by case: N.eqb => //; apply: IH.
Qed.

Lemma explain_core_spec ord p strict w x b : ib_core ord p strict = (1%sZ, w) -> w_find x w = Some b ->
  explain_core ord p x = Some (quad_poly x (bound_quad b)).
Proof.
rewrite /ib_core /explain_core.
case E: (ib_peel ord p (0%sZ, 1%sZ)) => [[[l D] c0]|] //.
case E2: (ib_pass2 _ _ _) => [w' [|]] // [<-] Hf.
by rewrite (ib_pass2_find x E2) Hf.
Qed.

Theorem explain_infer_bounds_spec ord p c negated w x b :
  infer_bounds ord p c negated = (1%sZ, w) -> w_find x w = Some b ->
  explain_infer_bounds ord p c negated x = Some (quad_poly x (bound_quad b)).
Proof.
rewrite /infer_bounds /explain_infer_bounds.
case: (if negated then sc_negate c else c); try exact: explain_core_spec.
- case E1: (ib_core ord p false) => [code1 w1] /=.
  case: (Z.eqb_spec code1 0) => [E0|N0].
    move=> E2 Hf; rewrite (explain_core_spec E2 Hf).
    move: E1; rewrite /ib_core /explain_core.
    case: (ib_peel ord p (0%sZ, 1%sZ)) => [[[l D] c0]|] //.
    by case: (ib_pass2 _ _ _) => [w' [|]] [E]; move: E0; rewrite -E.
  by case=> E <- Hf; rewrite E in E1; rewrite (explain_core_spec E1 Hf).
- by [].
Qed.

End Writes.

Section ExplainEval.
Variable R : realFieldType.
(* the explaining polynomial IS the quadratic, as a polynomial in x *)
Lemma evalR_quad_poly (rho : var -> R) x q : mp_evalR rho (quad_poly x q) = quadR q (rho x).
Proof.
case: q => [[a b] c]; rewrite /quad_poly evalR_of_terms /quadR /term_evalR /= expr1.
by rewrite !mulr1 addr0 addrA.
Qed.
End ExplainEval.

(* ------------------------------------------------------------------ the end points are the real roots *)
Section PointRoot.
Variable R : realFieldType.
(* one root (discriminant 0): q(v) <= 0 exactly at the rational double root -b/2a *)
Lemma quad_point (q : ib_quadr) (v : R) : (0 < q.1.1)%sZ -> quad_disc q = 0%sZ ->
  let r := - ZR R q.1.2 / (2%:R * ZR R q.1.1) in
  ((quadR q v <= 0) = (v == r)) /\ ((quadR q v == 0) = (v == r)).
Proof.
move=> Ha Hd r.
have Ha' : 0 < ZR R q.1.1 by rewrite ZR_gt0; apply/Z.ltb_spec0.
have H4 : 0 < 4%:R * ZR R q.1.1 by rewrite mulr_gt0 // ltr0n.
have H2 : 0 < 2%:R * ZR R q.1.1 by rewrite mulr_gt0 // ltr0n.
have H := quad_4a q v; rewrite Hd ZR0 subr0 in H.
have Hv : (v == r) = (2%:R * ZR R q.1.1 * v + ZR R q.1.2 == 0).
  rewrite /r eq_sym -(inj_eq (mulIf (lt0r_neq0 H2))) divfK ?lt0r_neq0 // eq_sym.
  by rewrite -[LHS]subr_eq0; congr (_ == 0); ring.
have E0 : (quadR q v == 0) = (v == r).
  by rewrite Hv -[RHS]sqrf_eq0 -H mulf_eq0 (gt_eqF H4).
split=> //; rewrite -E0 le_eqVlt; case: eqP => //= _.
by apply/negbTE; rewrite -leNgt -(pmulr_rge0 _ H4) H sqr_ge0.
Qed.
End PointRoot.

Section Endpoints.
Variable R : rcfType.
(* two roots (discriminant > 0): q(v) < 0 (<= 0) exactly strictly (weakly) between the two real roots, which are
   the only zeros of q *)
Lemma quad_range (q : ib_quadr) : (0 < q.1.1)%sZ -> (0 < quad_disc q)%sZ ->
  let s : R := Num.sqrt (ZR R (quad_disc q)) in
  let r0 := (- ZR R q.1.2 - s) / (2%:R * ZR R q.1.1) in
  let r1 := (- ZR R q.1.2 + s) / (2%:R * ZR R q.1.1) in
  [/\ r0 < r1,
      forall v, (quadR q v < 0) = (r0 < v < r1),
      forall v, (quadR q v <= 0) = (r0 <= v <= r1) &
      forall v, (quadR q v == 0) = (v == r0) || (v == r1)].
Proof.
move=> Ha Hd s r0 r1.
have Ha' : 0 < ZR R q.1.1 by rewrite ZR_gt0; apply/Z.ltb_spec0.
have Hd' : 0 < ZR R (quad_disc q) by rewrite ZR_gt0; apply/Z.ltb_spec0.
have H4 : 0 < 4%:R * ZR R q.1.1 by rewrite mulr_gt0 // ltr0n.
have H2 : 0 < 2%:R * ZR R q.1.1 by rewrite mulr_gt0 // ltr0n.
have Hs : 0 < s by rewrite sqrtr_gt0.
have Hss : s ^+ 2 = ZR R (quad_disc q) by rewrite sqr_sqrtr // ltW.
pose u v := 2%:R * ZR R q.1.1 * v + ZR R q.1.2.
have H v : 4%:R * ZR R q.1.1 * quadR q v = u v ^+ 2 - s ^+ 2 by rewrite Hss; apply: quad_4a.
have L0 v : (r0 < v) = (- s < u v).
  rewrite /r0 ltr_pdivr_mulr // -[LHS]subr_gt0 -[RHS]subr_gt0; congr (0 < _); rewrite /u; ring.
have L1 v : (v < r1) = (u v < s).
  rewrite /r1 ltr_pdivl_mulr // -[LHS]subr_gt0 -[RHS]subr_gt0; congr (0 < _); rewrite /u; ring.
have E0 v : (v == r0) = (u v == - s).
  rewrite /r0 -(inj_eq (mulIf (lt0r_neq0 H2))) divfK ?lt0r_neq0 // -[LHS]subr_eq0 -[RHS]subr_eq0.
  by congr (_ == 0); rewrite /u; ring.
have E1 v : (v == r1) = (u v == s).
  rewrite /r1 -(inj_eq (mulIf (lt0r_neq0 H2))) divfK ?lt0r_neq0 // -[LHS]subr_eq0 -[RHS]subr_eq0.
  by congr (_ == 0); rewrite /u; ring.
have Hlt v : (quadR q v < 0) = (r0 < v < r1).
  rewrite -(pmulr_rlt0 _ H4) H subr_lt0 L0 L1 -ltr_norml.
  by rewrite -(real_normK (num_real (u v))) ltr_sqr ?nnegrE ?normr_ge0 // ltW.
have Heq v : (quadR q v == 0) = (v == r0) || (v == r1).
  by rewrite -(inj_eq (mulfI (lt0r_neq0 H4))) mulr0 H subr_eq0 eqf_sqr E0 E1 orbC.
split=> //.
- by rewrite /r0 /r1 ltr_pmul2r ?invr_gt0 // ltr_add2l gt0_cp.
- move=> v; rewrite le_eqVlt Heq Hlt !le_eqVlt.
  have H01 : r0 < r1 by rewrite /r0 /r1 ltr_pmul2r ?invr_gt0 // ltr_add2l gt0_cp.
  case: (ltrgtP v r0) => [Hv|Hv|->]; case: (ltrgtP v r1) => [Hw|Hw|Ew] //=; rewrite ?H01 ?orbT //.
  by move: Hv; rewrite Ew ltNge (ltW H01).
Qed.
End Endpoints.

(* ------------------------------------------------------------------ the inferred intervals as sets of reals *)
Section Intervals.
Variable R : rcfType.

Definition root_lo (q : ib_quadr) : R :=
  (- ZR R q.1.2 - Num.sqrt (ZR R (quad_disc q))) / (2%:R * ZR R q.1.1).
Definition root_hi (q : ib_quadr) : R :=
  (- ZR R q.1.2 + Num.sqrt (ZR R (quad_disc q))) / (2%:R * ZR R q.1.1).

(* membership in the interval libpoly stores: [r, r], (r0, r1) or [r0, r1] *)
Definition in_interval (b : ib_bound) (v : R) : bool :=
  match b with
  | IbPoint q => v == root_lo q
  | IbRange q true => root_lo q < v < root_hi q
  | IbRange q false => root_lo q <= v <= root_hi q
  end.

(* the end points are exactly the real roots of the quadratic (= of the explaining polynomial) *)
Lemma bound_roots strict b : bound_wf strict b ->
  forall v : R, (quadR (bound_quad b) v == 0) = (v == root_lo (bound_quad b)) || (v == root_hi (bound_quad b)).
Proof.
case: b => [q|q o] /= [Ha Hd _] v.
- have [_ ->] := quad_point v Ha Hd.
  by rewrite /root_lo /root_hi Hd ZR0 sqrtr0 subr0 addr0 orbb.
- by have [_ _ _ ->] := quad_range R Ha Hd.
Qed.

Lemma bound_holds_interval strict b (v : R) : bound_wf strict b -> bound_holds b v = in_interval b v.
Proof.
case: b => [q|q o] /= [Ha Hd _].
- have [-> _] := quad_point v Ha Hd.
  by rewrite /root_lo Hd ZR0 sqrtr0 subr0.
- by have [_ H1 H2 _] := quad_range R Ha Hd; case: o; rewrite ?H1 ?H2.
Qed.

Lemma bound_nonempty strict b : bound_wf strict b ->
  match b with IbPoint _ => True | IbRange q _ => root_lo q < root_hi q end.
Proof. by case: b => [q|q o] //= [Ha Hd _]; have [] := quad_range R Ha Hd. Qed.

Theorem infer_bounds_interval ord p c negated w : mwf p -> infer_bounds ord p c negated = (1%sZ, w) ->
  forall rho : var -> R, constraint_holds c negated (mp_evalR rho p) ->
  forall x b, In (x, b) w -> in_interval b (rho x).
Proof.
move=> Hw E rho Hc x b Hin.
have [H1 _ _ _] := infer_bounds_sound R Hw E.
by rewrite -(bound_holds_interval _ (infer_bounds_wf Hw E Hin)); apply: H1 Hin.
Qed.
End Intervals.

(* ------------------------------------------------------------------ the statements of Properties_C16.v (inputs in canonical form: mp_wf) *)
Lemma C16_infer_sound_pf (R : realFieldType) ord p c negated code w :
  mp_wf p = true -> infer_bounds ord p c negated = (code, w) ->
  [/\ code = 1%sZ -> forall rho : var -> R, constraint_holds c negated (mp_evalR rho p) ->
                     forall x b, In (x, b) w -> bound_holds b (rho x),
      code = (-1)%sZ -> forall rho : var -> R, ~~ constraint_holds c negated (mp_evalR rho p),
      code = 0%sZ -> w = [::] &
      code = 1%sZ \/ code = 0%sZ \/ code = (-1)%sZ].
Proof. by move=> /mp_wf_mwf; apply: infer_bounds_sound. Qed.

Lemma C16_infer_shape_pf ord p c negated code w :
  mp_wf p = true -> infer_bounds ord p c negated = (code, w) ->
  forall x b, In (x, b) w -> bound_wf (eff_strict c negated) b.
Proof. by move=> /mp_wf_mwf; apply: infer_bounds_wf. Qed.

Lemma C16_infer_inside_pf (R : rcfType) ord p c negated w :
  mp_wf p = true -> infer_bounds ord p c negated = (1%sZ, w) ->
  forall rho : var -> R, constraint_holds c negated (mp_evalR rho p) ->
  forall x b, In (x, b) w -> in_interval b (rho x).
Proof. by move=> /mp_wf_mwf; apply: infer_bounds_interval. Qed.

Lemma C16_fm_sound_pf (R : realFieldType) sgnM ord p1 c1 p2 c2 R0 cR0 A0 :
  mp_wf p1 = true -> mp_wf p2 = true ->
  let r := resolve_fm sgnM ord p1 c1 p2 c2 R0 cR0 A0 in
  fm_ok r = true ->
  forall rho : var -> R, assum_ok sgnM rho (fm_assum r) ->
    cond_sem c1 (mp_evalR rho p1) -> cond_sem c2 (mp_evalR rho p2) ->
    cond_sem (fm_cond r) (mp_evalR rho (fm_R r)).
Proof. by move=> /mp_wf_mwf H1 /mp_wf_mwf H2; apply: resolve_fm_sound. Qed.
