(* Sturm's theorem at FINITE end points with zero skipping, for the shared reference UPoly.count_roots_oc /
   sturm_var: perturbation argument on top of MathComp's changes_itv_mods_cindex (which needs that no chain
   member vanishes at the end points).  Where an inner member vanishes its neighbours have opposite signs, a
   vanishing first member (simple root) is followed by the derivative; so the zero-skipping variation at a equals
   the plain variation just right of a. *)
From Coq Require Import ZArith.
From LP Require Import UPoly RootIso.
Set Warnings "-notation-overridden,-ambiguous-paths".
From mathcomp Require Import all_ssreflect all_algebra all_real_closed.
From mathcomp Require Import ssrZ zify.
Set Warnings "notation-overridden,ambiguous-paths".
From LP Require Import UPolySpec RootIsoProofs.
Import GRing.Theory Num.Theory Num.Def Order.TTheory.
Set Implicit Arguments.
Unset Strict Implicit.
Unset Printing Implicit Defensive.
Local Open Scope ring_scope.

Section SkipVar.
Variable R : rcfType.
Implicit Types (s t : seq R).

Definition nz (x : R) : bool := x != 0.

(* t is s with every zero replaced by a non-zero value; zeros of s are isolated inner entries whose neighbours
   have opposite signs; s starts and ends with a non-zero entry *)
Inductive skiprel : seq R -> seq R -> Prop :=
| SR_one x y : x != 0 -> sgr y = sgr x -> skiprel [:: x] [:: y]
| SR_nz x y x2 s t : x != 0 -> x2 != 0 -> sgr y = sgr x -> skiprel (x2 :: s) t ->
    skiprel (x :: x2 :: s) (y :: t)
| SR_zero x y y1 z s t : x != 0 -> sgr y = sgr x -> y1 != 0 -> x * z < 0 -> skiprel (z :: s) t ->
    skiprel (x :: 0 :: z :: s) (y :: y1 :: t).

Lemma skiprel_head s t : skiprel s t -> head 0 s != 0 /\ sgr (head 0 t) = sgr (head 0 s).
Proof. by case. Qed.

Lemma changes_cons2 (a b : R) s : changes (a :: b :: s) = ((a * b < 0)%R + changes (b :: s))%N.
Proof. by []. Qed.

Lemma sg_lt0 (a b : R) : (a * b < 0) = (sgr a * sgr b < 0).
Proof. by rewrite -sgrM sgr_lt0. Qed.

Lemma tri (a b c : R) : b != 0 -> a * c < 0 -> ((a * b < 0)%R + (b * c < 0)%R)%N = 1%N.
Proof.
move=> b0; case: (ltrgt0P a) => [a0|a0|->]; last by rewrite mul0r ltxx.
  rewrite !(pmulr_rlt0 _ a0) => c0; rewrite (nmulr_llt0 _ c0).
  by case: (ltrgt0P b) b0.
rewrite !(nmulr_rlt0 _ a0) => c0; rewrite (pmulr_llt0 _ c0).
by case: (ltrgt0P b) b0.
Qed.

Lemma skiprel_changes s t : skiprel s t -> changes t = changes (filter nz s).
Proof.
elim=> [x y x0 sxy|x y x2 s' t' x0 x20 sxy rel IH|x y y1 z s' t' x0 sxy y10 xz rel IH].
- by rewrite /= /nz x0 /= !mulr0.
- have [h0 hs] := skiprel_head rel; rewrite /= in h0 hs.
  case: t' rel IH hs => [|y2 t'] rel IH hs; first by inversion rel.
  have {}hs : sgr y2 = sgr x2 by exact: hs.
  rewrite changes_cons2 IH.
  have -> : filter nz [:: x, x2 & s'] = x :: x2 :: filter nz s' by rewrite /= /nz x0 x20.
  have -> : filter nz (x2 :: s') = x2 :: filter nz s' by rewrite /= /nz x20.
  by rewrite changes_cons2; congr (_ + _)%N; rewrite sg_lt0 sxy hs -sg_lt0.
- have [h0 hs] := skiprel_head rel; rewrite /= in h0 hs.
  case: t' rel IH hs => [|y2 t'] rel IH hs; first by inversion rel.
  have {}hs : sgr y2 = sgr z by exact: hs.
  rewrite !changes_cons2 IH.
  have -> : filter nz [:: x, 0, z & s'] = x :: z :: filter nz s' by rewrite /= /nz x0 eqxx h0.
  have -> : filter nz (z :: s') = z :: filter nz s' by rewrite /= /nz h0.
  rewrite changes_cons2 addnA; congr (_ + _)%N; rewrite xz.
  have y0 : y != 0 by rewrite -sgr_eq0 sxy sgr_eq0.
  have yy2 : y * y2 < 0 by rewrite sg_lt0 sxy hs -sg_lt0.
  by rewrite (tri y10 yy2).
Qed.

End SkipVar.

Section ChainAt.
Variable R : rcfType.
Implicit Types (p q a b c : {poly R}) (ch : seq {poly R}) (x : R).

Lemma Rlinks_tail a ch : Rlinks (a :: ch) -> Rlinks ch.
Proof. by case: ch => [|b [|c rest]] //= [_]. Qed.

Lemma modp_root a b x : root b x -> (a %% b).[x] = a.[x].
Proof. by move=> /eqP bx; rewrite {2}(divp_eq a b) hornerD hornerM bx mulr0 add0r. Qed.

(* if the last member does not vanish at x, no two consecutive members vanish at x *)
Lemma chain_no_double a b rest x : Rlinks (a :: b :: rest) -> ~~ root (last b rest) x ->
  ~~ (root a x && root b x).
Proof.
elim: rest a b => [|c rest IH] a b /=; first by move=> _ /negPf ->; rewrite andbF.
move=> [[b0 c0 [k k0 cE]] lk] lst; apply/negP => /andP[ax bx].
have cx : root c x by rewrite cE rootZ ?gt_eqF // rootN rootE modp_root // -rootE.
by have := IH b c lk lst; rewrite bx cx.
Qed.

Lemma dvdp_root_tr (d p : {poly R}) x : d %| p -> root d x -> root p x.
Proof. by rewrite -!dvdp_XsubCl => dp dx; exact: dvdp_trans dx dp. Qed.

(* the last member divides every member *)
Lemma Rlinks_last_dvd ch : Rlinks ch -> all (fun p => last 0 ch %| p) ch.
Proof.
elim: ch => [|a [|b rest] IH] // lk; first by rewrite /= dvdpp.
have /= /andP[lb lrest] := IH (Rlinks_tail lk).
rewrite [all _ _]/= [last _ _]/= lb lrest !andbT.
case: rest lk lb lrest {IH} => [|c rest] /= lk lb lrest.
  by case: lk => [[_ /modp_eq0P]].
case: lk => [[_ _ [k k0 cE]] _]; case/andP: lrest => lc _.
rewrite (divp_eq a b) dvdp_add ?dvdp_mull //.
have -> : a %% b = (- k^-1) *: c by rewrite cE scalerA mulNr mulVf ?gt_eqF // scaleN1r opprK.
by rewrite dvdpZr // oppr_eq0 invr_eq0 gt_eqF.
Qed.

Definition ev x ch : seq R := [seq p.[x] | p <- ch].
Definition sr x ch : seq R := [seq sgp_right p x | p <- ch].

Lemma chain_skiprel n ch x : (size ch <= n)%N -> Rlinks ch -> ch != [::] -> all (fun p => p != 0) ch ->
  ~~ root (head 0 ch) x -> ~~ root (last 0 ch) x -> skiprel (ev x ch) (sr x ch).
Proof.
elim: n ch => [|n IH] [|a [|b rest]] // sz lk _ nzs /= ax lst.
  by apply: SR_one; rewrite -?rootE // sgp_rightNroot // sgr_id.
have nzs' : all (fun p => p != 0) (b :: rest) by case/andP: nzs.
have [bx|bx] := boolP (root b x); last first.
  apply: SR_nz; [by rewrite -rootE | by rewrite -rootE | by rewrite sgp_rightNroot // sgr_id | ].
  by apply: (IH (b :: rest)) => //; exact: Rlinks_tail lk.
case: rest sz lk nzs nzs' lst => [|c rest] sz lk nzs nzs' lst; first by rewrite /= bx in lst.
have lk' := Rlinks_tail lk.
have cx : ~~ root c x by have := chain_no_double lk' lst; rewrite bx.
have [k k0 cE] : ppos c (- (a %% b)) by case: lk => [[]].
rewrite /ev /sr /= (eqP bx).
apply: SR_zero; [by rewrite -rootE | by rewrite sgp_rightNroot // sgr_id | | | ].
- by rewrite sgp_right_eq0; case/andP: nzs'.
  rewrite cE hornerZ hornerN modp_root // mulrCA mulrN mulrN oppr_lt0 -expr2 mulr_gt0 //.
  by rewrite exprn_even_gt0 //= -rootE.
- apply: (IH (c :: rest)) => //.
  + by move: sz; rewrite /= => sz; move: (size rest) sz => m; lia.
  + exact: Rlinks_tail lk'.
  + by case/andP: nzs'.
Qed.

End ChainAt.

Section SturmFinite.
Variable R : rcfType.
Implicit Types (p q : {poly R}) (ch : seq {poly R}) (x y : R).

Definition Vskip x ch : nat := changes (filter (@nz R) (ev x ch)).

Lemma pposs_hd2 ch (F : {poly R}) : F != 0 -> pposs ch (mods F F^`()) ->
  match ch with
  | [::] => Logic.False
  | p0 :: rest => ppos p0 F /\
      match rest with [::] => Logic.True | p1 :: _ => ppos p1 F^`() end
  end.
Proof.
move=> F0; rewrite neq0_mods_rec //; case: ch => [|p0 rest] //= [h0 h1]; split=> //.
case: rest h1 => [|p1 rest] //; rewrite mods_rec; case: ifP => // _ /= [].
by [].
Qed.

(* the zero-skipping variation at x is the plain variation of the signs just right of x *)
Lemma Vskip_right ch (F : {poly R}) x : F != 0 -> pposs ch (mods F F^`()) -> Rlinks ch ->
  ~~ root (last 0 ch) x -> Vskip x ch = changes (sr x ch).
Proof.
move=> F0 st lk lst.
have nzs : all (fun p => p != 0) ch := pposs_neq0 st (mods_neq0 _ _).
have := pposs_hd2 F0 st; case: ch st lk lst nzs => [|p0 rest] // st lk lst nzs [h0 h1].
have [p0x|p0x] := boolP (root p0 x); last first.
  by rewrite /Vskip -(skiprel_changes (chain_skiprel (leqnn _) lk _ nzs _ lst)).
case: rest st lk lst nzs h1 => [|p1 rest] st lk lst nzs h1; first by rewrite /= p0x in lst.
have p1x : ~~ root p1 x by have := chain_no_double lk lst; rewrite p0x.
have nzs' : all (fun p => p != 0) (p1 :: rest) by case/andP: nzs.
have -> : Vskip x [:: p0, p1 & rest] = Vskip x (p1 :: rest).
  by rewrite /Vskip /= /nz (eqP p0x) eqxx.
rewrite /Vskip -(skiprel_changes (chain_skiprel (leqnn _) (Rlinks_tail lk) _ nzs' _ _)) //.
rewrite [in RHS]/sr [map _ _]/= changes_cons2 -/(sr x (p1 :: rest)).
suff -> : (sgp_right p0 x * sgp_right p1 x < 0) = false by [].
have [c0 c00 p0E] := h0; have [c1 c10 p1E] := h1.
have Fx : root F x by move: p0x; rewrite p0E rootZ // gt_eqF.
rewrite p0E p1E !sgp_right_scale !gtr0_sg // !mul1r (sgp_right_deriv Fx).
by apply/negbTE; rewrite -leNgt -expr2 sqr_ge0.
Qed.

Lemma neighpr_prod ch x c y : y \in neighpr (\prod_(p <- ch) p) x c ->
  all (fun p => y \in neighpr p x c) ch.
Proof.
by elim: ch => [|p ch IH] //=; rewrite big_cons neighpr_mul inE /= => /andP[-> /IH ->].
Qed.

Lemma changes_right ch x c y : y \in neighpr (\prod_(p <- ch) p) x c ->
  changes (ev y ch) = changes (sr x ch).
Proof.
move=> /neighpr_prod yin; rewrite -changes_sgr -[RHS]changes_sgr /ev /sr -!map_comp; congr changes.
apply/eq_in_map => p pin /=.
by have yp := allP yin _ pin; rewrite -(sgr_neighpr yp) sgr_id.
Qed.


Lemma pposs_ev ch ms y : pposs ch ms -> [seq sgr z | z <- ev y ch] = [seq sgr z | z <- ev y ms].
Proof.
elim: ch ms => [|p ch IH] [|m ms] //= [[c c0 ->] /IH ->].
by rewrite hornerZ sgrM gtr0_sg // mul1r.
Qed.

Lemma taq1_size (z : seq R) : taq z 1 = (size z)%:Z.
Proof.
rewrite /taq; elim: z => [|x z IH]; first by rewrite big_nil.
by rewrite big_cons IH hornerC sgz1 /= intS.
Qed.

(* Sturm's theorem on (a, b] for a chain positively proportional to mods F F', zeros skipped, provided the last
   member (= gcd(F, F') up to a constant) does not vanish at a and b *)
Theorem sturm_chain_itv ch (F : {poly R}) a b : F != 0 -> pposs ch (mods F F^`()) -> Rlinks ch ->
  a < b -> ~~ root (last 0 ch) a -> ~~ root (last 0 ch) b ->
  (Vskip a ch - Vskip b ch)%N = size [seq x <- rootsR F | a < x <= b].
Proof.
move=> F0 st lk ab lsta lstb.
have nzs : all (fun p => p != 0) ch := pposs_neq0 st (mods_neq0 _ _).
pose P := \prod_(p <- ch) p.
have P0 : P != 0 by rewrite /P prodf_seq_neq0.
have [ya yain] := neighpr_wit ab P0.
have bb1 : b < b + 1 by rewrite ltr_addl ltr01.
have [yb ybin] := neighpr_wit bb1 P0.
rewrite (Vskip_right F0 st lk lsta) (Vskip_right F0 st lk lstb).
rewrite -(changes_right yain) -(changes_right ybin).
have aya : a < ya by move: yain; rewrite inE => /andP[].
have yab : ya < b.
  move: yain; rewrite inE => /andP[_ h]; apply: lt_le_trans h _.
  by have := next_root_in P a b; rewrite in_itv /= (max_l (ltW ab)) => /andP[].
have byb : b < yb by move: ybin; rewrite inE => /andP[].
have yayb : ya < yb := lt_trans yab byb.
(* no member vanishes at ya, yb *)
have nr y x c : y \in neighpr P x c -> all (fun p => ~~ root p y) (mods F F^`()).
  move=> yin; have := neighpr_root yin; rewrite /P.
  have : pposs ch (mods F F^`()) := st.
  elim: (ch) (mods F F^`()) => [|p ch' IH] [|m ms] //= [[k k0 ->] /IH {}IH].
  by rewrite big_cons rootM negb_or rootZ ?gt_eqF // => /andP[-> /IH].
have := changes_itv_mods_cindex yayb (nr _ _ _ yain) (nr _ _ _ ybin).
rewrite /changes_itv_mods /changes_itv_poly /changes_horner -/(ev ya _) -/(ev yb _).
rewrite -(changes_sgr (ev ya _)) -(changes_sgr (ev yb _)) -!(pposs_ev _ st) !changes_sgr.
have := taq_cindex ya yb F 1; rewrite mulr1 taq1_size => <-.
move=> hh.
have E : roots F ya yb = [seq x <- rootsR F | a < x <= b]; last first.
  rewrite -E; move: hh; move: (changes _) (changes _) (size _) => m n k h.
  have le : (m <= n)%N by rewrite -lez_nat -subr_ge0 h.
  by apply/eqP; rewrite -eqz_nat -subzn // h.
have noa z : a < z <= ya -> ~~ root F z.
  move=> /andP[az zya]; have zin : z \in neighpr P a b.
    by move: yain; rewrite /neighpr !in_itv /= az /= => /andP[_]; exact: le_lt_trans.
  by have := allP (nr _ _ _ zin) F; rewrite neq0_mods_rec // inE eqxx; exact.
have nob z : b < z <= yb -> ~~ root F z.
  move=> /andP[bz zyb]; have zin : z \in neighpr P b (b + 1).
    by move: ybin; rewrite /neighpr !in_itv /= bz /= => /andP[_]; exact: le_lt_trans.
  by have := allP (nr _ _ _ zin) F; rewrite neq0_mods_rec // inE eqxx; exact.
apply: lt_sorted_eq; first exact: sorted_roots.
  by apply: sorted_filter (sorted_roots _ _ F); exact: lt_trans.
move=> z; rewrite mem_filter in_rootsR // in_roots F0 andbT in_itv /= andbC.
case rz: (root F z); rewrite ?andbF //= !andbT.
apply/andP/andP => [[yaz zyb]|[az zb]]; split.
- exact: lt_trans aya yaz.
- by rewrite leNgt; apply/negP => bz; have := nob z; rewrite bz (ltW zyb) rz => /(_ isT).
- by rewrite ltNge; apply/negP => zya; have := noa z; rewrite az zya rz => /(_ isT).
- exact: le_lt_trans zb byb.
Qed.

End SturmFinite.

(* ====================================================================== the reference count of UPoly.v *)
Section RefCount.
Variable R : rcfType.
Local Notation PR := (PR R).
Local Notation QR := (QR R).
Local Notation ZtoR := (ZtoR R).

Lemma chain_ok_Rlinks f ch : chain_ok f ch -> Rlinks (R:=R) (map PR ch).
Proof.
case: ch => [|a [|b rest]] //.
by rewrite chain_ok_cons2 => /andP[_ /(links_okP R)].
Qed.

Definition nzZ (z : Z) : bool := z != 0.

Lemma sign_var_aux_filter prev l : sign_var_aux prev l = sign_var_aux prev (filter nzZ l).
Proof.
elim: l prev => [|s l IH] prev //=; rewrite /nzZ ZeqbP.
case: (s =P 0) => [->|/eqP s0] /=; first exact: IH.
by rewrite [Z.eqb s Z0]ZeqbP (negPf s0); case: ifP => _; rewrite IH.
Qed.

(* the model's zero-skipping variation at a rational point is Vskip of the chain over R *)
Lemma sturm_var_fin (ch : seq (seq Z)) (a b : Z) : (0 < b)%R ->
  sturm_var ch (Fin a b) = Vskip (QR a b) (map PR ch).
Proof.
move=> b0; rewrite /sturm_var /sign_var sign_var_aux_filter -/(sign_var _) (@sign_varP R); last first.
  rewrite all_filter; apply/allP => z /mapP[p _ ->] /=; apply/implyP; rewrite /nzZ /psgn_at /psgn_at_rat.
  by case: (peval_hom_aux p a b).1.
rewrite /Vskip -changes_sgr -[RHS]changes_sgr; congr changes.
rewrite /ev -!map_comp !filter_map -!map_comp; set P1 := preim _ _; set P2 := preim _ _.
have -> : filter P2 ch = filter P1 ch.
  apply: eq_filter => p; rewrite /P1 /P2 /= /nz /nzZ /=.
  by rewrite -(ZtoR_eq0 R) -sgr_horner_rat // sgr_eq0.
by apply: eq_map => p /=; rewrite -sgr_horner_rat // sgr_id.
Qed.


(* Sturm's theorem for the reference count on (a, b], zeros skipped.  Only hypothesis on the chain: its LAST
   member (gcd(f, f') up to a constant) does not vanish at a and b; inner members may vanish. *)
Theorem count_roots_oc_fin (f : seq Z) (an ad bn bd : Z) : ~~ pis_zero f ->
  (0 < ad)%R -> (0 < bd)%R -> QR an ad < QR bn bd ->
  psgn_at_rat (last [::] (sturm_chain f)) an ad != 0 ->
  psgn_at_rat (last [::] (sturm_chain f)) bn bd != 0 ->
  count_roots_oc f (Fin an ad) (Fin bn bd)
  = size [seq x <- rootsR (PR f) | QR an ad < x <= QR bn bd].
Proof.
move=> f0 ad0 bd0 ab la lb.
have F0 : PR f != 0 by rewrite PR_eq0.
have ok := sturm_chain_certified f0.
have st := chain_okP R ok; have lk := chain_ok_Rlinks ok.
rewrite /count_roots_oc !sturm_var_fin //.
have lastE : last 0 (map PR (sturm_chain f)) = PR (last [::] (sturm_chain f)).
  by rewrite -(PR_nil R) last_map.
by apply: sturm_chain_itv => //; rewrite lastE root_rat.
Qed.


Lemma chain_last_root f x : ~~ pis_zero f -> root (PR (last [::] (sturm_chain f))) x ->
  root (PR f) x /\ root (PR f)^`() x.
Proof.
move=> f0 lx; have ok := sturm_chain_certified f0.
have st := chain_okP R ok; have lk := chain_ok_Rlinks ok.
have F0 : PR f != 0 by rewrite PR_eq0.
have dv := Rlinks_last_dvd lk.
have := pposs_hd2 F0 st.
move: lx ok dv {st lk}; rewrite -[PR (last _ _)](last_map PR) PR_nil.
case: (sturm_chain f) => [|p0 [|p1 rest]] //= lx ok dv.
  move=> [[c c0 E] _]; have Fx : root (PR f) x by move: lx; rewrite E rootZ // gt_eqF.
  split=> //; move: ok => /andP[_]; rewrite -(PR_eq0 R) PR_pderiv => /eqP ->.
  exact: root0.
case/and3P: dv => d0 d1 _ [[c0 c00 E0] [c1 c10 E1]].
split.
  by have := dvdp_root_tr d0 lx; rewrite E0 rootZ // gt_eqF.
by have := dvdp_root_tr d1 lx; rewrite E1 rootZ // gt_eqF.
Qed.

(* corollary 1: f(a) <> 0 and f(b) <> 0 suffice (f arbitrary non-zero, multiple roots allowed inside) *)
Theorem count_roots_oc_fin_nonroot (f : seq Z) (an ad bn bd : Z) : ~~ pis_zero f ->
  (0 < ad)%R -> (0 < bd)%R -> QR an ad < QR bn bd ->
  psgn_at_rat f an ad != 0 -> psgn_at_rat f bn bd != 0 ->
  count_roots_oc f (Fin an ad) (Fin bn bd)
  = size [seq x <- rootsR (PR f) | QR an ad < x <= QR bn bd].
Proof.
move=> f0 ad0 bd0 ab fa fb; apply: count_roots_oc_fin => //.
  by apply: contra fa; rewrite -!(root_rat R) // => /(chain_last_root f0) [].
by apply: contra fb; rewrite -!(root_rat R) // => /(chain_last_root f0) [].
Qed.

(* corollary 2: f without multiple real roots (e.g. square-free): no hypothesis at the end points at all,
   b may be a root (counted), a may be a root (not counted) *)
Theorem count_roots_oc_fin_simple (f : seq Z) (an ad bn bd : Z) : ~~ pis_zero f ->
  (forall x : R, root (PR f) x -> ~~ root (PR f)^`() x) ->
  (0 < ad)%R -> (0 < bd)%R -> QR an ad < QR bn bd ->
  count_roots_oc f (Fin an ad) (Fin bn bd)
  = size [seq x <- rootsR (PR f) | QR an ad < x <= QR bn bd].
Proof.
move=> f0 simple ad0 bd0 ab; apply: count_roots_oc_fin => //.
  by rewrite -(root_rat R) //; apply/negP => /(chain_last_root f0) [/simple /negP].
by rewrite -(root_rat R) //; apply/negP => /(chain_last_root f0) [/simple /negP].
Qed.

End RefCount.
