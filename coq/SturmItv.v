(* Sturm's theorem at FINITE end points with zero skipping, for the shared reference UPoly.count_roots_oc /
   sturm_var: perturbation argument on top of MathComp's changes_itv_mods_cindex (which needs that no chain
   member vanishes at the end points).  Where an inner member vanishes its neighbours have opposite signs, a
   vanishing first member (simple root) is followed by the derivative; so the zero-skipping variation at a equals
   the plain variation just right of a. *)
From Coq Require Import ZArith.
From LP Require Import UPoly RootIso.
Set Warnings "-notation-overridden,-ambiguous-paths".
From mathcomp Require Import all_ssreflect all_algebra all_real_closed.
From mathcomp Require Import ssrZ zify.
Set Warnings "notation-overridden,ambiguous-paths".
From LP Require Import UPolySpec RootIsoProofs.
Import GRing.Theory Num.Theory Num.Def Order.TTheory.
Set Implicit Arguments.
Unset Strict Implicit.
Unset Printing Implicit Defensive.
Local Open Scope ring_scope.

Section SkipVar.
Variable R : rcfType.
Implicit Types (s t : seq R).

Definition nz (x : R) : bool := x != 0.

(* t is s with every zero replaced by a non-zero value; zeros of s are isolated inner entries whose neighbours
   have opposite signs; s starts and ends with a non-zero entry *)
Inductive skiprel : seq R -> seq R -> Prop :=
| SR_one x y : x != 0 -> sgr y = sgr x -> skiprel [:: x] [:: y]
| SR_nz x y x2 s t : x != 0 -> x2 != 0 -> sgr y = sgr x -> skiprel (x2 :: s) t ->
    skiprel (x :: x2 :: s) (y :: t)
| SR_zero x y y1 z s t : x != 0 -> sgr y = sgr x -> y1 != 0 -> x * z < 0 -> skiprel (z :: s) t ->
    skiprel (x :: 0 :: z :: s) (y :: y1 :: t).

Lemma skiprel_head s t : skiprel s t -> head 0 s != 0 /\ sgr (head 0 t) = sgr (head 0 s).
Proof. by case. Qed.

Lemma changes_cons2 (a b : R) s : changes (a :: b :: s) = ((a * b < 0)%R + changes (b :: s))%N.
Proof. by []. Qed.

Lemma sg_lt0 (a b : R) : (a * b < 0) = (sgr a * sgr b < 0).
Proof. by rewrite -sgrM sgr_lt0. Qed.

Lemma tri (a b c : R) : b != 0 -> a * c < 0 -> ((a * b < 0)%R + (b * c < 0)%R)%N = 1%N.
Proof.
move=> b0; case: (ltrgt0P a) => [a0|a0|->]; last by rewrite mul0r ltxx.
  rewrite !(pmulr_rlt0 _ a0) => c0; rewrite (nmulr_llt0 _ c0).
  by case: (ltrgt0P b) b0.
rewrite !(nmulr_rlt0 _ a0) => c0; rewrite (pmulr_llt0 _ c0).
by case: (ltrgt0P b) b0.
Qed.

Lemma skiprel_changes s t : skiprel s t -> changes t = changes (filter nz s).
Proof.
elim=> [x y x0 sxy|x y x2 s' t' x0 x20 sxy rel IH|x y y1 z s' t' x0 sxy y10 xz rel IH].
- by rewrite /= /nz x0 /= !mulr0.
- have [h0 hs] := skiprel_head rel; rewrite /= in h0 hs.
  case: t' rel IH hs => [|y2 t'] rel IH hs; first by inversion rel.
  have {}hs : sgr y2 = sgr x2 by exact: hs.
  rewrite changes_cons2 IH.
  have -> : filter nz [:: x, x2 & s'] = x :: x2 :: filter nz s' by rewrite /= /nz x0 x20.
  have -> : filter nz (x2 :: s') = x2 :: filter nz s' by rewrite /= /nz x20.
  by rewrite changes_cons2; congr (_ + _)%N; rewrite sg_lt0 sxy hs -sg_lt0.
- have [h0 hs] := skiprel_head rel; rewrite /= in h0 hs.
  case: t' rel IH hs => [|y2 t'] rel IH hs; first by inversion rel.
  have {}hs : sgr y2 = sgr z by exact: hs.
  rewrite !changes_cons2 IH.
  have -> : filter nz [:: x, 0, z & s'] = x :: z :: filter nz s' by rewrite /= /nz x0 eqxx h0.
  have -> : filter nz (z :: s') = z :: filter nz s' by rewrite /= /nz h0.
  rewrite changes_cons2 addnA; congr (_ + _)%N; rewrite xz.
  have y0 : y != 0 by rewrite -sgr_eq0 sxy sgr_eq0.
  have yy2 : y * y2 < 0 by rewrite sg_lt0 sxy hs -sg_lt0.
  by rewrite (tri y10 yy2).
Qed.

End SkipVar.

Section ChainAt.
Variable R : rcfType.
Implicit Types (p q a b c : {poly R}) (ch : seq {poly R}) (x : R).

Lemma Rlinks_tail a ch : Rlinks (a :: ch) -> Rlinks ch.
Proof. by case: ch => [|b [|c rest]] //= [_]. Qed.

Lemma modp_root a b x : root b x -> (a %% b).[x] = a.[x].
Proof. by move=> /eqP bx; rewrite {2}(divp_eq a b) hornerD hornerM bx mulr0 add0r. Qed.

(* if the last member does not vanish at x, no two consecutive members vanish at x *)
Lemma chain_no_double a b rest x : Rlinks (a :: b :: rest) -> ~~ root (last b rest) x ->
  ~~ (root a x && root b x).
Proof.
elim: rest a b => [|c rest IH] a b /=; first by move=> _ /negPf ->; rewrite andbF.
move=> [[b0 c0 [k k0 cE]] lk] lst; apply/negP => /andP[ax bx].
have cx : root c x by rewrite cE rootZ ?gt_eqF // rootN rootE modp_root // -rootE.
by have := IH b c lk lst; rewrite bx cx.
Qed.

Lemma dvdp_root_tr (d p : {poly R}) x : d %| p -> root d x -> root p x.
Proof. by rewrite -!dvdp_XsubCl => dp dx; exact: dvdp_trans dx dp. Qed.

(* the last member divides every member *)
Lemma Rlinks_last_dvd ch : Rlinks ch -> all (fun p => last 0 ch %| p) ch.
Proof.
elim: ch => [|a [|b rest] IH] // lk; first by rewrite /= dvdpp.
have /= /andP[lb lrest] := IH (Rlinks_tail lk).
rewrite [all _ _]/= [last _ _]/= lb lrest !andbT.
case: rest lk lb lrest {IH} => [|c rest] /= lk lb lrest.
  by case: lk => [[_ /modp_eq0P]].
case: lk => [[_ _ [k k0 cE]] _]; case/andP: lrest => lc _.
rewrite (divp_eq a b) dvdp_add ?dvdp_mull //.
have -> : a %% b = (- k^-1) *: c by rewrite cE scalerA mulNr mulVf ?gt_eqF // scaleN1r opprK.
by rewrite dvdpZr // oppr_eq0 invr_eq0 gt_eqF.
Qed.

Definition ev x ch : seq R := [seq p.[x] | p <- ch].
Definition sr x ch : seq R := [seq sgp_right p x | p <- ch].

Lemma chain_skiprel n ch x : (size ch <= n)%N -> Rlinks ch -> ch != [::] -> all (fun p => p != 0) ch ->
  ~~ root (head 0 ch) x -> ~~ root (last 0 ch) x -> skiprel (ev x ch) (sr x ch).
Proof.
elim: n ch => [|n IH] [|a [|b rest]] // sz lk _ nzs /= ax lst.
  by apply: SR_one; rewrite -?rootE // sgp_rightNroot // sgr_id.
have nzs' : all (fun p => p != 0) (b :: rest) by case/andP: nzs.
have [bx|bx] := boolP (root b x); last first.
  apply: SR_nz; [by rewrite -rootE | by rewrite -rootE | by rewrite sgp_rightNroot // sgr_id | ].
  by apply: (IH (b :: rest)) => //; exact: Rlinks_tail lk.
case: rest sz lk nzs nzs' lst => [|c rest] sz lk nzs nzs' lst; first by rewrite /= bx in lst.
have lk' := Rlinks_tail lk.
have cx : ~~ root c x by have := chain_no_double lk' lst; rewrite bx.
have [k k0 cE] : ppos c (- (a %% b)) by case: lk => [[]].
rewrite /ev /sr /= (eqP bx).
apply: SR_zero; [by rewrite -rootE | by rewrite sgp_rightNroot // sgr_id | | | ].
- by rewrite sgp_right_eq0; case/andP: nzs'.
  rewrite cE hornerZ hornerN modp_root // mulrCA mulrN mulrN oppr_lt0 -expr2 mulr_gt0 //.
  by rewrite exprn_even_gt0 //= -rootE.
- apply: (IH (c :: rest)) => //.
  + by move: sz; rewrite /= => sz; move: (size rest) sz => m; lia.
  + exact: Rlinks_tail lk'.
  + by case/andP: nzs'.
Qed.

End ChainAt.

Section SturmFinite.
Variable R : rcfType.
Implicit Types (p q : {poly R}) (ch : seq {poly R}) (x y : R).

Definition Vskip x ch : nat := changes (filter (@nz R) (ev x ch)).

Lemma pposs_hd2 ch (F : {poly R}) : F != 0 -> pposs ch (mods F F^`()) ->
  match ch with
  | [::] => Logic.False
  | p0 :: rest => ppos p0 F /\
      match rest with [::] => Logic.True | p1 :: _ => ppos p1 F^`() end
  end.
Proof.
move=> F0; rewrite neq0_mods_rec //; case: ch => [|p0 rest] //= [h0 h1]; split=> //.
case: rest h1 => [|p1 rest] //; rewrite mods_rec; case: ifP => // _ /= [].
by [].
Qed.

(* the zero-skipping variation at x is the plain variation of the signs just right of x *)
Lemma Vskip_right ch (F : {poly R}) x : F != 0 -> pposs ch (mods F F^`()) -> Rlinks ch ->
  ~~ root (last 0 ch) x -> Vskip x ch = changes (sr x ch).
Proof.
move=> F0 st lk lst.
have nzs : all (fun p => p != 0) ch := pposs_neq0 st (mods_neq0 _ _).
have := pposs_hd2 F0 st; case: ch st lk lst nzs => [|p0 rest] // st lk lst nzs [h0 h1].
have [p0x|p0x] := boolP (root p0 x); last first.
  by rewrite /Vskip -(skiprel_changes (chain_skiprel (leqnn _) lk _ nzs _ lst)).
case: rest st lk lst nzs h1 => [|p1 rest] st lk lst nzs h1; first by rewrite /= p0x in lst.
have p1x : ~~ root p1 x by have := chain_no_double lk lst; rewrite p0x.
have nzs' : all (fun p => p != 0) (p1 :: rest) by case/andP: nzs.
have -> : Vskip x [:: p0, p1 & rest] = Vskip x (p1 :: rest).
  by rewrite /Vskip /= /nz (eqP p0x) eqxx.
rewrite /Vskip -(skiprel_changes (chain_skiprel (leqnn _) (Rlinks_tail lk) _ nzs' _ _)) //.
rewrite [in RHS]/sr [map _ _]/= changes_cons2 -/(sr x (p1 :: rest)).
suff -> : (sgp_right p0 x * sgp_right p1 x < 0) = false by [].
have [c0 c00 p0E] := h0; have [c1 c10 p1E] := h1.
have Fx : root F x by move: p0x; rewrite p0E rootZ // gt_eqF.
rewrite p0E p1E !sgp_right_scale !gtr0_sg // !mul1r (sgp_right_deriv Fx).
by apply/negbTE; rewrite -leNgt -expr2 sqr_ge0.
Qed.

Lemma neighpr_prod ch x c y : y \in neighpr (\prod_(p <- ch) p) x c ->
  all (fun p => y \in neighpr p x c) ch.
Proof.
by elim: ch => [|p ch IH] //=; rewrite big_cons neighpr_mul inE /= => /andP[-> /IH ->].
Qed.

Lemma changes_right ch x c y : y \in neighpr (\prod_(p <- ch) p) x c ->
  changes (ev y ch) = changes (sr x ch).
Proof.
move=> /neighpr_prod yin; rewrite -changes_sgr -[RHS]changes_sgr /ev /sr -!map_comp; congr changes.
apply/eq_in_map => p pin /=.
by have yp := allP yin _ pin; rewrite -(sgr_neighpr yp) sgr_id.
Qed.


Lemma pposs_ev ch ms y : pposs ch ms -> [seq sgr z | z <- ev y ch] = [seq sgr z | z <- ev y ms].
Proof.
elim: ch ms => [|p ch IH] [|m ms] //= [[c c0 ->] /IH ->].
by rewrite hornerZ sgrM gtr0_sg // mul1r.
Qed.

Lemma taq1_size (z : seq R) : taq z 1 = (size z)%:Z.
Proof.
rewrite /taq; elim: z => [|x z IH]; first by rewrite big_nil.
by rewrite big_cons IH hornerC sgz1 /= intS.
Qed.

(* plain variations at two points where no member vanishes count the roots strictly between them *)
Lemma chain_points ch (F : {poly R}) ya yb : F != 0 -> pposs ch (mods F F^`()) -> ya < yb ->
  all (fun p => ~~ root p ya) ch -> all (fun p => ~~ root p yb) ch ->
  changes (ev ya ch) = (changes (ev yb ch) + size (roots F ya yb))%N.
Proof.
move=> F0 st yayb nra nrb.
have tr y : all (fun p => ~~ root p y) ch -> all (fun p => ~~ root p y) (mods F F^`()).
  have : pposs ch (mods F F^`()) := st.
  elim: (ch) (mods F F^`()) => [|p ch' IH] [|m ms] //= [[k k0 ->] /IH {}IH].
  by rewrite rootZ ?gt_eqF // => /andP[-> /IH].
have := changes_itv_mods_cindex yayb (tr _ nra) (tr _ nrb).
rewrite /changes_itv_mods /changes_itv_poly /changes_horner -/(ev ya _) -/(ev yb _).
rewrite -(changes_sgr (ev ya _)) -(changes_sgr (ev yb _)) -!(pposs_ev _ st) !changes_sgr.
have := taq_cindex ya yb F 1; rewrite mulr1 taq1_size => <-.
move: (changes (ev ya ch)) (changes (ev yb ch)) (size _) => m n k h.
by apply/eqP; rewrite -eqz_nat PoszD -h addrC subrK.
Qed.

Lemma prod_nonroot ch y : ~~ root (\prod_(p <- ch) p) y -> all (fun p => ~~ root p y) ch.
Proof. by elim: ch => [|p ch IH] //=; rewrite big_cons rootM negb_or => /andP[-> /IH]. Qed.

Lemma prod_root_head ch y : ch != [::] -> root (head 0 ch) y -> root (\prod_(p <- ch) p) y.
Proof. by case: ch => [|p ch] //= _ py; rewrite big_cons rootM py. Qed.

Lemma changes_minfty_ev ch y0 : all (fun p => p != 0) ch ->
  (forall y, y <= y0 -> ~~ root (\prod_(p <- ch) p) y) -> changes_minfty ch = changes (ev y0 ch).
Proof.
move=> nzs nr; rewrite /changes_minfty -changes_sgr -[RHS]changes_sgr /ev -!map_comp; congr changes.
apply/eq_in_map => p pin /=.
have p0 : p != 0 := allP nzs _ pin.
have nrp : {in `]-oo, y0], forall y, ~~ root p y}.
  by move=> y; rewrite in_itv /= => /nr /prod_nonroot /allP /(_ _ pin).
rewrite (sgp_minftyP nrp) ?in_itv /= ?lexx // /sgp_minfty; congr (sgr (_ * _)).
by rewrite -[in RHS]signr_odd [in LHS](polySpred p0) /= negbK.
Qed.

Lemma changes_pinfty_ev ch y0 : all (fun p => p != 0) ch ->
  (forall y, y0 <= y -> ~~ root (\prod_(p <- ch) p) y) -> changes_pinfty ch = changes (ev y0 ch).
Proof.
move=> nzs nr; rewrite /changes_pinfty -changes_sgr -[RHS]changes_sgr /ev -!map_comp; congr changes.
apply/eq_in_map => p pin /=.
have nrp : {in `[y0, +oo[, forall y, ~~ root p y}.
  by move=> y; rewrite in_itv /= andbT => /nr /prod_nonroot /allP /(_ _ pin).
by rewrite (sgp_pinftyP nrp) ?in_itv /= ?lexx.
Qed.

(* Sturm's theorem on (a, b] for a chain positively proportional to mods F F', zeros skipped, provided the last
   member (= gcd(F, F') up to a constant) does not vanish at a and b *)
Theorem sturm_chain_itv ch (F : {poly R}) a b : F != 0 -> pposs ch (mods F F^`()) -> Rlinks ch ->
  a < b -> ~~ root (last 0 ch) a -> ~~ root (last 0 ch) b ->
  Vskip a ch = (Vskip b ch + size [seq x <- rootsR F | (a < x <= b)%R])%N.
Proof.
move=> F0 st lk ab lsta lstb.
have nzs : all (fun p => p != 0) ch := pposs_neq0 st (mods_neq0 _ _).
pose P := \prod_(p <- ch) p.
have P0 : P != 0 by rewrite /P prodf_seq_neq0.
have [ya yain] := neighpr_wit ab P0.
have bb1 : b < b + 1 by rewrite ltr_addl ltr01.
have [yb ybin] := neighpr_wit bb1 P0.
rewrite (Vskip_right F0 st lk lsta) (Vskip_right F0 st lk lstb).
rewrite -(changes_right yain) -(changes_right ybin).
have aya : a < ya by move: yain; rewrite inE => /andP[].
have yab : ya < b.
  move: yain; rewrite inE => /andP[_ h]; apply: lt_le_trans h _.
  by have := next_root_in P a b; rewrite in_itv /= (max_l (ltW ab)) => /andP[].
have byb : b < yb by move: ybin; rewrite inE => /andP[].
have yayb : ya < yb := lt_trans yab byb.
(* no member vanishes at ya, yb *)
have nr y x c : y \in neighpr P x c -> all (fun p => ~~ root p y) (mods F F^`()).
  move=> yin; have := neighpr_root yin; rewrite /P.
  have : pposs ch (mods F F^`()) := st.
  elim: (ch) (mods F F^`()) => [|p ch' IH] [|m ms] //= [[k k0 ->] /IH {}IH].
  by rewrite big_cons rootM negb_or rootZ ?gt_eqF // => /andP[-> /IH].
have := changes_itv_mods_cindex yayb (nr _ _ _ yain) (nr _ _ _ ybin).
rewrite /changes_itv_mods /changes_itv_poly /changes_horner -/(ev ya _) -/(ev yb _).
rewrite -(changes_sgr (ev ya _)) -(changes_sgr (ev yb _)) -!(pposs_ev _ st) !changes_sgr.
have := taq_cindex ya yb F 1; rewrite mulr1 taq1_size => <-.
move=> hh.
have E : roots F ya yb = [seq x <- rootsR F | a < x <= b]; last first.
  rewrite -E; move: hh; move: (changes (ev ya ch)) (changes (ev yb ch)) (size _) => m n k h.
  by apply/eqP; rewrite -eqz_nat PoszD -h addrC subrK.
have noa z : a < z <= ya -> ~~ root F z.
  move=> /andP[az zya]; have zin : z \in neighpr P a b.
    by move: yain; rewrite /neighpr !in_itv /= az /= => /andP[_]; exact: le_lt_trans.
  by have := allP (nr _ _ _ zin) F; rewrite neq0_mods_rec // inE eqxx; exact.
have nob z : b < z <= yb -> ~~ root F z.
  move=> /andP[bz zyb]; have zin : z \in neighpr P b (b + 1).
    by move: ybin; rewrite /neighpr !in_itv /= bz /= => /andP[_]; exact: le_lt_trans.
  by have := allP (nr _ _ _ zin) F; rewrite neq0_mods_rec // inE eqxx; exact.
apply: lt_sorted_eq; first exact: sorted_roots.
  by apply: sorted_filter (sorted_roots _ _ F); exact: lt_trans.
move=> z; rewrite mem_filter in_rootsR // in_roots F0 andbT in_itv /= andbC.
case rz: (root F z); rewrite ?andbF //= !andbT.
apply/andP/andP => [[yaz zyb]|[az zb]]; split.
- exact: lt_trans aya yaz.
- by rewrite leNgt; apply/negP => bz; have := nob z; rewrite bz (ltW zyb) rz => /(_ isT).
- by rewrite ltNge; apply/negP => zya; have := noa z; rewrite az zya rz => /(_ isT).
- exact: le_lt_trans zb byb.
Qed.


Lemma right_point ch (F : {poly R}) x c : F != 0 -> pposs ch (mods F F^`()) -> Rlinks ch ->
  ~~ root (last 0 ch) x -> x < c ->
  exists y, [/\ x < y < c, Vskip x ch = changes (ev y ch), all (fun p => ~~ root p y) ch
              & forall z, x < z <= y -> ~~ root F z].
Proof.
move=> F0 st lk lst xc.
have nzs : all (fun p => p != 0) ch := pposs_neq0 st (mods_neq0 _ _).
pose P := \prod_(p <- ch) p.
have P0 : P != 0 by rewrite /P prodf_seq_neq0.
have [y yin] := neighpr_wit xc P0; exists y.
have xy : x < y by move: yin; rewrite /neighpr in_itv /= => /andP[].
have yc : y < c.
  move: yin; rewrite /neighpr in_itv /= => /andP[_ h]; apply: lt_le_trans h _.
  by have := next_root_in P x c; rewrite in_itv /= (max_l (ltW xc)) => /andP[].
have hd : ppos (head 0 ch) F by have := pposs_hd2 F0 st; case: (ch) => [|p0 rest] // [].
have ne : ch != [::] by have := pposs_hd2 F0 st; case: (ch).
split; first by rewrite xy.
- by rewrite (Vskip_right F0 st lk lst) -(changes_right yin).
- exact/prod_nonroot/(neighpr_root yin).
- move=> z /andP[xz zy]; have zin : z \in neighpr P x c.
    by move: yin; rewrite /neighpr !in_itv /= xz /= => /andP[_]; exact: le_lt_trans.
  have := neighpr_root zin; apply: contra => Fz; apply: prod_root_head => //.
  by have [k k0 ->] := hd; rewrite rootZ // gt_eqF.
Qed.

Lemma cauchy_root_gt (P : {poly R}) z : P != 0 -> root P z -> - cauchy_bound P < z < cauchy_bound P.
Proof.
move=> P0 Pz; apply/andP; split.
  by rewrite ltNge; apply/negP => h; have := le_cauchy_bound P0 (_ : z \in `]-oo, - cauchy_bound P]); rewrite ?in_itv //= Pz => /(_ h).
by rewrite ltNge; apply/negP => h; have := ge_cauchy_bound P0 (_ : z \in `[cauchy_bound P, +oo[); rewrite ?in_itv /= ?andbT // Pz => /(_ h).
Qed.

(* half lines *)
Theorem sturm_chain_minf ch (F : {poly R}) b : F != 0 -> pposs ch (mods F F^`()) -> Rlinks ch ->
  ~~ root (last 0 ch) b ->
  changes_minfty ch = (Vskip b ch + size [seq x <- rootsR F | (x <= b)%R])%N.
Proof.
move=> F0 st lk lst.
have nzs : all (fun p => p != 0) ch := pposs_neq0 st (mods_neq0 _ _).
pose P := \prod_(p <- ch) p.
have P0 : P != 0 by rewrite /P prodf_seq_neq0.
have hd : ppos (head 0 ch) F by have := pposs_hd2 F0 st; case: (ch) => [|p0 rest] // [].
have ne : ch != [::] by have := pposs_hd2 F0 st; case: (ch).
have FP z : root F z -> root P z.
  by move=> Fz; apply: prod_root_head => //; have [k k0 ->] := hd; rewrite rootZ // gt_eqF.
have bb1 : b < b + 1 by rewrite ltr_addl ltr01.
have [yb [/andP[byb _] -> nrb nob]] := right_point F0 st lk lst bb1.
pose y0 := minr (- cauchy_bound P) b - 1.
have y0cb : y0 <= - cauchy_bound P by rewrite /y0 ler_subl_addr le_minl ler_addl ler01.
have y0b : y0 < b by rewrite /y0 ltr_subl_addr lt_minl [b < b + 1]bb1 orbT.
have nr0 y : y <= y0 -> ~~ root P y.
  move=> yy0; apply/negP => /(cauchy_root_gt P0) /andP[h _].
  by have := le_lt_trans (le_trans yy0 y0cb) h; rewrite ltxx.
rewrite (changes_minfty_ev nzs nr0).
rewrite (chain_points F0 st (lt_trans y0b byb) (prod_nonroot (nr0 _ (lexx _))) nrb).
congr (_ + size _)%N; apply: lt_sorted_eq; first exact: sorted_roots.
  by apply: sorted_filter (sorted_roots _ _ F); exact: lt_trans.
move=> z; rewrite mem_filter in_rootsR // in_roots F0 andbT in_itv /= andbC.
case rz: (root F z); rewrite ?andbF //= !andbT.
have y0z : y0 < z.
  by have /andP[h _] := cauchy_root_gt P0 (FP _ rz); exact: le_lt_trans y0cb h.
rewrite y0z /=; apply/idP/idP => [zyb|zb]; last exact: le_lt_trans zb byb.
by rewrite leNgt; apply/negP => bz; have := nob z; rewrite bz (ltW zyb) rz => /(_ isT).
Qed.

Theorem sturm_chain_pinf ch (F : {poly R}) a : F != 0 -> pposs ch (mods F F^`()) -> Rlinks ch ->
  ~~ root (last 0 ch) a ->
  Vskip a ch = (changes_pinfty ch + size [seq x <- rootsR F | (a < x)%R])%N.
Proof.
move=> F0 st lk lst.
have nzs : all (fun p => p != 0) ch := pposs_neq0 st (mods_neq0 _ _).
pose P := \prod_(p <- ch) p.
have P0 : P != 0 by rewrite /P prodf_seq_neq0.
have hd : ppos (head 0 ch) F by have := pposs_hd2 F0 st; case: (ch) => [|p0 rest] // [].
have ne : ch != [::] by have := pposs_hd2 F0 st; case: (ch).
have FP z : root F z -> root P z.
  by move=> Fz; apply: prod_root_head => //; have [k k0 ->] := hd; rewrite rootZ // gt_eqF.
pose y1 := maxr (cauchy_bound P) a + 2%:R.
have ay1' : a + 1 < y1.
  by rewrite /y1 -[2%:R]/(1 + 1) addrA ltr_add2r ltr_spaddr ?ltr01 // le_maxr lexx orbT.
have aa1 : a < a + 1 by rewrite ltr_addl ltr01.
have [ya [/andP[aya ya1] -> nra noa]] := right_point F0 st lk lst aa1.
have cby1 : cauchy_bound P <= y1.
  by rewrite /y1 ler_paddr ?ler0n // le_maxr lexx.
have nr1 y : y1 <= y -> ~~ root P y.
  move=> y1y; apply/negP => /(cauchy_root_gt P0) /andP[_ h].
  by have := lt_le_trans h (le_trans cby1 y1y); rewrite ltxx.
rewrite (changes_pinfty_ev nzs nr1).
have yay1 : ya < y1 := lt_trans ya1 ay1'.
rewrite (chain_points F0 st yay1 nra (prod_nonroot (nr1 _ (lexx _)))).
congr (_ + size _)%N; apply: lt_sorted_eq; first exact: sorted_roots.
  by apply: sorted_filter (sorted_roots _ _ F); exact: lt_trans.
move=> z; rewrite mem_filter in_rootsR // in_roots F0 andbT in_itv /= andbC.
case rz: (root F z); rewrite ?andbF //= !andbT.
have zy1 : z < y1.
  by have /andP[_ h] := cauchy_root_gt P0 (FP _ rz); exact: lt_le_trans h cby1.
rewrite zy1 andbT; apply/idP/idP => [yaz|az]; first exact: lt_trans aya yaz.
by rewrite ltNge; apply/negP => zya; have := noa z; rewrite az zya rz => /(_ isT).
Qed.

End SturmFinite.

(* ====================================================================== the reference count of UPoly.v *)
Section RefCount.
Variable R : rcfType.
Local Notation PR := (PR R).
Local Notation QR := (QR R).
Local Notation ZtoR := (ZtoR R).

Lemma chain_ok_Rlinks f ch : chain_ok f ch -> Rlinks (R:=R) (map PR ch).
Proof.
case: ch => [|a [|b rest]] //.
by rewrite chain_ok_cons2 => /andP[_ /(links_okP R)].
Qed.

Definition nzZ (z : Z) : bool := z != 0.

Lemma sign_var_aux_filter prev l : sign_var_aux prev l = sign_var_aux prev (filter nzZ l).
Proof.
elim: l prev => [|s l IH] prev //=; rewrite /nzZ ZeqbP.
case: (s =P 0) => [->|/eqP s0] /=; first exact: IH.
by rewrite [Z.eqb s Z0]ZeqbP (negPf s0); case: ifP => _; rewrite IH.
Qed.

(* the model's zero-skipping variation at a rational point is Vskip of the chain over R *)
Lemma sturm_var_fin (ch : seq (seq Z)) (a b : Z) : (0 < b)%R ->
  sturm_var ch (Fin a b) = Vskip (QR a b) (map PR ch).
Proof.
move=> b0; rewrite /sturm_var /sign_var sign_var_aux_filter -/(sign_var _) (@sign_varP R); last first.
  rewrite all_filter; apply/allP => z /mapP[p _ ->] /=; apply/implyP; rewrite /nzZ /psgn_at /psgn_at_rat.
  by case: (peval_hom_aux p a b).1.
rewrite /Vskip -changes_sgr -[RHS]changes_sgr; congr changes.
rewrite /ev -!map_comp !filter_map -!map_comp; set P1 := preim _ _; set P2 := preim _ _.
have -> : filter P2 ch = filter P1 ch.
  apply: eq_filter => p; rewrite /P1 /P2 /= /nz /nzZ /=.
  by rewrite -(ZtoR_eq0 R) -sgr_horner_rat // sgr_eq0.
by apply: eq_map => p /=; rewrite -sgr_horner_rat // sgr_id.
Qed.


(* Sturm's theorem for the reference count on (a, b], zeros skipped.  Only hypothesis on the chain: its LAST
   member (gcd(f, f') up to a constant) does not vanish at a and b; inner members may vanish. *)
Theorem count_roots_oc_fin (f : seq Z) (an ad bn bd : Z) : ~~ pis_zero f ->
  (0 < ad)%R -> (0 < bd)%R -> QR an ad < QR bn bd ->
  psgn_at_rat (last [::] (sturm_chain f)) an ad != 0 ->
  psgn_at_rat (last [::] (sturm_chain f)) bn bd != 0 ->
  count_roots_oc f (Fin an ad) (Fin bn bd)
  = size [seq x <- rootsR (PR f) | QR an ad < x <= QR bn bd].
Proof.
move=> f0 ad0 bd0 ab la lb.
have F0 : PR f != 0 by rewrite PR_eq0.
have ok := sturm_chain_certified f0.
have st := chain_okP R ok; have lk := chain_ok_Rlinks ok.
rewrite /count_roots_oc !sturm_var_fin //.
have lastE : last 0 (map PR (sturm_chain f)) = PR (last [::] (sturm_chain f)).
  by rewrite -(PR_nil R) last_map.
have nra : ~~ root (last 0 (map PR (sturm_chain f))) (QR an ad) by rewrite lastE root_rat.
have nrb : ~~ root (last 0 (map PR (sturm_chain f))) (QR bn bd) by rewrite lastE root_rat.
by rewrite (sturm_chain_itv F0 st lk ab nra nrb) minusE addKn.
Qed.


Theorem count_roots_oc_minf (f : seq Z) (bn bd : Z) : ~~ pis_zero f -> (0 < bd)%R ->
  psgn_at_rat (last [::] (sturm_chain f)) bn bd != 0 ->
  count_roots_oc f MInf (Fin bn bd) = size [seq x <- rootsR (PR f) | x <= QR bn bd].
Proof.
move=> f0 bd0 lb.
have F0 : PR f != 0 by rewrite PR_eq0.
have ok := sturm_chain_certified f0.
have st := chain_okP R ok; have lk := chain_ok_Rlinks ok.
have nz : all (fun p => PR p != 0) (sturm_chain f).
  by have := pposs_neq0 st (mods_neq0 _ _); rewrite all_map.
rewrite /count_roots_oc sturm_var_fin // (sturm_var_minf nz).
have lastE : last 0 (map PR (sturm_chain f)) = PR (last [::] (sturm_chain f)).
  by rewrite -(PR_nil R) last_map.
have nrb : ~~ root (last 0 (map PR (sturm_chain f))) (QR bn bd) by rewrite lastE root_rat.
by rewrite (sturm_chain_minf F0 st lk nrb) minusE addKn.
Qed.

Theorem count_roots_oc_pinf (f : seq Z) (an ad : Z) : ~~ pis_zero f -> (0 < ad)%R ->
  psgn_at_rat (last [::] (sturm_chain f)) an ad != 0 ->
  count_roots_oc f (Fin an ad) PInf = size [seq x <- rootsR (PR f) | QR an ad < x].
Proof.
move=> f0 ad0 la.
have F0 : PR f != 0 by rewrite PR_eq0.
have ok := sturm_chain_certified f0.
have st := chain_okP R ok; have lk := chain_ok_Rlinks ok.
have nz : all (fun p => PR p != 0) (sturm_chain f).
  by have := pposs_neq0 st (mods_neq0 _ _); rewrite all_map.
rewrite /count_roots_oc sturm_var_fin // (sturm_var_pinf nz).
have lastE : last 0 (map PR (sturm_chain f)) = PR (last [::] (sturm_chain f)).
  by rewrite -(PR_nil R) last_map.
have nra : ~~ root (last 0 (map PR (sturm_chain f))) (QR an ad) by rewrite lastE root_rat.
by rewrite (sturm_chain_pinf F0 st lk nra) minusE addKn.
Qed.

Lemma chain_last_root f x : ~~ pis_zero f -> root (PR (last [::] (sturm_chain f))) x ->
  root (PR f) x /\ root (PR f)^`() x.
Proof.
move=> f0 lx; have ok := sturm_chain_certified f0.
have st := chain_okP R ok; have lk := chain_ok_Rlinks ok.
have F0 : PR f != 0 by rewrite PR_eq0.
have dv := Rlinks_last_dvd lk.
have := pposs_hd2 F0 st.
move: lx ok dv {st lk}; rewrite -[PR (last _ _)](last_map PR) PR_nil.
case: (sturm_chain f) => [|p0 [|p1 rest]] //= lx ok dv.
  move=> [[c c0 E] _]; have Fx : root (PR f) x by move: lx; rewrite E rootZ // gt_eqF.
  split=> //; move: ok => /andP[_]; rewrite -(PR_eq0 R) PR_pderiv => /eqP ->.
  exact: root0.
case/and3P: dv => d0 d1 _ [[c0 c00 E0] [c1 c10 E1]].
split.
  by have := dvdp_root_tr d0 lx; rewrite E0 rootZ // gt_eqF.
by have := dvdp_root_tr d1 lx; rewrite E1 rootZ // gt_eqF.
Qed.

(* corollary 1: f(a) <> 0 and f(b) <> 0 suffice (f arbitrary non-zero, multiple roots allowed inside) *)
Theorem count_roots_oc_fin_nonroot (f : seq Z) (an ad bn bd : Z) : ~~ pis_zero f ->
  (0 < ad)%R -> (0 < bd)%R -> QR an ad < QR bn bd ->
  psgn_at_rat f an ad != 0 -> psgn_at_rat f bn bd != 0 ->
  count_roots_oc f (Fin an ad) (Fin bn bd)
  = size [seq x <- rootsR (PR f) | QR an ad < x <= QR bn bd].
Proof.
move=> f0 ad0 bd0 ab fa fb; apply: count_roots_oc_fin => //.
  by apply: contra fa; rewrite -!(root_rat R) // => /(chain_last_root f0) [].
by apply: contra fb; rewrite -!(root_rat R) // => /(chain_last_root f0) [].
Qed.

(* corollary 2: f without multiple real roots (e.g. square-free): no hypothesis at the end points at all,
   b may be a root (counted), a may be a root (not counted) *)
Theorem count_roots_oc_fin_simple (f : seq Z) (an ad bn bd : Z) : ~~ pis_zero f ->
  (forall x : R, root (PR f) x -> ~~ root (PR f)^`() x) ->
  (0 < ad)%R -> (0 < bd)%R -> QR an ad < QR bn bd ->
  count_roots_oc f (Fin an ad) (Fin bn bd)
  = size [seq x <- rootsR (PR f) | QR an ad < x <= QR bn bd].
Proof.
move=> f0 simple ad0 bd0 ab; apply: count_roots_oc_fin => //.
  by rewrite -(root_rat R) //; apply/negP => /(chain_last_root f0) [/simple /negP].
by rewrite -(root_rat R) //; apply/negP => /(chain_last_root f0) [/simple /negP].
Qed.


(* ---- libpoly's own sign-change counter and interval count on its own Sturm sequence (faithful model) *)
Definition sgn3 (z : Z) : bool := [|| z == 0, z == 1 | z == -1].

Lemma lp_sign_changes_auxP (signs : seq Z) (prev : Z) (cnt maxc : nat) :
  all sgn3 signs -> sgn3 prev -> (cnt + size signs <= maxc)%N ->
  lp_sign_changes_aux signs prev cnt maxc = (cnt + sign_var_aux prev signs)%N.
Proof.
elim: signs prev cnt => [|s signs IH] prev cnt /=; first by rewrite addn0.
move=> /andP[s3 ss] p3 le.
have -> : Nat.ltb cnt maxc by apply/Nat.ltb_lt; move: (size signs) le => k le; lia.
have le' : (cnt + size signs <= maxc)%N by move: (size signs) le => k le; lia.
have le'' : (cnt.+1 + size signs <= maxc)%N by move: (size signs) le => k le; lia.
rewrite !ZeqbP.
case/or3P: p3 => /eqP ->; case/or3P: (s3) => /eqP -> /=; rewrite ?IH ?addnS ?addSn //.
Qed.

Lemma psgn_at_sgn3 p x : sgn3 (psgn_at p x).
Proof.
rewrite /sgn3; case: x => [|a b|] /=; rewrite /psgn_minf /psgn_pinf /psgn_at_rat.
- by case: Nat.odd; case: (Zsgn_cases (plc p)) => ->.
- by case: (Zsgn_cases (peval_hom_aux p a b).1) => ->.
- by case: (Zsgn_cases (plc p)) => ->.
Qed.

Lemma lp_sign_changesE (S : seq (seq Z)) x : lp_sign_changes S x (size S) = sturm_var S x.
Proof.
rewrite /lp_sign_changes /sturm_var /sign_var lp_sign_changes_auxP ?add0n ?size_map //.
by rewrite all_map; apply/allP => p _ /=; exact: psgn_at_sgn3.
Qed.

(* the interval count of sturm_seqence_count_roots (repaired model) on libpoly's own Sturm sequence of a
   non-constant f is the number of distinct real roots of f in J, for all four open/closed combinations,
   whenever the last member of the sequence does not vanish at the two ends (always true for square-free f) *)
Theorem lp_count_roots_sturm (f : seq Z) (J : ri_itv) : (1 < size (PR f))%N ->
  (0 < qlo_d J)%R -> (0 < qhi_d J)%R -> QR (qlo_n J) (qlo_d J) < QR (qhi_n J) (qhi_d J) ->
  psgn_at_rat (last [::] (lp_sturm_sequence f)) (qlo_n J) (qlo_d J) != 0 ->
  psgn_at_rat (last [::] (lp_sturm_sequence f)) (qhi_n J) (qhi_d J) != 0 ->
  lp_count_roots_gen true (lp_sturm_sequence f) (Some J)
  = Z.of_nat (count (@in_qitv R J) (rootsR (PR f))).
Proof.
move=> sf l0 h0 lh la lb.
have [G0 rE st lk] := lp_sturm_sequence_chain sf.
have hdE : List.hd [::] (lp_sturm_sequence f) = ppp f by [].
rewrite -rE -hdE; apply: lp_count_roots_repaired_at => //.
rewrite !lp_sign_changesE !sturm_var_fin // hdE.
have lastE : last 0 (map PR (lp_sturm_sequence f)) = PR (last [::] (lp_sturm_sequence f)).
  by rewrite -(PR_nil R) last_map.
have nra : ~~ root (last 0 (map PR (lp_sturm_sequence f))) (QR (qlo_n J) (qlo_d J)) by rewrite lastE root_rat.
have nrb : ~~ root (last 0 (map PR (lp_sturm_sequence f))) (QR (qhi_n J) (qhi_d J)) by rewrite lastE root_rat.
rewrite (sturm_chain_itv G0 st lk lh nra nrb) -size_filter.
by move: (Vskip _ _) (size _) => m n; lia.
Qed.


Lemma lp_last_root f x : (1 < size (PR f))%N -> root (PR (last [::] (lp_sturm_sequence f))) x -> root (PR f) x.
Proof.
move=> sf lx; have [G0 rE st lk] := lp_sturm_sequence_chain sf.
have F0 : PR f != 0 by rewrite -size_poly_gt0 (ltn_trans _ sf).
have dv := Rlinks_last_dvd lk.
have lastE : last 0 (map PR (lp_sturm_sequence f)) = PR (last [::] (lp_sturm_sequence f)).
  by rewrite -(PR_nil R) last_map.
have d0 : PR (last [::] (lp_sturm_sequence f)) %| PR (ppp f).
  by move: dv; rewrite lastE /lp_sturm_sequence [all _ _]/= => /andP[].
have : root (PR (ppp f)) x := dvdp_root_tr d0 lx.
by rewrite -in_rootsR // rE in_rootsR.
Qed.

(* sufficient: f does not vanish at the two ends *)
Theorem lp_count_roots_sturm_nonroot (f : seq Z) (J : ri_itv) : (1 < size (PR f))%N ->
  (0 < qlo_d J)%R -> (0 < qhi_d J)%R -> QR (qlo_n J) (qlo_d J) < QR (qhi_n J) (qhi_d J) ->
  psgn_at_rat f (qlo_n J) (qlo_d J) != 0 -> psgn_at_rat f (qhi_n J) (qhi_d J) != 0 ->
  lp_count_roots_gen true (lp_sturm_sequence f) (Some J)
  = Z.of_nat (count (@in_qitv R J) (rootsR (PR f))).
Proof.
move=> sf l0 h0 lh fa fb; apply: lp_count_roots_sturm => //.
  by apply: contra fa; rewrite -!(root_rat R) //; exact: lp_last_root.
by apply: contra fb; rewrite -!(root_rat R) //; exact: lp_last_root.
Qed.

End RefCount.
