(* C05: what acceptance by the checkers of FactorCheck.v implies, against MathComp
   {poly Z} (Poly l), {poly rat} (PQ l) and {poly 'F_p} (PF p l). *)
From Coq Require Import ZArith List.
From LP Require Import UPoly FactorCheck.
Set Warnings "-notation-overridden,-ambiguous-paths".
From mathcomp Require Import all_ssreflect all_algebra separable.
From mathcomp Require Import ssrZ zify.
Set Warnings "notation-overridden,ambiguous-paths".
From LP Require Import UPolySpec.
Import GRing.Theory.
Set Implicit Arguments.
Unset Strict Implicit.
Unset Printing Implicit Defensive.
Local Open Scope ring_scope.

(* ------------------------------------------------------------------ denotations *)
(* the canonical ring morphism Z -> R *)
Definition ZtoR (R : ringType) : {rmorphism Z -> R} := [rmorphism of intr \o int_of_Z].

Definition uprodP (fs : seq (seq Z * nat)) : {poly Z} := \prod_(fm <- fs) Poly fm.1 ^+ fm.2.

Lemma Poly1 : Poly [:: Zpos xH] = 1 :> {poly Z}.
Proof. by rewrite /= cons_poly_def mul0r add0r. Qed.

Lemma PolyC (c : Z) : Poly [:: c] = c%:P.
Proof. by rewrite /= cons_poly_def mul0r add0r. Qed.

Lemma Poly_uprod fs : Poly (uprod fs) = uprodP fs.
Proof.
rewrite /uprodP; elim: fs => [|[f m] fs IH] /=; first by rewrite big_nil cons_poly_def mul0r add0r.
by rewrite big_cons -IH Poly_pmul Poly_ppow.
Qed.

(* (a) multiply back over Z[x]: the checker decides  c * prod f_i^m_i = input  in Z[x] *)
Theorem mulback_Z_spec (c : Z) fs input :
  mulback_Z c fs input = true <-> c *: uprodP fs = Poly input.
Proof.
rewrite /mulback_Z -Poly_uprod -Poly_pscale.
by split => [/peqbP|H]; last apply/peqbP.
Qed.

(* ------------------------------------------------------------------ (b) over Q *)
Definition PQ (l : seq Z) : {poly rat} := map_poly (ZtoR rat_Ring) (Poly l).

Lemma ZtoR_rat_inj : injective (ZtoR rat_Ring).
Proof.
move=> x y /= /intr_inj H; apply: (can_inj int_of_ZK); exact: H.
Qed.

Lemma size_PQ l : size (PQ l) = size (Poly l).
Proof. by rewrite /PQ size_map_inj_poly ?rmorph0 //; exact: ZtoR_rat_inj. Qed.

Lemma PQ_eq0 l : (PQ l == 0) = (Poly l == 0).
Proof. by rewrite -!size_poly_eq0 size_PQ. Qed.

(* certificate of coprimality: u*f + v*g = c <> 0 *)
Theorem coprime_cert_Z_sound f g u v (c : Z) :
  coprime_cert_Z f g u v c = true -> coprimep (PQ f) (PQ g).
Proof.
rewrite /coprime_cert_Z => /andP[cn0 /peqbP].
rewrite Poly_padd !Poly_pmul PolyC => E.
apply/Bezout_coprimepP; exists (PQ u, PQ v) => /=.
rewrite /PQ -!rmorphM -rmorphD E /= map_polyC polyC_eqp1.
rewrite ZeqbP in cn0.
by rewrite (raddf_eq0 _ ZtoR_rat_inj).
Qed.

Lemma PQ_mul a b : PQ (pmul a b) = PQ a * PQ b.
Proof. by rewrite /PQ Poly_pmul rmorphM. Qed.

(* certificate of a common factor of positive degree *)
Theorem common_factor_cert_Z_sound f g d qf qg :
  common_factor_cert_Z f g d qf qg = true -> ~~ coprimep (PQ f) (PQ g).
Proof.
rewrite /common_factor_cert_Z => /andP[/andP[/Nat.ltb_lt dd /peqbP Ef] /peqbP Eg].
apply/negP => /coprimepP /(_ (PQ d)).
have -> : PQ d %| PQ f by rewrite /PQ -Ef Poly_pmul rmorphM dvdp_mulr.
have -> : PQ d %| PQ g by rewrite /PQ -Eg Poly_pmul rmorphM dvdp_mulr.
move=> /(_ isT isT) /eqp_size; rewrite size_PQ size_poly1 => sz.
by move: dd; rewrite pdeg_size sz => /Nat.lt_irrefl.
Qed.

Lemma PQ_deriv f : PQ (pderiv f) = (PQ f)^`().
Proof. by rewrite /PQ Poly_pderiv deriv_map. Qed.

(* the three-valued deciders: both answers are certified *)
Theorem coprime_decide_Z_true f g : coprime_decide_Z f g = Some true -> coprimep (PQ f) (PQ g).
Proof.
rewrite /coprime_decide_Z; case: (bezout_Z f g) => [[r u] v].
case: (pnorm r) => [|c [|c' l]].
- by case: (pdiv_exact f _) => [qf|] //; case: (pdiv_exact g _) => [qg|] //; case: ifP.
- by case: ifP => // /coprime_cert_Z_sound.
- by case: (pdiv_exact f _) => [qf|] //; case: (pdiv_exact g _) => [qg|] //; case: ifP.
Qed.

Theorem coprime_decide_Z_false f g : coprime_decide_Z f g = Some false -> ~~ coprimep (PQ f) (PQ g).
Proof.
rewrite /coprime_decide_Z; case: (bezout_Z f g) => [[r u] v].
case: (pnorm r) => [|c [|c' l]].
- case: (pdiv_exact f _) => [qf|] //; case: (pdiv_exact g _) => [qg|] //.
  by case: ifP => // /common_factor_cert_Z_sound.
- by case: ifP.
- case: (pdiv_exact f _) => [qf|] //; case: (pdiv_exact g _) => [qg|] //.
  by case: ifP => // /common_factor_cert_Z_sound.
Qed.

(* square-freeness = MathComp's separable_poly over the rationals *)
Theorem sqfree_decide_Z_true f : sqfree_decide_Z f = Some true -> separable_poly (PQ f).
Proof. by move=> /coprime_decide_Z_true; rewrite PQ_deriv. Qed.

Theorem sqfree_decide_Z_false f : sqfree_decide_Z f = Some false -> ~~ separable_poly (PQ f).
Proof. by move=> /coprime_decide_Z_false; rewrite PQ_deriv. Qed.

(* ------------------------------------------------------------------ (a) multivariate: mp_eqb decides equality of term lists *)
From LP Require Import MPoly.

Lemma mono_cmp_eq (a b : mono) : mono_cmp a b = Eq -> a = b.
Proof.
elim: a b => [|[x e] a IH] [|[y f] b] //=.
case E1: (N.compare x y) => //; case E2: (N.compare e f) => // /IH ->.
by move/N.compare_eq: E1 => ->; move/N.compare_eq: E2 => ->.
Qed.

Lemma mp_eqb_eq (p q : mpoly) : mp_eqb p q = true -> p = q.
Proof.
elim: p q => [|[m c] p IH] [|[m' c'] q] //=.
case E: (mono_cmp m m') => //; move/mono_cmp_eq: E => ->.
by move=> /andP[/Z.eqb_eq -> /IH ->].
Qed.

Theorem mulback_M_sound fs input : mulback_M fs input = true -> mprod fs = input.
Proof. exact: mp_eqb_eq. Qed.
