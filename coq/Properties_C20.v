(* Property C20 - polynomial containers keep exactly what was put in them.
   ONLY theorem statements, each closed by `exact` of a lemma from ContainersProofs.v /
   ContainersHeapProofs.v, with Print Assumptions beneath.  Model: Containers.v (the REPAIRED code,
   fixes/C20-*.patch); the pinned code is refuted in History_C20.v.

   Every theorem quantifies over the element type, its equality test `eqb`, the hash function `h`
   (so over ALL collision patterns) and - for the heap - the comparison callback `cmp`.  The only
   premises are that `eqb` decides equality and that `cmp >= 0` is a total preorder; they are written
   out in each statement (no Section hypotheses are left implicit). *)
From Coq Require Import ZArith NArith List Bool Arith Permutation.
From LP Require Import Containers ContainersProofs ContainersHeapProofs.
Import ListNotations.

(* ------------------------------------------------------------------------------------------- *)
(* 1. Hash set.  hs_inv = representation invariant (table size 2^k >= 4; every stored element is
      reachable from its home slot without crossing an empty slot; no duplicates; size = number of
      occupied slots; size <= threshold = floor(0.7 * table size) < table size).
      abs s = the stored elements. *)

Theorem C20_hset_new_invariant : forall elem h,
  hs_inv elem h (hs_new elem) /\ abs elem (hs_new elem) = [].
Proof. exact hs_new_facts. Qed.
Print Assumptions C20_hset_new_invariant.

Theorem C20_hset_contains : forall elem eqb h, decides_eq eqb -> forall s e, hs_inv elem h s ->
  exists b, hs_contains elem eqb h s e = Some b /\ (b = true <-> In e (abs elem s)).
Proof. exact hs_contains_ok. Qed.
Print Assumptions C20_hset_contains.

Theorem C20_hset_insert : forall elem eqb h, decides_eq eqb -> forall s e, hs_inv elem h s ->
  exists s' b, hs_insert elem eqb h s e = Some (s', b) /\ hs_inv elem h s' /\
    (b = true <-> ~ In e (abs elem s)) /\
    Permutation (abs elem s') (if b then e :: abs elem s else abs elem s).
Proof. exact hs_insert_ok. Qed.
Print Assumptions C20_hset_insert.

Theorem C20_hset_insert_vector : forall elem eqb h, decides_eq eqb -> forall l s c, hs_inv elem h s ->
  exists s' k, hs_insert_list elem eqb h s l c = Some (s', k) /\ hs_inv elem h s' /\
    (forall x, In x (abs elem s') <-> In x l \/ In x (abs elem s)) /\
    k + length (abs elem s) = c + length (abs elem s').
Proof. exact hs_insert_list_ok. Qed.
Print Assumptions C20_hset_insert_vector.

Theorem C20_hset_remove : forall elem eqb h, decides_eq eqb -> forall s e, hs_inv elem h s ->
  exists s' b, hs_remove elem eqb h s e = Some (s', b) /\ hs_inv elem h s' /\
    (b = true <-> In e (abs elem s)) /\
    (if b then Permutation (e :: abs elem s') (abs elem s) else s' = s).
Proof. exact hs_remove_ok. Qed.
Print Assumptions C20_hset_remove.

Theorem C20_hset_intersect : forall elem eqb h, decides_eq eqb -> forall s o,
  hs_inv elem h s -> hs_inv elem h o ->
  exists s', hs_intersect elem eqb h s o = Some s' /\ hs_inv elem h s' /\
    (forall x, In x (abs elem s') <-> In x (abs elem s) /\ In x (abs elem o)).
Proof. exact hs_intersect_ok. Qed.
Print Assumptions C20_hset_intersect.

(* after close, at(0), at(1), ... enumerates exactly the stored elements (each once: the list is
   duplicate free and has `size` entries), and at(k) = NULL from k = size on *)
Theorem C20_hset_close_at : forall elem (eqb : elem -> elem -> bool) h, decides_eq eqb -> forall s k, hs_inv elem h s ->
  hs_at elem (hs_close elem s) k = Some (nth_error (abs elem s) k).
Proof. exact hs_close_at. Qed.
Print Assumptions C20_hset_close_at.

Theorem C20_hset_size : forall elem h s, hs_ok elem h s ->
  NoDup (abs elem s) /\ hsize elem s = length (abs elem s).
Proof. exact hs_ok_facts. Qed.
Print Assumptions C20_hset_size.

(* one operation: the invariant (of an open or a closed set) is preserved and the result and the
   new contents are those of the mathematical finite set (hs_spec_step) *)
Theorem C20_hset_step_refines : forall elem eqb h, decides_eq eqb -> forall zero s o s' r,
  hs_ok elem h s -> hs_step elem eqb h zero s o = Some (s', r) ->
  hs_ok elem h s' /\
  hs_spec_step elem zero (abs elem s) (closed elem s) o r (abs elem s') (closed elem s').
Proof. exact hs_step_refines. Qed.
Print Assumptions C20_hset_step_refines.

(* ALL operation sequences from the empty set *)
Theorem C20_hset_refines : forall elem eqb h, decides_eq eqb -> forall zero ops s' rs,
  hs_run elem eqb h zero (hs_new elem) ops = Some (s', rs) ->
  hs_ok elem h s' /\ hsize elem s' = length (abs elem s') /\ NoDup (abs elem s') /\
  hs_spec_run elem zero [] false ops rs (abs elem s') (closed elem s').
Proof. exact hs_run_from_new. Qed.
Print Assumptions C20_hset_refines.

(* the model never runs out of fuel and never reads out of bounds: it stops only on an operation
   that the C code forbids by assert in that state (insert/remove/contains/intersect on a closed set,
   at on an open set) *)
Theorem C20_hset_progress : forall elem eqb h, decides_eq eqb -> forall zero ops s,
  hs_ok elem h s -> hs_run elem eqb h zero s ops = None ->
  exists pre o post s1 rs, ops = pre ++ o :: post /\ hs_run elem eqb h zero s pre = Some (s1, rs) /\
                           hs_illegal elem (closed elem s1) o = true.
Proof. exact hs_run_progress. Qed.
Print Assumptions C20_hset_progress.

(* ------------------------------------------------------------------------------------------- *)
(* 2. Heap.  heap_ok = every parent is not below its children. *)

Theorem C20_heap_empty_ok : forall elem cmp, heap_ok elem cmp [].
Proof. exact heap_ok_empty. Qed.
Print Assumptions C20_heap_empty_ok.

Theorem C20_heap_push : forall elem cmp, total_preorder cmp -> forall a p, heap_ok elem cmp a ->
  exists a', heap_push elem cmp a p = Some a' /\ heap_ok elem cmp a' /\ Permutation a' (p :: a).
Proof. exact heap_push_ok_tp. Qed.
Print Assumptions C20_heap_push.

Theorem C20_heap_peek_max : forall elem cmp, total_preorder cmp -> forall a m, heap_ok elem cmp a ->
  heap_peek elem a = Some m -> is_max elem cmp m a.
Proof. exact heap_peek_max_tp. Qed.
Print Assumptions C20_heap_peek_max.

(* pop returns a maximal element and removes exactly one copy of it *)
Theorem C20_heap_pop : forall elem cmp, total_preorder cmp -> forall a, heap_ok elem cmp a -> a <> [] ->
  exists m a', heap_pop elem cmp a = Some (Some m, a') /\ heap_ok elem cmp a' /\
               Permutation (m :: a') a /\ is_max elem cmp m a.
Proof. exact heap_pop_ok_tp. Qed.
Print Assumptions C20_heap_pop.

Theorem C20_heap_pop_empty : forall elem cmp, heap_pop elem cmp [] = Some (None, []).
Proof. exact heap_pop_nil. Qed.
Print Assumptions C20_heap_pop_empty.

(* remove deletes ALL copies of p, returns their number, and restores the heap order *)
Theorem C20_heap_remove : forall elem cmp eqb, total_preorder cmp -> decides_eq eqb ->
  forall a p, heap_ok elem cmp a ->
  exists a', heap_remove elem eqb cmp a p = Some (a', length (filter (eqb p) a)) /\
             heap_ok elem cmp a' /\ Permutation a' (filter (fun x => negb (eqb p x)) a).
Proof. exact heap_remove_ok_tp. Qed.
Print Assumptions C20_heap_remove.

(* ALL operation sequences: the model never fails and every step is a step of the multiset
   specification (push adds one copy, pop removes a maximal element, remove removes all copies and
   returns their number, peek/size do not change the contents) *)
Theorem C20_heap_refines : forall elem cmp eqb zero, total_preorder cmp -> decides_eq eqb ->
  forall ops a, heap_ok elem cmp a ->
  exists a' rs, heap_run elem eqb zero cmp a ops = Some (a', rs) /\ heap_ok elem cmp a' /\
                heap_spec_run elem cmp eqb zero a ops rs a'.
Proof. exact heap_run_refines_tp. Qed.
Print Assumptions C20_heap_refines.

Theorem C20_heap_refines_from_empty : forall elem cmp eqb zero, total_preorder cmp -> decides_eq eqb ->
  forall ops, exists a' rs, heap_run elem eqb zero cmp [] ops = Some (a', rs) /\ heap_ok elem cmp a' /\
                heap_spec_run elem cmp eqb zero [] ops rs a'.
Proof. exact heap_run_from_empty_tp. Qed.
Print Assumptions C20_heap_refines_from_empty.

(* the executable acceptance test that the model driver runs on the implementation's outputs
   (when ties of cmp leave the popped element undetermined) accepts only steps of the specification *)
Theorem C20_heap_checker_sound : forall elem cmp eqb zero, decides_eq eqb -> forall M o r M',
  heap_check_step elem eqb zero cmp M o r = Some M' -> heap_spec_step elem cmp eqb zero M o r M'.
Proof. exact heap_check_step_sound_tp. Qed.
Print Assumptions C20_heap_checker_sound.

(* the specification only looks at the multiset of stored elements *)
Theorem C20_heap_spec_multiset : forall elem cmp eqb zero M1 M2 M' o r, Permutation M1 M2 ->
  heap_spec_step elem cmp eqb zero M1 o r M' -> heap_spec_step elem cmp eqb zero M2 o r M'.
Proof. exact heap_spec_step_perm. Qed.
Print Assumptions C20_heap_spec_multiset.

(* ------------------------------------------------------------------------------------------- *)
(* 3. Vector: at i = the i-th pushed element (by copy or by move), size = number of pushes *)

Theorem C20_vector_at : forall elem zero (ops : list (vec_op elem)) i,
  (forall o, In o ops -> o <> VReset elem) ->
  vec_at elem (fold_left (vec_step elem zero) ops []) i =
  nth_error (map (fun o => match o with VPush _ p => p | VPushMove _ p => p | VReset _ => zero end) ops) i.
Proof. exact vec_run_at. Qed.
Print Assumptions C20_vector_at.

Theorem C20_vector_size : forall elem zero (ops : list (vec_op elem)),
  (forall o, In o ops -> o <> VReset elem) ->
  vec_size elem (fold_left (vec_step elem zero) ops []) = length ops.
Proof. exact vec_run_size. Qed.
Print Assumptions C20_vector_size.

(* ------------------------------------------------------------------------------------------- *)
(* 4. Move-insertion: the set changes as for insert; the source is zero exactly when it was inserted
      (and untouched when it was already present) *)

Theorem C20_move_leaves_zero : forall elem eqb h zero s e s' b src,
  hs_insert_move elem eqb h zero s e = Some (s', b, src) ->
  hs_insert elem eqb h s e = Some (s', b) /\ (b = true -> src = zero) /\ (b = false -> src = e).
Proof. exact hs_insert_move_ok. Qed.
Print Assumptions C20_move_leaves_zero.

Theorem C20_heap_move_leaves_zero : forall elem zero cmp a p a' src,
  heap_push_move elem zero cmp a p = Some (a', src) -> heap_push elem cmp a p = Some a' /\ src = zero.
Proof. exact heap_push_move_zero. Qed.
Print Assumptions C20_heap_move_leaves_zero.

(* ------------------------------------------------------------------------------------------- *)
(* Non-vacuity *)

(* elements are numbers; 1 and 3 have home slot 5, 2 has home slot 6 *)
Definition ex_h (x : N) : N := match x with 1 => 5 | 2 => 6 | 3 => 5 + 64 | 4 => 63 | 5 => 63 + 64 | _ => 0 end%N.

(* a reachable state with a collision chain 5,6,7 (3 displaced two slots behind its home) and a chain
   wrapping around the end of the table (5 has home 63 and sits in slot 0): it satisfies the invariant *)
Example C20_ex_state_with_collisions :
  exists s rs,
    hs_run N N.eqb ex_h 0%N (hs_new N)
           [OInsert N 1; OInsert N 2; OInsert N 3; OInsert N 4; OInsert N 5]%N = Some (s, rs) /\
    hs_inv N ex_h s /\
    get N (slots N s) 5 = Some 1%N /\ get N (slots N s) 6 = Some 2%N /\ get N (slots N s) 7 = Some 3%N /\
    get N (slots N s) 63 = Some 4%N /\ get N (slots N s) 0 = Some 5%N.
Proof.
  eexists. eexists. split; [vm_compute; reflexivity|]. split.
  - match goal with |- hs_inv _ _ ?s =>
      destruct (hs_run_from_new N N.eqb ex_h N.eqb_eq 0%N
                  [OInsert N 1; OInsert N 2; OInsert N 3; OInsert N 4; OInsert N 5]%N s
                  [RBool N true; RBool N true; RBool N true; RBool N true; RBool N true])
        as ([Hinv|(Hc & _)] & _); [vm_compute; reflexivity|exact Hinv|vm_compute in Hc; discriminate]
    end.
  - repeat split; vm_compute; reflexivity.
Qed.

(* removing 1 from the middle of that state keeps 3 reachable (repaired back-shift), and the
   general theorem applies to it *)
Example C20_ex_remove_from_chain :
  exists s rs, hs_run N N.eqb ex_h 0%N (hs_new N)
     [OInsert N 1; OInsert N 2; OInsert N 3; ORemove N 1; OContains N 3; OContains N 2; OContains N 1; OSize N]%N
     = Some (s, rs) /\
     rs = [RBool N true; RBool N true; RBool N true; RBool N true; RBool N true; RBool N true; RBool N false; RNat N 2].
Proof. eexists. eexists. split; vm_compute; reflexivity. Qed.

(* the premises of the heap theorems are satisfiable: numbers ordered by value; a concrete heap *)
Example C20_ex_total_preorder : total_preorder zcmp.
Proof. split; [exact zcmp_total | exact zcmp_trans]. Qed.

Example C20_ex_heap : heap_ok Z zcmp [100;10;90;5;4;80;70;1;2;3;3;60;50;40;30]%Z.
Proof. exact ex_heap_ok. Qed.

Example C20_ex_decides_eq : decides_eq N.eqb /\ decides_eq Z.eqb.
Proof. split; [exact N.eqb_eq | exact Z.eqb_eq]. Qed.
