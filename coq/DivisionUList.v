(* Property C02 - list-level lemmas about the dense scratch-buffer primitives of Division.v Part I
   (stdlib only).  Congruence modulo the ring: eqm M x y := exists t, x = y + M*t, with M = 0 for lp_Z
   (then it is equality), M > 0 for Z_M.  DivisionUProofs.v lifts them to MathComp's {poly Z}. *)
From Coq Require Import ZArith NArith List Bool Lia Znumtheory.
From LP Require Import Scalar ScalarProofs UPoly Division.
Import ListNotations.
Local Open Scope Z_scope.

Definition modK (K : ring) : Z := match K with None => 0 | Some M => M end.
Definition Kok (K : ring) : Prop := match K with None => True | Some M => 0 < M end.
Definition eqm (M x y : Z) : Prop := exists t, x = y + M * t.

Lemma eqm_refl M x : eqm M x x.
Proof. exists 0. lia. Qed.
Lemma eqm_sym M x y : eqm M x y -> eqm M y x.
Proof. intros [t H]. exists (- t). lia. Qed.
Lemma eqm_trans M x y z : eqm M x y -> eqm M y z -> eqm M x z.
Proof. intros [t H] [u H']. exists (t + u). lia. Qed.
Lemma eqm_add M x y x' y' : eqm M x x' -> eqm M y y' -> eqm M (x + y) (x' + y').
Proof. intros [t H] [u H']. exists (t + u). lia. Qed.
Lemma eqm_sub M x y x' y' : eqm M x x' -> eqm M y y' -> eqm M (x - y) (x' - y').
Proof. intros [t H] [u H']. exists (t - u). lia. Qed.
Lemma eqm_mul M x y x' y' : eqm M x x' -> eqm M y y' -> eqm M (x * y) (x' * y').
Proof. intros [t H] [u H']. exists (x' * u + t * y' + M * t * u). subst. ring. Qed.
Lemma eqm_0 x y : eqm 0 x y <-> x = y.
Proof. split; [intros [t H]; lia|intros ->; apply eqm_refl]. Qed.
Lemma eqm_of_eq M x y : x = y -> eqm M x y.
Proof. intros ->. apply eqm_refl. Qed.

Lemma eqm_mod M x y : 0 < M -> (eqm M x y <-> x mod M = y mod M).
Proof.
  intros HM. split.
  - intros [t H]. subst x. rewrite Z.mul_comm. apply Z_mod_plus_full.
  - intros H. exists ((x - y) / M).
    assert (E : (x - y) mod M = 0) by (rewrite Zminus_mod, H, Z.sub_diag; apply Zmod_0_l).
    pose proof (Z.div_mod (x - y) M ltac:(lia)). lia.
Qed.

Lemma ring_norm_eqm K c : Kok K -> eqm (modK K) (ring_norm K c) c.
Proof.
  destruct K as [M|]; cbn [Kok modK]; intros HM.
  - apply eqm_mod; [assumption|]. apply ring_norm_cong. assumption.
  - cbn. apply eqm_refl.
Qed.

Lemma ring_norm_zero K c : Kok K -> (ring_norm K c = 0 <-> eqm (modK K) c 0).
Proof.
  intros HK. split.
  - intros H. apply eqm_sym. rewrite <- H. apply ring_norm_eqm. assumption.
  - destruct K as [M|]; cbn [Kok modK] in *.
    + intros H. apply ring_norm_char; [assumption| |].
      * unfold ring_lb, ring_ub. split.
        -- assert (0 <= Z.quot (M - 1) 2) by (apply Z.quot_pos; lia). lia.
        -- apply Z.quot_pos; lia.
      * symmetry. apply eqm_mod; assumption.
    + intros H. apply eqm_0 in H. subst. reflexivity.
Qed.

Lemma int_sgn_zero K c : (int_sgn K c =? 0) = true <-> ring_norm K c = 0.
Proof. unfold int_sgn. rewrite Z.eqb_eq. split; [apply Z.sgn_null_iff|intros ->; reflexivity]. Qed.

(* ------------------------------------------------------------------ list primitives *)

Lemma length_list_set l : forall j v, length (list_set l j v) = length l.
Proof. induction l as [|a l IH]; intros [|j] v; cbn; auto. Qed.

Lemma nth_list_set l : forall j v i, (j < length l)%nat ->
  nth i (list_set l j v) 0 = if (i =? j)%nat then v else nth i l 0.
Proof.
  induction l as [|a l IH]; intros [|j] v [|i] H; cbn in *; try lia; auto.
  apply IH. lia.
Qed.

Lemma length_sub_mul_at K rem : forall q m, length (sub_mul_at K rem q m) = length rem.
Proof. induction rem as [|r rem IH]; intros [|c q] m; cbn; auto. Qed.

Lemma length_sub_mul_shift K : forall j rem q m, length (sub_mul_shift K rem q m j) = length rem.
Proof.
  induction j as [|j IH]; intros rem q m; simpl sub_mul_shift.
  - apply length_sub_mul_at.
  - destruct rem; cbn; auto.
Qed.

Lemma nth_sub_mul_at K (HK : Kok K) rem : forall q m i, (length q <= length rem)%nat ->
  eqm (modK K) (nth i (sub_mul_at K rem q m) 0) (nth i rem 0 - m * nth i q 0).
Proof.
  induction rem as [|r rem IH]; intros [|c q] m i H; cbn [sub_mul_at length] in *.
  - destruct i; cbn; apply eqm_of_eq; lia.
  - lia.
  - apply eqm_of_eq. destruct i; cbn; lia.
  - destruct i as [|i]; cbn [nth].
    + destruct (c =? 0) eqn:E.
      * apply Z.eqb_eq in E. subst. apply eqm_of_eq. lia.
      * unfold int_sub_mul. eapply eqm_trans; [apply ring_norm_eqm; assumption|]. apply eqm_of_eq. ring.
    + apply IH. lia.
Qed.

Lemma nth_sub_mul_shift K (HK : Kok K) : forall j rem q m i, (length q + j <= length rem)%nat ->
  eqm (modK K) (nth i (sub_mul_shift K rem q m j) 0) (nth i rem 0 - m * nth i (pshift j q) 0).
Proof.
  induction j as [|j IH]; intros rem q m i H; simpl sub_mul_shift.
  - unfold pshift. cbn [repeat app]. apply nth_sub_mul_at; [assumption|lia].
  - destruct rem as [|r rem]; [cbn in H; lia|].
    unfold pshift. cbn [repeat app]. destruct i as [|i]; cbn [nth].
    + apply eqm_of_eq. lia.
    + apply IH. cbn in H. lia.
Qed.

Lemma length_mult_c_aux K c : forall n l, length (mult_c_aux K c l n) = length l.
Proof. induction n as [|n IH]; intros [|a l]; cbn; auto. Qed.

Lemma nth_mult_c_aux K (HK : Kok K) c : forall n l i,
  (forall i', (n <= i')%nat -> eqm (modK K) (nth i' l 0) 0) ->
  eqm (modK K) (nth i (mult_c_aux K c l n) 0) (c * nth i l 0).
Proof.
  induction n as [|n IH]; intros l i H.
  - cbn [mult_c_aux]. destruct l; (eapply eqm_trans; [apply H; lia|]); apply eqm_sym;
      (eapply eqm_trans; [apply eqm_mul; [apply eqm_refl|apply H; lia]|]); apply eqm_of_eq; lia.
  - destruct l as [|a l]; cbn [mult_c_aux].
    + destruct i; cbn; apply eqm_of_eq; lia.
    + destruct i as [|i]; cbn [nth].
      * destruct (a =? 0) eqn:E.
        -- apply Z.eqb_eq in E. subst. apply eqm_of_eq. lia.
        -- unfold int_mul. rewrite (Z.mul_comm c a). apply ring_norm_eqm. assumption.
      * apply IH. intros i' Hi'. apply (H (S i')). lia.
Qed.

Lemma dense_norm_deg_le K l : forall d, (dense_norm_deg K l d <= d)%nat.
Proof. induction d as [|d IH]; cbn; [lia|]. destruct (int_sgn K (nth (S d) l 0) =? 0); lia. Qed.

Lemma dense_norm_deg_zero K l : forall d i, (dense_norm_deg K l d < i <= d)%nat -> ring_norm K (nth i l 0) = 0.
Proof.
  induction d as [|d IH]; intros i H; cbn [dense_norm_deg] in H; [lia|].
  destruct (int_sgn K (nth (S d) l 0) =? 0) eqn:E; [|lia].
  destruct (Nat.eq_dec i (S d)) as [->|Hne].
  - apply int_sgn_zero. assumption.
  - apply IH. lia.
Qed.

(* ------------------------------------------------------------------ buffers *)

(* capacity cap, used size within it, and nothing (modulo the ring) above the used size *)
Definition buf_ok (K : ring) (cap : nat) (b : dense) : Prop :=
  length (dcoef b) = cap /\ (dsize b <= cap)%nat /\
  forall i, (dsize b <= i)%nat -> eqm (modK K) (nth i (dcoef b) 0) 0.

Lemma nth_overflow0 (l : list Z) i : (length l <= i)%nat -> nth i l 0 = 0.
Proof. apply nth_overflow. Qed.

Lemma dense_normalize_ok K (HK : Kok K) cap b : (0 < cap)%nat -> buf_ok K cap b -> buf_ok K cap (dense_normalize K b).
Proof.
  intros Hcap (Hl & Hs & Hz). unfold dense_normalize, buf_ok. cbn [dcoef dsize].
  pose proof (dense_norm_deg_le K (dcoef b) (dsize b - 1)) as Hle.
  split; [assumption|]. split; [lia|].
  intros i Hi. destruct (Nat.le_gt_cases (dsize b) i) as [H|H]; [apply Hz; assumption|].
  apply ring_norm_zero; [assumption|]. apply (dense_norm_deg_zero K (dcoef b) (dsize b - 1)). lia.
Qed.

Lemma dense_mult_c_ok K (HK : Kok K) cap b c : buf_ok K cap b -> buf_ok K cap (dense_mult_c K b c).
Proof.
  intros (Hl & Hs & Hz). unfold dense_mult_c, buf_ok. cbn [dcoef dsize].
  rewrite length_mult_c_aux. split; [assumption|]. split; [assumption|].
  intros i Hi. eapply eqm_trans; [apply nth_mult_c_aux; assumption|].
  eapply eqm_trans; [apply eqm_mul; [apply eqm_refl|apply Hz; assumption]|]. apply eqm_of_eq. lia.
Qed.

Lemma dense_mult_c_nth K (HK : Kok K) cap b c i : buf_ok K cap b ->
  eqm (modK K) (nth i (dcoef (dense_mult_c K b c)) 0) (c * nth i (dcoef b) 0).
Proof. intros (Hl & Hs & Hz). apply nth_mult_c_aux; assumption. Qed.

Lemma nth_pshift j (q : list Z) i : nth i (pshift j q) 0 = if (i <? j)%nat then 0 else nth (i - j) q 0.
Proof.
  unfold pshift. destruct (i <? j)%nat eqn:E.
  - apply Nat.ltb_lt in E. rewrite app_nth1 by (rewrite repeat_length; lia).
    apply nth_repeat.
  - apply Nat.ltb_ge in E. rewrite app_nth2 by (rewrite repeat_length; lia). rewrite repeat_length. reflexivity.
Qed.

Lemma dense_sub_mult_ok K (HK : Kok K) cap b q m j :
  (0 < cap)%nat -> (length q + j <= cap)%nat -> buf_ok K cap b -> buf_ok K cap (dense_sub_mult K b q m j).
Proof.
  intros Hcap Hq (Hl & Hs & Hz). unfold dense_sub_mult. apply dense_normalize_ok; [assumption|assumption|].
  unfold buf_ok. cbn [dcoef dsize]. rewrite length_sub_mul_shift.
  split; [assumption|]. split; [lia|].
  intros i Hi. eapply eqm_trans; [apply nth_sub_mul_shift; [assumption|lia]|].
  rewrite nth_pshift. destruct (i <? j)%nat eqn:E; [apply Nat.ltb_lt in E; lia|].
  rewrite (nth_overflow0 q) by lia.
  eapply eqm_trans; [apply eqm_sub; [apply Hz; lia|apply eqm_refl]|]. apply eqm_of_eq. lia.
Qed.

Lemma dense_sub_mult_nth K (HK : Kok K) cap b q m j i :
  (length q + j <= cap)%nat -> buf_ok K cap b ->
  eqm (modK K) (nth i (dcoef (dense_sub_mult K b q m j)) 0) (nth i (dcoef b) 0 - m * nth i (pshift j q) 0).
Proof.
  intros Hq (Hl & Hs & Hz). unfold dense_sub_mult, dense_normalize. cbn [dcoef].
  apply nth_sub_mul_shift; [assumption|lia].
Qed.

(* ------------------------------------------------------------------ reading a buffer out *)

Lemma pnorm_length_le (l : list Z) n : (forall i, (n <= i)%nat -> nth i l 0 = 0) -> (length (pnorm l) <= n)%nat.
Proof.
  revert n. induction l as [|c l IH]; intros n H; [cbn; lia|].
  cbn [pnorm]. destruct n as [|n].
  - assert (Hl : (length (pnorm l) <= 0)%nat) by (apply IH; intros i _; apply (H (S i)); lia).
    destruct (pnorm l); [|cbn in Hl; lia].
    pose proof (H O ltac:(lia)) as H0. cbn in H0. subst c. cbn. lia.
  - assert (Hl : (length (pnorm l) <= n)%nat) by (apply IH; intros i Hi; apply (H (S i)); lia).
    destruct (pnorm l) eqn:E; [destruct (c =? 0); cbn; lia|]. cbn [length] in *. lia.
Qed.

Lemma nth_map_norm K (l : list Z) i : nth i (map (ring_norm K) l) 0 = ring_norm K (nth i l 0).
Proof.
  revert i. induction l as [|a l IH]; intros [|i]; cbn [map nth]; auto; destruct K; reflexivity.
Qed.

Lemma nth_firstn (l : list Z) s i : nth i (firstn s l) 0 = if (i <? s)%nat then nth i l 0 else 0.
Proof.
  revert s i. induction l as [|a l IH]; intros [|s] [|i]; cbn [firstn nth]; auto.
  - destruct (_ <? _)%nat; reflexivity.
  - rewrite IH. reflexivity.
Qed.

(* the polynomial read out of a buffer has the buffer's coefficients, modulo the ring *)
Lemma dense_out_nth K (HK : Kok K) cap b i : buf_ok K cap b ->
  eqm (modK K) (nth i (map (ring_norm K) (firstn (dsize b) (dcoef b))) 0) (nth i (dcoef b) 0).
Proof.
  intros (Hl & Hs & Hz). rewrite nth_map_norm, nth_firstn.
  destruct (i <? dsize b)%nat eqn:E.
  - apply ring_norm_eqm. assumption.
  - apply Nat.ltb_ge in E. eapply eqm_trans; [apply ring_norm_eqm; assumption|]. apply eqm_sym. apply Hz. assumption.
Qed.

Lemma dense_out_length K (HK : Kok K) cap b n : buf_ok K cap b ->
  (forall i, (n <= i)%nat -> eqm (modK K) (nth i (dcoef b) 0) 0) ->
  (length (dense_out K b) <= n)%nat.
Proof.
  intros Hb H. unfold dense_out. apply pnorm_length_le. intros i Hi.
  rewrite nth_map_norm, nth_firstn. destruct (i <? dsize b)%nat.
  - apply ring_norm_zero; [assumption|]. apply H. assumption.
  - destruct K; reflexivity.
Qed.

(* ------------------------------------------------------------------ the quotient coefficient *)

Lemma udiv_coeff_spec K (HK : Kok K) a lc m : udiv_coeff K a lc = Some m -> eqm (modK K) (m * lc) a.
Proof.
  unfold udiv_coeff. destruct K as [M|]; cbn [Kok modK] in *.
  - destruct (int_inv (Some M) lc) as [i|] eqn:Ei; [|discriminate].
    intros H. inversion H; subst m. clear H.
    apply int_inv_spec in Ei; [|assumption]. destruct Ei as [_ Ei].
    apply (eqm_mod M) in Ei; [|assumption].
    unfold int_mul. eapply eqm_trans; [apply eqm_mul; [apply (ring_norm_eqm (Some M)); assumption|apply eqm_refl]|].
    cbn [modK]. eapply eqm_trans with (y := a * (lc * i)); [apply eqm_of_eq; ring|].
    eapply eqm_trans; [apply eqm_mul; [apply eqm_refl|exact Ei]|]. apply eqm_of_eq. ring.
  - destruct (int_divides None false lc a) eqn:Ed; [|discriminate].
    destruct (lc =? 0) eqn:E0; [discriminate|]. apply Z.eqb_neq in E0.
    intros H. inversion H; subst m. clear H.
    apply int_divides_Z_spec in Ed. destruct Ed as [k Hk]. subst a.
    apply eqm_of_eq. rewrite Z.div_mul by assumption. reflexivity.
Qed.

Lemma int_mul_eqm K (HK : Kok K) a b : eqm (modK K) (int_mul K a b) (a * b).
Proof. unfold int_mul. apply ring_norm_eqm. assumption. Qed.

Lemma int_pow_eqm K (HK : Kok K) a n : eqm (modK K) (int_pow K a n) (a ^ Z.of_N n).
Proof.
  destruct K as [M|]; cbn [Kok modK] in *.
  - apply eqm_mod; [assumption|]. apply (int_pow_spec M HK a n).
  - apply eqm_refl.
Qed.

Lemma udeg_length p : length (udense_of p) = S (udeg p).
Proof. unfold udeg. destruct p; cbn; lia. Qed.

Lemma div_cancel b M t : M <> 0 -> (b + M * t - b) / M = t.
Proof. intros H. replace (b + M * t - b) with (t * M) by ring. apply Z.div_mul. assumption. Qed.
