(* L6/L1 model for property C14: src/polynomial/feasibility_set_int.c, the finite-field part of
   src/upolynomial/root_finding.c (brute force), lp_upolynomial_construct / _evaluate_at_integer,
   lp_polynomial_constraint_get_feasible_set_Zp / _evaluate_Zp (polynomial.c) with
   coefficient_to_univariate_m / coefficient_evaluate_integer, and coefficient_reduce_Zp on univariate
   polynomials (coefficient.c).   Executable Gallina, stdlib only, no proofs in this file.

   Conventions
   - lp_int_ring_t* K (K != lp_Z)   -> its modulus M : Z  (ring operations: Scalar.v with K = Some M)
   - lp_feasibility_set_int_t       -> record { fs_M; fs_inv; fs_el }  (elements: list Z)
   - size_t sizes                   -> Z (no wrap-around); ULONG_MAX = 2^64 - 1 (LP64)
   - set_status_internal_t          -> (bool * bool) = (S1 bit, S2 bit); BOTH = (true, true)
   - the status flags of the ordered-list helpers are only ever CLEARED in the C loops, so the value at
     the end is the conjunction over the steps; the model computes exactly this conjunction, one
     conjunct per C loop iteration, with the same case split (cmp < 0 / > 0 / == 0, tails)
   - assert(...) on the element arrays' shape are preconditions (wf in FeasSetIntProofs.v); the two
     asserts that abort on VALID inputs in the pinned code (M < 10000 in _invert, M > 2 in _is_point)
     are modelled as repaired (History_C14.v keeps the pinned versions and their refutations). *)
From Coq Require Import ZArith List Bool Zpow_facts.
From LP Require Import Scalar.
Import ListNotations.
Local Open Scope Z_scope.

Definition zlen (l : list Z) : Z := Z.of_nat (length l).
Definition ulong_max : Z := Z.pow 2 64 - 1.

(* ------------------------------------------------------------------ representation, constructors *)

Record fset := mkFS { fs_M : Z; fs_inv : bool; fs_el : list Z }.

(* qsort(elements, int_cmp): lp_integer_cmp(lp_Z) is a total order on Z, so every correct sort returns
   the same array; modelled by insertion sort *)
Fixpoint sort_insert (x : Z) (l : list Z) : list Z :=
  match l with
  | [] => [x]
  | y :: t => if x <=? y then x :: l else y :: sort_insert x t
  end.
Definition sort_Z (l : list Z) : list Z := fold_right sort_insert [] l.

(* unique_lp_integer: `last` = *result, the last element kept *)
Fixpoint uniq_loop (last : Z) (l : list Z) : list Z :=
  match l with
  | [] => []
  | x :: t => if last =? x then uniq_loop last t else x :: uniq_loop x t
  end.
Definition unique_sorted (l : list Z) : list Z :=
  match l with [] => [] | x :: t => x :: uniq_loop x t end.

Definition fs_new_empty (M : Z) : fset := mkFS M false [].
Definition fs_new_full (M : Z) : fset := mkFS M true [].

(* lp_feasibility_set_int_new_from_integer: copy with normalisation in K, qsort, unique *)
Definition fs_from_integers (M : Z) (elems : list Z) (inv : bool) : fset :=
  mkFS M inv (unique_sorted (sort_Z (map (ring_norm (Some M)) elems))).

(* ------------------------------------------------------------------ observers *)

Definition fs_is_empty (s : fset) : bool :=
  if negb (fs_inv s) && (zlen (fs_el s) =? 0) then true
  else if fs_inv s && (fs_M s =? zlen (fs_el s)) then true
  else false.

Definition fs_is_full (s : fset) : bool :=
  if fs_inv s && (zlen (fs_el s) =? 0) then true
  else if negb (fs_inv s) && (fs_M s =? zlen (fs_el s)) then true
  else false.

Definition fs_size (s : fset) : Z :=
  let out := zlen (fs_el s) in
  if fs_inv s then fs_M s - out else out.

Definition fs_size_approx (s : fset) : Z :=
  if negb (fs_inv s) then zlen (fs_el s)
  else if (0 <=? fs_M s) && (fs_M s <=? ulong_max) then fs_M s - zlen (fs_el s)
  else ulong_max.

(* as repaired: the pinned code asserts M > 2 first (aborts for the field Z_2) *)
Definition fs_is_point (s : fset) : bool :=
  if negb (fs_inv s) && (zlen (fs_el s) =? 1) then true
  else if fs_inv s && (fs_M s =? zlen (fs_el s) + 1) then true
  else false.

(* lp_feasibility_set_int_find: binary search on [l, r] *)
Fixpoint bsearch (fuel : nat) (a : list Z) (l r v : Z) : bool :=
  match fuel with
  | O => false
  | S f =>
    if l <=? r then
      let p := (r + l) / 2 in
      let e := nth (Z.to_nat p) a 0 in
      if v <? e then bsearch f a l (p - 1) v          (* cmp > 0: continue left  *)
      else if e <? v then bsearch f a (p + 1) r v     (* cmp < 0: continue right *)
      else true
    else false
  end.
Definition fs_find (el : list Z) (v : Z) : bool :=
  if zlen el =? 0 then false else bsearch (S (length el)) el 0 (zlen el - 1) v.

Definition fs_contains (s : fset) (v : Z) : bool :=
  let vn := ring_norm (Some (fs_M s)) v in
  negb (Bool.eqb (fs_find (fs_el s) vn) (fs_inv s)).        (* found != inverted *)

(* pick_value.  Listed sets: elements[random() % size] - any element may come back, the model offers the
   checker `fs_pick_ok`.  Complemented sets: the deterministic scan 0, 1, -1, 2, -2, ...; None = the
   assert(lp_integer_in_ring) fails or the fuel runs out. *)
Fixpoint pick_loop (fuel : nat) (M : Z) (el : list Z) (value : Z) : option Z :=
  match fuel with
  | O => None
  | S f =>
    let v1 := value + 1 in
    if negb (in_ring (Some M) v1) then None
    else if negb (fs_find el v1) then Some v1
    else let v2 := - v1 in
         if negb (fs_find el v2) then Some v2
         else pick_loop f M el v1
  end.
Definition fs_pick_inverted (fuel : nat) (s : fset) : option Z :=
  if negb (fs_find (fs_el s) 0) then Some 0 else pick_loop fuel (fs_M s) (fs_el s) 0.
Definition fs_pick_ok (s : fset) (v : Z) : bool :=
  in_ring (Some (fs_M s)) v && fs_contains s v.

(* ------------------------------------------------------------------ ordered-list helpers *)

(* ordered_integer_set_union -> (result, (just_i1, just_i2)) *)
Fixpoint oset_union (l1 : list Z) : list Z -> list Z * (bool * bool) :=
  fix aux (l2 : list Z) : list Z * (bool * bool) :=
  match l1, l2 with
  | [], [] => ([], (true, true))
  | [], _ :: _ => (l2, (false, true))                        (* tail of i2: just_i1 = false *)
  | _ :: _, [] => (l1, (true, false))                        (* tail of i1: just_i2 = false *)
  | x :: t1, y :: t2 =>
    if x <? y then let '(r, (j1, _)) := oset_union t1 l2 in (x :: r, (j1, false))
    else if y <? x then let '(r, (_, j2)) := aux t2 in (y :: r, (false, j2))
    else let '(r, (j1, j2)) := oset_union t1 t2 in (x :: r, (j1, j2))
  end.

(* ordered_integer_set_intersect -> (result, (all_i1, all_i2)) *)
Fixpoint oset_intersect (l1 : list Z) : list Z -> list Z * (bool * bool) :=
  fix aux (l2 : list Z) : list Z * (bool * bool) :=
  match l1, l2 with
  | [], [] => ([], (true, true))
  | [], _ :: _ => ([], (true, false))
  | _ :: _, [] => ([], (false, true))
  | x :: t1, y :: t2 =>
    if y <? x then let '(r, (a1, _)) := aux t2 in (r, (a1, false))               (* cmp > 0 *)
    else if x <? y then let '(r, (_, a2)) := oset_intersect t1 l2 in (r, (false, a2))
    else let '(r, (a1, a2)) := oset_intersect t1 t2 in (x :: r, (a1, a2))
  end.

(* ordered_integer_set_minus: inner while = drop the elements of i2 smaller than the current one *)
Fixpoint drop_lt (x : Z) (l2 : list Z) : list Z :=
  match l2 with
  | y :: t => if y <? x then drop_lt x t else l2
  | [] => []
  end.
Fixpoint oset_minus_list (l1 l2 : list Z) : list Z :=
  match l1 with
  | [] => []
  | x :: t1 =>
    let l2' := drop_lt x l2 in
    match l2' with
    | y :: _ => if x =? y then oset_minus_list t1 l2' else x :: oset_minus_list t1 l2'
    | [] => x :: oset_minus_list t1 l2'
    end
  end.
Definition oset_minus (l1 l2 : list Z) : list Z * (bool * bool) :=
  let r := oset_minus_list l1 l2 in
  (r, (zlen r =? zlen l1, false)).                            (* pr == i1_size ? S1 : NONE *)

(* ------------------------------------------------------------------ invert, dispatch *)

(* lp_feasibility_set_int_invert: walk val = lb .. ub against the old array (as repaired: the pinned
   code asserts M < 10000 and aborts on larger fields) *)
Fixpoint invert_loop (n : nat) (val : Z) (old : list Z) : list Z :=
  match n with
  | O => []
  | S n' =>
    match old with
    | y :: t => if y =? val then invert_loop n' (val + 1) t else val :: invert_loop n' (val + 1) old
    | [] => val :: invert_loop n' (val + 1) []
    end
  end.
Definition fs_invert (s : fset) : fset :=
  mkFS (fs_M s) (negb (fs_inv s)) (invert_loop (Z.to_nat (fs_M s)) (ring_lb (fs_M s)) (fs_el s)).

Definition swap_status (st : bool * bool) : bool * bool := (snd st, fst st).   (* invert_i1_i2 *)

Inductive status := St_S1 | St_S2 | St_NEW | St_EMPTY.
Definition status_to_external (st : bool * bool) : status :=
  match st with
  | (true, _) => St_S1            (* BOTH, S1 *)
  | (false, true) => St_S2
  | (false, false) => St_NEW
  end.

(* intersect, s1 listed (e1), s2 complemented (e2) *)
Definition isect_LI (M : Z) (e1 e2 : list Z) : fset * (bool * bool) :=
  if fs_size_approx (mkFS M true e2) <? zlen e1 then
    let tmp := fs_invert (mkFS M true e2) in
    let '(r, st) := oset_intersect e1 (fs_el tmp) in (mkFS M false r, st)
  else
    let '(r, st) := oset_minus e1 e2 in
    (* as repaired: nothing removed and |s1| = |s2| means the result is s2 as well -> BOTH (the pinned
       code left S1, which the swap of the (complemented, listed) call turns into S2 although the
       result is s1) *)
    let st' := if fst st && (zlen e1 =? fs_size_approx (mkFS M true e2)) then (true, true) else st in
    (mkFS M false r, st').

Definition fs_intersect_internal (s1 s2 : fset) : fset * (bool * bool) :=
  let M := fs_M s1 in
  match fs_inv s1, fs_inv s2 with
  | true, true => let '(r, st) := oset_union (fs_el s1) (fs_el s2) in (mkFS M true r, st)
  | false, false => let '(r, st) := oset_intersect (fs_el s1) (fs_el s2) in (mkFS M false r, st)
  | true, false => let '(r, st) := isect_LI (fs_M s2) (fs_el s2) (fs_el s1) in (r, swap_status st)
  | false, true => isect_LI M (fs_el s1) (fs_el s2)
  end.

Definition fs_intersect (s1 s2 : fset) : fset := fst (fs_intersect_internal s1 s2).
Definition fs_intersect_with_status (s1 s2 : fset) : fset * status :=
  let '(r, st) := fs_intersect_internal s1 s2 in
  (r, if fs_is_empty r then St_EMPTY else status_to_external st).

(* union, s1 complemented (e1), s2 listed (e2) *)
Definition union_IL (M : Z) (e1 e2 : list Z) : fset * (bool * bool) :=
  if fs_size_approx (mkFS M true e1) <? zlen e2 then
    let tmp := fs_invert (mkFS M true e1) in
    let '(r, st) := oset_union (fs_el tmp) e2 in (mkFS M false r, st)
  else
    let '(r, st) := oset_minus e1 e2 in
    (* as repaired, see isect_LI *)
    let st' := if fst st && (zlen e2 =? fs_size_approx (mkFS M true e1)) then (true, true) else st in
    (mkFS M true r, st').

Definition fs_union_internal (s1 s2 : fset) : fset * (bool * bool) :=
  let M := fs_M s1 in
  match fs_inv s1, fs_inv s2 with
  | true, true => let '(r, st) := oset_intersect (fs_el s1) (fs_el s2) in (mkFS M true r, st)
  | false, false => let '(r, st) := oset_union (fs_el s1) (fs_el s2) in (mkFS M false r, st)
  | false, true => let '(r, st) := union_IL (fs_M s2) (fs_el s2) (fs_el s1) in (r, swap_status st)
  | true, false => union_IL M (fs_el s1) (fs_el s2)
  end.

Definition fs_union (s1 s2 : fset) : fset := fst (fs_union_internal s1 s2).
Definition fs_union_with_status (s1 s2 : fset) : fset * status :=
  let '(r, st) := fs_union_internal s1 s2 in
  (r, if fs_is_empty r then St_EMPTY else status_to_external st).

(* lp_feasibility_set_int_eq *)
Fixpoint list_eq_Z (a b : list Z) : bool :=
  match a, b with
  | [], [] => true
  | x :: ta, y :: tb => (x =? y) && list_eq_Z ta tb
  | _, _ => false
  end.
Definition fs_eq (s1 s2 : fset) : bool :=
  if Bool.eqb (fs_inv s1) (fs_inv s2) then
    if negb (zlen (fs_el s1) =? zlen (fs_el s2)) then false
    else list_eq_Z (fs_el s1) (fs_el s2)
  else
    if negb (fs_size_approx s1 =? fs_size_approx s2) then false
    else zlen (fst (oset_intersect (fs_el s1) (fs_el s2))) =? 0.

(* the denoted subset of the field as a sorted list (specification-side function, also used by the
   driver to print denotations of small sets) *)
Definition fs_elements (s : fset) : list Z :=
  if fs_inv s then invert_loop (Z.to_nat (fs_M s)) (ring_lb (fs_M s)) (fs_el s) else fs_el s.

(* ------------------------------------------------------------------ univariate polynomials over Z_M *)

(* lp_upolynomial_t: sparse monomials (degree, coefficient), increasing degree, coefficients
   normalised and non-zero, the zero polynomial is [(0, 0)] *)
Definition upoly := list (N * Z).

Fixpoint upoly_construct_from (K : ring) (i : N) (cs : list Z) : upoly :=
  match cs with
  | [] => []
  | c :: t =>
    let c' := ring_norm K c in                                 (* integer_assign(K, &tmp, c_i) *)
    if Z.sgn c' =? 0 then upoly_construct_from K (N.succ i) t
    else (i, c') :: upoly_construct_from K (N.succ i) t
  end.
Definition upoly_construct (K : ring) (cs : list Z) : upoly :=
  match upoly_construct_from K 0 cs with [] => [(0%N, 0)] | m => m end.

Definition upoly_degree (p : upoly) : N := last (map fst p) 0%N.
Definition upoly_is_zero (p : upoly) : bool :=
  match p with
  | [(d, c)] => (d =? 0)%N && (Z.sgn c =? 0)
  | _ => false
  end.

(* lp_upolynomial_evaluate_at_integer *)
Definition upoly_eval (K : ring) (p : upoly) (x : Z) : Z :=
  fold_left (fun value m => int_add_mul K value (snd m) (int_pow K x (fst m))) p 0.

(* upolynomial_roots_find_brute_force: x runs from lb, p iterations, stops when `degree` roots are found *)
Fixpoint bf_loop (n : nat) (K : ring) (f : upoly) (d : Z) (x : Z) (found : Z) : list Z :=
  match n with
  | O => []
  | S n' =>
    let value := upoly_eval K f x in
    if int_sgn K value =? 0 then
      let r := ring_norm K x in
      if found + 1 =? d then [r] else r :: bf_loop n' K f d (x + 1) (found + 1)
    else bf_loop n' K f d (x + 1) found
  end.
Definition roots_brute_force (M : Z) (f : upoly) : list Z :=
  bf_loop (Z.to_nat M) (Some M) f (Z.of_N (upoly_degree f)) (ring_lb M) 0.

Definition field_order_limit : Z := 1000.
(* upolynomial_roots_find_Zp: None = the randomised (Rabin) branch, whose output ORDER is not determined;
   as repaired the result is sorted in both branches (the pinned code returned the Rabin roots in the
   order they were split off, and lp_polynomial_constraint_get_feasible_set_Zp stored them unsorted) *)
Definition roots_find_Zp (M : Z) (f : upoly) : option (list Z) :=
  if M <? field_order_limit then Some (roots_brute_force M f) else None.

(* the reference: every field element, evaluated (specification-side; equals roots_brute_force by
   theorem, and is what the randomised branch is compared against for small fields) *)
Definition roots_reference (M : Z) (f : upoly) : list Z :=
  filter (fun a => int_sgn (Some M) (upoly_eval (Some M) f a) =? 0)
         (invert_loop (Z.to_nat M) (ring_lb M) []).

(* checker for a root list returned by the implementation (any order): in range, pairwise distinct,
   every element a root *)
Fixpoint nodup_Z (l : list Z) : bool :=
  match l with
  | [] => true
  | x :: t => negb (existsb (Z.eqb x) t) && nodup_Z t
  end.
Definition roots_sound_check (M : Z) (f : upoly) (rs : list Z) : bool :=
  forallb (fun r => in_ring (Some M) r && (int_sgn (Some M) (upoly_eval (Some M) f r) =? 0)) rs
  && nodup_Z rs.

(* ------------------------------------------------------------------ completeness certificates *)

(* dense polynomial arithmetic used by the certificate checker *)
Fixpoint padd (a b : list Z) : list Z :=
  match a, b with
  | [], _ => b
  | _, [] => a
  | x :: ta, y :: tb => (x + y) :: padd ta tb
  end.
Fixpoint pmul (a b : list Z) : list Z :=
  match a with
  | [] => []
  | x :: ta => padd (map (Z.mul x) b) (0 :: pmul ta b)
  end.
Fixpoint peval (l : list Z) (x : Z) : Z :=
  match l with [] => 0 | c :: t => c + x * peval t x end.

(* modular exponentiation: the standard library's square-and-multiply Zpow_mod (Zpow_facts) *)
Definition powmod (b e M : Z) : Z := Zpow_mod b e M.

(* Certificate: f = lc * prod (x - r_i) * prod (x^2 + b_j x + c_j)  (mod M), each quadratic with
   discriminant a quadratic non-residue (Euler).  If it checks, the roots of f are exactly the r_i. *)
Definition cert_product (lc : Z) (rs : list Z) (qs : list (Z * Z)) : list Z :=
  fold_left (fun acc q => pmul acc [snd q; fst q; 1])
            qs (fold_left (fun acc r => pmul acc [- r; 1]) rs [lc]).
Definition all_zero_mod (M : Z) (l : list Z) : bool := forallb (fun x => x mod M =? 0) l.
Fixpoint coeffs_cong (M : Z) (a b : list Z) {struct a} : bool :=
  match a, b with
  | [], _ => all_zero_mod M b
  | _ :: _, [] => all_zero_mod M a
  | x :: ta, y :: tb => ((x - y) mod M =? 0) && coeffs_cong M ta tb
  end.
Definition cert_ok (M : Z) (f : list Z) (lc : Z) (rs : list Z) (qs : list (Z * Z)) : bool :=
  (2 <? M) && negb (lc mod M =? 0)
  && coeffs_cong M f (cert_product lc rs qs)
  && forallb (fun q => powmod (fst q * fst q - 4 * snd q) ((M - 1) / 2) M =? M - 1) qs.
(* the sorted, normalised, duplicate-free list of the certified roots *)
Definition cert_roots (M : Z) (rs : list Z) : list Z :=
  unique_sorted (sort_Z (map (ring_norm (Some M)) rs)).

(* ------------------------------------------------------------------ constraints over Z_M *)

(* coefficient_t: numeric, or polynomial in variable x with coefficient list (constant term first) *)
Inductive coef := CNum (c : Z) | CPoly (x : nat) (cs : list coef).

(* coefficient_evaluate_integer: out = sum_i value(c_i) * x^i, every step normalised in K *)
Fixpoint coef_eval (K : ring) (m : nat -> Z) (c : coef) : Z :=
  match c with
  | CNum n => ring_norm K n
  | CPoly x cs =>
    (fix go (cs : list coef) (out exp : Z) : Z :=
       match cs with
       | [] => out
       | ci :: t =>
         let tmp := coef_eval K m ci in
         let out' := int_add_mul K out tmp exp in
         go t out' (int_mul K exp (m x))
       end) cs (ring_norm K 0) (ring_norm K 1)
  end.

(* coefficient_to_univariate_m: `top` is the one variable without a value.  univariate_coeffs = the
   array `coeff` handed to lp_upolynomial_construct *)
Definition univariate_coeffs (K : ring) (top : nat) (m : nat -> Z) (A : coef) : list Z :=
  match A with
  | CNum c => [c]
  | CPoly x cs =>
    if negb (Nat.eqb x top) then [coef_eval K m A]
    else map (coef_eval K m) cs
  end.
Definition to_univariate_m (K : ring) (top : nat) (m : nat -> Z) (A : coef) : upoly :=
  upoly_construct K (univariate_coeffs K top m A).

Inductive zp_cond := ZpEQ | ZpNE.
Definition zp_negate (c : zp_cond) : zp_cond := match c with ZpEQ => ZpNE | ZpNE => ZpEQ end.
Definition zp_is_eq (c : zp_cond) : bool := match c with ZpEQ => true | ZpNE => false end.

(* lp_polynomial_constraint_get_feasible_set_Zp; None = randomised root-finding branch *)
Definition constraint_feasible_set_Zp (M : Z) (top : nat) (m : nat -> Z) (A : coef)
           (cond : zp_cond) (negated : bool) : option fset :=
  let cond := if negated then zp_negate cond else cond in
  let up := to_univariate_m (Some M) top m A in
  if (upoly_degree up =? 0)%N then
    if upoly_is_zero up then Some (if zp_is_eq cond then fs_new_full M else fs_new_empty M)
    else Some (if zp_is_eq cond then fs_new_empty M else fs_new_full M)
  else
    match roots_find_Zp M up with
    | Some rs => Some (mkFS M (negb (zp_is_eq cond)) rs)
    | None => None
    end.

(* the reference for every field size (specification-side) *)
Definition constraint_feasible_set_reference (M : Z) (top : nat) (m : nat -> Z) (A : coef)
           (cond : zp_cond) (negated : bool) : fset :=
  let cond := if negated then zp_negate cond else cond in
  let up := to_univariate_m (Some M) top m A in
  if (upoly_degree up =? 0)%N then
    if upoly_is_zero up then (if zp_is_eq cond then fs_new_full M else fs_new_empty M)
    else (if zp_is_eq cond then fs_new_empty M else fs_new_full M)
  else mkFS M (negb (zp_is_eq cond)) (roots_reference M up).

(* lp_polynomial_constraint_evaluate_Zp *)
Definition constraint_evaluate_Zp (M : Z) (m : nat -> Z) (A : coef) (cond : zp_cond) : bool :=
  let value := coef_eval (Some M) m A in
  let p_sign := negb (int_is_zero (Some M) value) in
  match cond with ZpEQ => negb p_sign | ZpNE => p_sign end.

Definition assign_set (m : nat -> Z) (x : nat) (v : Z) : nat -> Z :=
  fun y => if Nat.eqb y x then v else m y.

(* ------------------------------------------------------------------ reduce_degree_Zp (univariate) *)

(* dense coefficient list of a univariate lp_polynomial over Z_M: normalised, no trailing zero,
   the zero / constant polynomial is a one-element list *)
Fixpoint strip_zeros_rev (l : list Z) : list Z :=      (* on the reversed list: drop leading zeros *)
  match l with
  | [] => []
  | c :: t => if c =? 0 then strip_zeros_rev t else l
  end.
Definition strip_zeros (l : list Z) : list Z :=
  match rev (strip_zeros_rev (rev l)) with [] => [0] | r => r end.
Definition dense_norm (M : Z) (l : list Z) : list Z := strip_zeros (map (ring_norm (Some M)) l).

Definition red_index (m i : Z) : Z :=
  let j := i mod (m - 1) in if j =? 0 then m - 1 else j.

Fixpoint list_upd (l : list Z) (j : nat) (v : Z) {struct l} : list Z :=
  match l, j with
  | [], _ => []
  | _ :: t, O => v :: t
  | x :: t, S j' => x :: list_upd t j' v
  end.

(* the for loop i = m .. SIZE(C)-1 of coefficient_reduce_Zp: hi = coefficients m.., lo = 0..m-1 *)
Fixpoint red_pass (K : ring) (m i : Z) (hi lo : list Z) : list Z :=
  match hi with
  | [] => lo
  | c :: t =>
    let lo' :=
      if int_is_zero K c then lo
      else
        let j := Z.to_nat (red_index m i) in
        let cj := nth j lo 0 in
        if int_is_zero K cj then list_upd lo j c                 (* coefficient_swap *)
        else list_upd lo j (int_add K cj c) in                   (* coefficient_add  *)
    red_pass K m (i + 1) t lo'
  end.

(* one turn of the while loop (taken when M < SIZE(C)); the C loop runs it until SIZE(C) <= M, which
   holds after the first turn (all coefficients of index >= M are zero afterwards) *)
Definition reduce_step (M : Z) (l : list Z) : list Z :=
  let m := Z.to_nat M in
  strip_zeros (red_pass (Some M) M M (skipn m l) (firstn m l)).
Fixpoint reduce_loop (fuel : nat) (M : Z) (l : list Z) : option (list Z) :=
  match fuel with
  | O => None
  | S f => if M <? zlen l then reduce_loop f M (reduce_step M l) else Some l
  end.
Definition reduce_degree_Zp_uni (fuel : nat) (M : Z) (coeffs : list Z) : option (list Z) :=
  reduce_loop fuel M (dense_norm M coeffs).
