(* Bridge between the list model UPoly.v and MathComp's {poly Z} (stdlib Z is made an idomainType /
   realDomainType by mathcomp.zify.ssrZ).  Poly l : {poly Z} is the denotation of the coefficient list l. *)
From Coq Require Import ZArith.
From LP Require Import UPoly.
Set Warnings "-notation-overridden,-ambiguous-paths".
From mathcomp Require Import all_ssreflect all_algebra.
From mathcomp Require Import ssrZ zify.
Set Warnings "notation-overridden,ambiguous-paths".
Import GRing.Theory.
Set Implicit Arguments.
Unset Strict Implicit.
Unset Printing Implicit Defensive.
Local Open Scope ring_scope.

Notation PZ := (Poly : seq Z -> {poly Z}).

Lemma ZeqbP (x y : Z) : (Z.eqb x y) = (x == y).
Proof. by apply/idP/eqP => /Z.eqb_eq. Qed.

Lemma Poly_cons0 (c : Z) (s : seq Z) : Poly (c :: s) = c%:P + Poly s * 'X.
Proof. by rewrite /= cons_poly_def addrC. Qed.

Lemma Poly_pnorm (p : seq Z) : Poly (pnorm p) = Poly p.
Proof.
elim: p => //= c q IH; rewrite -IH.
case: (pnorm q) => [|d q'] //=.
by rewrite ZeqbP; case: eqP => [->|_] //=; rewrite !cons_poly_def mul0r add0r ?polyC0.
Qed.

Lemma last_pnorm_neq0 (p : seq Z) : last 1 (pnorm p) != 0.
Proof.
elim: p => [|c q IH] //=.
case E: (pnorm q) IH => [|d q'] /= IH; last by [].
by rewrite ZeqbP; case: (c =P 0) => //= /eqP.
Qed.

(* the canonical form of the model is exactly MathComp's polyseq *)
Lemma polyseq_Poly_pnorm (p : seq Z) : polyseq (Poly p) = pnorm p.
Proof.
rewrite -Poly_pnorm. have := last_pnorm_neq0 p.
by move: (pnorm p) => s Hs; rewrite (PolyK Hs).
Qed.

Lemma Poly_inj_norm (p q : seq Z) : Poly p = Poly q -> pnorm p = pnorm q.
Proof. by move=> E; rewrite -!polyseq_Poly_pnorm E. Qed.

Lemma Poly_padd (p q : seq Z) : Poly (padd p q) = Poly p + Poly q.
Proof.
elim: p q => [|a p IH] [|b q] /=; rewrite ?add0r ?addr0 //.
by rewrite IH !cons_poly_def mulrDl polyCD addrACA.
Qed.

Lemma Poly_pscale (c : Z) (p : seq Z) : Poly (pscale c p) = c *: Poly p.
Proof.
elim: p => [|a p IH] /=; first by rewrite scaler0.
by rewrite IH !cons_poly_def scalerDr -scalerAl polyCM mul_polyC.
Qed.

Lemma Poly_pneg (p : seq Z) : Poly (pneg p) = - Poly p.
Proof.
elim: p => [|a p IH] /=; first by rewrite oppr0.
by rewrite IH !cons_poly_def opprD mulNr polyCN.
Qed.

Lemma Poly_psub (p q : seq Z) : Poly (psub p q) = Poly p - Poly q.
Proof. by rewrite /psub Poly_padd Poly_pneg. Qed.

Lemma Poly_pmul (p q : seq Z) : Poly (pmul p q) = Poly p * Poly q.
Proof.
elim: p => [|a p IH] /=; first by rewrite mul0r.
rewrite Poly_padd Poly_pscale /= IH !cons_poly_def polyC0 addr0 mulrDl.
by rewrite -mul_polyC addrC mulrAC.
Qed.

Lemma Poly_pshift (k : nat) (p : seq Z) : Poly (pshift k p) = Poly p * 'X^k.
Proof.
rewrite /pshift; elim: k => [|k IH] /=; first by rewrite expr0 mulr1.
by rewrite IH cons_poly_def polyC0 addr0 exprSr mulrA.
Qed.

Lemma horner_peval (p : seq Z) (x : Z) : (Poly p).[x] = peval p x.
Proof.
elim: p => [|c p IH] /=; first by rewrite horner0.
by rewrite horner_cons IH addrC mulrC.
Qed.

Lemma coef_Poly_nth (p : seq Z) (i : nat) : (Poly p)`_i = nth 0 p i.
Proof. by rewrite coef_Poly. Qed.

Lemma nth_pderiv_aux (n : Z) (p : seq Z) (i : nat) :
  nth 0 (pderiv_aux n p) i = (n + Z.of_nat i)%Z * nth 0 p i.
Proof.
elim: p n i => [|c p IH] n [|i] /=; rewrite ?mulr0 //.
  by lia.
by rewrite IH; congr (_ * _); lia.
Qed.

Lemma natZ (n : nat) : n%:R = Z.of_nat n :> Z.
Proof.
elim: n => [|n IH] //; rewrite -addn1 natrD IH.
by lia.
Qed.

Lemma Poly_pderiv (p : seq Z) : Poly (pderiv p) = (Poly p)^`().
Proof.
apply/polyP => i; rewrite coef_deriv !coef_Poly.
case: p => [|c p] /=; first by rewrite !nth_nil mul0rn.
rewrite nth_pderiv_aux -mulr_natr mulrC natZ; congr (_ * _).
by rewrite Nat2Z.inj_succ; lia.
Qed.

Lemma Poly_ppow (p : seq Z) (n : nat) : Poly (ppow p n) = Poly p ^+ n.
Proof.
elim: n => [|n IH] /=; first by rewrite cons_poly_def mul0r add0r expr0.
by rewrite Poly_pmul IH exprS.
Qed.

Lemma pcomp_cons c (p q : seq Z) :
  UPoly.pcomp (c :: p) q = padd [:: c] (pmul q (UPoly.pcomp p q)).
Proof. by []. Qed.

Lemma Poly_pcomp (p q : seq Z) : Poly (UPoly.pcomp p q) = (Poly p) \Po (Poly q).
Proof.
elim: p => [|c p IH]; first by rewrite /= comp_poly0.
rewrite pcomp_cons.
rewrite Poly_padd Poly_pmul IH /= !cons_poly_def mul0r add0r.
by rewrite comp_polyD comp_polyM comp_polyX comp_polyC addrC mulrC.
Qed.

(* peqb decides polynomial equality *)
Lemma peqbP (p q : seq Z) : reflect (Poly p = Poly q) (peqb p q).
Proof.
rewrite /peqb.
have H : forall a b : seq Z, (fix go (a b : seq Z) : bool :=
     match a, b with
     | [::], [::] => true
     | x :: a', y :: b' => (Z.eqb x y) && go a' b'
     | _, _ => false
     end) a b = (a == b).
  elim=> [|x a IH] [|y b] //=; by rewrite IH ZeqbP eqseq_cons.
rewrite H; apply: (iffP eqP) => [E|/Poly_inj_norm //].
by rewrite -(Poly_pnorm p) -(Poly_pnorm q) E.
Qed.

Lemma size_Poly_pnorm (p : seq Z) : size (Poly p) = length (pnorm p).
Proof. by rewrite polyseq_Poly_pnorm. Qed.

Lemma List_last_nth (s : seq Z) : List.last s 0 = nth 0 s (size s).-1.
Proof. by elim: s => [|a [|b s] IH] //=. Qed.

Lemma lead_coef_plc (p : seq Z) : lead_coef (Poly p) = plc p.
Proof. by rewrite /plc lead_coefE polyseq_Poly_pnorm List_last_nth. Qed.

Lemma pdeg_size (p : seq Z) : pdeg p = (size (Poly p)).-1.
Proof. by rewrite /pdeg size_Poly_pnorm. Qed.

Lemma pis_zeroP (p : seq Z) : reflect (Poly p = 0) (pis_zero p).
Proof.
rewrite /pis_zero -polyseq_Poly_pnorm.
apply: (iffP idP) => [|->]; last by rewrite polyseq0.
by case E: (polyseq (Poly p)) => [|a s] // _; apply/eqP; rewrite -size_poly_eq0 E.
Qed.
