(* Property C01, refinement: the faithful model Coefficient.v of libpoly's recursive representation computes the
   ring operations.  c_den R rho c is the element of R denoted by a coefficient (only the entries below `size`
   count); for K = Z_M the ring R must have M = 0 (K_compat).  Together with MPolySpec.v (the reference model
   is the mathematical object, canonical forms are unique) this gives
       to_mpoly (c_op a b) = mp_op (to_mpoly a) (to_mpoly b)      over Z. *)
From Coq Require Import ZArith NArith List.
From LP Require Import Scalar ScalarProofs MPoly UPoly Coefficient CoefficientOps CoefficientInv.
Set Warnings "-notation-overridden,-ambiguous-paths".
From mathcomp Require Import all_ssreflect all_algebra.
From mathcomp Require Import ssrZ zify ring.
Set Warnings "notation-overridden,ambiguous-paths".
From LP Require Import MPolySpec.
Import GRing.Theory.
Set Implicit Arguments.
Unset Strict Implicit.
Unset Printing Implicit Defensive.
Local Open Scope ring_scope.
Delimit Scope Z_scope with SZ.

(* sum_{i<n} f(l_i) t^i over the used part of an array (structural on the list, for the nested recursion) *)
Section UsedSum.
Variable R : comRingType.
Variable f : coef -> R.
Variable t : R.
Fixpoint used_sum (n : nat) (l : seq coef) {struct l} : R :=
  match l with
  | [::] => 0
  | e :: l' => match n with O => 0 | S n' => f e + t * used_sum n' l' end
  end.
End UsedSum.

Section Den.
Variable R : comRingType.
Variable rho : var -> R.

Fixpoint c_den (c : coef) : R :=
  match c with
  | CNum z => zr R z
  | CRec x size cs => used_sum c_den (rho x) size cs
  end.

Lemma used_sumE (f : coef -> R) t n l : f c_zero = 0 ->
  used_sum f t n l = \sum_(i < n) f (c_nth i l) * t ^+ i.
Proof.
move=> f0; elim: l n => [|e l IH] [|n] /=; rewrite ?big_ord0 //.
  by rewrite big1 // => i _; rewrite /c_nth; case: (i : nat) => [|k] /=; rewrite f0 mul0r.
rewrite big_ord_recl /= expr0 mulr1 IH; congr (_ + _).
by rewrite mulr_sumr; apply: eq_bigr => i _; rewrite exprS /c_nth /=; ring.
Qed.

Lemma c_den_rec x size cs :
  c_den (CRec x size cs) = \sum_(i < size) c_den (c_nth i cs) * rho x ^+ i.
Proof. by rewrite /= used_sumE. Qed.

End Den.

(* ------------------------------------------------------------------ ring compatibility *)
Section Spec.
Variable K : ring.
Variable rk : var -> N.
Variable R : comRingType.
Variable rho : var -> R.

Definition K_compat : Prop :=
  match K with None => True | Some M => (0 < M)%SZ /\ zr R M = 0 end.
Hypothesis HK : K_compat.
Hypothesis rk_inj : forall x y, rk x = rk y -> x = y.

Notation den := (c_den rho).
Notation ok := (c_slack_ok K).
Notation isz := (c_is_zero K).

Lemma zr_norm c : zr R (ring_norm K c) = zr R c.
Proof. by move: HK; rewrite /K_compat; case: (K) => [M [HM H0]|_] //; apply: zr_ring_norm. Qed.

Lemma zr_int_add a b : zr R (int_add K a b) = zr R a + zr R b.
Proof. by rewrite /int_add zr_norm zrD. Qed.
Lemma zr_int_sub a b : zr R (int_sub K a b) = zr R a - zr R b.
Proof. by rewrite /int_sub zr_norm zrB. Qed.
Lemma zr_int_neg a : zr R (int_neg K a) = - zr R a.
Proof. by rewrite /int_neg zr_norm zrN. Qed.
Lemma zr_int_mul a b : zr R (int_mul K a b) = zr R a * zr R b.
Proof. by rewrite /int_mul zr_norm zrM. Qed.
Lemma zr_int_assign a : zr R (int_assign K a) = zr R a.
Proof. by rewrite /int_assign zr_norm. Qed.
Lemma zr_int_add_mul s a b : zr R (int_add_mul K s a b) = zr R s + zr R a * zr R b.
Proof. by rewrite /int_add_mul zr_norm zrD zrM. Qed.
Lemma zr_int_sub_mul s a b : zr R (int_sub_mul K s a b) = zr R s - zr R a * zr R b.
Proof. by rewrite /int_sub_mul zr_norm zrB zrM. Qed.

Lemma den_isz e : isz e -> den e = 0.
Proof.
case: e => [z|//] /=; rewrite /int_is_zero => /Z.eqb_eq H.
have : ring_norm K z = 0%SZ by move: H; case: (ring_norm K z).
by move=> E; rewrite -zr_norm E.
Qed.

Lemma den_zero : den c_zero = 0. Proof. by []. Qed.

(* sums over a longer index range whose extra entries vanish *)
Lemma sum_widen (F : nat -> R) m n : (m <= n)%N -> (forall i, (m <= i < n)%N -> F i = 0) ->
  \sum_(i < n) F i = \sum_(i < m) F i.
Proof.
move=> Hmn H0; rewrite (big_ord_widen n F Hmn) [LHS](bigID (fun i : 'I_n => (i < m)%N)) /=.
rewrite [X in _ + X]big1 ?addr0 // => i; rewrite -leqNgt => Hi.
by apply: H0; rewrite Hi ltn_ord.
Qed.

Lemma den_normalize c : ok c -> den (c_normalize K c) = den c.
Proof.
case: c => [//|x size cs] Hok.
have [[H1 H1'] [H2 H3]] := proj1 (ok_rec_iff K rk _ _ _) Hok.
rewrite /c_normalize; set i := norm_scan K cs size.-1.
have Hi : (i <= size.-1)%coq_nat := norm_scan_le K cs size.-1.
have Hz k : (i < k < size)%N -> den (c_nth k cs) = 0.
  move=> /andP[Hk1 Hk2]; apply: den_isz; apply: (@norm_scan_zero K cs size.-1 k); lia.
pose F := fun k : nat => den (c_nth k cs) * rho x ^+ k.
case E: i => [|j].
  rewrite c_den_rec (@sum_widen F 1 size); first by rewrite big_ord1 /F expr0 mulr1.
    by lia.
  by move=> k Hk; rewrite /F Hz ?mul0r // E.
rewrite -E !c_den_rec; symmetry; apply: (@sum_widen F); first by lia.
by move=> k Hk; rewrite /F Hz ?mul0r //; lia.
Qed.

Lemma c_nth_cons0 c l : c_nth 0 (c :: l) = c. Proof. by []. Qed.

Lemma den_wrap x c n : den (CRec x n.+1 (c :: repeat c_zero n)) = den c.
Proof.
rewrite c_den_rec big_ord_recl /= expr0 mulr1 big1 ?addr0 // => i _.
by rewrite /c_nth /= -/(c_nth i (repeat c_zero n)) c_nth_repeat mul0r.
Qed.

Lemma den_ensure_capacity x cap c : ok c -> (1 <= cap)%N -> den (c_ensure_capacity x cap c) = den c.
Proof.
case: cap => [//|n] Hc _.
case: c Hc => [z|y size cs] Hc; rewrite /c_ensure_capacity [Nat.pred _]/=; first exact: den_wrap.
case: N.eqb_spec => [_|_]; rewrite [negb _]/=; last exact: den_wrap.
have [[H1 H1'] [H2 H3]] := proj1 (ok_rec_iff K rk _ _ _) Hc.
case: Nat.ltb_spec => Hlen.
  set l' := (cs ++ _)%list.
  pose F' := fun k : nat => den (c_nth k l') * rho y ^+ k.
  rewrite !c_den_rec (@sum_widen F' size n.+1); first last.
  - move=> k Hk; rewrite /F' /l' c_nth_app.
    case: Nat.ltb_spec => Hk2; last by rewrite c_nth_repeat mul0r.
    by rewrite den_isz ?mul0r //; apply: H3; lia.
  - by lia.
  apply: eq_bigr => k _; rewrite /F' /l' c_nth_app.
  by case: Nat.ltb_spec => //; have := ltn_ord k; lia.
case: Nat.ltb_spec => Hsz //.
pose F := fun k : nat => den (c_nth k cs) * rho y ^+ k.
rewrite !c_den_rec; apply: (@sum_widen F); first by lia.
by move=> k Hk; rewrite /F den_isz ?mul0r //; apply: H3; lia.
Qed.

(* ---- entrywise operations on the used part *)
Lemma den_rec_used_map x size cs f : (size <= length cs)%coq_nat ->
  den (CRec x size (used_map f size cs)) = \sum_(k < size) den (f (c_nth k cs)) * rho x ^+ k.
Proof.
move=> Hs; rewrite c_den_rec; apply: eq_bigr => k _.
by rewrite c_nth_used_map //; have := ltn_ord k; lia.
Qed.

Lemma den_copy c : ok c -> den (c_copy c) = den c.
Proof.
elim/coef_ind': c => [//|x size cs IH] Hok.
have [[H1 H1'] [H2 H3]] := proj1 (ok_rec_iff K rk _ _ _) Hok.
rewrite [c_copy _]/= den_rec_used_map // c_den_rec; apply: eq_bigr => k _.
move/Forall_forall: IH => IH; rewrite IH //; first by apply: c_nth_in; have := ltn_ord k; lia.
exact: (ok_nth K rk _ _ _ k Hok).
Qed.

Lemma den_assign c : ok c -> den (c_assign K c) = den c.
Proof. by case: c => [z|x size cs] Hc; [rewrite /= zr_int_assign|apply: den_copy]. Qed.

Lemma den_neg_inplace c : ok c -> den (c_neg K true c) = - den c.
Proof.
elim/coef_ind': c => [z|x size cs IH] Hok; first by rewrite /= zr_int_neg.
have [[H1 H1'] [H2 H3]] := proj1 (ok_rec_iff K rk _ _ _) Hok.
move/Forall_forall: IH => IH.
cbn [c_neg].
set f := fun e => if isz e then e else c_neg K true e.
rewrite !c_den_rec -sumrN; apply: eq_bigr => k _.
have Hk := ltn_ord k.
rewrite c_nth_app used_map_length.
case: Nat.ltb_spec => [_|]; last by lia.
rewrite c_nth_used_map; [|lia|lia].
rewrite /f; case E: (isz (c_nth k cs)); first by rewrite (den_isz E) mul0r oppr0.
by rewrite IH ?mulNr //; [apply: c_nth_in; lia|apply: (ok_nth K rk _ _ _ k Hok)].
Qed.

Lemma den_neg_fresh c : ok c -> den (c_neg K false c) = - den c.
Proof.
elim/coef_ind': c => [z|x size cs IH] Hok; first by rewrite /= zr_int_neg.
have [[H1 H1'] [H2 H3]] := proj1 (ok_rec_iff K rk _ _ _) Hok.
move/Forall_forall: IH => IH.
cbn [c_neg].
set f := fun e => if isz e then c_zero else c_neg K false e.
rewrite den_normalize.
  rewrite den_rec_used_map // c_den_rec -sumrN; apply: eq_bigr => k _.
  have Hk := ltn_ord k.
  rewrite /f; case E: (isz (c_nth k cs)); first by rewrite (den_isz E) /= !mul0r oppr0.
  by rewrite IH ?mulNr //; [apply: c_nth_in; lia|apply: (ok_nth K rk _ _ _ k Hok)].
apply: ok_used_map => // k Hk; rewrite /f.
case E: (isz (c_nth k cs)) => //.
by apply: (@ok_neg K rk); apply: (ok_nth K rk _ _ _ k Hok).
Qed.

Lemma den_neg b c : ok c -> den (c_neg K b c) = - den c.
Proof. by case: b; [apply: den_neg_inplace|apply: den_neg_fresh]. Qed.

Lemma den_mul_integer a c : ok c -> den (c_mul_integer K a c) = den c * zr R a.
Proof.
elim/coef_ind': c => [z|x size cs IH] Hok; first by rewrite /= zr_int_mul.
have [[H1 H1'] [H2 H3]] := proj1 (ok_rec_iff K rk _ _ _) Hok.
move/Forall_forall: IH => IH.
cbn [c_mul_integer].
set f := fun e => if isz e then c_zero else c_mul_integer K a e.
rewrite den_normalize.
  rewrite den_rec_used_map // c_den_rec mulr_suml; apply: eq_bigr => k _.
  have Hk := ltn_ord k; rewrite /f; case E: (isz (c_nth k cs)).
    by rewrite (den_isz E) /= !mul0r.
  rewrite IH; [by ring|by apply: c_nth_in; lia|exact: (ok_nth K rk _ _ _ k Hok)].
apply: ok_used_map => // k Hk; rewrite /f.
case E: (isz (c_nth k cs)) => //.
by apply: (@ok_mul_integer K rk); apply: (ok_nth K rk _ _ _ k Hok).
Qed.

Lemma var_cmp_eq x y : var_cmp rk x y = Eq -> x = y.
Proof.
rewrite /var_cmp; case: N.eqb_spec => // _ /N.compare_eq; exact: rk_inj.
Qed.

(* \sum_(k<n) [k < m] F k  =  \sum_(k<m) F k   for m <= n *)
Lemma sum_cond (F : nat -> R) m n : (m <= n)%N ->
  \sum_(k < n) (if (k < m)%N then F k else 0) = \sum_(k < m) F k.
Proof.
move=> Hmn; rewrite (@sum_widen (fun k => if (k < m)%N then F k else 0) m n) //.
  by apply: eq_bigr => k _; rewrite ltn_ord.
by move=> k /andP[Hk _]; rewrite ltnNge Hk.
Qed.

Lemma ltb_ltn (a b : nat) : Nat.ltb a b = (a < b)%N.
Proof. by apply/idP/idP => H; lia. Qed.

Local Opaque c_upd.

Lemma den_upd0 x size cs v : (1 <= size)%coq_nat -> (size <= length cs)%coq_nat ->
  den (CRec x size (c_upd 0 v cs)) = den (CRec x size cs) - den (c_nth 0 cs) + den v.
Proof.
move=> H1 H2; rewrite !c_den_rec.
have -> : size = (size.-1).+1 by lia.
rewrite !big_ord_recl /= !expr0 !mulr1 c_nth_upd /=.
have -> : Nat.ltb 0 (length cs) by apply/Nat.ltb_lt; lia.
rewrite (eq_bigr (fun i : 'I_size.-1 => den (c_nth (bump 0 i) cs) * rho x ^+ bump 0 i)).
  by rewrite addrC [X in _ = X - _ + _]addrC addrK.
by move=> k _; rewrite c_nth_upd.
Qed.

Lemma den_copy0 x size cs : ok (CRec x size cs) ->
  den (c_nth 0 (used_map c_copy size cs)) = den (c_nth 0 cs).
Proof.
move=> Hok; have [[H1 H1'] [H2 H3]] := proj1 (ok_rec_iff K rk _ _ _) Hok.
rewrite c_nth_used_map; [|lia|lia].
by apply: den_copy; apply: (ok_nth K rk _ _ _ 0%N Hok).
Qed.

Lemma den_add fuel a b r : ok a -> ok b -> c_add K rk fuel a b = Some r -> den r = den a + den b.
Proof.
elim: fuel a b r => [//|f IH] a b r Ha Hb; cbn [c_add].
case Ecmp: (cmp_type rk a b).
- case: a b Ha Hb Ecmp => [z1|x sa ca] [z2|y sb cb] // Ha Hb Ecmp.
    by case=> <-; rewrite /= zr_int_add.
  have Exy := var_cmp_eq Ecmp; subst y.
  have [[Ha1 Ha1'] [Ha2 Ha3]] := proj1 (ok_rec_iff K rk _ _ _) Ha.
  have [[Hb1 Hb1'] [Hb2 Hb3]] := proj1 (ok_rec_iff K rk _ _ _) Hb.
  case E: (opt_map _ _) => [l|//] Hr.
  have -> : r = c_normalize K (CRec x (Nat.max sa sb) l) by case: Hr.
  have Hn : (1 <= Nat.max sa sb)%coq_nat by lia.
  have Hent k : (k < Nat.max sa sb)%N ->
      ok (c_nth k l) /\ den (c_nth k l) = (if (k < sa)%N then den (c_nth k ca) else 0) + (if (k < sb)%N then den (c_nth k cb) else 0).
    move=> Hk; have := @opt_map_seq_nth _ _ _ k E; rewrite !ltb_ltn => /(_ ltac:(lia)).
    case: (ltnP k sa) => Hka; [case: (ltnP k sb) => Hkb|].
    - move=> Ek; split; first by apply: (ok_add K rk _ _ _ _ _ _ Ek); [exact: (ok_nth K rk _ _ _ k Ha)|exact: (ok_nth K rk _ _ _ k Hb)].
      by apply: (IH _ _ _ _ _ Ek); [exact: (ok_nth K rk _ _ _ k Ha)|exact: (ok_nth K rk _ _ _ k Hb)].
    - case=> <-; have Hoka := ok_nth K rk _ _ _ k Ha; split; first exact: (@ok_assign K rk).
      by rewrite den_assign // addr0.
    - have Hkb : (k < sb)%N by lia.
      rewrite Hkb; case=> <-; have Hokb := ok_nth K rk _ _ _ k Hb; split; first exact: (@ok_assign K rk).
      by rewrite den_assign // add0r.
  have Hokl : ok (CRec x (Nat.max sa sb) l).
    apply: (ok_opt_map_rec K rk x _ _ _ Hn E) => k v Hk Hv.
    have [Hk1 _] := Hent k ltac:(lia).
    by move: Hv; rewrite (@opt_map_seq_nth _ _ _ k E) // => -[<-].
  rewrite den_normalize // c_den_rec.
  rewrite (eq_bigr (fun k : 'I_(Nat.max sa sb) =>
     (if (k < sa)%N then den (c_nth k ca) * rho x ^+ k else 0) + (if (k < sb)%N then den (c_nth k cb) * rho x ^+ k else 0))).
    rewrite big_split !c_den_rec.
    by rewrite (@sum_cond (fun k => den (c_nth k ca) * rho x ^+ k)) ?(@sum_cond (fun k => den (c_nth k cb) * rho x ^+ k)) //; lia.
  move=> k _; have [_ ->] := Hent k (ltn_ord k).
  by rewrite mulrDl; case: (k < sa)%N; case: (k < sb)%N; rewrite ?mul0r.
- (* a < b *)
  case: b Hb Ecmp => [//|y sb cb] Hb Ecmp.
  cbn [c_copy].
  case E: (c_add _ _ _ _ _) => [r0|//] Hr.
  have -> : r = CRec y sb (c_upd 0 r0 (used_map c_copy sb cb)) by case: Hr.
  have [[Hb1 Hb1'] [Hb2 Hb3]] := proj1 (ok_rec_iff K rk _ _ _) Hb.
  have D0 := IH _ _ _ Ha (ok_nth K rk _ _ _ 0%N Hb) E.
  rewrite den_upd0 //; last by rewrite used_map_length; lia.
  rewrite (den_copy0 Hb) D0.
  have := den_copy Hb; cbn [c_copy] => ->.
  by ring.
- case: a Ha Ecmp => [//|x sa ca] Ha Ecmp.
  cbn [c_copy].
  case E: (c_add _ _ _ _ _) => [r0|//] Hr.
  have -> : r = CRec x sa (c_upd 0 r0 (used_map c_copy sa ca)) by case: Hr.
  have [[Ha1 Ha1'] [Ha2 Ha3]] := proj1 (ok_rec_iff K rk _ _ _) Ha.
  have D0 := IH _ _ _ (ok_nth K rk _ _ _ 0%N Ha) Hb E.
  rewrite den_upd0 //; last by rewrite used_map_length; lia.
  rewrite (den_copy0 Ha) D0.
  have := den_copy Ha; cbn [c_copy] => ->.
  by ring.
Qed.

Lemma den_sub fuel a b r : ok a -> ok b -> c_sub K rk fuel a b = Some r -> den r = den a - den b.
Proof.
elim: fuel a b r => [//|f IH] a b r Ha Hb; cbn [c_sub].
case Ecmp: (cmp_type rk a b).
- case: a b Ha Hb Ecmp => [z1|x sa ca] [z2|y sb cb] // Ha Hb Ecmp.
    by case=> <-; rewrite /= zr_int_sub.
  have Exy := var_cmp_eq Ecmp; subst y.
  have [[Ha1 Ha1'] [Ha2 Ha3]] := proj1 (ok_rec_iff K rk _ _ _) Ha.
  have [[Hb1 Hb1'] [Hb2 Hb3]] := proj1 (ok_rec_iff K rk _ _ _) Hb.
  case E: (opt_map _ _) => [l|//] Hr.
  have -> : r = c_normalize K (CRec x (Nat.max sa sb) l) by case: Hr.
  have Hn : (1 <= Nat.max sa sb)%coq_nat by lia.
  have Hent k : (k < Nat.max sa sb)%N ->
      ok (c_nth k l) /\ den (c_nth k l) = (if (k < sa)%N then den (c_nth k ca) else 0) - (if (k < sb)%N then den (c_nth k cb) else 0).
    move=> Hk; have := @opt_map_seq_nth _ _ _ k E; rewrite !ltb_ltn => /(_ ltac:(lia)).
    case: (ltnP k sa) => Hka; [case: (ltnP k sb) => Hkb|].
    - move=> Ek; split; first by apply: (ok_sub K rk _ _ _ _ _ _ Ek); [exact: (ok_nth K rk _ _ _ k Ha)|exact: (ok_nth K rk _ _ _ k Hb)].
      by apply: (IH _ _ _ _ _ Ek); [exact: (ok_nth K rk _ _ _ k Ha)|exact: (ok_nth K rk _ _ _ k Hb)].
    - case=> <-; have Hoka := ok_nth K rk _ _ _ k Ha; split; first exact: (@ok_assign K rk).
      by rewrite den_assign // subr0.
    - have Hkb : (k < sb)%N by lia.
      rewrite Hkb; case=> <-; have Hokb := ok_nth K rk _ _ _ k Hb; split; first exact: (@ok_neg K rk).
      by rewrite den_neg // sub0r.
  have Hokl : ok (CRec x (Nat.max sa sb) l).
    apply: (ok_opt_map_rec K rk x _ _ _ Hn E) => k v Hk Hv.
    have [Hk1 _] := Hent k ltac:(lia).
    by move: Hv; rewrite (@opt_map_seq_nth _ _ _ k E) // => -[<-].
  rewrite den_normalize // c_den_rec.
  rewrite (eq_bigr (fun k : 'I_(Nat.max sa sb) =>
     (if (k < sa)%N then den (c_nth k ca) * rho x ^+ k else 0) - (if (k < sb)%N then den (c_nth k cb) * rho x ^+ k else 0))).
    rewrite sumrB !c_den_rec.
    by rewrite (@sum_cond (fun k => den (c_nth k ca) * rho x ^+ k)) ?(@sum_cond (fun k => den (c_nth k cb) * rho x ^+ k)) //; lia.
  move=> k _; have [_ ->] := Hent k (ltn_ord k).
  by rewrite mulrBl; case: (k < sa)%N; case: (k < sb)%N; rewrite ?mul0r.
- case E: (c_sub _ _ _ _ _) => [r0|//] Hr.
  have -> : r = c_neg K true r0 by case: Hr.
  rewrite den_neg; last exact: (ok_sub K rk _ _ _ _ Hb Ha E).
  by rewrite (IH _ _ _ Hb Ha E) opprB.
- case: a Ha Ecmp => [//|x sa ca] Ha Ecmp.
  cbn [c_copy].
  case E: (c_sub _ _ _ _ _) => [r0|//] Hr.
  have -> : r = CRec x sa (c_upd 0 r0 (used_map c_copy sa ca)) by case: Hr.
  have [[Ha1 Ha1'] [Ha2 Ha3]] := proj1 (ok_rec_iff K rk _ _ _) Ha.
  have D0 := IH _ _ _ (ok_nth K rk _ _ _ 0%N Ha) Hb E.
  rewrite den_upd0 //; last by rewrite used_map_length; lia.
  rewrite (den_copy0 Ha) D0.
  have := den_copy Ha; cbn [c_copy] => ->.
  by ring.
Qed.

(* ---- add_ordered_monomial (with the repaired ensure_capacity) *)
Lemma den_upd x size cs d v : (d < size)%N -> (size <= length cs)%coq_nat ->
  den (CRec x size (c_upd d v cs)) = den (CRec x size cs) + (den v - den (c_nth d cs)) * rho x ^+ d.
Proof.
move=> Hd Hs; rewrite !c_den_rec (bigD1 (Ordinal Hd)) //= [in RHS](bigD1 (Ordinal Hd)) //=.
rewrite c_nth_upd Nat.eqb_refl /=.
have -> : Nat.ltb d (length cs) by apply/Nat.ltb_lt; lia.
have -> : \sum_(i < size | i != Ordinal Hd) den (c_nth i (c_upd d v cs)) * rho x ^+ i =
          \sum_(i < size | i != Ordinal Hd) den (c_nth i cs) * rho x ^+ i.
  apply: eq_bigr => k Hk; rewrite c_nth_upd.
  have -> : Nat.eqb d k = false; last by [].
  by apply/Nat.eqb_neq => E; move: Hk; rewrite -val_eqE /= E eqxx.
set S := \sum_(_ < _ | _) _.
by rewrite mulrBl [RHS]addrC addrA subrK.
Qed.

Definition powers_den (m : seq (var * nat)) : R := \prod_(p <- m) rho p.1 ^+ p.2.

Lemma den_add_om fuel m a c r : ok c -> c_add_om K rk fuel m a c = Some r ->
  den r = den c + zr R a * powers_den m.
Proof.
rewrite /c_add_om.
elim: fuel m c r => [//|f IH] m c r Hc; cbn [c_add_om_gen].
case: m => [|[x d] m'].
- case: c Hc => [z|x size cs] Hc; first by case=> <-; rewrite /= zr_int_add /powers_den big_nil mulr1.
  case E: (c_add_om_gen _ _ _ _ _ _ _) => [r0|//] Hr.
  have -> : r = CRec x size (c_upd 0 r0 cs) by case: Hr.
  have [[H1 H1'] [H2 H3]] := proj1 (ok_rec_iff K rk _ _ _) Hc.
  rewrite den_upd //; last by lia.
  by rewrite (IH _ _ _ (ok_nth K rk _ _ _ 0%N Hc) E) expr0; ring.
- have Epow : powers_den ((x, d) :: m') = rho x ^+ d * powers_den m' by rewrite /powers_den big_cons.
  case Ehere: (match c with CNum _ => true | CRec y _ _ => if var_cmp rk x y is Lt then false else true end).
  + have Hcap : (1 <= d.+1)%N by [].
    have Hok1 := @ok_ensure_capacity K rk x d.+1 c Hc ltac:(lia).
    have Hden1 := den_ensure_capacity x Hc Hcap.
    have Hsz := ensure_capacity_size x d.+1 c.
    have Hvar : match c_ensure_capacity x d.+1 c with CRec y _ _ => y = x | _ => True end.
      rewrite /c_ensure_capacity; case: (c) => [//|y size cs].
      case: N.eqb_spec => [Exy|Hne] /=; last by [].
      by subst y; case: Nat.ltb => //; case: Nat.ltb.
    case E1: (c_ensure_capacity x d.+1 c) Hok1 Hden1 Hsz Hvar => [//|y size cs] Hok1 Hden1 Hsz Hvar; subst y.
    case E: (c_add_om_gen _ _ _ _ _ _ _) => [r0|//] Hr.
    have -> : r = c_normalize K (CRec x size (c_upd d r0 cs)) by case: Hr.
    have [[H1 H1'] [H2 H3]] := proj1 (ok_rec_iff K rk _ _ _) Hok1.
    have Hr0 := IH _ _ _ (ok_nth K rk _ _ _ d Hok1) E.
    rewrite den_normalize; last first.
      apply: (@ok_upd K rk x size cs d r0 Hok1); last by lia.
      exact: (ok_add_om_gen K rk _ _ _ _ _ _ (good_ens_repaired K rk) (ok_nth K rk _ _ _ d Hok1) E).
    rewrite den_upd; [|lia|lia].
    by rewrite Hden1 Hr0 Epow; ring.
  + case: c Hc Ehere => [//|y size cs] Hc Ehere.
    case E: (c_add_om_gen _ _ _ _ _ _ _) => [r0|//] Hr.
    have -> : r = CRec y size (c_upd 0 r0 cs) by case: Hr.
    have [[H1 H1'] [H2 H3]] := proj1 (ok_rec_iff K rk _ _ _) Hc.
    rewrite den_upd //; last by lia.
    by rewrite (IH _ _ _ (ok_nth K rk _ _ _ 0%N Hc) E) expr0; ring.
Qed.

(* ---- the canonical polynomial read off by the traversal denotes the same element *)
Definition term_conv (t : seq (var * nat) * Z) : term := (mono_of_powers t.1, t.2).

Lemma mono_den_of_powers m : mono_den rho (mono_of_powers m) = powers_den m.
Proof.
rewrite /powers_den /mono_of_powers; elim: m => [|[x d] m IH] /=; first by rewrite big_nil.
by rewrite big_cons mono_den_mul mono_den_var IH /= Nat2N.id.
Qed.

Lemma den_terms c : mp_den rho [seq term_conv t | t <- c_terms K c] = den c.
Proof.
elim/coef_ind': c => [z|x size cs IH].
  by rewrite /= /term_den /= zr_int_assign mulr1 addr0.
cbn [c_terms c_den].
set F := fun d e => _.
have G : forall l n d, Forall (fun e => mp_den rho [seq term_conv t | t <- c_terms K e] = den e) l ->
   mp_den rho [seq term_conv t | t <- used_flat F n d l] = rho x ^+ d * used_sum den (rho x) n l.
  elim=> [|e l IHl] n d Hl /=; first by rewrite mulr0.
  case: n => [|n] /=; first by rewrite mulr0.
  move: Hl => /Forall_cons_iff [He Hl].
  rewrite map_cat mp_den_cat IHl // exprS mulrDr; congr (_ + _); last by ring.
  rewrite /F; case Ez: (isz e); first by rewrite (den_isz Ez) /= mulr0.
  rewrite -He -map_comp.
  elim: (c_terms K e) => [|[m c] ts IHt] /=; first by rewrite mulr0.
  rewrite IHt mulrDr; congr (_ + _).
  rewrite /term_den /=; case: Nat.eqb_spec => [->|_] /=; first by rewrite expr0 mul1r.
  rewrite mono_den_mul mono_den_var Nat2N.id; ring.
by rewrite G // expr0 mul1r.
Qed.

Theorem to_mpoly_den c : mp_den rho (to_mpoly K c) = den c.
Proof. by rewrite /to_mpoly mp_den_of_terms den_terms. Qed.

(* ---- shl (with the repaired ensure_capacity): the swap loop moves entry k to k+n *)
Definition shl_step (n : nat) (l0 : seq coef) (i : nat) : seq coef :=
  if isz (c_nth i l0) then l0 else c_upd i (c_nth (i + n) l0) (c_upd (i + n) (c_nth i l0) l0).

Lemma shl_loop_den n old cs : (0 < n)%N -> (old + n <= length cs)%coq_nat ->
  (forall p, (old <= p)%N -> den (c_nth p cs) = 0) ->
  forall i, (i <= old)%N ->
  let l := foldl (shl_step n) cs (rev (iota i (old - i))) in
  length l = length cs /\
  forall p, den (c_nth p l) =
    if [&& (n <= p)%N, (i <= p - n)%N & (p - n < old)%N] then den (c_nth (p - n) cs)
    else if (i <= p)%N then 0 else den (c_nth p cs).
Proof.
move=> Hn Hlen Hz i Hi.
have [m Hm] : exists m, (old - i = m)%N by eexists.
elim: m i Hi Hm => [|m IH] i Hi Hm.
  have Ei : i = old by lia.
  rewrite Hm /=; split=> // p; subst i.
  case: ifP => [/and3P[H1 H2 H3]|_]; first by lia.
  by case: ifP => // Hp; apply: Hz.
have Hi' : (i.+1 <= old)%N by lia.
have Hm' : (old - i.+1 = m)%N by lia.
have [L J] := IH _ Hi' Hm'.
rewrite Hm /= rev_cons -cats1 foldl_cat /= -Hm'.
set l := foldl _ _ _ in L J *.
have Di : den (c_nth i l) = den (c_nth i cs).
  rewrite J; have -> : [&& (n <= i)%N, (i.+1 <= i - n)%N & (i - n < old)%N] = false by lia.
  by rewrite ltnn.
have Din : den (c_nth (i + n) l) = 0.
  rewrite J; have -> : [&& (n <= i + n)%N, (i.+1 <= i + n - n)%N & (i + n - n < old)%N] = false by lia.
  by have -> : (i < i + n)%N by lia.
(* both branches leave the same denotations *)
suff G : length (shl_step n l i) = length cs /\
         forall p, den (c_nth p (shl_step n l i)) =
           if p == (i + n)%N then den (c_nth i cs) else if p == i then 0 else den (c_nth p l).
  case: G => GL G; split=> // p; rewrite G.
  have [->|Hne1] := eqVneq p (i + n)%N.
    have -> : [&& (n <= i + n)%N, (i <= i + n - n)%N & (i + n - n < old)%N] by lia.
    by rewrite addnK.
  have [->|Hne2] := eqVneq p i.
    have -> : [&& (n <= i)%N, (i <= i - n)%N & (i - n < old)%N] = false by lia.
    by rewrite leqnn.
  rewrite J.
  have -> : [&& (n <= p)%N, (i.+1 <= p - n)%N & (p - n < old)%N] = [&& (n <= p)%N, (i <= p - n)%N & (p - n < old)%N].
    by move/eqP: Hne1; move/eqP: Hne2; lia.
  case: ifP => // _.
  by have -> : (i < p)%N = (i <= p)%N by move/eqP: Hne2; lia.
rewrite /shl_step; case Ez: (isz (c_nth i l)).
  split=> // p.
  have Z1 : den (c_nth i cs) = 0 by rewrite -Di; apply: den_isz.
  have [->|Hne1] := eqVneq p (i + n)%N; first by rewrite Din Z1.
  by have [->|Hne2] := eqVneq p i; rewrite // Di Z1.
split; first by rewrite !c_upd_length.
move=> p; rewrite !c_nth_upd c_upd_length.
have Hl1 : Nat.ltb i (length l) by apply/Nat.ltb_lt; lia.
have Hl2 : Nat.ltb (i + n) (length l) by apply/Nat.ltb_lt; lia.
rewrite Hl1 Hl2 !andbT.
have [->|Hne1] := eqVneq p (i + n)%N.
  have -> : Nat.eqb i (i + n) = false by apply/Nat.eqb_neq; lia.
  by rewrite Nat.eqb_refl Di.
have [->|Hne2] := eqVneq p i; first by rewrite Nat.eqb_refl Din.
have -> : Nat.eqb i p = false by apply/Nat.eqb_neq => E; move/eqP: Hne2; lia.
by have -> : Nat.eqb (i + n) p = false by apply/Nat.eqb_neq => E; move/eqP: Hne1; lia.
Qed.

Lemma fold_left_foldl (A B : Type) (f : A -> B -> A) l a : fold_left f l a = foldl f a l.
Proof. by elim: l a => [|b l IH] a //=. Qed.
Lemma List_rev_rev (A : Type) (l : seq A) : List.rev l = rev l.
Proof. by elim: l => [|a l IH] //=; rewrite IH rev_cons -cats1. Qed.

Lemma c_nth_consS a l p : c_nth p.+1 (a :: l) = c_nth p l. Proof. by []. Qed.

Lemma den_shl s0 x n : ok s0 -> den (c_shl K s0 x n) = den s0 * rho x ^+ n.
Proof.
move=> H0; rewrite /c_shl /c_shl_gen.
case Ez: (isz s0); first by rewrite /= (den_isz Ez) mul0r.
case: n => [|n] /=; first by rewrite expr0 mulr1.
set old := match s0 with CNum _ => 1%N | CRec y size _ => if (y =? x)%num then size else 1%N end.
have Hold : (1 <= old)%N.
  rewrite /old; case: (s0) H0 => [//|y sz cs0] Hs0.
  have [[H1 _] _] := proj1 (ok_rec_iff K rk _ _ _) Hs0.
  by case: N.eqb_spec => _ //; lia.
have Hcap : (1 <= old + n.+1)%N by lia.
have Hok1 := @ok_ensure_capacity K rk x (old + n.+1) s0 H0 ltac:(lia).
have Hden1 := den_ensure_capacity x H0 Hcap.
have Hsz := ensure_capacity_size x (old + n.+1) s0.
(* shape of the array after ensure_capacity *)
have Hshape : match c_ensure_capacity x (old + n.+1) s0 with
              | CRec y size cs => y = x /\ (forall p, (old <= p)%N -> den (c_nth p cs) = 0) /\
                                  \sum_(k < old) den (c_nth k cs) * rho x ^+ k = den s0
              | CNum _ => False end.
  rewrite /c_ensure_capacity /old; case: (s0) H0 => [z|y sz cs0] Hs0.
    split=> //; split=> [[|p] // _|]; last by rewrite big_ord1 expr0 mulr1.
    by rewrite c_nth_consS c_nth_repeat.
  have [[H1 H1'] [H2 H3]] := proj1 (ok_rec_iff K rk _ _ _) Hs0.
  rewrite N.eqb_sym; case: N.eqb_spec => [Exy|Hne] /=.
    subst y.
    have Hslack p : (sz <= p)%N -> den (c_nth p cs0) = 0 by move=> Hp; apply: den_isz; apply: H3; lia.
    case: (Nat.ltb (length cs0) _).
      split=> //; split=> [p Hp|].
        rewrite c_nth_app; case: Nat.ltb_spec => _; first exact: Hslack.
        by rewrite c_nth_repeat.
      rewrite used_sumE //; apply: eq_bigr => k _; rewrite c_nth_app.
      by case: Nat.ltb_spec => //; have := ltn_ord k; lia.
    by case: (Nat.ltb sz _); split=> //; split=> //; rewrite used_sumE.
  split=> //; split=> [[|p] // _|]; last by rewrite big_ord1 expr0 mulr1.
  by rewrite c_nth_consS; have -> : c_nth p [:: c_zero & repeat c_zero n] = c_zero by exact: (c_nth_repeat p n.+1).
case E1: (c_ensure_capacity x (old + n.+1) s0) Hok1 Hden1 Hsz Hshape => [//|y size cs] Hok1 Hden1 Hsz [Ey [Hz Hsum]].
subst y.
have [[H1 H1'] [H2 H3]] := proj1 (ok_rec_iff K rk _ _ _) Hok1.
rewrite fold_left_foldl List_rev_rev.
have [] := @shl_loop_den n.+1 old cs ltac:(lia) _ Hz 0%N ltac:(lia); first by lia.
rewrite subn0 => L J.
rewrite c_den_rec -Hsum mulr_suml.
rewrite (eq_bigr (fun p : 'I_size => if (n.+1 <= p < old + n.+1)%N then den (c_nth (p - n.+1) cs) * rho x ^+ p else 0)); last first.
  move=> p _; rewrite J leq0n /=.
  have -> : (n < p)%N && (p - n.+1 < old)%N = (n < p < old + n.+1)%N by lia.
  by case: ifP => _; rewrite ?mul0r.
rewrite -(big_mkord xpredT (fun p => if (n.+1 <= p < old + n.+1)%N then den (c_nth (p - n.+1) cs) * rho x ^+ p else 0)).
rewrite (@big_cat_nat _ _ _ (old + n.+1)) //=; last by lia.
rewrite [X in _ + X]big_nat_cond [X in _ + X]big1 ?addr0; last by move=> p /andP[Hp _]; have -> : (n.+1 <= p < old + n.+1)%N = false by lia.
rewrite (@big_cat_nat _ _ _ n.+1) //=; last by lia.
rewrite big_nat_cond big1 ?add0r; last by move=> p /andP[Hp _]; have -> : (n.+1 <= p < old + n.+1)%N = false by lia.
rewrite -{1}[n.+1]add0n big_addn addnK big_mkord; apply: eq_bigr => k _.
have -> : (n.+1 <= k + n.+1 < old + n.+1)%N by have := ltn_ord k; lia.
by rewrite addnK exprD mulrA.
Qed.

End Spec.

(* ------------------------------------------------------------------ the rank function of a variable order *)
Lemma index_of_spec x l i k : index_of x l i = Some k ->
  ((i <= k)%coq_nat /\ (k < i + length l)%coq_nat) /\ List.nth (k - i) l x = x.
Proof.
elim: l i => [//|y l IH] i /=; case: N.eqb_spec => [<- [<-]|_ /IH [H1 H2]].
  by split; [lia|rewrite subnn].
split; first by lia.
by have -> : (k - i = (k - i.+1).+1)%N by lia.
Qed.

Lemma rk_of_inj ord x y : rk_of ord x = rk_of ord y -> x = y.
Proof.
rewrite /rk_of.
case Ex: (index_of x ord 0) => [i|]; case Ey: (index_of y ord 0) => [j|].
- move=> /Nat2N.inj E; subst j.
  have [_ Hx] := index_of_spec Ex; have [Hj Hy] := index_of_spec Ey.
  by rewrite -Hx -Hy; apply: nth_indep; lia.
- have [Hi _] := index_of_spec Ex; lia.
- have [Hj _] := index_of_spec Ey; lia.
- lia.
Qed.

(* ------------------------------------------------------------------ refinement to the reference model *)
Lemma mono_of_powers_wf m : mono_wf (mono_of_powers m).
Proof.
rewrite /mono_of_powers; elim: m => [|p m IH] //=.
by apply: mono_wf_mul => //; apply: mono_wf_var.
Qed.

Theorem to_mpoly_wf K c : mp_wf (to_mpoly K c).
Proof.
apply: mp_wf_of_terms => t /mapP[u _ ->] /=; exact: mono_of_powers_wf.
Qed.

Section RefineZ.
Variable rk : var -> N.
Hypothesis rk_inj : forall x y, rk x = rk y -> x = y.
Notation ok := (c_slack_ok None).
Notation mp := (to_mpoly None).

Lemma compatZ (R : comRingType) : K_compat None R. Proof. by []. Qed.

Theorem c_neg_refines b c : ok c -> mp (c_neg None b c) = mp_neg (mp c).
Proof.
move=> Hc; apply: mp_canonical_unique; [exact: to_mpoly_wf|apply: mp_wf_neg; exact: to_mpoly_wf|].
move=> R rho; rewrite mp_den_neg !(to_mpoly_den rho (compatZ R)).
exact: (den_neg rk rho (compatZ R)).
Qed.

Theorem c_add_refines fuel a b r : ok a -> ok b -> c_add None rk fuel a b = Some r ->
  mp r = mp_add (mp a) (mp b).
Proof.
move=> Ha Hb E; apply: mp_canonical_unique; [exact: to_mpoly_wf|apply: mp_wf_add; exact: to_mpoly_wf|].
move=> R rho; rewrite mp_den_add !(to_mpoly_den rho (compatZ R)).
exact: (den_add rho (compatZ R) rk_inj Ha Hb E).
Qed.

Theorem c_sub_refines fuel a b r : ok a -> ok b -> c_sub None rk fuel a b = Some r ->
  mp r = mp_sub (mp a) (mp b).
Proof.
move=> Ha Hb E; apply: mp_canonical_unique; [exact: to_mpoly_wf|apply: mp_wf_sub; exact: to_mpoly_wf|].
move=> R rho; rewrite mp_den_sub !(to_mpoly_den rho (compatZ R)).
exact: (den_sub rho (compatZ R) rk_inj Ha Hb E).
Qed.

Theorem c_mul_integer_refines a c : ok c -> mp (c_mul_integer None a c) = mp_scale a (mp c).
Proof.
move=> Hc; apply: mp_canonical_unique; [exact: to_mpoly_wf|apply: mp_wf_scale; exact: to_mpoly_wf|].
move=> R rho; rewrite mp_den_scale !(to_mpoly_den rho (compatZ R)) mulrC.
exact: (den_mul_integer rk rho (compatZ R)).
Qed.

Theorem c_add_om_refines fuel m a c r : ok c -> c_add_om None rk fuel m a c = Some r ->
  mp r = mp_add_term (mono_of_powers m, a) (mp c).
Proof.
move=> Hc E; apply: mp_canonical_unique; first exact: to_mpoly_wf.
  apply: mp_wf_add_term; [exact: mono_of_powers_wf|exact: to_mpoly_wf].
move=> R rho; rewrite mp_den_add_term !(to_mpoly_den rho (compatZ R)).
rewrite (den_add_om rho (compatZ R) Hc E) addrC /term_den /=.
by rewrite (mono_den_of_powers rho).
Qed.

Theorem c_normalize_refines c : ok c -> mp (c_normalize None c) = mp c.
Proof.
move=> Hc; apply: mp_canonical_unique; [exact: to_mpoly_wf|exact: to_mpoly_wf|].
move=> R rho; rewrite !(to_mpoly_den rho (compatZ R)).
exact: (den_normalize rk rho (compatZ R)).
Qed.

Theorem c_ensure_capacity_refines x cap c : ok c -> (1 <= cap)%N ->
  mp (c_ensure_capacity x cap c) = mp c.
Proof.
move=> Hc Hcap; apply: mp_canonical_unique; [exact: to_mpoly_wf|exact: to_mpoly_wf|].
move=> R rho; rewrite !(to_mpoly_den rho (compatZ R)).
exact: (den_ensure_capacity rk rho (compatZ R)).
Qed.

Theorem c_shl_refines s0 x n : ok s0 ->
  mp (c_shl None s0 x n) = mp_mul (mp s0) (mp_var_pow x (N.of_nat n)).
Proof.
move=> Hc; apply: mp_canonical_unique; first exact: to_mpoly_wf.
  by apply: mp_wf_mul; [exact: to_mpoly_wf|rewrite /mp_var_pow /= mono_wf_var].
move=> R rho; rewrite mp_den_shift Nat2N.id !(to_mpoly_den rho (compatZ R)).
exact: (den_shl rk rho (compatZ R)).
Qed.

End RefineZ.

(* Z_M: the same refinement, stated by denotation in every ring of characteristic dividing M *)
Section RefineZm.
Variable M : Z.
Hypothesis HM : (0 < M)%SZ.
Variable rk : var -> N.
Hypothesis rk_inj : forall x y, rk x = rk y -> x = y.
Variable R : comRingType.
Hypothesis HR : zr R M = 0.
Variable rho : var -> R.
Notation K := (Some M).
Notation ok := (c_slack_ok K).
Notation mp := (to_mpoly K).

Lemma compatZm : K_compat K R. Proof. by split. Qed.

Theorem c_add_refines_Zm fuel a b r : ok a -> ok b -> c_add K rk fuel a b = Some r ->
  mp_den rho (mp r) = mp_den rho (mp_reduce K (mp_add (mp a) (mp b))).
Proof.
move=> Ha Hb E; rewrite /mp_reduce (mp_den_reduce _ _ HM HR) mp_den_add !(to_mpoly_den rho compatZm).
exact: (den_add rho compatZm rk_inj Ha Hb E).
Qed.

Theorem c_sub_refines_Zm fuel a b r : ok a -> ok b -> c_sub K rk fuel a b = Some r ->
  mp_den rho (mp r) = mp_den rho (mp_reduce K (mp_sub (mp a) (mp b))).
Proof.
move=> Ha Hb E; rewrite /mp_reduce (mp_den_reduce _ _ HM HR) mp_den_sub !(to_mpoly_den rho compatZm).
exact: (den_sub rho compatZm rk_inj Ha Hb E).
Qed.

Theorem c_neg_refines_Zm b c : ok c ->
  mp_den rho (mp (c_neg K b c)) = mp_den rho (mp_reduce K (mp_neg (mp c))).
Proof.
move=> Hc; rewrite /mp_reduce (mp_den_reduce _ _ HM HR) mp_den_neg !(to_mpoly_den rho compatZm).
exact: (den_neg rk rho compatZm).
Qed.

Theorem c_mul_integer_refines_Zm a c : ok c ->
  mp_den rho (mp (c_mul_integer K a c)) = mp_den rho (mp_reduce K (mp_scale a (mp c))).
Proof.
move=> Hc; rewrite /mp_reduce (mp_den_reduce _ _ HM HR) mp_den_scale !(to_mpoly_den rho compatZm) mulrC.
exact: (den_mul_integer rk rho compatZm).
Qed.

Theorem c_add_om_refines_Zm fuel m a c r : ok c -> c_add_om K rk fuel m a c = Some r ->
  mp_den rho (mp r) = mp_den rho (mp_reduce K (mp_add_term (mono_of_powers m, a) (mp c))).
Proof.
move=> Hc E; rewrite /mp_reduce (mp_den_reduce _ _ HM HR) mp_den_add_term !(to_mpoly_den rho compatZm).
by rewrite (den_add_om rho compatZm Hc E) addrC /term_den /= (mono_den_of_powers rho).
Qed.

Theorem c_shl_refines_Zm s0 x n : ok s0 ->
  mp_den rho (mp (c_shl K s0 x n)) = mp_den rho (mp_reduce K (mp_mul (mp s0) (mp_var_pow x (N.of_nat n)))).
Proof.
move=> Hc; rewrite /mp_reduce (mp_den_reduce _ _ HM HR) mp_den_shift Nat2N.id !(to_mpoly_den rho compatZm).
exact: (den_shl rk rho compatZm).
Qed.

End RefineZm.
