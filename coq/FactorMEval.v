(* C05: integer evaluation is a ring morphism on the reference multivariate polynomials (MPoly.v), so that the
   multivariate multiply-back checker has a semantic reading:  prod (eval f_i)^m_i = eval input  at every point. *)
From Coq Require Import ZArith NArith List Bool Lia.
From LP Require Import MPoly FactorCheck.
Import ListNotations.
Local Open Scope Z_scope.
Lemma mono_eval_nil rho : mono_eval rho [] = 1. Proof. reflexivity. Qed.
Lemma mono_eval_cons rho x e m : mono_eval rho ((x, e) :: m) = rho x ^ Z.of_N e * mono_eval rho m. Proof. reflexivity. Qed.
Lemma mp_eval_nil rho : mp_eval rho [] = 0. Proof. reflexivity. Qed.
Lemma mp_eval_cons rho m c p : mp_eval rho ((m, c) :: p) = c * mono_eval rho m + mp_eval rho p. Proof. reflexivity. Qed.
Ltac sm := cbn [mono_mul mp_add_term fold_right fst snd]; repeat first [rewrite mono_eval_nil | rewrite mono_eval_cons | rewrite mp_eval_nil | rewrite mp_eval_cons].

Lemma mono_cmp_eq' (a b : mono) : mono_cmp a b = Eq -> a = b.
Proof.
revert b; induction a as [|[x e] a IH]; intros [|[y f] b]; simpl; try congruence.
destruct (N.compare x y) eqn:E1; try congruence.
destruct (N.compare e f) eqn:E2; try congruence.
intros H; apply IH in H. apply N.compare_eq in E1. apply N.compare_eq in E2. congruence.
Qed.

Lemma mono_eval_mul rho (a b : mono) : mono_eval rho (mono_mul a b) = mono_eval rho a * mono_eval rho b.
Proof.
revert b; induction a as [|[x e] a IH]; intros b.
- sm. ring.
- induction b as [|[y f] b IHb].
  + sm. ring.
  + cbn [mono_mul]. cbn [mono_mul] in IHb. destruct (N.compare x y) eqn:E.
    * apply N.compare_eq in E; subst y. rewrite !mono_eval_cons, IH.
      rewrite N2Z.inj_add, Z.pow_add_r by apply N2Z.is_nonneg. ring.
    * rewrite !mono_eval_cons, IH, mono_eval_cons. ring.
    * rewrite (mono_eval_cons rho y f), IHb, !mono_eval_cons. ring.
Qed.

Lemma mp_eval_add_term rho m c p : mp_eval rho (mp_add_term (m, c) p) = c * mono_eval rho m + mp_eval rho p.
Proof.
induction p as [|[m' c'] p IH]; sm.
- destruct (Z.eqb_spec c 0) as [->|]; sm; ring.
- destruct (Z.eqb_spec c 0) as [->|]; [sm; ring|].
  destruct (mono_cmp m m') eqn:E.
  + apply mono_cmp_eq' in E; subst m'.
    destruct (Z.eqb_spec (c + c') 0) as [H|H]; sm.
    * replace c' with (- c) by lia. ring.
    * ring.
  + sm. destruct (Z.eqb_spec c 0); [contradiction|]. rewrite IH. ring.
  + sm. ring.
Qed.

Lemma mp_eval_add rho p q : mp_eval rho (mp_add p q) = mp_eval rho p + mp_eval rho q.
Proof.
unfold mp_add; induction p as [|[m c] p IH]; sm; [ring|].
rewrite mp_eval_add_term, IH. ring.
Qed.

Lemma mp_eval_mul_term rho t p : mp_eval rho (mp_mul_term t p) = snd t * mono_eval rho (fst t) * mp_eval rho p.
Proof.
unfold mp_mul_term; induction p as [|[m c] p IH]; sm; [ring|].
rewrite mp_eval_add_term, mono_eval_mul, IH. ring.
Qed.

Lemma mp_eval_mul rho p q : mp_eval rho (mp_mul p q) = mp_eval rho p * mp_eval rho q.
Proof.
unfold mp_mul; induction p as [|[m c] p IH]; sm; [ring|].
rewrite mp_eval_add, mp_eval_mul_term, IH. cbn [fst snd]. ring.
Qed.

Lemma mp_eval_pow rho p n : mp_eval rho (mp_pow p n) = mp_eval rho p ^ Z.of_nat n.
Proof.
induction n as [|n IH]; [reflexivity|].
cbn [mp_pow]. rewrite mp_eval_mul, IH, Nat2Z.inj_succ, Z.pow_succ_r by apply Nat2Z.is_nonneg. ring.
Qed.

Fixpoint mprod_eval (rho : var -> Z) (fs : mfactors) : Z :=
  match fs with
  | [] => 1
  | (f, m) :: r => mp_eval rho f ^ Z.of_nat m * mprod_eval rho r
  end.

Lemma mp_eval_mprod rho fs : mp_eval rho (mprod fs) = mprod_eval rho fs.
Proof.
induction fs as [|[f m] fs IH]; [reflexivity|].
cbn [mprod mprod_eval]. rewrite mp_eval_mul, mp_eval_pow, IH. ring.
Qed.

Lemma mp_eqb_eq' (p q : mpoly) : mp_eqb p q = true -> p = q.
Proof.
revert q; induction p as [|[m c] p IH]; intros [|[m' c'] q]; simpl; try congruence.
destruct (mono_cmp m m') eqn:E; try congruence.
apply mono_cmp_eq' in E; subst m'.
intros H; apply andb_prop in H; destruct H as [H1 H2].
apply Z.eqb_eq in H1; apply IH in H2; congruence.
Qed.

(* (a) multivariate multiply back, semantically: at every integer point *)
Theorem mulback_M_eval fs input :
  mulback_M fs input = true -> forall rho, mprod_eval rho fs = mp_eval rho input.
Proof.
intros H rho; apply mp_eqb_eq' in H; rewrite <- H; symmetry; apply mp_eval_mprod.
Qed.
