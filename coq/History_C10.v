(* C10 regression memory: the pre-repair coefficient_root_lower_bound (return max_log - log_c0 + 1) with
   machine-checked refutations on the faithful model, and the witness that was replayed against the library
   (corpus/C10.txt, docs/C10.md).  The repaired function (offset 2) is EvalSgn.root_lower_bound. *)
From Coq Require Import ZArith List Bool.
From LP Require Import Scalar UPoly EvalSgn.
Import ListNotations.
Local Open Scope Z_scope.

Definition root_lower_bound_prefix (p : list Z) : Z := root_lower_bound_off 1 p.

(* "any root of C(x) that is not zero is outside of [-L, L], L = 1/2^k" is false for the pinned k:
   B = 2 - 7x - 7x^2 - 7x^3 - 7x^4 has k = 2 (L = 1/4) but changes sign between 1/5 and 1/4, so it has a real
   root r with 1/5 < r < 1/4 = L.  (psgn_at_rat B a b = sign of B(a/b), computed exactly.) *)
Theorem C10_root_lower_bound_prefix_refuted :
  exists B : list Z,
    root_lower_bound_prefix B = 2 /\ psgn_at_rat B 1 5 = 1 /\ psgn_at_rat B 1 4 = -1.
Proof. exists [2; -7; -7; -7; -7]. vm_compute. repeat split. Qed.

(* the same polynomial with the repaired exponent: k = 3, L = 1/8, and B > 0 on [0, 1/8] is consistent *)
Example root_lower_bound_repaired_witness : root_lower_bound [2; -7; -7; -7; -7] = 3.
Proof. reflexivity. Qed.

(* End to end on the exit logic: the value v = 1507328 * x - 1 at the positive root x of
   1 + 2637824 x - 3976065974272 x^2  (libpoly input, see corpus).  Its eliminant is B = 2^k' * (4 - 7z - 7z^2)
   (we use the primitive part, the bound only depends on the bit lengths), pre-repair bound k = 1, L = 1/2.
   The first enclosure computed by coefficient_value_approx is I = (-9/32, 14/32): it contains 0, both ends are
   inside (-1/2, 1/2), so the loop exits with sign 0 - but B changes sign between 3/8 and 27/64, i.e. the value
   (the only root of B in I, 0.4063...) is positive. *)
Definition witness_B : list Z := [4; -7; -7].
Definition witness_I : rint := mkRint (-9, 32) (14, 32) false true true.

Theorem C10_sgn_prefix_refuted :
  sgn_first witness_I = None /\
  sgn_exit witness_I (root_lower_bound_prefix witness_B) = Some 0 /\
  (* a positive root of B strictly inside I *)
  psgn_at_rat witness_B 3 8 = 1 /\ psgn_at_rat witness_B 27 64 = -1 /\
  q_cmp (ri_a witness_I) (3, 8) = -1 /\ q_cmp (27, 64) (ri_b witness_I) = -1 /\
  (* with the repaired bound the same enclosure does not exit: the loop refines instead *)
  sgn_exit witness_I (root_lower_bound witness_B) = None.
Proof. vm_compute. repeat split. Qed.
