(* C09 proofs: the state machine of Refine.v never changes what a number denotes.
   Reals: an arbitrary real closed field R (MathComp rcfType); no axioms.  A coefficient list p : seq Z acts on R
   as pR p = map_poly ZR (Poly p); a dyadic end point (a, n) denotes dyR (a, n) = a / 2^n.

   Why rcfType and not the Sturm counting functions of UPoly.v: "exactly one root of f in (a, b)" and "the
   denotation" are statements about real numbers; MathComp's `roots p a b : seq R` gives both (den = its only
   element) with IVT (ivt_sign), sign constancy between roots (polyrN0_itv) and uniqueness of the sorted root
   list available axiom-free, whereas the Sturm functions of UPoly.v have no correctness theorem yet. *)
From Coq Require Import ZArith NArith List.
From LP Require Import UPoly Refine.
Set Warnings "-notation-overridden,-ambiguous-paths".
From mathcomp Require Import all_ssreflect all_algebra all_real_closed.
From mathcomp Require Import ssrZ zify ring.
Set Warnings "notation-overridden,ambiguous-paths".
From LP Require Import UPolySpec.
Import GRing.Theory Num.Theory Num.Def Order.TTheory.
Set Implicit Arguments.
Unset Strict Implicit.
Unset Printing Implicit Defensive.
Local Open Scope ring_scope.
Delimit Scope Z_scope with ZZ.

Section Den.
Variable R : rcfType.
Implicit Types (p q : {poly R}) (a b m r : R) (x : anum) (l : seq Z) (d e : dyq).

(* ---------------------------------------------------------------- Z, dyadics, rationals inside R *)
Definition ZR (z : Z) : R := (int_of_Z z)%:~R.

Fact ZR_is_additive : additive ZR.
Proof. by move=> u v; rewrite /ZR raddfB /= rmorphB. Qed.
Canonical ZR_additive := Additive ZR_is_additive.
Fact ZR_is_multiplicative : multiplicative ZR.
Proof. by split=> [u v|]; rewrite /ZR ?rmorphM ?rmorph1. Qed.
Canonical ZR_rmorphism := AddRMorphism ZR_is_multiplicative.

Lemma ZR_add (u v : Z) : ZR (u + v)%ZZ = ZR u + ZR v. Proof. exact: rmorphD. Qed.
Lemma ZR_sub (u v : Z) : ZR (u - v)%ZZ = ZR u - ZR v. Proof. exact: rmorphB. Qed.
Lemma ZR_mul (u v : Z) : ZR (u * v)%ZZ = ZR u * ZR v. Proof. exact: rmorphM. Qed.
Lemma ZR_opp (u : Z) : ZR (- u)%ZZ = - ZR u. Proof. exact: rmorphN. Qed.
Lemma ZR_0 : ZR 0%ZZ = 0. Proof. exact: rmorph0. Qed.
Lemma ZR_1 : ZR 1%ZZ = 1. Proof. exact: rmorph1. Qed.
Lemma ZR_2 : ZR 2%ZZ = 2%:R. Proof. by rewrite /ZR. Qed.

Lemma ZR_lt (u v : Z) : (ZR u < ZR v) = (Z.ltb u v).
Proof. by rewrite /ZR ltr_int; apply/idP/idP; lia. Qed.
Lemma ZR_le (u v : Z) : (ZR u <= ZR v) = (Z.leb u v).
Proof. by rewrite /ZR ler_int; apply/idP/idP; lia. Qed.
Lemma ZR_eq (u v : Z) : (ZR u == ZR v) = (Z.eqb u v).
Proof. by rewrite /ZR eqr_int; apply/idP/idP => [/eqP|/eqP]; lia. Qed.
Lemma ZR_gt0 (u : Z) : (0 < ZR u) = (Z.ltb 0 u).
Proof. by rewrite -(ZR_lt 0) rmorph0. Qed.
Lemma ZR_sgn (u : Z) : ZR (Z.sgn u) = sgr (ZR u).
Proof.
case: u => [|u|u] /=; first by rewrite ZR_0 sgr0.
  by rewrite gtr0_sg ?ZR_1 // ZR_gt0.
by rewrite ltr0_sg ?(ZR_opp 1) ?ZR_1 // -ZR_0 ZR_lt.
Qed.

Lemma ZR_eq0 (u : Z) : (ZR u == 0) = (Z.eqb u 0).
Proof. by rewrite -(ZR_eq u 0) rmorph0. Qed.

Definition tw (n : N) : R := 2%:R ^+ N.to_nat n.
Lemma tw_gt0 n : 0 < tw n. Proof. by rewrite /tw exprn_gt0 // ltr0n. Qed.
Lemma tw_neq0 n : tw n != 0. Proof. by rewrite gt_eqF // tw_gt0. Qed.
Lemma twD (i j : N) : tw (i + j) = tw i * tw j.
Proof. by rewrite /tw N2Nat.inj_add exprD. Qed.

Lemma ZR_p2 n : ZR (p2 n) = tw n.
Proof.
rewrite /p2 /tw; elim/N.peano_ind: n => [|n IH]; first by rewrite /= ZR_1 expr0.
rewrite N2Z.inj_succ Z.pow_succ_r; last by lia.
by rewrite ZR_mul IH N2Nat.inj_succ exprS ZR_2.
Qed.
Lemma p2_gt0 n : (0 < p2 n)%ZZ.
Proof. by have := tw_gt0 n; rewrite -ZR_p2 ZR_gt0 => /Z.ltb_lt. Qed.

Definition dyR (d : dyq) : R := ZR d.1 / tw d.2.
Definition qR (q : Z * Z) : R := ZR q.1 / ZR q.2.

Lemma sgr_divp (u v : R) : 0 < v -> sgr (u / v) = sgr u.
Proof. by move=> v0; rewrite sgrM sgrV (gtr0_sg v0) mulr1. Qed.

Lemma dyq_cmp_sgr (d e : dyq) : ZR (dyq_cmp d e) = sgr (dyR d - dyR e).
Proof.
rewrite /dyq_cmp ZR_sgn ZR_sub !ZR_mul !ZR_p2 /dyR.
have -> : ZR d.1 / tw d.2 - ZR e.1 / tw e.2 = (ZR d.1 * tw e.2 - ZR e.1 * tw d.2) / (tw d.2 * tw e.2).
  by field; rewrite !tw_neq0.
by rewrite sgr_divp // mulr_gt0 ?tw_gt0.
Qed.

Lemma ZR_lt0 (u : Z) : (ZR u < 0) = (Z.ltb u 0).
Proof. by rewrite -(ZR_lt u 0) rmorph0. Qed.
Lemma ZR_le0 (u : Z) : (ZR u <= 0) = (Z.leb u 0).
Proof. by rewrite -(ZR_le u 0) rmorph0. Qed.
Lemma ZR_ge0 (u : Z) : (0 <= ZR u) = (Z.leb 0 u).
Proof. by rewrite -(ZR_le 0 u) rmorph0. Qed.

Lemma dyq_ltP (d e : dyq) : dyq_lt d e = (dyR d < dyR e).
Proof. by rewrite /dyq_lt -ZR_lt0 dyq_cmp_sgr sgr_lt0 subr_lt0. Qed.
Lemma dyq_leP (d e : dyq) : dyq_le d e = (dyR d <= dyR e).
Proof. by rewrite /dyq_le -ZR_le0 dyq_cmp_sgr sgr_le0 subr_le0. Qed.
Lemma dyq_eqP (d e : dyq) : dyq_eq d e = (dyR d == dyR e).
Proof. by rewrite /dyq_eq -ZR_eq0 dyq_cmp_sgr sgr_eq0 subr_eq0. Qed.

Lemma dyq_maxP (d e : dyq) : dyR (dyq_max d e) = Num.max (dyR d) (dyR e).
Proof. by rewrite /dyq_max dyq_ltP; case: ltP. Qed.
Lemma dyq_minP (d e : dyq) : dyR (dyq_min d e) = Num.min (dyR d) (dyR e).
Proof. by rewrite /dyq_min dyq_ltP; case: ltgtP. Qed.

Lemma p2_sub (k n : N) : (n <= k)%N -> tw (k - n) * tw n = tw k.
Proof. by move=> le; rewrite -twD; congr tw; lia. Qed.

Lemma dyq_midP (d e : dyq) : dyR (dyq_mid d e) = (dyR d + dyR e) / 2%:R.
Proof.
rewrite /dyq_mid /dyR /=; set k := N.max d.2 e.2.
have hd : tw (k - d.2) * tw d.2 = tw k by apply: p2_sub; rewrite /k; lia.
have he : tw (k - e.2) * tw e.2 = tw k by apply: p2_sub; rewrite /k; lia.
have ed : ZR d.1 / tw d.2 = ZR d.1 * tw (k - d.2) / tw k.
  by rewrite -hd; field; rewrite !tw_neq0.
have ee : ZR e.1 / tw e.2 = ZR e.1 * tw (k - e.2) / tw k.
  by rewrite -he; field; rewrite !tw_neq0.
rewrite ZR_add !ZR_mul !ZR_p2 twD ed ee.
have -> : tw 1 = 2%:R by rewrite /tw /= expr1.
have n2 : (2%:R : R) != 0 by rewrite pnatr_eq0.
by field; rewrite ?tw_neq0 ?n2.
Qed.

Lemma dyq_cmp_q_sgr (d : dyq) (q : Z * Z) : (0 < q.2)%ZZ -> ZR (dyq_cmp_q d q) = sgr (dyR d - qR q).
Proof.
move=> q0; have q0R : 0 < ZR q.2 by rewrite ZR_gt0; apply/Z.ltb_lt.
rewrite /dyq_cmp_q ZR_sgn ZR_sub !ZR_mul !ZR_p2 /dyR /qR.
have -> : ZR d.1 / tw d.2 - ZR q.1 / ZR q.2 = (ZR d.1 * ZR q.2 - ZR q.1 * tw d.2) / (tw d.2 * ZR q.2).
  by field; rewrite tw_neq0 gt_eqF.
by rewrite sgr_divp // mulr_gt0 ?tw_gt0.
Qed.

Lemma dyq_floorP (d : dyq) : ZR (dyq_floor d) <= dyR d < ZR (dyq_floor d) + 1.
Proof.
rewrite /dyq_floor /dyR; set t := p2 d.2; set a := d.1.
have t0 : (0 < t)%ZZ := p2_gt0 d.2.
have tR : 0 < tw d.2 := tw_gt0 d.2.
rewrite ler_pdivl_mulr // ltr_pdivr_mulr // -ZR_p2 -/t -ZR_1 -ZR_add -!ZR_mul ZR_le ZR_lt.
have h1 := Z.mul_div_le a t t0; have h2 := Z.mul_succ_div_gt a t t0.
apply/andP; split; [apply/Z.leb_le|apply/Z.ltb_lt]; lia.
Qed.

(* ---------------------------------------------------------------- polynomials *)
Definition pR (l : seq Z) : {poly R} := Poly [seq ZR c | c <- l].

Lemma pR_cons c l u : (pR (c :: l)).[u] = (pR l).[u] * u + ZR c.
Proof. by rewrite /pR /= horner_cons. Qed.

Lemma pR_map l : pR l = map_poly ZR (Poly l).
Proof. by rewrite /pR map_Poly // rmorph0. Qed.

Lemma peval_homP (l : seq Z) (a b : Z) : ZR b != 0 ->
  ZR (peval_hom_aux l a b).2 = ZR b ^+ size l /\
  ZR (peval_hom_aux l a b).1 * ZR b = ZR (peval_hom_aux l a b).2 * (pR l).[ZR a / ZR b].
Proof.
move=> b0; elim: l => [|c l [IH1 IH2]] /=.
  by rewrite /pR /= horner0 ZR_0 ZR_1 expr0 mul0r mulr0.
case E: (peval_hom_aux l a b) IH1 IH2 => [v bp] /= IH1 IH2.
rewrite ZR_mul IH1 exprSr; split=> //.
rewrite pR_cons ZR_add !ZR_mul mulrDl mulrDr -[ZR a * ZR v * ZR b]mulrA IH2 IH1.
move: ((pR l).[_]) => P; move: (ZR b ^+ size l) => B.
by field.
Qed.

Lemma psgn_at_ratP (l : seq Z) (a b : Z) : (0 < b)%ZZ -> ZR (psgn_at_rat l a b) = sgr (pR l).[ZR a / ZR b].
Proof.
move=> b0; have bR : 0 < ZR b by rewrite ZR_gt0; apply/Z.ltb_lt.
have [h1 h2] := peval_homP l a (lt0r_neq0 bR).
rewrite /psgn_at_rat ZR_sgn.
have: sgr (ZR (peval_hom_aux l a b).1 * ZR b) = sgr (ZR (peval_hom_aux l a b).2 * (pR l).[ZR a / ZR b]) by rewrite h2.
by rewrite !sgrM (gtr0_sg bR) mulr1 h1 (gtr0_sg (exprn_gt0 _ bR)) mul1r.
Qed.

Lemma psgn_dyP (l : seq Z) (d : dyq) : ZR (psgn_dy l d) = sgr (pR l).[dyR d].
Proof. by rewrite /psgn_dy psgn_at_ratP ?ZR_p2 //; exact: p2_gt0. Qed.
Lemma psgn_ratP (l : seq Z) (q : Z * Z) : (0 < q.2)%ZZ -> ZR (psgn_rat l q) = sgr (pR l).[qR q].
Proof. by move=> q0; rewrite /psgn_rat psgn_at_ratP. Qed.

(* ---------------------------------------------------------------- exactly one root in an interval *)
Lemma roots1P p a b r : p != 0 -> r \in `]a, b[ -> root p r ->
  (forall y, y \in `]a, b[ -> root p y -> y = r) -> roots p a b = [:: r].
Proof.
move=> p0 rab rr uq.
have rin : r \in roots p a b by rewrite in_roots rr rab p0.
have sub z : z \in roots p a b -> z = r by rewrite in_roots => /and3P[rz zab _]; exact: uq.
have := uniq_roots a b p.
case: (roots p a b) sub rin => [|z [|z' s]] //= sub.
  by rewrite inE => /eqP ->.
move=> _ /andP[]; rewrite inE negb_or => /andP[zz' _] _.
by rewrite (sub z) ?inE ?eqxx // (sub z') ?inE ?eqxx ?orbT // in zz'.
Qed.

Lemma roots1E p a b r : roots p a b = [:: r] ->
  [/\ p != 0, r \in `]a, b[, root p r & forall y, y \in `]a, b[ -> root p y -> y = r].
Proof.
move=> E; have : r \in roots p a b by rewrite E inE.
rewrite in_roots => /and3P[rr rab p0]; split=> // y yab ry.
have : y \in roots p a b by rewrite in_roots ry yab p0.
by rewrite E inE => /eqP.
Qed.

Lemma sub_itv_oo a b a' b' y : a <= a' -> b' <= b -> y \in `]a', b'[ -> y \in `]a, b[.
Proof.
move=> la lb; rewrite !in_itv /= => /andP[h1 h2].
by rewrite (le_lt_trans la h1) (lt_le_trans h2 lb).
Qed.

(* a sub-interval that still contains a root isolates the same root *)
Lemma roots1_sub p a b a' b' r : roots p a b = [:: r] -> a <= a' -> b' <= b ->
  (exists2 y, y \in `]a', b'[ & root p y) -> roots p a' b' = [:: r].
Proof.
move=> /roots1E[p0 rab rr uq] la lb [y yab ry].
have yr : y = r by apply: uq => //; exact: sub_itv_oo yab.
apply: roots1P => //; first by rewrite -yr.
by move=> z zab rz; apply: uq => //; exact: sub_itv_oo zab.
Qed.

Lemma narrow_right p a b m r : roots p a b = [:: r] -> a < m < b ->
  sgr p.[m] * sgr p.[b] = -1 -> roots p m b = [:: r].
Proof.
move=> E /andP[am mb] sg; apply: (roots1_sub E (ltW am) (lexx b)).
by have [y ymb ry] := ivt_sign (ltW mb) sg; exists y.
Qed.

Lemma narrow_left p a b m r : roots p a b = [:: r] -> a < m < b ->
  sgr p.[a] * sgr p.[m] = -1 -> roots p a m = [:: r].
Proof.
move=> E /andP[am mb] sg; apply: (roots1_sub E (lexx a) (ltW mb)).
by have [y yam ry] := ivt_sign (ltW am) sg; exists y.
Qed.

Lemma narrow_hit p a b m r : roots p a b = [:: r] -> a < m < b -> p.[m] = 0 -> m = r.
Proof.
by move=> /roots1E[_ _ _ uq] amb pm; apply: uq; rewrite ?in_itv //=; apply/rootP.
Qed.

(* signs: s, t in {-1, 0, 1} as elements of R *)
Lemma sgr_mul_eqN1 (u v : R) : sgr u * sgr v = -1 -> sgr v = - sgr u.
Proof.
by case: (sgrP u) => _; case: (sgrP v) => _; rewrite ?mulr0 ?mul0r ?mul1r ?mulr1 ?mulN1r ?opprK ?oppr0 // => /eqP;
   rewrite -?eqr_oppLR ?oppr0 ?oner_eq0 ?eqr_opp // => /eqP; rewrite ?eq_sym ?oner_eq0 //; move/eqP; rewrite -subr_eq0 opprK -mulr2n pnatr_eq0.
Qed.

(* ---------------------------------------------------------------- well-formed representations and what they denote *)
Definition noint a b : Prop := forall z : Z, ~~ (a < ZR z < b).

Definition WF (x : anum) : Prop :=
  match af x with
  | None => [/\ aa x = ab x, asa x = 0%ZZ & asb x = 0%ZZ]
  | Some l =>
    [/\ exists r, roots (pR l) (dyR (aa x)) (dyR (ab x)) = [:: r],
        ZR (asa x) = sgr (pR l).[dyR (aa x)],
        ZR (asb x) = sgr (pR l).[dyR (ab x)],
        sgr (pR l).[dyR (aa x)] * sgr (pR l).[dyR (ab x)] = -1 &
        noint (dyR (aa x)) (dyR (ab x))]
  end.

Definition den (x : anum) : R :=
  match af x with
  | None => dyR (aa x)
  | Some l => head 0 (roots (pR l) (dyR (aa x)) (dyR (ab x)))
  end.

Lemma WF_roots x l : WF x -> af x = Some l -> roots (pR l) (dyR (aa x)) (dyR (ab x)) = [:: den x].
Proof. by rewrite /WF /den => + E; rewrite E => -[[r Er] _ _ _ _]; rewrite Er. Qed.

Lemma WF_lt x l : WF x -> af x = Some l -> dyR (aa x) < dyR (ab x).
Proof.
move=> wf E; have /roots1E[_] := WF_roots wf E.
by rewrite in_itv /= => /andP[h1 h2] _ _; exact: lt_trans h1 h2.
Qed.

Lemma WF_den_in x l : WF x -> af x = Some l -> dyR (aa x) < den x < dyR (ab x).
Proof. by move=> wf E; have /roots1E[_] := WF_roots wf E; rewrite in_itv. Qed.

(* ---------------------------------------------------------------- narrowing *)
Lemma sgN1_neq0 (u w : R) : sgr u * sgr w = -1 -> (u != 0) && (w != 0).
Proof.
move=> h; apply/andP; split; apply/eqP => e; move: h; rewrite e sgr0 ?mul0r ?mulr0 => /eqP;
  by rewrite eq_sym oppr_eq0 oner_eq0.
Qed.

Lemma sg_same (u v w : R) : sgr u * sgr w = -1 -> 0 < sgr v * sgr u -> sgr v = sgr u /\ sgr v * sgr w = -1.
Proof.
move=> h pos; have /andP[u0 w0] := sgN1_neq0 h.
have e : sgr v * sgr u = 1 by move: pos; rewrite -sgrM sgr_gt0 => /gtr0_sg; rewrite sgrM.
have uu : sgr u * sgr u = 1 by rewrite -expr2 sqr_sg u0.
have ev : sgr v = sgr u by rewrite -[LHS]mulr1 -uu mulrA e mul1r.
by rewrite ev.
Qed.

Lemma sg_other (u v w : R) : sgr u * sgr w = -1 -> sgr v != 0 -> ~~ (0 < sgr v * sgr u) ->
  sgr v = sgr w /\ sgr u * sgr v = -1.
Proof.
move=> h v0 npos; have /andP[u0 w0] := sgN1_neq0 h.
have uu : sgr u * sgr u = 1 by rewrite -expr2 sqr_sg u0.
have e : sgr v * sgr u = -1.
  move: npos; rewrite -sgrM sgr_gt0 -leNgt le_eqVlt mulf_eq0 (negPf u0) orbF -sgr_eq0 (negPf v0) /=.
  by move=> /ltr0_sg.
have ev : sgr v = - sgr u by rewrite -[LHS]mulr1 -uu mulrA e mulN1r.
have ew : sgr w = - sgr u by rewrite -[LHS]mul1r -uu -mulrA [sgr u * sgr w]h mulrN1.
by rewrite ev ew mulrN uu.
Qed.

Definition Narrows x x' : Prop :=
  [/\ WF x', den x' = den x &
      af x' = None \/
      [/\ af x' = af x, asa x' = asa x, asb x' = asb x,
          dyR (aa x) <= dyR (aa x') & dyR (ab x') <= dyR (ab x)]].

Lemma Narrows_refl x : WF x -> Narrows x x.
Proof. by move=> wf; split=> //; right. Qed.

Lemma Narrows_trans x1 x2 x3 : Narrows x1 x2 -> Narrows x2 x3 -> Narrows x1 x3.
Proof.
move=> [wf2 d2 s2] [wf3 d3 s3]; split=> //; first by rewrite d3.
case: s3 => [->|[e1 e2 e3 e4 e5]]; first by left.
case: s2 => [e|[f1 f2 f3 f4 f5]]; first by left; rewrite e1.
by right; split; [rewrite e1|rewrite e2|rewrite e3|exact: le_trans f4 e4|exact: le_trans e5 f5].
Qed.

Lemma noint_sub a b a' b' : noint a b -> a <= a' -> b' <= b -> noint a' b'.
Proof.
move=> ni la lb z; apply/negP => /andP[h1 h2]; have /negP := ni z; apply.
by rewrite (le_lt_trans la h1) (lt_le_trans h2 lb).
Qed.

Lemma narrow_ok x l d : WF x -> af x = Some l -> dyR (aa x) < dyR d < dyR (ab x) ->
  Narrows x (an_narrow x l d).1.
Proof.
move=> wf E amb; have Er := WF_roots wf E.
move: (wf); rewrite /WF E => -[_ sa sb prod ni].
rewrite /an_narrow; have sm := psgn_dyP l d.
case: Z.eqb_spec => [s0|sn0] /=.
  have pm : (pR l).[dyR d] = 0.
    by apply/eqP; rewrite -sgr_eq0 -sm s0 ZR_0.
  have mr := narrow_hit Er amb pm.
  by split; [rewrite /WF /=; split| rewrite {1}/den /= mr | left].
have smn0 : sgr (pR l).[dyR d] != 0.
  by rewrite -sm ZR_eq0; apply/negP => /Z.eqb_eq.
have /andP[am mb] := amb.
case: Z.ltb_spec => [pos|npos] /=.
  have pos' : 0 < sgr (pR l).[dyR d] * sgr (pR l).[dyR (aa x)].
    by rewrite -sm -sa -ZR_mul ZR_gt0; apply/Z.ltb_lt.
  have [e1 e2] := sg_same prod pos'.
  have Er' := narrow_right Er amb e2.
  split.
  - rewrite /WF /= E; split=> //; first by exists (den x).
      by rewrite sa e1.
    exact: noint_sub ni (ltW am) (lexx _).
  - by rewrite {1}/den /= E Er'.
  - by right; split=> //=; exact: ltW.
have npos' : ~~ (0 < sgr (pR l).[dyR d] * sgr (pR l).[dyR (aa x)]).
  by rewrite -sm -sa -ZR_mul ZR_gt0; apply/negP => /Z.ltb_lt; lia.
have [e1 e2] := sg_other prod smn0 npos'.
have Er' := narrow_left Er amb e2.
split.
- rewrite /WF /= E; split=> //; first by exists (den x).
    by rewrite sb e1.
  exact: noint_sub ni (lexx _) (ltW mb).
- by rewrite {1}/den /= E Er'.
- by right; split=> //=; exact: ltW.
Qed.

Lemma refine_dir_ok x : WF x -> Narrows x (an_refine_dir x).1.
Proof.
move=> wf; rewrite /an_refine_dir; case E: (af x) => [l|]; last exact: Narrows_refl.
apply: narrow_ok => //; rewrite dyq_midP.
by have [h1 h2] := midf_lt (WF_lt wf E); rewrite h1 h2.
Qed.

Lemma refine_ok x : WF x -> Narrows x (an_refine x).
Proof. exact: refine_dir_ok. Qed.

Lemma contains_openP x d : an_contains_open x d = (dyR (aa x) < dyR d < dyR (ab x)).
Proof. by rewrite /an_contains_open !dyq_ltP. Qed.

Lemma refine_with_point_ok x d : WF x -> Narrows x (an_refine_with_point x d).
Proof.
move=> wf; rewrite /an_refine_with_point; case E: (af x) => [l|]; last exact: Narrows_refl.
case C: (an_contains_open x d); last exact: Narrows_refl.
by apply: narrow_ok => //; rewrite -contains_openP.
Qed.

(* ---------------------------------------------------------------- comparison with a rational *)
Lemma is_pointE x : an_is_point x = (af x == None).
Proof. by rewrite /an_is_point; case: (af x). Qed.

Lemma ivl_cmp_q_ok x (q : Z * Z) : WF x -> (0 < q.2)%ZZ ->
  (an_ivl_cmp_q x q = 0%ZZ /\ exists2 l, af x = Some l & dyR (aa x) < qR q < dyR (ab x)) \/
  ZR (an_ivl_cmp_q x q) = sgr (den x - qR q).
Proof.
move=> wf q0; rewrite /an_ivl_cmp_q /an_is_point.
case E: (af x) => [l|] /=; last by right; rewrite dyq_cmp_q_sgr // /den E.
have /andP[ad db] := WF_den_in wf E.
have ha := dyq_cmp_q_sgr (aa x) q0; have hb := dyq_cmp_q_sgr (ab x) q0.
case: Z.leb_spec => [ge|lt] /=.
  right; have : 0 <= sgr (dyR (aa x) - qR q) by rewrite -ha ZR_ge0; apply/Z.leb_le.
  rewrite sgr_ge0 subr_ge0 => qa; rewrite ZR_1 gtr0_sg // subr_gt0; exact: le_lt_trans qa ad.
have aq : dyR (aa x) < qR q.
  by rewrite -subr_lt0 -sgr_lt0 -ha ZR_lt0; apply/Z.ltb_lt.
case: Z.leb_spec => [le|gt] /=.
  right; have : sgr (dyR (ab x) - qR q) <= 0 by rewrite -hb ZR_le0; apply/Z.leb_le.
  rewrite sgr_le0 subr_le0 => bq; rewrite (ZR_opp 1) ZR_1 ltr0_sg // subr_lt0; exact: lt_le_trans db bq.
left; split=> //; exists l => //.
by rewrite aq /= -subr_gt0 -sgr_gt0 -hb ZR_gt0; apply/Z.ltb_lt.
Qed.

Lemma cmp_q_loop_ok fuel x (q : Z * Z) x' c : WF x -> (0 < q.2)%ZZ ->
  an_cmp_q_loop fuel x q = Some (x', c) -> Narrows x x' /\ ZR c = sgr (den x - qR q).
Proof.
move=> + q0; elim: fuel x => [|fuel IH] x wf //=.
have nr := refine_ok wf; have [wf1 d1 _] := nr.
have := ivl_cmp_q_ok wf1 q0.
case: Z.eqb_spec => [_ _|ne [[]//|h] [<- <-]]; last by rewrite h d1.
by move=> /(IH _ wf1) [n2 ->]; rewrite d1; split=> //; exact: Narrows_trans nr n2.
Qed.

Lemma cmp_q_ok fuel x (q : Z * Z) x' c : WF x -> (0 < q.2)%ZZ ->
  an_cmp_q fuel x q = Some (x', c) -> Narrows x x' /\ ZR c = sgr (den x - qR q).
Proof.
move=> wf q0; rewrite /an_cmp_q; case E: (af x) => [l|].
  have := ivl_cmp_q_ok wf q0.
  case: Z.eqb_spec => [c0|ne [[]//|h] [<- <-]] /=; last by split=> //; exact: Narrows_refl.
  case=> [[_ [l' El aqb]]|h].
    move=> {l' El}.
    case: Z.eqb_spec => [s0 [<- <-]|_]; last exact: cmp_q_loop_ok.
    split; first exact: Narrows_refl.
    have pq : (pR l).[qR q] = 0 by apply/eqP; rewrite -sgr_eq0 -psgn_ratP // s0 ZR_0.
    by rewrite (narrow_hit (WF_roots wf E) aqb pq) subrr sgr0 ZR_0.
  (* the interval test says "inside" (0) but the end points already decide: impossible branch made harmless *)
  case: Z.eqb_spec => [s0 [<- <-]|_]; last exact: cmp_q_loop_ok.
  by split; [exact: Narrows_refl | rewrite -h c0].
move=> [<- <-]; split; first exact: Narrows_refl.
by rewrite dyq_cmp_q_sgr // /den E.
Qed.

(* ---------------------------------------------------------------- floor *)
Lemma floor_ok x : WF x -> ZR (an_floor x) <= den x < ZR (an_floor x) + 1.
Proof.
move=> wf; rewrite /an_floor; have /andP[h1 h2] := dyq_floorP (aa x).
case E: (af x) => [l|]; last by rewrite /den E h1 h2.
have /andP[ad db] := WF_den_in wf E.
rewrite (le_trans h1 (ltW ad)) /= ltNge; apply/negP => le.
move: (wf); rewrite /WF E => -[_ _ _ _ ni].
have /negP := ni (dyq_floor (aa x) + 1)%ZZ; apply.
by rewrite ZR_add ZR_1 h2 (le_lt_trans le db).
Qed.

(* ---------------------------------------------------------------- replacing the polynomial by a common divisor *)
(* the premise on the gcd oracle of OCmp: g divides l over Q (c * l = h * g with c <> 0) *)
Definition divides_poly (g l : seq Z) : Prop :=
  exists (c : Z) (h : seq Z), c <> 0%ZZ /\ Poly (pscale c l) = Poly (pmul h g) :> {poly Z}.

Lemma divides_root (g l : seq Z) t : divides_poly g l -> root (pR g) t -> root (pR l) t.
Proof.
move=> [c [h [c0 E]]] /rootP rg; apply/rootP.
have : (map_poly ZR (Poly (pscale c l))).[t] = (map_poly ZR (Poly (pmul h g))).[t] by rewrite E.
rewrite Poly_pscale Poly_pmul map_polyZ rmorphM /= -!pR_map hornerZ hornerM rg mulr0 => /eqP.
by rewrite mulf_eq0 ZR_eq0 => /orP[/Z.eqb_eq|/eqP].
Qed.

Lemma sign_const p (u v : R) : (forall t, t \in `[Num.min u v, Num.max u v] -> ~~ root p t) -> sgr p.[u] = sgr p.[v].
Proof.
move=> nr; apply: (@polyrN0_itv _ `[Num.min u v, Num.max u v]) => //; rewrite in_itv /=.
  by rewrite le_minl le_maxr !lexx !orbT.
by rewrite le_minl le_maxr !lexx.
Qed.

Lemma reduce_roots p g a b r : roots p a b = [:: r] -> (forall t, root g t -> root p t) ->
  sgr g.[a] * sgr g.[b] = -1 -> roots g a b = [:: r].
Proof.
move=> E sub sg; have [p0 rab rr uq] := roots1E E.
have ab : a <= b by move: rab; rewrite in_itv /= => /andP[h1 h2]; exact: ltW (lt_trans h1 h2).
have [y yab ry] := ivt_sign ab sg.
have yr : y = r by apply: uq => //; exact: sub.
have g0 : g != 0.
  by apply/eqP => g0; move: sg; rewrite g0 !horner0 sgr0 mul0r => /eqP; rewrite eq_sym oppr_eq0 oner_eq0.
apply: roots1P => //; first by rewrite -yr.
by move=> z zab rz; apply: uq => //; exact: sub.
Qed.

Lemma reduce_wide p g a b A B r : roots p a b = [:: r] -> roots p A B = [:: r] ->
  (forall t, root g t -> root p t) -> sgr g.[a] * sgr g.[b] = -1 -> sgr p.[A] * sgr p.[B] = -1 ->
  [/\ roots g A B = [:: r], sgr g.[A] = sgr g.[a] & sgr g.[B] = sgr g.[b]].
Proof.
move=> E EW sub sg sW.
have Eg := reduce_roots E sub sg.
have [p0 rab rr uq] := roots1E E; have [_ rAB _ uqW] := roots1E EW.
have [g0 _ rg _] := roots1E Eg.
have /andP[ga0 gb0] := sgN1_neq0 sg; have /andP[pA0 pB0] := sgN1_neq0 sW.
move: rab rAB; rewrite !in_itv /= => /andP[ar rb] /andP[Ar rB].
split.
- apply: roots1P => //; first by rewrite in_itv /= Ar rB.
  by move=> z zab rz; apply: uqW => //; exact: sub.
- apply: sign_const => t; rewrite in_itv /= le_minl le_maxr => /andP[lo hi]; apply/negP => rt.
  have rpt := sub _ rt.
  have tr : t < r by case/orP: hi => h; [exact: le_lt_trans h Ar | exact: le_lt_trans h ar].
  have tb : t < b := lt_trans tr rb; have tB : t < B := lt_trans tr rB.
  case/orP: lo => lo.
    move: lo; rewrite le_eqVlt => /orP[/eqP e|At]; first by move: rpt; rewrite -e rootE (negPf pA0).
    by have := uqW t _ rpt; rewrite in_itv /= At tB => /(_ isT) e; rewrite e ltxx in tr.
  move: lo; rewrite le_eqVlt => /orP[/eqP e|lat]; first by move: rt; rewrite -e rootE (negPf ga0).
  by have := uq t _ rpt; rewrite in_itv /= lat tb => /(_ isT) e; rewrite e ltxx in tr.
- apply: sign_const => t; rewrite in_itv /= le_minl le_maxr => /andP[lo hi]; apply/negP => rt.
  have rpt := sub _ rt.
  have tr : r < t by case/orP: lo => h; [exact: lt_le_trans rB h | exact: lt_le_trans rb h].
  have ta : a < t := lt_trans ar tr; have tA : A < t := lt_trans Ar tr.
  case/orP: hi => hi.
    move: hi; rewrite le_eqVlt => /orP[/eqP e|tB]; first by move: rpt; rewrite e rootE (negPf pB0).
    by have := uqW t _ rpt; rewrite in_itv /= tA tB => /(_ isT) e; rewrite e ltxx in tr.
  move: hi; rewrite le_eqVlt => /orP[/eqP e|tb]; first by move: rt; rewrite e rootE (negPf gb0).
  by have := uq t _ rpt; rewrite in_itv /= ta tb => /(_ isT) e; rewrite e ltxx in tr.
Qed.

End Den.
